// Tree sessions (round 4): the B lines of scale.go also interleave the REST of the Tree API with the
// cursor operations, over up to three trees, so that anything a Tree (or a node) remembers between
// calls - set by one method, used by another, carried along by Clone - is exercised in the order
// "setter; barrier; consumer".  Additional ops of a B line (';'-separated like the others):
//
//	+<k>  =<k>  -<k>  ~      Add / Replace / Remove / Clear on the current tree: item e1 / e0 (the bool
//	                         returned), e- for Clear.  Like A and R they drop the cursor registers of that
//	                         tree (a tree must not be edited under a cursor) - not those of the other trees.
//	Y<s><d>                  tree slot d = slot s .Clone() (slots 0..2; slot 0 is the tree of the line):
//	                         item y<Len of the clone>
//	@<t>                     slot t becomes the current tree (every other op works on the current tree and
//	                         on ITS cursor registers; the registers of a tree survive while another tree is
//	                         current and edited): item @<t>
//	F<k>:<lim>               Tree.InorderAfter(k), the loop broken off after <lim> keys (0: never): f:<keys>
//	I<lim>                   Tree.Inorder likewise: f:<keys>
//	Tm  Tx  Tl               Tree.Min() / Tree.Max(): v:<key>;  Tree.Len(), IsEmpty(): l:<n>,<0/1>
//	F<k>:<lim>!  I<lim>!  j<r>:<lim>!   the same traversals, but the loop body PANICS at the point where the
//	                         others break (lim >= 1); the harness recovers: same items (a traversal owes its
//	                         caller nothing after a panic of the callback, and must not have left anything behind)
//	!<n>:g<k>  !<n>:c<k>  !<n>:f<k>  !<n>:F<k>   Get(k) / Cursor(k) / InorderAfter(k) broken off after one key /
//	                         InorderAfter(k) to the end, with a comparator that panics at its n-th call (n >= 1;
//	                         recovered; nothing is assigned to a register): item x whether or not the call got
//	                         that far - these calls change nothing a later call may see
//
// This file also holds the watchdog of the harness (guard) and the generators of the session lines.
package main

import (
	"fmt"
	"os"
	"runtime"
	"strconv"
	"strings"
	"time"

	"github.com/creachadair/mds/stree"
	"verif/harness/internal/tr"
)

const nSlots = 3

type session struct {
	trees [nSlots]*stree.Tree[int]
	machs [nSlots]*machine
	cur   int
	fuse  int // > 0: the comparator panics at its fuse-th call from now
}

type fusePanic struct{}
type stopPanic struct{}

// swallow runs f and recovers the panic value want (only that one)
func swallow[P comparable](want P, f func()) {
	defer func() {
		if r := recover(); r != nil {
			if p, ok := r.(P); !ok || p != want {
				panic(r)
			}
		}
	}()
	f()
}

// newSession: slot 0 = stree.New(beta, cmp) where cmp is the comparator named cmps behind the fuse
func newSession(cmps string, beta int) *session {
	s := &session{}
	cf := cmpFor(cmps)
	t := stree.New(beta, func(a, b int) int {
		if s.fuse > 0 {
			s.fuse--
			if s.fuse == 0 {
				panic(fusePanic{})
			}
		}
		return cf(a, b)
	})
	s.trees[0] = t
	s.machs[0] = &machine{t: t, big: true}
	return s
}

// limOf parses <lim> or <lim>! (the loop body panics instead of breaking; lim >= 1 then)
func limOf(s string) (lim int, bang, ok bool) {
	if strings.HasSuffix(s, "!") {
		bang, s = true, s[:len(s)-1]
	}
	lim, ok = atoiOK(s)
	if !ok || lim < 0 || (bang && lim < 1) {
		return 0, false, false
	}
	return lim, bang, true
}

// stopAt is what the loop bodies of the stopped traversals do once n keys were received: go on (true),
// break (false) or panic
func stopAt(n, lim int, bang bool) bool {
	if lim == 0 || n < lim {
		return true
	}
	if bang {
		panic(stopPanic{})
	}
	return false
}

func slotOf(c byte) (int, bool) {
	if c < '0' || c >= '0'+nSlots {
		return 0, false
	}
	return int(c - '0'), true
}

// treeOp runs one of the tree operations above; ok is false when op is none of them.
func (s *session) treeOp(op string) (item string, ok bool) {
	t, m := s.trees[s.cur], s.machs[s.cur]
	edited := func() { *m = machine{t: t, big: true} }
	switch op[0] {
	case '+', '=', '-':
		k, good := atoiOK(op[1:])
		if !good {
			return "?", true
		}
		var res bool
		switch op[0] {
		case '+':
			res = t.Add(k)
		case '=':
			res = t.Replace(k)
		default:
			res = t.Remove(k)
		}
		edited()
		return "e" + tr.B(res), true
	case '~':
		if op != "~" {
			return "?", true
		}
		t.Clear()
		edited()
		return "e-", true
	case 'Y':
		if len(op) != 3 {
			return "?", true
		}
		a, ok1 := slotOf(op[1])
		b, ok2 := slotOf(op[2])
		if !ok1 || !ok2 || a == b || s.trees[a] == nil {
			return "?", true
		}
		c := s.trees[a].Clone()
		s.trees[b] = c
		s.machs[b] = &machine{t: c, big: true}
		return "y" + strconv.Itoa(c.Len()), true
	case '@':
		if len(op) != 2 {
			return "?", true
		}
		a, ok1 := slotOf(op[1])
		if !ok1 || s.trees[a] == nil {
			return "?", true
		}
		s.cur = a
		return op, true
	case 'F':
		a := strings.Split(op[1:], ":")
		if len(a) != 2 {
			return "?", true
		}
		k, ok1 := atoiOK(a[0])
		lim, bang, ok2 := limOf(a[1])
		if !ok1 || !ok2 {
			return "?", true
		}
		var ks []int
		swallow(stopPanic{}, func() {
			for x := range t.InorderAfter(k) {
				ks = append(ks, x)
				runaway(len(ks), t)
				if !stopAt(len(ks), lim, bang) {
					break
				}
			}
		})
		return "f:" + fmtInts(ks), true
	case 'I':
		lim, bang, ok1 := limOf(op[1:])
		if !ok1 {
			return "?", true
		}
		var ks []int
		swallow(stopPanic{}, func() {
			t.Inorder(func(x int) bool {
				ks = append(ks, x)
				runaway(len(ks), t)
				return stopAt(len(ks), lim, bang)
			})
		})
		return "f:" + fmtInts(ks), true
	case '!':
		a := strings.Split(op[1:], ":")
		if len(a) != 2 || len(a[1]) < 2 || !strings.Contains("gcfF", a[1][:1]) {
			return "?", true
		}
		n, ok1 := atoiOK(a[0])
		k, ok2 := atoiOK(a[1][1:])
		if !ok1 || !ok2 || n < 1 {
			return "?", true
		}
		s.fuse = n
		swallow(fusePanic{}, func() {
			switch a[1][0] {
			case 'g':
				t.Get(k)
			case 'c':
				t.Cursor(k)
			case 'f':
				for range t.InorderAfter(k) {
					break
				}
			case 'F':
				cnt := 0
				for range t.InorderAfter(k) {
					cnt++
					runaway(cnt, t)
				}
			}
		})
		s.fuse = 0
		return "x", true
	case 'T':
		if len(op) != 2 {
			return "?", true
		}
		switch op[1] {
		case 'm':
			return "v:" + strconv.Itoa(t.Min()), true
		case 'x':
			return "v:" + strconv.Itoa(t.Max()), true
		case 'l':
			return "l:" + strconv.Itoa(t.Len()) + "," + tr.B(t.IsEmpty()), true
		}
		return "?", true
	}
	return "", false
}

// runaway ends a traversal that has yielded far more keys than the tree holds (a cycle among the
// nodes): the case then ends like any other panic of the package would.
func runaway(yielded int, t *stree.Tree[int]) {
	if yielded > 4*t.Len()+64 {
		panic("runaway traversal") // reported as panic:other
	}
}

// ---------------------------------------------------------------- watchdog

// hung is set when a case did not come back: the goroutine that runs it may be spinning or allocating
// without bound, so the line is written and the harness ends (exit status 0: the trace so far, with the
// "hang" line last, is what the check reads).
var (
	hung    bool
	theG    *tr.G
	theRule string
)

const (
	hangAfter   = 30 * time.Second
	memRunaway  = 1 << 30 // bytes of heap growth during ONE case
	memPollFrom = 200 * time.Millisecond
)

// guard runs f in a goroutine; "" when it returned, "hang" when it did not within hangAfter or grew the
// heap by more than memRunaway (an append loop over a cycle).  Panics are f's business (tr.Catch inside).
func guard(f func()) string {
	if hung && theG != nil {
		theG.W.Close(theG.Opts, theRule, nil)
		os.Exit(0)
	}
	done := make(chan struct{})
	go func() { defer close(done); f() }()
	// fast path: nearly every case ends within microseconds
	fast := time.NewTimer(memPollFrom)
	select {
	case <-done:
		fast.Stop()
		return ""
	case <-fast.C:
	}
	var ms runtime.MemStats
	runtime.ReadMemStats(&ms)
	base := ms.HeapAlloc
	start := time.Now()
	tick := time.NewTicker(50 * time.Millisecond)
	defer tick.Stop()
	for {
		select {
		case <-done:
			return ""
		case <-tick.C:
		}
		select { // the call may have ended while the process was stalled
		case <-done:
			return ""
		default:
		}
		runtime.ReadMemStats(&ms)
		if time.Since(start) > hangAfter || (ms.HeapAlloc > base && ms.HeapAlloc-base > memRunaway) {
			hung = true
			return "hang"
		}
	}
}

// ---------------------------------------------------------------- generation

// base tree of a session family: how it is built (ops of a B line) and what it holds
type sbase struct {
	cmps  string
	beta  int
	build []string
	keys  []int // Tree.Inorder after build
	mod   int   // > 0: the comparator identifies keys that differ by a multiple of mod
	tags  []string
}

func (b *sbase) head() string { return "B " + b.cmps + " " + strconv.Itoa(b.beta) + " " }

// absent neighbour of k (a key the tree does not hold, just above k in the comparator's order when the
// comparator is one of the plain ascending ones)
func has(keys []int, k int) bool {
	for _, x := range keys {
		if x == k {
			return true
		}
	}
	return false
}

func mkBase(cmps string, beta int, build []string, mod int, tags ...string) *sbase {
	s := newSession(cmps, beta)
	t := s.trees[0]
	for _, op := range build {
		if _, ok := applyMacro(t, op); ok {
			continue
		}
		s.treeOp(op)
	}
	return &sbase{cmps: cmps, beta: beta, build: build, keys: inorderKeys(t), mod: mod, tags: tags}
}

// setters: operations after which a tree could remember something (the key of the operation is k)
func (x *gen) setters(r *tr.Rand, b *sbase, full bool) [][]string {
	var out [][]string
	n := len(b.keys)
	add := func(ops ...string) { out = append(out, ops) }
	its := strconv.Itoa
	// the seek targets: every key, the absent neighbours, below and above everything (in the order of
	// Tree.Inorder, whatever the comparator)
	type target struct{ k, after int } // after = number of keys the traversal from k can yield
	var tgts []target
	for i, k := range b.keys {
		tgts = append(tgts, target{k, n - i})
		if b.mod == 0 {
			for _, d := range []int{-1, 1} {
				if !has(b.keys, k+d) {
					tgts = append(tgts, target{k + d, n}) // (how many follow depends on the comparator: sweep all)
				}
			}
		}
	}
	if n > 12 && !full {
		// sample: the ends, and a handful inside
		var sm []target
		for i, tg := range tgts {
			if i < 3 || i >= len(tgts)-3 || r.Chance(6, len(tgts)) {
				sm = append(sm, tg)
			}
		}
		tgts = sm
	}
	for _, tg := range tgts {
		// InorderAfter complete, and stopped after every number of keys it can yield
		add("F" + its(tg.k) + ":0")
		maxLim := min(tg.after, n)
		for lim := 1; lim <= maxLim; lim++ {
			if maxLim > 8 && !full && lim > 3 && lim < maxLim-1 && !r.Chance(1, 6) {
				continue
			}
			add("F" + its(tg.k) + ":" + its(lim))
			if lim <= 2 || r.Chance(1, 3) {
				add("F" + its(tg.k) + ":" + its(lim) + "!") // the loop body panics there instead
			}
		}
		add("G0=" + its(tg.k))
		add("K0=" + its(tg.k))
		// the same observers under a comparator that panics at its d-th call, for every depth d the descent can reach
		for d := 1; d <= 4 && d <= n; d++ {
			if d > 2 && !full && !r.Chance(1, 2) {
				continue
			}
			add("!" + its(d) + ":" + string("gcfF"[r.Intn(4)]) + its(tg.k))
		}
	}
	// Tree.Inorder stopped at every position; complete
	for lim := 0; lim <= n; lim++ {
		if n > 40 && !full && lim > 4 && lim < n-2 && !r.Chance(1, 8) {
			continue
		}
		add("I" + its(lim))
		if lim >= 1 && (lim <= 3 || full || r.Chance(1, 3)) {
			add("I" + its(lim) + "!")
		}
	}
	// Cursor.Inorder stopped at every position of its subtree (a limit beyond the subtree is a complete
	// traversal), a cursor moved and left behind, full walks
	for i, k := range b.keys {
		if n > 12 && !full && !r.Chance(8, n) {
			continue
		}
		for lim := 1; lim <= min(n, 7); lim++ {
			if lim > 3 && !full && !r.Chance(1, 3) {
				continue
			}
			add("K0="+its(k), "j0:"+its(lim))
			if lim <= 2 || r.Chance(1, 3) {
				add("K0="+its(k), "j0:"+its(lim)+"!")
			}
		}
		add("K0="+its(k), string("nplrumx"[r.Intn(7)])+"0")
		if i%3 == 0 {
			add("K0="+its(k), "N0")
			add("K0="+its(k), "P0")
			add("K0="+its(k), "i0")
		}
	}
	add("Tm")
	add("Tx")
	add("Tl")
	add("O0")
	add("O0", "m0")
	add("O0", "x0")
	add("Q1")
	return out
}

func nearKeys(b *sbase, k int) (pred, succ int, okp, oks bool) {
	for i, x := range b.keys {
		if x == k {
			if i > 0 {
				pred, okp = b.keys[i-1], true
			}
			if i+1 < len(b.keys) {
				succ, oks = b.keys[i+1], true
			}
		}
	}
	return
}

// edits near k on the current tree
func editsNear(r *tr.Rand, b *sbase, k int) [][]string {
	its := strconv.Itoa
	pred, succ, okp, oks := nearKeys(b, k)
	var out [][]string
	fresh := k + 1
	if b.mod > 0 {
		fresh = k + b.mod // equivalent to k under the comparator, another key value
	}
	out = append(out,
		[]string{"+" + its(k+1)}, []string{"+" + its(k-1)}, // (new keys next to k when absent, else no change)
		[]string{"-" + its(k)},
		[]string{"=" + its(fresh)}, []string{"=" + its(k)},
		[]string{"+" + its(k)},
		[]string{"-" + its(k), "+" + its(k)},
		[]string{"-" + its(k), "+" + its(k+1)},
		[]string{"~"},
	)
	if okp {
		out = append(out, []string{"-" + its(pred)}, []string{"-" + its(pred), "-" + its(k)})
	}
	if oks {
		out = append(out, []string{"-" + its(succ)}, []string{"-" + its(k), "-" + its(succ)})
	}
	if len(b.keys) > 0 {
		// the same contents by another history: drained by Clear (or key by key) and put back
		var re, drain []string
		ord := orderIdx("adzr"[r.Intn(4)], len(b.keys), r.Intn(1000))
		for _, j := range ord {
			re = append(re, "+"+its(b.keys[j]))
		}
		for _, j := range orderIdx("adzr"[r.Intn(4)], len(b.keys), r.Intn(1000)) {
			drain = append(drain, "-"+its(b.keys[j]))
		}
		out = append(out, append([]string{"~"}, re...), append(drain, re...))
		out = append(out, []string{"-" + its(b.keys[0])}, []string{"-" + its(b.keys[len(b.keys)-1])},
			[]string{"+" + its(b.keys[0]-3)}, []string{"+" + its(b.keys[len(b.keys)-1]+3)})
	}
	return out
}

func (x *gen) sessionLines() {
	g := x.g
	r := tr.NewRand(tr.NewRand(g.Seed).Uint64() ^ 0xC03504)
	its := strconv.Itoa
	full := g.Thorough()

	// ---- base trees: small ones of every kind (so that the cross product below stays affordable and a
	// failing line is short), a few of some dozens of keys
	var bases []*sbase
	addsOf := func(pat byte, n, lo, step int) []string {
		var ops []string
		for _, j := range orderIdx(pat, n, r.Intn(1000)) {
			ops = append(ops, "+"+its(lo+step*j))
		}
		return ops
	}
	for _, n := range []int{1, 2, 3, 5, 7} {
		pat := "adzrb"[r.Intn(5)]
		bases = append(bases, mkBase("n", tr.Pick(r, []int{0, 250, 1000}), addsOf(pat, n, 10, 10), 0, "session-small"))
	}
	bases = append(bases,
		mkBase("n", 1000, addsOf('b', 7, 10, 10), 0, "session-small"), // the balanced tree of 7
		mkBase("n", 1000, addsOf('a', 6, 10, 10), 0, "session-small"), // a vine
		mkBase("n", 250, nil, 0, "session-empty"),
		mkBase(tr.Pick(r, []string{"r", "A", "D", "X"}), 250, addsOf('r', 6, 10, 10), 0, "session-small", "custom-comparator"),
		mkBase(tr.Pick(r, []string{"a", "t", "h", "x"}), 100, addsOf('z', 8, 10, 10), 0, "session-small", "custom-comparator"),
		mkBase("M7", 250, addsOf('r', 5, 1, 1), 7, "session-small", "custom-comparator", "coarser-than-identity"),
		mkBase("m5", 0, addsOf('r', 4, 11, 1), 5, "session-small", "custom-comparator", "coarser-than-identity"),
	)
	// shrunk trees: keys deeper than a tree of that size grown by Adds alone would put them
	for i := 0; i < g.Scale(2, 6); i++ {
		n := 20 + r.Intn(30)
		build := []string{fmt.Sprintf("A%c:0:%d:5:%d", "adzr"[r.Intn(4)], n, r.Intn(1000)),
			fmt.Sprintf("R%c:%d:%d", "sPlo"[r.Intn(4)], 6+r.Intn(6), r.Intn(1000))}
		bases = append(bases, mkBase("n", tr.Pick(r, []int{0, 50, 250, 500}), build, 0, "session-shrunk"))
	}
	for i := 0; i < g.Scale(1, 4); i++ {
		n := 30 + r.Intn(60)
		bases = append(bases, mkBase("n", tr.Pick(r, []int{0, 250, 800}),
			[]string{fmt.Sprintf("A%c:0:%d:5:%d", "adzr"[r.Intn(4)], n, r.Intn(1000))}, 0, "session-medium"))
	}

	consumer := func(b *sbase, k int) []string {
		ks := its(k)
		pred, succ, okp, oks := nearKeys(b, k)
		ops := []string{"K0=" + ks, "N0", "K0=" + ks, "P0", "K0=" + ks, "i0", "K1=" + ks, "w1:nnppp", "K1=" + ks, "u1", "x1",
			"G0=" + ks, "F" + ks + ":0", "F" + its(k-1) + ":2", "I0", "Tm", "Tx", "Tl", "O0", "m0", "N0"}
		if okp {
			ops = append(ops, "K0="+its(pred), "n0", "n0")
		}
		if oks {
			ops = append(ops, "K0="+its(succ), "p0", "p0")
		}
		return append(ops, "Q2")
	}
	keyOf := func(set []string, b *sbase) int {
		// the key the setter was about (its last number), or a key of the tree
		for i := len(set) - 1; i >= 0; i-- {
			op := set[i]
			if j := strings.IndexByte(op, '='); j >= 0 {
				if k, ok := atoiOK(op[j+1:]); ok {
					return k
				}
			}
			if op[0] == 'F' {
				if k, ok := atoiOK(op[1:strings.IndexByte(op, ':')]); ok {
					return k
				}
			}
			if op[0] == '!' {
				if k, ok := atoiOK(op[strings.IndexByte(op, ':')+2:]); ok {
					return k
				}
			}
		}
		if len(b.keys) == 0 {
			return 10
		}
		return tr.Pick(r, b.keys)
	}
	nearest := func(b *sbase, k int) int { // a key of the tree at or next to k (the traversal's first key, mostly)
		if len(b.keys) == 0 || has(b.keys, k) {
			return k
		}
		for _, d := range []int{1, -1} {
			if has(b.keys, k+d) {
				return k + d
			}
		}
		return tr.Pick(r, b.keys)
	}

	for _, b := range bases {
		sets := x.setters(r, b, full && len(b.keys) <= 12)
		for si, set := range sets {
			k0 := keyOf(set, b)
			// the keys a memo of this setter could be about: the one asked for and the first one reported
			ks := []int{k0}
			if k1 := nearest(b, k0); k1 != k0 {
				ks = append(ks, k1)
			}
			k := ks[si%len(ks)]
			edits := editsNear(r, b, k)
			type plan struct {
				name string
				ops  []string
				obs  []int // the slots to observe afterwards, the first one with the consumer battery
			}
			var plans []plan
			plans = append(plans, plan{"none", nil, []int{0}})
			for _, e := range edits {
				plans = append(plans, plan{"edit", e, []int{0}})
			}
			// Clone between setter and consumer: nothing else; the original edited, the clone read; the
			// clone edited, the original read; a clone of the clone after both were edited
			plans = append(plans, plan{"clone", []string{"Y01"}, []int{1, 0}})
			for _, e := range edits {
				plans = append(plans,
					plan{"clone-edit-original", append([]string{"Y01"}, e...), []int{1, 0}},
					plan{"clone-edit-clone", append([]string{"Y01", "@1"}, e...), []int{0, 1}})
			}
			e1, e2 := tr.Pick(r, edits), tr.Pick(r, edits)
			chain := append([]string{"Y01", "Y12"}, e1...)
			chain = append(chain, "@1")
			chain = append(chain, e2...)
			plans = append(plans, plan{"clone-chain", chain, []int{2, 0, 1}})
			// how many of the plans: in the quick tier one in-place edit and one plan with a Clone per setter,
			// sometimes no barrier at all (every setter kind meets every barrier many times over the trees of
			// a run); in the thorough tier a fifth of all the others as well (the whole cross product would be
			// millions of lines)
			pickIn, pickClone := r.Intn(len(edits)), r.Intn(2*len(edits)+2)
			for pi, p := range plans {
				switch {
				case p.name == "none":
					if !r.Chance(1, 4) {
						continue
					}
				case p.name == "edit":
					if pi-1 != pickIn && !(full && r.Chance(1, 5)) {
						continue
					}
				default:
					if pi-1-len(edits) != pickClone && !(full && r.Chance(1, 5)) {
						continue
					}
				}
				ops := append([]string(nil), b.build...)
				if r.Chance(1, 3) { // the setter may also run on a tree that is itself a clone
					ops = append(ops, "Y02", "@2", "Y20", "@0")
				}
				ops = append(ops, set...)
				ops = append(ops, p.ops...)
				for oi, slot := range p.obs {
					ops = append(ops, "@"+its(slot))
					if oi == 0 {
						ops = append(ops, consumer(b, k)...)
					} else {
						ops = append(ops, "K0="+its(k), "N0", "Q1")
					}
				}
				tags := append([]string{"session", "session-barrier-" + p.name, "session-setter-" + setterKind(set)}, b.tags...)
				g.Emit(b.head()+strings.Join(ops, ";"), true, tags...)
			}
		}
	}

	// ---- cursors of one tree live on while ANOTHER tree (its clone or its original) is edited
	for i := 0; i < g.Scale(60, 600); i++ {
		b := bases[r.Intn(len(bases))]
		if len(b.keys) < 2 {
			continue
		}
		ops := append([]string(nil), b.build...)
		ops = append(ops, "Y01")
		a, o := "0", "1" // the cursors live in tree a, the edits go to tree o
		if r.Chance(1, 2) {
			a, o = "1", "0"
		}
		ops = append(ops, "@"+a)
		for j := 0; j < 3; j++ {
			ops = append(ops, "K"+its(j)+"="+its(tr.Pick(r, b.keys)))
		}
		for round := 0; round < 3; round++ {
			ops = append(ops, "@"+o)
			for _, e := range tr.Pick(r, editsNear(r, b, tr.Pick(r, b.keys))) {
				ops = append(ops, e)
			}
			if r.Chance(1, 2) {
				ops = append(ops, "F"+its(tr.Pick(r, b.keys))+":"+its(r.Intn(3)), "I"+its(r.Intn(4)))
			}
			ops = append(ops, "@"+a)
			for j := 0; j < 4; j++ {
				ops = append(ops, string(moves[r.Intn(len(moves))])+its(r.Intn(3)))
			}
			ops = append(ops, "i"+its(r.Intn(3)), "C03", "N3")
		}
		ops = append(ops, "Q1", "@"+o, "Q1")
		g.Emit(b.head()+strings.Join(ops, ";"), true, append([]string{"session", "session-cursor-outlives-edit-of-other-tree"}, b.tags...)...)
	}

	// ---- every size 0..600: grow by Adds, probe every key; shrink to exactly the size at which Remove does
	// not yet rebuild ((max*beta+1000)/2000), probe; and (quick: for every third size, the offset moves with
	// the seed) one more Remove (the rebuild), probe; Clear (or drain), a few keys again, probe
	betas := []int{0, 1, 50, 250, 500, 800, 999, 1000}
	off := int(r.Intn(3))
	for n := 0; n <= 600; n++ {
		long := full || n%3 == off
		beta := betas[(n/3+n%3*3)%len(betas)]
		pat := "adzrbi"[r.Intn(6)]
		if beta >= 999 && n > 120 && (pat == 'a' || pat == 'd' || pat == 'z' || pat == 'i') {
			pat = "rb"[r.Intn(2)] // (a vine of hundreds of nodes: every path is printed by the walks)
		}
		ops := []string{fmt.Sprintf("A%c:0:%d:3:%d", pat, n, r.Intn(100000)), "Q1"}
		thr := (n*beta + 1000) / 2000
		ord := "lhoibBre"[r.Intn(8)]
		if thr >= 1 && thr < n {
			ops = append(ops, fmt.Sprintf("R%c:%d:%d", ord, thr, r.Intn(1000)), "Q1")
			if long {
				ops = append(ops, fmt.Sprintf("R%c:%d:%d", ord, thr-1, r.Intn(1000)), "Q2")
			}
		} else if n >= 4 {
			ops = append(ops, fmt.Sprintf("R%c:%d:%d", ord, n/4, r.Intn(1000)), "Q1")
		}
		if long {
			if n%2 == 0 {
				ops = append(ops, "~")
			} else {
				ops = append(ops, fmt.Sprintf("R%c:0:%d", ord, r.Intn(1000)))
			}
			ops = append(ops, "Tl", "Tm", "Tx", "I0", "F5:0", "O0", "K0=3", fmt.Sprintf("Aa:1:%d:3:0", 1+n%5), "Q2")
		}
		g.Emit("B n "+its(beta)+" "+strings.Join(ops, ";"), n >= 2, "session", "size-sweep-0-600")
	}
}

func setterKind(set []string) string {
	last := set[len(set)-1]
	switch last[0] {
	case '!':
		return "comparator-panics"
	case 'F':
		if strings.HasSuffix(last, ":0") {
			return "InorderAfter-complete"
		}
		if strings.HasSuffix(last, "!") {
			return "InorderAfter-callback-panics"
		}
		return "InorderAfter-stopped"
	case 'I':
		if last == "I0" {
			return "Inorder-complete"
		}
		if strings.HasSuffix(last, "!") {
			return "Inorder-callback-panics"
		}
		return "Inorder-stopped"
	case 'G':
		return "Get"
	case 'K':
		return "Cursor"
	case 'j':
		if strings.HasSuffix(last, "!") {
			return "CursorInorder-callback-panics"
		}
		return "CursorInorder-stopped"
	case 'T':
		return "MinMaxLen"
	case 'O':
		return "Root"
	case 'Q':
		return "probe"
	}
	return "cursor-moved"
}
