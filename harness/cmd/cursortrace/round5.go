// Round 5 (W lines): a cursor used again while its own Inorder is running, and traversals alive together.
//
//	y<r><s>:<lim>:<every>:<seq>
//	        regs[r].Inorder with a loop body that ends the loop after lim keys (0: never); at the keys number
//	        0, every, 2*every, .. the body runs <seq> on register s, WHILE the traversal is suspended in its
//	        yield: n p l r u m x move regs[s] (s = r: the very cursor that is being iterated; or its clone, or
//	        any other cursor), h H v k call HasNext HasPrev Valid Key, i is a complete regs[s].Inorder from
//	        inside the body, a digit d one that is stopped after d keys
//	t<r>:<lim>:<seq>
//	        Tree.Inorder with a body that ends the loop after lim keys (0: never) and at EVERY key sets
//	        regs[r] = Tree.Cursor(key) and runs <seq> on it (what omap.Iter.Seek does inside InorderAfter)
//	z<a><b>:<sched>
//	        regs[a].Inorder and regs[b].Inorder started through iter.Pull (a = b: two traversals of one
//	        cursor); every letter of <sched> pulls one more key, 'a' from the first, 'b' from the second,
//	        letters n p l r u m x in between move regs[a]; both are stopped at the end
//
// items   y, t:  z<answers>=<state of every register>=<keys the outer loop received>
//
//	        answers: per body run "_" and then 0/1 per h H v, (key) per k, [keys] per nested Inorder
//	z:     Z<keys of the first>[$]/<keys of the second>[$]=<state>     $ = the traversal reported its end
//
// What a traversal delivers is fixed when it starts: the keys of the subtree the cursor was at, ascending;
// moving the cursor from the body changes the cursor (as the same moves outside would), not the traversal.
package main

import (
	"iter"
	"strconv"
	"strings"

	"github.com/creachadair/mds/stree"
	"verif/harness/internal/tr"
)

const bodyLetters = "nplrumxhHvki123456789"

// runSeq: the letters of seq on register s; answers go to res
func (m *machine) runSeq(s int, seq string, res *strings.Builder) {
	t := m.t
	for _, ch := range seq {
		c := m.regs[s]
		switch ch {
		case 'n':
			c.Next()
		case 'p':
			c.Prev()
		case 'l':
			c.Left()
		case 'r':
			c.Right()
		case 'u':
			c.Up()
		case 'm':
			c.Min()
		case 'x':
			c.Max()
		case 'h':
			res.WriteString(tr.B(c.HasNext()))
		case 'H':
			res.WriteString(tr.B(c.HasPrev()))
		case 'v':
			res.WriteString(tr.B(c.Valid()))
		case 'k':
			res.WriteString("(" + strconv.Itoa(c.Key()) + ")")
		default: // i, 1..9: a traversal of the same kind from inside the body
			lim := 0
			if ch != 'i' {
				lim = int(ch - '0')
			}
			var ks []int
			c.Inorder(func(k int) bool {
				ks = append(ks, k)
				runaway(len(ks), t)
				return lim == 0 || len(ks) < lim
			})
			res.WriteString("[" + tr.Ints(ks) + "]")
		}
	}
}

func reg(c byte) (int, bool) { return int(c - '0'), c >= '0' && c <= '3' }

// op5 runs the round-5 ops; ok = false: not one of them.
func (m *machine) op5(op string) (item string, ok bool) {
	t := m.t
	switch op[0] {
	case 'y':
		f := strings.Split(op, ":")
		if len(f) != 4 || len(f[0]) != 3 || strings.Trim(f[3], bodyLetters) != "" {
			return "?", true
		}
		r, ok1 := reg(op[1])
		s, ok2 := reg(op[2])
		lim, ok3 := atoiOK(f[1])
		every, ok4 := atoiOK(f[2])
		if !ok1 || !ok2 || !ok3 || !ok4 || lim < 0 || every < 1 {
			return "?", true
		}
		m.touch(r)
		m.touch(s)
		var ks []int
		var res strings.Builder
		m.regs[r].Inorder(func(k int) bool {
			ks = append(ks, k)
			runaway(len(ks), t)
			if (len(ks)-1)%every == 0 {
				res.WriteByte('_')
				m.runSeq(s, f[3], &res)
			}
			return lim == 0 || len(ks) < lim
		})
		return "z" + res.String() + "=" + m.state() + "=" + tr.Ints(ks), true
	case 't':
		f := strings.Split(op, ":")
		if len(f) != 3 || len(f[0]) != 2 || strings.Trim(f[2], bodyLetters) != "" {
			return "?", true
		}
		r, ok1 := reg(op[1])
		lim, ok2 := atoiOK(f[1])
		if !ok1 || !ok2 || lim < 0 {
			return "?", true
		}
		m.touch(r)
		var ks []int
		var res strings.Builder
		t.Inorder(func(k int) bool {
			ks = append(ks, k)
			runaway(len(ks), t)
			res.WriteByte('_')
			m.regs[r] = t.Cursor(k)
			m.runSeq(r, f[2], &res)
			return lim == 0 || len(ks) < lim
		})
		return "z" + res.String() + "=" + m.state() + "=" + tr.Ints(ks), true
	case 'z':
		if len(op) < 4 || op[3] != ':' || strings.Trim(op[4:], "abnplrumx") != "" {
			return "?", true
		}
		a, ok1 := reg(op[1])
		b, ok2 := reg(op[2])
		if !ok1 || !ok2 {
			return "?", true
		}
		m.touch(a)
		m.touch(b)
		var got [2][]int
		var done [2]bool
		func() {
			var nexts [2]func() (int, bool)
			var stops [2]func()
			nexts[0], stops[0] = iter.Pull(iter.Seq[int](m.regs[a].Inorder))
			nexts[1], stops[1] = iter.Pull(iter.Seq[int](m.regs[b].Inorder))
			defer func() {
				for _, s := range stops {
					func() {
						defer func() { recover() }()
						s()
					}()
				}
			}()
			for _, ch := range op[4:] {
				if ch != 'a' && ch != 'b' {
					var sink strings.Builder
					m.runSeq(a, string(ch), &sink)
					continue
				}
				i := int(ch - 'a')
				if done[i] {
					continue
				}
				if k, ok := nexts[i](); ok {
					got[i] = append(got[i], k)
					runaway(len(got[i]), t)
				} else {
					done[i] = true
				}
			}
			stops[0]()
			stops[1]()
		}()
		part := func(i int) string {
			s := tr.Ints(got[i])
			if done[i] {
				s += "$"
			}
			return s
		}
		return "Z" + part(0) + "/" + part(1) + "=" + m.state(), true
	}
	return "", false
}

// ---------------------------------------------------------------- generation

// shapeInfo: per key of a preorder shape string its depth and the keys of its subtree (in-order)
type nodeInfo struct {
	key, depth int
	sub        []int
}

func shapeNodes(shape string) []nodeInfo {
	toks := strings.Split(shape, ",")
	pos := 0
	var out []nodeInfo
	var rec func(d int) []int
	rec = func(d int) []int {
		if pos >= len(toks) {
			return nil
		}
		tok := toks[pos]
		pos++
		if tok == "." {
			return nil
		}
		k, _ := strconv.Atoi(tok)
		l := rec(d + 1)
		idx := len(out)
		out = append(out, nodeInfo{key: k, depth: d})
		r := rec(d + 1)
		sub := append(append(append([]int(nil), l...), k), r...)
		out[idx].sub = sub
		return sub
	}
	rec(0)
	return out
}

var bodySeqs = []string{"i", "1", "2", "k", "hH", "n", "p", "l", "r", "u", "m", "x", "nk", "li", "ri", "ui", "mk2", "x1", "uli", "kni", "pk1"}

// reentrant: for a tree (build b, shape), lines of round-5 ops from its keys.  full = every key and every
// body of bodySeqs (small shapes), otherwise a sample.
func (x *gen) reentrant(cmps, b, shape string, full bool, tags ...string) {
	r := x.g.R
	nodes := shapeNodes(shape)
	if len(nodes) == 0 {
		return
	}
	tags = append(tags, "reentrant")
	starts := nodes
	if !full && len(nodes) > 5 {
		starts = nil
		for i := 0; i < 5; i++ {
			starts = append(starts, nodes[r.Intn(len(nodes))])
		}
	}
	for _, nd := range starts {
		ks := strconv.Itoa(nd.key)
		// how the cursor got to the key: directly, or from the deepest key below it and up again
		deepest, dd := nd.key, nd.depth
		for _, o := range nodes {
			if o.depth > dd && contains(nd.sub, o.key) {
				deepest, dd = o.key, o.depth
			}
		}
		arrive := [][]string{{"K0=" + ks}}
		if deepest != nd.key {
			up := []string{"K0=" + strconv.Itoa(deepest)}
			for i := nd.depth; i < dd; i++ {
				up = append(up, "u0")
			}
			arrive = append(arrive, up)
		}
		if nd.depth == 0 {
			arrive = append(arrive, []string{"O0"})
		}
		for _, arr := range arrive {
			var ops []string
			seqs := bodySeqs
			if !full {
				seqs = []string{tr.Pick(r, bodySeqs), tr.Pick(r, bodySeqs), tr.Pick(r, bodySeqs)}
			}
			for _, sq := range seqs {
				every := 1
				if r.Chance(1, 4) {
					every = 2
				}
				lim := 0
				if r.Chance(1, 5) {
					lim = r.Range(1, len(nd.sub))
				}
				// the cursor itself from the body; then the same body on its clone while the original is iterated
				ops = append(ops, arr...)
				ops = append(ops, "y00:"+strconv.Itoa(lim)+":"+strconv.Itoa(every)+":"+sq, "i0")
				ops = append(ops, arr...)
				ops = append(ops, "C01", "y01:"+strconv.Itoa(lim)+":"+strconv.Itoa(every)+":"+sq, "i0", "i1")
			}
			x.emit(cmps, b, shape, ops, append(tags, "cursor-used-inside-its-inorder")...)
			// two traversals alive together: of one cursor, of a cursor and its clone, with moves in between
			ops = nil
			n := len(nd.sub)
			both := strings.Repeat("ab", n+1)
			for _, sched := range []string{both, strings.Repeat("a", (n+1)/2) + both, "a" + strings.Repeat("b", n+1) + strings.Repeat("a", n),
				"ab" + tr.Pick(r, []string{"l", "r", "u", "n", "p", "m", "x"}) + both, "a" + tr.Pick(r, []string{"l", "r", "n", "m"}) + "b" + tr.Pick(r, []string{"u", "p", "x"}) + both} {
				ops = append(ops, arr...)
				ops = append(ops, "z00:"+sched, "i0")
				ops = append(ops, arr...)
				ops = append(ops, "C01", "z01:"+sched, "i0", "i1")
				ops = append(ops, arr...)
				ops = append(ops, "C01", "z10:"+sched, "i0", "i1")
			}
			x.emit(cmps, b, shape, ops, append(tags, "zipped-cursor-inorder")...)
		}
	}
	// Tree.Inorder with a body that takes a cursor at every key and uses it
	var ops []string
	seqs := []string{"k", "nk", "pk", "i", "1", "uk", "mk", "xk", "hHv", "li", "r2"}
	if !full {
		seqs = []string{tr.Pick(r, seqs), tr.Pick(r, seqs)}
	}
	for _, sq := range seqs {
		lim := 0
		if r.Chance(1, 4) {
			lim = r.Range(1, len(nodes))
		}
		ops = append(ops, "t0:"+strconv.Itoa(lim)+":"+sq, "i0")
	}
	ops = append(ops, "O0", "m0", "N0")
	x.emit(cmps, b, shape, ops, append(tags, "cursor-inside-tree-inorder")...)
}

func contains(xs []int, k int) bool {
	for _, x := range xs {
		if x == k {
			return true
		}
	}
	return false
}

func (x *gen) round5() {
	g, r := x.g, x.g.R
	defer x.reentrantCmp()
	// every shape up to 4 (5) nodes, every key, every body
	maxN := g.Scale(4, 5)
	for n := 1; n <= maxN; n++ {
		for _, shape := range allShapes(n, 10) {
			x.reentrant("n", "P", shape, true, "exhaustive")
		}
	}
	// history-built trees
	betas := []int{0, 1, 250, 500, 999, 1000}
	patterns := []string{"asc", "desc", "zigzag", "bulk", "churn", "mix", "shrink"}
	for i := 0; i < g.Scale(90, 1800); i++ {
		pat := patterns[i%len(patterns)]
		cmps := "n"
		if r.Chance(1, 4) {
			cmps = tr.Pick(r, []string{"r", "a", "t", "A", "D", "x", "X", "h"})
		}
		if r.Chance(1, 4) {
			cmps = "q" + cmps // the comparator reads the tree during Tree.Cursor / Tree.Get
		}
		var b string
		if pat == "shrink" {
			b, _ = shrinkHistory(r, cmps, i)
		} else {
			b = history(r, pat, tr.Pick(r, betas), 2+r.Intn(30))
		}
		t := build(cmps, b, "")
		x.reentrant(cmps, b, dump(t), t.Len() <= 6, "history-"+pat)
	}
}

// reentrantCmp: trees under comparators that read their own tree while Tree.Cursor / Tree.Get run: lookups
// of every key and of its absent neighbour, random walks (re-anchoring by Tree.Cursor among the moves)
func (x *gen) reentrantCmp() {
	g, r := x.g, x.g.R
	betas := []int{0, 1, 250, 500, 999, 1000}
	patterns := []string{"asc", "desc", "zigzag", "bulk", "churn", "mix"}
	for i := 0; i < g.Scale(80, 1600); i++ {
		cmps := "q" + tr.Pick(r, []string{"n", "n", "r", "a", "t", "A", "D", "x", "h", "m7", "M5"})
		b := history(r, patterns[i%len(patterns)], tr.Pick(r, betas), 2+r.Intn(40))
		t := build(cmps, b, "")
		shape := dump(t)
		keys := inorderKeys(t)
		var ops []string
		for _, k := range keys {
			ks := strconv.Itoa(k)
			ops = append(ops, "K0="+ks, "G0="+ks, "K1="+strconv.Itoa(k+1), "G1="+strconv.Itoa(k+1), "n0", "K0="+ks, "p0")
		}
		ops = append(ops, "O0", "m0", "N0")
		x.emit(cmps, b, shape, ops, "reentrant", "reentrant-comparator")
		for j := 0; j < 3; j++ {
			x.emit(cmps, b, shape, x.randomWalk(keys, 10+r.Intn(20)), "reentrant", "reentrant-comparator", "random-walk")
		}
	}
}

var _ = stree.New[int]
