// Command sliceutilprobe runs slice.Rotate and slice.Chunks of the working tree on slices of
// zero-size elements that are longer than 2^62 -- beyond the length bound of the machine-integer
// theorems of C17 (Slice/SliceUtilProofsInt.v), where i+k, i+n and len+n-1 overflow int.  It is
// not part of bin/check (the model cannot hold 2^63 elements); it documents the witnesses quoted
// in notes/C17-audit.md.  Each call runs under a 2 s watchdog ("slow" = still running: the
// functions are linear in the length).
package main

import (
	"fmt"
	"math"
	"time"

	"github.com/creachadair/mds/slice"
)

func try(name string, f func() string) {
	done := make(chan string, 1)
	go func() {
		defer func() {
			if r := recover(); r != nil {
				done <- fmt.Sprintf("PANIC %v", r)
			}
		}()
		done <- f()
	}()
	select {
	case s := <-done:
		fmt.Printf("%-58s %s\n", name, s)
	case <-time.After(2 * time.Second):
		fmt.Printf("%-58s slow\n", name)
	}
}

func main() {
	for _, n := range []int{math.MaxInt, 1<<62 + 1, 1 << 62, 1<<62 - 1} {
		big := make([]struct{}, n)
		for _, k := range []int{n - 1, -1, n/2 + 1} {
			try(fmt.Sprintf("Rotate(struct{}^%d, %d)", n, k), func() string { slice.Rotate(big, k); return "ok" })
		}
		for _, k := range []int{n - 1, n / 2} {
			try(fmt.Sprintf("Chunks(struct{}^%d, %d)", n, k), func() string {
				s := ""
				for _, c := range slice.Chunks(big, k) {
					s += fmt.Sprintf("%d/%d ", len(c), cap(c))
				}
				return s
			})
		}
	}
}
