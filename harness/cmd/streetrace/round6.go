// Round 6: drain sweeps -- arithmetic progressions of sizes for the delete-side rebuild.
//
// Tree.Remove rebuilds the whole tree when its size falls under (max*β+1000)/2000, where max is the
// largest size since the last such rebuild; the rebuild sets max to the size it found.  A tree drained
// key by key is therefore rebuilt again and again, at counts that depend on the peak it came from
// (β = 250: peak 20..27 -> rebuilt at 2 keys, then at 0; peak 52..59 -> at 6, then ...).  The streams
// so far drain to fractions of a power-of-two peak, or stop right after the first rebuild; a rebuild
// that goes wrong for ONE particular count of keys (2^k-3 of them: 1, 5, 13, 29 ..., where the
// tree-to-vine / vine-to-tree arithmetic has a different remainder) shows only when a drain passes
// through that count at the very Remove that fires a rebuild.
//
// Here, B lines (scale.go): for β in {0, 50, 250, 500, 999} and EVERY peak 0..130, grown in a rotating
// order under a rotating comparator, the tree is drained by Remove of ONE key per macro -- ascending,
// descending, in a random order -- all the way to the empty tree.  Every macro of one key ends in a
// checkpoint (Len, IsEmpty, Min, Max, t.max, node count, digest of the whole Inorder output, digest of
// the whole shape through one cursor) on top of the per-call digest (result, Len, IsEmpty, Min, Max,
// Get of the removed key); every fourth Remove is followed by Get of every key of the range and by
// InorderAfter from around the removed key, the last one by a full Inorder (the whole sweep costs the
// extracted model about 3 s, so the quick tier has it in full).
// The observers also run on the new, still empty tree (before the first mutation) and a third of the
// lines regrow the emptied tree to half the peak and drain it once more (max is then what the first
// drain left).
package main

import (
	"fmt"
	"strconv"
	"strings"

	"verif/harness/internal/tr"
)

// plainBig writes the macros of a B line with one tree (the method set of scale.go's builder that the sweep uses)
type plainBig struct{ ms []string }

func (b *plainBig) New(β int) int               { b.ms = append(b.ms, "N"+strconv.Itoa(β)); return 0 }
func (b *plainBig) op(letter byte, t int, k ks) { b.ms = append(b.ms, fmt.Sprintf("%c%d:%s", letter, t, k)) }
func (b *plainBig) After(t int, k ks, stop int) { b.ms = append(b.ms, fmt.Sprintf("I%d:%s:%d", t, k, stop)) }
func (b *plainBig) Inorder(t int, stop int)     { b.ms = append(b.ms, fmt.Sprintf("F%d:%d", t, stop)) }

var drainBetas = []int{0, 50, 250, 500, 999}

func genDrainSweep(g *tr.G) {
	r := tr.NewRand(tr.NewRand(g.Seed).Uint64() ^ 0xC01D6A)
	pats := []byte{'a', 'd', 'z', 'i', 'r'}
	cmps := []string{"n", "nd", "n", "r", "nt", "n", "nx", "rv", "n", "ne", "nk"}
	n := 0
	for _, β := range drainBetas {
		for p := 0; p <= 130; p++ {
			for oi, ord := range []byte{'a', 'd', 'r'} {
				n++
				// (the macros are written out directly: the steering copy of scale.go's builder, one watchdog
				// goroutine per macro, would double the cost of these 2000 lines of ~100 macros each)
				b := &plainBig{}
				t := b.New(β)
				step := 2
				lo := -(p / 2) * step // keys on both sides of zero
				if p%8 == oi {
					// observers before the first mutation
					b.Inorder(t, -1)
					b.op('Q', t, seqOf('a', -2, 1, 5))
					b.After(t, ks{pat: 'e', list: []int{-1, 0, 1}}, -1)
				}
				drain := func(cnt int, pat byte) {
					b.op('A', t, ks{pat: pat, lo: lo, step: step, n: cnt, rep: 1, take: cnt, seed: r.Intn(1 << 30)})
					idx := orderIdx(ord, cnt, r.Intn(1<<30))
					for i := 0; i < len(idx); {
						list := []int{lo + step*idx[i]} // one Remove per macro: a checkpoint after every one
						b.op('D', t, ks{pat: 'e', list: list})
						i++
						if i%4 == 0 || i == len(idx) {
							k := list[len(list)-1]
							b.op('Q', t, probeSeq(r, lo, step, cnt, 40)) // present, removed and never present keys over the whole range
							b.After(t, ks{pat: 'e', list: []int{k - 1, k + 3}}, 2)
						}
					}
					b.Inorder(t, -1)
				}
				drain(p, pats[(p+oi+n)%len(pats)])
				tags := []string{"drain-sweep", fmt.Sprintf("drain-sweep-beta=%d", β), "drain-sweep-order-" + string(ord)}
				if p%3 == oi && p >= 8 {
					drain(p/2, pats[(p+oi+n+1)%len(pats)])
					tags = append(tags, "drain-sweep-twice")
				}
				// the emptied tree is used on
				b.op('A', t, seqOf('a', 0, 1, 3))
				b.op('Q', t, seqOf('a', -1, 1, 5))
				out := g.Emit("B "+cmps[n%len(cmps)]+" "+strings.Join(b.ms, ";"), p >= 1, tags...)
				if strings.Contains(out, "panic:") || strings.Contains(out, "hang") {
					g.W.Count("impl-panic", 1)
				}
			}
		}
	}
}
