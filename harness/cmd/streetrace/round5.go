// Round 5: traversals that are alive at the same time (H lines: ops Z and Y; B lines: macro Z).
//
//	Z:<trav>,<trav>,..:<sched>
//	        every <trav> is started through iter.Pull; <sched> is a string of digits, digit i pulls ONE
//	        more element from traversal i (a traversal that has reported its end is not pulled again);
//	        after the schedule every traversal is stopped, in order.  Up to ten traversals.
//	        out: one list per traversal, '/'-separated, "$" appended when the traversal reported its end
//	Y:<trav>:<stop>:<every>:<inner>+<inner>+..
//	        the outer traversal runs with an ordinary loop body that stops on call stop+1 (-1: never); at
//	        the elements number 0, every, 2*every, .. the body runs the inner calls, each of them a
//	        read-only use of a tree of the history WHILE the outer traversal is suspended in its yield:
//	          A<t>/<dk>/<s>  InorderAfter(key+dk) on tree t stopped on call s+1   (key = the outer element's)
//	          I<t>/<s>       Inorder on tree t stopped the same way
//	          g<t>/<dk>      Get(key+dk)
//	          m<t>           Min, Max, Len
//	          c<t>/<dk>      Cursor(key+dk): Valid, Key, and the keys after Next / after Prev of clones
//	        out: <outer list>#<run>#<run>..  one run per body execution, its inner outputs '+'-separated
//	        (lists as for A/I, Get as for g, m: min~max~len, c: valid~key~next~prev)
//	trav    A<t>/<e>  InorderAfter(e) on tree t  |  I<t>  Inorder on tree t
//
// What every traversal delivers must be what it delivers alone: the model and the reference evaluate each
// of them by itself.  Nothing here changes a tree.
//
//	B lines:  Z<t1>:<t2>:<ks>:<m>   for the i-th key k of the sequence InorderAfter(k) on t1 and InorderAfter(k')
//	          on t2, k' the i-th key from the end, through iter.Pull, pulled in turns (t1 first) m times
//	          each or to their ends, then stopped
//	          out: <elements delivered>,<digest in the order of delivery>
package main

import (
	"fmt"
	"iter"
	"strconv"
	"strings"

	"github.com/creachadair/mds/stree"
	"verif/harness/internal/tr"
)

type trav struct {
	after bool
	t     int
	e     E
}

func parseTrav(s string, ntrees int) (trav, bool) {
	if len(s) < 2 {
		return trav{}, false
	}
	switch s[0] {
	case 'I':
		t, err := strconv.Atoi(s[1:])
		return trav{t: t}, err == nil && t >= 0 && t < ntrees
	case 'A':
		f := strings.Split(s[1:], "/")
		if len(f) != 2 {
			return trav{}, false
		}
		t, err := strconv.Atoi(f[0])
		e, ok := parseE(f[1])
		return trav{after: true, t: t, e: e}, err == nil && ok && t >= 0 && t < ntrees
	}
	return trav{}, false
}

func (tv trav) String() string {
	if tv.after {
		return fmt.Sprintf("A%d/%s", tv.t, tv.e)
	}
	return fmt.Sprintf("I%d", tv.t)
}

func (tv trav) seq(trees []*stree.Tree[E]) iter.Seq[E] {
	if tv.after {
		return trees[tv.t].InorderAfter(tv.e)
	}
	return trees[tv.t].Inorder
}

// runaway: a traversal over a damaged tree may never end; the watchdog of the case would catch it, but
// not before the collected elements have eaten the memory.
const runawayCap = 1 << 20

// zipRun executes a Z op.
func zipRun(trees []*stree.Tree[E], travs []trav, sched string) string {
	k := len(travs)
	nexts := make([]func() (E, bool), k)
	stops := make([]func(), k)
	for i, tv := range travs {
		nexts[i], stops[i] = iter.Pull(tv.seq(trees))
	}
	defer func() { // also when a traversal panics: release the others
		for _, s := range stops {
			func() {
				defer func() { recover() }()
				s()
			}()
		}
	}()
	got := make([][]E, k)
	done := make([]bool, k)
	for _, c := range sched {
		i := int(c - '0')
		if done[i] {
			continue
		}
		if v, ok := nexts[i](); ok {
			got[i] = append(got[i], v)
			if len(got[i]) > runawayCap {
				panic("runaway traversal")
			}
		} else {
			done[i] = true
		}
	}
	for _, s := range stops {
		s()
	}
	parts := make([]string, k)
	for i := range parts {
		parts[i] = showEs(got[i])
		if done[i] {
			parts[i] += "$"
		}
	}
	return strings.Join(parts, "/")
}

func parseZip(f []string, ntrees int) ([]trav, bool) {
	if len(f) != 3 || f[1] == "" {
		return nil, false
	}
	var travs []trav
	for _, s := range strings.Split(f[1], ",") {
		tv, ok := parseTrav(s, ntrees)
		if !ok {
			return nil, false
		}
		travs = append(travs, tv)
	}
	if len(travs) > 10 {
		return nil, false
	}
	for _, c := range f[2] {
		if c < '0' || int(c-'0') >= len(travs) {
			return nil, false
		}
	}
	return travs, true
}

type inner struct {
	kind  byte
	t     int
	dk, s int
}

func (in inner) String() string {
	switch in.kind {
	case 'A':
		return fmt.Sprintf("A%d/%d/%d", in.t, in.dk, in.s)
	case 'I':
		return fmt.Sprintf("I%d/%d", in.t, in.s)
	case 'm':
		return fmt.Sprintf("m%d", in.t)
	}
	return fmt.Sprintf("%c%d/%d", in.kind, in.t, in.dk)
}

func parseInner(s string, ntrees int) (inner, bool) {
	if len(s) < 2 {
		return inner{}, false
	}
	f := strings.Split(s[1:], "/")
	want := map[byte]int{'A': 3, 'I': 2, 'g': 2, 'm': 1, 'c': 2}[s[0]]
	if want == 0 || len(f) != want {
		return inner{}, false
	}
	v := make([]int, len(f))
	for i, x := range f {
		n, err := strconv.Atoi(x)
		if err != nil {
			return inner{}, false
		}
		v[i] = n
	}
	in := inner{kind: s[0], t: v[0]}
	switch s[0] {
	case 'A':
		in.dk, in.s = v[1], v[2]
	case 'I':
		in.s = v[1]
	case 'g', 'c':
		in.dk = v[1]
	}
	return in, in.t >= 0 && in.t < ntrees && in.s >= -1
}

func (in inner) run(trees []*stree.Tree[E], at E) string {
	t := trees[in.t]
	key := E{at.K + in.dk, 0}
	switch in.kind {
	case 'A':
		return collect(t.InorderAfter(key), in.s)
	case 'I':
		return collect(t.Inorder, in.s)
	case 'g':
		v, ok := t.Get(key)
		return tr.B(ok) + ":" + v.String()
	case 'm':
		return t.Min().String() + "~" + t.Max().String() + "~" + strconv.Itoa(t.Len())
	case 'c':
		c := t.Cursor(key)
		return tr.B(c.Valid()) + "~" + c.Key().String() + "~" + c.Clone().Next().Key().String() + "~" + c.Clone().Prev().Key().String()
	}
	return "?"
}

// nestRun executes a Y op.
func nestRun(trees []*stree.Tree[E], outer trav, stop, every int, inners []inner) string {
	var got []E
	var runs []string
	calls, stopped, again := 0, false, false
	outer.seq(trees)(func(e E) bool {
		if stopped {
			again = true
			return false
		}
		i := len(got)
		got = append(got, e)
		if len(got) > runawayCap {
			panic("runaway traversal")
		}
		calls++
		if i%every == 0 {
			parts := make([]string, len(inners))
			for j, in := range inners {
				parts[j] = in.run(trees, e)
			}
			runs = append(runs, strings.Join(parts, "+"))
		}
		if stop >= 0 && calls == stop+1 {
			stopped = true
			return false
		}
		return true
	})
	s := showEs(got)
	if again {
		s += "!"
	}
	for _, r := range runs {
		s += "#" + r
	}
	return s
}

func parseNest(f []string, ntrees int) (outer trav, stop, every int, inners []inner, ok bool) {
	if len(f) != 5 {
		return
	}
	outer, ok = parseTrav(f[1], ntrees)
	stop, err1 := strconv.Atoi(f[2])
	every, err2 := strconv.Atoi(f[3])
	if !ok || err1 != nil || err2 != nil || stop < -1 || every < 1 || f[4] == "" {
		return outer, 0, 0, nil, false
	}
	for _, s := range strings.Split(f[4], "+") {
		in, ok := parseInner(s, ntrees)
		if !ok {
			return outer, 0, 0, nil, false
		}
		inners = append(inners, in)
	}
	return outer, stop, every, inners, true
}

// zipBig executes the B-line macro Z<t1>:<t2>:<ks>:<m>.
func (b *bigRun) zipBig(f []string) {
	if len(f) != 4 {
		b.bad = true
		return
	}
	t1, t2 := b.tree(f[0]), b.tree(f[1])
	k, ok := parseKS(f[2])
	m, err := strconv.Atoi(f[3])
	if b.bad || !ok || err != nil || m < 0 || m > maxSeq {
		b.bad = true
		return
	}
	var h hash
	total := 0
	keys := k.keys()
	for i, x := range keys {
		e1 := b.el(x)
		e2 := b.el(keys[len(keys)-1-i]) // the sequence backwards: two different search paths
		func() {
			n1, s1 := iter.Pull(t1.InorderAfter(e1))
			defer s1()
			n2, s2 := iter.Pull(t2.InorderAfter(e2))
			defer s2()
			d1, d2 := false, false
			for j := 0; j < m && !(d1 && d2); j++ {
				if !d1 {
					if v, ok := n1(); ok {
						h.feed(v.K)
						h.feed(v.P)
						total++
					} else {
						d1 = true
					}
				}
				if !d2 {
					if v, ok := n2(); ok {
						h.feed(v.K)
						h.feed(v.P)
						total++
					} else {
						d2 = true
					}
				}
			}
		}()
		h.feed(-1)
	}
	b.outs = append(b.outs, fmt.Sprintf("%d,%s", total, h.String()))
}

func (b *big) Zip(t1, t2 int, k ks, m int) {
	b.add(fmt.Sprintf("Z%d:%d:%s:%d", t1, t2, k, m))
	b.tags["zipped-range-queries"] = true
}

// ---------------------------------------------------------------- generation

func (h *hist) zip(travs []trav, sched string) {
	parts := make([]string, len(travs))
	for i, tv := range travs {
		parts[i] = tv.String()
	}
	h.ops = append(h.ops, "Z:"+strings.Join(parts, ",")+":"+sched)
	h.tags["zipped-traversals"] = true
	same, other := false, false
	for i := range travs {
		for j := 0; j < i; j++ {
			if travs[i].t == travs[j].t {
				same = true
			} else {
				other = true
			}
		}
	}
	if same {
		h.tags["zipped-same-tree"] = true
	}
	if other {
		h.tags["zipped-two-trees"] = true
	}
}

func (h *hist) nest(outer trav, stop, every int, inners []inner) {
	parts := make([]string, len(inners))
	for i, in := range inners {
		parts[i] = in.String()
		if in.t == outer.t {
			h.tags["nested-same-tree"] = true
		} else {
			h.tags["nested-other-tree"] = true
		}
	}
	h.ops = append(h.ops, fmt.Sprintf("Y:%s:%d:%d:%s", outer, stop, every, strings.Join(parts, "+")))
	h.tags["nested-traversals"] = true
}

// roundRobin: every traversal pulled in turn, n rounds.
func roundRobin(k, rounds int) string {
	var sb strings.Builder
	for i := 0; i < rounds; i++ {
		for j := 0; j < k; j++ {
			sb.WriteByte(byte('0' + j))
		}
	}
	return sb.String()
}

func randomSched(r *tr.Rand, k, pulls int) string {
	var sb strings.Builder
	for sb.Len() < pulls {
		j := r.Intn(k)
		for n := r.Range(1, 4); n > 0; n-- {
			sb.WriteByte(byte('0' + j))
		}
	}
	return sb.String()
}

// genInterleaved: a tree of n keys (by Add in one of the patterns, or by New), range queries before a
// Clone (whatever a query leaves behind in the Tree is then in both), a few edits that make original and
// clone differ, and then traversals that are alive together: zipped and nested, on the same tree and on
// original and clone, followed by the ordinary observers.
func genInterleaved(g *tr.G, n int) {
	r := g.R
	cmp := "n" + pickStyle(r)
	if r.Chance(1, 6) {
		cmp = "r" + pickStyle(r)
	}
	if r.Chance(1, 5) {
		cmp = cmp[:1] + "q" // the comparator reads the tree too
	}
	h := newHist(g, cmp, false)
	β := pickBeta(r)
	var a int
	keys := pattern(r, tr.Pick(r, []string{"sorted", "reverse", "zigzag", "inside-out", "random", "random"}), n)
	if r.Chance(1, 4) {
		es := make([]E, len(keys))
		for i, k := range keys {
			es[i] = h.el(2 * k)
		}
		a = h.New(β, es)
	} else {
		a = h.New(β, nil)
		for _, k := range keys {
			h.Add(a, 2*k)
		}
	}
	key := func() int { return r.Range(0, 2*n+2) }
	after := func(t int) trav { return trav{after: true, t: t, e: h.el(key())} }
	// earlier, ordinary queries: complete, stopped at once, from the least key (the longest path)
	for i := r.Intn(3); i > 0; i-- {
		h.ops = append(h.ops, fmt.Sprintf("A:%d:%s:%d", a, h.el(tr.Pick(r, []int{1, 2, key()})), tr.Pick(r, []int{-1, 0, 2})))
	}
	trees := []int{a}
	if r.Chance(2, 3) {
		b := h.Clone(a)
		trees = append(trees, b)
		for i := r.Intn(4); i > 0; i-- {
			t := tr.Pick(r, trees)
			switch r.Intn(3) {
			case 0:
				h.Remove(t, 2*r.Range(1, n))
			case 1:
				h.Add(t, 2*r.Range(0, n)+1)
			default:
				h.Remove(t, 2*n) // the greatest key
			}
		}
	}
	pick := func() int { return tr.Pick(r, trees) }
	for i := r.Range(2, 5); i > 0; i-- {
		switch r.Intn(8) {
		case 0, 1: // two range queries in lock step, to their ends
			tv := []trav{after(pick()), after(pick())}
			h.zip(tv, roundRobin(2, n+2))
		case 2: // a range query and a whole traversal, random bursts
			tv := []trav{after(pick()), {t: pick()}}
			h.zip(tv, randomSched(r, 2, r.Range(2, 2*n+4)))
		case 3: // three at once
			tv := []trav{after(pick()), after(pick()), after(pick())}
			if r.Chance(1, 3) {
				tv[1] = trav{t: pick()}
			}
			h.zip(tv, randomSched(r, 3, r.Range(3, 3*n+6)))
		case 4, 5: // a range query from inside the loop body of another one
			in := []inner{{kind: 'A', t: pick(), dk: r.Range(-3, 6), s: tr.Pick(r, []int{0, 0, 1, 2, -1})}}
			if r.Chance(1, 3) {
				in = append(in, inner{kind: 'g', t: pick(), dk: r.Range(-1, 1)})
			}
			h.nest(after(pick()), tr.Pick(r, []int{-1, -1, r.Intn(n + 1)}), r.Range(1, 3), in)
		case 6: // observers from inside the loop body
			kinds := []inner{{kind: 'g', t: pick(), dk: r.Range(-1, 1)}, {kind: 'm', t: pick()}, {kind: 'c', t: pick(), dk: r.Range(-1, 2)},
				{kind: 'I', t: pick(), s: r.Range(-1, 2)}}
			r0 := r.Intn(len(kinds))
			in := []inner{kinds[r0], kinds[(r0+1+r.Intn(len(kinds)-1))%len(kinds)]}
			outer := after(pick())
			if r.Chance(1, 2) {
				outer = trav{t: pick()}
			}
			h.nest(outer, tr.Pick(r, []int{-1, r.Intn(n + 1)}), r.Range(1, 2), in)
		default: // the whole traversal outside, range queries inside
			h.nest(trav{t: pick()}, -1, r.Range(1, 3), []inner{{kind: 'A', t: pick(), dk: r.Range(-2, 4), s: r.Range(-1, 1)}})
		}
	}
	// what the interleaving may have left behind
	for _, t := range trees {
		h.ops = append(h.ops, fmt.Sprintf("A:%d:%s:-1", t, h.el(key())))
		h.Dump(t)
	}
	h.emit("interleaved-traversals")
}

// genInterleavedExhaustive: a tree over the keys 2,4,..,2n (and its clone without the greatest key);
// every pair of start keys 1..2n+1 zipped in lock step, and every start key with a range query from
// every other key inside its loop body.
func genInterleavedExhaustive(g *tr.G, n, β int, pat string, cmp string) {
	r := g.R
	ks := pattern(r, pat, n)
	for k1 := 1; k1 <= 2*n+1; k1++ {
		h := newHist(g, cmp, false)
		a := h.New(β, nil)
		for _, k := range ks {
			h.Add(a, 2*k)
		}
		h.ops = append(h.ops, fmt.Sprintf("A:%d:%s:-1", a, h.el(1)))
		b := h.Clone(a)
		h.Remove(b, 2*n)
		for k2 := 1; k2 <= 2*n+1; k2++ {
			for _, t2 := range []int{a, b} {
				h.zip([]trav{{after: true, t: a, e: h.el(k1)}, {after: true, t: t2, e: h.el(k2)}}, roundRobin(2, n+2))
			}
		}
		for _, t2 := range []int{a, b} {
			for _, s := range []int{0, -1} {
				h.nest(trav{after: true, t: a, e: h.el(k1)}, -1, 1, []inner{{kind: 'A', t: t2, dk: 0, s: s}})
				h.nest(trav{after: true, t: a, e: h.el(k1)}, -1, 1, []inner{{kind: 'A', t: t2, dk: 2*n - k1, s: s}})
			}
		}
		h.nest(trav{t: a}, -1, 1, []inner{{kind: 'A', t: a, dk: -1, s: 1}, {kind: 'c', t: a, dk: 0}})
		h.Dump(a)
		h.Dump(b)
		h.emit(fmt.Sprintf("interleaved-exhaustive-%d", n))
	}
}

func genRound5(g *tr.G) {
	r := g.R
	for _, n := range []int{1, 2, 3, 5, 7} {
		genInterleavedExhaustive(g, n, tr.Pick(r, []int{0, 250, 1000}), tr.Pick(r, []string{"sorted", "random", "inside-out"}), tr.Pick(r, []string{"n", "nd", "rt"}))
	}
	if g.Thorough() {
		for _, n := range []int{4, 6, 9, 12} {
			genInterleavedExhaustive(g, n, tr.Pick(r, betas), tr.Pick(r, patterns[:5]), pickCmp(r))
		}
	}
	sizes := []int{1, 2, 3, 4, 6, 8, 12, 15, 16, 17, 24, 31, 33, 40}
	for i := 0; i < g.Scale(500, 10000); i++ {
		genInterleaved(g, tr.Pick(r, sizes))
	}
}
