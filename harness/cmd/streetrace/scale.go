// Big trees (round 3).  One case per line:
//
//	B <cmp> <macro>;<macro>;...  |  <item>;<item>;...
//
// A macro stands for many calls; its keys are an arithmetic key sequence (the OCaml driver expands it
// the same way), so the line stays short however big the trees are.  Elements are (key, payload)
// pairs as in the H lines; the payload is a counter: the j-th element any macro of the line creates
// (in order, Remove/Get/InorderAfter arguments included) has payload j.  Trees are numbered in order of
// creation (N, K and C).
//
// key sequence <ks>:
//
//	<pat>,<lo>,<step>,<n>,<rep>,<take>,<seed>   the first <take> of the indices 0..n-1 in the order <pat>
//	        (a ascending, d descending, z outside-in 0,n-1,1,n-2,.., i inside-out = z reversed,
//	        r a permutation drawn from an LCG with <seed>); index j stands for key lo+step*(j/rep), so
//	        rep > 1 gives every key rep times (duplicates; neighbours under a, anywhere under r)
//	e,<k>,<k>,...                               the keys as listed
//
// macros and their items:
//
//	N<β>              stree.New(β, cmp)                              u/<sums>
//	K<β>:<ks>:<seq>   stree.New(β, cmp, keys...); <seq> is an ORACLE: for every class of equivalent keys,
//	                  in ascending order, WHICH of its members (0 = the first in argument order) the
//	                  unstable sort + compact kept, recorded by the generator from the implementation,
//	                  validated by the model                        u/<sums>
//	C<t>              Clone of tree t                                u/<sums>
//	X<t>              Clear                                          u/<sums>
//	A<t>:<ks>  P<t>:<ks>  D<t>:<ks>    Add / Replace / Remove of every key of the sequence, in order
//	                  <trues>,<obs>,<int>/<sums>/<sums>...
//	                  trues: how many calls returned true.  obs: digest of, after EVERY call, the result,
//	                  Len, IsEmpty, Min, Max and Get(the key just used).  int: digest of t.max after every
//	                  call.  One /<sums> per checkpoint: after every ceil(m/8)-th call (at least 4 apart)
//	                  and after the last one.
//	Q<t>:<ks>         Get of every key                               <found>,<digest of the results>
//	I<t>:<ks>:<s>     InorderAfter(k) for every key, the yield function returns false on call s+1
//	                  (s = -1: never)                                <elements delivered>,<digest>[!]
//	F<t>:<s>          Inorder stopped the same way                   <elements delivered>,<digest>[!]
//	                  "!": yield was called again after it returned false
//
//	sums              one summary per live tree, '+'-separated, as in the H lines:
//	                  len,IsEmpty,Min,Max,t.max,nodes,inorderhash,shapehash  (the shape read through
//	                  Root/Left/Right/Up/Key with ONE cursor, so that a path of 4000 nodes costs 4000 steps)
//
// seq (sequences of small integers): '.'-separated tokens; <v> one value, <v>x<c> the value c times,
// +<c> / -<c> c values each one more / one less than its predecessor; a negative value is written ~<abs>.
package main

import (
	"fmt"
	"sort"
	"strconv"
	"strings"
	"time"

	"github.com/creachadair/mds/stree"
	"verif/harness/internal/tr"
)

// ---------------------------------------------------------------- key sequences (mirrored in ocaml/stree_driver.ml)

type lcg struct{ x int64 }

func (l *lcg) next() int {
	l.x = (l.x*1103515245 + 12345) % 2147483648
	return int(l.x >> 8)
}

func permOf(n, seed int) []int {
	p := make([]int, n)
	for i := range p {
		p[i] = i
	}
	l := &lcg{x: int64(((seed % 2147483648) + 2147483648) % 2147483648)}
	for i := n - 1; i > 0; i-- {
		j := l.next() % (i + 1)
		p[i], p[j] = p[j], p[i]
	}
	return p
}

func orderIdx(pat byte, n, seed int) []int {
	out := make([]int, 0, n)
	switch pat {
	case 'a':
		for i := 0; i < n; i++ {
			out = append(out, i)
		}
	case 'd':
		for i := n - 1; i >= 0; i-- {
			out = append(out, i)
		}
	case 'z', 'i':
		lo, hi := 0, n-1
		for lo <= hi {
			out = append(out, lo)
			if lo != hi {
				out = append(out, hi)
			}
			lo++
			hi--
		}
		if pat == 'i' {
			for a, b := 0, len(out)-1; a < b; a, b = a+1, b-1 {
				out[a], out[b] = out[b], out[a]
			}
		}
	case 'r':
		return permOf(n, seed)
	default:
		return nil
	}
	return out
}

const maxSeq = 1 << 16

// ks is a key sequence in its textual form.
type ks struct {
	pat                          byte
	lo, step, n, rep, take, seed int
	list                         []int // pat == 'e'
}

func (k ks) String() string {
	if k.pat == 'e' {
		s := "e"
		for _, x := range k.list {
			s += "," + strconv.Itoa(x)
		}
		return s
	}
	return fmt.Sprintf("%c,%d,%d,%d,%d,%d,%d", k.pat, k.lo, k.step, k.n, k.rep, k.take, k.seed)
}

func (k ks) keys() []int {
	if k.pat == 'e' {
		return k.list
	}
	idx := orderIdx(k.pat, k.n, k.seed)
	out := make([]int, 0, k.take)
	for _, j := range idx[:k.take] {
		out = append(out, k.lo+k.step*(j/k.rep))
	}
	return out
}

func seqOf(pat byte, lo, step, n int) ks {
	return ks{pat: pat, lo: lo, step: step, n: n, rep: 1, take: n}
}

func parseKS(s string) (ks, bool) {
	f := strings.Split(s, ",")
	if len(f) == 0 || len(f[0]) != 1 {
		return ks{}, false
	}
	if f[0] == "e" {
		k := ks{pat: 'e'}
		if len(f) > maxSeq {
			return ks{}, false
		}
		for _, x := range f[1:] {
			v, err := strconv.Atoi(x)
			if err != nil {
				return ks{}, false
			}
			k.list = append(k.list, v)
		}
		return k, true
	}
	if len(f) != 7 || !strings.Contains("adzir", f[0]) {
		return ks{}, false
	}
	var v [6]int
	for i := range v {
		x, err := strconv.Atoi(f[i+1])
		if err != nil {
			return ks{}, false
		}
		v[i] = x
	}
	k := ks{pat: f[0][0], lo: v[0], step: v[1], n: v[2], rep: v[3], take: v[4], seed: v[5]}
	if k.n < 0 || k.n > maxSeq || k.rep < 1 || k.take < 0 || k.take > k.n || abs(k.lo) > 1<<40 || abs(k.step) > 1<<20 {
		return ks{}, false
	}
	return k, true
}

// encSeq writes a sequence of small integers (see the top of the file).
func encSeq(xs []int) string {
	if len(xs) == 0 {
		return "."
	}
	num := func(v int) string {
		if v < 0 {
			return "~" + strconv.Itoa(-v)
		}
		return strconv.Itoa(v)
	}
	var toks []string
	i := 0
	for i < len(xs) {
		if i > 0 && (xs[i] == xs[i-1]+1 || xs[i] == xs[i-1]-1) {
			d := xs[i] - xs[i-1]
			j := i
			for j < len(xs) && xs[j] == xs[j-1]+d {
				j++
			}
			sign := "+"
			if d < 0 {
				sign = "-"
			}
			toks = append(toks, sign+strconv.Itoa(j-i))
			i = j
			continue
		}
		j := i
		for j < len(xs) && xs[j] == xs[i] {
			j++
		}
		if j-i == 1 {
			toks = append(toks, num(xs[i]))
		} else {
			toks = append(toks, num(xs[i])+"x"+strconv.Itoa(j-i))
		}
		i = j
	}
	return strings.Join(toks, ".")
}

// ---------------------------------------------------------------- the interpreter

// walkShape reads the whole tree through ONE cursor (Root/HasLeft/Left/HasRight/Right/Up/Key): the
// same hash as shapeHash, the number of nodes and the depth of the deepest key (-1: empty).
func walkShape(t *stree.Tree[E]) (string, int, int) {
	var h hash
	nodes, deepest := 0, -1
	c := t.Root()
	if !c.Valid() {
		h.feed(0)
		return h.String(), 0, -1
	}
	var walk func(d int)
	walk = func(d int) {
		if d > 1<<20 {
			panic("cycle")
		}
		nodes++
		if d > deepest {
			deepest = d
		}
		h.feed(1)
		k := c.Key()
		h.feed(k.K)
		h.feed(k.P)
		if c.HasLeft() {
			c.Left()
			walk(d + 1)
			c.Up()
		} else {
			h.feed(0)
		}
		if c.HasRight() {
			c.Right()
			walk(d + 1)
			c.Up()
		} else {
			h.feed(0)
		}
	}
	walk(0)
	return h.String(), nodes, deepest
}

type bigRun struct {
	cmp      func(a, b E) int
	trees    []*stree.Tree[E]
	p        int
	outs     []string
	bad      bool
	maxDepth int // deepest key seen at any checkpoint
	rebuilds int // successful Removes after which t.max dropped
}

func (b *bigRun) el(k int) E { b.p++; return E{k, b.p} }

func (b *bigRun) sums() string {
	parts := make([]string, len(b.trees))
	for i, t := range b.trees {
		var ih hash
		t.Inorder(func(e E) bool { ih.feed(e.K); ih.feed(e.P); return true })
		sh, _, deep := walkShape(t)
		if deep > b.maxDepth {
			b.maxDepth = deep
		}
		_, actual := t.VerifSize()
		parts[i] = fmt.Sprintf("%d,%s,%s,%s,%d,%d,%s,%s", t.Len(), tr.B(t.IsEmpty()), t.Min(), t.Max(), t.VerifMax(), actual, ih.String(), sh)
	}
	return strings.Join(parts, "+")
}

func (b *bigRun) tree(s string) *stree.Tree[E] {
	i, err := strconv.Atoi(s)
	if err != nil || i < 0 || i >= len(b.trees) {
		b.bad = true
		return nil
	}
	return b.trees[i]
}

// collectDigest runs a range function with a yield that stops on call stop+1 and feeds what it got.
func collectDigest(h *hash, seq func(func(E) bool), stop int) (n int, again bool) {
	calls, stopped := 0, false
	seq(func(e E) bool {
		if stopped {
			again = true
			return false
		}
		h.feed(e.K)
		h.feed(e.P)
		calls++
		if stop >= 0 && calls == stop+1 {
			stopped = true
			return false
		}
		return true
	})
	h.feed(-1)
	return calls, again
}

// do runs one macro and appends its item.
func (b *bigRun) do(m string) {
	if m == "" {
		b.bad = true
		return
	}
	f := strings.Split(m[1:], ":")
	switch m[0] {
	case 'N', 'K':
		β, err := strconv.Atoi(f[0])
		if err != nil || β < 0 || β > 1000 || (m[0] == 'N' && len(f) != 1) || (m[0] == 'K' && len(f) != 3) {
			b.bad = true
			return
		}
		var arg []E
		if m[0] == 'K' {
			k, ok := parseKS(f[1])
			if !ok {
				b.bad = true
				return
			}
			for _, x := range k.keys() {
				arg = append(arg, b.el(x))
			}
		}
		t := stree.New(β, b.cmp, arg...)
		for i := range arg { // poison the argument slice
			arg[i] = E{-7, -7}
		}
		b.trees = append(b.trees, t)
		b.outs = append(b.outs, "u/"+b.sums())
	case 'C', 'X':
		if len(f) != 1 {
			b.bad = true
			return
		}
		t := b.tree(f[0])
		if b.bad {
			return
		}
		if m[0] == 'C' {
			b.trees = append(b.trees, t.Clone())
		} else {
			t.Clear()
		}
		b.outs = append(b.outs, "u/"+b.sums())
	case 'A', 'P', 'D':
		if len(f) != 2 {
			b.bad = true
			return
		}
		t := b.tree(f[0])
		k, ok := parseKS(f[1])
		if b.bad || !ok {
			b.bad = true
			return
		}
		keys := k.keys()
		every := max(4, (len(keys)+7)/8)
		var obs, in hash
		trues := 0
		var cps []string
		for j, x := range keys {
			e := b.el(x)
			before := t.VerifMax()
			var r bool
			switch m[0] {
			case 'A':
				r = t.Add(e)
			case 'P':
				r = t.Replace(e)
			default:
				r = t.Remove(e)
			}
			if r {
				trues++
				obs.feed(1)
			} else {
				obs.feed(0)
			}
			obs.feed(t.Len())
			if t.IsEmpty() {
				obs.feed(1)
			} else {
				obs.feed(0)
			}
			mn, mx := t.Min(), t.Max()
			obs.feed(mn.K)
			obs.feed(mn.P)
			obs.feed(mx.K)
			obs.feed(mx.P)
			v, found := t.Get(e)
			if found {
				obs.feed(1)
			} else {
				obs.feed(0)
			}
			obs.feed(v.K)
			obs.feed(v.P)
			in.feed(t.VerifMax())
			if m[0] == 'D' && r && t.VerifMax() < before {
				b.rebuilds++
			}
			if (j+1)%every == 0 || j == len(keys)-1 {
				cps = append(cps, b.sums())
			}
		}
		item := fmt.Sprintf("%d,%s,%s", trues, obs.String(), in.String())
		if len(cps) > 0 {
			item += "/" + strings.Join(cps, "/")
		}
		b.outs = append(b.outs, item)
	case 'Q':
		if len(f) != 2 {
			b.bad = true
			return
		}
		t := b.tree(f[0])
		k, ok := parseKS(f[1])
		if b.bad || !ok {
			b.bad = true
			return
		}
		var h hash
		found := 0
		for _, x := range k.keys() {
			v, ok := t.Get(b.el(x))
			if ok {
				found++
				h.feed(1)
			} else {
				h.feed(0)
			}
			h.feed(v.K)
			h.feed(v.P)
		}
		b.outs = append(b.outs, fmt.Sprintf("%d,%s", found, h.String()))
	case 'I', 'F':
		want := 3
		if m[0] == 'F' {
			want = 2
		}
		if len(f) != want {
			b.bad = true
			return
		}
		t := b.tree(f[0])
		stop, err := strconv.Atoi(f[want-1])
		if b.bad || err != nil || stop < -1 {
			b.bad = true
			return
		}
		var h hash
		total, again := 0, false
		if m[0] == 'F' {
			total, again = collectDigest(&h, t.Inorder, stop)
		} else {
			k, ok := parseKS(f[1])
			if !ok {
				b.bad = true
				return
			}
			for _, x := range k.keys() {
				n, ag := collectDigest(&h, t.InorderAfter(b.el(x)), stop)
				total += n
				again = again || ag
			}
		}
		item := fmt.Sprintf("%d,%s", total, h.String())
		if again {
			item += "!"
		}
		b.outs = append(b.outs, item)
	case 'Z':
		b.zipBig(f)
	default:
		b.bad = true
	}
}

func execBig(cmpName, prog string) string {
	b := &bigRun{cmp: cmpFor(cmpName)}
	if b.cmp == nil {
		return "BAD"
	}
	res := tr.Guard(bigWatchdog, func() {
		for _, m := range strings.Split(prog, ";") {
			b.do(m)
			if b.bad {
				return
			}
		}
	})
	if b.bad {
		return "BAD"
	}
	if res != "" {
		b.outs = append(b.outs, res)
	}
	return strings.Join(b.outs, ";")
}

// ---------------------------------------------------------------- generation

// big builds one B line; it runs the macros on a steering copy as it goes (to record New's oracle and to
// find two-child nodes on the real tree); a steering copy that fails stops steering, the line is
// emitted anyway and the failure is then recorded by exec.
type big struct {
	g      *tr.G
	cmp    string
	ms     []string
	run    *bigRun
	broken bool
	hung   string // set when the steering copy ran away: the output of the line, not executed again
	tags   map[string]bool
}

func newBig(g *tr.G, cmp string) *big {
	return &big{g: g, cmp: cmp, run: &bigRun{cmp: cmpFor(cmp)}, tags: map[string]bool{}}
}

func (b *big) add(m string) {
	b.ms = append(b.ms, m)
	if b.broken {
		return
	}
	before := len(b.run.outs)
	res := tr.Guard(bigWatchdog, func() { b.run.do(m) })
	if res == "hang" {
		// the run-away call keeps its goroutine; what the line had delivered before it is the output
		b.hung = strings.Join(append(append([]string(nil), b.run.outs[:before]...), "hang"), ";")
	}
	if res != "" || b.run.bad {
		b.broken = true
	}
}

// bigWatchdog: the biggest B line takes well under a second on the real package.
const bigWatchdog = 20 * time.Second

func (b *big) New(β int) int { b.add("N" + strconv.Itoa(β)); return len(b.run.trees) - 1 }

// classPos is the position of a key in the order of the comparator (equal positions = equivalent keys).
func classPos(cmp string, k int) int {
	order, j, _, _ := parseCmp(cmp)
	switch order {
	case 'r':
		return -k
	case 'm':
		return ((k % j) + j) % j
	}
	return k
}

// Bulk: stree.New from the key sequence, with the oracle read off the implementation.
func (b *big) Bulk(β int, k ks) int {
	keys := k.keys()
	p0 := b.run.p
	// which member of every class did the implementation keep?
	var picks []int
	if !b.broken {
		if tr.Guard(bigWatchdog, func() {
			arg := make([]E, len(keys))
			for i, x := range keys {
				arg[i] = E{x, p0 + 1 + i}
			}
			t := stree.New(β, cmpFor(b.cmp), arg...)
			seen := map[int]int{} // class -> members so far
			ord := make([]int, len(keys))
			for i, x := range keys {
				c := classPos(b.cmp, x)
				ord[i] = seen[c]
				seen[c]++
			}
			t.Inorder(func(e E) bool {
				i := e.P - p0 - 1
				if i >= 0 && i < len(ord) {
					picks = append(picks, ord[i])
				} else {
					picks = append(picks, 0)
				}
				return true
			})
		}) != "" {
			picks = nil
		}
	}
	b.add(fmt.Sprintf("K%d:%s:%s", β, k, encSeq(picks)))
	b.tags["big-bulk-new"] = true
	if k.rep > 1 {
		b.tags["big-bulk-new-duplicates"] = true
	}
	return len(b.run.trees) - 1
}

func (b *big) Clone(t int) int {
	b.add("C" + strconv.Itoa(t))
	b.tags["big-clone"] = true
	return len(b.run.trees) - 1
}

func (b *big) op(letter byte, t int, k ks) { b.add(fmt.Sprintf("%c%d:%s", letter, t, k)) }
func (b *big) Clear(t int)                 { b.add("X" + strconv.Itoa(t)) }
func (b *big) After(t int, k ks, stop int) {
	b.add(fmt.Sprintf("I%d:%s:%d", t, k, stop))
}
func (b *big) Inorder(t int, stop int) { b.add(fmt.Sprintf("F%d:%d", t, stop)) }

func (b *big) emit(tags ...string) {
	for t := range b.tags {
		tags = append(tags, t)
	}
	if b.run.maxDepth >= 64 {
		tags = append(tags, "big-path>=64")
	}
	if b.run.maxDepth >= 1000 {
		tags = append(tags, "big-path>=1000")
	}
	if _, _, style, _ := parseCmp(b.cmp); style != 0 {
		b.g.W.Count("big-cmp-style-"+string(style), 1)
	}
	b.g.W.Count("big-delete-rebuild", b.run.rebuilds)
	sort.Strings(tags)
	in := "B " + b.cmp + " " + strings.Join(b.ms, ";")
	var out string
	if b.hung != "" {
		out = b.hung
		b.g.W.Case(in, out, true, tags...)
	} else {
		out = b.g.Emit(in, true, tags...)
	}
	if strings.Contains(out, "panic:") || strings.Contains(out, "hang") {
		b.g.W.Count("impl-panic", 1)
	}
}

var scaleBetas = []int{0, 1, 50, 155, 250, 500, 800, 880, 950, 999, 1000}

var scaleStyles = []string{"", "d", "t", "v", "x", "e", "k"}

func scaleCmp(r *tr.Rand) string {
	o := "n"
	if r.Chance(1, 5) {
		o = "r"
	}
	return o + tr.Pick(r, scaleStyles)
}

func sizeTag(n int) string {
	k := 0
	for 1<<(k+1) <= n+1 {
		k++
	}
	return fmt.Sprintf("big-size-2^%d", k)
}

// probes: a key sequence of up to m keys spread over [lo-step, lo+step*n], present and absent ones.
func probeSeq(r *tr.Rand, lo, step, n, m int) ks {
	total := step*n + 2*step + 1
	take := min(m, total)
	return ks{pat: 'r', lo: lo - step, step: 1, n: total, rep: 1, take: take, seed: r.Intn(1 << 30)}
}

// growDrain: grow to n keys in the given order (by Add or by Replace), probe, drain to n/f by Remove,
// use every observer on what is left, regrow past the old peak, drain to empty by Remove, regrow.
func genGrowDrain(g *tr.G, n, β int, pat byte, cmp string) {
	r := g.R
	b := newBig(g, cmp)
	t := b.New(β)
	step := tr.Pick(r, []int{1, 2, 3})
	lo := r.Range(-n, 5)
	grow := ks{pat: pat, lo: lo, step: step, n: n, rep: 1, take: n, seed: r.Intn(1 << 30)}
	letter := byte('A')
	if r.Chance(1, 3) {
		letter = 'P'
		b.tags["big-grow-by-replace"] = true
	}
	b.op(letter, t, grow)
	b.op('Q', t, probeSeq(r, lo, step, n, 48))
	b.After(t, probeSeq(r, lo, step, n, 6), r.Range(0, 5))
	f := tr.Pick(r, []int{2, 4, 8, 16})
	keep := n / f
	dpat := tr.Pick(r, []byte{'a', 'd', 'z', 'i', 'r', 'r'})
	drain := ks{pat: dpat, lo: lo, step: step, n: n, rep: 1, take: n - keep, seed: r.Intn(1 << 30)}
	b.op('D', t, drain)
	b.tags[fmt.Sprintf("big-drain-to-1/%d", f)] = true
	// every observer on every remaining element (and on every removed key)
	b.op('Q', t, seqOf('a', lo, step, n))
	b.After(t, probeSeq(r, lo, step, n, 8), r.Range(0, 9))
	b.Inorder(t, r.Range(0, keep+1))
	if r.Chance(1, 2) { // Replace what is left and what is gone: true exactly for the gone ones
		b.op('P', t, ks{pat: 'r', lo: lo, step: step, n: n, rep: 1, take: min(n, 64), seed: r.Intn(1 << 30)})
	}
	// regrow past the old peak, at one end (adversarial) or over the old range (every integer of it)
	// then drain to empty by Remove (every key ever used and more, absent ones included), then regrow
	var all ks
	if step*n > 3000 || r.Chance(1, 2) {
		b.op('A', t, seqOf(tr.Pick(r, []byte{'a', 'z'}), lo+step*n, step, n-keep+2))
		all = ks{lo: lo - step, step: step, n: 2*n + 6, rep: 1, take: 2*n + 6}
	} else {
		b.op('A', t, ks{pat: tr.Pick(r, []byte{'a', 'd', 'r'}), lo: lo - 3, step: 1, n: step*n + 6, rep: 1, take: step*n + 6, seed: r.Intn(1 << 30)})
		all = ks{lo: lo - 5, step: 1, n: step*n + 10, rep: 1, take: step*n + 10}
	}
	all.pat, all.seed = tr.Pick(r, []byte{'a', 'd', 'z', 'i', 'r'}), r.Intn(1<<30)
	b.op('D', t, all)
	b.tags["big-drained-to-empty"] = true
	b.op('A', t, seqOf(pat, lo, step, min(n, 70)))
	b.emit("big-grow-drain-regrow", sizeTag(n), fmt.Sprintf("big-beta=%d", β), "big-order-"+string(pat))
}

// genBulkBig: New from sorted / unsorted / duplicated keys, then adversarial growth, drain, Replace.
func genBulkBig(g *tr.G, n, β int, pat byte, rep int, cmp string) {
	r := g.R
	b := newBig(g, cmp)
	lo := r.Range(-n, 5)
	step := tr.Pick(r, []int{1, 2})
	t := b.Bulk(β, ks{pat: pat, lo: lo, step: step, n: n * rep, rep: rep, take: n * rep, seed: r.Intn(1 << 30)})
	b.op('Q', t, probeSeq(r, lo, step, n, 48))
	b.op('A', t, seqOf(tr.Pick(r, []byte{'a', 'z'}), lo+step*n, 1, n/4+3))
	b.op('P', t, ks{pat: 'r', lo: lo, step: step, n: n, rep: 1, take: min(n, 100), seed: r.Intn(1 << 30)})
	b.op('D', t, ks{pat: tr.Pick(r, []byte{'a', 'd', 'r'}), lo: lo, step: step, n: n, rep: 1, take: n - n/tr.Pick(r, []int{2, 8, 16}), seed: r.Intn(1 << 30)})
	b.After(t, probeSeq(r, lo, step, n, 6), r.Range(0, 5))
	tag := "big-bulk-unsorted"
	if pat == 'a' {
		tag = "big-bulk-sorted"
	}
	b.emit("big-bulk", tag, sizeTag(n), fmt.Sprintf("big-beta=%d", β))
}

// genCloneBig: Clone of a big tree, then divergent edits on both sides; every checkpoint lists both.
func genCloneBig(g *tr.G, n, β int, pat byte, cmp string) {
	r := g.R
	b := newBig(g, cmp)
	a := b.New(β)
	lo := r.Range(-n, 5)
	step := 2
	b.op('A', a, ks{pat: pat, lo: lo, step: step, n: n, rep: 1, take: n, seed: r.Intn(1 << 30)})
	b.After(a, probeSeq(r, lo, step, n, 3), 1) // a range query BEFORE the Clone: what it leaves in the Tree is in both
	c := b.Clone(a)
	b.Zip(a, c, probeSeq(r, lo, step, n, 5), r.Range(2, 9)) // range queries on original and clone alive together
	b.Zip(a, a, probeSeq(r, lo, step, n, 3), r.Range(2, 9)) // and two on one tree
	x, y := a, c
	if r.Bool() {
		x, y = c, a
	}
	b.op('A', x, seqOf('a', lo+step*n, 1, n/4+2))                                                                    // growth at one end of one side
	b.op('D', y, ks{pat: tr.Pick(r, []byte{'a', 'd', 'r'}), lo: lo, step: step, n: n, rep: 1, take: n / 4, seed: 7}) // removals on the other
	b.op('P', x, ks{pat: 'r', lo: lo, step: step, n: n, rep: 1, take: min(n, 80), seed: r.Intn(1 << 30)})            // new payloads on one side only
	b.op('A', y, ks{pat: 'r', lo: lo + 1, step: step, n: n, rep: 1, take: min(n, 80), seed: r.Intn(1 << 30)})        // keys between, on the other
	b.op('D', x, ks{pat: tr.Pick(r, []byte{'a', 'd', 'z', 'r'}), lo: lo, step: step, n: n, rep: 1, take: n - n/8, seed: r.Intn(1 << 30)})
	b.op('Q', y, seqOf('a', lo, 1, min(step*n, 300)))
	b.op('Q', x, seqOf('a', lo, 1, min(step*n, 300)))
	b.Zip(x, y, probeSeq(r, lo, step, n, 6), r.Range(1, 20))
	b.Zip(y, x, seqOf('a', lo-1, step*n/4+1, 5), min(n, 48))
	if r.Chance(1, 3) {
		b.Clear(x)
		b.op('A', x, seqOf('d', lo, 1, 9))
		b.op('Q', y, probeSeq(r, lo, step, n, 32))
	}
	b.emit("big-clone-divergent", sizeTag(n), fmt.Sprintf("big-beta=%d", β), "big-order-"+string(pat))
}

// genCoarseBig: an equivalence coarser than identity (keys modulo j) with payloads on a big tree.
func genCoarseBig(g *tr.G, n, β int) {
	r := g.R
	j := n
	cmp := "m" + strconv.Itoa(j) + tr.Pick(r, []string{"", "d", "t", "v", "x", "e"})
	b := newBig(g, cmp)
	var t int
	if r.Chance(1, 2) {
		t = b.New(β)
		// 3n keys in j = n classes: the first arrival of a class stays under Add
		b.op('A', t, ks{pat: tr.Pick(r, []byte{'a', 'd', 'r'}), lo: 0, step: 1, n: 3 * n, rep: 1, take: 2*n + n/2, seed: r.Intn(1 << 30)})
	} else {
		t = b.Bulk(β, ks{pat: tr.Pick(r, []byte{'a', 'r'}), lo: 0, step: 1, n: 2 * n, rep: 1, take: 2 * n, seed: r.Intn(1 << 30)})
	}
	b.op('Q', t, ks{pat: 'r', lo: 0, step: 1, n: 4 * n, rep: 1, take: min(64, 4*n), seed: r.Intn(1 << 30)})
	b.op('P', t, ks{pat: 'r', lo: 5 * n, step: 1, n: n, rep: 1, take: n / 2, seed: r.Intn(1 << 30)})   // other members: new representatives
	b.op('D', t, ks{pat: 'r', lo: 7 * n, step: 1, n: n, rep: 1, take: n - n/4, seed: r.Intn(1 << 30)}) // removal through yet other members
	b.op('Q', t, seqOf('a', 0, 1, n))
	b.After(t, ks{pat: 'r', lo: 0, step: 1, n: 3 * n, rep: 1, take: 6, seed: r.Intn(1 << 30)}, r.Range(0, 5))
	b.op('A', t, ks{pat: 'r', lo: 9 * n, step: 1, n: n, rep: 1, take: n, seed: r.Intn(1 << 30)})
	b.emit("big-coarse-equivalence", sizeTag(n), fmt.Sprintf("big-beta=%d", β))
}

// deepSuccessors finds, on the real tree through one cursor, the nodes with two children whose
// in-order successor lies deepest below them (at least 2 levels); it returns their keys, the deepest
// first, with the successor's key.
func deepSuccessors(t *stree.Tree[E]) (keys, succs []E, depths []int) {
	c := t.Root()
	if !c.Valid() {
		return
	}
	type cand struct {
		k, s E
		d    int
	}
	var cs []cand
	var walk func()
	walk = func() {
		if c.HasLeft() && c.HasRight() {
			k := c.Key()
			d := 1
			c.Right()
			for c.HasLeft() {
				c.Left()
				d++
			}
			s := c.Key()
			withRight := c.HasRight()
			for i := 0; i < d; i++ {
				c.Up()
			}
			if d >= 2 {
				if withRight {
					d += 1000 // a successor that has a right subtree of its own first
				}
				cs = append(cs, cand{k, s, d})
			}
		}
		if c.HasLeft() {
			c.Left()
			walk()
			c.Up()
		}
		if c.HasRight() {
			c.Right()
			walk()
			c.Up()
		}
	}
	walk()
	sort.SliceStable(cs, func(i, j int) bool { return cs[i].d > cs[j].d })
	for _, x := range cs {
		keys = append(keys, x.k)
		succs = append(succs, x.s)
		depths = append(depths, x.d%1000)
	}
	return
}

// genTwoChildBig: removals of two-child nodes whose successor is deep, found on the real tree.
func genTwoChildBig(g *tr.G, n, β int, pat byte, cmp string) {
	r := g.R
	b := newBig(g, cmp)
	t := b.New(β)
	lo := r.Range(-n, 5)
	b.op('A', t, ks{pat: pat, lo: lo, step: 2, n: n, rep: 1, take: n, seed: r.Intn(1 << 30)})
	if r.Chance(1, 2) { // thin the tree out first: removals make successors deeper
		b.op('D', t, ks{pat: 'r', lo: lo, step: 2, n: n, rep: 1, take: n / 3, seed: r.Intn(1 << 30)})
	}
	found, deepest := 0, 0
	for round := 0; round < 12 && !b.broken; round++ {
		var keys, succs []E
		var depths []int
		if tr.Guard(bigWatchdog, func() { keys, succs, depths = deepSuccessors(b.run.trees[t]) }) != "" || len(keys) == 0 {
			break
		}
		pick := 0
		if r.Chance(1, 3) {
			pick = r.Intn(min(len(keys), 8))
		}
		k, s := keys[pick].K, succs[pick].K
		deepest = max(deepest, depths[pick])
		b.op('D', t, ks{pat: 'e', list: []int{k}})
		b.op('Q', t, ks{pat: 'e', list: []int{s, s + 2, s - 2, k, s + 1}}) // the promoted successor and its neighbours
		b.After(t, ks{pat: 'e', list: []int{k, s}}, r.Range(0, 3))
		found++
	}
	b.op('Q', t, seqOf('a', lo, 2, n))
	tags := []string{"big-two-child", sizeTag(n), fmt.Sprintf("big-beta=%d", β)}
	if found > 0 {
		tags = append(tags, "big-two-child-deep-successor")
	}
	if deepest >= 4 {
		tags = append(tags, "big-successor-depth>=4")
	}
	if deepest >= 8 {
		tags = append(tags, "big-successor-depth>=8")
	}
	b.emit(tags...)
}

// genDeleteRebuildBig: the delete-side rebuild of a big tree: the peak n is chosen so that the threshold
// (n*β+1000)/2000 is thr; grown to n, drained by Remove until the rebuild fires with about thr keys
// left (the removals around the threshold one macro each, every observer after them), drained further,
// regrown.
func genDeleteRebuildBig(g *tr.G, thr, β int, pat byte, cmp string) {
	r := g.R
	n := (thr*2000 - 1000 + β - 1) / β
	if n < thr+2 || n > 8192 {
		return
	}
	b := newBig(g, cmp)
	t := b.New(β)
	lo := r.Range(-n, 5)
	b.op('A', t, ks{pat: pat, lo: lo, step: 2, n: n, rep: 1, take: n, seed: r.Intn(1 << 30)})
	dpat := tr.Pick(r, []byte{'a', 'd', 'z', 'i', 'r'})
	seed := r.Intn(1 << 30)
	b.op('D', t, ks{pat: dpat, lo: lo, step: 2, n: n, rep: 1, take: n - thr - 1, seed: seed})
	idx := orderIdx(dpat, n, seed)
	for _, j := range idx[n-thr-1 : min(n, n-thr+2)] {
		b.op('D', t, ks{pat: 'e', list: []int{lo + 2*j}})
	}
	b.op('Q', t, seqOf('a', lo, 2, n))
	b.After(t, probeSeq(r, lo, 2, n, 6), r.Range(0, 5))
	b.Inorder(t, r.Range(0, thr))
	var more []int
	for _, j := range idx[min(n, n-thr+2):min(n, n-thr+2+thr/3)] {
		more = append(more, lo+2*j)
	}
	if len(more) > 0 && len(more) <= 400 {
		b.op('D', t, ks{pat: 'e', list: more})
	}
	b.op('P', t, ks{pat: 'r', lo: lo, step: 1, n: 2 * n, rep: 1, take: min(2*n, 200), seed: r.Intn(1 << 30)})
	b.op('A', t, seqOf(tr.Pick(r, []byte{'a', 'z'}), lo+2*n, 1, min(thr, 400)))
	b.emit("big-delete-rebuild-at", sizeTag(thr), fmt.Sprintf("big-beta=%d", β))
}

// genScale: sizes 2^k-1, 2^k, 2^k+1; every balance factor of scaleBetas comes round, the loose ones
// (long legitimate paths) with the adversarial orders.
func genScale(g *tr.G) {
	r := g.R
	turn := r.Intn(len(scaleBetas))
	nextBeta := func() int { turn++; return scaleBetas[turn%len(scaleBetas)] }
	pats := []byte{'a', 'd', 'z', 'i', 'r'}
	pturn := r.Intn(len(pats))
	nextPat := func() byte { pturn++; return pats[pturn%len(pats)] }
	// a vine of n nodes costs n steps per operation on both sides: balance factors from 950 up get the
	// adversarial orders in full only up to vineMax keys (a few bigger ones are added below)
	vineMax := g.Scale(1025, 4097)
	for k := 3; k <= 12; k++ {
		for _, n := range []int{1<<k - 1, 1 << k, 1<<k + 1} {
			rounds := 1
			if k <= 8 {
				rounds = g.Scale(2, 6)
			} else if g.Thorough() {
				rounds = 4
			}
			for i := 0; i < rounds; i++ {
				pick := func() (int, byte) {
					β, pat := nextBeta(), nextPat()
					if β >= 950 && n > vineMax {
						pat = 'r'
					}
					return β, pat
				}
				β, pat := pick()
				genGrowDrain(g, n, β, pat, scaleCmp(r))
				β, pat = pick()
				genCloneBig(g, n, β, pat, scaleCmp(r))
				β, pat = pick()
				genTwoChildBig(g, n, β, tr.Pick(r, []byte{'r', 'r', pat}), scaleCmp(r))
				β, _ = pick()
				// the model validates New's oracle in quadratic time: the biggest ones only now and then
				bp := tr.Pick(r, []string{"a1", "a2", "r1", "r2", "d1", "r3"})
				rep, nb := int(bp[1]-'0'), n
				if n*n*rep > g.Scale(1_300_000, 80_000_000) && !r.Chance(1, 6) {
					nb = n / 4
				}
				genBulkBig(g, nb, β, bp[0], rep, scaleCmp(r))
				if n <= g.Scale(1025, 4097) {
					genCoarseBig(g, n, nextBeta())
				}
			}
		}
	}
	// the delete-side rebuild leaving 2^k-2 .. 2^k+1 keys: every scale in the thorough tier, one small
	// and one big scale per balance factor in the quick tier
	for _, β := range []int{155, 250, 500, 800, 880, 950, 999, 1000} {
		small, bigk := 5+r.Intn(4), 9+r.Intn(3)
		for k := 5; k <= 11; k++ {
			if !g.Thorough() && k != small && k != bigk {
				continue
			}
			one := r.Intn(4)
			for i, thr := range []int{1<<k - 1, 1 << k, 1<<k + 1, 1<<k + 2} {
				if g.Thorough() || k == small || i == one {
					genDeleteRebuildBig(g, thr, β, tr.Pick(r, []byte{'r', 'r', 'a', 'd', 'z'}), scaleCmp(r))
				}
			}
		}
	}
	// every balance factor at two big sizes with the adversarial orders (the loose ones grow paths of
	// 64 and more levels), smaller where the tree is a vine
	for _, β := range scaleBetas {
		for _, pat := range []byte{'a', 'd', 'z'} {
			n := tr.Pick(r, []int{511, 512, 513, 1023, 1024, 1025, 2047, 2048, 2049})
			if β >= 950 {
				n = tr.Pick(r, []int{255, 256, 257, 511, 512, 513})
			}
			if !g.Thorough() && pat != 'a' && r.Chance(1, 2) {
				continue
			}
			genGrowDrain(g, n, β, pat, scaleCmp(r))
		}
	}
	// a few vines at full size
	for i := 0; i < g.Scale(1, 6); i++ {
		genGrowDrain(g, tr.Pick(r, []int{4095, 4096, 4097}), tr.Pick(r, []int{950, 999, 1000}), tr.Pick(r, []byte{'a', 'd', 'z', 'i'}), scaleCmp(r))
	}
	// random large sizes
	for i := 0; i < g.Scale(2, 40); i++ {
		genGrowDrain(g, r.Range(1500, 8192), tr.Pick(r, []int{0, 1, 50, 155, 250, 500, 800, 880}), nextPat(), scaleCmp(r))
	}
}
