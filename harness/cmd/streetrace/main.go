// Command streetrace drives stree.Tree of the working tree through whole histories and records
// every observable after every operation.  One case (history) per line:
//
//	H <cmp> <ops>  |  <out>;<out>;...        one <out> per op, or fewer followed by panic:<kind> / hang
//	L <β> <lo> <hi> | v,v,v,...              VerifLimit(β,n) for n = lo..hi (the float depth limit)
//
// Elements are pairs k_p (key, payload) compared by key only, so WHICH of two equivalent
// elements a tree stores is observable.  cmp = <order><style>: order n natural on k, r reversed,
// m<j> k modulo j; style (how the SIGN is delivered - the package documents <0 / =0 / >0 only):
// none -1/0/1, d the difference, t three times the difference, v the difference times a factor
// 1..5 that depends on the payloads (so two calls on equivalent keys return different numbers),
// x the sign times 2^40, e math.MinInt64 / 0 / math.MaxInt64, k -1/0/1 delivered through
// stree.KV.Compare, q -1/0/1 from a comparator that, during the read-only calls g A Y Z, first reads the
// tree it is called for (Get / InorderAfter / Cursor of the least and the greatest key, Len, Inorder in rotation).  B lines (big trees, macro operations): see scale.go.
//
// ops, ';'-separated, trees are numbered in order of creation (New and Clone):
//
//	N:<β>:<e,e,..|.>:<i,i,..|.>  stree.New(β, cmp, elems...); the last field is an ORACLE: the indices
//	                             (into elems) of the representatives the unstable sort + compact kept,
//	                             recorded by the generator from the implementation, validated by the model
//	C:<t>          Clone of tree t
//	a:<t>:<e>      Add        r:<t>:<e>  Replace       d:<t>:<e>  Remove        x:<t>  Clear
//	g:<t>:<e>      Get
//	I:<t>:<s>      Inorder, the yield function returns false on call s+1 (s = -1: never)
//	A:<t>:<e>:<s>  InorderAfter(e), same
//	S:<t>          the whole shape through Root/Left/Right/Key (cursor API)
//
// out:
//
//	N with β outside 0..1000: panic:beta iff the panic value is exactly the documented "β out of range"
//	mutations      <res>@<sum>+<sum>+...   res 1/0 (Add/Replace/Remove), u (New/Clone/Clear);
//	               N additionally lists what the tree holds: u:<e,e,..>@...; one <sum> per live tree
//	sum            len,IsEmpty,Min,Max,t.max,nodes,inorderhash,shapehash
//	g              1:<e> | 0:<zero e>
//	I, A           <e,e,..|.>  ("!" appended if yield was called again after returning false)
//	S              preorder, "(" left e right ")" and "." for nil
package main

import (
	gocmp "cmp"
	"fmt"
	"math"
	"sort"
	"strconv"
	"strings"
	"time"

	"github.com/creachadair/mds/stree"
	"verif/harness/internal/tr"
)

type E struct{ K, P int }

func (e E) String() string { return strconv.Itoa(e.K) + "_" + strconv.Itoa(e.P) }

func parseE(s string) (E, bool) {
	i := strings.IndexByte(s, '_')
	if i < 0 {
		return E{}, false
	}
	k, err1 := strconv.Atoi(s[:i])
	p, err2 := strconv.Atoi(s[i+1:])
	return E{k, p}, err1 == nil && err2 == nil
}

func parseEs(s string) ([]E, bool) {
	if s == "." || s == "" {
		return nil, true
	}
	parts := strings.Split(s, ",")
	out := make([]E, len(parts))
	for i, p := range parts {
		e, ok := parseE(p)
		if !ok {
			return nil, false
		}
		out[i] = e
	}
	return out, true
}

func showEs(es []E) string {
	if len(es) == 0 {
		return "."
	}
	var b strings.Builder
	for i, e := range es {
		if i > 0 {
			b.WriteByte(',')
		}
		b.WriteString(e.String())
	}
	return b.String()
}

// parseCmp splits a comparator name into order ('n', 'r', 'm' with modulus j) and style (0 = none).
func parseCmp(s string) (order byte, j int, style byte, ok bool) {
	if s == "" {
		return
	}
	order = s[0]
	rest := s[1:]
	switch order {
	case 'n', 'r':
	case 'm':
		i := 0
		for i < len(rest) && rest[i] >= '0' && rest[i] <= '9' {
			i++
		}
		var err error
		j, err = strconv.Atoi(rest[:i])
		if err != nil || j <= 0 {
			return
		}
		rest = rest[i:]
	default:
		return
	}
	switch rest {
	case "":
	case "d", "t", "v", "x", "k", "e", "q":
		style = rest[0]
	default:
		return
	}
	return order, j, style, true
}

func abs(a int) int {
	if a < 0 {
		return -a
	}
	return a
}

func cmpFor(s string) func(a, b E) int {
	order, j, style, ok := parseCmp(s)
	if !ok {
		return nil
	}
	// the position of an element in the order, as an integer
	pos := func(e E) int { return e.K }
	switch order {
	case 'r':
		pos = func(e E) int { return -e.K }
	case 'm':
		pos = func(e E) int { return ((e.K % j) + j) % j }
	}
	sign := func(d int) int {
		if d < 0 {
			return -1
		} else if d > 0 {
			return 1
		}
		return 0
	}
	switch style {
	case 'd':
		return func(a, b E) int { return pos(a) - pos(b) }
	case 't':
		return func(a, b E) int { return 3 * (pos(a) - pos(b)) }
	case 'v':
		return func(a, b E) int { return (pos(a) - pos(b)) * (1 + (abs(a.P)+abs(b.P))%5) }
	case 'x':
		return func(a, b E) int { return sign(pos(a)-pos(b)) << 40 }
	case 'e': // the extreme values of the result type
		return func(a, b E) int {
			switch d := pos(a) - pos(b); {
			case d < 0:
				return math.MinInt64
			case d > 0:
				return math.MaxInt64
			}
			return 0
		}
	case 'q': // -1/0/1, and whenever a read-only call of an H line is running the comparator first READS the tree it
		// is called for (round 5: read-only re-entrancy through the comparison callback)
		return func(a, b E) int {
			if reent.t != nil && reent.depth == 0 {
				reent.depth++
				reent.calls++
				t := reent.t
				// (lookups of OTHER keys than the one being searched: the search paths differ)
				switch reent.calls % 7 {
				case 0:
					t.Get(t.Max())
				case 1:
					t.Len()
					t.Get(b)
				case 2:
					collect(t.InorderAfter(t.Min()), 1)
				case 3:
					t.Cursor(t.Max()).Prev()
				case 4:
					t.IsEmpty()
					t.Get(t.Min())
				case 5:
					collect(t.InorderAfter(t.Max()), -1)
				default:
					collect(t.Inorder, 0)
				}
				reent.depth--
			}
			return sign(pos(a) - pos(b))
		}
	case 'k':
		kv := stree.KV[int, E]{}.Compare(gocmp.Compare[int])
		return func(a, b E) int { return kv(stree.KV[int, E]{Key: pos(a), Value: a}, stree.KV[int, E]{Key: pos(b), Value: b}) }
	}
	return func(a, b E) int { return sign(pos(a) - pos(b)) }
}

// reent: the tree a read-only call of an H line is running on (nil otherwise), for the comparator style q
var reent struct {
	t            *stree.Tree[E]
	depth, calls int
}

// reading runs a read-only call on t with the re-entrant comparator switched on
func reading(t *stree.Tree[E], f func()) {
	reent.t, reent.depth = t, 0
	defer func() { reent.t = nil }()
	f()
}

// ---- hashes (the driver computes the same ones on the model)

type hash struct{ a, b int64 }

func (h *hash) feed(v int) {
	x := int64(v)
	if x < 0 {
		x = -x + 1<<20
	}
	x %= 1 << 30
	h.a = (h.a*31337 + x + 7) % 2147483647
	h.b = (h.b*65599 + x + 13) % 2147483629
}
func (h *hash) String() string { return fmt.Sprintf("%x.%x", h.a, h.b) }

func shapeHash(t *stree.Tree[E]) (string, int) {
	var h hash
	nodes := 0
	var walk func(c *stree.Cursor[E])
	walk = func(c *stree.Cursor[E]) {
		if !c.Valid() {
			h.feed(0)
			return
		}
		nodes++
		h.feed(1)
		k := c.Key()
		h.feed(k.K)
		h.feed(k.P)
		if c.HasLeft() {
			walk(c.Clone().Left())
		} else {
			h.feed(0)
		}
		if c.HasRight() {
			walk(c.Clone().Right())
		} else {
			h.feed(0)
		}
	}
	walk(t.Root())
	return h.String(), nodes
}

func shapeString(t *stree.Tree[E]) string {
	var b strings.Builder
	var walk func(c *stree.Cursor[E])
	walk = func(c *stree.Cursor[E]) {
		if !c.Valid() {
			b.WriteByte('.')
			return
		}
		b.WriteByte('(')
		if c.HasLeft() {
			walk(c.Clone().Left())
		} else {
			b.WriteByte('.')
		}
		b.WriteString(c.Key().String())
		if c.HasRight() {
			walk(c.Clone().Right())
		} else {
			b.WriteByte('.')
		}
		b.WriteByte(')')
	}
	walk(t.Root())
	return b.String()
}

func summary(t *stree.Tree[E]) string {
	var ih hash
	t.Inorder(func(e E) bool { ih.feed(e.K); ih.feed(e.P); return true })
	sh, _ := shapeHash(t)
	_, actual := t.VerifSize()
	return fmt.Sprintf("%d,%s,%s,%s,%d,%d,%s,%s", t.Len(), tr.B(t.IsEmpty()), t.Min(), t.Max(), t.VerifMax(), actual, ih.String(), sh)
}

func summaries(ts []*stree.Tree[E]) string {
	parts := make([]string, len(ts))
	for i, t := range ts {
		parts[i] = summary(t)
	}
	return strings.Join(parts, "+")
}

// collect runs a range function with a yield that stops on call stop+1.
func collect(seq func(func(E) bool), stop int) string {
	var got []E
	calls, stopped, again := 0, false, false
	seq(func(e E) bool {
		if stopped {
			again = true
			return false
		}
		got = append(got, e)
		calls++
		if stop >= 0 && calls == stop+1 {
			stopped = true
			return false
		}
		return true
	})
	s := showEs(got)
	if again {
		s += "!"
	}
	return s
}

func execHistory(cmpName, opsStr string) string {
	cmp := cmpFor(cmpName)
	if cmp == nil {
		return "BAD"
	}
	var outs []string
	var trees []*stree.Tree[E]
	bad := false
	stopped := false // New panicked with exactly the documented value: the history ends there
	get := func(s string) *stree.Tree[E] {
		i, err := strconv.Atoi(s)
		if err != nil || i < 0 || i >= len(trees) {
			bad = true
			return nil
		}
		return trees[i]
	}
	res := tr.Guard(20*time.Second, func() {
		for _, op := range strings.Split(opsStr, ";") {
			f := strings.Split(op, ":")
			bad = bad || len(f) < 2
			if bad {
				return
			}
			switch {
			case f[0] == "N" && len(f) == 4:
				β, err := strconv.Atoi(f[1])
				keys, ok := parseEs(f[2])
				if err != nil || !ok {
					bad = true
					return
				}
				arg := append([]E(nil), keys...)
				t, documented := newTree(β, cmp, arg)
				if documented {
					outs = append(outs, "panic:beta")
					stopped = true
					return
				}
				for i := range arg { // poison the argument slice
					arg[i] = E{-7, -7}
				}
				trees = append(trees, t)
				outs = append(outs, "u:"+collect(t.Inorder, -1)+"@"+summaries(trees))
			case f[0] == "C" && len(f) == 2:
				t := get(f[1])
				if bad {
					return
				}
				trees = append(trees, t.Clone())
				outs = append(outs, "u@"+summaries(trees))
			case (f[0] == "a" || f[0] == "r" || f[0] == "d" || f[0] == "g") && len(f) == 3:
				t := get(f[1])
				e, ok := parseE(f[2])
				if bad || !ok {
					bad = true
					return
				}
				switch f[0] {
				case "a":
					outs = append(outs, tr.B(t.Add(e))+"@"+summaries(trees))
				case "r":
					outs = append(outs, tr.B(t.Replace(e))+"@"+summaries(trees))
				case "d":
					outs = append(outs, tr.B(t.Remove(e))+"@"+summaries(trees))
				case "g":
					reading(t, func() {
						v, ok := t.Get(e)
						outs = append(outs, tr.B(ok)+":"+v.String())
					})
				}
			case f[0] == "x" && len(f) == 2:
				t := get(f[1])
				if bad {
					return
				}
				t.Clear()
				outs = append(outs, "u@"+summaries(trees))
			case f[0] == "I" && len(f) == 3:
				t := get(f[1])
				stop, err := strconv.Atoi(f[2])
				if bad || err != nil {
					bad = true
					return
				}
				outs = append(outs, collect(t.Inorder, stop))
			case f[0] == "A" && len(f) == 4:
				t := get(f[1])
				e, ok := parseE(f[2])
				stop, err := strconv.Atoi(f[3])
				if bad || !ok || err != nil {
					bad = true
					return
				}
				reading(t, func() { outs = append(outs, collect(t.InorderAfter(e), stop)) })
			case f[0] == "S" && len(f) == 2:
				t := get(f[1])
				if bad {
					return
				}
				outs = append(outs, shapeString(t))
			case f[0] == "Z": // traversals alive together through iter.Pull (round5.go)
				travs, ok := parseZip(f, len(trees))
				if !ok {
					bad = true
					return
				}
				reading(trees[travs[0].t], func() { outs = append(outs, zipRun(trees, travs, f[2])) })
			case f[0] == "Y": // read-only calls from inside a loop body (round5.go)
				outer, stop, every, inners, ok := parseNest(f, len(trees))
				if !ok {
					bad = true
					return
				}
				reading(trees[outer.t], func() { outs = append(outs, nestRun(trees, outer, stop, every, inners)) })
			default:
				bad = true
				return
			}
		}
	})
	if bad {
		return "BAD"
	}
	if res != "" && !stopped {
		outs = append(outs, res)
	}
	return strings.Join(outs, ";")
}

// newTree calls stree.New; documented reports that it panicked with exactly the value the
// package documents for a balance factor outside 0..1000.  Any other panic is passed on.
func newTree(β int, cmp func(a, b E) int, keys []E) (t *stree.Tree[E], documented bool) {
	defer func() {
		if r := recover(); r != nil {
			if s, ok := r.(string); ok && s == "β out of range" {
				documented = true
				return
			}
			panic(r)
		}
	}()
	return stree.New(β, cmp, keys...), false
}

func exec(in string) string {
	f := strings.Fields(in)
	switch {
	case len(f) == 3 && f[0] == "H":
		return execHistory(f[1], f[2])
	case len(f) == 3 && f[0] == "B":
		return execBig(f[1], f[2])
	case len(f) == 4 && f[0] == "L":
		β, e1 := strconv.Atoi(f[1])
		lo, e2 := strconv.Atoi(f[2])
		hi, e3 := strconv.Atoi(f[3])
		if e1 != nil || e2 != nil || e3 != nil || β < 0 || β > 1000 || lo < 1 || hi < lo || hi-lo > 100000 {
			return "BAD"
		}
		vs := make([]int, 0, hi-lo+1)
		for n := lo; n <= hi; n++ {
			vs = append(vs, stree.VerifLimit(β, n))
		}
		return tr.Ints(vs)
	}
	return "BAD"
}

// ---------------------------------------------------------------- generation

// picksFor runs the implementation's New on the keys and reports which of them it kept (oracle).
func picksFor(β int, cmpName string, keys []E) string {
	if β < 0 || β > 1000 || len(keys) == 0 {
		return "."
	}
	idx := map[int]int{}
	for i, k := range keys {
		idx[k.P] = i
	}
	var picks []int
	// a broken implementation must not take the generator down: the history is emitted anyway and
	// the failure is then recorded, under the watchdog, by exec
	if tr.Guard(20*time.Second, func() {
		t := stree.New(β, cmpFor(cmpName), append([]E(nil), keys...)...)
		t.Inorder(func(e E) bool { picks = append(picks, idx[e.P]); return true })
	}) != "" {
		return "."
	}
	return tr.Ints(picks)
}

// hist builds one history; it keeps a plain reference of each tree's key set to steer choices.
type hist struct {
	g     *tr.G
	cmp   string
	ops   []string
	sets  []map[int]bool // canonical keys present, per tree
	nextP int
	tags  map[string]bool
	dump  bool // follow every mutation with full I and S dumps and probes
	pairs [][2]int         // (original, clone)
	hit   map[[2]int][2]bool // which side of a pair was really changed after the Clone
}

// touch records that tree t was really changed (contents or stored representative).
func (h *hist) touch(t int) {
	for _, p := range h.pairs {
		v := h.hit[p]
		if p[0] == t {
			v[0] = true
		}
		if p[1] == t {
			v[1] = true
		}
		h.hit[p] = v
		switch {
		case v[0] && v[1]:
			h.tags["clone-both-sides-changed"] = true
		case v[0]:
			h.tags["clone-original-changed"] = true
		case v[1]:
			h.tags["clone-copy-changed"] = true
		}
	}
}

func newHist(g *tr.G, cmp string, dump bool) *hist {
	return &hist{g: g, cmp: cmp, nextP: 1, tags: map[string]bool{}, dump: dump, hit: map[[2]int][2]bool{}}
}

func (h *hist) canon(k int) int {
	if order, j, _, _ := parseCmp(h.cmp); order == 'm' {
		return ((k % j) + j) % j
	}
	return k
}

func (h *hist) el(k int) E { h.nextP++; return E{k, h.nextP} }

func (h *hist) after(t int, k int) {
	if !h.dump {
		return
	}
	h.ops = append(h.ops, fmt.Sprintf("I:%d:-1", t), fmt.Sprintf("S:%d", t))
	r := h.g.R
	if r.Chance(1, 2) {
		h.ops = append(h.ops, fmt.Sprintf("g:%d:%s", t, h.el(k+r.Range(-1, 1))))
	}
	if r.Chance(1, 3) {
		h.ops = append(h.ops, fmt.Sprintf("A:%d:%s:%d", t, h.el(k+r.Range(-2, 2)), r.Range(-1, 3)))
	}
	if r.Chance(1, 6) {
		h.ops = append(h.ops, fmt.Sprintf("I:%d:%d", t, r.Range(0, 4)))
	}
}

func (h *hist) New(β int, keys []E) int {
	h.ops = append(h.ops, fmt.Sprintf("N:%d:%s:%s", β, showEs(keys), picksFor(β, h.cmp, keys)))
	set := map[int]bool{}
	dup := false
	for _, k := range keys {
		if set[h.canon(k.K)] {
			dup = true
		}
		set[h.canon(k.K)] = true
	}
	if β < 0 || β > 1000 {
		h.tags["new-bad-beta"] = true
		return -1
	}
	h.sets = append(h.sets, set)
	if len(keys) > 0 {
		h.tags["bulk-new"] = true
	}
	if dup {
		h.tags["bulk-new-duplicates"] = true
	}
	t := len(h.sets) - 1
	h.after(t, 0)
	return t
}

func (h *hist) Clone(t int) int {
	h.ops = append(h.ops, fmt.Sprintf("C:%d", t))
	set := map[int]bool{}
	for k := range h.sets[t] {
		set[k] = true
	}
	h.sets = append(h.sets, set)
	h.tags["clone"] = true
	h.pairs = append(h.pairs, [2]int{t, len(h.sets) - 1})
	return len(h.sets) - 1
}

func (h *hist) Add(t, k int) {
	if h.sets[t][h.canon(k)] {
		h.tags["add-existing"] = true
	} else {
		h.touch(t)
	}
	h.ops = append(h.ops, fmt.Sprintf("a:%d:%s", t, h.el(k)))
	h.sets[t][h.canon(k)] = true
	h.after(t, k)
}

func (h *hist) Replace(t, k int) {
	if h.sets[t][h.canon(k)] {
		h.tags["replace-existing"] = true
	}
	h.touch(t)
	h.ops = append(h.ops, fmt.Sprintf("r:%d:%s", t, h.el(k)))
	h.sets[t][h.canon(k)] = true
	h.after(t, k)
}

func (h *hist) Remove(t, k int) {
	if h.sets[t][h.canon(k)] {
		h.tags["remove-present"] = true
		h.touch(t)
		if len(h.sets[t]) == 1 {
			h.tags["drained-to-empty"] = true
		}
	} else {
		h.tags["remove-absent"] = true
	}
	h.ops = append(h.ops, fmt.Sprintf("d:%d:%s", t, h.el(k)))
	delete(h.sets[t], h.canon(k))
	h.after(t, k)
}

func (h *hist) Clear(t int) {
	h.ops = append(h.ops, fmt.Sprintf("x:%d", t))
	if len(h.sets[t]) > 0 {
		h.touch(t)
	}
	h.sets[t] = map[int]bool{}
	h.tags["clear"] = true
	h.after(t, 0)
}

func (h *hist) Dump(t int) {
	h.ops = append(h.ops, fmt.Sprintf("I:%d:-1", t), fmt.Sprintf("S:%d", t))
}

func (h *hist) Probe(t, k int) {
	h.ops = append(h.ops, fmt.Sprintf("g:%d:%s", t, h.el(k)), fmt.Sprintf("A:%d:%s:-1", t, h.el(k)))
}

func (h *hist) keysOf(t int) []int {
	var ks []int
	for k := range h.sets[t] {
		ks = append(ks, k)
	}
	sort.Ints(ks)
	return ks
}

func (h *hist) emit(tags ...string) string {
	for t := range h.tags {
		tags = append(tags, t)
	}
	sort.Strings(tags)
	nontrivial := h.tags["remove-present"] || h.tags["replace-existing"] || h.tags["bulk-new-duplicates"] || h.tags["clone"] || len(h.ops) > 20
	in := "H " + h.cmp + " " + strings.Join(h.ops, ";")
	out := h.g.Emit(in, nontrivial, tags...)
	// count what the implementation reported, from its own output
	if strings.Contains(out, "panic:") {
		h.g.W.Count("impl-panic", 1)
	}
	if _, _, style, _ := parseCmp(h.cmp); style != 0 {
		h.g.W.Count("cmp-style-"+string(style), 1)
	}
	for tag, n := range rebuilds(h.ops, strings.Split(out, ";")) {
		h.g.W.Count(tag, n)
	}
	return out
}

// rebuilds reads, from the implementation's own outputs, how often a history went through the
// rebuild paths: a successful Remove after which t.max dropped is a delete-side rebuild; a
// successful Add/Replace (in a history with shape dumps) whose new shape is not the old shape
// with one nil replaced by the new leaf is a scapegoat rebuild.
func rebuilds(ops, outs []string) map[string]int {
	res := map[string]int{}
	var maxes []int              // t.max per tree after the previous mutation
	shapes := map[string]string{} // last dumped shape per tree
	pending := ""                 // "t e old-shape" of an insertion waiting for the next dump of t
	var pendT, pendE, pendOld string
	for i, op := range ops {
		if i >= len(outs) {
			break
		}
		f := strings.Split(op, ":")
		o := outs[i]
		at := strings.IndexByte(o, '@')
		switch {
		case f[0] == "S" && len(f) == 2:
			if pending != "" && pendT == f[1] {
				if strings.Replace(o, "(."+pendE+".)", ".", 1) != pendOld {
					res["goat-rebuild"]++
				} else {
					res["plain-leaf-insert"]++
				}
				pending = ""
			}
			shapes[f[1]] = o
		case at >= 0:
			var now []int
			sizes := []int{}
			for _, sum := range strings.Split(o[at+1:], "+") {
				p := strings.Split(sum, ",")
				if len(p) != 8 {
					return res
				}
				m, _ := strconv.Atoi(p[4])
				n, _ := strconv.Atoi(p[0])
				now = append(now, m)
				sizes = append(sizes, n)
			}
			if len(f) == 3 {
				t, err := strconv.Atoi(f[1])
				if err == nil && t < len(maxes) && t < len(now) && o[:at] == "1" {
					switch f[0] {
					case "d":
						if now[t] < maxes[t] {
							res["delete-rebuild"]++
							if sizes[t] == 0 {
								res["delete-rebuild-to-empty"]++
							} else if sizes[t] == 1 {
								res["delete-rebuild-to-one"]++
							}
						}
					case "a", "r":
						if old, ok := shapes[f[1]]; ok {
							pending, pendT, pendE, pendOld = "y", f[1], f[2], old
						}
					}
				}
			}
			maxes = now
		}
	}
	return res
}

var betas = []int{0, 1, 250, 500, 999, 1000}

func pickBeta(r *tr.Rand) int {
	if r.Chance(1, 4) {
		return r.Intn(1001)
	}
	return tr.Pick(r, betas)
}

var styles = []string{"d", "t", "v", "x", "k", "e", "q"}

// pickStyle: half of the histories run under a comparator that delivers the sign some other way
// than -1/0/1.
func pickStyle(r *tr.Rand) string {
	if r.Chance(1, 2) {
		return ""
	}
	return tr.Pick(r, styles)
}

func pickCmp(r *tr.Rand) string {
	switch r.Intn(8) {
	case 0:
		return "r" + pickStyle(r)
	case 1:
		return "m" + strconv.Itoa(r.Range(3, 11)) + pickStyle(r)
	}
	return "n" + pickStyle(r)
}

// order patterns over 1..n
func pattern(r *tr.Rand, name string, n int) []int {
	ks := make([]int, 0, n)
	switch name {
	case "sorted":
		for i := 1; i <= n; i++ {
			ks = append(ks, i)
		}
	case "reverse":
		for i := n; i >= 1; i-- {
			ks = append(ks, i)
		}
	case "zigzag": // 1, n, 2, n-1, ...
		lo, hi := 1, n
		for lo <= hi {
			ks = append(ks, lo)
			lo++
			if lo <= hi {
				ks = append(ks, hi)
				hi--
			}
		}
	case "inside-out": // mid, mid+1, mid-1, ...
		mid := (n + 1) / 2
		ks = append(ks, mid)
		for d := 1; len(ks) < n; d++ {
			if mid+d <= n {
				ks = append(ks, mid+d)
			}
			if mid-d >= 1 {
				ks = append(ks, mid-d)
			}
		}
	case "random":
		for i := 1; i <= n; i++ {
			ks = append(ks, i)
		}
		for i := n - 1; i > 0; i-- {
			j := r.Intn(i + 1)
			ks[i], ks[j] = ks[j], ks[i]
		}
	case "dups":
		for i := 0; i < n; i++ {
			ks = append(ks, 1+r.Intn(max(2, n/4)))
		}
	}
	return ks
}

var patterns = []string{"sorted", "reverse", "zigzag", "inside-out", "random", "dups"}

// twoChildKeys finds, on the real tree, keys of nodes that have two children (through the cursor API).
func twoChildKeys(t *stree.Tree[E]) []E {
	var out []E
	var walk func(c *stree.Cursor[E])
	walk = func(c *stree.Cursor[E]) {
		if !c.Valid() {
			return
		}
		if c.HasLeft() && c.HasRight() {
			out = append(out, c.Key())
		}
		if c.HasLeft() {
			walk(c.Clone().Left())
		}
		if c.HasRight() {
			walk(c.Clone().Right())
		}
	}
	walk(t.Root())
	return out
}

func genSmall(g *tr.G) {
	r := g.R
	h := newHist(g, pickCmp(r), true)
	β := pickBeta(r)
	kmax := r.Range(3, 12)
	var t int
	if r.Chance(1, 3) {
		n := r.Intn(10)
		keys := make([]E, n)
		for i := range keys {
			keys[i] = h.el(1 + r.Intn(kmax))
		}
		t = h.New(β, keys)
	} else {
		t = h.New(β, nil)
	}
	live := []int{t}
	nops := r.Range(3, 30)
	for i := 0; i < nops; i++ {
		t := tr.Pick(r, live)
		k := 1 + r.Intn(kmax)
		switch x := r.Intn(20); {
		case x < 8:
			h.Add(t, k)
		case x < 11:
			h.Replace(t, k)
		case x < 17:
			h.Remove(t, k)
		case x == 17:
			if len(live) < 3 {
				live = append(live, h.Clone(t))
			}
		case x == 18:
			if r.Chance(1, 3) {
				h.Clear(t)
			}
		default:
			h.Probe(t, k)
		}
	}
	for _, t := range live {
		h.Dump(t)
	}
	h.emit("small-random")
}

// genPattern inserts a pattern, optionally drains, with summaries after every op and dumps now and then.
func genPattern(g *tr.G, pat string, n int, β int, drain string) {
	r := g.R
	h := newHist(g, "n"+pickStyle(r), n <= 16)
	t := h.New(β, nil)
	ks := pattern(r, pat, n)
	every := max(1, n/6)
	for i, k := range ks {
		if r.Chance(1, 12) {
			h.Replace(t, k)
		} else {
			h.Add(t, k)
		}
		if !h.dump && (i%every == every-1 || i == len(ks)-1) {
			h.Dump(t)
			h.Probe(t, tr.Pick(r, ks))
		}
	}
	tags := []string{"pattern-" + pat}
	if drain != "" {
		tags = append(tags, "drain-"+drain)
		present := h.keysOf(t)
		var order []int
		switch drain {
		case "asc":
			order = present
		case "desc":
			for i := len(present) - 1; i >= 0; i-- {
				order = append(order, present[i])
			}
		case "random":
			order = append(order, present...)
			for i := len(order) - 1; i > 0; i-- {
				j := r.Intn(i + 1)
				order[i], order[j] = order[j], order[i]
			}
		case "half": // drain about 3/4, then refill: exercises max bookkeeping
			order = append(order, present...)
			for i := len(order) - 1; i > 0; i-- {
				j := r.Intn(i + 1)
				order[i], order[j] = order[j], order[i]
			}
			order = order[:len(order)*3/4]
		}
		for i, k := range order {
			h.Remove(t, k)
			if !h.dump && (i%every == every-1 || i == len(order)-1) {
				h.Dump(t)
				if ks := h.keysOf(t); len(ks) > 0 {
					h.Probe(t, tr.Pick(r, ks))
				}
			}
		}
		for _, k := range pattern(r, "random", n/3) {
			h.Add(t, k)
		}
		h.Dump(t)
	}
	h.emit(tags...)
}

func genBulk(g *tr.G, n int) {
	r := g.R
	h := newHist(g, pickCmp(r), n <= 12)
	β := pickBeta(r)
	kmax := max(2, n/r.Range(1, 4))
	keys := make([]E, n)
	for i := range keys {
		keys[i] = h.el(1 + r.Intn(kmax))
	}
	if r.Chance(1, 6) {
		sort.Slice(keys, func(i, j int) bool { return keys[i].K < keys[j].K })
	}
	t := h.New(β, keys)
	h.Dump(t)
	for i := 0; i < r.Range(0, 12); i++ {
		k := 1 + r.Intn(kmax+2)
		switch r.Intn(4) {
		case 0:
			h.Add(t, k)
		case 1:
			h.Replace(t, k)
		case 2:
			h.Remove(t, k)
		default:
			h.Probe(t, k)
		}
	}
	h.Dump(t)
	h.emit("bulk")
}

// genTwoChild builds a tree, then repeatedly removes a node that has two children (found on the
// real tree through the cursor API) and looks up the promoted successor and its neighbours.
func genTwoChild(g *tr.G, n int) {
	r := g.R
	β := pickBeta(r)
	h := newHist(g, "n"+pickStyle(r), n <= 14)
	t := h.New(β, nil)
	cmp := cmpFor("n")
	var real *stree.Tree[E]
	broken := false // the steering copy failed: stop steering, emit what there is
	guard := func(f func()) {
		if !broken && tr.Guard(20*time.Second, f) != "" {
			broken = true
		}
	}
	guard(func() { real = stree.New(β, cmp) })
	for _, k := range pattern(r, tr.Pick(r, []string{"random", "inside-out", "random"}), n) {
		e := E{2 * k, 0}
		h.Add(t, e.K)
		guard(func() { real.Add(e) })
	}
	found := 0
	for i := 0; i < r.Range(1, 6); i++ {
		var cands []E
		guard(func() { cands = twoChildKeys(real) })
		if len(cands) == 0 || broken {
			break
		}
		e := tr.Pick(r, cands)
		// the successor of e.K among present keys
		ks := h.keysOf(t)
		j := sort.SearchInts(ks, e.K)
		h.Remove(t, e.K)
		guard(func() { real.Remove(e) })
		found++
		if j+1 < len(ks) {
			h.Probe(t, ks[j+1]) // the promoted successor
			if j+2 < len(ks) {
				h.Probe(t, ks[j+2])
			}
		}
		if j > 0 {
			h.Probe(t, ks[j-1])
		}
		h.ops = append(h.ops, fmt.Sprintf("A:%d:%s:%d", t, h.el(e.K), r.Range(-1, 2)))
		h.Dump(t)
	}
	tags := []string{"two-child-case"}
	if found > 0 {
		tags = append(tags, "two-child-removal")
	}
	h.emit(tags...)
}

func genClone(g *tr.G, n int) {
	r := g.R
	β := pickBeta(r)
	h := newHist(g, pickCmp(r), n <= 12)
	a := h.New(β, nil)
	for _, k := range pattern(r, tr.Pick(r, patterns), n) {
		h.Add(a, k)
	}
	b := h.Clone(a)
	for i := 0; i < r.Range(4, 24); i++ {
		t := tr.Pick(r, []int{a, b})
		k := 1 + r.Intn(n+3)
		switch r.Intn(5) {
		case 0, 1:
			h.Add(t, k)
		case 2:
			h.Replace(t, k)
		case 3:
			h.Remove(t, k)
		case 4:
			if r.Chance(1, 5) {
				h.Clear(t)
			}
		}
		h.Dump(a)
		h.Dump(b)
	}
	h.emit("clone-then-mutate-both")
}

// genSign: the package documents only the SIGN of the comparison result.  Keys are spaced so that
// no two distinct ones differ by exactly 1 in the order, and the comparator delivers differences
// (or multiples, or payload-dependent multiples): a result of exactly -1 or 1 then never occurs.
// Every operation that compares (Get, Add, Replace, Remove, InorderAfter, bulk New) is probed on
// present keys, absent keys between two present ones, and keys beyond both ends.
func genSign(g *tr.G, n int) {
	r := g.R
	order := tr.Pick(r, []string{"n", "n", "r", "m" + strconv.Itoa(tr.Pick(r, []int{64, 101, 1000}))})
	h := newHist(g, order+tr.Pick(r, []string{"d", "t", "v", "x", "e"}), n <= 14)
	β := pickBeta(r)
	space := tr.Pick(r, []int{2, 3, 7, 10})
	off := r.Range(-n*space/2, 3)
	if order[0] == 'm' {
		off = r.Range(0, 3) // positions are taken modulo j: keep them inside 0..j-1 and apart
		if n*space+off >= 60 {
			n = (60 - off) / space
		}
	}
	key := func(i int) int { return off + space*i } // i = 0..n-1 present candidates
	perm := pattern(r, tr.Pick(r, []string{"random", "sorted", "reverse", "zigzag"}), n)
	var t int
	split := r.Intn(n + 1)
	if split > 0 {
		keys := make([]E, 0, split+2)
		for _, i := range perm[:split] {
			keys = append(keys, h.el(key(i-1)))
		}
		if r.Chance(1, 2) { // an equivalent duplicate with another payload
			keys = append(keys, h.el(keys[r.Intn(len(keys))].K))
		}
		t = h.New(β, keys)
	} else {
		t = h.New(β, nil)
	}
	for _, i := range perm[split:] {
		h.Add(t, key(i-1))
	}
	h.Dump(t)
	probe := func(k int) {
		switch r.Intn(7) {
		case 0, 1:
			h.Probe(t, k)
		case 2:
			h.ops = append(h.ops, fmt.Sprintf("A:%d:%s:%d", t, h.el(k), r.Range(0, 3)))
		case 3:
			h.Add(t, k)
		case 4:
			h.Replace(t, k)
		default:
			h.Remove(t, k)
		}
		h.tags["sign-probe"] = true
	}
	for i := 0; i < r.Range(4, 16); i++ {
		j := r.Intn(n)
		switch r.Intn(4) {
		case 0, 1:
			probe(key(j)) // present (unless removed meanwhile)
		case 2:
			probe(key(j) + 1 + r.Intn(space-1)) // strictly between two candidates
		default:
			probe(tr.Pick(r, []int{key(0) - 1 - r.Intn(5), key(n-1) + 1 + r.Intn(5)}))
		}
	}
	h.Dump(t)
	h.emit("cmp-magnitude")
}

// genExhaustive: every insertion order of 1..n into an empty tree, full dumps after every step;
// then, on a fresh clone each time, every single removal followed by lookups of all keys.
func genExhaustive(g *tr.G, n int, β int, cmp string) {
	perm := make([]int, n)
	for i := range perm {
		perm[i] = i + 1
	}
	var rec func(k int)
	rec = func(k int) {
		if k == n {
			h := newHist(g, cmp, true)
			t := h.New(β, nil)
			for _, x := range perm {
				h.Add(t, 2*x)
			}
			for x := 1; x <= n; x++ {
				c := h.Clone(t)
				h.Remove(c, 2*x)
				for y := 1; y <= 2*n+1; y++ {
					h.ops = append(h.ops, fmt.Sprintf("g:%d:%s", c, h.el(y)))
				}
				h.ops = append(h.ops, fmt.Sprintf("A:%d:%s:-1", c, h.el(2*x-1)))
			}
			h.Dump(t)
			h.emit(fmt.Sprintf("exhaustive-orders-%d", n))
			return
		}
		for i := k; i < n; i++ {
			perm[k], perm[i] = perm[i], perm[k]
			rec(k + 1)
			perm[k], perm[i] = perm[i], perm[k]
		}
	}
	rec(0)
}

func genLimits(g *tr.G) {
	hi := g.Scale(1024, 4096)
	for _, β := range []int{0, 1, 2, 100, 250, 333, 500, 667, 750, 900} {
		g.Emit(fmt.Sprintf("L %d 1 %d", β, hi), true, "limit-sweep")
	}
	for _, β := range []int{990, 999} {
		g.Emit(fmt.Sprintf("L %d 1 %d", β, g.Scale(300, 1200)), true, "limit-sweep")
	}
	g.Emit("L 1000 1 64", true, "limit-sweep")
	for i := 0; i < g.Scale(20, 200); i++ {
		β := g.R.Intn(990)
		g.Emit(fmt.Sprintf("L %d 1 %d", β, g.Scale(256, 1024)), true, "limit-sweep")
	}
}

func main() {
	tr.Main("C01: whole histories of stree.Tree over (key,payload) elements compared by key. Comparators: natural, reversed and modulo-j orders, each delivering the sign as -1/0/1, as the difference, three times the difference, a payload-dependent multiple of the difference, sign times 2^40, MinInt64/MaxInt64, or through stree.KV.Compare (half of all histories use a non-unit style). Generators: small random histories over 3..12 keys with New/Add/Replace/Remove/Clear/Clone and full Inorder+shape dumps and Get/InorderAfter/stopped-Inorder probes after every mutation; every insertion order of 4..5 (thorough 6..7) keys followed by every single removal on a fresh clone and lookups of all keys; sign-only probes (keys spaced so that no comparison returns -1 or 1: Get/Add/Replace/Remove/InorderAfter on present keys, keys between two present ones and keys beyond both ends); sorted, reverse, zig-zag, inside-out, random and duplicate-heavy insertion patterns up to 160 (quick) / 1500 (thorough) keys at beta in {0,1,250,500,999,1000} plus random beta, each optionally drained ascending/descending/randomly/three-quarters and refilled; bulk New with unsorted duplicated keys (the kept representatives are recorded as oracle input); two-child removals found on the real tree followed by lookups of the promoted successor; Clone then mutate both copies; New with beta outside 0..1000 (down to MinInt64 and up to MaxInt64, with and without keys) must panic with exactly the documented value. After every mutation: result, Len, IsEmpty, Min, Max, t.max, node count and hashes of the full Inorder output and of the whole shape read through Root/Left/Right/Key, for every live tree. Plus sweeps of the float depth limit VerifLimit(beta,n). Scale stream (B lines, macro operations over arithmetic key sequences): trees of 2^k-1, 2^k, 2^k+1 keys for k = 3..12 and a few random sizes up to 8192, built by Add or Replace in ascending/descending/outside-in/inside-out/random order or by New from sorted/unsorted/duplicated keys (oracle recorded per class), at beta in {0,1,50,155,250,500,800,880,950,999,1000} in rotation (vines above 1025 keys only a few per run in the quick tier); grow - probe - drain to 1/2..1/16 by Remove - every observer on every remaining key - regrow past the peak - drain to empty by Remove - regrow; Clone of a big tree then divergent edits on both sides; removals of two-child nodes whose successor lies deep (found on the real tree); equivalences coarser than identity (keys modulo n) with payloads; comparators delivering the sign as -1/0/1, differences, multiples, payload-dependent multiples, 2^40 and MinInt64/MaxInt64. After EVERY call of a B line a digest takes in the result, Len, IsEmpty, Min, Max and Get of the key just used (and t.max); about nine checkpoints per macro list, for every live tree, Len, IsEmpty, Min, Max, t.max, node count, a digest of the whole Inorder output and a digest of the whole shape read through one cursor. Counters delete-rebuild*/goat-rebuild are read from the implementation's own outputs. Round 5 (ops Z, Y; B macro Z; comparator style q): traversals ALIVE TOGETHER - two or three InorderAfter/Inorder iterations started through iter.Pull and pulled in lock step or in random bursts over one tree or over an original and its clone (Clone taken after earlier range queries, then edits on either side), and read-only calls from inside a loop body (a second range query from key+d stopped at once / after a few keys / never, Inorder, Get, Min/Max/Len, Tree.Cursor with Next and Prev) at every or every other element of an outer InorderAfter/Inorder, exhaustively for every pair of start keys on trees of 1,2,3,5,7 keys and at random on trees up to 40 keys; what each traversal delivers must be what it delivers alone (model and reference evaluate each by itself); on big trees pairs of range queries on original and clone pulled in turns (digest); a comparator that during Get/InorderAfter/these ops reads the tree it is called for (Get, Len, Min, Max, InorderAfter, Cursor, Inorder in rotation). Round 6 (round6.go, B lines): drain sweeps - for beta in {0,50,250,500,999} every peak 0..130 (grown in five orders under rotating comparators) drained by Remove of ONE key per macro (ascending, descending, random) down to the empty tree, a checkpoint (Len, IsEmpty, Min, Max, t.max, node count, Inorder digest, shape digest) after every Remove, Get over the range and InorderAfter around the removed key after every fourth, full Inorder at the end, observers on the new empty tree before the first mutation, a third regrown to half the peak and drained again: every count at which the delete-side rebuild fires, from every peak. A case is non-trivial when it removed a present key, replaced an existing one, bulk-loaded duplicates, cloned, or has more than 20 ops.",
		exec, func(g *tr.G) {
			r := g.R
			// invalid β, with and without keys: the documented panic and nothing else
			for _, β := range []int{-1, 1001, -1000, 2000, math.MinInt64, math.MinInt64 + 1, math.MaxInt64, 1 << 32, -(1 << 31), 1<<63 - 1000} {
				for _, withKeys := range []bool{true, false} {
					h := newHist(g, "n", true)
					if withKeys {
						h.New(β, []E{h.el(1), h.el(2)})
					} else {
						h.New(β, nil)
					}
					h.emit("bad-beta")
				}
			}
			// the two ends of the documented range are accepted
			for _, β := range []int{0, 1000} {
				h := newHist(g, "nd", true)
				t := h.New(β, []E{h.el(3), h.el(1), h.el(3)})
				h.Add(t, 2)
				h.Probe(t, 3)
				h.emit("edge-beta")
			}
			for _, β := range []int{0, 500, 1000} {
				genExhaustive(g, g.Scale(4, 6), β, tr.Pick(r, []string{"n", "nd", "rt", "nv"}))
			}
			genExhaustive(g, g.Scale(5, 7), 250, "nd")
			for i := 0; i < g.Scale(700, 14000); i++ {
				genSign(g, r.Range(2, g.Scale(24, 50)))
			}
			for i := 0; i < g.Scale(2500, 60000); i++ {
				genSmall(g)
			}
			sizes := []int{5, 9, 16, 33, 64, 100, 160}
			if g.Thorough() {
				sizes = append(sizes, 257, 400, 700, 1023, 1500)
			}
			for _, pat := range patterns {
				for _, β := range betas {
					for _, n := range sizes {
						genPattern(g, pat, n, β, "")
						if n <= 400 {
							genPattern(g, pat, n, β, tr.Pick(r, []string{"asc", "desc", "random", "half"}))
						}
					}
				}
			}
			for i := 0; i < g.Scale(150, 3000); i++ {
				genPattern(g, tr.Pick(r, patterns), r.Range(2, 80), r.Intn(1001), tr.Pick(r, []string{"", "asc", "desc", "random", "half"}))
			}
			for i := 0; i < g.Scale(600, 12000); i++ {
				genBulk(g, r.Range(1, g.Scale(40, 120)))
			}
			for i := 0; i < g.Scale(400, 8000); i++ {
				genTwoChild(g, r.Range(3, g.Scale(40, 100)))
			}
			for i := 0; i < g.Scale(300, 6000); i++ {
				genClone(g, r.Range(1, g.Scale(24, 60)))
			}
			genLimits(g)
			genRound5(g)
			genDrainSweep(g) // round 6 (round6.go): every peak 0..130 drained one Remove at a time
			genScale(g)
		})
}
