// Stack lines, generic in the element type (round 5).
//
//	S <op;…>          stack.New[int]()                      (the lines of the earlier rounds)
//	S<t><c> <op;…>    stack.Stack[T]; t names T, c the constructor: n = stack.New[T](), z = the zero value
//
//	t: i int   b byte   o bool   h int16   t [3]byte   f float32   p *int   s string   w struct of five int64
//
// Elements travel as integer CODES (verif/harness/internal/elem): 0 is the zero value of T, the
// values of the ops are codes, every printed element is the code it decodes to (-424242 for a
// value no code maps to).  pushn/addn:N:B insert the codes of B+1 … B+N, which cycle where the
// type is small (byte: 1..250, bool: 1, int16: 1..30000); the driver applies the same rule.
// The model is polymorphic in T, so the driver replays S<t><c> lines as S lines.
//
// An UPPERCASE type letter (SIn, SBz, …) marks a spec-only line: the same history on the same type,
// but of 2^15 .. 2^16+1 elements, which the extracted model (one list traversal per operation)
// cannot replay in reasonable time.  The driver evaluates the reference (StackModel.sastep, the
// plain list with push and pop at its head) for both the prediction and the property on these.
//
// Op reach (all S kinds): re-entrant and interleaved iteration.  One s.Each(f) whose callback
// calls back into the same stack at every element (Len, IsEmpty, Top, Peek(i), a complete nested
// Each, Slice), then two iter.Pull iterators over s.Each alive at once (one step per round
// against two, Len in between).  Each traversal must yield what it would yield alone:
//
//	E<v_i>(<Len>,<IsEmpty>,<Top>,<Peek(i) v:ok>,<nested Each>,<Slice>)+…|<pulled A>|<pulled B>     sequences v~v~v, "." when empty
package main

import (
	"iter"
	"strconv"
	"strings"

	"github.com/creachadair/mds/stack"
	"verif/harness/internal/elem"
	"verif/harness/internal/tr"
)

func seqText(xs []int) string {
	if len(xs) == 0 {
		return "."
	}
	out := make([]string, len(xs))
	for i, x := range xs {
		out[i] = strconv.Itoa(x)
	}
	return strings.Join(out, "~")
}

func stackReentrant[T any](s *stack.Stack[T], dec func(T) int) string {
	var parts []string
	i := 0
	s.Each(func(v T) bool {
		x, ok := s.Peek(i)
		var inner []int
		s.Each(func(w T) bool { inner = append(inner, dec(w)); return true })
		parts = append(parts, strconv.Itoa(dec(v))+"("+strconv.Itoa(s.Len())+","+tr.B(s.IsEmpty())+","+strconv.Itoa(dec(s.Top()))+","+
			strconv.Itoa(dec(x))+":"+tr.B(ok)+","+seqText(inner)+","+seqText(elem.DecAll(dec, s.Slice()))+")")
		i++
		return true
	})
	nextA, stopA := iter.Pull(iter.Seq[T](s.Each))
	nextB, stopB := iter.Pull(iter.Seq[T](s.Each))
	defer stopA()
	defer stopB()
	var as, bs []int
	for doneA, doneB := false, false; !doneA || !doneB; {
		if !doneA {
			if v, ok := nextA(); ok {
				as = append(as, dec(v))
			} else {
				doneA = true
			}
		}
		_ = s.Len()
		for k := 0; k < 2 && !doneB; k++ {
			if v, ok := nextB(); ok {
				bs = append(bs, dec(v))
			} else {
				doneB = true
			}
		}
	}
	return "E" + strings.Join(parts, "+") + "|" + seqText(as) + "|" + seqText(bs)
}

// execStackT: one stack history on stack.Stack[T] (zeroValue: a zero Stack instead of New).
func execStackT[T any](cd elem.Codec[T], zeroValue bool, ops []string) string {
	s := stack.New[T]()
	if zeroValue {
		var z stack.Stack[T]
		s = &z
	}
	dec := cd.Dec
	var kept [][]T   // slices returned by Slice earlier
	var snap [][]int // and what they held
	quiet := false
	eachP := func(p func(int) bool) string {
		return call(func() string {
			var got []int
			s.Each(func(x T) bool { got = append(got, dec(x)); return p(dec(x)) })
			return "l" + ints(got)
		})
	}
	return steps(ops, func(op string) string {
		f := strings.Split(op, ":")
		res := "?"
		switch {
		case f[0] == "push" && len(f) == 2:
			if v, ok := atoi(f[1]); ok {
				res = call(func() string { s.Push(cd.Enc(v)); return "u" })
			}
		case f[0] == "addv" && len(f) == 2:
			if v, ok := atoi(f[1]); ok {
				res = call(func() string { s.Add(cd.Enc(v)); return "u" })
			}
		case (f[0] == "pushn" || f[0] == "addn") && len(f) == 3:
			if n, b, ok := bulk(f[1], f[2]); ok {
				add := f[0] == "addn"
				res = "u" + many(n, func(i int) {
					if add {
						s.Add(cd.Enc(cd.Code(b + 1 + i)))
					} else {
						s.Push(cd.Enc(cd.Code(b + 1 + i)))
					}
				})
				if strings.HasPrefix(res, "uP") {
					res = res[1:]
				}
			}
		case f[0] == "popn" && len(f) == 2:
			if n, ok := atoi(f[1]); ok && n >= 0 && n <= maxBulk {
				var vs []int
				p := many(n, func(int) { v, ok := s.Pop(); vs = append(vs, popEnc(dec(v), ok)) })
				res = "q" + ints(vs) + p
			}
		case f[0] == "peeks" && len(f) == 2:
			if offs, ok := vals(f[1]); ok {
				var out []string
				pn := many(len(offs), func(i int) {
					v, ok := s.Peek(offs[i])
					out = append(out, strconv.Itoa(dec(v))+":"+tr.B(ok))
				})
				res = "p" + strings.Join(out, ",") + pn
			}
		case op == "quiet":
			quiet = true
			return "u"
		case op == "obs":
			res = "o"
		case op == "empty":
			res = call(func() string { return "b" + tr.B(s.IsEmpty()) })
		case op == "clear":
			res = call(func() string { s.Clear(); return "u" })
		case op == "top":
			res = call(func() string { return "v" + strconv.Itoa(dec(s.Top())) })
		case f[0] == "peek" && len(f) == 2:
			if n, ok := atoi(f[1]); ok {
				res = call(func() string { v, ok := s.Peek(n); return "p" + strconv.Itoa(dec(v)) + ":" + tr.B(ok) })
			}
		case op == "pop":
			res = call(func() string { v, ok := s.Pop(); return "p" + strconv.Itoa(dec(v)) + ":" + tr.B(ok) })
		case f[0] == "each" && len(f) == 2:
			if p, ok := pred(f[1]); ok {
				res = eachP(p)
			}
		case op == "reach":
			res = call(func() string { return stackReentrant(s, dec) })
		case op == "len":
			res = call(func() string { return "n" + strconv.Itoa(s.Len()) })
		case op == "slice":
			res = call(func() string {
				sl := s.Slice()
				r := "l" + ints(elem.DecAll(dec, sl))
				if len(sl) == 0 && sl != nil { // "If s is empty, Slice returns nil"
					r = "lnil"
				}
				if len(sl) > 0 {
					kept = append(kept, append(sl, cd.Poison)) // into the spare capacity, if there is any
				}
				for i := range sl { // Slice must be a copy: poison it (kept shares sl's array: snapshot afterwards)
					sl[i] = cd.Poison
				}
				if len(sl) > 0 {
					snap = append(snap, elem.DecAll(dec, kept[len(kept)-1]))
				}
				return r
			})
		}
		alias := ""
		for i := range kept {
			for j := range kept[i] {
				if dec(kept[i][j]) != snap[i][j] {
					alias = "/ALIAS"
				}
			}
		}
		if quiet && op != "obs" {
			return res + alias
		}
		return strings.Join([]string{res,
			call(func() string { return "l" + ints(elem.DecAll(dec, s.Slice())) }),
			eachP(func(int) bool { return true }),
			call(func() string { return "n" + strconv.Itoa(s.Len()) }),
			call(func() string { return "b" + tr.B(s.IsEmpty()) }),
			call(func() string { return "v" + strconv.Itoa(dec(s.Top())) }),
			call(func() string { v, ok := s.Peek(1); return "p" + strconv.Itoa(dec(v)) + ":" + tr.B(ok) })}, "/") + alias
	})
}

// stackKinds: the type letters of S<t><c> lines.
const stackKinds = "ibohtfpsw"

// execStackKind runs a typed stack line; kind is the first word (S<t><c>).
func execStackKind(kind string, ops []string) string {
	if len(kind) != 3 || kind[0] != 'S' || (kind[2] != 'n' && kind[2] != 'z') {
		return "?"
	}
	z := kind[2] == 'z'
	t := kind[1]
	if t >= 'A' && t <= 'Z' { // spec-only line (exact large sizes): the same execution
		t += 'a' - 'A'
	}
	switch t {
	case 'i':
		return execStackT(elem.Int, z, ops)
	case 'b':
		return execStackT(elem.Byte, z, ops)
	case 'o':
		return execStackT(elem.Bool, z, ops)
	case 'h':
		return execStackT(elem.I16, z, ops)
	case 't':
		return execStackT(elem.B3, z, ops)
	case 'f':
		return execStackT(elem.F32, z, ops)
	case 'p':
		return execStackT(elem.Ptr, z, ops)
	case 's':
		return execStackT(elem.Str, z, ops)
	case 'w':
		return execStackT(elem.WideC, z, ops)
	}
	return "?"
}

// genStackTyped: the round-5 stack streams.  emit(kind, ops, tags…) runs one line.
func genStackTyped(g *tr.G, emit func(kind string, ops []string, tags ...string)) {
	r := g.R
	// re-entrant traversals on S lines too (int, New)
	emit("S", []string{"reach", "push:1", "reach", "push:2", "push:3", "reach", "pop", "reach", "clear", "reach"}, "reentrant")
	for ti, t := range stackKinds {
		second := "push:2" // a second code, where the type has one
		if t == 'o' {
			second = "push:0" // bool: the zero value as an element
		}
		for _, c := range "zn" {
			kind := "S" + string(t) + string(c)
			if kind == "Sin" {
				continue // that is "S"
			}
			// every history over the alphabet to a depth
			alpha := []string{"push:1", second, "pop", "clear", "slice", "peek:0"}
			depth := g.Scale(3, 4)
			if c == 'z' && (t == 'b' || t == 'o' || t == 'w') {
				depth = g.Scale(4, 5) // (bin/check C10 thorough is close to its 15 minutes: depth 5 for three types only)
			} else if c == 'z' {
				depth = 4
			}
			var rec func(cur []string, d int)
			rec = func(cur []string, d int) {
				if len(cur) > 0 {
					emit(kind, cur, "typed-exhaustive")
				}
				if d == 0 {
					return
				}
				for _, a := range alpha {
					rec(append(cur[:len(cur):len(cur)], a), d-1)
				}
			}
			rec(nil, depth)
			// scripted: snapshots kept across later operations; the drained and the cleared stack; extreme offsets
			emit(kind, []string{"slice", "top", "peek:0", "pop", "push:1", "slice", "pop", "top", "peek:0", "slice", "push:1", second, "push:1", "slice", "pop", "slice", "addv:1", "push:1", "slice", "clear", "slice", "top", "pop", "push:1", "slice", "reach"}, "typed-scripted")
			for _, x := range extremes {
				emit(kind, []string{"peek:" + x, "push:1", "peek:" + x, second, "push:1", "peek:" + x, "pop", "peek:" + x}, "typed-extreme-offset")
			}
			// random histories
			maxCode := 9
			if t == 'o' {
				maxCode = 1
			}
			for i := 0; i < g.Scale(60, 200); i++ {
				n := r.Range(3, 30)
				ops := make([]string, 0, n)
				for len(ops) < n {
					v := strconv.Itoa(r.Range(0, maxCode))
					if !r.Chance(1, 12) {
						v = strconv.Itoa(r.Range(1, maxCode))
					}
					switch c := r.Intn(16); {
					case c < 5:
						ops = append(ops, "push:"+v)
					case c < 6:
						ops = append(ops, "addv:"+v)
					case c < 10:
						ops = append(ops, "pop")
					case c == 10:
						ops = append(ops, "peek:"+idx(r))
					case c == 11:
						ops = append(ops, "each:"+rpred(r))
					case c == 12:
						ops = append(ops, tr.Pick(r, []string{"top", "len", "empty", "slice", "slice", "slice"}))
					case c == 13:
						ops = append(ops, "reach")
					case c == 14:
						ops = append(ops, "pushn:"+strconv.Itoa(r.Range(1, 12))+":"+strconv.Itoa(r.Range(0, 300)), "reach")
					default:
						ops = append(ops, "clear")
					}
				}
				emit(kind, ops, "typed-random")
			}
		}
		// sizes around the powers of two, grown, drained to 1/2 … 1/16 and to one element, regrown,
		// drained past empty (lifoFifoScale, as for int): deep up to 2^8+1, one quiet history above
		kn := scaleKnobs{obsMax: 1100, probeMax: 1 << 20}
		sizes := []int{7, 8, 9, 31, 32, 33, 65, 129, 257}
		if g.Thorough() {
			sizes = append(sizes, 15, 16, 17, 63, 64, 127, 128, 255, 256, 511, 512, 513)
		}
		for i, n := range sizes {
			if n > 500 && (ti+i)%3 != 0 { // 511, 512, 513: each for three of the nine types
				continue
			}
			g1, g2 := "pushn", "addn"
			if i%2 == 1 {
				g1, g2 = g2, g1
			}
			emit("S"+string(t)+string("zn"[i%2]), lifoFifoScale(n, true, i%3-1, g1, g2, kn, true), "typed-scale-deep")
		}
		// (the model replays a stack op in time linear in the size: the quiet history of 1025
		// elements goes to three of the nine types per seed in the quick tier, to all in the thorough tier)
		if g.Thorough() || (ti+int(g.Seed))%3 == 0 {
			emit("S"+string(t)+string("nz"[ti%2]), lifoFifoScale(1025, false, -1, "pushn", "addn", kn, true), "typed-scale-light")
		}
	}
	// exactly 2^15-1 … 2^16+1 elements (spec-only lines, uppercase type letter): quiet histories with
	// the whole contents observed (as digests) after every drain phase, a regrow point that walks
	// through the plan; every size for int, the sizes in turn for the other types.  Quick: two lines.
	big := scaleKnobs{obsMax: 1 << 20, probeMax: 1 << 20}
	exact := []int{32767, 32768, 32769, 65535, 65536, 65537}
	if !g.Thorough() {
		// more than 2^16 elements always, one of the other five sizes by seed
		emit("SIn", lifoFifoScale(65537, false, 1, "pushn", "addn", big, true), "exact-large")
		emit("SBz", lifoFifoScale(exact[int(g.Seed)%5], false, -1, "addn", "pushn", big, false), "exact-large")
		return
	}
	for i, n := range exact {
		emit("SI"+string("nz"[i%2]), lifoFifoScale(n, false, i%4-1, "pushn", "addn", big, true), "exact-large")
		emit("SI"+string("zn"[i%2]), lifoFifoScale(n, false, (i+2)%4-1, "addn", "pushn", big, false), "exact-large")
		for ti, t := range "BOHTFPSW" {
			if (ti+i)%3 == 0 {
				emit("S"+string(t)+string("nz"[(ti+i)%2]), lifoFifoScale(n, false, (ti+i)%4-1, "pushn", "addn", big, ti%2 == 0), "exact-large")
			}
		}
	}
}
