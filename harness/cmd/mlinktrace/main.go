// Command mlinktrace drives mlink.List (through any number of cursors), mlink.Queue and
// stack.Stack of the working tree over operation histories and records every observable, one
// history per line:
//
//	L <op;op;…>      list history.  Ops: at:N last end find:P (each hands out cursor #0,#1,…)
//	                 copy:K (d := *c, a new cursor) assign:K:J (*cK = *cJ)
//	                 nilcur (a nil *Cursor) zerocur (new(Cursor): pred == nil)
//	                 get:K set:K:V atend:K next:K push:K:V add:K:V+V+… (add:K:. = no values)
//	                 rm:K trunc:K   clear peek:N each:P len empty
//	Q n|z <op;…>     queue history from NewQueue (n) or a zero Queue (z).
//	                 Ops: add:V pop front peek:N each:P clear len empty
//	S <op;…>         stack history.  Ops: push:V addv:V empty clear top peek:N pop each:P len slice reach
//	S<t><c> <op;…>   the same on stack.Stack of another element type t (codes for values) from the
//	                 constructor c (n New, z zero value); uppercase t: 2^15..2^16+1 elements, spec only
//	                 (round 5; reach = re-entrant and interleaved iteration; see stacktyped.go)
//
// Bulk ops (one op = many calls, observed once at the end; used by the scale streams, where a
// per-call observation would make the line and the replay quadratic):
//
//	S: pushn:N:B addn:N:B (N calls Push/Add of B+1 … B+N)   popn:N (N calls Pop)   peeks:A+B+… (Peek at each offset)
//	Q: addn:N:B   popn:N   peeks:A+B+…
//	L: addn:K:N:B (ONE call c.Add(B+1 … B+N))  pushn:K:N:B (N calls c.Push)  rmn:K:N (N calls c.Remove)
//	   nextn:K:N (N calls c.Next)  peeks:A+B+…
//
// popn/rmn print q<values in call order> (Pop: v when ok, -1-v when not ok), pushn/addn print u,
// nextn prints n<number of true results>, peeks prints p<v:ok,…>; a panic ends the bulk op and
// its kind is appended (the calls made before it stay made).
//
// "quiet" (first op of the big scale histories) switches the per-op observation group off for the
// rest of the history: every op prints only its own result, and the op "obs" prints o/<group>.
//
// Lists of more than 200 values are printed as a digest on both sides:
// #<len>:<FNV-1a-64 over the values>:<first three>~<last three>.
//
// Predicates P: eN (x == N), gN (x > N), lN (x < N), t (always), f (never).
//
// Output: one group per op, joined by ';'.  A group is the op's own result followed by the
// observations made right after it, joined by '/':
//
//	L: result / Each(all) / Len / IsEmpty / for every cursor handed out so far AtEnd.Get
//	Q: result / Each(all) / Len / IsEmpty / Front / Peek(1)
//	S: result / Slice / Each(all) / Len / IsEmpty / Top / Peek(1)
//
// S slice prints "lnil" instead of "l." when an empty stack returns a non-nil slice, and any
// observation gets a trailing "/ALIAS" when a slice returned earlier by Slice (kept, with one
// element appended into whatever spare capacity it has) was changed by a later stack operation.
//
// Results: u (no value), vN, b0|b1, pN:b (value, ok), l<ints>, nN, Pc (panic "invalid
// cursor"), Pi (index out of range), Pn (nil dereference), Po (other panic), nocur, ? (bad op).
// A step that does not return within the watchdog gives "hang" and ends the history.
package main

import (
	"fmt"
	"strconv"
	"strings"
	"sync/atomic"
	"time"

	"github.com/creachadair/mds/mlink"
	"verif/harness/internal/elem"
	"verif/harness/internal/tr"
)

var hangs atomic.Int32

const watchdog = 1500 * time.Millisecond

func pk(s string) string {
	switch s {
	case "":
		return ""
	case "panic:invalid-cursor":
		return "Pc"
	case "panic:index":
		return "Pi"
	case "panic:nil":
		return "Pn"
	}
	return "Po"
}

// call runs f, which returns the printed result; a panic gives its kind instead.
func call(f func() string) string {
	var r string
	if p := pk(tr.Catch(func() { r = f() })); p != "" {
		return p
	}
	return r
}

// digestAbove: longer lists are printed as length, hash and both ends (the OCaml driver prints
// the model's and the reference's lists with the same rule).
const digestAbove = 200

func fnv(xs []int) uint64 {
	h := uint64(14695981039346656037)
	for _, x := range xs {
		h ^= uint64(int64(x))
		h *= 1099511628211
	}
	return h
}

func ints(xs []int) string {
	if len(xs) == 0 {
		return "."
	}
	if n := len(xs); n > digestAbove {
		return fmt.Sprintf("#%d:%016x:%s~%s", n, fnv(xs), tr.Ints(xs[:3]), tr.Ints(xs[n-3:]))
	}
	return tr.Ints(xs)
}

const maxBulk = 1 << 20 // a bulk count beyond this is not an input of the generators

// bulk parses the N and B of pushn:N:B / addn:N:B.
func bulk(ns, bs string) (n, b int, ok bool) {
	n, ok1 := atoi(ns)
	b, ok2 := atoi(bs)
	return n, b, ok1 && ok2 && n >= 0 && n <= maxBulk
}

// many runs f up to n times; a panic ends it and its kind is returned.
func many(n int, f func(i int)) string {
	return pk(tr.Catch(func() {
		for i := 0; i < n; i++ {
			f(i)
		}
	}))
}

type peeker interface{ Peek(int) (int, bool) }

// peeks: Peek at every offset of A+B+…, one result.
func peeks(p peeker, arg string) string {
	offs, ok := vals(arg)
	if !ok {
		return "?"
	}
	var out []string
	pn := many(len(offs), func(i int) {
		v, ok := p.Peek(offs[i])
		out = append(out, strconv.Itoa(v)+":"+tr.B(ok))
	})
	return "p" + strings.Join(out, ",") + pn
}

func popEnc(v int, ok bool) int {
	if ok {
		return v
	}
	return -1 - v
}

func pred(p string) (func(int) bool, bool) {
	if p == "t" {
		return func(int) bool { return true }, true
	}
	if p == "f" {
		return func(int) bool { return false }, true
	}
	if len(p) < 2 {
		return nil, false
	}
	n, err := strconv.Atoi(p[1:])
	if err != nil {
		return nil, false
	}
	switch p[0] {
	case 'e':
		return func(x int) bool { return x == n }, true
	case 'g':
		return func(x int) bool { return x > n }, true
	case 'l':
		return func(x int) bool { return x < n }, true
	}
	return nil, false
}

func atoi(s string) (int, bool) { n, err := strconv.Atoi(s); return n, err == nil }

func vals(s string) ([]int, bool) {
	if s == "." {
		return nil, true
	}
	var out []int
	for _, p := range strings.Split(s, "+") {
		n, ok := atoi(p)
		if !ok {
			return nil, false
		}
		out = append(out, n)
	}
	return out, true
}

type eacher interface{ Each(func(int) bool) }

func eachAll(e eacher) string {
	return call(func() string {
		var got []int
		e.Each(func(x int) bool { got = append(got, x); return true })
		return "l" + ints(got)
	})
}

func eachP(e eacher, p func(int) bool) string {
	return call(func() string {
		var got []int
		e.Each(func(x int) bool { got = append(got, x); return p(x) })
		return "l" + ints(got)
	})
}

// steps runs one guarded step per op; a hang ends the history.
func steps(ops []string, step func(op string) string) string {
	var out []string
	for _, op := range ops {
		var r string
		g := tr.Guard(watchdog, func() { r = step(op) })
		switch {
		case g == "hang":
			hangs.Add(1)
			out = append(out, "hang")
			return strings.Join(out, ";")
		case g != "":
			out = append(out, "X"+pk(g))
		default:
			out = append(out, r)
		}
	}
	return strings.Join(out, ";")
}

func execList(ops []string) string {
	lst := mlink.NewList[int]()
	var cur []*mlink.Cursor[int]
	withCur := func(k string, f func(c *mlink.Cursor[int]) string) string {
		i, ok := atoi(k)
		if !ok || i < 0 {
			return "?"
		}
		if i >= len(cur) {
			return "nocur"
		}
		return call(func() string { return f(cur[i]) })
	}
	quiet := false // after the op "quiet": only the op's own result is printed; "obs" prints the group
	mk := func(f func() *mlink.Cursor[int]) string {
		return call(func() string { cur = append(cur, f()); return "u" })
	}
	return steps(ops, func(op string) string {
		f := strings.Split(op, ":")
		res := "?"
		switch {
		case f[0] == "at" && len(f) == 2:
			if n, ok := atoi(f[1]); ok {
				res = mk(func() *mlink.Cursor[int] { return lst.At(n) })
			}
		case op == "last":
			res = mk(lst.Last)
		case op == "end":
			res = mk(lst.End)
		case f[0] == "find" && len(f) == 2:
			if p, ok := pred(f[1]); ok {
				res = mk(func() *mlink.Cursor[int] { return lst.Find(p) })
			}
		case f[0] == "copy" && len(f) == 2: // Cursor is a value type: d := *c
			if k, ok := atoi(f[1]); ok && k >= 0 {
				switch {
				case k >= len(cur):
					res = "nocur"
				case cur[k] == nil:
					cur = append(cur, nil)
					res = "u"
				default:
					d := *cur[k]
					cur = append(cur, &d)
					res = "u"
				}
			}
		case f[0] == "assign" && len(f) == 3: // *cK = *cJ
			k, ok1 := atoi(f[1])
			j, ok2 := atoi(f[2])
			if ok1 && ok2 && k >= 0 && j >= 0 {
				switch {
				case k >= len(cur) || j >= len(cur):
					res = "nocur"
				case cur[j] == nil && cur[k] == nil:
					res = "u"
				case cur[j] == nil:
					*cur[k] = mlink.Cursor[int]{}
					res = "u"
				case cur[k] == nil:
					d := *cur[j]
					cur[k] = &d
					res = "u"
				default:
					*cur[k] = *cur[j]
					res = "u"
				}
			}
		case op == "nilcur":
			cur = append(cur, nil)
			res = "u"
		case op == "zerocur":
			cur = append(cur, new(mlink.Cursor[int]))
			res = "u"
		case f[0] == "get" && len(f) == 2:
			res = withCur(f[1], func(c *mlink.Cursor[int]) string { return "v" + strconv.Itoa(c.Get()) })
		case f[0] == "set" && len(f) == 3:
			if v, ok := atoi(f[2]); ok {
				res = withCur(f[1], func(c *mlink.Cursor[int]) string { c.Set(v); return "u" })
			}
		case f[0] == "atend" && len(f) == 2:
			res = withCur(f[1], func(c *mlink.Cursor[int]) string { return "b" + tr.B(c.AtEnd()) })
		case f[0] == "next" && len(f) == 2:
			res = withCur(f[1], func(c *mlink.Cursor[int]) string { return "b" + tr.B(c.Next()) })
		case f[0] == "push" && len(f) == 3:
			if v, ok := atoi(f[2]); ok {
				res = withCur(f[1], func(c *mlink.Cursor[int]) string { c.Push(v); return "u" })
			}
		case f[0] == "add" && len(f) == 3:
			if vs, ok := vals(f[2]); ok {
				res = withCur(f[1], func(c *mlink.Cursor[int]) string { c.Add(vs...); return "u" })
				for i := range vs { // the list must not alias the argument slice
					vs[i] = -77
				}
			}
		case f[0] == "rm" && len(f) == 2:
			res = withCur(f[1], func(c *mlink.Cursor[int]) string { return "v" + strconv.Itoa(c.Remove()) })
		case f[0] == "trunc" && len(f) == 2:
			res = withCur(f[1], func(c *mlink.Cursor[int]) string { c.Truncate(); return "u" })
		case f[0] == "addn" && len(f) == 4: // ONE call c.Add(B+1 … B+N)
			if n, b, ok := bulk(f[2], f[3]); ok {
				vs := make([]int, n)
				for i := range vs {
					vs[i] = b + 1 + i
				}
				res = withCur(f[1], func(c *mlink.Cursor[int]) string { c.Add(vs...); return "u" })
				for i := range vs {
					vs[i] = -77
				}
			}
		case f[0] == "pushn" && len(f) == 4: // N calls c.Push
			if n, b, ok := bulk(f[2], f[3]); ok {
				res = withCur(f[1], func(c *mlink.Cursor[int]) string {
					return "u" + many(n, func(i int) { c.Push(b + 1 + i) })
				})
				if strings.HasPrefix(res, "uP") {
					res = res[1:]
				}
			}
		case f[0] == "rmn" && len(f) == 3: // N calls c.Remove
			if n, ok := atoi(f[2]); ok && n >= 0 && n <= maxBulk {
				res = withCur(f[1], func(c *mlink.Cursor[int]) string {
					var vs []int
					p := many(n, func(int) { vs = append(vs, c.Remove()) })
					return "q" + ints(vs) + p
				})
			}
		case f[0] == "nextn" && len(f) == 3: // N calls c.Next
			if n, ok := atoi(f[2]); ok && n >= 0 && n <= maxBulk {
				res = withCur(f[1], func(c *mlink.Cursor[int]) string {
					t := 0
					p := many(n, func(int) {
						if c.Next() {
							t++
						}
					})
					return "n" + strconv.Itoa(t) + p
				})
			}
		case f[0] == "peeks" && len(f) == 2:
			res = peeks(lst, f[1])
		case op == "quiet":
			quiet = true
			return "u"
		case op == "obs":
			res = "o"
		case op == "clear":
			res = call(func() string { lst.Clear(); return "u" })
		case f[0] == "peek" && len(f) == 2:
			if n, ok := atoi(f[1]); ok {
				res = call(func() string { v, ok := lst.Peek(n); return "p" + strconv.Itoa(v) + ":" + tr.B(ok) })
			}
		case f[0] == "each" && len(f) == 2:
			if p, ok := pred(f[1]); ok {
				res = eachP(lst, p)
			}
		case op == "len":
			res = call(func() string { return "n" + strconv.Itoa(lst.Len()) })
		case op == "empty":
			res = call(func() string { return "b" + tr.B(lst.IsEmpty()) })
		}
		if quiet && op != "obs" {
			return res
		}
		obs := []string{res, eachAll(lst),
			call(func() string { return "n" + strconv.Itoa(lst.Len()) }),
			call(func() string { return "b" + tr.B(lst.IsEmpty()) })}
		for _, c := range cur {
			obs = append(obs, call(func() string { return "b" + tr.B(c.AtEnd()) })+"."+
				call(func() string { return "v" + strconv.Itoa(c.Get()) }))
		}
		return strings.Join(obs, "/")
	})
}

func execQueue(kind string, ops []string) string {
	var q *mlink.Queue[int]
	if kind == "z" {
		q = new(mlink.Queue[int])
	} else {
		q = mlink.NewQueue[int]()
	}
	quiet := false
	return steps(ops, func(op string) string {
		f := strings.Split(op, ":")
		res := "?"
		switch {
		case f[0] == "add" && len(f) == 2:
			if v, ok := atoi(f[1]); ok {
				res = call(func() string { q.Add(v); return "u" })
			}
		case f[0] == "addn" && len(f) == 3:
			if n, b, ok := bulk(f[1], f[2]); ok {
				res = "u" + many(n, func(i int) { q.Add(b + 1 + i) })
				if strings.HasPrefix(res, "uP") {
					res = res[1:]
				}
			}
		case f[0] == "popn" && len(f) == 2:
			if n, ok := atoi(f[1]); ok && n >= 0 && n <= maxBulk {
				var vs []int
				p := many(n, func(int) { v, ok := q.Pop(); vs = append(vs, popEnc(v, ok)) })
				res = "q" + ints(vs) + p
			}
		case f[0] == "peeks" && len(f) == 2:
			res = peeks(q, f[1])
		case op == "quiet":
			quiet = true
			return "u"
		case op == "obs":
			res = "o"
		case op == "pop":
			res = call(func() string { v, ok := q.Pop(); return "p" + strconv.Itoa(v) + ":" + tr.B(ok) })
		case op == "front":
			res = call(func() string { return "v" + strconv.Itoa(q.Front()) })
		case f[0] == "peek" && len(f) == 2:
			if n, ok := atoi(f[1]); ok {
				res = call(func() string { v, ok := q.Peek(n); return "p" + strconv.Itoa(v) + ":" + tr.B(ok) })
			}
		case f[0] == "each" && len(f) == 2:
			if p, ok := pred(f[1]); ok {
				res = eachP(q, p)
			}
		case op == "clear":
			res = call(func() string { q.Clear(); return "u" })
		case op == "len":
			res = call(func() string { return "n" + strconv.Itoa(q.Len()) })
		case op == "empty":
			res = call(func() string { return "b" + tr.B(q.IsEmpty()) })
		}
		if quiet && op != "obs" {
			return res
		}
		return strings.Join([]string{res, eachAll(q),
			call(func() string { return "n" + strconv.Itoa(q.Len()) }),
			call(func() string { return "b" + tr.B(q.IsEmpty()) }),
			call(func() string { return "v" + strconv.Itoa(q.Front()) }),
			call(func() string { v, ok := q.Peek(1); return "p" + strconv.Itoa(v) + ":" + tr.B(ok) })}, "/")
	})
}

// execStack: S lines (stack.New[int]()); the generic body is in stacktyped.go.
func execStack(ops []string) string { return execStackT(elem.Int, false, ops) }

func exec(in string) string {
	f := strings.Fields(in)
	if len(f) < 2 {
		return "?"
	}
	ops := strings.Split(f[len(f)-1], ";")
	switch {
	case f[0] == "L" && len(f) == 2:
		return execList(ops)
	case f[0] == "Q" && len(f) == 3:
		return execQueue(f[1], ops)
	case f[0] == "S" && len(f) == 2:
		return execStack(ops)
	case len(f[0]) == 3 && f[0][0] == 'S' && len(f) == 2: // S<t><c>: another element type / constructor (stacktyped.go)
		return execStackKind(f[0], ops)
	}
	return "?"
}

// ---- generators

func val(r *tr.Rand) string {
	if r.Chance(1, 12) {
		return "0"
	}
	return strconv.Itoa(r.Range(1, 9))
}

func vlist(r *tr.Rand, lo, hi int) string {
	n := r.Range(lo, hi)
	if n == 0 {
		return "."
	}
	s := make([]string, n)
	for i := range s {
		s[i] = val(r)
	}
	return strings.Join(s, "+")
}

func rpred(r *tr.Rand) string {
	switch r.Intn(6) {
	case 0:
		return "t"
	case 1:
		return "f"
	case 2:
		return "g" + strconv.Itoa(r.Range(0, 9))
	case 3:
		return "l" + strconv.Itoa(r.Range(0, 9))
	}
	return "e" + strconv.Itoa(r.Range(0, 9))
}

// extreme offsets: the minimum int (whose negation overflows), its neighbours, the maximum int
var extremes = []string{"-9223372036854775808", "-9223372036854775807", "9223372036854775807", "9223372036854775806", "-2"}

func idx(r *tr.Rand) string {
	switch r.Intn(12) {
	case 0:
		return "-1"
	case 1:
		return strconv.Itoa(r.Range(5, 12))
	case 2:
		return tr.Pick(r, extremes)
	}
	return strconv.Itoa(r.Range(0, 4))
}

// randList: a random history; ncur counts the cursors handed out so far (At with a negative
// index hands out none, which only makes a later id dangle: "nocur").
func randList(r *tr.Rand, n int) []string {
	var ops []string
	ncur := 0
	newCur := func() {
		switch c := r.Intn(12); {
		case c == 0:
			ops = append(ops, "last")
		case c == 1:
			ops = append(ops, "end")
		case c == 2:
			ops = append(ops, "find:"+rpred(r))
		case c <= 5 && ncur > 0: // a copy of an existing cursor (possibly a stale or nil one)
			ops = append(ops, "copy:"+strconv.Itoa(r.Intn(ncur)))
		case c == 6 && r.Chance(1, 3):
			ops = append(ops, tr.Pick(r, []string{"nilcur", "zerocur"}))
		default:
			i := idx(r)
			ops = append(ops, "at:"+i)
			if strings.HasPrefix(i, "-") { // panics: no cursor handed out
				return
			}
		}
		ncur++
	}
	if r.Chance(3, 4) { // start from a few elements
		ops = append(ops, "end", "add:0:"+vlist(r, 1, 5))
		ncur++
	}
	for len(ops) < n {
		if ncur == 0 || (ncur < 6 && r.Chance(1, 5)) {
			newCur()
			if r.Chance(1, 2) { // a second cursor near the first: the interesting neighbours
				newCur()
			}
			continue
		}
		k := strconv.Itoa(r.Intn(ncur))
		if r.Chance(1, 25) {
			ops = append(ops, "assign:"+k+":"+strconv.Itoa(r.Intn(ncur)))
			continue
		}
		switch r.Intn(22) {
		case 0, 1:
			ops = append(ops, "push:"+k+":"+val(r))
		case 2, 3, 4:
			ops = append(ops, "add:"+k+":"+vlist(r, 0, 3))
		case 5, 6:
			ops = append(ops, "set:"+k+":"+val(r))
		case 7, 8, 9, 10:
			ops = append(ops, "rm:"+k)
		case 11, 12:
			ops = append(ops, "trunc:"+k)
		case 13, 14, 15:
			ops = append(ops, "next:"+k)
		case 16:
			ops = append(ops, "get:"+k)
		case 17:
			ops = append(ops, "atend:"+k)
		case 18:
			if r.Chance(1, 3) {
				ops = append(ops, "clear")
			} else {
				ops = append(ops, "peek:"+idx(r))
			}
		case 19:
			ops = append(ops, "each:"+rpred(r))
		case 20:
			ops = append(ops, tr.Pick(r, []string{"len", "empty"}))
		case 21: // Truncate, then Add at End
			ops = append(ops, "trunc:"+k, "end", "add:"+strconv.Itoa(ncur)+":"+vlist(r, 1, 3))
			ncur++
		}
	}
	return ops
}

// ---- scale streams: containers grown to sizes around the powers of two, drained by single
// calls to 1/2, 1/4, 1/8, 1/16 of that and to one element, then regrown and drained past empty.
//
// "deep" histories (small and middle sizes) use the full protocol: every op, bulk or single, is
// followed by the whole observation group; every fraction is crossed by four single,
// individually observed calls; Peek probes at the top, in the middle, at the last element and
// just past it follow every phase; the regrow point varies.
// "light" histories (big sizes) are quiet: the observation group is printed by explicit "obs"
// ops after every drain phase, the probes likewise, because the extracted model replays every
// call in time linear in the size (a whole-contents observation is quadratic).

func itoa(n int) string { return strconv.Itoa(n) }

func probes(n int) string {
	seen := map[int]bool{}
	var out []string
	for _, x := range []int{0, 1, n / 2, n - 2, n - 1, n, n + 1} {
		if x >= 0 && !seen[x] {
			seen[x] = true
			out = append(out, itoa(x))
		}
	}
	return strings.Join(out, "+")
}

// sizesAround: 2^k-1, 2^k, 2^k+1 (each size >= 1 once) for k = kmin..kmax.
func sizesAround(kmin, kmax int, seen map[int]bool) []int {
	var out []int
	for k := kmin; k <= kmax; k++ {
		for d := -1; d <= 1; d++ {
			if n := 1<<k + d; n >= 1 && !seen[n] {
				seen[n] = true
				out = append(out, n)
			}
		}
	}
	return out
}

var fractions = []int{2, 4, 8, 16}

// drainPlan: the sizes to stop at on the way down from n: n/2, n/4, n/8, n/16 (while they
// decrease), then 1.
func drainPlan(n int) []int {
	var out []int
	last := n
	for _, fr := range fractions {
		if t := n / fr; t >= 1 && t < last {
			out = append(out, t)
			last = t
		}
	}
	if last > 1 {
		out = append(out, 1)
	}
	return out
}

// lifoFifoScale (stack, queue): grow with growOp, drain along the plan with Pop, regrow with
// regrowOp after stop #regrowAt (-1: only at the end) and drain again, regrow at the end, drain
// past empty, use the empty container once more.  probeMax: above this size only the probes
// near the top/front are made (Queue.Peek walks; the stack passes a huge value).  fullRegrow:
// regrow to n (otherwise by n/8+3 elements).
func lifoFifoScale(n int, deep bool, regrowAt int, growOp, regrowOp string, kn scaleKnobs, fullRegrow bool) []string {
	var ops []string
	if !deep {
		ops = append(ops, "quiet")
	}
	ops = append(ops, growOp+":"+itoa(n)+":1000")
	cur := n
	base := 5000
	look := func() {
		if !deep {
			if cur <= kn.obsMax {
				ops = append(ops, "obs")
			} else {
				ops = append(ops, "len", "empty")
			}
		}
		if cur <= kn.probeMax {
			ops = append(ops, "peeks:"+probes(cur))
		} else {
			ops = append(ops, "peeks:0+1")
		}
		if deep {
			ops = append(ops, "each:g"+itoa(1000+cur/2))
		}
	}
	down := func(t int) {
		if deep && cur-t >= 3 && t >= 3 { // cross t with single, individually observed pops
			ops = append(ops, "popn:"+itoa(cur-t-2), "pop", "pop", "pop", "pop")
			cur = t - 2
		} else if cur > t {
			ops = append(ops, "popn:"+itoa(cur-t))
			cur = t
		}
		look()
	}
	up := func() {
		k := n - cur
		if !fullRegrow {
			k = n/8 + 3
		}
		ops = append(ops, regrowOp+":"+itoa(k)+":"+itoa(base))
		base += 4000
		cur += k
		look()
	}
	look()
	if n > kn.probeMax && n <= kn.farMax { // one probe at the far end of the full container
		ops = append(ops, "peeks:"+itoa(n-1)+"+"+itoa(n))
	}
	plan := drainPlan(n)
	for i, t := range plan {
		down(t)
		if i == regrowAt {
			up()
			for _, t2 := range plan[:i+1] {
				down(t2)
			}
		}
	}
	up()
	ops = append(ops, "popn:"+itoa(cur+2), "obs", regrowOp+":3:9000", "popn:2", "obs")
	return ops
}

// listScale: a list of n elements built by ONE Add, with cursors at the end (#0), at the front
// (#1), in the middle (#2) and at the last element (#3).  Drained first through the middle cursor
// (everything from index n/2 on, one Remove at a time), then through the front cursor (which
// strands the middle one), by Truncate through a fresh cursor, and from the front again;
// regrown by single Pushes at the front or by one Add at the end; finally Remove is called past
// the end and the list is used once more.
func listScale(n int, deep bool, regrowAt int, kn scaleKnobs, fullRegrow bool) []string {
	var ops []string
	if !deep {
		ops = append(ops, "quiet")
	}
	ops = append(ops, "end", "addn:0:"+itoa(n)+":1000", "at:0", "at:"+itoa(n/2), "last")
	ncur := 4
	cur := n
	base := 5000
	look := func() {
		if !deep {
			if cur <= kn.obsMax {
				ops = append(ops, "obs")
			} else {
				ops = append(ops, "empty")
			}
		}
		if cur <= kn.probeMax {
			ops = append(ops, "peeks:"+probes(cur), "len")
		} else {
			ops = append(ops, "peeks:0+1")
		}
		if deep {
			ops = append(ops, "each:g"+itoa(1000+cur/2))
		}
	}
	downs := 0
	down := func(t int) {
		if cur <= t {
			return
		}
		switch {
		case downs == 0 && t == n/2: // through the middle cursor: indices n/2 … n-1
			ops = append(ops, "rmn:2:"+itoa(cur-t))
		case downs%2 == 0 && t >= 1: // cut the tail off
			ops = append(ops, "at:"+itoa(t), "trunc:"+itoa(ncur))
			ncur++
		case deep && cur-t >= 3 && t >= 3: // cross t with single, individually observed removals
			ops = append(ops, "rmn:1:"+itoa(cur-t-2), "rm:1", "rm:1", "rm:1", "rm:1")
			t -= 2
		default:
			ops = append(ops, "rmn:1:"+itoa(cur-t))
		}
		downs++
		cur = t
		look()
	}
	ups := 0
	up := func() {
		k := n - cur
		if !fullRegrow {
			k = n/8 + 3
		}
		if ups%2 == 0 {
			ops = append(ops, "pushn:1:"+itoa(k)+":"+itoa(base))
		} else {
			ops = append(ops, "end", "addn:"+itoa(ncur)+":"+itoa(k)+":"+itoa(base))
			ncur++
		}
		ups++
		base += 4000
		cur += k
		look()
	}
	look()
	if n > kn.probeMax && n <= kn.farMax { // one probe at the far end of the full list
		ops = append(ops, "peeks:"+itoa(n-1)+"+"+itoa(n))
	}
	plan := drainPlan(n)
	for i, t := range plan {
		down(t)
		if i == regrowAt {
			up()
			for _, t2 := range plan[:i+1] {
				down(t2)
			}
		}
	}
	up()
	ops = append(ops, "rmn:1:"+itoa(cur+2), "obs", "push:1:7", "end", "addn:"+itoa(ncur)+":2:9000", "rmn:1:2", "obs")
	return ops
}

// scaleKnobs: how far one container's scale stream goes in a tier.  All sizes 2^k-1, 2^k, 2^k+1
// up to 2^allK; one size per k (2^k+1, 2^k, 2^k-1 in turn) from there to 2^kmax; deep histories
// up to 2^deepK+1 (with every regrow point up to 2^variantsK+1, one rotating regrow point
// above); light histories print the whole-contents group only at sizes up to obsMax (Len,
// IsEmpty and the probes above that) and make the far Peek probes only up to probeMax (one
// probe of the last element and past it, right after the build, up to farMax); they regrow to
// the full size up to 2^regrowK+1 (by an eighth above).
type scaleKnobs struct{ allK, kmax, deepK, variantsK, obsMax, probeMax, farMax, regrowK int }

func (kn scaleKnobs) sizes(r *tr.Rand, nrand, randMax int) []int {
	seen := map[int]bool{}
	out := sizesAround(1, kn.allK, seen)
	for k := kn.allK + 1; k <= kn.kmax; k++ {
		out = append(out, 1<<k+1-(k-kn.allK-1)%3)
	}
	for i := 0; i < nrand; i++ {
		out = append(out, r.Range(300, randMax))
	}
	return out
}

// scaleStream calls emit(history, tag) for every history of one container's stream.
func scaleStream(kn scaleKnobs, sizes []int, mk func(n int, deep bool, regrowAt int, variant int, full bool) []string, emit func(ops []string, tag string)) {
	for si, n := range sizes {
		deep := n <= 1<<kn.deepK+1
		full := n <= 1<<kn.regrowK+1
		plan := len(drainPlan(n))
		regrow := []int{-1}
		if deep && n <= 1<<kn.variantsK+1 {
			for i := 0; i < plan-1; i++ {
				regrow = append(regrow, i)
			}
		} else if deep && plan > 1 {
			regrow = append(regrow, si%(plan-1))
		}
		tag := "scale-light"
		if deep {
			tag = "scale-deep"
		}
		for ri, ra := range regrow {
			emit(mk(n, deep, ra, si+ri, full), tag)
		}
	}
}

func listTags(in, out string) (bool, []string) {
	var tags []string
	if strings.Contains(out, "Pc") {
		tags = append(tags, "stale-cursor-observed")
	}
	ops := strings.Split(strings.Fields(in)[1], ";")
	groups := strings.Split(out, ";")
	truncSeen, stale := false, false
	for i, op := range ops {
		if i < len(groups) && strings.HasPrefix(groups[i], "Pc/") {
			stale = true
		}
		if strings.HasPrefix(op, "trunc:") {
			truncSeen = true
		}
		if truncSeen && op == "end" && i+1 < len(ops) && strings.HasPrefix(ops[i+1], "add:") {
			tags = append(tags, "truncate-then-add-at-end")
			truncSeen = false
		}
	}
	if stale {
		tags = append(tags, "op-through-stale-cursor")
	}
	if strings.Contains(out, "b1.v0") {
		tags = append(tags, "cursor-at-end")
	}
	if strings.Contains(out, "Pn") {
		tags = append(tags, "nil-cursor-observed")
	}
	// a copy taken from a cursor that was stale or nil at that moment, and copies used afterwards
	isCopy := map[string]bool{}
	ncur := 0
	for i, op := range ops {
		if i >= len(groups) {
			break
		}
		g := strings.Split(groups[i], "/")
		f := strings.Split(op, ":")
		switch f[0] {
		case "at", "last", "end", "find", "nilcur", "zerocur":
			if g[0] == "u" {
				ncur++
			}
		case "copy":
			if g[0] == "u" {
				if k, ok := atoi(f[1]); ok && 4+k < len(g) {
					switch {
					case strings.HasPrefix(g[4+k], "Pc"):
						tags = append(tags, "copy-of-stale-cursor")
					case strings.HasPrefix(g[4+k], "Pn"):
						tags = append(tags, "copy-of-nil-cursor")
					}
				}
				isCopy[strconv.Itoa(ncur)] = true
				ncur++
			}
		case "assign":
			if g[0] == "u" {
				tags = append(tags, "cursor-assigned")
			}
		case "rm", "trunc", "push", "add", "set", "next":
			if isCopy[f[1]] && g[0] != "nocur" {
				tags = append(tags, "edit-or-move-through-copy")
			}
		}
	}
	seen := map[string]bool{}
	uniq := tags[:0]
	for _, t := range tags {
		if !seen[t] {
			seen[t] = true
			uniq = append(uniq, t)
		}
	}
	return len(uniq) > 0, uniq
}

func queueTags(in, out string) (bool, []string) {
	var tags []string
	ops := strings.Split(strings.Fields(in)[2], ";")
	groups := strings.Split(out, ";")
	emptied := false
	for i, op := range ops {
		if i >= len(groups) {
			break
		}
		g := strings.Split(groups[i], "/")
		if len(g) < 4 {
			break
		}
		if (op == "pop" && strings.HasSuffix(g[0], ":1") && g[2] == "n0") || (op == "clear" && i > 0) {
			emptied = true
		}
		if emptied && strings.HasPrefix(op, "add:") {
			tags = append(tags, "add-after-emptied")
			emptied = false
		}
	}
	return len(tags) > 0, tags
}

func main() {
	tr.Main("C10 (stack, mlink): L = histories of one mlink.List edited through up to ~7 cursors handed out by At/Last/End/Find (neighbouring cursors on purpose, so that Remove/Truncate/Clear leave stale ones which are then used; panics recovered, hangs caught by a watchdog): exhaustively all 2-op (quick) / 3-op (thorough) continuations over every cursor x {rm,trunc,push,add,set,next} + clear from a 3-element list with a cursor at every position, scripted Truncate-then-Add-at-End and stale-cursor scenarios, and random histories of 6-30 ops; Q = queue histories from NewQueue and from a zero Queue: exhaustively all sequences over {add,pop,clear,front} to length 7 (quick) / 9 (thorough) and random ones that empty the queue often; S = stack histories, exhaustive to length 6/7 over {push,pop,clear,peek} and random.  After every op the full contents (Each), Len, IsEmpty and every cursor's AtEnd/Get (Front/Peek/Top/Slice for Q and S) are recorded.  Scale streams (every tier): each container grown to 2^k-1, 2^k, 2^k+1 elements (stack k<=11 and 2^12+1, queue k<=10, list k<=10 and one size at 2^11 in the quick tier; stack k<=13, queue and list k<=11 and one list of 2^12 thorough) and a few random sizes, drained by single Pop/Remove calls (lists also by Truncate and through a middle cursor) to 1/2, 1/4, 1/8, 1/16 of that and to one element, regrown (at a varying point and at the end) and drained past empty; after every phase the whole contents (Slice/Each as a digest above 200 values), Len, IsEmpty, Top/Front, Peek at the top, in the middle, at the last element and past it, and the order of the popped values; up to 2^9 (stack) / 2^6 (queue, list) every fraction is crossed by four single, individually observed calls.  Non-trivial: a list history in which a stale cursor was observed or used, a cursor sat at the end, or Truncate was followed by Add at End; a queue history with Add after the queue was emptied; every stack history with a pop.  Round 5 (stacktyped.go): S<t><c> lines = stack.Stack at int, byte, bool, int16, [3]byte, float32, *int, string and a 40-byte struct (element codes mapped to values in the harness) from New and from the zero value: every history over {push, push of a second code, pop, clear, slice, peek:0} to depth 4 (zero value) / 3 (New) (thorough 4, and 5 from the zero value for byte, bool and the struct), snapshots returned by Slice kept and compared after every later op, extreme offsets, random histories, op reach = Each whose callback calls Len/IsEmpty/Top/Peek/nested Each/Slice of the same stack at every element plus two iter.Pull iterations zipped, sizes 7..257 grown, drained to 1/2..1/16 and regrown (one quiet history of 1025 elements for a third of the types), and spec-only histories of exactly 2^15-1 .. 2^16+1 elements (quick 2, thorough 28).",
		exec, func(g *tr.G) {
			stop := func() bool { return hangs.Load() >= 3 }
			emitL := func(ops []string, tags ...string) {
				if stop() {
					return
				}
				in := "L " + strings.Join(ops, ";")
				out := exec(in)
				nt, t := listTags(in, out)
				g.W.Case(in, out, nt, append(t, tags...)...)
			}
			emitQ := func(kind string, ops []string, tags ...string) {
				if stop() {
					return
				}
				in := "Q " + kind + " " + strings.Join(ops, ";")
				out := exec(in)
				nt, t := queueTags(in, out)
				g.W.Case(in, out, nt, append(t, tags...)...)
			}
			emitSK := func(kind string, ops []string, tags ...string) {
				if stop() {
					return
				}
				in := kind + " " + strings.Join(ops, ";")
				out := exec(in)
				if i := strings.Index(in, "slice"); i >= 0 && strings.Contains(in[i:], "push") {
					tags = append(tags, "slice-kept-across-push")
				}
				g.W.Case(in, out, strings.Contains(in, "pop"), tags...)
			}
			emitS := func(ops []string, tags ...string) { emitSK("S", ops, tags...) }

			// ---- lists: scripted scenarios
			emitL([]string{"end", "add:0:1+2", "at:1", "at:0", "rm:2", "trunc:1"}, "F7-witness")
			emitL([]string{"end", "add:0:1+2+3+4", "at:2", "trunc:1", "end", "add:2:7+8", "len"}, "scripted")
			emitL([]string{"at:0", "at:0", "push:0:1", "push:1:2", "next:0", "rm:1", "get:0", "next:0"}, "scripted")
			emitL([]string{"end", "add:0:1+2+3", "at:1", "at:2", "at:3", "clear", "add:1:.", "add:1:5", "push:2:6", "set:3:1", "end", "add:4:9"}, "scripted")
			emitL([]string{"last", "set:0:5", "last", "set:1:6", "end", "set:2:7", "set:2:8", "last", "rm:3", "rm:3"}, "scripted")
			// cursor copies: a copy is a snapshot that moves on its own; copies of stale / nil cursors
			emitL([]string{"at:0", "add:0:1+2+3", "at:0", "copy:1", "next:1", "get:1", "get:2", "rm:2", "copy:1", "get:1", "get:3", "assign:1:2", "get:1", "push:1:8", "next:2"}, "scripted")
			emitL([]string{"end", "add:0:1+2+3+4", "at:1", "copy:1", "next:2", "next:2", "copy:2", "trunc:1", "get:2", "set:3:5", "copy:3", "add:4:6", "assign:3:1", "add:3:7", "len"}, "scripted")
			emitL([]string{"nilcur", "zerocur", "get:0", "get:1", "set:0:1", "set:1:1", "atend:0", "atend:1", "next:0", "next:1", "push:0:1", "push:1:1", "add:0:.", "add:1:.", "add:0:1", "add:1:1", "rm:0", "rm:1", "trunc:0", "trunc:1", "copy:0", "copy:1", "get:2", "get:3", "at:0", "assign:4:1", "get:4", "assign:0:4", "len"}, "scripted")
			// extreme offsets (the minimum int, whose negation overflows)
			for _, x := range extremes {
				emitL([]string{"end", "add:0:1+2", "at:" + x, "peek:" + x, "get:1", "len"}, "extreme-offset")
				emitQ("n", []string{"add:1", "add:2", "peek:" + x, "pop"}, "extreme-offset")
				emitQ("z", []string{"peek:" + x, "add:1", "peek:" + x}, "extreme-offset")
				emitS([]string{"peek:" + x, "push:1", "peek:" + x, "push:2", "push:3", "peek:" + x, "pop", "peek:" + x}, "extreme-offset")
			}
			// ---- lists: exhaustive continuations from [1 2 3] with a cursor at every position,
			// a copy of the cursor at index 1 (#5) and a nil cursor (#6)
			prefix := []string{"end", "add:0:1+2+3", "at:0", "at:1", "at:2", "at:3", "copy:2", "nilcur"}
			var alpha []string
			for k := 0; k < 7; k++ {
				ks := strconv.Itoa(k)
				alpha = append(alpha, "rm:"+ks, "trunc:"+ks, "push:"+ks+":9", "add:"+ks+":7+8", "set:"+ks+":6", "next:"+ks)
			}
			alpha = append(alpha, "clear", "assign:3:1", "copy:4")
			depth := g.Scale(2, 3)
			var rec func(cur []string, d int)
			rec = func(cur []string, d int) {
				if d == 0 {
					emitL(cur, "exhaustive-continuation")
					return
				}
				for _, a := range alpha {
					rec(append(cur[:len(cur):len(cur)], a), d-1)
				}
			}
			rec(prefix, depth)
			// ---- lists: random histories
			for i := 0; i < g.Scale(12000, 300000); i++ {
				emitL(randList(g.R, g.R.Range(6, 30)), "random")
			}

			// ---- queues
			emitQ("n", []string{"add:1", "pop", "add:2", "pop", "add:3", "add:4", "pop", "pop", "add:5"}, "scripted")
			emitQ("z", []string{"pop", "add:1", "clear", "add:2", "pop", "add:3"}, "scripted")
			qalpha := []string{"add:1", "add:2", "pop", "clear", "front"}
			var qrec func(kind string, cur []string, d int)
			qrec = func(kind string, cur []string, d int) {
				if len(cur) > 0 {
					emitQ(kind, cur, "exhaustive")
				}
				if d == 0 {
					return
				}
				for _, a := range qalpha {
					if a == "add:2" && len(cur) == 0 {
						continue
					}
					qrec(kind, append(cur[:len(cur):len(cur)], a), d-1)
				}
			}
			qdepth := g.Scale(5, 7)
			qrec("n", nil, qdepth)
			qrec("z", nil, qdepth)
			for i := 0; i < g.Scale(6000, 150000); i++ {
				n := g.R.Range(4, 30)
				ops := make([]string, 0, n)
				bias := g.R.Range(2, 6) // out of 10: chance of pop
				for len(ops) < n {
					switch c := g.R.Intn(13); {
					case c < bias:
						ops = append(ops, "pop")
					case c < 9:
						ops = append(ops, "add:"+val(g.R))
					case c == 9:
						ops = append(ops, "peek:"+idx(g.R))
					case c == 10:
						ops = append(ops, "each:"+rpred(g.R))
					case c == 11:
						ops = append(ops, tr.Pick(g.R, []string{"clear", "len", "empty", "front"}))
					default:
						ops = append(ops, "pop", "pop")
					}
				}
				emitQ(tr.Pick(g.R, []string{"n", "z"}), ops, "random")
			}

			// ---- stacks
			emitS([]string{"slice", "push:1", "push:2", "push:3", "slice", "pop", "slice", "push:4", "push:5", "slice", "clear", "slice", "push:6", "slice"}, "scripted")
			salpha := []string{"push:1", "push:2", "pop", "clear", "peek:1", "peek:-1", "slice"}
			var srec func(cur []string, d int)
			srec = func(cur []string, d int) {
				if len(cur) > 0 {
					emitS(cur, "exhaustive")
				}
				if d == 0 {
					return
				}
				for _, a := range salpha {
					srec(append(cur[:len(cur):len(cur)], a), d-1)
				}
			}
			srec(nil, g.Scale(4, 6))
			for i := 0; i < g.Scale(4000, 100000); i++ {
				n := g.R.Range(3, 30)
				ops := make([]string, 0, n)
				for len(ops) < n {
					switch c := g.R.Intn(14); {
					case c < 5:
						ops = append(ops, "push:"+val(g.R))
					case c < 6:
						ops = append(ops, "addv:"+val(g.R))
					case c < 10:
						ops = append(ops, "pop")
					case c == 10:
						ops = append(ops, "peek:"+idx(g.R))
					case c == 11:
						ops = append(ops, "each:"+rpred(g.R))
					case c == 12:
						ops = append(ops, tr.Pick(g.R, []string{"top", "len", "empty", "slice", "slice", "slice"}))
					default:
						ops = append(ops, "clear")
					}
				}
				emitS(ops, "random")
			}
			// ---- scale streams (every tier): sizes 2^k-1, 2^k, 2^k+1 and a few random large ones;
			// grow, drain to 1/2 … 1/16 and to one element, regrow, drain past empty (see above).
			// The knobs are set by what the replay on the extracted model costs: a stack op is
			// linear in the size with a small constant, a queue/list op walks the model's heap
			// of all entries ever allocated, ~50 times per call.
			// (round 5: the quick tier keeps 4097 of the three sizes around 2^12 -- 2.5 s of replay -- to pay for the typed stack lines)
			sk := scaleKnobs{allK: g.Scale(11, 13), kmax: g.Scale(12, 13), deepK: g.Scale(9, 10), variantsK: g.Scale(7, 9),
				obsMax: g.Scale(1100, 4200), probeMax: 1 << 20, regrowK: g.Scale(11, 13)}
			qk := scaleKnobs{allK: g.Scale(10, 11), kmax: g.Scale(10, 11), deepK: g.Scale(6, 8), variantsK: g.Scale(4, 6),
				obsMax: g.Scale(1100, 2100), probeMax: g.Scale(300, 1100), farMax: g.Scale(2100, 4200), regrowK: g.Scale(8, 10)}
			lk := qk
			lk.kmax = g.Scale(11, 12) // the queue is a list with a cached end cursor: the one history beyond 2^10 goes to the list
			nrand := g.Scale(2, 4)
			scaleStream(sk, sk.sizes(g.R, nrand, g.Scale(1500, 5000)), func(n int, deep bool, ra, v int, full bool) []string {
				g1, g2 := "pushn", "addn"
				if v%2 == 1 {
					g1, g2 = g2, g1
				}
				return lifoFifoScale(n, deep, ra, g1, g2, sk, full)
			}, func(ops []string, tag string) { emitS(ops, tag) })
			// ---- stacks of other element types, from both constructors; re-entrant traversals (stacktyped.go)
			genStackTyped(g, emitSK)
			v := 0
			scaleStream(qk, qk.sizes(g.R, nrand, g.Scale(600, 3000)), func(n int, deep bool, ra, _ int, full bool) []string {
				return lifoFifoScale(n, deep, ra, "addn", "addn", qk, full)
			}, func(ops []string, tag string) { v++; emitQ([]string{"n", "z"}[v%2], ops, tag) })
			scaleStream(lk, lk.sizes(g.R, nrand, g.Scale(600, 3000)), func(n int, deep bool, ra, _ int, full bool) []string {
				return listScale(n, deep, ra, lk, full)
			}, func(ops []string, tag string) { emitL(ops, tag) })
			if stop() {
				g.W.Count("generation-stopped-after-hangs", 1)
			}
		})
}
