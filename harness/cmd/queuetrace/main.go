// Command queuetrace drives queue.Queue[int] of the working tree through operation histories and
// records every observable after every operation, one history per line:
//
//	H <init> <op>;<op>;…  |  <rec0>;<rec1>;…
//
// init: z (zero value), n (New()), s<k> (NewSize(k)).
// op:   a<v> Add(v)   u<v> Push(v)   p Pop()   l PopLast()   c Clear()
//
//	An Add/Push that regrew the buffer carries the capacity chosen by append as an ORACLE
//	annotation: a<v>^<cap> (read through the verif hook after the call).  Annotations found in
//	replayed inputs are discarded and written afresh, so the input of a trace line always carries
//	what the runtime did on this very run.
//
// rec0 is taken right after construction, rec_i after op i:
//
//	<ret>/<head>,<n>,<len(vs)>/<Len>,<IsEmpty>/<Front>/<Slice>/<Each>/<Each stopped after Len/2+1 calls>/<Peek(k) for k=-(Len+2)..Len+1>
//
// ret: "-" or <v>:<ok>; Slice: "nil" or the elements; Peek: v when ok, x for (0,false), !v for
// (v≠0,false).  A panic anywhere in the operation or its observations gives the record
// panic:<kind> and ends the history.  Elements are 1,2,3,… in order of insertion (0 is the zero
// value), so a lost, duplicated or reordered element is visible.  The slice returned by Slice is
// overwritten with -7 before the other observers run (aliasing with the ring would show).
package main

import (
	"fmt"
	"strconv"
	"strings"

	"github.com/creachadair/mds/queue"
	"verif/harness/internal/tr"
)

type sess struct {
	q    *queue.Queue[int]
	init string
	ops  []string
	recs []string
	next int
	dead bool
	tags map[string]bool
}

func ints(xs []int) string {
	if len(xs) == 0 {
		return "."
	}
	return tr.Ints(xs)
}

func newSess(init string) *sess {
	s := &sess{init: init, next: 1, tags: map[string]bool{}}
	res := tr.Catch(func() {
		switch {
		case init == "z":
			var q queue.Queue[int]
			s.q = &q
		case init == "n":
			s.q = queue.New[int]()
		case strings.HasPrefix(init, "s"):
			k, err := strconv.Atoi(init[1:])
			if err != nil {
				panic("bad init " + init)
			}
			s.q = queue.NewSize[int](k)
		default:
			panic("bad init " + init)
		}
	})
	if res != "" {
		s.recs = append(s.recs, res)
		s.dead = true
		return s
	}
	s.record("-")
	return s
}

// observe renders every observable of the queue (Slice first, then poisoned).
func (s *sess) observe(ret string) string {
	q := s.q
	h, n, l, _ := q.VerifState()
	ln := q.Len()
	var b strings.Builder
	fmt.Fprintf(&b, "%s/%d,%d,%d/%d,%s/", ret, h, n, l, ln, tr.B(q.IsEmpty()))
	sl := q.Slice()
	slTxt := "nil"
	if sl != nil {
		slTxt = ints(sl)
		for i := range sl {
			sl[i] = -7
		}
	}
	fmt.Fprintf(&b, "%d/%s/", q.Front(), slTxt)
	var all []int
	q.Each(func(v int) bool { all = append(all, v); return true })
	b.WriteString(ints(all) + "/")
	var some []int
	m := ln / 2
	q.Each(func(v int) bool { some = append(some, v); return len(some) <= m })
	b.WriteString(ints(some) + "/")
	for k := -(ln + 2); k <= ln+1; k++ {
		v, ok := q.Peek(k)
		if k > -(ln + 2) {
			b.WriteByte(',')
		}
		switch {
		case ok:
			b.WriteString(strconv.Itoa(v))
		case v == 0:
			b.WriteByte('x')
		default:
			b.WriteString("!" + strconv.Itoa(v))
		}
	}
	return b.String()
}

func (s *sess) record(ret string) {
	var rec string
	res := tr.Catch(func() { rec = s.observe(ret) })
	if res != "" {
		rec = res
		s.dead = true
	}
	s.recs = append(s.recs, rec)
}

func (s *sess) state() (head, n, l int) {
	head, n, l, _ = s.q.VerifState()
	return
}

// do runs one operation (code a,u,p,l,c; v is the element for a/u) and records it.
func (s *sess) do(code byte, v int) {
	if s.dead {
		return
	}
	h0, n0, l0 := s.state()
	ret := "-"
	res := tr.Catch(func() {
		switch code {
		case 'a':
			s.q.Add(v)
		case 'u':
			s.q.Push(v)
		case 'p':
			x, ok := s.q.Pop()
			ret = strconv.Itoa(x) + ":" + tr.B(ok)
		case 'l':
			x, ok := s.q.PopLast()
			ret = strconv.Itoa(x) + ":" + tr.B(ok)
		case 'c':
			s.q.Clear()
		default:
			panic("bad op")
		}
	})
	txt := string(code)
	if code == 'a' || code == 'u' {
		txt += strconv.Itoa(v)
	}
	if res != "" {
		s.ops = append(s.ops, txt)
		s.recs = append(s.recs, res)
		s.dead = true
		s.tags["panic"] = true
		return
	}
	_, _, l1 := s.state()
	if (code == 'a' || code == 'u') && l1 != l0 {
		txt += "^" + strconv.Itoa(l1)
		s.tags["grow"] = true
		if h0 > 0 {
			s.tags["rotate-then-grow-"+map[byte]string{'a': "add", 'u': "push"}[code]] = true
		}
		if l1 > l0+1 {
			s.tags["grow-with-spare"] = true
		}
	}
	// the states the property text names
	switch code {
	case 'a':
		if n0 < l0 && h0+n0 >= l0 {
			s.tags["add-wraps"] = true
		}
	case 'u':
		if n0 < l0 && h0 == 0 {
			s.tags["push-wraps-head-below-0"] = true
		}
	case 'p':
		if n0 > 1 && h0 == l0-1 {
			s.tags["pop-wraps-head"] = true
		}
		if n0 == 0 {
			s.tags["pop-on-empty"] = true
		}
		if n0 == 1 && h0 > 0 {
			s.tags["emptied-head-reset"] = true
		}
	case 'l':
		if n0 > 0 && h0+n0-1 >= l0 {
			s.tags["poplast-wraps"] = true
		}
		if n0 > 0 && h0+n0-1 == l0 {
			s.tags["poplast-at-index-0"] = true
		}
		if n0 == 0 {
			s.tags["pop-on-empty"] = true
		}
		if n0 == 1 && h0 > 0 {
			s.tags["emptied-head-reset"] = true
		}
	case 'c':
		if n0 > 0 {
			s.tags["clear-nonempty"] = true
		}
	}
	s.ops = append(s.ops, txt)
	s.record(ret)
	if h1, n1, l2 := s.state(); n1 == l2 && h1 > 0 {
		s.tags["full-with-head-in-middle"] = true
	}
	if h1, n1, l2 := s.state(); n1 > 0 && h1+n1 > l2 {
		s.tags["ring-wrapped"] = true
	}
}

func (s *sess) add()     { s.do('a', s.next); s.next++ }
func (s *sess) push()    { s.do('u', s.next); s.next++ }
func (s *sess) pop()     { s.do('p', 0) }
func (s *sess) popLast() { s.do('l', 0) }
func (s *sess) clear()   { s.do('c', 0) }

func (s *sess) input() string {
	ops := "-"
	if len(s.ops) > 0 {
		ops = strings.Join(s.ops, ";")
	}
	return "H " + s.init + " " + ops
}

func (s *sess) emit(w *tr.W, tags ...string) {
	nontrivial := false
	for t := range s.tags {
		tags = append(tags, t)
		nontrivial = true
	}
	w.Case(s.input(), strings.Join(s.recs, ";"), nontrivial, tags...)
}

// replay runs a (possibly annotated) input; annotations are recomputed.
func replay(in string) *sess {
	f := strings.Fields(in)
	if len(f) < 2 || f[0] != "H" {
		s := &sess{init: "?", recs: []string{"bad-input"}, tags: map[string]bool{}}
		return s
	}
	s := newSess(f[1])
	if len(f) < 3 || f[2] == "-" {
		return s
	}
	for _, o := range strings.Split(f[2], ";") {
		if o == "" {
			continue
		}
		if i := strings.IndexByte(o, '^'); i >= 0 {
			o = o[:i]
		}
		v := 0
		if len(o) > 1 {
			v, _ = strconv.Atoi(o[1:])
		}
		s.do(o[0], v)
		if v >= s.next {
			s.next = v + 1
		}
	}
	return s
}

var inits = []string{"z", "n", "s0", "s1", "s2", "s3", "s4", "s5", "s6", "s7", "s8", "s9"}

// fillTo adds at the chosen end(s) until the ring is exactly full (n == len(vs)).
func fillTo(s *sess, r *tr.Rand, end int) {
	for i := 0; i < 200 && !s.dead; i++ {
		_, n, l := s.state()
		if n >= l {
			return
		}
		switch {
		case end == 0, end == 2 && r.Bool():
			s.add()
		default:
			s.push()
		}
	}
}

func drain(s *sess, r *tr.Rand, how int) {
	for i := 0; i < 400 && !s.dead; i++ {
		_, n, _ := s.state()
		if n == 0 {
			break
		}
		switch {
		case how == 0, how == 2 && r.Bool():
			s.pop()
		default:
			s.popLast()
		}
	}
	// once more on the empty queue, both ends
	s.pop()
	s.popLast()
}

func gen(o *tr.Opts, w *tr.W) {
	r := tr.NewRand(o.Seed)

	// 0. construction only, including a negative size (documented? no: make panics)
	for _, in := range inits {
		newSess(in).emit(w, "init-only")
	}
	newSess("s-1").emit(w, "init-negative-size")

	// 1. every history over {Add, Push, Pop, PopLast, Clear} up to a length, from several capacities
	maxLen := o.Scale(5, 7)
	for _, in := range []string{"z", "s1", "s2", "s3", "s4"} {
		codes := []byte("aupl")
		if in == "s3" || in == "z" {
			codes = []byte("auplc")
		}
		var rec func(prefix []byte)
		rec = func(prefix []byte) {
			if len(prefix) > 0 {
				s := newSess(in)
				for _, c := range prefix {
					switch c {
					case 'a':
						s.add()
					case 'u':
						s.push()
					default:
						s.do(c, 0)
					}
				}
				s.emit(w, "exhaustive-small")
			}
			if len(prefix) == maxLen {
				return
			}
			for _, c := range codes {
				rec(append(prefix[:len(prefix):len(prefix)], c))
			}
		}
		rec(nil)
	}

	// 2. aimed: shift the head into the middle, fill to exactly full from either end (capacity
	//    read through the hook), then grow from either end, then drain from either end.
	for _, in := range inits {
		for pre := 0; pre <= 2; pre++ { // how the first filling is done
			for shift := 1; shift <= 6; shift++ { // pops that move the head
				for fill := 0; fill <= 2; fill++ {
					for grow := 0; grow <= 1; grow++ {
						for dr := 0; dr <= 2; dr++ {
							if !o.Thorough() && !r.Chance(1, 3) {
								continue
							}
							s := newSess(in)
							// make sure there is a buffer of at least shift+1 slots, full
							for i := 0; i < 64 && !s.dead; i++ {
								_, n, l := s.state()
								if l > shift && n == l {
									break
								}
								if pre == 0 || pre == 2 && r.Bool() {
									s.add()
								} else {
									s.push()
								}
							}
							for i := 0; i < shift; i++ {
								if pre == 1 {
									s.popLast()
								} else {
									s.pop()
								}
							}
							if pre == 1 {
								// popping at the back leaves head where it was: move it by pushing/popping
								s.pop()
							}
							fillTo(s, r, fill)
							// exactly full now; one or two growing operations
							for g := 0; g <= r.Intn(2); g++ {
								if grow == 0 {
									s.add()
								} else {
									s.push()
								}
								if g == 0 && r.Bool() {
									// use up the spare room again so that the next one grows too
									s.pop()
									fillTo(s, r, r.Intn(3))
								}
							}
							if r.Chance(1, 4) {
								s.clear()
								s.add()
								s.push()
							}
							drain(s, r, dr)
							s.emit(w, "aimed-full-head-middle")
						}
					}
				}
			}
		}
	}

	// 3. head wrapping below 0 by Push on a preallocated ring; tail exactly at the boundary for PopLast
	for k := 1; k <= 9; k++ {
		for npush := 1; npush <= k+1; npush++ {
			for nadd := 0; nadd+npush <= k+1; nadd++ {
				s := newSess("s" + strconv.Itoa(k))
				for i := 0; i < npush; i++ {
					s.push()
				}
				for i := 0; i < nadd; i++ {
					s.add()
				}
				// every PopLast position on the way down, then refill across the boundary
				for i := 0; i < nadd+1; i++ {
					s.popLast()
				}
				for i := 0; i < 2; i++ {
					s.add()
				}
				drain(s, r, 1)
				s.emit(w, "push-wrap")
			}
		}
	}
	for k := 2; k <= 9; k++ {
		for h := 1; h < k; h++ {
			// head at h, then add until the newest element sits at index 0..h-1, PopLast each time
			s := newSess("s" + strconv.Itoa(k))
			for i := 0; i < k; i++ {
				s.add()
			}
			for i := 0; i < h; i++ {
				s.pop()
			}
			for i := 0; i < h; i++ {
				s.add()
				s.popLast()
				s.add()
			}
			drain(s, r, 1)
			s.emit(w, "poplast-boundary")
		}
	}

	// 4. long random mixes with phases (grow / shrink / churn), Clear mid-way
	nmix := o.Scale(1500, 30000)
	for i := 0; i < nmix; i++ {
		in := tr.Pick(r, inits)
		if r.Chance(1, 10) {
			in = "s" + strconv.Itoa(r.Range(10, 40))
		}
		s := newSess(in)
		nops := r.Range(10, 120)
		if r.Chance(1, 20) {
			nops = r.Range(200, 400)
		}
		phase := r.Intn(3)
		limit := r.Range(3, 40)
		for j := 0; j < nops && !s.dead; j++ {
			if r.Chance(1, 12) {
				phase = r.Intn(3)
			}
			_, n, _ := s.state()
			if n > limit {
				phase = 1
			}
			pIns := []int{70, 25, 50}[phase]
			x := r.Intn(100)
			switch {
			case r.Chance(1, 60):
				s.clear()
			case x < pIns:
				if r.Chance(3, 5) {
					s.add()
				} else {
					s.push()
				}
			default:
				if r.Chance(3, 5) {
					s.pop()
				} else {
					s.popLast()
				}
			}
		}
		s.emit(w, "random-mix")
	}
}

const rule = "Histories of Add/Push/Pop/PopLast/Clear on queue.Queue[int] from the zero value, New() and NewSize(0..9, some 10..40): " +
	"every history up to length 5 (quick) / 7 (thorough) from capacities 0..4; aimed histories that move the head into the middle, " +
	"fill the ring exactly (capacity read through the verif hook) from either end or both, regrow from either end, drain from either end; " +
	"Push on a fresh preallocated ring (head wraps below 0), PopLast with the newest element at every index around the boundary; " +
	"long random phase mixes with Clear mid-way. After the construction and after EVERY operation the record holds the return value, head/n/len(vs) " +
	"(hook), Len, IsEmpty, Front, Slice, Each (complete and stopped half-way) and Peek(k) for every k from -(Len+2) to Len+1. " +
	"A case is non-trivial when it reached at least one named state (tags: ring wrapped, full with head in the middle, rotate-then-grow by Add/Push, " +
	"push wraps head below 0, PopLast/Pop/Add wrap, emptied with head reset, Clear of a non-empty queue, Pop on empty); distinct = distinct input lines."

func main() {
	o := tr.ParseFlags()
	w := tr.NewW(o.Out)
	if o.Replay != "" {
		for _, in := range tr.ReplayInputs(o.Replay) {
			replay(in).emit(w, "replayed")
		}
	} else {
		gen(o, w)
	}
	w.Close(o, rule, nil)
}
