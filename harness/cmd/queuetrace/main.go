// Command queuetrace drives queue.Queue[int] of the working tree through operation histories and
// records every observable after every operation, one history per line:
//
//	H <init> <op>;<op>;…  |  <rec0>;<rec1>;…
//
// and, for the zero-size element type (queue.Queue[struct{}], the only way to buffers longer than
// 2^62 slots -- machine-int audit, known finding F11):
//
//	U <init> <op>;<op>;…  |  <rec0>;<rec1>;…      ops without element values: a u p l c k<i>
//	rec: <ret>/<head>,<n>,<len(vs)>/<Len>,<IsEmpty>/<len(Slice)>/<Each calls>/<Each calls when stopped after Len/2+1>/<Peek ok flags>
//
// and, for buffers of hundreds to thousands of slots (the scale stream, see big.go):
//
//	B <init> <op>;<op>;…  |  <rec0>;<rec1>;…      batched ops A<k> U<k> P<k> L<k> c o<j>; bounded records
//	X <init> <op>;<op>;…  |  <rec0>;<rec1>;…      the same on 2^15 .. 2^16+1 slots, records without the hook field, spec only (big.go: xMode)
//
// and, for other element types than int (round 5, see typed.go: byte, bool, int16, [3]byte, float32,
// *int, string, a 40-byte struct; elements travel as integer codes, 0 = the zero value):
//
//	T<letter> <init> <op>;<op>;…  |  <rec0>;<rec1>;…      syntax and records of H lines
//
// init: z (zero value), n (New()), s<k> (NewSize(k)); s<k>! = NewSize(k) with k > 2^48 panicked:
// the allocation was refused by the runtime (oracle annotation, recomputed on replay).
// op:   a<v> Add(v)   u<v> Push(v)   p Pop()   l PopLast()   c Clear()   k<i> Peek(i), any int
//
//	e  re-entrant and interleaved iteration: Each with a callback that observes the same queue at
//	   every element (nested Each included), then two iter.Pull iterations alive at once (typed.go)
//
//	An Add/Push that regrew the buffer carries the capacity chosen by append as an ORACLE
//	annotation: a<v>^<cap> (read through the verif hook after the call).  Annotations found in
//	replayed inputs are discarded and written afresh, so the input of a trace line always carries
//	what the runtime did on this very run.
//
// rec0 is taken right after construction, rec_i after op i:
//
//	<ret>/<head>,<n>,<len(vs)>/<Len>,<IsEmpty>/<Front>/<Slice>/<Each>/<Each stopped after Len/2+1 calls>/<Peek(k) for k=-(Len+2)..Len+1>
//
// ret: "-" or <v>:<ok>; Slice: "nil" or the elements; Peek: v when ok, x for (0,false), !v for
// (v≠0,false).  A panic anywhere in the operation or its observations gives the record
// panic:<kind> and ends the history.  Elements are 1,2,3,… in order of insertion (0 is the zero
// value), so a lost, duplicated or reordered element is visible.  The slice returned by Slice is
// overwritten with -7 (the type's poison value) before the other observers run (aliasing with the
// ring would show); the last three such slices are kept, and a later write into one of them (a Slice
// that hands out a buffer twice) marks the next Slice field with !ALIAS.
package main

import (
	"fmt"
	"math"
	"strconv"
	"strings"

	"github.com/creachadair/mds/queue"
	"verif/harness/internal/elem"
	"verif/harness/internal/tr"
)

type sess[T any] struct {
	kind string        // first word of the trace line: H (queue.Queue[int]) or T<letter> (see typed.go)
	cd   elem.Codec[T] // element codes of the trace <-> values of T
	q    *queue.Queue[T]
	init string
	ops  []string
	recs []string
	next int
	dead bool
	kept [][]T // the last slices returned by Slice (poisoned)
	tags map[string]bool
	// what the previous mutating operation did (for the sequence tags)
	prevEmptiedByPopLast, prevEmptiedByPop bool
	cleared                                bool // a Clear of a non-empty queue happened earlier
}

func gcd(a, b int) int {
	for b != 0 {
		a, b = b, a%b
	}
	return a
}

func ints(xs []int) string {
	if len(xs) == 0 {
		return "."
	}
	return tr.Ints(xs)
}

func newSess(init string) *sess[int] { return newSessT("H", intCodec, init) }

func newSessT[T any](kind string, cd elem.Codec[T], init string) *sess[T] {
	s := &sess[T]{kind: kind, cd: cd, init: init, next: 1, tags: map[string]bool{}}
	size := 0
	res := tr.Catch(func() {
		switch {
		case init == "z":
			var q queue.Queue[T]
			s.q = &q
		case init == "n":
			s.q = queue.New[T]()
		case strings.HasPrefix(init, "s"):
			k, err := strconv.Atoi(strings.TrimSuffix(init[1:], "!"))
			if err != nil {
				panic("bad init " + init)
			}
			s.init = "s" + strconv.Itoa(k)
			size = k
			s.q = queue.NewSize[T](k)
		default:
			panic("bad init " + init)
		}
	})
	if res != "" {
		if size > allocMayFail {
			s.init += "!"
		}
		s.recs = append(s.recs, res)
		s.dead = true
		return s
	}
	s.record("-")
	return s
}

// allocMayFail: beyond this many slots (2^48, the Go runtime's maxAlloc in bytes) whether
// make([]T, n) succeeds is the runtime's decision, not the queue's: a NewSize that panics there is
// recorded in the INPUT as an oracle annotation (s<k>!) and nothing is demanded of it.
const allocMayFail = 1 << 48

// observe renders every observable of the queue (Slice first, then poisoned).
func (s *sess[T]) observe(ret string) string {
	q := s.q
	h, n, l, _ := q.VerifState()
	ln := q.Len()
	var b strings.Builder
	fmt.Fprintf(&b, "%s/%d,%d,%d/%d,%s/", ret, h, n, l, ln, tr.B(q.IsEmpty()))
	dec := s.cd.Dec
	sl := q.Slice()
	slTxt := "nil"
	if sl != nil {
		slTxt = ints(decAll(dec, sl))
	}
	// slices returned by earlier Slice calls (overwritten with the poison value then) must not have
	// been written to since: a Slice that hands out one buffer twice, or a view of the ring, shows here
kept:
	for _, old := range s.kept {
		for _, x := range old {
			if dec(x) != dec(s.cd.Poison) {
				slTxt += "!ALIAS"
				s.kept = nil
				break kept
			}
		}
	}
	for i := range sl {
		sl[i] = s.cd.Poison
	}
	if len(sl) > 0 {
		if len(s.kept) >= 3 {
			s.kept = s.kept[1:]
		}
		s.kept = append(s.kept, sl)
	}
	fmt.Fprintf(&b, "%d/%s/", dec(q.Front()), slTxt)
	var all []int
	q.Each(func(v T) bool { all = append(all, dec(v)); return true })
	b.WriteString(ints(all) + "/")
	var some []int
	m := ln / 2
	q.Each(func(v T) bool { some = append(some, dec(v)); return len(some) <= m })
	b.WriteString(ints(some) + "/")
	for k := -(ln + 2); k <= ln+1; k++ {
		v, ok := q.Peek(k)
		if k > -(ln + 2) {
			b.WriteByte(',')
		}
		b.WriteString(peekText(dec(v), ok))
	}
	return b.String()
}

func (s *sess[T]) record(ret string) {
	var rec string
	res := tr.Catch(func() { rec = s.observe(ret) })
	if res != "" {
		rec = res
		s.dead = true
	}
	s.recs = append(s.recs, rec)
}

func (s *sess[T]) state() (head, n, l int) {
	head, n, l, _ = s.q.VerifState()
	return
}

// do runs one operation (code a,u,p,l,c; v is the element for a/u) and records it.
func (s *sess[T]) do(code byte, v int) {
	if s.dead {
		return
	}
	h0, n0, l0 := s.state()
	ret := "-"
	res := tr.Catch(func() {
		switch code {
		case 'a':
			s.q.Add(s.cd.Enc(v))
		case 'u':
			s.q.Push(s.cd.Enc(v))
		case 'p':
			x, ok := s.q.Pop()
			ret = strconv.Itoa(s.cd.Dec(x)) + ":" + tr.B(ok)
		case 'l':
			x, ok := s.q.PopLast()
			ret = strconv.Itoa(s.cd.Dec(x)) + ":" + tr.B(ok)
		case 'c':
			s.q.Clear()
		case 'k':
			x, ok := s.q.Peek(v)
			ret = strconv.Itoa(s.cd.Dec(x)) + ":" + tr.B(ok)
		case 'e':
			ret = reentrant(s.q, s.cd.Dec)
		default:
			panic("bad op")
		}
	})
	txt := string(code)
	if code == 'a' || code == 'u' {
		// the code the element decodes to (a replayed input may name a code the type cannot hold)
		txt += strconv.Itoa(s.cd.Dec(s.cd.Enc(v)))
	}
	if code == 'k' {
		txt += strconv.Itoa(v)
	}
	if res != "" {
		s.ops = append(s.ops, txt)
		s.recs = append(s.recs, res)
		s.dead = true
		s.tags["panic"] = true
		return
	}
	_, _, l1 := s.state()
	if (code == 'a' || code == 'u') && l1 != l0 {
		txt += "^" + strconv.Itoa(l1)
		s.tags["grow"] = true
		if h0 > 0 {
			s.tags["rotate-then-grow-"+map[byte]string{'a': "add", 'u': "push"}[code]] = true
			s.tags["grow-while-wrapped"] = true // full with head > 0 means the ring is wrapped
			if g := gcd(l0-h0, l0); g > 1 {
				s.tags["rotate-multi-cycle"] = true // slice.Rotate chases more than one cycle
				if g > 2 {
					s.tags["rotate-3+-cycles"] = true
				}
			}
		}
		if s.cleared {
			s.tags["regrow-after-clear"] = true
		}
		if l1 > l0+1 {
			s.tags["grow-with-spare"] = true
		}
	}
	// the states the property text names
	if (code == 'a' || code == 'u') && s.cleared {
		s.tags["clear-then-reuse"] = true
	}
	if code == 'u' && s.prevEmptiedByPopLast {
		s.tags["poplast-to-empty-then-push"] = true
	}
	if code == 'a' && s.prevEmptiedByPop {
		s.tags["pop-to-empty-then-add"] = true
	}
	if code == 'u' && s.prevEmptiedByPop {
		s.tags["pop-to-empty-then-push"] = true
	}
	if code == 'a' && s.prevEmptiedByPopLast {
		s.tags["poplast-to-empty-then-add"] = true
	}
	if code != 'k' && code != 'e' {
		s.prevEmptiedByPopLast = code == 'l' && n0 == 1
		s.prevEmptiedByPop = code == 'p' && n0 == 1
	}
	switch code {
	case 'e':
		s.tags["reentrant-each"] = true
		if n0 > 1 && h0+n0 > l0 {
			s.tags["reentrant-each-while-wrapped"] = true
		}
	case 'k':
		switch {
		case v == math.MinInt:
			s.tags["peek-minint"] = true
		case v < -(1 << 62), v > 1<<62:
			s.tags["peek-huge-offset"] = true
		}
		if n0 > 0 && v < 0 && v >= -n0 {
			s.tags["peek-negative-in-range"] = true
		}
	case 'a':
		if n0 < l0 && h0+n0 >= l0 {
			s.tags["add-wraps"] = true
		}
	case 'u':
		if n0 < l0 && h0 == 0 {
			s.tags["push-wraps-head-below-0"] = true
			if n0 > 0 {
				s.tags["push-wraps-head-below-0-nonempty"] = true
			}
		}
	case 'p':
		if n0 > 1 && h0 == l0-1 {
			s.tags["pop-wraps-head"] = true
		}
		if n0 == 0 {
			s.tags["pop-on-empty"] = true
		}
		if n0 == 1 && h0 > 0 {
			s.tags["emptied-head-reset"] = true
		}
	case 'l':
		if n0 > 0 && h0+n0-1 >= l0 {
			s.tags["poplast-wraps"] = true
		}
		if n0 > 0 && h0+n0-1 == l0 {
			s.tags["poplast-at-index-0"] = true
		}
		if n0 == 0 {
			s.tags["pop-on-empty"] = true
		}
		if n0 == 1 && h0 > 0 {
			s.tags["emptied-head-reset"] = true
		}
	case 'c':
		if n0 > 0 {
			s.tags["clear-nonempty"] = true
			s.cleared = true
			if h0+n0 > l0 {
				s.tags["clear-while-wrapped"] = true
			}
		}
	}
	s.ops = append(s.ops, txt)
	s.record(ret)
	if h1, n1, l2 := s.state(); n1 == l2 && h1 > 0 && (code == 'a' || code == 'u') {
		s.tags["full-with-head-in-middle"] = true
		s.tags["full-with-head-in-middle-by-"+map[byte]string{'a': "add", 'u': "push"}[code]] = true
	}
	if h1, n1, l2 := s.state(); n1 > 0 && h1+n1 > l2 {
		s.tags["ring-wrapped"] = true
	}
}

func (s *sess[T]) add()       { s.do('a', s.cd.Code(s.next)); s.next++ }
func (s *sess[T]) push()      { s.do('u', s.cd.Code(s.next)); s.next++ }
func (s *sess[T]) each()      { s.do('e', 0) }
func (s *sess[T]) pop()       { s.do('p', 0) }
func (s *sess[T]) popLast()   { s.do('l', 0) }
func (s *sess[T]) clear()     { s.do('c', 0) }
func (s *sess[T]) peek(k int) { s.do('k', k) }

// extremePeeks asks for offsets at and around the ends of the int range (machine-int audit:
// Peek does `n += q.n` for negative n) and just outside [-Len, Len).
func (s *sess[T]) extremePeeks(r *tr.Rand) {
	if s.dead {
		return
	}
	_, n, _ := s.state()
	ks := []int{math.MinInt, math.MinInt + 1, math.MinInt + n, math.MinInt + n + 1, -math.MaxInt, math.MaxInt, math.MaxInt - n,
		-n - 1, -n, -1, 0, n - 1, n, 1 << 62, -(1 << 62), 1<<63 - 1 - 2*n}
	for i := 0; i < 4; i++ {
		s.peek(tr.Pick(r, ks))
	}
}

func (s *sess[T]) input() string {
	ops := "-"
	if len(s.ops) > 0 {
		ops = strings.Join(s.ops, ";")
	}
	return s.kind + " " + s.init + " " + ops
}

func (s *sess[T]) emit(w *tr.W, tags ...string) {
	nontrivial := false
	for t := range s.tags {
		tags = append(tags, t)
		nontrivial = true
	}
	w.Case(s.input(), strings.Join(s.recs, ";"), nontrivial, tags...)
}

// replay runs a (possibly annotated) input; annotations are recomputed.
func replayT[T any](kind string, cd elem.Codec[T], in string) *sess[T] {
	f := strings.Fields(in)
	if len(f) < 2 || f[0] != kind {
		s := &sess[T]{kind: kind, cd: cd, init: "?", recs: []string{"bad-input"}, tags: map[string]bool{}}
		return s
	}
	s := newSessT(kind, cd, f[1])
	if len(f) < 3 || f[2] == "-" {
		return s
	}
	for _, o := range strings.Split(f[2], ";") {
		if o == "" {
			continue
		}
		if i := strings.IndexByte(o, '^'); i >= 0 {
			o = o[:i]
		}
		v := 0
		if len(o) > 1 {
			v, _ = strconv.Atoi(o[1:])
		}
		s.do(o[0], v)
		if (o[0] == 'a' || o[0] == 'u') && v >= s.next {
			s.next = v + 1
		}
	}
	return s
}

// ---- queue.Queue[struct{}]: lengths and flags only (see the U line syntax above) ----

type usess struct {
	q    *queue.Queue[struct{}]
	init string
	ops  []string
	recs []string
	dead bool
	tags map[string]bool
}

func newUSess(init string) *usess {
	s := &usess{init: init, tags: map[string]bool{}}
	size := 0
	res := tr.Catch(func() {
		switch {
		case init == "z":
			var q queue.Queue[struct{}]
			s.q = &q
		case init == "n":
			s.q = queue.New[struct{}]()
		case strings.HasPrefix(init, "s"):
			k, err := strconv.Atoi(strings.TrimSuffix(init[1:], "!"))
			if err != nil {
				panic("bad init " + init)
			}
			s.init = "s" + strconv.Itoa(k)
			size = k
			s.q = queue.NewSize[struct{}](k)
			if k > 1<<62 {
				s.tags["u-capacity-above-2^62"] = true
			} else if k >= 1<<40 {
				s.tags["u-capacity-huge-within-bound"] = true
			}
		default:
			panic("bad init " + init)
		}
	})
	if res != "" {
		if size > allocMayFail {
			s.init += "!"
			s.tags["u-alloc-refused"] = true
		}
		s.recs = append(s.recs, res)
		s.dead = true
		return s
	}
	s.record("-")
	return s
}

func (s *usess) observe(ret string) string {
	q := s.q
	h, n, l, _ := q.VerifState()
	ln := q.Len()
	var b strings.Builder
	fmt.Fprintf(&b, "%s/%d,%d,%d/%d,%s/", ret, h, n, l, ln, tr.B(q.IsEmpty()))
	_ = q.Front()
	fmt.Fprintf(&b, "%d/", len(q.Slice()))
	all := 0
	q.Each(func(struct{}) bool { all++; return true })
	some, m := 0, ln/2
	q.Each(func(struct{}) bool { some++; return some <= m })
	fmt.Fprintf(&b, "%d/%d/", all, some)
	for k := -(ln + 2); k <= ln+1; k++ {
		_, ok := q.Peek(k)
		b.WriteString(tr.B(ok))
	}
	return b.String()
}

func (s *usess) record(ret string) {
	var rec string
	res := tr.Catch(func() { rec = s.observe(ret) })
	if res != "" {
		rec = res
		s.dead = true
	}
	s.recs = append(s.recs, rec)
}

func (s *usess) do(code byte, v int) {
	if s.dead {
		return
	}
	h0, n0, l0, _ := s.q.VerifState()
	ret := "-"
	res := tr.Catch(func() {
		switch code {
		case 'a':
			s.q.Add(struct{}{})
		case 'u':
			s.q.Push(struct{}{})
		case 'p':
			_, ok := s.q.Pop()
			ret = tr.B(ok)
		case 'l':
			_, ok := s.q.PopLast()
			ret = tr.B(ok)
		case 'c':
			s.q.Clear()
		case 'k':
			_, ok := s.q.Peek(v)
			ret = tr.B(ok)
		default:
			panic("bad op")
		}
	})
	txt := string(code)
	if code == 'k' {
		txt += strconv.Itoa(v)
	}
	if res != "" {
		s.ops = append(s.ops, txt)
		s.recs = append(s.recs, res)
		s.dead = true
		s.tags["u-panic"] = true
		return
	}
	_, _, l1, _ := s.q.VerifState()
	if (code == 'a' || code == 'u') && l1 != l0 {
		txt += "^" + strconv.Itoa(l1)
		s.tags["u-grow"] = true
		if h0 > 0 {
			s.tags["u-rotate-then-grow"] = true
		}
	}
	if code == 'a' && n0 < l0 && h0+n0 >= l0 && h0+n0 > 0 {
		s.tags["u-add-wraps"] = true
	}
	if code == 'u' && n0 < l0 && h0 == 0 {
		s.tags["u-push-wraps-head-below-0"] = true
	}
	s.ops = append(s.ops, txt)
	s.record(ret)
}

func (s *usess) emit(w *tr.W, tags ...string) {
	for t := range s.tags {
		tags = append(tags, t)
	}
	ops := "-"
	if len(s.ops) > 0 {
		ops = strings.Join(s.ops, ";")
	}
	w.Case("U "+s.init+" "+ops, strings.Join(s.recs, ";"), true, tags...)
}

func replayU(f []string) *usess {
	s := newUSess(f[1])
	if len(f) < 3 || f[2] == "-" {
		return s
	}
	for _, o := range strings.Split(f[2], ";") {
		if o == "" {
			continue
		}
		if i := strings.IndexByte(o, '^'); i >= 0 {
			o = o[:i]
		}
		v := 0
		if len(o) > 1 {
			v, _ = strconv.Atoi(o[1:])
		}
		s.do(o[0], v)
	}
	return s
}

// genU: histories on queue.Queue[struct{}].  Small capacities (append grows a zero-size slice by
// exactly one slot, so the ring is full after every growth and rotates on every further one);
// capacities at and just below the 2^62 bound of C07_history64; capacities above it, up to
// math.MaxInt, where head+n can leave the int range (F11).
func genU(o *tr.Opts, w *tr.W, r *tr.Rand) {
	caps := []string{"z", "n", "s0", "s1", "s2", "s3", "s5", "s8"}
	within := []int{1 << 40, 1<<62 - 1, 1 << 62}
	above := []int{1<<62 + 1, 1<<63 - 1 - 1000, math.MaxInt - 7, math.MaxInt - 2, math.MaxInt - 1, math.MaxInt}
	panics := 0
	run := func(in string, nops int, tag string) {
		s := newUSess(in)
		for j := 0; j < nops && !s.dead; j++ {
			_, n, _, _ := s.q.VerifState()
			switch x := r.Intn(100); {
			case x < 30:
				s.do('a', 0)
			case x < 55:
				s.do('u', 0)
			case x < 70:
				s.do('p', 0)
			case x < 85:
				s.do('l', 0)
			case x < 88:
				s.do('c', 0)
			default:
				s.do('k', tr.Pick(r, []int{math.MinInt, math.MinInt + n, -n - 1, -n, -1, 0, n - 1, n, math.MaxInt, math.MaxInt - n}))
			}
		}
		if s.tags["u-panic"] {
			panics++
		}
		s.emit(w, tag)
	}
	for i := 0; i < o.Scale(300, 6000); i++ {
		run(tr.Pick(r, caps), r.Range(3, 40), "u-small")
	}
	for _, k := range within {
		for i := 0; i < o.Scale(12, 200); i++ {
			run("s"+strconv.Itoa(k), r.Range(2, 14), "u-huge")
		}
	}
	// above the bound the histories that reach head+n >= 2^63 end in the known finding F11; their
	// number is kept small and independent of the tier (the driver prints the first 20 failures of a
	// trace, and a new failure must never be crowded out by known ones): at most 8 here + 7 below
	for i := 0; i < 12 && panics < 8; i++ {
		for _, k := range above {
			if panics < 8 {
				run("s"+strconv.Itoa(k), r.Range(2, 14), "u-huge")
			}
		}
	}
	// the F11 shape at every distance m below math.MaxInt: Push (head = len-1), then Adds until
	// head+n passes 2^63 (m+2 Adds are fine, the next one is not)
	for m := 0; m <= 6; m++ {
		s := newUSess("s" + strconv.Itoa(math.MaxInt-m))
		s.do('u', 0)
		for i := 0; i < m+4; i++ {
			s.do('a', 0)
		}
		s.emit(w, "u-f11-shape")
	}
	// the same overflow met by Peek/PopLast first: m+2 Adds from head 0, then Push wraps head to
	// len-1, so head+n > 2^63 and the observations after the Push (Peek) fail
	for m := 0; m <= 2; m++ {
		s := newUSess("s" + strconv.Itoa(math.MaxInt-m))
		for i := 0; i < m+2; i++ {
			s.do('a', 0)
		}
		s.do('u', 0)
		s.do('l', 0)
		s.emit(w, "u-f11-peek-poplast-shape")
	}
}

var inits = []string{"z", "n", "s0", "s1", "s2", "s3", "s4", "s5", "s6", "s7", "s8", "s9"}

// fillTo adds at the chosen end(s) until the ring is exactly full (n == len(vs)).
func fillTo[T any](s *sess[T], r *tr.Rand, end int) {
	for i := 0; i < 200 && !s.dead; i++ {
		_, n, l := s.state()
		if n >= l {
			return
		}
		switch {
		case end == 0, end == 2 && r.Bool():
			s.add()
		default:
			s.push()
		}
	}
}

func drain[T any](s *sess[T], r *tr.Rand, how int) {
	for i := 0; i < 400 && !s.dead; i++ {
		_, n, _ := s.state()
		if n == 0 {
			break
		}
		switch {
		case how == 0, how == 2 && r.Bool():
			s.pop()
		default:
			s.popLast()
		}
	}
	// once more on the empty queue, both ends
	s.pop()
	s.popLast()
}

func gen(o *tr.Opts, w *tr.W) {
	// tr.NewRand(s) and tr.NewRand(s+1) are the same SplitMix64 sequence one position apart (the
	// state is s*gamma + c and advances by gamma), and generators that draw until a condition holds
	// fall into step with each other: with the plain seed the later streams of this generator were
	// the same for every VERIF_SEED.  So the seed is scrambled first (FNV-1a of its decimal text).
	r := tr.NewRand(fnv64("queuetrace seed " + strconv.FormatUint(o.Seed, 10)))

	// 0. construction only, including a negative size (documented? no: make panics)
	for _, in := range inits {
		newSess(in).emit(w, "init-only")
	}
	for _, in := range []string{"s-1", "s-2", "s-4611686018427387904", "s-9223372036854775807", "s-9223372036854775808"} {
		newSess(in).emit(w, "init-negative-size")
	}

	// 1. every history over {Add, Push, Pop, PopLast, Clear} up to a length, from several capacities
	maxLen := o.Scale(5, 7)
	for _, in := range []string{"z", "s1", "s2", "s3", "s4"} {
		codes := []byte("aupl")
		if in == "s3" || in == "z" {
			codes = []byte("auplc")
		}
		var rec func(prefix []byte)
		rec = func(prefix []byte) {
			if len(prefix) > 0 {
				s := newSess(in)
				for _, c := range prefix {
					switch c {
					case 'a':
						s.add()
					case 'u':
						s.push()
					default:
						s.do(c, 0)
					}
				}
				s.emit(w, "exhaustive-small")
			}
			if len(prefix) == maxLen {
				return
			}
			for _, c := range codes {
				rec(append(prefix[:len(prefix):len(prefix)], c))
			}
		}
		rec(nil)
	}

	// 2. aimed: shift the head into the middle, fill to exactly full from either end (capacity
	//    read through the hook), then grow from either end, then drain from either end.
	for _, in := range inits {
		for pre := 0; pre <= 2; pre++ { // how the first filling is done
			for shift := 1; shift <= 6; shift++ { // pops that move the head
				for fill := 0; fill <= 2; fill++ {
					for grow := 0; grow <= 1; grow++ {
						for dr := 0; dr <= 2; dr++ {
							if !o.Thorough() && !r.Chance(1, 3) {
								continue
							}
							s := newSess(in)
							// make sure there is a buffer of at least shift+1 slots, full
							for i := 0; i < 64 && !s.dead; i++ {
								_, n, l := s.state()
								if l > shift && n == l {
									break
								}
								if pre == 0 || pre == 2 && r.Bool() {
									s.add()
								} else {
									s.push()
								}
							}
							for i := 0; i < shift; i++ {
								if pre == 1 {
									s.popLast()
								} else {
									s.pop()
								}
							}
							if pre == 1 {
								// popping at the back leaves head where it was: move it by pushing/popping
								s.pop()
							}
							fillTo(s, r, fill)
							if r.Chance(1, 3) {
								s.extremePeeks(r)
							}
							// exactly full now; one or two growing operations
							for g := 0; g <= r.Intn(2); g++ {
								if grow == 0 {
									s.add()
								} else {
									s.push()
								}
								if g == 0 && r.Bool() {
									// use up the spare room again so that the next one grows too
									s.pop()
									fillTo(s, r, r.Intn(3))
								}
							}
							if r.Chance(1, 4) {
								s.clear()
								s.add()
								s.push()
							}
							if r.Chance(1, 4) {
								s.extremePeeks(r)
							}
							drain(s, r, dr)
							s.emit(w, "aimed-full-head-middle")
						}
					}
				}
			}
		}
	}

	// 3. head wrapping below 0 by Push on a preallocated ring; tail exactly at the boundary for PopLast
	for k := 1; k <= 9; k++ {
		for npush := 1; npush <= k+1; npush++ {
			for nadd := 0; nadd+npush <= k+1; nadd++ {
				s := newSess("s" + strconv.Itoa(k))
				for i := 0; i < npush; i++ {
					s.push()
				}
				for i := 0; i < nadd; i++ {
					s.add()
				}
				// every PopLast position on the way down, then refill across the boundary
				for i := 0; i < nadd+1; i++ {
					s.popLast()
				}
				for i := 0; i < 2; i++ {
					s.add()
				}
				drain(s, r, 1)
				s.emit(w, "push-wrap")
			}
		}
	}
	for k := 2; k <= 9; k++ {
		for h := 1; h < k; h++ {
			// head at h, then add until the newest element sits at index 0..h-1, PopLast each time
			s := newSess("s" + strconv.Itoa(k))
			for i := 0; i < k; i++ {
				s.add()
			}
			for i := 0; i < h; i++ {
				s.pop()
			}
			for i := 0; i < h; i++ {
				s.add()
				s.popLast()
				s.add()
			}
			drain(s, r, 1)
			s.emit(w, "poplast-boundary")
		}
	}

	// 3b. every (len, head) pair of an exactly full ring, reached by Add and by Push, then regrown
	//     from either end: slice.Rotate(vs, -head) with every gcd(len-head, len), i.e. one and
	//     several cycles; a second regrowth follows while the head is again in the middle.
	for size := 2; size <= o.Scale(12, 24); size++ {
		for h := 1; h < size; h++ {
			for how := 0; how < 2; how++ {
				for grow := 0; grow < 2; grow++ {
					s := newSess("s" + strconv.Itoa(size))
					if how == 0 { // Add to full, Pop h, Add h: head == h
						for i := 0; i < size; i++ {
							s.add()
						}
						for i := 0; i < h; i++ {
							s.pop()
						}
						for i := 0; i < h; i++ {
							s.add()
						}
					} else { // Push size-h (head == h), Add h
						for i := 0; i < size-h; i++ {
							s.push()
						}
						for i := 0; i < h; i++ {
							s.add()
						}
					}
					if grow == 0 {
						s.add()
					} else {
						s.push()
					}
					if r.Bool() {
						s.extremePeeks(r)
					}
					// move the head again and refill, so that the next growth rotates once more
					for i := 0; i < 1+r.Intn(3); i++ {
						s.pop()
					}
					fillTo(s, r, 2)
					if grow == 0 {
						s.push()
					} else {
						s.add()
					}
					drain(s, r, r.Intn(3))
					s.emit(w, "every-full-head-position")
				}
			}
		}
	}

	// 3c. Clear, then reuse: fill (wrapped or not), Clear, then build up again from either end past
	//     one or two regrowths (the buffer restarts from nil), observing after every step.
	for _, in := range inits {
		for pre := 0; pre < 3; pre++ {
			for re := 0; re < 3; re++ {
				for cnt := 1; cnt <= o.Scale(4, 9); cnt++ {
					s := newSess(in)
					for i := 0; i < 2+r.Intn(6); i++ {
						if pre == 0 || pre == 2 && r.Bool() {
							s.add()
						} else {
							s.push()
						}
					}
					if r.Bool() {
						s.pop()
						s.add()
					}
					s.clear()
					if r.Chance(1, 3) {
						s.extremePeeks(r)
						s.pop()
						s.popLast()
					}
					for i := 0; i < cnt; i++ {
						if re == 0 || re == 2 && r.Bool() {
							s.add()
						} else {
							s.push()
						}
					}
					s.pop()
					fillTo(s, r, 2)
					s.push()
					if r.Bool() {
						s.clear()
						s.push()
						s.add()
					}
					drain(s, r, r.Intn(3))
					s.emit(w, "clear-then-reuse")
				}
			}
		}
	}

	// 3d. PopLast (or Pop) down to empty -- head is reset to 0 -- then Push (head wraps below 0
	//     again) or Add, from rings whose head was anywhere.
	for k := 1; k <= 9; k++ {
		for m := 1; m <= k; m++ {
			for how := 0; how < 4; how++ {
				s := newSess(tr.Pick(r, []string{"z", "n", "s" + strconv.Itoa(k)}))
				for i := 0; i < m; i++ {
					if r.Bool() {
						s.push()
					} else {
						s.add()
					}
				}
				for i := 0; i < m; i++ {
					if how < 2 {
						s.popLast()
					} else {
						s.pop()
					}
				}
				if how%2 == 0 {
					s.push()
					s.add()
				} else {
					s.add()
					s.push()
				}
				if r.Bool() {
					s.extremePeeks(r)
				}
				s.popLast()
				s.popLast()
				s.push()
				drain(s, r, r.Intn(3))
				s.emit(w, "drain-to-empty-then-insert")
			}
		}
	}

	// 4. long random mixes with phases (grow / shrink / churn), Clear mid-way
	nmix := o.Scale(1500, 30000)
	for i := 0; i < nmix; i++ {
		in := tr.Pick(r, inits)
		if r.Chance(1, 10) {
			in = "s" + strconv.Itoa(r.Range(10, 40))
		}
		s := newSess(in)
		nops := r.Range(10, 120)
		if r.Chance(1, 20) {
			nops = r.Range(200, 400)
		}
		phase := r.Intn(3)
		limit := r.Range(3, 40)
		for j := 0; j < nops && !s.dead; j++ {
			if r.Chance(1, 12) {
				phase = r.Intn(3)
			}
			_, n, _ := s.state()
			if n > limit {
				phase = 1
			}
			pIns := []int{70, 25, 50}[phase]
			x := r.Intn(100)
			switch {
			case r.Chance(1, 60):
				s.clear()
			case r.Chance(1, 40):
				s.extremePeeks(r)
			case x < pIns:
				if r.Chance(3, 5) {
					s.add()
				} else {
					s.push()
				}
			default:
				if r.Chance(3, 5) {
					s.pop()
				} else {
					s.popLast()
				}
			}
		}
		s.emit(w, "random-mix")
	}

	// 5. the zero-size element type
	genU(o, w, r)

	// 6. the scale stream: buffers of hundreds to thousands of slots (B lines, see big.go)
	genScale(o, w, r)

	// 7. other element types (T lines), every constructor, first insertion by Push or Add, the
	//    drained queue, re-entrant traversals (typed.go); run for int (H lines) too
	for _, k := range kinds {
		k.gen(o, w, r)
	}
}

const rule = "T lines (round 5): queue.Queue at byte, bool, int16, [3]byte, float32, *int, string and a 40-byte struct (element codes mapped to values in the harness, records as on H lines, append's capacity for THAT type as oracle annotation): every constructor (zero value, New, NewSize(0..9,16,17)) x first insertion by Push or by Add x nothing/one/to capacity/one beyond x drain by Pop, PopLast or both x all observers on the drained queue x reuse from the other end x Clear x reuse; every history over Add/Push/Pop/PopLast/Clear to length 5 (z), 4 (s1), 3 (n, s0, s2) (thorough +1); the capacities the type really gets (byte 8,16; [3]byte 2,5,10,21; float32 2,4,8,16; string/pointer/struct 1,2,4,8,16) exactly full with the head in the middle, regrown from either end; random mixes; op e = re-entrant Each (callback calls Len/IsEmpty/Front/Peek/nested Each/Slice of the same queue at every element) and two iter.Pull iterations zipped; the same streams on int (H lines).  X lines: B histories on exactly 2^15-1 .. 2^16+1 slots, spec only (quick 2, thorough 32).  " +
	"Histories of Add/Push/Pop/PopLast/Clear/Peek(any int) on queue.Queue[int] from the zero value, New() and NewSize(0..9, some 10..40; negative sizes down to math.MinInt): " +
	"every history up to length 5 (quick) / 7 (thorough) from capacities 0..4; aimed histories that move the head into the middle, " +
	"fill the ring exactly (capacity read through the verif hook) from either end or both, regrow from either end, drain from either end; " +
	"Push on a fresh preallocated ring (head wraps below 0), PopLast with the newest element at every index around the boundary; " +
	"every (len, head) position of an exactly full ring up to len 12 (quick) / 24 (thorough) reached by Add and by Push and regrown from either end (Rotate with one and several cycles); " +
	"Clear then reuse past the next regrowths; PopLast/Pop down to empty then Push/Add; explicit Peek ops at the ends of the int range (math.MinInt, MinInt+Len, MaxInt, ...); " +
	"long random phase mixes with Clear mid-way; B lines (scale stream, batched ops, bounded records with FNV digests of long sequences): buffers of 3..129, 255..257, 511..513, 1000, 1023..1025, 2047..2049, 4095..4097 (thorough: 8191..8193 and random large) slots from NewSize and grown from the zero value (by Add or from both ends), filled exactly with the head at 0, 1, n/4, n/2, 3n/4, n-1, at the size of the space append adds (-1, +0, +1) and at a random index (reached by Pop+Add or by Push wrapping below 0), regrown by Add and by Push, then Slice/Each/Each-stopped over all elements and Peek at both ends, around 0, around the old wrap point and on a sweep of offsets, refilled exactly and regrown again or drained to 1/8..1/2 and regrown, drained from both ends past empty; grow-drain-regrow cycles (quick: one (regrowing end, origin) pair per size and depth up to 1025 and three cases above; thorough: the whole product up to 1025, a half/quarter above); U lines: the same operations on queue.Queue[struct{}] (lengths and flags only) from small capacities and from NewSize(2^40 .. math.MaxInt), around the 2^62 bound of C07_history64 and above it (known finding F11). After the construction and after EVERY operation the record holds the return value, head/n/len(vs) " +
	"(hook), Len, IsEmpty, Front, Slice, Each (complete and stopped half-way) and Peek(k) for every k from -(Len+2) to Len+1. " +
	"A case is non-trivial when it reached at least one named state (tags: ring wrapped, full with head in the middle, rotate-then-grow by Add/Push, " +
	"push wraps head below 0, PopLast/Pop/Add wrap, emptied with head reset, Clear of a non-empty queue, Pop on empty); distinct = distinct input lines."

func main() {
	o := tr.ParseFlags()
	w := tr.NewW(o.Out)
	if o.Replay != "" {
		for _, in := range tr.ReplayInputs(o.Replay) {
			if f := strings.Fields(in); len(f) >= 2 && f[0] == "U" {
				replayU(f).emit(w, "replayed")
				continue
			}
			if f := strings.Fields(in); len(f) >= 2 && (f[0] == "B" || f[0] == "X") {
				replayB(f).emit(w, "replayed")
				continue
			}
			if f := strings.Fields(in); len(f) >= 1 && kindOf(f[0]) != nil {
				kindOf(f[0]).replay(in).emit(w, "replayed")
				continue
			}
			replayT("H", intCodec, in).emit(w, "replayed")
		}
	} else {
		gen(o, w)
	}
	w.Close(o, rule, nil)
}
