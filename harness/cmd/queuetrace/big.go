// B lines: the "scale" stream.  Histories on queue.Queue[int] with buffers of hundreds to thousands
// of slots, around the sizes where the Go runtime's behaviour changes (append grows a slice by 2x
// below 256 elements and by about 1.25x, rounded up to an allocator size class, from 256 on).
// Operations come in batches and the records are bounded: long sequences are shown as
// <count>:<FNV-1a 64 of the comma-separated decimal text>:<a few elements>, computed from the same
// sequence by the model and by the reference in the driver.
//
//	B <init> <op>;<op>;…  |  <rec0>;<rec1>;…
//
//	op:  A<k>  k times Add(next value)      U<k>  k times Push(next value)     (values are 1,2,3,… in
//	     P<k>  k times Pop()                L<k>  k times PopLast()              order of insertion)
//	     c     Clear()                      o<j>  observe everything; j marks an offset of interest
//	                                              (the old wrap point) whose neighbourhood is shown
//	     A/U batches carry the ORACLE annotations ^<cap>, one per regrowth inside the batch, in order.
//
//	rec0 (after construction), and after A, U, c:   -/<head>,<n>,<len(vs)>/<Len>,<IsEmpty>/<Front>/<Peek(-1)>
//	after P<k>, L<k>:   <number of ok results>:<seq of all k returned values>/<head>,… as above
//	after o<j>:   o/<head>,<n>,<len(vs)>/<Len>,<IsEmpty>/<Front>/<Slice: nil or seq>/<Each: seq>/
//	              <Each stopped after Len/2+1 calls: seq>/<FNV of Peek(k) for the swept k>/
//	              <k:Peek(k) for the k near both ends of -(Len+2)..Len+1, near 0 and near j and j-Len>
//	              swept k: every k in -(Len+2)..Len+1 when Len <= 300; beyond that the shown ones and
//	              about a hundred more at a fixed stride over the whole range
//	seq:  <count>:<fnv>:<elements 0,1,2, j-2..j+2, count-3..count-1>
package main

import (
	"fmt"
	"sort"
	"strconv"
	"strings"

	"github.com/creachadair/mds/queue"
	"verif/harness/internal/tr"
)

func fnv64(s string) uint64 {
	h := uint64(0xcbf29ce484222325)
	for i := 0; i < len(s); i++ {
		h ^= uint64(s[i])
		h *= 0x100000001b3
	}
	return h
}

// window: the indices 0,1,2, j-2..j+2, count-3..count-1 inside [0,count), ascending, no repeats
func window(count, j int) []int {
	var ix []int
	for _, c := range []int{0, 1, 2, j - 2, j - 1, j, j + 1, j + 2, count - 3, count - 2, count - 1} {
		if c >= 0 && c < count {
			ix = append(ix, c)
		}
	}
	sort.Ints(ix)
	out := ix[:0]
	for i, c := range ix {
		if i == 0 || c != ix[i-1] {
			out = append(out, c)
		}
	}
	return out
}

func seqSummary(xs []int, j int) string {
	var w []int
	for _, i := range window(len(xs), j) {
		w = append(w, xs[i])
	}
	return fmt.Sprintf("%d:%x:%s", len(xs), fnv64(ints(xs)), ints(w))
}

func peekText(v int, ok bool) string {
	switch {
	case ok:
		return strconv.Itoa(v)
	case v == 0:
		return "x"
	}
	return "!" + strconv.Itoa(v)
}

type bsess struct {
	q    *queue.Queue[int]
	init string
	ops  []string
	recs []string
	next int
	dead bool
	x    bool // an X line: the records carry no head,n,len(vs) field (see xMode)
	tags map[string]bool
}

// xMode: sessions created while it is set are X lines -- the B syntax and records without the hook
// field, for buffers of 2^15 .. 2^16+1 slots, which the list-based extracted model cannot replay
// in reasonable time (about 50 n^2 list steps per history).  The driver does not run the model on
// them: it renders the records from a direct double-ended sequence (checked in lockstep against
// the extracted reference QueueSpec.spec_step on the small B lines) and demands equality, so on X
// lines "the model's prediction" and "the property" are the same computation (spec only).
var xMode bool

// hookText: "<head>,<n>,<len(vs)>/" on B lines, nothing on X lines.
func (s *bsess) hookText() string {
	if s.x {
		return ""
	}
	h, n, l := s.state()
	return fmt.Sprintf("%d,%d,%d/", h, n, l)
}

func newBSess(init string) *bsess {
	s := &bsess{init: init, next: 1, x: xMode, tags: map[string]bool{}}
	res := tr.Catch(func() {
		switch {
		case init == "z":
			var q queue.Queue[int]
			s.q = &q
		case init == "n":
			s.q = queue.New[int]()
		case strings.HasPrefix(init, "s"):
			k, err := strconv.Atoi(init[1:])
			if err != nil || k > 1<<24 {
				panic("bad init " + init)
			}
			s.q = queue.NewSize[int](k)
		default:
			panic("bad init " + init)
		}
	})
	if res != "" {
		s.recs = append(s.recs, res)
		s.dead = true
		return s
	}
	s.light("-")
	return s
}

func (s *bsess) state() (head, n, l int) {
	head, n, l, _ = s.q.VerifState()
	return
}

func (s *bsess) rec(f func() string) {
	var rec string
	if res := tr.Catch(func() { rec = f() }); res != "" {
		rec = res
		s.dead = true
		s.tags["big-panic"] = true
	}
	s.recs = append(s.recs, rec)
}

func (s *bsess) light(ret string) {
	s.rec(func() string {
		q := s.q
		pv, pok := q.Peek(-1)
		return fmt.Sprintf("%s/%s%d,%s/%d/%s", ret, s.hookText(), q.Len(), tr.B(q.IsEmpty()), q.Front(), peekText(pv, pok))
	})
}

// batch runs up to k operations of one kind (stopping early when stop says so, checked before
// each operation) and records them as one op with the number actually performed.
func (s *bsess) batch(code byte, k int, stop func() bool) {
	if s.dead || k <= 0 {
		return
	}
	done := 0
	var caps []string
	var rets []int
	oks := 0
	res := tr.Catch(func() {
		for ; done < k; done++ {
			if stop != nil && stop() {
				return
			}
			h0, n0, l0 := s.state()
			switch code {
			case 'A':
				s.q.Add(s.next)
				s.next++
			case 'U':
				s.q.Push(s.next)
				s.next++
			case 'P', 'L':
				var x int
				var ok bool
				if code == 'P' {
					x, ok = s.q.Pop()
				} else {
					x, ok = s.q.PopLast()
				}
				rets = append(rets, x)
				if ok {
					oks++
				}
				if n0 == 0 {
					s.tags["big-pop-on-empty"] = true
				}
			default:
				panic("bad op")
			}
			if _, _, l1 := s.state(); l1 != l0 {
				caps = append(caps, strconv.Itoa(l1))
				s.growTags(code, h0, l0, l1)
			} else if code == 'A' && h0+n0 >= l0 && n0 < l0 && l0 >= 200 {
				s.tags["big-add-wraps"] = true
			} else if code == 'U' && h0 == 0 && n0 > 0 && l0 >= 200 {
				s.tags["big-push-wraps-head-below-0"] = true
			}
		}
	})
	if res == "" && done == 0 {
		return
	}
	txt := string(code) + strconv.Itoa(done)
	if res != "" {
		txt = string(code) + strconv.Itoa(done+1) // the panicking operation counts
	}
	for _, c := range caps {
		txt += "^" + c
	}
	s.ops = append(s.ops, txt)
	if res != "" {
		s.recs = append(s.recs, res)
		s.dead = true
		s.tags["big-panic"] = true
		return
	}
	ret := "-"
	if code == 'P' || code == 'L' {
		ret = strconv.Itoa(oks) + ":" + seqSummary(rets, 0)
	}
	s.light(ret)
}

func (s *bsess) growTags(code byte, h0, l0, l1 int) {
	s.tags["big-grow"] = true
	if l0 < 200 {
		return
	}
	by := map[byte]string{'A': "add", 'U': "push"}[code]
	s.tags["big-grow-from>=200-slots"] = true
	if l1 < 2*l0 {
		s.tags["big-grow-by-less-than-2x"] = true
	}
	if h0 > 0 {
		s.tags["big-grow-while-wrapped-by-"+by] = true
		if h0 > l1-l0 {
			// more elements before the head than slots were added
			s.tags["big-grow-head-deeper-than-added-space"] = true
			s.tags["big-grow-head-deeper-than-added-space-by-"+by] = true
		}
		if g := gcd(l0-h0, l0); g > 1 {
			s.tags["big-rotate-multi-cycle"] = true
		}
	}
}

func (s *bsess) adds(k int)     { s.batch('A', k, nil) }
func (s *bsess) pushes(k int)   { s.batch('U', k, nil) }
func (s *bsess) pops(k int)     { s.batch('P', k, nil) }
func (s *bsess) popLasts(k int) { s.batch('L', k, nil) }

func (s *bsess) clear() {
	if s.dead {
		return
	}
	res := tr.Catch(func() { s.q.Clear() })
	s.ops = append(s.ops, "c")
	if res != "" {
		s.recs = append(s.recs, res)
		s.dead = true
		return
	}
	s.light("-")
}

// obs: every observer on every element; j is the offset whose neighbourhood is shown in clear
func (s *bsess) obs(j int) {
	if s.dead {
		return
	}
	if j < 0 {
		j = 0
	}
	s.ops = append(s.ops, "o"+strconv.Itoa(j))
	s.rec(func() string {
		q := s.q
		h, n, l := s.state()
		ln := q.Len()
		var b strings.Builder
		fmt.Fprintf(&b, "o/%s%d,%s/%d/", s.hookText(), ln, tr.B(q.IsEmpty()), q.Front())
		sl := q.Slice()
		if sl == nil {
			b.WriteString("nil/")
		} else {
			b.WriteString(seqSummary(sl, j) + "/")
			for i := range sl {
				sl[i] = -7
			}
		}
		var all []int
		q.Each(func(v int) bool { all = append(all, v); return true })
		b.WriteString(seqSummary(all, j) + "/")
		var some []int
		m := ln / 2
		q.Each(func(v int) bool { some = append(some, v); return len(some) <= m })
		b.WriteString(seqSummary(some, j) + "/")
		txt := map[int]string{}
		var swept []string
		for _, k := range peekSweep(ln, j) {
			v, ok := q.Peek(k)
			txt[k] = peekText(v, ok)
			swept = append(swept, txt[k])
		}
		fmt.Fprintf(&b, "%x/", fnv64(strings.Join(swept, ",")))
		for i, k := range peekWindow(ln, j) {
			if i > 0 {
				b.WriteByte(',')
			}
			b.WriteString(strconv.Itoa(k) + ":" + txt[k])
		}
		if ln >= 200 {
			s.tags["big-observed-all-of->=200-elements"] = true
			if h+n > l {
				s.tags["big-observed-while-wrapped"] = true
			}
		}
		return b.String()
	})
}

// peekWindow: the offsets shown in clear: both ends of -(ln+2)..ln+1, around 0, around j and j-ln
func peekWindow(ln, j int) []int {
	lo, hi := -(ln + 2), ln+1
	var ks []int
	for _, c := range []int{lo, -ln, -2, 0, ln - 1, j, j - ln} {
		for d := -1; d <= 2; d++ {
			if k := c + d; k >= lo && k <= hi {
				ks = append(ks, k)
			}
		}
	}
	sort.Ints(ks)
	out := ks[:0]
	for i, k := range ks {
		if i == 0 || k != ks[i-1] {
			out = append(out, k)
		}
	}
	return out
}

// peekSweep: the offsets whose Peek results are digested: every k in -(ln+2)..ln+1 up to 300
// elements; beyond, the window plus about a hundred offsets at a fixed stride over the whole range
func peekSweep(ln, j int) []int {
	lo, hi := -(ln + 2), ln+1
	var ks []int
	if ln <= 300 {
		for k := lo; k <= hi; k++ {
			ks = append(ks, k)
		}
		return ks
	}
	ks = append(ks, peekWindow(ln, j)...)
	stride := (2*ln+4)/100 + 1
	for k := lo; k <= hi; k += stride {
		ks = append(ks, k)
	}
	sort.Ints(ks)
	out := ks[:0]
	for i, k := range ks {
		if i == 0 || k != ks[i-1] {
			out = append(out, k)
		}
	}
	return out
}

func (s *bsess) emit(w *tr.W, tags ...string) {
	nontrivial := false
	for t := range s.tags {
		tags = append(tags, t)
		nontrivial = true
	}
	ops := "-"
	if len(s.ops) > 0 {
		ops = strings.Join(s.ops, ";")
	}
	kind := "B "
	if s.x {
		kind = "X "
	}
	w.Case(kind+s.init+" "+ops, strings.Join(s.recs, ";"), nontrivial, tags...)
}

func replayB(f []string) *bsess {
	xMode = f[0] == "X"
	s := newBSess(f[1])
	xMode = false
	if len(f) < 3 || f[2] == "-" {
		return s
	}
	for _, o := range strings.Split(f[2], ";") {
		if o == "" {
			continue
		}
		if i := strings.IndexByte(o, '^'); i >= 0 {
			o = o[:i]
		}
		k := 0
		if len(o) > 1 {
			k, _ = strconv.Atoi(o[1:])
		}
		if k > 1<<22 {
			k = 1 << 22
		}
		switch o[0] {
		case 'A', 'U', 'P', 'L':
			s.batch(o[0], k, nil)
		case 'c':
			s.clear()
		case 'o':
			s.obs(k)
		default:
			if !s.dead {
				s.ops = append(s.ops, o)
				s.recs = append(s.recs, "bad-op")
				s.dead = true
			}
		}
	}
	return s
}

// ---- generators ----

// fillExact adds at the chosen end (0 back, 1 front, 2 alternating chunks) until n == len(vs).
func (s *bsess) fillExact(r *tr.Rand, end int) {
	for i := 0; i < 64 && !s.dead; i++ {
		_, n, l := s.state()
		if n >= l {
			return
		}
		room := l - n
		switch end {
		case 0:
			s.adds(room)
		case 1:
			s.pushes(room)
		default:
			k := room
			if room > 1 {
				k = r.Range(1, room)
			}
			if i%2 == 0 {
				s.adds(k)
			} else {
				s.pushes(k)
			}
		}
	}
}

// growTo: from whatever state, insert until the buffer has at least size slots and is exactly full
func (s *bsess) growTo(r *tr.Rand, size, end int) {
	for i := 0; i < 64 && !s.dead; i++ {
		_, n, l := s.state()
		if l >= size && n == l {
			return
		}
		full := func() bool { _, n, l := s.state(); return l >= size && n == l }
		k := size + 8192
		if end == 2 {
			k = r.Range(1, size/2+1)
		}
		if end == 0 || end == 2 && i%2 == 0 {
			s.batch('A', k, full)
		} else {
			s.batch('U', k, full)
		}
	}
}

// setHead: on an exactly full ring, bring the head to index h keeping the ring exactly full.
// how 0: Pop h, Add h.  how 1: empty it, Push len-h (the head wraps below 0 and walks down), Add h.
func (s *bsess) setHead(h, how int) {
	_, n, l := s.state()
	if s.dead || n != l || h <= 0 || h >= l {
		return
	}
	if how == 0 {
		s.pops(h)
		s.adds(h)
	} else {
		s.pops(n)
		s.pushes(l - h)
		s.adds(h)
	}
}

// drainBoth empties the queue from both ends (observing in the middle) and asks once more of each end.
func (s *bsess) drainBoth(r *tr.Rand, observe bool) {
	_, n, _ := s.state()
	a := n / 3
	if n > 3 {
		a = r.Range(1, n/2)
	}
	b := (n - a) / 2
	if r.Bool() {
		s.pops(a)
		s.popLasts(b)
	} else {
		s.popLasts(a)
		s.pops(b)
	}
	if observe {
		s.obs(0)
	}
	_, n, _ = s.state()
	if r.Bool() {
		s.pops(n + 1)
		s.popLasts(1)
	} else {
		s.popLasts(n + 1)
		s.pops(1)
	}
}

// probeGrowth: how many slots does the runtime add when a full buffer of l ints is appended to?
func probeGrowth(l int) int {
	q := queue.NewSize[int](l)
	for i := 0; i <= l; i++ {
		q.Add(0)
	}
	_, _, l1, _ := q.VerifState()
	return l1 - l
}

// scaleCase: one history of the scale stream.
//
//	from   0: NewSize(size)   1: the zero value grown by Add   2: the zero value grown from both ends
//	h      index of the head in the exactly full ring (how: see setHead; a fresh NewSize ring with
//	       how 1 is filled directly by Push len-h, Add h)
//	grow   0: Add regrows     1: Push regrows
//	after  what follows the regrowth: 0 drain; 1 refill exactly, regrow from the other end, drain;
//	       2 drain to an eighth..half by the same end, observe, refill exactly, regrow, drain
func scaleCase(w *tr.W, r *tr.Rand, size, from int, depth string, how, grow, after int, obsBefore bool) {
	init := "z"
	if from == 0 {
		init = "s" + strconv.Itoa(size)
	}
	s := newBSess(init)
	fresh := from == 0 && how == 1 // a fresh preallocated ring: filled directly by Push len-h, Add h
	if !fresh {
		s.growTo(r, size, map[int]int{0: 0, 1: 0, 2: 2}[from])
	}
	_, _, l := s.state()
	h := 0
	switch depth {
	case "0":
	case "1":
		h = 1
	case "n/4":
		h = l / 4
	case "n/2":
		h = l / 2
	case "3n/4":
		h = 3 * l / 4
	case "n-1":
		h = l - 1
	case "added-1", "added", "added+1":
		h = probeGrowth(l) + map[string]int{"added-1": -1, "added": 0, "added+1": 1}[depth]
	default: // random
		h = r.Intn(l + 1)
	}
	if h >= l {
		h = l - 1
	}
	if h < 0 {
		h = 0
	}
	if fresh {
		s.pushes(l - h)
		s.adds(h)
	} else {
		s.setHead(h, how)
	}
	j := l - h // offset of the element at index 0 of the old buffer (the wrap point) when h > 0
	if obsBefore {
		s.obs(j)
	}
	if grow == 0 {
		s.adds(1)
	} else {
		s.pushes(1)
		j++
	}
	s.obs(j)
	switch after {
	case 1:
		s.fillExact(r, r.Intn(3))
		s.obs(j)
		if grow == 0 {
			s.pushes(1)
		} else {
			s.adds(1)
		}
		s.obs(j + 1 - grow)
	case 2:
		_, n, _ := s.state()
		keep := r.Range(n/8, n/2)
		if r.Bool() {
			s.pops(n - keep)
		} else {
			s.popLasts(n - keep)
		}
		s.obs(keep / 2)
		s.fillExact(r, r.Intn(3))
		if r.Bool() {
			s.adds(1)
		} else {
			s.pushes(1)
		}
		_, n, _ = s.state()
		s.obs(n - keep)
	}
	s.drainBoth(r, after == 0)
	s.emit(w, "scale", "scale-size-"+sizeClass(size), "scale-head-depth-"+depth,
		"scale-from-"+map[int]string{0: "NewSize", 1: "zero-value", 2: "zero-value"}[from],
		"scale-regrow-by-"+map[int]string{0: "add", 1: "push"}[grow])
}

func sizeClass(size int) string {
	switch {
	case size < 200:
		return "below-200"
	case size < 300:
		return "255..257"
	case size < 600:
		return "511..513"
	case size < 1100:
		return "1000..1025"
	case size < 3000:
		return "2047..2049"
	case size < 5000:
		return "4095..4097"
	case size < 20000:
		return "8191..8193"
	}
	return "2^15..2^16+1"
}

var depths = []string{"0", "1", "n/4", "n/2", "3n/4", "n-1"}
var probeDepths = []string{"added-1", "added", "added+1", "random"}

// genScale: buffers of 2^k-1, 2^k, 2^k+1 slots (and 1000), from NewSize and grown from the zero
// value, exactly full with the head at every interesting depth, regrown from either end, fully
// observed, drained from both ends; grow-drain-regrow cycles.
//
// The extracted model works on lists: replaying a history on n slots costs about 50 n^2 list steps
// (a third of a second at n = 1000, five seconds at n = 4096).  So the number of big cases is
// limited per tier, not their size.  The thorough tier runs the whole product
// size x depth x regrowing end x origin up to 1025 slots (the probing depths with two of the four
// pairs), a quarter of it for 2047..2049, an eighth for 4095..4097 and two cases of 8191..8193; the quick tier runs, for every size of 255..257 and
// 511..513 and every depth, ONE case whose (regrowing end, origin) pair walks through the four
// pairs as the depth changes, one case per depth for 1000/1023/1024/1025 taking turns, and a
// seed-dependent one of 2047..2049 and one of 4095..4097.
func genScale(o *tr.Opts, w *tr.W, r *tr.Rand) {
	// sizes up to 129 (cheap)
	for _, size := range []int{3, 4, 5, 7, 8, 9, 15, 16, 17, 31, 32, 33, 63, 64, 65, 127, 128, 129} {
		for _, d := range depths {
			for grow := 0; grow < 2; grow++ {
				if size > 40 && !o.Thorough() && !r.Chance(1, 2) {
					continue
				}
				scaleCase(w, r, size, r.Intn(3), d, r.Intn(2), grow, r.Intn(3), r.Bool())
			}
		}
	}
	// around the 2x -> 1.25x switch of append and above
	allDepths := append(append([]string{}, depths...), probeDepths...)
	one := func(size, di, pair int) {
		grow, from := pair&1, pair>>1
		if from == 1 && r.Chance(1, 3) {
			from = 2
		}
		after, how := r.Intn(3), r.Intn(2)
		if !o.Thorough() && (size >= 1000 || size >= 500 && !r.Chance(1, 5)) {
			after = 0
		}
		scaleCase(w, r, size, from, allDepths[di], how, grow, after, size < 300 && r.Chance(1, 3))
	}
	if o.Thorough() {
		for _, size := range []int{255, 256, 257, 511, 512, 513, 1000, 1023, 1024, 1025} {
			for di := range allDepths {
				for pair := 0; pair < 4; pair++ {
					if di >= len(depths) && pair != (di+size)%4 && pair != (di+size+1+r.Intn(3))%4 {
						continue // the probing depths: two of the four pairs
					}
					one(size, di, pair)
				}
			}
		}
	} else {
		for si, size := range []int{255, 256, 257, 511, 512, 513} {
			rot := r.Intn(4)
			for di := range allDepths {
				if di >= len(depths) && !r.Chance(1, 3) {
					continue
				}
				one(size, di, (di+si+rot)%4)
			}
		}
		// 1000, 1023, 1024, 1025: the sizes take turns as the depth changes
		cls := []int{1000, 1023, 1024, 1025}
		rot, rot2 := r.Intn(4), r.Intn(4)
		for di := range depths {
			one(cls[(di+rot)%4], di, (di+rot2)%4)
		}
		one(tr.Pick(r, cls), len(depths)+r.Intn(len(probeDepths)), r.Intn(4))
	}
	// big: 2047..2049, 4095..4097 (and 8191..8193, two random large ones in the thorough tier)
	type bigCase struct {
		size, pair int
		d          string
	}
	var mids, bigs, huge []bigCase
	for _, d := range depths {
		for pair := 0; pair < 4; pair++ {
			for _, size := range []int{2047, 2048, 2049} {
				mids = append(mids, bigCase{size, pair, d})
			}
			for _, size := range []int{4095, 4096, 4097} {
				bigs = append(bigs, bigCase{size, pair, d})
			}
			for _, size := range []int{8191, 8192, 8193} {
				huge = append(huge, bigCase{size, pair, d})
			}
		}
	}
	pickN := func(cs []bigCase, k int) []bigCase {
		for i := len(cs) - 1; i > 0; i-- {
			j := r.Intn(i + 1)
			cs[i], cs[j] = cs[j], cs[i]
		}
		if k > len(cs) {
			k = len(cs)
		}
		return cs[:k]
	}
	var chosen []bigCase
	chosen = append(chosen, pickN(mids, o.Scale(1, 18))...)
	chosen = append(chosen, pickN(bigs, o.Scale(1, 9))...)
	if o.Thorough() {
		chosen = append(chosen, pickN(huge, 2)...)
		chosen = append(chosen, bigCase{r.Range(2500, 7000), r.Intn(4), tr.Pick(r, depths)}, bigCase{r.Range(2500, 7000), r.Intn(4), "random"})
	}
	for _, c := range chosen {
		after, how := 0, 0
		if c.size < 3000 && o.Thorough() {
			after, how = r.Intn(3), r.Intn(2)
		}
		from := c.pair >> 1
		if !o.Thorough() && c.size > 3000 {
			from, how = 0, 1 // the cheapest way to an exactly full ring of that size (from the zero value it would have 5120 slots)
		}
		scaleCase(w, r, c.size, from, c.d, how, c.pair&1, after, false)
	}
	// sparse and wrapped: a preallocated ring filled from both ends so that the contents wrap around
	// the end of the buffer (Push walks the head down from len-1), observed, then drained in
	// stages by either end to just below a half, a quarter, an eighth of the buffer -- the
	// occupancies at which a buffer might be compacted -- with every observer on what remains at
	// every stage; then (sometimes) refilled exactly and regrown
	sparse := []int{255, 256, 257, 511, 512, 513, 1000, 1023, 1024, 1025}
	if o.Thorough() {
		sparse = append(sparse, 2047, 2048, 2049, 4095, 4096, 4097)
	} else {
		sparse = append(sparse, r.Range(2047, 2049))
	}
	for _, size := range sparse {
		reps := o.Scale(1, 6)
		if size > 1025 {
			reps = 1
		}
		for rep := 0; rep < reps; rep++ {
			s := newBSess("s" + strconv.Itoa(size))
			a := size / 2 // pushed: they occupy [size-a, size)
			if rep%2 == 1 {
				a = r.Range(1, size-1)
			}
			b := r.Range((size-a)/2, size-a) // added: they occupy [0, b)
			if r.Bool() {
				s.pushes(a)
				s.adds(b)
			} else { // the same layout reached in the other order (Add first: index 0 upwards)
				s.adds(b)
				s.pushes(a)
			}
			if size <= 600 || r.Chance(1, 3) {
				s.obs(a)
			}
			for _, frac := range []int{2, 4, 8} {
				_, n, l := s.state()
				target := l/frac - 1
				if n <= target {
					continue
				}
				k := n - target
				h, _, _ := s.state()
				fp := l - h  // elements in front of the wrap point (only meaningful when wrapped)
				bp := n - fp // elements behind it
				lo, hi := max(0, k-bp+1), min(k, fp-1)
				switch x := r.Intn(6); {
				case h+n > l && lo <= hi && x < 4: // keep the contents wrapped: take from both parts
					x := r.Range(lo, hi)
					if r.Bool() {
						s.pops(x)
						s.popLasts(k - x)
					} else {
						s.popLasts(k - x)
						s.pops(x)
					}
				case x == 4:
					s.pops(k)
				default:
					s.popLasts(k)
				}
				h, n, l = s.state()
				if n > 0 && h+n > l {
					s.tags["big-sparse-wrapped-below-1/"+strconv.Itoa(frac)] = true
				}
				s.obs(l - h)
				if frac == 4 && r.Chance(1, 3) { // back up a little: churn around the threshold
					s.adds(r.Range(1, 3))
					s.pushes(r.Range(1, 3))
					s.pops(r.Range(1, 4))
				}
			}
			if r.Chance(1, 3) && size <= 1025 {
				s.fillExact(r, r.Intn(3))
				if r.Bool() {
					s.adds(1)
				} else {
					s.pushes(1)
				}
				h, _, l := s.state()
				s.obs(l - h)
			}
			s.drainBoth(r, false)
			s.emit(w, "scale", "scale-sparse-wrapped", "scale-size-"+sizeClass(size))
		}
	}
	// grow-drain-regrow cycles from the zero value: grow to N from both ends, drain to N/8..N/2,
	// observe everything, refill past the next regrowth, observe, several times, then drain
	for i := 0; i < o.Scale(7, 60); i++ {
		size := tr.Pick(r, []int{255, 256, 257, 300})
		rounds := 2
		if o.Thorough() {
			size = tr.Pick(r, []int{255, 256, 257, 300, 511, 512, 513, 700, 1000, 1023, 1024, 1025, r.Range(200, 1600)})
			rounds = r.Range(2, 3)
		} else if i == 0 {
			size = r.Range(511, 513)
		}
		s := newBSess(tr.Pick(r, []string{"z", "n", "s0", "s100", "s" + strconv.Itoa(size/2)}))
		s.growTo(r, size, r.Intn(3))
		for c := 0; c < rounds; c++ {
			_, n, _ := s.state()
			keep := r.Range(n/8, n/2)
			switch r.Intn(3) {
			case 0:
				s.pops(n - keep)
			case 1:
				s.popLasts(n - keep)
			default:
				x := r.Range(0, n-keep)
				s.pops(x)
				s.popLasts(n - keep - x)
			}
			s.obs(keep / 2)
			h0, _, l0 := s.state()
			s.fillExact(r, r.Intn(3))
			if r.Bool() {
				s.adds(1)
			} else {
				s.pushes(1)
			}
			if r.Bool() {
				s.adds(r.Range(1, 5))
			}
			s.obs(l0 - h0)
		}
		if r.Chance(1, 4) {
			s.clear()
			s.growTo(r, 256, r.Intn(3))
			s.obs(0)
		}
		s.drainBoth(r, true)
		s.emit(w, "scale", "scale-grow-drain-regrow")
	}
	genExact(o, w, r)
}

// genExact: X lines (see xMode) -- exactly 2^15-1, 2^15, 2^15+1, 2^16-1, 2^16, 2^16+1 slots, from
// NewSize and grown from the zero value, the head at a depth that walks through all of them,
// regrown by Add and by Push, observed on the whole contents, drained; one sparse-and-wrapped
// history per size and one grow-drain-regrow history per power.  Quick tier: two of them.
func genExact(o *tr.Opts, w *tr.W, r *tr.Rand) {
	xMode = true
	defer func() { xMode = false }()
	allDepths := append(append([]string{}, depths...), probeDepths...)
	sizes := []int{32767, 32768, 32769, 65535, 65536, 65537}
	k := r.Intn(len(allDepths))
	if !o.Thorough() {
		scaleCase(w, r, 32768, 0, allDepths[k], 1, r.Intn(2), r.Intn(3), false)
		scaleCase(w, r, 65537, 1, allDepths[(k+3)%len(allDepths)], 0, r.Intn(2), 0, false)
		return
	}
	for _, size := range sizes {
		for pair := 0; pair < 4; pair++ {
			k++
			from := pair >> 1
			if from == 1 && r.Chance(1, 3) {
				from = 2
			}
			scaleCase(w, r, size, from, allDepths[k%len(allDepths)], r.Intn(2), pair&1, k%3, r.Chance(1, 3))
		}
		// sparse and wrapped, drained in stages below 1/2, 1/4, 1/8
		s := newBSess("s" + strconv.Itoa(size))
		a := r.Range(size/4, size/2)
		b := r.Range((size-a)/2, size-a)
		s.pushes(a)
		s.adds(b)
		s.obs(a)
		for _, frac := range []int{2, 4, 8} {
			_, n, l := s.state()
			if target := l/frac - 1; n > target {
				x := r.Range(0, n-target)
				s.pops(x)
				s.popLasts(n - target - x)
				h, _, _ := s.state()
				s.obs(l - h)
			}
		}
		s.fillExact(r, r.Intn(3))
		s.adds(1)
		s.drainBoth(r, true)
		s.emit(w, "scale", "scale-sparse-wrapped", "scale-size-"+sizeClass(size))
	}
	for _, size := range []int{32768, 65536} {
		s := newBSess(tr.Pick(r, []string{"z", "n", "s0", "s" + strconv.Itoa(size/2)}))
		s.growTo(r, size, r.Intn(3))
		for c := 0; c < 2; c++ {
			_, n, _ := s.state()
			keep := r.Range(n/8, n/2)
			x := r.Range(0, n-keep)
			s.pops(x)
			s.popLasts(n - keep - x)
			s.obs(keep / 2)
			h0, _, l0 := s.state()
			s.fillExact(r, r.Intn(3))
			s.pushes(1)
			s.obs(l0 - h0)
		}
		s.drainBoth(r, true)
		s.emit(w, "scale", "scale-grow-drain-regrow", "scale-size-"+sizeClass(size))
	}
}
