// T lines: queue.Queue instantiated at element types of other SIZES and KINDS than int
// (round 5).  The line syntax, the operations and the records are those of H lines; only the
// first word differs and names the instantiation:
//
//	Tb byte (1 byte)      To bool (1)          Th int16 (2)       Tt [3]byte (3, an odd size)
//	Tf float32 (4)        Tp *int (8, pointer) Ts string (16)     Tw struct of five int64 (40)
//
// Elements travel through the trace as CODES: 0 is the zero value of the type, code c > 0 is
// mapped to a value by the codec below and mapped back when an observer returns it (a value the
// codec never made -- e.g. half of a struct -- decodes to -424242).  Codes are 1,2,3,… in order of
// insertion, cycling where the type is small (byte: 1..250, bool: 1, int16: 1..30000).  The model
// is polymorphic in the element type, so the driver replays a T line exactly as an H line on the
// codes; what differs per type is what the Go runtime does -- above all the capacity append
// chooses (byte: 0->8->16, [3]byte: 0->2->5->10->21, *int: …64->143, the struct: …32->67), which
// stays an ORACLE annotation (a<v>^<cap>) read through the verif hook, as on H lines.
//
// Op e (H and T lines): re-entrant and interleaved iteration.  One call q.Each(f) whose callback,
// at EVERY element, calls back into the same queue -- Len, IsEmpty, Front, Peek(i), Peek(-1), a
// complete nested q.Each, Slice -- and then two iter.Pull iterators over q.Each alive at once,
// the first advanced by one element per round and the second by two (Len is called in between).
// The return value shows all of it (each traversal must yield what it would yield alone):
//
//	E<v_i>(<Len>,<IsEmpty>,<Front>,<Peek(i)>,<Peek(-1)>,<nested Each>,<Slice>)+…|<pulled A>|<pulled B>
//
// sequences as v~v~v ("." when empty).
package main

import (
	"iter"
	"strconv"
	"strings"

	"github.com/creachadair/mds/queue"
	"verif/harness/internal/elem"
	"verif/harness/internal/tr"
)

var intCodec = elem.Int

func decAll[T any](dec func(T) int, xs []T) []int { return elem.DecAll(dec, xs) }

// seqText: v~v~v, "." when empty.
func seqText(xs []int) string {
	if len(xs) == 0 {
		return "."
	}
	out := make([]string, len(xs))
	for i, x := range xs {
		out[i] = strconv.Itoa(x)
	}
	return strings.Join(out, "~")
}

// reentrant: op e (see the head of this file).
func reentrant[T any](q *queue.Queue[T], dec func(T) int) string {
	var parts []string
	i := 0
	q.Each(func(v T) bool {
		var b strings.Builder
		b.WriteString(strconv.Itoa(dec(v)))
		b.WriteByte('(')
		b.WriteString(strconv.Itoa(q.Len()) + "," + tr.B(q.IsEmpty()) + "," + strconv.Itoa(dec(q.Front())) + ",")
		x, ok := q.Peek(i)
		b.WriteString(peekText(dec(x), ok) + ",")
		x, ok = q.Peek(-1)
		b.WriteString(peekText(dec(x), ok) + ",")
		var inner []int
		q.Each(func(w T) bool { inner = append(inner, dec(w)); return true })
		b.WriteString(seqText(inner) + ",")
		b.WriteString(seqText(decAll(dec, q.Slice())))
		b.WriteByte(')')
		parts = append(parts, b.String())
		i++
		return true
	})
	// two pulled iterations of the same queue alive at once
	nextA, stopA := iter.Pull(iter.Seq[T](q.Each))
	nextB, stopB := iter.Pull(iter.Seq[T](q.Each))
	defer stopA()
	defer stopB()
	var as, bs []int
	for doneA, doneB := false, false; !doneA || !doneB; {
		if !doneA {
			if v, ok := nextA(); ok {
				as = append(as, dec(v))
			} else {
				doneA = true
			}
		}
		_ = q.Len()
		for k := 0; k < 2 && !doneB; k++ {
			if v, ok := nextB(); ok {
				bs = append(bs, dec(v))
			} else {
				doneB = true
			}
		}
	}
	return "E" + strings.Join(parts, "+") + "|" + seqText(as) + "|" + seqText(bs)
}

// ---- the kinds ----

type emitter interface{ emit(w *tr.W, tags ...string) }

type kindOps struct {
	name   string
	replay func(in string) emitter
	gen    func(o *tr.Opts, w *tr.W, r *tr.Rand)
}

func mkKind[T any](name string, cd elem.Codec[T]) kindOps {
	return kindOps{name: name,
		replay: func(in string) emitter { return replayT(name, cd, in) },
		gen:    func(o *tr.Opts, w *tr.W, r *tr.Rand) { genTyped(name, cd, o, w, r) }}
}

var kinds = []kindOps{
	mkKind("H", elem.Int), mkKind("Tb", elem.Byte), mkKind("To", elem.Bool), mkKind("Th", elem.I16), mkKind("Tt", elem.B3),
	mkKind("Tf", elem.F32), mkKind("Tp", elem.Ptr), mkKind("Ts", elem.Str), mkKind("Tw", elem.WideC),
}

func kindOf(name string) *kindOps {
	for i := range kinds {
		if kinds[i].name == name {
			return &kinds[i]
		}
	}
	return nil
}

// ---- generators (run for every kind, int included) ----

var typedInits = []string{"z", "n", "s0", "s1", "s2", "s3", "s4", "s5", "s7", "s8", "s9", "s16", "s17"}

// insert: one insertion at the chosen end (0 back, 1 front, 2 either).
func insert[T any](s *sess[T], r *tr.Rand, end int) {
	if end == 0 || end == 2 && r.Bool() {
		s.add()
	} else {
		s.push()
	}
}

// drainHow: 0 Pop, 1 PopLast, 2 alternating, 3 random; down to `keep` elements.
func drainTo[T any](s *sess[T], r *tr.Rand, how, keep int) {
	for i := 0; i < 2000 && !s.dead; i++ {
		_, n, _ := s.state()
		if n <= keep {
			return
		}
		switch {
		case how == 0, how == 2 && i%2 == 0, how == 3 && r.Bool():
			s.pop()
		default:
			s.popLast()
		}
	}
}

// onEmpty: every observer is in every record already; ask both ends once more, Peek at the
// offsets nearest to 0, and the re-entrant traversal of the empty queue.
func onEmpty[T any](s *sess[T], r *tr.Rand) {
	switch r.Intn(4) {
	case 0:
		s.pop()
	case 1:
		s.popLast()
	case 2:
		s.peek(0)
		s.peek(-1)
	case 3:
		s.each()
	}
}

func genTyped[T any](kind string, cd elem.Codec[T], o *tr.Opts, w *tr.W, r *tr.Rand) {
	typed := kind != "H"
	tag := func(t string) string { return "typed:" + t }

	// T1. every constructor x first insertion by Push or Add x how much more goes in (nothing,
	//     one, exactly to the capacity the first insertion produced, one beyond it) x drain by
	//     Pop, PopLast, alternating x everything observed on the drained queue x reuse from the
	//     other end x Clear x reuse again (the storage is gone: first insertion once more).
	for _, in := range typedInits {
		for first := 0; first < 2; first++ {
			for more := 0; more < 4; more++ {
				for dr := 0; dr < 3; dr++ {
					if !o.Thorough() && typed && !r.Chance(2, 3) {
						continue
					}
					s := newSessT(kind, cd, in)
					insert(s, r, first)
					_, n, l := s.state()
					k := []int{0, 1, l - n, l - n + 1}[more]
					if more >= 2 && k <= 1 {
						k = more // capacity 1: "to capacity" and "one beyond" are 0 and 1 more; take 2 and 3
					}
					for i := 0; i < k && i < 40; i++ {
						insert(s, r, 2)
					}
					if _, n, _ := s.state(); n <= 6 && r.Chance(1, 3) {
						s.each()
					}
					drainTo(s, r, dr, 0)
					s.tags["drained-after-first-"+[]string{"add", "push"}[first]+"-by-"+[]string{"pop", "poplast", "both"}[dr]] = true
					onEmpty(s, r)
					// reuse from the other end
					insert(s, r, 1-first)
					if r.Bool() {
						insert(s, r, 2)
					}
					drainTo(s, r, r.Intn(4), 0)
					s.clear()
					onEmpty(s, r)
					insert(s, r, r.Intn(2))
					insert(s, r, 2)
					drainTo(s, r, 1-dr%2, 0)
					onEmpty(s, r)
					s.emit(w, tag("ctor-first-drain-reuse"))
				}
			}
		}
	}

	// T2. every history over {Add, Push, Pop, PopLast, Clear} up to a length (H lines have their
	//     own, longer, enumeration in gen)
	if typed {
		for _, in := range []string{"z", "s1", "n", "s0", "s2"} {
			maxLen := o.Scale(3, 4)
			if in == "z" {
				maxLen = o.Scale(5, 6)
			} else if in == "s1" {
				maxLen = o.Scale(4, 5)
			}
			var rec func(prefix []byte)
			rec = func(prefix []byte) {
				if len(prefix) > 0 {
					s := newSessT(kind, cd, in)
					for _, c := range prefix {
						switch c {
						case 'a':
							s.add()
						case 'u':
							s.push()
						default:
							s.do(c, 0)
						}
					}
					s.emit(w, tag("exhaustive-small"))
				}
				if len(prefix) == maxLen {
					return
				}
				for _, c := range []byte("auplc") {
					rec(append(prefix[:len(prefix):len(prefix)], c))
				}
			}
			rec(nil)
		}
	}

	// T3. the capacities THIS type gets from append (read through the hook): from no storage
	//     (zero value, New, NewSize(0), after Clear) grown by Add or by Push through the first
	//     regrowths; at a chosen stage the full ring's head is moved into the middle (Pop h +
	//     Add h, or emptied + Push len-h + Add h), the ring regrown by Add or Push, observed
	//     (also re-entrantly), drained by either end or both, asked again when empty, reused.
	maxSlots := o.Scale(21, 72)
	for _, in := range []string{"z", "n", "s0", "c"} {
		for first := 0; first < 2; first++ {
			for stage := 1; stage <= 6; stage++ {
				for hsel := 0; hsel < 3; hsel++ {
					for how := 0; how < 2; how++ {
						for grow := 0; grow < 2; grow++ {
							// the model replays a record in time quadratic in the contents: the quick tier
							// takes one in 4 of the product for int, one in 3 for [3]byte, one in 10 for each other type (72
							// types x origins x ends per stage), the later stages half as often
							den := map[bool]int{false: 4, true: 10}[typed]
							if kind == "Tt" {
								den = 3 // [3]byte: the capacities 2, 5, 10, 21 are the non-powers of two within reach
							}
							if !o.Thorough() && (!r.Chance(1, den) || stage > 3 && kind != "Tt" && r.Bool()) {
								continue
							}
							if o.Thorough() && !r.Chance(1, 12) { // a twelfth of the product, buffers up to ~100 slots
								continue
							}
							var s *sess[T]
							if in == "c" {
								s = newSessT(kind, cd, "s3")
								s.add()
								s.push()
								s.clear()
							} else {
								s = newSessT(kind, cd, in)
							}
							// grow to the stage-th distinct capacity, exactly full
							insert(s, r, first)
							for st := 1; !s.dead; {
								_, n, l := s.state()
								if n == l {
									if st == stage || l > maxSlots {
										break
									}
									st++
								}
								insert(s, r, first)
							}
							_, _, l := s.state()
							if l > maxSlots+maxSlots/2 || l < 2 {
								continue
							}
							h := []int{1, l / 2, l - 1}[hsel]
							if how == 0 {
								h0, _, _ := s.state()
								k := ((h-h0)%l + l) % l // pops that bring the head to index h
								for i := 0; i < k; i++ {
									s.pop()
								}
								for i := 0; i < k; i++ {
									s.add()
								}
							} else {
								drainTo(s, r, r.Intn(2), 0)
								for i := 0; i < l-h; i++ {
									s.push()
								}
								for i := 0; i < h; i++ {
									s.add()
								}
							}
							insert(s, r, grow) // full with head == h: rotate, then append
							s.tags["typed-regrow-at-"+strconv.Itoa(l)] = true
							if l <= 10 {
								s.each()
							}
							if r.Bool() {
								s.extremePeeks(r)
							}
							drainTo(s, r, r.Intn(4), r.Intn(3))
							fillTo(s, r, 2)
							insert(s, r, 1-grow)
							drainTo(s, r, r.Intn(4), 0)
							onEmpty(s, r)
							insert(s, r, r.Intn(2))
							s.emit(w, tag("natural-capacities"))
						}
					}
				}
			}
		}
	}

	// T4. random mixes with Clear and the re-entrant traversal mid-way
	for i := 0; i < o.Scale(60, 400); i++ {
		s := newSessT(kind, cd, tr.Pick(r, typedInits))
		nops := r.Range(8, o.Scale(40, 60))
		limit := r.Range(2, o.Scale(12, 24))
		pIns := r.Range(35, 65)
		for j := 0; j < nops && !s.dead; j++ {
			_, n, _ := s.state()
			x := r.Intn(100)
			switch {
			case r.Chance(1, 25):
				s.clear()
			case r.Chance(1, 30):
				s.extremePeeks(r)
			case n <= 8 && r.Chance(1, 12):
				s.each()
			case x < pIns && n <= limit:
				insert(s, r, 2)
			default:
				if r.Chance(1, 2) {
					s.pop()
				} else {
					s.popLast()
				}
			}
		}
		s.emit(w, tag("random-mix"))
	}
}
