// Big trees for C02 (round 3).  One case per line:
//
//	B <β> <macro>;<macro>;...  |  <item>;<item>;...
//
// A macro stands for many calls; its keys are an arithmetic key sequence (the OCaml driver expands it
// the same way), so the input stays short however big the trees are.  Trees are numbered in order of
// creation (N, K and C); all have balance factor β.
//
// key sequence <ks>:
//
//	<pat>,<lo>,<step>,<n>,<rep>,<take>,<seed>   the first <take> of the indices 0..n-1 in the order <pat>
//	        (a ascending, d descending, z outside-in 0,n-1,1,n-2,.., i inside-out = z reversed,
//	        r a permutation drawn from an LCG with <seed>); index j stands for key lo+step*(j/rep)
//	e,<k>,<k>,...                               the keys as listed
//
// macros and their items (seq: see below):
//
//	N            stree.New(β, cmp)                       <Len>,<height>/<cp>
//	K:<ks>       stree.New(β, cmp, keys...)              <Len>,<height>/<cp>
//	C<t>         Clone of tree t                         <Len>,<height>/<cp>
//	C<t>:<how>   the same, the Clone taken from inside a traversal callback of t (round7.go)
//	X<t>         Clear                                   <Len>,<height>/<cp>
//	A<t>:<ks>  P<t>:<ks>  D<t>:<ks>   Add / Replace / Remove of every key of the sequence, in order:
//	             <res>,<len>,<h>,<c>,<dc>/<cp>/<cp>...   five seqs with one entry per call, taken after
//	             the call: the result, Len, the height (depth of the deepest key below the root, -1 =
//	             empty; read off the node pointers by the hook VerifHeightDeepest: one cheap pass), the
//	             number of comparisons Get(the key just used) makes, and the number Get(the deepest key)
//	             makes (0 in an empty tree).  One /<cp> per checkpoint: after every ceil(m/8)-th call (at
//	             least 4 apart) and after the last one.
//	G<t>:<ks>    Get of every key                        <found>,<c>   two seqs
//	cp           one entry per live tree, '+'-separated: <Len>:<hook height>:<height measured through
//	             Tree.Root and Cursor.HasLeft/Left/HasRight/Right/Up>:<digest of the preorder shape, read
//	             through the same cursor walk>
//
// seq (sequences of small integers): '.'-separated tokens; <v> one value, <v>x<c> the value c times,
// +<c> / -<c> c values each one more / one less than its predecessor; a negative value is written ~<abs>.
package main

import (
	"fmt"
	"sort"
	"strconv"
	"strings"
	"time"

	"github.com/creachadair/mds/stree"
	"verif/harness/internal/tr"
)

// ---------------------------------------------------------------- key sequences, seq, digest (mirrored in ocaml/streeheight_driver.ml)

type lcg struct{ x int64 }

func (l *lcg) next() int {
	l.x = (l.x*1103515245 + 12345) % 2147483648
	return int(l.x >> 8)
}

func permOf(n, seed int) []int {
	p := make([]int, n)
	for i := range p {
		p[i] = i
	}
	l := &lcg{x: int64(((seed % 2147483648) + 2147483648) % 2147483648)}
	for i := n - 1; i > 0; i-- {
		j := l.next() % (i + 1)
		p[i], p[j] = p[j], p[i]
	}
	return p
}

func orderIdx(pat byte, n, seed int) []int {
	out := make([]int, 0, n)
	switch pat {
	case 'a':
		for i := 0; i < n; i++ {
			out = append(out, i)
		}
	case 'd':
		for i := n - 1; i >= 0; i-- {
			out = append(out, i)
		}
	case 'z', 'i':
		lo, hi := 0, n-1
		for lo <= hi {
			out = append(out, lo)
			if lo != hi {
				out = append(out, hi)
			}
			lo++
			hi--
		}
		if pat == 'i' {
			for a, b := 0, len(out)-1; a < b; a, b = a+1, b-1 {
				out[a], out[b] = out[b], out[a]
			}
		}
	case 'r':
		return permOf(n, seed)
	default:
		return nil
	}
	return out
}

const maxSeq = 1 << 16

type ks struct {
	pat                          byte
	lo, step, n, rep, take, seed int
	list                         []int // pat == 'e'
}

func (k ks) String() string {
	if k.pat == 'e' {
		s := "e"
		for _, x := range k.list {
			s += "," + strconv.Itoa(x)
		}
		return s
	}
	return fmt.Sprintf("%c,%d,%d,%d,%d,%d,%d", k.pat, k.lo, k.step, k.n, k.rep, k.take, k.seed)
}

func (k ks) keys() []int {
	if k.pat == 'e' {
		return k.list
	}
	idx := orderIdx(k.pat, k.n, k.seed)
	out := make([]int, 0, k.take)
	for _, j := range idx[:k.take] {
		out = append(out, k.lo+k.step*(j/k.rep))
	}
	return out
}

func seqOf(pat byte, lo, step, n int) ks {
	return ks{pat: pat, lo: lo, step: step, n: n, rep: 1, take: n}
}

func absInt(a int) int {
	if a < 0 {
		return -a
	}
	return a
}

func parseKS(s string) (ks, bool) {
	f := strings.Split(s, ",")
	if len(f) == 0 || len(f[0]) != 1 {
		return ks{}, false
	}
	if f[0] == "e" {
		k := ks{pat: 'e'}
		if len(f) > maxSeq {
			return ks{}, false
		}
		for _, x := range f[1:] {
			v, err := strconv.Atoi(x)
			if err != nil {
				return ks{}, false
			}
			k.list = append(k.list, v)
		}
		return k, true
	}
	if len(f) != 7 || !strings.Contains("adzir", f[0]) {
		return ks{}, false
	}
	var v [6]int
	for i := range v {
		x, err := strconv.Atoi(f[i+1])
		if err != nil {
			return ks{}, false
		}
		v[i] = x
	}
	k := ks{pat: f[0][0], lo: v[0], step: v[1], n: v[2], rep: v[3], take: v[4], seed: v[5]}
	if k.n < 0 || k.n > maxSeq || k.rep < 1 || k.take < 0 || k.take > k.n || absInt(k.lo) > 1<<40 || absInt(k.step) > 1<<20 {
		return ks{}, false
	}
	return k, true
}

func encSeq(xs []int) string {
	if len(xs) == 0 {
		return "."
	}
	num := func(v int) string {
		if v < 0 {
			return "~" + strconv.Itoa(-v)
		}
		return strconv.Itoa(v)
	}
	var toks []string
	i := 0
	for i < len(xs) {
		if i > 0 && (xs[i] == xs[i-1]+1 || xs[i] == xs[i-1]-1) {
			d := xs[i] - xs[i-1]
			j := i
			for j < len(xs) && xs[j] == xs[j-1]+d {
				j++
			}
			sign := "+"
			if d < 0 {
				sign = "-"
			}
			toks = append(toks, sign+strconv.Itoa(j-i))
			i = j
			continue
		}
		j := i
		for j < len(xs) && xs[j] == xs[i] {
			j++
		}
		if j-i == 1 {
			toks = append(toks, num(xs[i]))
		} else {
			toks = append(toks, num(xs[i])+"x"+strconv.Itoa(j-i))
		}
		i = j
	}
	return strings.Join(toks, ".")
}

type hash struct{ a, b int64 }

func (h *hash) feed(v int) {
	x := int64(v)
	if x < 0 {
		x = -x + 1<<20
	}
	x %= 1 << 30
	h.a = (h.a*31337 + x + 7) % 2147483647
	h.b = (h.b*65599 + x + 13) % 2147483629
}
func (h *hash) String() string { return fmt.Sprintf("%x.%x", h.a, h.b) }

// walk reads the tree with one cursor: the height and a digest of the preorder (1,key for a node, 0
// for a missing child; 0 alone for the empty tree).
func walk(t *stree.Tree[int]) (int, string) {
	var h hash
	c := t.Root()
	if c == nil {
		h.feed(0)
		return -1, h.String()
	}
	best := 0
	var rec func(d int)
	rec = func(d int) {
		if d > best {
			best = d
		}
		if d > 1<<20 {
			panic("cycle")
		}
		h.feed(1)
		h.feed(c.Key())
		if c.HasLeft() {
			c.Left()
			rec(d + 1)
			c.Up()
		} else {
			h.feed(0)
		}
		if c.HasRight() {
			c.Right()
			rec(d + 1)
			c.Up()
		} else {
			h.feed(0)
		}
	}
	rec(0)
	return best, h.String()
}

// ---------------------------------------------------------------- the interpreter

type bigRun struct {
	β         int
	trees     []*stree.Tree[int]
	outs      []string
	bad       bool
	maxHeight int
	lowered   int // calls after which the height was lower than before (only a rebuild does that to an insertion)
}

func (b *bigRun) cp() string {
	parts := make([]string, len(b.trees))
	for i, t := range b.trees {
		hh, _, _ := stree.VerifHeightDeepest(t)
		ch, dg := walk(t)
		parts[i] = fmt.Sprintf("%d:%d:%d:%s", t.Len(), hh, ch, dg)
	}
	return strings.Join(parts, "+")
}

func (b *bigRun) tree(s string) *stree.Tree[int] {
	i, err := strconv.Atoi(s)
	if err != nil || i < 0 || i >= len(b.trees) {
		b.bad = true
		return nil
	}
	return b.trees[i]
}

func (b *bigRun) unitItem(t *stree.Tree[int]) {
	hh, _, _ := stree.VerifHeightDeepest(t)
	b.outs = append(b.outs, fmt.Sprintf("%d,%d/%s", t.Len(), hh, b.cp()))
}

func countGet(t *stree.Tree[int], k int) (bool, int) {
	ncmp = 0
	_, found := t.Get(k)
	return found, ncmp
}

func (b *bigRun) do(m string) {
	if m == "" {
		b.bad = true
		return
	}
	f := strings.Split(m[1:], ":")
	switch m[0] {
	case 'N':
		if m != "N" {
			b.bad = true
			return
		}
		t := stree.New(b.β, cmpInt)
		b.trees = append(b.trees, t)
		b.unitItem(t)
	case 'K':
		if len(f) != 2 || f[0] != "" {
			b.bad = true
			return
		}
		k, ok := parseKS(f[1])
		if !ok {
			b.bad = true
			return
		}
		arg := append([]int(nil), k.keys()...)
		t := stree.New(b.β, cmpInt, arg...)
		for i := range arg {
			arg[i] = -7777777
		}
		b.trees = append(b.trees, t)
		b.unitItem(t)
	case 'C', 'X':
		how := ""
		if m[0] == 'C' && len(f) == 2 && f[1] != "" && validHow(f[1]) {
			how = f[1]
		} else if len(f) != 1 {
			b.bad = true
			return
		}
		t := b.tree(f[0])
		if b.bad {
			return
		}
		if m[0] == 'C' {
			t = cloneVia(t, how)
			b.trees = append(b.trees, t)
		} else {
			t.Clear()
		}
		b.unitItem(t)
	case 'A', 'P', 'D':
		if len(f) != 2 {
			b.bad = true
			return
		}
		t := b.tree(f[0])
		k, ok := parseKS(f[1])
		if b.bad || !ok {
			b.bad = true
			return
		}
		keys := k.keys()
		every := max(4, (len(keys)+7)/8)
		res := make([]int, 0, len(keys))
		lens := make([]int, 0, len(keys))
		hs := make([]int, 0, len(keys))
		cs := make([]int, 0, len(keys))
		dcs := make([]int, 0, len(keys))
		var cps []string
		prev, _, _ := stree.VerifHeightDeepest(t)
		for j, x := range keys {
			var r bool
			switch m[0] {
			case 'A':
				r = t.Add(x)
			case 'P':
				r = t.Replace(x)
			default:
				r = t.Remove(x)
			}
			if r {
				res = append(res, 1)
			} else {
				res = append(res, 0)
			}
			lens = append(lens, t.Len())
			hh, deep, ok := stree.VerifHeightDeepest(t)
			hs = append(hs, hh)
			if hh > b.maxHeight {
				b.maxHeight = hh
			}
			if hh < prev && m[0] != 'D' {
				b.lowered++
			}
			prev = hh
			_, c := countGet(t, x)
			cs = append(cs, c)
			dc := 0
			if ok {
				_, dc = countGet(t, deep)
			}
			dcs = append(dcs, dc)
			if (j+1)%every == 0 || j == len(keys)-1 {
				cps = append(cps, b.cp())
			}
		}
		item := encSeq(res) + "," + encSeq(lens) + "," + encSeq(hs) + "," + encSeq(cs) + "," + encSeq(dcs)
		if len(cps) > 0 {
			item += "/" + strings.Join(cps, "/")
		}
		b.outs = append(b.outs, item)
	case 'G':
		if len(f) != 2 {
			b.bad = true
			return
		}
		t := b.tree(f[0])
		k, ok := parseKS(f[1])
		if b.bad || !ok {
			b.bad = true
			return
		}
		var fs, cs []int
		for _, x := range k.keys() {
			found, c := countGet(t, x)
			if found {
				fs = append(fs, 1)
			} else {
				fs = append(fs, 0)
			}
			cs = append(cs, c)
		}
		b.outs = append(b.outs, encSeq(fs)+","+encSeq(cs))
	default:
		b.bad = true
	}
}

func execBig(β int, prog string) string {
	if β < 0 || β > 1000 {
		return "?"
	}
	b := &bigRun{β: β}
	res := tr.Guard(bigWatchdog, func() {
		for _, m := range strings.Split(prog, ";") {
			b.do(m)
			if b.bad {
				return
			}
		}
	})
	if b.bad {
		return "?"
	}
	if res != "" {
		b.outs = append(b.outs, res)
	}
	return strings.Join(b.outs, ";")
}

// ---------------------------------------------------------------- generation

type big struct {
	g      *tr.G
	β      int
	ms     []string
	run    *bigRun
	broken bool
	hung   string // set when the steering copy ran away: the output of the line, not executed again
	tags   map[string]bool
}

func newBig(g *tr.G, β int) *big {
	return &big{g: g, β: β, run: &bigRun{β: β}, tags: map[string]bool{}}
}

func (b *big) add(m string) {
	b.ms = append(b.ms, m)
	if b.broken {
		return
	}
	before := len(b.run.outs)
	res := tr.Guard(bigWatchdog, func() { b.run.do(m) })
	if res == "hang" {
		// the run-away call keeps its goroutine; what the line had delivered before it is the output
		b.hung = strings.Join(append(append([]string(nil), b.run.outs[:before]...), "hang"), ";")
	}
	if res != "" || b.run.bad {
		b.broken = true
	}
}

// bigWatchdog: the biggest B line takes well under a second on the real package.
const bigWatchdog = 20 * time.Second

func (b *big) New() int      { b.add("N"); return len(b.run.trees) - 1 }
func (b *big) Bulk(k ks) int { b.add("K:" + k.String()); return len(b.run.trees) - 1 }
func (b *big) Clone(t int) int {
	b.add("C" + strconv.Itoa(t))
	b.tags["big-clone"] = true
	return len(b.run.trees) - 1
}
func (b *big) Clear(t int)                 { b.add("X" + strconv.Itoa(t)) }
func (b *big) op(letter byte, t int, k ks) { b.add(fmt.Sprintf("%c%d:%s", letter, t, k)) }

func sizeTag(n int) string {
	k := 0
	for 1<<(k+1) <= n+1 {
		k++
	}
	return fmt.Sprintf("big-size-2^%d", k)
}

func (b *big) emit(tags ...string) {
	for t := range b.tags {
		tags = append(tags, t)
	}
	for _, lim := range []int{16, 64, 256, 1000} {
		if b.run.maxHeight >= lim {
			tags = append(tags, fmt.Sprintf("big-height>=%d", lim))
		}
	}
	tags = append(tags, fmt.Sprintf("big-beta=%d", b.β))
	b.g.W.Count("big-height-lowered-by-insertion", b.run.lowered)
	sort.Strings(tags)
	in := "B " + strconv.Itoa(b.β) + " " + strings.Join(b.ms, ";")
	if b.hung != "" {
		b.g.W.Case(in, b.hung, true, tags...)
	} else {
		b.g.Emit(in, true, tags...)
	}
}

func probeSeq(r *tr.Rand, lo, step, n, m int) ks {
	total := step*n + 2*step + 1
	return ks{pat: 'r', lo: lo - step, step: 1, n: total, rep: 1, take: min(m, total), seed: r.Intn(1 << 30)}
}

// genGrowDrain: grow to n keys (Add or Replace), drain to n/f by Remove (the peak P stays), regrow at
// one end (adversarial: the limit is now the one of the smaller size, the bound still the one of the
// peak) or over the old range, drain to empty by Remove (P restarts), regrow in the adversarial order.
func genGrowDrain(g *tr.G, n, β int, pat byte, cheapRegrow bool) {
	r := g.R
	b := newBig(g, β)
	t := b.New()
	step := tr.Pick(r, []int{1, 2, 3})
	lo := r.Range(-n, 5)
	letter := byte('A')
	if r.Chance(1, 3) {
		letter = 'P'
	}
	b.op(letter, t, ks{pat: pat, lo: lo, step: step, n: n, rep: 1, take: n, seed: r.Intn(1 << 30)})
	b.op('G', t, probeSeq(r, lo, step, n, 40))
	f := tr.Pick(r, []int{2, 4, 8, 16})
	keep := n / f
	b.op('D', t, ks{pat: tr.Pick(r, []byte{'a', 'd', 'z', 'i', 'r', 'r'}), lo: lo, step: step, n: n, rep: 1, take: n - keep, seed: r.Intn(1 << 30)})
	b.tags[fmt.Sprintf("big-drain-to-1/%d", f)] = true
	b.op('G', t, seqOf('a', lo, step, n)) // every remaining key (and every removed one)
	var all ks
	switch {
	case cheapRegrow:
		b.op('A', t, ks{pat: 'r', lo: lo + step*n, step: step, n: n - keep + 2, rep: 1, take: n - keep + 2, seed: r.Intn(1 << 30)})
		all = ks{lo: lo - step, step: step, n: 2*n + 6, rep: 1, take: 2*n + 6}
	case step*n > 3000 || r.Chance(1, 2):
		b.op('A', t, seqOf(tr.Pick(r, []byte{'a', 'z'}), lo+step*n, step, n-keep+2))
		all = ks{lo: lo - step, step: step, n: 2*n + 6, rep: 1, take: 2*n + 6}
	default:
		b.op('A', t, ks{pat: tr.Pick(r, []byte{'a', 'd', 'r'}), lo: lo - 3, step: 1, n: step*n + 6, rep: 1, take: step*n + 6, seed: r.Intn(1 << 30)})
		all = ks{lo: lo - 5, step: 1, n: step*n + 10, rep: 1, take: step*n + 10}
	}
	all.pat, all.seed = tr.Pick(r, []byte{'a', 'd', 'z', 'i', 'r'}), r.Intn(1<<30)
	b.op('D', t, all)
	b.tags["big-drained-to-empty"] = true
	m := min(n, 300)
	if cheapRegrow {
		m = min(n, 80)
	}
	b.op('A', t, seqOf(tr.Pick(r, []byte{'a', 'd', 'z'}), lo, step, m)) // P restarted: the stale peak must not help
	b.emit("big-grow-drain-regrow", sizeTag(n), "big-order-"+string(pat))
}

// genBulkBig: New from sorted / unsorted / duplicated keys (minimum height), then adversarial growth.
func genBulkBig(g *tr.G, n, β int, pat byte, rep int) {
	r := g.R
	b := newBig(g, β)
	lo := r.Range(-n, 5)
	t := b.Bulk(ks{pat: pat, lo: lo, step: 2, n: n * rep, rep: rep, take: n * rep, seed: r.Intn(1 << 30)})
	b.op('G', t, probeSeq(r, lo, 2, n, 40))
	grow := n/4 + 3
	if β >= 950 {
		grow = min(grow, 260)
	}
	b.op('A', t, seqOf(tr.Pick(r, []byte{'a', 'z'}), lo+2*n, 1, grow))
	b.op('P', t, ks{pat: 'r', lo: lo, step: 1, n: 2 * n, rep: 1, take: min(2*n, 100), seed: r.Intn(1 << 30)})
	b.op('D', t, ks{pat: tr.Pick(r, []byte{'a', 'd', 'r'}), lo: lo, step: 2, n: n, rep: 1, take: n - n/tr.Pick(r, []int{2, 8, 16}), seed: r.Intn(1 << 30)})
	b.op('A', t, seqOf('a', lo-1, -1, min(grow, 200)))
	tag := "big-bulk-unsorted"
	if pat == 'a' {
		tag = "big-bulk-sorted"
	}
	if rep > 1 {
		b.tags["big-bulk-duplicates"] = true
	}
	b.emit("big-bulk", tag, sizeTag(n))
}

// genCloneBig: Clone of a big tree, then divergent edits: the clone must balance like the original.
func genCloneBig(g *tr.G, n, β int, pat byte) {
	r := g.R
	b := newBig(g, β)
	a := b.New()
	lo := r.Range(-n, 5)
	b.op('A', a, ks{pat: pat, lo: lo, step: 2, n: n, rep: 1, take: n, seed: r.Intn(1 << 30)})
	c := b.Clone(a)
	x, y := a, c
	if r.Bool() {
		x, y = c, a
	}
	grow := n/4 + 2
	if β >= 950 {
		grow = min(grow, 260)
	}
	b.op('A', x, seqOf('a', lo+2*n, 1, grow))
	b.op('D', y, ks{pat: tr.Pick(r, []byte{'a', 'd', 'r'}), lo: lo, step: 2, n: n, rep: 1, take: n - n/tr.Pick(r, []int{2, 4, 16}), seed: r.Intn(1 << 30)})
	b.op('A', y, seqOf('a', lo-1, -1, grow)) // adversarial growth of the drained side: its peak is the original's
	b.op('A', x, ks{pat: 'r', lo: lo + 1, step: 2, n: n, rep: 1, take: min(n, 80), seed: r.Intn(1 << 30)})
	b.op('G', x, probeSeq(r, lo, 2, n, 30))
	b.op('G', y, probeSeq(r, lo, 2, n, 30))
	if r.Chance(1, 3) {
		b.Clear(x)
		b.op('A', x, seqOf('a', lo, 1, min(n, 120)))
	}
	b.emit("big-clone-divergent", sizeTag(n), "big-order-"+string(pat))
}

// genDeleteRebuild: the delete-side rebuild of a big tree.  The peak n is chosen so that the threshold
// (n*β+1000)/2000 is thr: the tree is grown to n, drained by Remove until the rebuild fires with about
// thr keys left, drained a little further, and regrown adversarially.
func genDeleteRebuild(g *tr.G, thr, β int, pat byte) {
	r := g.R
	n := (thr*2000 - 1000 + β - 1) / β // the smallest peak whose threshold is thr
	if n < thr+2 || n > 8192 {
		return
	}
	if n > 4200 && !g.Thorough() {
		pat = 'r'
	}
	b := newBig(g, β)
	t := b.New()
	lo := r.Range(-n, 5)
	b.op('A', t, ks{pat: pat, lo: lo, step: 2, n: n, rep: 1, take: n, seed: r.Intn(1 << 30)})
	dpat := tr.Pick(r, []byte{'a', 'd', 'z', 'i', 'r'})
	seed := r.Intn(1 << 30)
	// down to thr+1 keys, then the three removals around the threshold one macro each, then further
	b.op('D', t, ks{pat: dpat, lo: lo, step: 2, n: n, rep: 1, take: n - thr - 1, seed: seed})
	idx := orderIdx(dpat, n, seed)
	var next []int
	for _, j := range idx[n-thr-1 : min(n, n-thr+2)] {
		next = append(next, lo+2*j)
	}
	b.op('D', t, ks{pat: 'e', list: next})
	b.op('G', t, seqOf('a', lo, 2, n))
	var more []int
	for _, j := range idx[min(n, n-thr+2):min(n, n-thr+2+thr/3)] {
		more = append(more, lo+2*j)
	}
	if len(more) > 0 && len(more) <= 400 {
		b.op('D', t, ks{pat: 'e', list: more})
	}
	b.op('A', t, seqOf(tr.Pick(r, []byte{'a', 'z'}), lo+2*n, 1, min(thr, 400)))
	b.op('A', t, seqOf('a', lo-1, -1, min(thr, 400)))
	b.emit("big-delete-rebuild", sizeTag(thr), "big-order-"+string(pat))
}

var scaleBetas = []int{0, 1, 50, 155, 250, 500, 800, 880, 950, 999, 1000}

func genScale(g *tr.G) {
	r := g.R
	turn := r.Intn(len(scaleBetas))
	nextBeta := func() int { turn++; return scaleBetas[turn%len(scaleBetas)] }
	pats := []byte{'a', 'd', 'z', 'i', 'r'}
	pturn := r.Intn(len(pats))
	nextPat := func() byte { pturn++; return pats[pturn%len(pats)] }
	// a vine of n nodes costs n steps per operation on both sides (and the walk after every operation
	// costs n anyway): balance factors from 950 up get the adversarial orders only up to vineMax keys
	vineMax := g.Scale(513, 2049)
	alt := r.Intn(2)
	for k := 3; k <= 12; k++ {
		for _, n := range []int{1<<k - 1, 1 << k, 1<<k + 1} {
			rounds := 1
			if k <= 8 {
				rounds = g.Scale(2, 6)
			} else if g.Thorough() {
				rounds = 3
			}
			for i := 0; i < rounds; i++ {
				pick := func() (int, byte, bool) {
					β, pat := nextBeta(), nextPat()
					cheap := false
					if β >= 950 && n > vineMax {
						pat, cheap = 'r', true
					}
					return β, pat, cheap
				}
				β, pat, cheap := pick()
				genGrowDrain(g, n, β, pat, cheap)
				// the model replays a history of 4000 keys in about a second: the quick tier alternates the
				// other two kinds at the two biggest scales
				alt++
				if g.Thorough() || k <= 10 || alt%2 == 0 {
					β, pat, _ = pick()
					genCloneBig(g, n, β, pat)
				}
				if g.Thorough() || k <= 10 || alt%2 == 1 {
					β, _, _ = pick()
					bp := tr.Pick(r, []string{"a1", "a2", "r1", "r2", "d1", "r3"})
					rep, nb := int(bp[1]-'0'), n
					if n*n*rep > g.Scale(1_300_000, 80_000_000) && !r.Chance(1, 6) { // New's oracle check is quadratic in the model
						nb = n / 4
					}
					genBulkBig(g, nb, β, bp[0], rep)
				}
			}
		}
	}
	// the delete-side rebuild leaving 2^k-2 .. 2^k+1 keys: every scale in the thorough tier, one small
	// and one big scale per balance factor in the quick tier
	for _, β := range []int{155, 250, 500, 800, 880, 950, 999, 1000} {
		small, bigk := 5+r.Intn(4), 9+r.Intn(3)
		for k := 5; k <= 11; k++ {
			if !g.Thorough() && k != small && k != bigk {
				continue
			}
			one := r.Intn(4)
			for i, thr := range []int{1<<k - 1, 1 << k, 1<<k + 1, 1<<k + 2} {
				if g.Thorough() || k == small || i == one {
					genDeleteRebuild(g, thr, β, tr.Pick(r, []byte{'r', 'r', 'a', 'd', 'z'}))
				}
			}
		}
	}
	// every balance factor with the adversarial orders at a big size (the loose ones grow paths of 64
	// and more levels), smaller where the tree is a vine
	for _, β := range scaleBetas {
		for _, pat := range []byte{'a', 'd', 'z'} {
			n := tr.Pick(r, []int{511, 512, 513, 1023, 1024, 1025, 2047, 2048, 2049})
			if β >= 950 {
				n = tr.Pick(r, []int{255, 256, 257, 511, 512, 513})
			}
			if !g.Thorough() && pat != 'a' && r.Chance(1, 2) {
				continue
			}
			genGrowDrain(g, n, β, pat, false)
		}
	}
	// one vine or two at a bigger size
	for i := 0; i < g.Scale(1, 6); i++ {
		genGrowDrain(g, tr.Pick(r, []int{1023, 1024, 1025, g.Scale(1025, 4097)}), tr.Pick(r, []int{950, 999, 1000}), tr.Pick(r, []byte{'a', 'd', 'z', 'i'}), false)
	}
	// random large sizes
	for i := 0; i < g.Scale(1, 30); i++ {
		genGrowDrain(g, r.Range(1500, g.Scale(5000, 8192)), tr.Pick(r, []int{0, 1, 50, 155, 250, 500, 800, 880}), nextPat(), false)
	}
}
