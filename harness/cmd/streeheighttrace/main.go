// Command streeheighttrace drives stree.Tree of the working tree for property C02 (height bound)
// and sweeps the float depth limit.  One case per line:
//
//	H <β> <ops>            | <item>;<item>;...#<shape>
//	LP <β> <n> <hint>      | <limit>
//	LR <β> <n0> <n1> <hint> | <rle>
//	B <β> <macros>         | <items>                 big trees, see scale.go
//
// ops (';'-separated)  a<k> Add  p<k> Replace  r<k> Remove  c Clear  g<k> Get (counting comparator
// calls)  n<k.k.k> replace the tree by stree.New(β, cmp, keys...)  ("n" alone: no keys)
// C continue on a Clone of the tree; C<how>: the Clone is taken from inside a traversal callback of the
// tree (round7.go: i<j> b<j> n<j> f<k> g<k>), read-only for the tree, so the same as C for the model.
// item   a/p/r: <result 0|1>:<Len>:<height>    c/n/C: <Len>:<height>    g: <found 0|1>:<comparisons>
// height is the largest depth of a key below the root (-1 for the empty tree), measured after the
// op by walking the tree through Tree.Root and Cursor.HasLeft/Left/HasRight/Right/Up only.
// shape  the final tree in preorder from the same cursor walk, "." = no child.
//
// LP: VerifHeightLimit(β,n), the float depth limit the tree uses.  LR: the same for every n in
// [n0,n1], run-length encoded as n:f at every n where the value changes (first item at n0); the
// hint is the encoding the generator saw (a certificate the model checks instead of searching).
package main

import (
	"strconv"
	"strings"
	"time"

	"github.com/creachadair/mds/stree"
	"verif/harness/internal/tr"
)

var ncmp int

func cmpInt(a, b int) int {
	ncmp++
	if a < b {
		return -1
	} else if a > b {
		return 1
	}
	return 0
}

// measure walks the tree with one cursor; it returns the height and, if wantShape, the preorder.
func measure(t *stree.Tree[int], wantShape bool) (int, string) {
	c := t.Root()
	if c == nil {
		if wantShape {
			return -1, "."
		}
		return -1, ""
	}
	var sb []string
	best := 0
	var rec func(d int)
	rec = func(d int) {
		if d > best {
			best = d
		}
		if d > 1<<20 {
			panic("cycle")
		}
		if wantShape {
			sb = append(sb, strconv.Itoa(c.Key()))
		}
		if c.HasLeft() {
			c.Left()
			rec(d + 1)
			c.Up()
		} else if wantShape {
			sb = append(sb, ".")
		}
		if c.HasRight() {
			c.Right()
			rec(d + 1)
			c.Up()
		} else if wantShape {
			sb = append(sb, ".")
		}
	}
	rec(0)
	return best, strings.Join(sb, ",")
}

func atoi(s string) (int, bool) {
	n, err := strconv.Atoi(s)
	return n, err == nil
}

func rle(β, n0, n1 int) string {
	f := stree.VerifHeightLimitFunc(β)
	var out []string
	prev := 0
	for n := n0; n <= n1; n++ {
		v := f(n)
		if n == n0 || v != prev {
			out = append(out, strconv.Itoa(n)+":"+strconv.Itoa(v))
			prev = v
		}
	}
	return strings.Join(out, ",")
}

func history(β int, ops string) string {
	t := stree.New(β, cmpInt)
	var out []string
	st := func() string {
		h, _ := measure(t, false)
		return strconv.Itoa(t.Len()) + ":" + strconv.Itoa(h)
	}
	for _, op := range strings.Split(ops, ";") {
		if op == "" {
			return "?"
		}
		arg := op[1:]
		switch op[0] {
		case 'a', 'p', 'r', 'g':
			k, ok := atoi(arg)
			if !ok {
				return "?"
			}
			switch op[0] {
			case 'a':
				out = append(out, tr.B(t.Add(k))+":"+st())
			case 'p':
				out = append(out, tr.B(t.Replace(k))+":"+st())
			case 'r':
				out = append(out, tr.B(t.Remove(k))+":"+st())
			case 'g':
				ncmp = 0
				_, found := t.Get(k)
				out = append(out, tr.B(found)+":"+strconv.Itoa(ncmp))
			}
		case 'c':
			if arg != "" {
				return "?"
			}
			t.Clear()
			out = append(out, st())
		case 'C':
			if !validHow(arg) {
				return "?"
			}
			old := t
			t = cloneVia(old, arg)
			old.Clear() // the clone must not depend on the original
			out = append(out, st())
		case 'n':
			var keys []int
			if arg != "" {
				for _, f := range strings.Split(arg, ".") {
					k, ok := atoi(f)
					if !ok {
						return "?"
					}
					keys = append(keys, k)
				}
			}
			t = stree.New(β, cmpInt, keys...)
			out = append(out, st())
		default:
			return "?"
		}
	}
	_, shape := measure(t, true)
	return strings.Join(out, ";") + "#" + shape
}

func exec(in string) (res string) {
	f := strings.Fields(in)
	if len(f) == 0 {
		return "?"
	}
	r := tr.Guard(60*time.Second, func() {
		switch {
		case f[0] == "H" && len(f) == 3:
			β, ok := atoi(f[1])
			if !ok {
				res = "?"
				return
			}
			res = history(β, f[2])
		case f[0] == "B" && len(f) == 3:
			β, ok := atoi(f[1])
			if !ok {
				res = "?"
				return
			}
			res = execBig(β, f[2])
		case f[0] == "LP" && len(f) == 4:
			β, ok1 := atoi(f[1])
			n, ok2 := atoi(f[2])
			if !ok1 || !ok2 {
				res = "?"
				return
			}
			res = strconv.Itoa(stree.VerifHeightLimit(β, n))
		case f[0] == "LR" && len(f) == 5:
			β, ok1 := atoi(f[1])
			n0, ok2 := atoi(f[2])
			n1, ok3 := atoi(f[3])
			if !ok1 || !ok2 || !ok3 || n1-n0 > 1<<22 {
				res = "?"
				return
			}
			res = rle(β, n0, n1)
		default:
			res = "?"
		}
	})
	if r != "" {
		return r
	}
	return res
}

// ---------------------------------------------------------------- generators

type hb struct{ ops []string }

func (h *hb) add(k int)      { h.ops = append(h.ops, "a"+strconv.Itoa(k)) }
func (h *hb) rep(k int)      { h.ops = append(h.ops, "p"+strconv.Itoa(k)) }
func (h *hb) rem(k int)      { h.ops = append(h.ops, "r"+strconv.Itoa(k)) }
func (h *hb) get(k int)      { h.ops = append(h.ops, "g"+strconv.Itoa(k)) }
func (h *hb) clear()         { h.ops = append(h.ops, "c") }
func (h *hb) clone()         { h.ops = append(h.ops, "C") }
func (h *hb) String() string { return strings.Join(h.ops, ";") }
func (h *hb) newFrom(keys []int) {
	s := make([]string, len(keys))
	for i, k := range keys {
		s[i] = strconv.Itoa(k)
	}
	h.ops = append(h.ops, "n"+strings.Join(s, "."))
}

// insertion orders of the keys 0..n-1
func order(kind string, n int, r *tr.Rand) []int {
	out := make([]int, 0, n)
	switch kind {
	case "sorted":
		for i := 0; i < n; i++ {
			out = append(out, i)
		}
	case "reverse":
		for i := n - 1; i >= 0; i-- {
			out = append(out, i)
		}
	case "zigzag-in": // 0, n-1, 1, n-2, ... : every insertion at the bottom of one long zig-zag path
		for lo, hi := 0, n-1; lo <= hi; lo, hi = lo+1, hi-1 {
			out = append(out, lo)
			if hi != lo {
				out = append(out, hi)
			}
		}
	case "zigzag-out": // mid, mid+1, mid-1, ... : two spines growing outwards
		mid := n / 2
		out = append(out, mid)
		for d := 1; len(out) < n; d++ {
			if mid+d < n {
				out = append(out, mid+d)
			}
			if mid-d >= 0 {
				out = append(out, mid-d)
			}
		}
	case "blocks": // ascending blocks laid down in descending order
		b := 7
		for hi := n; hi > 0; hi -= b {
			for i := max(0, hi-b); i < hi; i++ {
				out = append(out, i)
			}
		}
	default: // random permutation
		for i := 0; i < n; i++ {
			out = append(out, i)
		}
		for i := n - 1; i > 0; i-- {
			j := r.Intn(i + 1)
			out[i], out[j] = out[j], out[i]
		}
	}
	return out
}

var orders = []string{"sorted", "reverse", "zigzag-in", "zigzag-out", "blocks", "random"}

// tags derived from the implementation's own output: what the history reached
func eventTags(out string) []string {
	body := out
	if i := strings.IndexByte(out, '#'); i >= 0 {
		body = out[:i]
	}
	prevH := -1
	var addLower, remDrop, deep bool
	for _, it := range strings.Split(body, ";") {
		f := strings.Split(it, ":")
		if len(f) == 3 {
			h, _ := strconv.Atoi(f[2])
			if f[0] == "1" && h < prevH {
				addLower = true // only a rebuild lowers the height (Add) ...
			}
			if h < prevH-1 {
				remDrop = true // ... or lowers it by two or more (Remove: delete-side rebuild)
			}
			if h >= 6 {
				deep = true
			}
			prevH = h
		} else if len(f) == 2 && (it[0] != '0' && it[0] != '1' || true) {
			// c/n/C items carry Len:height too, g items found:count; only the former move prevH,
			// but they cannot be told apart here, so the height tracking restarts
			prevH = -1
		}
	}
	var tags []string
	if addLower {
		tags = append(tags, "height-lowered-by-op")
	}
	if remDrop {
		tags = append(tags, "height-drop>=2")
	}
	if deep {
		tags = append(tags, "height>=6")
	}
	return tags
}

func emitH(g *tr.G, β int, h *hb, tags ...string) {
	in := "H " + strconv.Itoa(β) + " " + h.String()
	out := exec(in)
	tags = append(tags, eventTags(out)...)
	switch β {
	case 0, 1, 250, 500, 999:
		tags = append(tags, "beta="+strconv.Itoa(β))
	default:
		tags = append(tags, "beta=other")
	}
	g.W.Case(in, out, len(h.ops) >= 8, tags...)
}

func genHistories(g *tr.G) {
	betas := []int{0, 1, 250, 500, 999}
	for _, β := range betas {
		N := g.Scale(300, 2000)
		if β == 999 {
			N = g.Scale(100, 260) // the tree is a vine: quadratic walks, and limits near 2000 ln n
		}
		for _, kind := range orders {
			// (1) pure insertion, probing the key just inserted (the deepest one for sorted orders)
			h := &hb{}
			for i, k := range order(kind, N, g.R) {
				h.add(k)
				if i%3 == 0 || i > N-4 {
					h.get(k)
				}
			}
			h.get(0)
			h.get(N - 1)
			h.get(N + 5)
			emitH(g, β, h, "insert-"+kind)

			// (2) insertion, then a delete-heavy phase, then growth again
			for _, del := range []string{"asc", "desc", "random", "odd"} {
				n := N / 2
				h := &hb{}
				ks := order(kind, n, g.R)
				for _, k := range ks {
					h.add(k)
				}
				var dl []int
				switch del {
				case "asc":
					dl = order("sorted", n, g.R)
				case "desc":
					dl = order("reverse", n, g.R)
				case "random":
					dl = order("random", n, g.R)
				case "odd":
					for i := 1; i < n; i += 2 {
						dl = append(dl, i)
					}
					for i := 0; i < n; i += 4 {
						dl = append(dl, i)
					}
				}
				keep := g.R.Intn(4) // 0: drain to empty (the peak starts again)
				stopAt := 0
				if keep > 0 {
					stopAt = n / (4 * keep)
				}
				removed := 0
				for _, k := range dl {
					if n-removed <= stopAt {
						break
					}
					h.rem(k)
					removed++
					if removed%5 == 0 {
						h.rem(k) // absent now
						h.get(k)
					}
				}
				for i := 0; i < n/3; i++ { // regrow at one end: below the old peak
					h.add(n + i)
					if i%4 == 0 {
						h.get(n + i)
					}
				}
				emitH(g, β, h, "delete-phase-"+del)
			}
		}
		// (3) New from n keys (every n up to a bound, then larger ones), then adversarial growth
		for n := 0; n <= g.Scale(40, 140); n++ {
			h := &hb{}
			keys := order("random", n, g.R)
			if n%3 == 1 { // duplicates
				keys = append(keys, keys[:len(keys)/2]...)
			}
			h.newFrom(keys)
			for i := 0; i < 6 && β != 999 || i < 3; i++ {
				h.add(n + i)
				h.get(n + i)
			}
			h.get(0)
			h.get(n / 2)
			emitH(g, β, h, "new")
		}
		for i := 0; i < g.Scale(3, 12); i++ {
			n := g.R.Range(100, g.Scale(400, 3000))
			if β == 999 {
				n = g.R.Range(50, 200)
			}
			h := &hb{}
			h.newFrom(order("random", n, g.R))
			for j := 0; j < n/4; j++ {
				h.add(n + j)
			}
			h.clone()
			for j := 0; j < n/2; j++ {
				h.rem(j * 2)
			}
			h.clear()
			for j := 0; j < 20; j++ {
				h.add(j)
			}
			emitH(g, β, h, "new-large")
		}
	}
	// (4) random balance factors, phase-structured random histories
	for i := 0; i < g.Scale(60, 1200); i++ {
		β := g.R.Intn(1000)
		if g.R.Chance(1, 4) {
			β = tr.Pick(g.R, []int{0, 999, 998})
		}
		maxN := g.Scale(200, 600)
		if β > 950 {
			maxN = 120
		}
		h := &hb{}
		present := map[int]bool{}
		lo, hi := 10000, 10000
		for ph := 0; ph < g.R.Range(2, 7) && len(h.ops) < 3*maxN; ph++ {
			cnt := g.R.Range(5, maxN)
			switch g.R.Intn(7) {
			case 0: // ascending run above everything
				for j := 0; j < cnt; j++ {
					hi++
					h.add(hi)
					present[hi] = true
				}
				h.get(hi)
			case 1: // descending run below everything
				for j := 0; j < cnt; j++ {
					lo--
					h.add(lo)
					present[lo] = true
				}
				h.get(lo)
			case 2: // random keys in range, mixed add/replace
				for j := 0; j < cnt; j++ {
					k := g.R.Range(lo-3, hi+3)
					if g.R.Bool() {
						h.add(k)
					} else {
						h.rep(k)
					}
					present[k] = true
					lo, hi = min(lo, k), max(hi, k)
				}
			case 3, 4: // removals of present keys, in key order or random
				var ks []int
				for k := range present {
					ks = append(ks, k)
				}
				sortInts(ks)
				if g.R.Bool() {
					for j := len(ks) - 1; j > 0; j-- {
						x := g.R.Intn(j + 1)
						ks[j], ks[x] = ks[x], ks[j]
					}
				}
				m := len(ks)
				if !g.R.Chance(1, 4) {
					m = g.R.Intn(len(ks) + 1)
				}
				for _, k := range ks[:m] {
					h.rem(k)
					delete(present, k)
				}
			case 5:
				if g.R.Chance(1, 3) {
					h.clear()
					present = map[int]bool{}
				} else {
					h.clone()
				}
			case 6: // New from the present keys plus some
				var ks []int
				for k := range present {
					ks = append(ks, k)
				}
				sortInts(ks)
				for j := 0; j < g.R.Intn(10); j++ {
					k := g.R.Range(lo-3, hi+3)
					ks = append(ks, k)
					present[k] = true
					lo, hi = min(lo, k), max(hi, k)
				}
				h.newFrom(ks)
			}
		}
		if len(h.ops) == 0 {
			h.add(1)
		}
		emitH(g, β, h, "random-phases")
	}
	// (5) exhaustive small scopes: every insertion order of up to k keys; every short op string
	for _, β := range []int{0, 500} {
		for k := 1; k <= g.Scale(5, 7); k++ {
			perm := make([]int, k)
			for i := range perm {
				perm[i] = i
			}
			var rec func(i int)
			rec = func(i int) {
				if i == k {
					h := &hb{}
					for _, x := range perm {
						h.add(x)
					}
					h.get(perm[k-1])
					emitH(g, β, h, "exhaustive-perm")
					return
				}
				for j := i; j < k; j++ {
					perm[i], perm[j] = perm[j], perm[i]
					rec(i + 1)
					perm[i], perm[j] = perm[j], perm[i]
				}
			}
			rec(0)
		}
	}
	alpha := []string{"a0", "a1", "a2", "a3", "r0", "r1", "r2", "r3"}
	L := g.Scale(4, 5)
	var rec func(cur []string)
	rec = func(cur []string) {
		if len(cur) > 0 {
			h := &hb{ops: append([]string{"n5.6.7.8.9.10"}, cur...)}
			emitH(g, 0, h, "exhaustive-ops")
		}
		if len(cur) == L {
			return
		}
		for _, a := range alpha {
			rec(append(cur[:len(cur):len(cur)], a))
		}
	}
	rec(nil)
}

func sortInts(a []int) {
	for i := 1; i < len(a); i++ {
		for j := i; j > 0 && a[j-1] > a[j]; j-- {
			a[j-1], a[j] = a[j], a[j-1]
		}
	}
}

// the sweep of the float depth limit
func genSweep(g *tr.G) {
	kcap := g.Scale(200, 800) // largest limit value checked exactly (numbers of 11*k bits)
	nmax := g.Scale(4096, 1<<20)
	stride := g.Scale(11, 1)
	for β := 0; β < 1000; β++ {
		special := β <= 2 || β >= 997 || β == 250 || β == 500 || β == 750
		if β%stride != 0 && !special {
			continue
		}
		f := stree.VerifHeightLimitFunc(β)
		// the range [1, hi]: everything up to 4096, cut where the limit passes kcap
		hi := 4096
		for hi > 1 && f(hi) > kcap {
			hi /= 2
		}
		for hi < 4096 && f(hi+1) <= kcap {
			hi++
		}
		in := "LR " + strconv.Itoa(β) + " 1 " + strconv.Itoa(hi) + " " + rle(β, 1, hi)
		g.Emit(in, true, "sweep-range")
		if g.Thorough() && f(4097) <= kcap {
			// sampled windows up to nmax and the window around every power of two
			var starts []int
			for w := 0; w < 24; w++ {
				starts = append(starts, g.R.Range(4097, nmax-300))
			}
			sortInts(starts) // ascending, so that the checker's powers only ever grow
			for _, n0 := range starts {
				if f(n0+256) <= kcap {
					g.Emit("LR "+strconv.Itoa(β)+" "+strconv.Itoa(n0)+" "+strconv.Itoa(n0+256)+" "+rle(β, n0, n0+256), true, "sweep-window")
				}
			}
		}
		// single points: powers of two and their neighbours (exact search in the model), as far
		// as the limit stays below the cap; beyond 2^47 the float is known to round up at β=0
		for e := 1; e <= 46; e++ {
			for d := -1; d <= 1; d++ {
				n := 1<<e + d
				if n >= 1 && f(n) <= g.Scale(100, 200) {
					g.Emit("LP "+strconv.Itoa(β)+" "+strconv.Itoa(n)+" "+strconv.Itoa(f(n)), true, "sweep-point")
				}
			}
		}
	}
}

func main() {
	tr.Main("C02: histories that stress depth (sorted, reverse, two zig-zags, block and random insertion orders, each alone and followed by ascending/descending/random/alternating removals down to empty or to a fraction, then regrowth) at every β in {0,1,250,500,999}; New from every n up to a bound (with duplicates) and from large n, followed by adversarial growth, Clone and Clear; phase-structured random histories at random β<1000; every insertion order of up to 5 (quick) / 7 (thorough) keys and every string of up to 4/5 Add/Remove ops over 4 keys. After every op the height is measured through Root/Left/Right cursors and compared with the model; Get probes count comparator calls. Scale stream (B lines, macro operations over arithmetic key sequences): trees of 2^k-1, 2^k, 2^k+1 keys for k = 3..12 and random sizes up to 8192 at beta in {0,1,50,155,250,500,800,880,950,999,1000} in rotation, grown by Add or Replace in ascending/descending/outside-in/inside-out/random order or built by New from sorted/unsorted/duplicated keys, drained to 1/2..1/16 by Remove (the peak stays), regrown adversarially, drained to empty by Remove (the peak restarts), regrown; Clone then divergent edits (the drained side regrown adversarially); after EVERY call: result, Len, the height (one pass over the node pointers by a hook), the comparisons of Get(key just used) and of Get(deepest key); about nine checkpoints per macro give, for every live tree, the height measured through Root/Left/Right/Up cursors and a digest of the shape. Round 7: a Clone taken from inside an Inorder/InorderAfter callback of the tree (at the first, middle, last key; loop continued or left; nested traversals), replayed by the model as a plain Clone, followed by runs of new maxima/minima on the clone, the original and a clone of the clone; three-phase histories (drain one end down to the root, drain the other end until the delete-side rebuild fires, at once 40 new extreme keys at the first end, then mirrored) for N in 24..4095 (8191) at beta in {300,500,700,900} and eight others, and random-order drains to the rebuild followed at once by a run at an end. Sweep: the float depth limit VerifHeightLimit(β,n) for every n<=4096 (β stride 7 quick / all β thorough, limit values capped for the bignum arithmetic), windows up to 2^20 (thorough) and 2^e-1,2^e,2^e+1 up to e=46. A history is non-trivial when it has at least 8 ops; distinct = distinct input lines.",
		exec, func(g *tr.G) {
			if g.Prop != "C02" {
				return
			}
			genHistories(g)
			genScale(g)
			genRound7(g)
			genSweep(g)
		})
}
