// Round 7: two classes of histories the earlier generators never produced (ROUND7_GUIDE.md, classes 1, 2).
//
//  1. A Clone taken from INSIDE a traversal callback of the tree (Inorder / InorderAfter, the body of a
//     range-over-func loop).  The callback only reads the tree, so for the model this is a Clone taken just
//     before the traversal: the driver maps `C<how>` (H lines) and `C<t>:<how>` (B lines) to its plain
//     Clone.  The clone then lives a long life of its own (sorted Adds, the bound after each one), and so
//     does the original.
//
//     how:  i<j>  inside `for k := range t.Inorder`, at the j-th key visited (0-based); the loop runs on
//           b<j>  the same, the loop is left right after the Clone (break)
//           n<j>  at the j-th key of an Inorder loop an inner `range t.InorderAfter(key)` loop is started
//                 and the Clone taken in its first iteration (two traversals in progress), inner loop left
//           f<k>  inside `for x := range t.InorderAfter(k)`, first iteration; the loop runs on
//           g<k>  the same, the loop is left right after the Clone
//     If the traversal never gets that far (too few keys) the Clone is taken after it.  The traversal
//     itself must stay what it is (ascending keys; every key when it runs to the end): anything else is a
//     panic of the line ("the implementation did not return").
//
//  2. Three-phase histories on one tree: build N keys, drain from one END until the extreme key of that
//     end sits at (or next to) the root, drain from the OTHER end until the delete-side rebuild fires, and
//     AT ONCE - nothing in between - append a run of new extreme keys at the first end, the bound checked
//     after every Add; then the mirror image on what is left.  And the general form: drain in random order
//     until the rebuild fires, then at once a run of new maxima (or minima).  The generator knows when the
//     rebuild fires from the documented rule (size < (max*β+1000)/2000 after a successful Remove, max the
//     largest size since the last rebuild / New / Clear), tracked on the side; the root key is read off the
//     steering copy through Root().Key().
package main

import (
	"fmt"
	"strconv"
	"strings"

	"github.com/creachadair/mds/stree"
	"verif/harness/internal/tr"
)

func validHow(s string) bool {
	if s == "" {
		return true
	}
	if !strings.ContainsRune("ibnfg", rune(s[0])) {
		return false
	}
	v, err := strconv.Atoi(s[1:])
	if err != nil || strconv.Itoa(v) != s[1:] || absInt(v) > 1<<40 {
		return false
	}
	return v >= 0 || s[0] == 'f' || s[0] == 'g'
}

// cloneVia returns a Clone of t taken the way how says (validHow(how) holds).
func cloneVia(t *stree.Tree[int], how string) *stree.Tree[int] {
	if how == "" {
		return t.Clone()
	}
	v, _ := strconv.Atoi(how[1:])
	var cl *stree.Tree[int]
	n, prev, sorted, full := 0, 0, true, true
	see := func(k int) {
		if n > 0 && k <= prev {
			sorted = false
		}
		prev = k
		n++
	}
	want := t.Len()
	switch how[0] {
	case 'i', 'b':
		for k := range t.Inorder {
			see(k)
			if n-1 == v {
				cl = t.Clone()
				if how[0] == 'b' {
					full = false
					break
				}
			}
		}
	case 'n':
		for k := range t.Inorder {
			see(k)
			if n-1 == v {
				for k2 := range t.InorderAfter(k) {
					if k2 != k {
						panic("traversal disturbed: InorderAfter of a present key starts elsewhere")
					}
					cl = t.Clone()
					break
				}
			}
		}
	case 'f', 'g':
		full = false
		for k := range t.InorderAfter(v) {
			if k < v {
				panic("traversal disturbed: InorderAfter yields a smaller key")
			}
			see(k)
			if n == 1 {
				cl = t.Clone()
				if how[0] == 'g' {
					break
				}
			}
		}
	}
	if !sorted || full && n != want || t.Len() != want {
		panic("traversal disturbed by a Clone taken in its callback")
	}
	if cl == nil {
		cl = t.Clone()
	}
	return cl
}

func (b *big) CloneVia(t int, how string) int {
	b.add("C" + strconv.Itoa(t) + ":" + how)
	b.tags["big-clone-in-callback"] = true
	return len(b.run.trees) - 1
}

// ---------------------------------------------------------------- class 1

func howsFor(keys []int) []string {
	n := len(keys)
	if n == 0 {
		return []string{"i0", "f0", "n0"}
	}
	lo, hi := keys[0], keys[0]
	for _, k := range keys {
		lo, hi = min(lo, k), max(hi, k)
	}
	it := func(c byte, v int) string { return string(c) + strconv.Itoa(v) }
	return []string{
		it('i', 0), it('i', n/2), it('i', n-1), it('b', 0), it('b', n/2), it('n', n/3), it('n', n-1),
		it('f', (lo+hi)/2), it('f', lo-3), it('g', lo), it('g', hi), it('i', n+2),
	}
}

func genCloneInWalk(g *tr.G) {
	r := g.R
	turn := r.Intn(100)
	// H lines: the clone replaces the tree (the original is cleared after the traversal)
	for _, β := range []int{0, 1, 250, 500, 999} {
		for _, n := range []int{0, 1, 2, 3, 5, 8, 13, 30, g.Scale(100, 400)} {
			keys := order(orders[turn%len(orders)], n, r)
			for i := range keys {
				keys[i] = 2*keys[i] + 10
			}
			for _, how := range howsFor(keys) {
				turn++
				h := &hb{}
				if turn%4 == 0 && n > 0 {
					h.newFrom(keys)
				} else {
					for _, k := range keys {
						h.add(k)
					}
				}
				h.ops = append(h.ops, "C"+how)
				run := 24
				if β == 999 {
					run = 10
				}
				if turn%3 == 0 { // new minima
					for j := 0; j < run; j++ {
						h.add(9 - j)
						if j%3 == 0 {
							h.get(9 - j)
						}
					}
				} else { // new maxima
					for j := 0; j < run; j++ {
						h.add(2*n + 11 + j)
						if j%3 == 0 {
							h.get(2*n + 11 + j)
						}
					}
				}
				if n > 0 {
					h.rem(keys[0])
					h.get(keys[n/2])
				}
				emitH(g, β, h, "clone-in-callback")
			}
		}
	}
	// B lines: both live on
	hows := func(lo, n int) []string {
		return []string{"i0", "b" + strconv.Itoa(n/2), "i" + strconv.Itoa(n-1), "n" + strconv.Itoa(n/3), "f" + strconv.Itoa(lo+n), "g" + strconv.Itoa(lo), "i" + strconv.Itoa(n/2)}
	}
	pats := []byte{'a', 'd', 'z', 'i', 'r'}
	betas := []int{0, 250, 500, 800, 1, 155, 880, 950}
	sizes := []int{6, 9, 33, 64, 255, 600, 1024, g.Scale(1500, 4096)}
	for si, n := range sizes {
		per := g.Scale(2, 6)
		for j := 0; j < per; j++ {
			turn++
			β := betas[(si*per+j+turn)%len(betas)]
			if g.Thorough() {
				β = betas[(si+j)%len(betas)]
			}
			b := newBig(g, β)
			lo := r.Range(-n, 5)
			var a int
			if turn%5 == 0 && n <= 1100 {
				a = b.Bulk(ks{pat: 'r', lo: lo, step: 2, n: n, rep: 1, take: n, seed: r.Intn(1 << 30)})
			} else {
				a = b.New()
				b.op('A', a, ks{pat: pats[turn%len(pats)], lo: lo, step: 2, n: n, rep: 1, take: n, seed: r.Intn(1 << 30)})
			}
			hw := hows(lo, n)
			grow := min(n, 300) + 12
			if β >= 950 {
				grow = min(grow, 120)
			}
			c := b.CloneVia(a, hw[turn%len(hw)])
			b.op('A', c, seqOf('a', lo+2*n, 1, grow))  // the clone: a long sorted run of its own
			b.op('A', a, seqOf('a', lo-1, -1, grow/2)) // the original goes on as well
			b.op('D', c, ks{pat: tr.Pick(r, []byte{'a', 'd', 'r'}), lo: lo, step: 2, n: n, rep: 1, take: n - n/4, seed: r.Intn(1 << 30)})
			c2 := b.CloneVia(c, hw[(turn+3)%len(hw)]) // a clone of the clone
			b.op('A', c2, seqOf('a', lo+2*n+grow, 1, grow/2))
			b.op('A', c, seqOf('a', lo-1, -1, grow/3))
			b.op('P', a, seqOf('a', lo+2*n, 2, grow/3))
			b.op('G', c2, probeSeq(r, lo, 2, n, 20))
			b.emit("big-clone-in-callback-divergent", sizeTag(n))
		}
	}
}

// ---------------------------------------------------------------- class 2

// rebuildTracker follows size and max of one tree by the documented rule.
type rebuildTracker struct{ β, sz, mx int }

func (t *rebuildTracker) remove() bool { // a successful Remove; reports whether the rebuild fires
	t.sz--
	if t.sz < (t.mx*t.β+1000)/2000 {
		t.mx = t.sz
		return true
	}
	return false
}

func (t *rebuildTracker) add() {
	t.sz++
	t.mx = max(t.mx, t.sz)
}

// genThreePhase: keys are the interval [lo,hi] throughout (drains and runs at the two ends only).
func genThreePhase(g *tr.G, β, n int, topFirst bool, build byte, leave, run, rounds int) {
	r := g.R
	b := newBig(g, β)
	lo := r.Range(-n, 5)
	hi := lo + n - 1
	var t int
	switch build {
	case 'K':
		t = b.Bulk(seqOf('a', lo, 1, n))
	default:
		t = b.New()
		b.op(tr.Pick(r, []byte{'A', 'A', 'P'}), t, ks{pat: build, lo: lo, step: 1, n: n, rep: 1, take: n, seed: r.Intn(1 << 30)})
	}
	trk := &rebuildTracker{β: β, sz: n, mx: n}
	fired := 0
	for rd := 0; rd < rounds && hi-lo >= 6; rd++ {
		root := (lo + hi) / 2
		if !b.broken {
			if c := b.run.trees[t].Root(); c != nil {
				root = c.Key()
			}
		}
		root = min(max(root, lo), hi)
		// phase 1: drain the first end down to the root (leave: that many keys beyond it stay)
		var cnt int
		if topFirst {
			cnt = hi - root - leave
		} else {
			cnt = root - lo - leave
		}
		cnt = min(cnt, hi-lo-3)
		if cnt > 0 {
			if topFirst {
				b.op('D', t, seqOf('a', hi, -1, cnt))
				hi -= cnt
			} else {
				b.op('D', t, seqOf('a', lo, 1, cnt))
				lo += cnt
			}
			for i := 0; i < cnt; i++ {
				trk.remove()
			}
		}
		// phase 2: drain the other end until the rebuild fires
		c, hit := 0, false
		for trk.sz > 2 && !hit {
			c++
			hit = trk.remove()
		}
		if c > 0 {
			if topFirst {
				b.op('D', t, seqOf('a', lo, 1, c))
				lo += c
			} else {
				b.op('D', t, seqOf('a', hi, -1, c))
				hi -= c
			}
		}
		if hit {
			fired++
		}
		// phase 3: at once, new extreme keys at the first end
		if topFirst {
			b.op('A', t, seqOf('a', hi+1, 1, run))
			hi += run
		} else {
			b.op('A', t, seqOf('a', lo-1, -1, run))
			lo -= run
		}
		for i := 0; i < run; i++ {
			trk.add()
		}
		topFirst = !topFirst
	}
	b.op('G', t, ks{pat: 'r', lo: lo - 2, step: 1, n: hi - lo + 5, rep: 1, take: min(hi-lo+5, 24), seed: r.Intn(1 << 30)})
	b.g.W.Count("three-phase-rebuilds-steered", fired)
	b.emit("big-three-phase", sizeTag(n), fmt.Sprintf("big-three-phase-build-%c", build))
}

// genDrainThenExtreme: random-order drain until the rebuild fires, then at once a run at one end; twice.
func genDrainThenExtreme(g *tr.G, β, n int, maxFirst bool, run int) {
	r := g.R
	b := newBig(g, β)
	lo := r.Range(-n, 5)
	t := b.New()
	b.op('A', t, ks{pat: tr.Pick(r, []byte{'r', 'a', 'd', 'z'}), lo: lo, step: 1, n: n, rep: 1, take: n, seed: r.Intn(1 << 30)})
	trk := &rebuildTracker{β: β, sz: n, mx: n}
	dpat := tr.Pick(r, []byte{'r', 'r', 'z', 'i'})
	seed := r.Intn(1 << 30)
	idx := orderIdx(dpat, n, seed)
	used, top, bot := 0, lo+n, lo-1
	for rd := 0; rd < 3; rd++ {
		c, hit := 0, false
		for used+c < n && trk.sz > 2 && !hit {
			c++
			hit = trk.remove()
		}
		if c == 0 {
			break
		}
		if used == 0 {
			b.op('D', t, ks{pat: dpat, lo: lo, step: 1, n: n, rep: 1, take: c, seed: seed})
		} else {
			var l []int
			for _, j := range idx[used : used+c] {
				l = append(l, lo+j)
			}
			b.op('D', t, ks{pat: 'e', list: l})
		}
		used += c
		if maxFirst {
			b.op('A', t, seqOf('a', top, 1, run))
			top += run
		} else {
			b.op('A', t, seqOf('a', bot, -1, run))
			bot -= run
		}
		for i := 0; i < run; i++ {
			trk.add()
		}
		maxFirst = !maxFirst
	}
	b.emit("big-drain-rebuild-then-extreme-run", sizeTag(n))
}

func genRebuildThenRun(g *tr.G) {
	r := g.R
	sizes := []int{24, 40, 64, 100, 128, 200, 256, 320, 450, 512, 700, 1023, 1024, 1500, 2048, 3000, 4095}
	if g.Thorough() {
		for n := 20; n < 1200; n += 1 + n/12 {
			sizes = append(sizes, n)
		}
		sizes = append(sizes, 6000, 8191)
	}
	betas := []int{300, 500, 700, 900}
	builds := []byte{'K', 'a', 'r', 'd', 'K', 'z'}
	turn := r.Intn(100)
	for _, n := range sizes {
		for bi, β := range betas {
			for _, topFirst := range []bool{true, false} {
				turn++
				// the big ones: in the quick tier one direction per (size, β), alternating
				if !g.Thorough() && n > 1100 && (turn+bi)%2 == 0 {
					continue
				}
				build := builds[turn%len(builds)]
				if build == 'K' && n > 1100 { // New's oracle check is quadratic in the model
					build = 'r'
				}
				leave := []int{0, 0, 1, 0, 3}[turn%5]
				rounds := 2
				if n <= 700 {
					rounds = 4
				}
				genThreePhase(g, β, n, topFirst, build, leave, 40, rounds)
			}
		}
		// other balance factors, one line per size
		turn++
		β := []int{155, 250, 400, 600, 800, 950, 990, r.Range(100, 995)}[turn%8]
		if β < 950 || n <= 1100 {
			build := builds[turn%len(builds)]
			if build == 'K' && n > 1100 {
				build = 'a'
			}
			genThreePhase(g, β, n, turn%2 == 0, build, 0, 40, 3)
		}
		if n <= 2048 || g.Thorough() {
			genDrainThenExtreme(g, tr.Pick(r, betas), n, turn%2 == 1, 40)
			genDrainThenExtreme(g, tr.Pick(r, []int{250, 400, 600, 800, 950}), n, turn%2 == 0, r.Range(10, 40))
		}
	}
}

func genRound7(g *tr.G) {
	genCloneInWalk(g)
	genRebuildThenRun(g)
}
