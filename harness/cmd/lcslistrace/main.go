// Command lcslistrace drives slice.LCS/LCSFunc, slice.LIS/LISFunc and slice.LNDS/LNDSFunc of the
// working tree and records inputs and observables, one case per line.
//
// Elements are non-negative ints e with key(e) = e/100 and payload(e) = e%100, so that WHICH of
// several equal-keyed elements is returned can be observed.
//
//	L <mode> <as> <bs> [w<pre>,<spare>] | <z|s> <ints> m<0|1> a<0|1>
//	    mode e: slice.LCS (==);  LCSFunc with: k equal keys;  c equal key/2 and m equal key%2
//	    (equivalences coarser than key identity: the key parity resp. key/2 is payload too);
//	    o key(a) <= key(b) (NOT symmetric: pins the argument order of eq and the swap);
//	    p equal keys but never at key 2 (not reflexive, like == at NaN)
//	    z = result is nil, s = non-nil
//	I <mode> <vs> [w<pre>,<spare>] | <ints> m<0|1> a<0|1>     LIS
//	N <mode> <vs> [w<pre>,<spare>] | <ints> m<0|1> a<0|1>     LNDS
//	    mode n: slice.LIS / slice.LNDS (cmp.Compare on the whole int)
//	    ...Func with: k compare keys;  r keys reversed;  d key(a)-key(b);  t 3*(key(a)-key(b));
//	    q 7*(key(b)-key(a)) (reversed, large magnitudes);  x math.MinInt / 0 / math.MaxInt;
//	    c compare key/2 and m compare key%3 (coarse total preorders: distinct keys tie)
//
// Every input slice is a window backing[pre : pre+len : pre+len+spare] of a larger array whose
// other cells hold guard values (default w0,0).  m1 = some cell of a backing array (the window, the
// cells before it, or the spare capacity beyond len) differs after the call;  a1 = overwriting
// the returned slice up to its capacity changed some cell of a backing array (aliasing; LIS/LNDS
// return the input slice itself on an empty input, so a1 is expected exactly when that empty
// window has spare capacity).
//
// Round 4 (round4.go): "P <prelude> <line>" (calls made before the case), "V ..." (LCS of two views
// of one array), modes g (strings with equal hashes) and j (uint64 around 2^53 and 2^63), "wn" (nil).
//
// A panic is recorded as "panic:<kind>", a call that does not return within the watchdog as "hang"
// (after three hangs the remaining cases are recorded as "skipped-after-hangs", because every
// hung call keeps spinning in its goroutine).
package main

import (
	"cmp"
	"math"
	"slices"
	"strconv"
	"strings"
	"time"

	"github.com/creachadair/mds/slice"
	"verif/harness/internal/tr"
)

func key(e int) int { return e / 100 }

// namedInts: the functions are generic in the slice type (Slice ~[]T); lines with an odd number of
// elements go through this named type.
type namedInts []int

func cmpFor(mode string) func(a, b int) int {
	switch mode {
	case "k":
		return func(a, b int) int { return cmp.Compare(key(a), key(b)) }
	case "r":
		return func(a, b int) int { return cmp.Compare(key(b), key(a)) }
	case "d":
		return func(a, b int) int { return key(a) - key(b) }
	case "t":
		return func(a, b int) int { return 3 * (key(a) - key(b)) }
	case "q":
		return func(a, b int) int { return 7 * (key(b) - key(a)) }
	case "x":
		return func(a, b int) int {
			switch {
			case key(a) < key(b):
				return math.MinInt
			case key(a) > key(b):
				return math.MaxInt
			}
			return 0
		}
	case "c":
		return func(a, b int) int { return key(a)/2 - key(b)/2 }
	case "m":
		return func(a, b int) int { return key(a)%3 - key(b)%3 }
	}
	panic("bad cmp mode " + mode)
}

func eqFor(mode string) func(a, b int) bool {
	switch mode {
	case "k":
		return func(a, b int) bool { return key(a) == key(b) }
	case "c":
		return func(a, b int) bool { return key(a)/2 == key(b)/2 }
	case "m":
		return func(a, b int) bool { return key(a)%2 == key(b)%2 }
	case "o":
		return func(a, b int) bool { return key(a) <= key(b) }
	case "p":
		return func(a, b int) bool { return key(a) == key(b) && key(a) != 2 }
	}
	panic("bad eq mode " + mode)
}

// window: vs placed in a larger array with guard cells before it and spare capacity after it.
type window struct{ backing, w []int }

const guard = 770000

func mkWindow(vs []int, pre, spare int) window {
	if pre < 0 { // "wn": a nil slice for an empty input
		if len(vs) == 0 {
			return window{}
		}
		pre, spare = 0, 0
	}
	b := make([]int, pre+len(vs)+spare)
	for i := range b {
		b[i] = guard + i
	}
	copy(b[pre:], vs)
	return window{b, b[pre : pre+len(vs) : pre+len(vs)+spare]}
}

// parseWin reads the optional w<pre>,<spare> field.
func parseWin(f []string, at int) (pre, spare int) {
	if len(f) > at && f[at] == "wn" {
		return -1, 0
	}
	if len(f) > at && strings.HasPrefix(f[at], "w") {
		p := tr.UnInts(f[at][1:])
		if len(p) == 2 {
			return p[0], p[1]
		}
	}
	return 0, 0
}

const poison = 999999

var hangs int

func exec(in string) string {
	f := strings.Fields(in)
	var out string
	if hangs >= 3 {
		return "skipped-after-hangs"
	}
	var prelude string
	postlude = ""
	resetNested()
	if len(f) >= 3 && f[0] == "P" { // calls made before the case (round4.go)
		prelude, f = f[1], f[2:]
	}
	if len(f) < 3 {
		return "?"
	}
	p := tr.Guard(5*time.Second, func() {
		if prelude != "" {
			setPrelude(prelude)
		}
		switch f[0] {
		case "V", "T": // T: the V line once more, judged by the property alone (round5.go)
			out = execViews(f)
		case "G":
			out = execG(f)
		case "L", "S": // S: the L line once more, judged by the property alone (round5.go)
			if len(f) < 4 {
				out = "?"
				break
			}
			if f[1] == "g" {
				out = typedLCS(tr.UnInts(f[2]), tr.UnInts(f[3]))
				break
			}
			if lcsTyped5(f[1]) {
				out = typedLCS5(f[1], tr.UnInts(f[2]), tr.UnInts(f[3]))
				break
			}
			if funcTyped(f[1]) {
				out = execFuncTyped(f)
				break
			}
			pre, spare := parseWin(f, 4)
			wa := mkWindow(unInts5(f[2]), pre, spare) // unInts5: also "v*n", "a~b" (round5.go)
			var wb window
			if pre < 0 {
				wb = mkWindow(unInts5(f[3]), -1, 0)
			} else {
				wb = mkWindow(unInts5(f[3]), spare, pre)
			}
			as, bs := wa.w, wb.w
			as0, bs0 := slices.Clone(wa.backing), slices.Clone(wb.backing)
			var res []int
			switch {
			case f[1] == "e" && (len(as)+len(bs))%2 == 1:
				// every other line through a NAMED slice type (the functions are generic in Slice ~[]T)
				res = slice.LCS(namedInts(as), namedInts(bs))
			case f[1] == "e":
				res = slice.LCS(as, bs)
			case (len(as)+len(bs))%2 == 1:
				res = slice.LCSFunc(namedInts(as), namedInts(bs), hookEq(eqFor(f[1])))
			default:
				res = slice.LCSFunc(as, bs, hookEq(eqFor(f[1])))
			}
			afterCall()
			m := !slices.Equal(wa.backing, as0) || !slices.Equal(wb.backing, bs0)
			shown := tr.Ints(res)
			nl := "s"
			if res == nil {
				nl = "z"
			}
			as1, bs1 := slices.Clone(wa.backing), slices.Clone(wb.backing)
			res = res[:cap(res)]
			for i := range res {
				res[i] = poison
			}
			a := !slices.Equal(wa.backing, as1) || !slices.Equal(wb.backing, bs1)
			out = nl + " " + shown + " m" + tr.B(m) + " a" + tr.B(a)
		case "I", "N":
			if typedMode(f[1]) {
				out = typedLIS(f[0] == "I", f[1], tr.UnInts(f[2]))
				break
			}
			if funcTyped(f[1]) {
				out = execFuncTyped(f)
				break
			}
			pre, spare := parseWin(f, 3)
			wv := mkWindow(tr.UnInts(f[2]), pre, spare)
			vs := wv.w
			vs0 := slices.Clone(wv.backing)
			var res []int
			switch {
			case f[0] == "I" && f[1] == "n" && len(vs)%2 == 1: // a NAMED slice type
				res = slice.LIS(namedInts(vs))
			case f[0] == "N" && f[1] == "n" && len(vs)%2 == 1:
				res = slice.LNDS(namedInts(vs))
			case f[0] == "I" && f[1] == "n":
				res = slice.LIS(vs)
			case f[0] == "I":
				res = slice.LISFunc(vs, hookCmp(cmpFor(f[1])))
			case f[1] == "n":
				res = slice.LNDS(vs)
			default:
				res = slice.LNDSFunc(vs, hookCmp(cmpFor(f[1])))
			}
			afterCall()
			m := !slices.Equal(wv.backing, vs0)
			shown := tr.Ints(res)
			vs1 := slices.Clone(wv.backing)
			res = res[:cap(res)]
			for i := range res {
				res[i] = poison
			}
			a := !slices.Equal(wv.backing, vs1)
			out = shown + " m" + tr.B(m) + " a" + tr.B(a)
		default:
			out = "?"
		}
	})
	if p == "hang" {
		hangs++
	}
	if p != "" {
		return p
	}
	return out
}

// ---- typed modes: slice.LIS / slice.LNDS (the cmp.Ordered wrappers) on element types and values
// the int-coded modes cannot express.  The trace carries small codes; code order = value order
// under cmp.Compare, so the driver compares codes.
//
//	b  []int     {MinInt, MinInt+1, -2, -1, 0, 1, 2, MaxInt-1, MaxInt}   (differences overflow int)
//	h  []int8    {-128, -127, -1, 0, 1, 126, 127}
//	f  []float64 {NaN, -Inf, -1.5, 0, 1.5, +Inf}   (cmp.Compare puts NaN first and equal to itself)
//	s  []string  {"", "0", "00", "1", "a", "ab", "b"}
var extInt = []int{math.MinInt, math.MinInt + 1, -2, -1, 0, 1, 2, math.MaxInt - 1, math.MaxInt}
var extInt8 = []int8{-128, -127, -1, 0, 1, 126, 127}
var extFloat = []float64{math.NaN(), math.Inf(-1), -1.5, 0, 1.5, math.Inf(1)}
var extString = []string{"", "0", "00", "1", "a", "ab", "b"}

func typedMode(m string) bool {
	return m == "b" || m == "h" || m == "f" || m == "s" || m == "g" || m == "j" || m == "y" || m == "w" || m == "u"
}

func typedCodes(m string) int {
	switch m {
	case "b":
		return len(extInt)
	case "h":
		return len(extInt8)
	case "f":
		return len(extFloat)
	case "g":
		return len(collTable)
	case "j":
		return len(extU64)
	}
	return len(extString)
}

func typedRun[T cmp.Ordered](strict bool, table []T, codes []int) string {
	vs := make([]T, len(codes))
	for i, c := range codes {
		if c < 0 || c >= len(table) {
			return "?"
		}
		vs[i] = table[c]
	}
	in := slices.Clone(vs)
	var res []T
	if strict {
		res = slice.LIS(vs)
	} else {
		res = slice.LNDS(vs)
	}
	afterCall()
	same := func(a, b T) bool { return cmp.Compare(a, b) == 0 }
	m := !slices.EqualFunc(vs, in, same)
	back := make([]int, len(res))
	for i, r := range res {
		back[i] = -1
		for c, t := range table {
			if same(t, r) {
				back[i] = c
			}
		}
	}
	return tr.Ints(back) + " m" + tr.B(m) + " a0"
}

func typedLIS(strict bool, mode string, codes []int) string {
	switch mode {
	case "b":
		return typedRun(strict, extInt, codes)
	case "h":
		return typedRun(strict, extInt8, codes)
	case "f":
		return typedRun(strict, extFloat, codes)
	case "g":
		return typedRun(strict, collTable, codes)
	case "j":
		return typedRun(strict, extU64, codes)
	case "y", "w", "u":
		return typedLIS5(strict, mode, codes)
	}
	return typedRun(strict, extString, codes)
}

// allLists calls f with every list over keys 0..k-1 of length 0..n.
func allLists(k, n int, f func(keys []int)) {
	var rec func(cur []int, left int)
	rec = func(cur []int, left int) {
		f(cur)
		if left == 0 {
			return
		}
		for a := 0; a < k; a++ {
			rec(append(cur[:len(cur):len(cur)], a), left-1)
		}
	}
	rec(nil, n)
}

// withPayload turns keys into elements key*100 + base + position.
func withPayload(keys []int, base int) []int {
	out := make([]int, len(keys))
	for i, k := range keys {
		out[i] = k*100 + base + i
	}
	return out
}

func plain(keys []int) []int {
	out := make([]int, len(keys))
	for i, k := range keys {
		out[i] = k * 100
	}
	return out
}

func hasDup(keys []int) bool {
	seen := map[int]bool{}
	for _, k := range keys {
		if seen[k] {
			return true
		}
		seen[k] = true
	}
	return false
}

func lcsTags(a, b []int) (bool, []string) {
	var tags []string
	switch {
	case len(a) == 0 || len(b) == 0:
		tags = append(tags, "lcs-empty-input")
	case len(b) < len(a):
		tags = append(tags, "lcs-swapped")
	case len(b) == len(a):
		tags = append(tags, "lcs-equal-length")
	default:
		tags = append(tags, "lcs-not-swapped")
	}
	nt := len(a) > 0 && len(b) > 0 && (hasDup(a) || hasDup(b))
	if nt {
		tags = append(tags, "lcs-repeated-symbols")
	}
	return nt, tags
}

// winField picks a window shape; n is a running counter so that the exhaustive scopes cycle
// deterministically through the shapes.
var winShapes = [][2]int{{0, 0}, {0, 3}, {2, 0}, {1, 2}, {0, 1}}

func winField(n int) (string, []string) {
	w := winShapes[n%len(winShapes)]
	var tags []string
	if w[0] > 0 {
		tags = append(tags, "window-cells-before")
	}
	if w[1] > 0 {
		tags = append(tags, "window-spare-capacity")
	}
	if w[0] == 0 && w[1] == 0 {
		return "", tags
	}
	return " w" + strconv.Itoa(w[0]) + "," + strconv.Itoa(w[1]), tags
}

var emitted int

func emitLCS(g *tr.G, mode string, a, b []int, ka, kb []int, extra ...string) {
	nt, tags := lcsTags(ka, kb)
	emitted++
	wf, wt := winField(emitted)
	tags = append(append(tags, wt...), "lcs-mode-"+mode)
	tags = append(tags, extra...)
	if (len(a) == 0 || len(b) == 0) && emitted%3 == 0 {
		wf, tags = " wn", append(tags, "lcs-nil-input")
	}
	g.Emit("L "+mode+" "+tr.Ints(a)+" "+tr.Ints(b)+wf, nt, tags...)
}

func lisTags(keys []int) (bool, []string) {
	var tags []string
	dup := hasDup(keys)
	if dup {
		tags = append(tags, "lis-ties")
	}
	run := false
	for i := 1; i < len(keys); i++ {
		if keys[i] == keys[i-1] {
			run = true
		}
	}
	if run {
		tags = append(tags, "lis-adjacent-equal-run")
	}
	if slices.IsSorted(keys) && len(keys) > 1 {
		tags = append(tags, "lis-all-fast-path-natural")
	}
	if len(keys) == 0 {
		tags = append(tags, "lis-empty")
	}
	return dup, tags
}

func emitLIS(g *tr.G, mode string, keys []int, vs []int, extra ...string) {
	nt, tags := lisTags(keys)
	tags = append(tags, extra...)
	emitted++
	wf, wt := winField(emitted)
	tags = append(append(tags, wt...), "lis-mode-"+mode)
	if len(vs) == 0 && emitted%3 == 0 {
		wf, tags = " wn", append(tags, "lis-nil-input")
	}
	if len(vs) == 0 && wf != "" && wf != " wn" && !strings.HasSuffix(wf, ",0") {
		tags = append(tags, "lis-empty-with-spare-capacity")
	}
	g.Emit("I "+mode+" "+tr.Ints(vs)+wf, nt, tags...)
	g.Emit("N "+mode+" "+tr.Ints(vs)+wf, nt, tags...)
}

// randKeys: sequences with many ties: small alphabets, runs, nearly sorted stretches.
func randKeys(r *tr.Rand, maxLen int) []int {
	n := r.Intn(maxLen + 1)
	k := r.Range(1, 6)
	out := make([]int, 0, n)
	style := r.Intn(5)
	cur := r.Intn(k)
	for len(out) < n {
		switch style {
		case 0: // uniform
			cur = r.Intn(k)
		case 1: // runs of equal keys
			if r.Chance(1, 3) {
				cur = r.Intn(k)
			}
		case 2: // mostly ascending with dips
			if r.Chance(1, 4) {
				cur = r.Intn(k)
			} else if r.Chance(1, 2) && cur < k-1 {
				cur++
			}
		case 3: // mostly descending
			if r.Chance(1, 4) {
				cur = r.Intn(k)
			} else if r.Chance(1, 2) && cur > 0 {
				cur--
			}
		case 4: // wide alphabet, few ties
			cur = r.Intn(4 * k)
		}
		out = append(out, cur)
	}
	return out
}

// mutate derives a second sequence from base by deletions, insertions and duplications, so that
// the two share long common runs.
func mutate(r *tr.Rand, base []int, k int) []int {
	var out []int
	for _, x := range base {
		switch {
		case r.Chance(1, 6): // delete
		case r.Chance(1, 8): // insert before
			out = append(out, r.Intn(k), x)
		case r.Chance(1, 10): // duplicate
			out = append(out, x, x)
		case r.Chance(1, 12): // replace
			out = append(out, r.Intn(k))
		default:
			out = append(out, x)
		}
	}
	return out
}

func main() {
	tr.Main("C12: ROUND 6 (round6.go): constructed LARGE inputs for LCS above 2^20 and 2^24 table cells (1100 x 2200 and 4100 x 4101 elements; thorough: lengths around the square roots of 2^20 .. 2^24 against the same length, one more, twice the length, and thin-against-long pairs) made of blocks of different elements so that the optimum is known from the construction -- as ++ junk, junk ++ as, a block in the middle, the shorter input around the middle of the longer or split k : n-k between its ends, every second element, long common prefix / suffix, one element inserted into a run of identical elements, x y x y against x y, one element doubled -- both argument orders, S lines of mode e (optimum = elements shared as multisets where the result reaches that bound, the table on arrays otherwise). LCS over every pair of lists of 3 symbols up to length 4 (quick) / 5 (thorough) with key-only equality and position payloads (which element is returned is observable), the same pairs up to length 3 / 4 under two equivalences coarser than key identity, an asymmetric test (key(a) <= key(b): pins the argument order of eq) and a non-reflexive one (== at NaN), plain == over 2 symbols to length 6 / 7, random pairs derived from a common base by edits (long common runs, alphabets of 2-5 symbols, lengths to 49) under all six tests; LIS and LNDS over every list of 4 symbols up to length 6 (quick) / 8 (thorough) under natural, reversed and two coarse-preorder key comparisons (key/2, key%3: distinct keys tie, payloads tell them apart), and up to length 5 / 8 under difference-valued comparisons of several magnitudes (a-b, 3(a-b), 7(b-a), MinInt/MaxInt) and the cmp.Ordered wrappers, random lists with runs of equal keys, nearly sorted and nearly reversed (lengths to 60 / 99) under all ten comparisons. Every input slice is a window into a larger array (five shapes: cells before, spare capacity after); the whole backing arrays are compared before/after each call and again after the returned slice has been overwritten up to its capacity (m/a flags). Round 4: the same line forms once more behind preludes (P lines: a recovered panic inside eq / cmp at the first call, mid-way, in the last row or at the very last call, a much larger call that runs to its end; postludes between the call and the look at its result; pools emptied before each); LCS of two views of ONE array (identical, either a prefix of the other, same end, nested, overlapping, disjoint) under all six tests; []string of pairs with equal 32-bit hashes (FNV-1/1a, CRC-32, Adler-32, 31/33-polynomials, sdbm) through LCS, LIS and LNDS, []uint64 around 2^53 and 2^63, ints above 2^53, nil inputs; run-length sweeps for LIS and LNDS (a run of exactly L, a lower run of L, one element in between; ascending, plateaus, staircases; natural and reversed): every L to 256, every fourth L to 600 plus the multiples of 64 and 100 (thorough: every L to 600 in every shape), sizes 2^k-1, 2^k, 2^k+1 to 1025 (2049). Round 5: LCS with BOTH inputs long -- every L in 0..300 against L, L+1, L-1 and 2L (either order) in two of seven shapes per pair (all equal; the same distinct elements, every element twice on the longer side; exactly one common element; random; derived from a common base; one side reversed; periodic -- thorough: all seven) under all six tests; a duplicate-free side of every length 1..100 (300) against the same sequence with ONE key twice (in place, a few places later, at either end), both argument orders; two views of one array of every length 0..300 (s and s[:k] in both orders, two adjacent halves); lines above 65 x 130 elements (S, T) are judged by the property alone with the reference table written on arrays and are not replayed on the model; LIS / LNDS of recipe-made inputs (G: ascending, descending, one plateau, plateaus of 256, sawtooth, pseudo-random, two interleaved runs; the last element above everything / a new minimum / in the middle / untouched) of every length to 150 and of exactly 2^15, 2^16-1, 2^16, 2^16+1 elements (thorough: also 2^8, 2^12, 2^15 +-1, every base and ending), records bounded (length, digest, positions as runs), optimum by an O(n log n) reference; calls back into the package from inside the case's own eq / cmp (P @j:...), complete or panicking inside and recovered there; the cmp.Ordered wrappers on []byte, []int16 and []float32 (both zeros, NaN, infinities), LCS on []byte, []bool, []float32, a 40-byte struct and pointers; LCSFunc / LISFunc / LNDSFunc on a 40-byte struct and on pointers to it (modes K, Q); one LCS input of exactly 2^15 and 2^16-1, 2^16, 2^16+1 elements against a thin one; every other int line through a named slice type. A case is non-trivial when an input contains a repeated key; distinct = distinct input lines.",
		exec, func(g *tr.G) {
			if g.Prop != "C12" {
				return
			}
			// round 4, first: cases behind preludes (round4.go; first, while the heap is small: every
			// one of them starts with two garbage collections)
			genPreludes(g)
			genNested(g) // round 5: calls made from inside the case's own callback (round5.go)
			// ---- LCS, exhaustive
			var lists3, lists2 [][]int
			allLists(3, g.Scale(4, 5), func(ks []int) { lists3 = append(lists3, slices.Clone(ks)) })
			allLists(2, g.Scale(6, 7), func(ks []int) { lists2 = append(lists2, slices.Clone(ks)) })
			for _, a := range lists3 {
				for _, b := range lists3 {
					emitLCS(g, "k", withPayload(a, 0), withPayload(b, 50), a, b, "lcs-exhaustive-3sym")
					// the coarser, asymmetric and non-reflexive tests: a smaller scope in the quick tier
					if g.Thorough() && len(a) <= 4 && len(b) <= 4 || len(a) <= 3 && len(b) <= 3 {
						for _, mode := range []string{"c", "m", "o", "p"} {
							emitLCS(g, mode, withPayload(a, 0), withPayload(b, 50), a, b, "lcs-exhaustive-3sym")
						}
					}
				}
			}
			for _, a := range lists2 {
				for _, b := range lists2 {
					if g.Thorough() || (len(a)+len(b))%2 == 0 {
						emitLCS(g, "e", plain(a), plain(b), a, b, "lcs-exhaustive-2sym")
					} else {
						emitLCS(g, "k", withPayload(a, 0), withPayload(b, 50), a, b, "lcs-exhaustive-2sym")
					}
				}
			}
			// ---- LCS, random with long common runs
			for i := 0; i < g.Scale(1500, 40000); i++ {
				k := g.R.Range(2, 5)
				n := g.R.Intn(g.Scale(40, 90) + 1)
				base := make([]int, n)
				for j := range base {
					if j > 0 && g.R.Chance(1, 3) {
						base[j] = base[j-1]
					} else {
						base[j] = g.R.Intn(k)
					}
				}
				a, b := mutate(g.R, base, k), mutate(g.R, base, k)
				if len(a) > 49 {
					a = a[:49]
				}
				if len(b) > 49 {
					b = b[:49]
				}
				if g.R.Chance(1, 5) {
					emitLCS(g, "e", plain(a), plain(b), a, b, "lcs-random")
				} else {
					mode := tr.Pick(g.R, []string{"k", "k", "c", "m", "o", "p"})
					emitLCS(g, mode, withPayload(a, 0), withPayload(b, 50), a, b, "lcs-random")
				}
			}
			// ---- LIS / LNDS, exhaustive
			allLists(4, g.Scale(6, 8), func(ks []int) {
				vs := withPayload(ks, 0)
				emitLIS(g, "k", ks, vs, "lis-exhaustive")
				emitLIS(g, "r", ks, vs, "lis-exhaustive")
				emitLIS(g, "c", ks, vs, "lis-exhaustive")
				emitLIS(g, "m", ks, vs, "lis-exhaustive")
				if g.Thorough() || len(ks) <= 5 {
					emitLIS(g, "d", ks, vs, "lis-exhaustive")
					emitLIS(g, "n", ks, plain(ks), "lis-exhaustive")
					emitLIS(g, "t", ks, vs, "lis-exhaustive")
					emitLIS(g, "q", ks, vs, "lis-exhaustive")
					emitLIS(g, "x", ks, vs, "lis-exhaustive")
				}
			})
			// ---- LIS / LNDS, random
			for i := 0; i < g.Scale(1500, 40000); i++ {
				ks := randKeys(g.R, g.Scale(60, 99))
				mode := tr.Pick(g.R, []string{"k", "k", "r", "d", "n", "t", "q", "x", "c", "m"})
				if mode == "n" {
					// whole-int comparison: payloads would break ties, so use plain keys half the time
					if g.R.Bool() {
						emitLIS(g, mode, ks, plain(ks), "lis-random")
					} else {
						emitLIS(g, mode, ks, withPayload(ks, 0), "lis-random")
					}
				} else {
					emitLIS(g, mode, ks, withPayload(ks, 0), "lis-random")
				}
			}
			// ---- LIS / LNDS wrappers on other element types and on extreme values (typed modes)
			for _, mode := range []string{"b", "h", "f", "s"} {
				k := typedCodes(mode)
				allLists(k, g.Scale(3, 4), func(ks []int) {
					nt, tags := lisTags(ks)
					g.Emit("I "+mode+" "+tr.Ints(ks), nt, append(tags, "lis-typed-"+mode, "lis-typed-exhaustive")...)
					g.Emit("N "+mode+" "+tr.Ints(ks), nt, append(tags, "lis-typed-"+mode)...)
				})
				for i := 0; i < g.Scale(150, 4000); i++ {
					n := g.R.Range(5, 40)
					ks := make([]int, n)
					for j := range ks {
						ks[j] = g.R.Intn(k)
					}
					nt, tags := lisTags(ks)
					g.Emit("I "+mode+" "+tr.Ints(ks), nt, append(tags, "lis-typed-"+mode)...)
					g.Emit("N "+mode+" "+tr.Ints(ks), nt, append(tags, "lis-typed-"+mode)...)
				}
			}
			// round 4: views of one array, colliding strings, run-length sweeps, sizes (round4.go)
			round4(g)
			// round 5: two-sided sweeps, one repeated key, shared storage at every length, exact large
			// sizes, re-entrant callbacks, more element types (round5.go)
			round5(g)
			// round 6: constructed large cases, above 2^20 and 2^24 table cells (round6.go)
			genConstructed(g)
		})
}
