// Command lcslistrace drives slice.LCS/LCSFunc, slice.LIS/LISFunc and slice.LNDS/LNDSFunc of the
// working tree and records inputs and observables, one case per line.
//
// Elements are non-negative ints e with key(e) = e/100 and payload(e) = e%100, so that WHICH of
// several equal-keyed elements is returned can be observed.
//
//	L <mode> <as> <bs> | <z|s> <ints> m<0|1> a<0|1>
//	    mode e: slice.LCS (==);  mode k: slice.LCSFunc with eq = equal keys
//	    z = result is nil, s = non-nil;  m1 = an input slice was modified by the call;
//	    a1 = overwriting the returned slice changed an input (aliasing)
//	I <mode> <vs> | <ints> m<0|1> a<0|1>     LIS
//	N <mode> <vs> | <ints> m<0|1> a<0|1>     LNDS
//	    mode n: slice.LIS / slice.LNDS (cmp.Compare on the whole int)
//	    mode k: ...Func with cmp = compare keys;  mode r: compare keys, reversed;
//	    mode d: cmp = key(a)-key(b) (results other than -1/0/1)
//
// A panic is recorded as "panic:<kind>", a call that does not return within the watchdog as "hang"
// (after three hangs the remaining cases are recorded as "skipped-after-hangs", because every
// hung call keeps spinning in its goroutine).
package main

import (
	"cmp"
	"slices"
	"strings"
	"time"

	"github.com/creachadair/mds/slice"
	"verif/harness/internal/tr"
)

func key(e int) int { return e / 100 }

func cmpFor(mode string) func(a, b int) int {
	switch mode {
	case "k":
		return func(a, b int) int { return cmp.Compare(key(a), key(b)) }
	case "r":
		return func(a, b int) int { return cmp.Compare(key(b), key(a)) }
	case "d":
		return func(a, b int) int { return key(a) - key(b) }
	}
	return nil
}

const poison = 999999

var hangs int

func exec(in string) string {
	f := strings.Fields(in)
	var out string
	if hangs >= 3 {
		return "skipped-after-hangs"
	}
	p := tr.Guard(2*time.Second, func() {
		switch f[0] {
		case "L":
			as, bs := tr.UnInts(f[2]), tr.UnInts(f[3])
			if as == nil {
				as = []int{}
			}
			if bs == nil {
				bs = []int{}
			}
			as0, bs0 := slices.Clone(as), slices.Clone(bs)
			var res []int
			if f[1] == "e" {
				res = slice.LCS(as, bs)
			} else {
				res = slice.LCSFunc(as, bs, func(a, b int) bool { return key(a) == key(b) })
			}
			m := !slices.Equal(as, as0) || !slices.Equal(bs, bs0)
			shown := tr.Ints(res)
			nl := "s"
			if res == nil {
				nl = "z"
			}
			as1, bs1 := slices.Clone(as), slices.Clone(bs)
			res = res[:cap(res)]
			for i := range res {
				res[i] = poison
			}
			a := !slices.Equal(as, as1) || !slices.Equal(bs, bs1)
			out = nl + " " + shown + " m" + tr.B(m) + " a" + tr.B(a)
		case "I", "N":
			vs := tr.UnInts(f[2])
			if vs == nil {
				vs = []int{}
			}
			vs0 := slices.Clone(vs)
			var res []int
			switch {
			case f[0] == "I" && f[1] == "n":
				res = slice.LIS(vs)
			case f[0] == "I":
				res = slice.LISFunc(vs, cmpFor(f[1]))
			case f[1] == "n":
				res = slice.LNDS(vs)
			default:
				res = slice.LNDSFunc(vs, cmpFor(f[1]))
			}
			m := !slices.Equal(vs, vs0)
			shown := tr.Ints(res)
			vs1 := slices.Clone(vs)
			res = res[:cap(res)]
			for i := range res {
				res[i] = poison
			}
			a := !slices.Equal(vs, vs1)
			out = shown + " m" + tr.B(m) + " a" + tr.B(a)
		default:
			out = "?"
		}
	})
	if p == "hang" {
		hangs++
	}
	if p != "" {
		return p
	}
	return out
}

// allLists calls f with every list over keys 0..k-1 of length 0..n.
func allLists(k, n int, f func(keys []int)) {
	var rec func(cur []int, left int)
	rec = func(cur []int, left int) {
		f(cur)
		if left == 0 {
			return
		}
		for a := 0; a < k; a++ {
			rec(append(cur[:len(cur):len(cur)], a), left-1)
		}
	}
	rec(nil, n)
}

// withPayload turns keys into elements key*100 + base + position.
func withPayload(keys []int, base int) []int {
	out := make([]int, len(keys))
	for i, k := range keys {
		out[i] = k*100 + base + i
	}
	return out
}

func plain(keys []int) []int {
	out := make([]int, len(keys))
	for i, k := range keys {
		out[i] = k * 100
	}
	return out
}

func hasDup(keys []int) bool {
	seen := map[int]bool{}
	for _, k := range keys {
		if seen[k] {
			return true
		}
		seen[k] = true
	}
	return false
}

func lcsTags(a, b []int) (bool, []string) {
	var tags []string
	switch {
	case len(a) == 0 || len(b) == 0:
		tags = append(tags, "lcs-empty-input")
	case len(b) < len(a):
		tags = append(tags, "lcs-swapped")
	case len(b) == len(a):
		tags = append(tags, "lcs-equal-length")
	default:
		tags = append(tags, "lcs-not-swapped")
	}
	nt := len(a) > 0 && len(b) > 0 && (hasDup(a) || hasDup(b))
	if nt {
		tags = append(tags, "lcs-repeated-symbols")
	}
	return nt, tags
}

func emitLCS(g *tr.G, mode string, a, b []int, ka, kb []int, extra ...string) {
	nt, tags := lcsTags(ka, kb)
	g.Emit("L "+mode+" "+tr.Ints(a)+" "+tr.Ints(b), nt, append(tags, extra...)...)
}

func lisTags(keys []int) (bool, []string) {
	var tags []string
	dup := hasDup(keys)
	if dup {
		tags = append(tags, "lis-ties")
	}
	run := false
	for i := 1; i < len(keys); i++ {
		if keys[i] == keys[i-1] {
			run = true
		}
	}
	if run {
		tags = append(tags, "lis-adjacent-equal-run")
	}
	if slices.IsSorted(keys) && len(keys) > 1 {
		tags = append(tags, "lis-all-fast-path-natural")
	}
	if len(keys) == 0 {
		tags = append(tags, "lis-empty")
	}
	return dup, tags
}

func emitLIS(g *tr.G, mode string, keys []int, vs []int, extra ...string) {
	nt, tags := lisTags(keys)
	tags = append(tags, extra...)
	g.Emit("I "+mode+" "+tr.Ints(vs), nt, tags...)
	g.Emit("N "+mode+" "+tr.Ints(vs), nt, tags...)
}

// randKeys: sequences with many ties: small alphabets, runs, nearly sorted stretches.
func randKeys(r *tr.Rand, maxLen int) []int {
	n := r.Intn(maxLen + 1)
	k := r.Range(1, 6)
	out := make([]int, 0, n)
	style := r.Intn(5)
	cur := r.Intn(k)
	for len(out) < n {
		switch style {
		case 0: // uniform
			cur = r.Intn(k)
		case 1: // runs of equal keys
			if r.Chance(1, 3) {
				cur = r.Intn(k)
			}
		case 2: // mostly ascending with dips
			if r.Chance(1, 4) {
				cur = r.Intn(k)
			} else if r.Chance(1, 2) && cur < k-1 {
				cur++
			}
		case 3: // mostly descending
			if r.Chance(1, 4) {
				cur = r.Intn(k)
			} else if r.Chance(1, 2) && cur > 0 {
				cur--
			}
		case 4: // wide alphabet, few ties
			cur = r.Intn(4 * k)
		}
		out = append(out, cur)
	}
	return out
}

// mutate derives a second sequence from base by deletions, insertions and duplications, so that
// the two share long common runs.
func mutate(r *tr.Rand, base []int, k int) []int {
	var out []int
	for _, x := range base {
		switch {
		case r.Chance(1, 6): // delete
		case r.Chance(1, 8): // insert before
			out = append(out, r.Intn(k), x)
		case r.Chance(1, 10): // duplicate
			out = append(out, x, x)
		case r.Chance(1, 12): // replace
			out = append(out, r.Intn(k))
		default:
			out = append(out, x)
		}
	}
	return out
}

func main() {
	tr.Main("C12: LCS over every pair of lists of 3 symbols up to length 4 (quick) / 5 (thorough) with key-only equality and position payloads (which element is returned is observable) and with plain ==, pairs over 2 symbols to length 6 / 7, random pairs derived from a common base by edits (long common runs, alphabets of 2-5 symbols, lengths to 49); LIS and LNDS over every list of 4 symbols up to length 6 (quick) / 8 (thorough) under natural, reversed and difference-valued key comparison with position payloads, the cmp.Ordered wrappers, random lists with runs of equal keys, nearly sorted and nearly reversed (lengths to 60 / 99). Inputs are compared before/after each call and the returned slice is overwritten afterwards (m/a flags). A case is non-trivial when an input contains a repeated key; distinct = distinct input lines.",
		exec, func(g *tr.G) {
			if g.Prop != "C12" {
				return
			}
			// ---- LCS, exhaustive
			var lists3, lists2 [][]int
			allLists(3, g.Scale(4, 5), func(ks []int) { lists3 = append(lists3, slices.Clone(ks)) })
			allLists(2, g.Scale(6, 7), func(ks []int) { lists2 = append(lists2, slices.Clone(ks)) })
			for _, a := range lists3 {
				for _, b := range lists3 {
					emitLCS(g, "k", withPayload(a, 0), withPayload(b, 50), a, b, "lcs-exhaustive-3sym")
				}
			}
			for _, a := range lists2 {
				for _, b := range lists2 {
					if g.Thorough() || (len(a)+len(b))%2 == 0 {
						emitLCS(g, "e", plain(a), plain(b), a, b, "lcs-exhaustive-2sym")
					} else {
						emitLCS(g, "k", withPayload(a, 0), withPayload(b, 50), a, b, "lcs-exhaustive-2sym")
					}
				}
			}
			// ---- LCS, random with long common runs
			for i := 0; i < g.Scale(1500, 40000); i++ {
				k := g.R.Range(2, 5)
				n := g.R.Intn(g.Scale(40, 90) + 1)
				base := make([]int, n)
				for j := range base {
					if j > 0 && g.R.Chance(1, 3) {
						base[j] = base[j-1]
					} else {
						base[j] = g.R.Intn(k)
					}
				}
				a, b := mutate(g.R, base, k), mutate(g.R, base, k)
				if len(a) > 49 {
					a = a[:49]
				}
				if len(b) > 49 {
					b = b[:49]
				}
				if g.R.Chance(1, 4) {
					emitLCS(g, "e", plain(a), plain(b), a, b, "lcs-random")
				} else {
					emitLCS(g, "k", withPayload(a, 0), withPayload(b, 50), a, b, "lcs-random")
				}
			}
			// ---- LIS / LNDS, exhaustive
			allLists(4, g.Scale(6, 8), func(ks []int) {
				vs := withPayload(ks, 0)
				emitLIS(g, "k", ks, vs, "lis-exhaustive")
				emitLIS(g, "r", ks, vs, "lis-exhaustive")
				if g.Thorough() || len(ks) <= 5 {
					emitLIS(g, "d", ks, vs, "lis-exhaustive")
					emitLIS(g, "n", ks, plain(ks), "lis-exhaustive")
				}
			})
			// ---- LIS / LNDS, random
			for i := 0; i < g.Scale(1500, 40000); i++ {
				ks := randKeys(g.R, g.Scale(60, 99))
				mode := tr.Pick(g.R, []string{"k", "k", "r", "d", "n"})
				if mode == "n" {
					// whole-int comparison: payloads would break ties, so use plain keys half the time
					if g.R.Bool() {
						emitLIS(g, mode, ks, plain(ks), "lis-random")
					} else {
						emitLIS(g, mode, ks, withPayload(ks, 0), "lis-random")
					}
				} else {
					emitLIS(g, mode, ks, withPayload(ks, 0), "lis-random")
				}
			}
		})
}
