// Round 4: state carried across calls (preludes), equalities (run-length sweeps), conditions on
// values (hash-colliding strings, ints above 2^53), identity (two views of one array, nil).
//
//	P <prelude>[/<postlude>] <any other line>
//	    Calls made BEFORE the case, in the same goroutine, their results thrown away and their
//	    panics recovered; the case that follows must behave as if they had never happened (the
//	    model ignores the prelude: its functions have no state).  The calls of <postlude> are made
//	    right AFTER the call of the case and before its result is looked at: the result must not
//	    live in storage a later call reuses.  <prelude>, <postlude>: "-" or a '+'-joined list of
//	    <fn><n>.<m>.<k>.<s>:  fn l = LCSFunc, a = LCS on []any, i = LISFunc, n = LNDSFunc (all on
//	    their own data, never the case's);  n, m = lengths of the inputs (m unused by i/n);
//	    k = the callback panics when it is called for the k-th time (0: never, the call runs to its
//	    end; for a: the elements that make == panic sit at positions (k-1) mod n and (k-1)/n mod m);
//	    s = data recipe (0 all equal, 1 alternating, 2 pseudo-random over three values, 3 ascending,
//	    4 descending).
//
//	V <mode> <lo1> <hi1> <lo2> <hi2> <c> <arr> | <z|s> <ints> m<0|1> a<0|1>
//	    LCS / LCSFunc on TWO VIEWS OF ONE backing array (a private copy of arr): as = arr[lo1:hi1],
//	    bs = arr[lo2:hi2]; c = 1: three-index slices (cap = len).  The result depends on the values
//	    only.  Modes as in the L lines.  "?" when the bounds do not fit arr.
//
//	L g <codes> <codes>, I g <codes>, N g <codes>
//	    []string through slice.LCS / LIS / LNDS; a code is the rank (byte order) of a string in
//	    collTable: pairs of different strings with equal 32-bit hashes (the shared table
//	    corpus/common/hash-collisions.tsv: FNV-1a, FNV-1, CRC-32, Adler-32, the 31- and
//	    33-polynomials; plus sdbm, CRC-32C, folded 64-bit FNV), the empty string, a NUL, composed /
//	    decomposed and case-folding-equal runes.  Distinct codes are distinct strings.
//	I j / N j <codes>
//	    []uint64 through slice.LIS / LNDS: values around 2^53 (float64 rounds them together) and
//	    around 2^63 (signed conversions wrap).
//
// A window field "wn" (instead of w<pre>,<spare>) passes a nil slice for an empty input.
package main

import (
	"cmp"
	"fmt"
	"math"
	"os"
	"path/filepath"
	"runtime"
	"slices"
	"sort"
	"strconv"
	"strings"

	"github.com/creachadair/mds/slice"
	"verif/harness/internal/tr"
)

// ---------------------------------------------------------------- preludes

func preData(n, s, salt int) []int {
	out := make([]int, n)
	x := uint64(s*7919+salt)*2862933555777941757 + 3037000493
	for i := range out {
		switch s % 5 {
		case 0:
			out[i] = 7
		case 1:
			out[i] = (i + salt) % 2
		case 2:
			x = x*6364136223846793005 + 1442695040888963407
			out[i] = int((x >> 33) % 3)
		case 3:
			out[i] = i
		case 4:
			out[i] = n - i
		}
	}
	return out
}

type uncomparable struct{ v []int }

// postlude: calls to make right AFTER the call under test and before its result is read
// ("P <before>/<after> <line>"): a result must not live in storage that a later call reuses.
var postlude string

func afterCall() {
	if postlude != "" {
		p := postlude
		postlude = ""
		runPrelude(p)
	}
}

// setPrelude takes the field of a P line apart, makes the calls that come before the case and arms
// those that come after its call.
func setPrelude(field string) {
	before, after, _ := strings.Cut(field, "/")
	isolate()
	runPrelude(before)
	postlude = after
}

func runPrelude(spec string) {
	if spec == "" || spec == "-" {
		return
	}
	for _, one := range strings.Split(spec, "+") {
		if len(one) < 2 {
			continue
		}
		if one[0] == '@' { // armed: run from inside the case's own callback (round5.go)
			arm(one)
			continue
		}
		p := strings.Split(one[1:], ".")
		num := func(i int) int {
			if i < len(p) {
				v, _ := strconv.Atoi(p[i])
				return v
			}
			return 0
		}
		n, m, k, s := num(0), num(1), num(2), num(3)
		if n < 0 || n > 6000 || m < 0 || m > 6000 || s < 0 {
			continue
		}
		calls := 0
		tick := func() {
			calls++
			if calls == k {
				panic("prelude: the callback gives up")
			}
		}
		tr.Catch(func() {
			switch one[0] {
			case 'l':
				slice.LCSFunc(preData(n, s, 0), preData(m, s, 1), func(x, y int) bool { tick(); return x == y })
			case 'a':
				as, bs := make([]any, n), make([]any, m)
				for i, v := range preData(n, s, 0) {
					as[i] = v
				}
				for i, v := range preData(m, s, 1) {
					bs[i] = v
				}
				if k > 0 && n > 0 && m > 0 {
					as[(k-1)%n] = uncomparable{[]int{1}}
					bs[(k-1)/n%m] = uncomparable{[]int{1}}
				}
				slice.LCS(as, bs)
			case 'i':
				slice.LISFunc(preData(n, s, 0), func(x, y int) int { tick(); return cmp.Compare(x, y) })
			case 'n':
				slice.LNDSFunc(preData(n, s, 0), func(x, y int) int { tick(); return cmp.Compare(x, y) })
			}
		})
	}
}

// pickPrelude: one or two prelude calls sized against the case (la, lb = lengths of its inputs):
// as long as the case, one longer, twice as long, around 32/64/128, now and then much larger; the
// callback gives up at the first call, in the middle, in the last row, at the very last call, or
// never (a larger call that runs to its end).
func pickPrelude(r *tr.Rand, lis bool, la, lb int) (string, []string) {
	base := max(la, lb, 1)
	var parts []string
	tags := []string{"prelude"}
	nBefore := r.Range(1, 2)
	nAfter := 0
	switch r.Intn(6) {
	case 0:
		nAfter = 1
	case 1:
		nBefore, nAfter = 0, r.Range(1, 2)
	}
	for c := nBefore + nAfter; c > 0; c-- {
		size := func() int {
			switch r.Intn(8) {
			case 0:
				return base
			case 1:
				return base + 1
			case 2:
				return 2*base + 1
			case 3:
				return tr.Pick(r, []int{31, 32, 33, 63, 64, 65})
			case 4:
				return min(la, lb) + 1
			case 5:
				return r.Range(1, base+3)
			case 6:
				if r.Chance(1, 6) {
					return tr.Pick(r, []int{127, 128, 129, 200, 257, 300})
				}
				return base + 2
			}
			return base + r.Intn(4)
		}
		n, m := size(), size()
		var fn byte
		total := n * m // callback calls of a complete LCSFunc run
		switch {
		case lis:
			fn = "in"[r.Intn(2)]
			total = max(n-1, 1)
			if r.Chance(1, 8) {
				n = tr.Pick(r, []int{513, 1024, 1025, 4097})
				total = n - 1
			}
			if r.Chance(1, 10) {
				fn = 'l'
				total = n * m
			}
		case r.Chance(1, 6):
			fn = 'a'
		case r.Chance(1, 12):
			fn = "in"[r.Intn(2)]
			total = max(n-1, 1)
		default:
			fn = 'l'
		}
		k := 0
		switch r.Intn(7) {
		case 0: // never: a call that runs to its end
		case 1:
			k = 1
		case 2:
			k = total/2 + 1
		case 3:
			k = max(total-min(n, m), 1)
		case 4:
			k = max(total-1, 1)
		default:
			k = total
		}
		s := r.Intn(5)
		if fn == 'l' || fn == 'a' {
			s = r.Intn(3) // many equal pairs: every cell of the rows gets written
		}
		if k == 0 {
			tags = append(tags, "prelude-runs-to-end")
		} else {
			tags = append(tags, "prelude-callback-panics")
		}
		if max(n, m) >= 4*base && max(n, m) >= 100 {
			tags = append(tags, "prelude-much-larger")
		}
		parts = append(parts, string(fn)+strconv.Itoa(n)+"."+strconv.Itoa(m)+"."+strconv.Itoa(k)+"."+strconv.Itoa(s))
	}
	before, after := "-", ""
	if nBefore > 0 {
		before = strings.Join(parts[:nBefore], "+")
	}
	if nAfter > 0 {
		after = "/" + strings.Join(parts[nBefore:], "+")
		tags = append(tags, "postlude")
	}
	return before + after, tags
}

// isolate empties every sync.Pool (two collections: the second drops the victim caches), so that
// a P line starts from the state a fresh process has, whatever the P lines before it left behind,
// and fails when replayed alone if it fails here.
func isolate() {
	runtime.GC()
	runtime.GC()
}

// One processor: a forced collection then costs a few hundred microseconds whatever else the
// machine is doing (with many, its workers wait for each other: milliseconds under load).  The
// generators are sequential anyway.
func init() { runtime.GOMAXPROCS(1) }

// genPreludes: cases of every line form behind preludes.  They come FIRST in the trace: first
// every case alone in order of size (nothing irregular has been called yet, and no call follows a
// larger one), then every case behind its prelude.  A change that does not depend on earlier
// calls fails in the first block; one that does fails in the line whose prelude causes it, not
// in some later line without a prelude (whose failing input would not fail when replayed alone).
// Early also because the heap is small then: every P line starts with two garbage collections
// (their cost grows with the heap: the thorough tier has 4 times the P lines of the quick tier,
// not 20 times).
type heldLine struct {
	prelude, line string
	ptags, tags   []string
	size, small   int // of the longer and of the shorter input
	lis           bool
}

var held []heldLine

func flushPreludes(g *tr.G) {
	// the cases alone, in order of size: no call is preceded by a larger one ...
	// (LCSFunc sizes its rows by the SHORTER input: that one first)
	sort.SliceStable(held, func(i, j int) bool {
		if held[i].small != held[j].small {
			return held[i].small < held[j].small
		}
		return held[i].size < held[j].size
	})
	for _, h := range held {
		g.Emit(h.line, true, append([]string{"prelude-twin"}, h.tags...)...)
	}
	// ... then the largest cases of either family behind a much larger call that runs to its end (no
	// call so far was larger than these cases: if they fail, their own prelude is the reason) ...
	var anchors []heldLine
	for _, lis := range []bool{false, true} {
		for k, seen := len(held)-1, 0; k >= 0 && seen < 3; k-- {
			if held[k].lis == lis {
				anchors = append(anchors, held[k])
				seen++
			}
		}
	}
	for _, h := range anchors {
		n := min(4*max(h.size, 8), 300)
		h.prelude = fmt.Sprintf("l%d.%d.0.2", n, n)
		if h.lis {
			h.prelude = fmt.Sprintf("i%d.0.0.2+n%d.0.0.3", 8*n, 8*n)
		}
		g.Emit("P "+h.prelude+" "+h.line, true, append([]string{"prelude", "prelude-runs-to-end", "prelude-much-larger", "prelude-anchor"}, h.tags...)...)
	}
	// ... then every case behind its own prelude.
	for _, h := range held {
		g.Emit("P "+h.prelude+" "+h.line, true, append(h.ptags, h.tags...)...)
	}
	held = nil
	isolate() // what the last prelude left in a pool does not reach the lines that follow
}

func genPreludes(g *tr.G) {
	emit := func(line string, lis bool, la, lb int, tags ...string) {
		p, pt := pickPrelude(g.R, lis, la, lb)
		small := min(la, lb)
		if lis {
			small = la
		}
		held = append(held, heldLine{p, line, pt, tags, max(la, lb), small, lis})
	}
	win := func(i int) string { wf, _ := winField(i); return wf }
	// LCS: every pair of lists over 2 keys to length 3 under ==; random pairs from a common base
	// under all six tests
	var small [][]int
	allLists(2, 3, func(ks []int) { small = append(small, slices.Clone(ks)) })
	for _, a := range small {
		for _, b := range small {
			emit("L e "+tr.Ints(plain(a))+" "+tr.Ints(plain(b)), false, len(a), len(b), "prelude-lcs")
		}
	}
	for i := 0; i < g.Scale(800, 3000); i++ {
		k := g.R.Range(2, 5)
		n := g.R.Intn(41)
		base := make([]int, n)
		for j := range base {
			if j > 0 && g.R.Chance(1, 3) {
				base[j] = base[j-1]
			} else {
				base[j] = g.R.Intn(k)
			}
		}
		a, b := mutate(g.R, base, k), mutate(g.R, base, k)
		mode := tr.Pick(g.R, []string{"e", "k", "k", "c", "m", "o", "p"})
		if mode == "e" {
			emit("L e "+tr.Ints(plain(a))+" "+tr.Ints(plain(b))+win(i), false, len(a), len(b), "prelude-lcs")
		} else {
			emit("L "+mode+" "+tr.Ints(withPayload(a, 0))+" "+tr.Ints(withPayload(b, 50))+win(i), false, len(a), len(b), "prelude-lcs")
		}
	}
	// two views of one array
	for i := 0; i < g.Scale(300, 1000); i++ {
		n := g.R.Range(1, 30)
		arr := make([]int, n)
		for j := range arr {
			arr[j] = g.R.Intn(3)*100 + j
		}
		a := g.R.Intn(n + 1)
		b := g.R.Range(a, n)
		c := a
		if g.R.Bool() {
			c = g.R.Intn(n + 1)
		}
		d := g.R.Range(c, n)
		emit("V k "+strconv.Itoa(a)+" "+strconv.Itoa(b)+" "+strconv.Itoa(c)+" "+strconv.Itoa(d)+" "+strconv.Itoa(i%2)+" "+tr.Ints(arr),
			false, b-a, d-c, "prelude-views")
	}
	// strings
	for i := 0; i < g.Scale(200, 600); i++ {
		pick := func() []int {
			out := make([]int, g.R.Range(0, 10))
			for j := range out {
				out[j] = g.R.Intn(min(6, len(collTable)))
			}
			return out
		}
		a, b := pick(), pick()
		emit("L g "+tr.Ints(a)+" "+tr.Ints(b), false, len(a), len(b), "prelude-lcs-typed")
	}
	// LIS / LNDS: every list over 3 keys to length 4; random lists under all comparisons; runs
	// around 32 and 64 followed by a lower run
	allLists(3, 4, func(ks []int) {
		vs := withPayload(ks, 0)
		emit("I k "+tr.Ints(vs), true, len(vs), 0, "prelude-lis")
		emit("N k "+tr.Ints(vs), true, len(vs), 0, "prelude-lis")
	})
	for i := 0; i < g.Scale(800, 3000); i++ {
		ks := randKeys(g.R, 60)
		mode := tr.Pick(g.R, []string{"k", "k", "r", "d", "n", "t", "q", "x", "c", "m"})
		vs := withPayload(ks, 0)
		fn := "IN"[i%2 : i%2+1]
		emit(fn+" "+mode+" "+tr.Ints(vs)+win(i), true, len(vs), 0, "prelude-lis")
	}
	for _, L := range []int{2, 3, 31, 32, 33, 63, 64, 65, 100} {
		for _, shape := range []byte{'a', 'p', 's'} {
			vs := payloadMod(sweepKeys(L, shape))
			emit("I k "+tr.Ints(vs), true, len(vs), 0, "prelude-lis", "prelude-sweep")
			emit("N d "+tr.Ints(vs), true, len(vs), 0, "prelude-lis", "prelude-sweep")
		}
	}
	for i := 0; i < g.Scale(100, 300); i++ {
		mode := "gj"[i%2 : i%2+1]
		ks := make([]int, g.R.Range(1, 12))
		for j := range ks {
			ks[j] = g.R.Intn(min(typedCodes(mode), 8))
		}
		fn := "IN"[i/2%2 : i/2%2+1]
		emit(fn+" "+mode+" "+tr.Ints(ks), true, len(ks), 0, "prelude-lis-typed")
	}
	flushPreludes(g)
}

// ---------------------------------------------------------------- two views of one array

func execViews(f []string) string {
	if len(f) != 8 {
		return "?"
	}
	src := tr.UnInts(f[7])
	arr := make([]int, len(src)) // exact capacity
	copy(arr, src)
	var b [5]int
	for i := range b {
		v, err := strconv.Atoi(f[2+i])
		if err != nil {
			return "?"
		}
		b[i] = v
	}
	if !(0 <= b[0] && b[0] <= b[1] && b[1] <= len(arr) && 0 <= b[2] && b[2] <= b[3] && b[3] <= len(arr)) {
		return "?"
	}
	as, bs := arr[b[0]:b[1]], arr[b[2]:b[3]]
	if b[4] == 1 {
		as, bs = arr[b[0]:b[1]:b[1]], arr[b[2]:b[3]:b[3]]
	}
	arr0 := slices.Clone(arr)
	var res []int
	if f[1] == "e" {
		res = slice.LCS(as, bs)
	} else {
		res = slice.LCSFunc(as, bs, hookEq(eqFor(f[1])))
	}
	afterCall()
	m := !slices.Equal(arr, arr0)
	shown := tr.Ints(res)
	nl := "s"
	if res == nil {
		nl = "z"
	}
	arr1 := slices.Clone(arr)
	res = res[:cap(res)]
	for i := range res {
		res[i] = poison
	}
	a := !slices.Equal(arr, arr1)
	return nl + " " + shown + " m" + tr.B(m) + " a" + tr.B(a)
}

func viewKind(a, b, c, d int) string {
	switch {
	case a == c && b == d:
		return "views-identical"
	case a == c && d < b:
		return "views-second-is-prefix-of-first"
	case a == c:
		return "views-first-is-prefix-of-second"
	case b <= c || d <= a:
		return "views-disjoint"
	case (a <= c && d <= b) || (c <= a && b <= d):
		return "views-nested"
	}
	return "views-overlap"
}

func emitView(g *tr.G, mode string, arr []int, a, b, c, d, capLen int, tags ...string) {
	line := "V " + mode + " " + strconv.Itoa(a) + " " + strconv.Itoa(b) + " " + strconv.Itoa(c) + " " + strconv.Itoa(d) +
		" " + strconv.Itoa(capLen) + " " + tr.Ints(arr)
	keys := make([]int, len(arr))
	for i, v := range arr {
		keys[i] = key(v)
	}
	nt := hasDup(keys[a:b]) || hasDup(keys[c:d]) || (b-a > 0 && d-c > 0)
	g.Emit(line, nt, append([]string{"views", viewKind(a, b, c, d), "lcs-mode-" + mode}, tags...)...)
}

func genViews(g *tr.G) {
	nv := 0
	modes := []string{"e", "k", "p", "o", "c", "m"}
	// every pair of windows of every array over 2 keys to length 4 (5), all six tests in turn
	// (keys 1 and 2: key 2 is the one the non-reflexive test p relates to nothing)
	allLists(2, g.Scale(4, 5), func(ks []int) {
		for a := 0; a <= len(ks); a++ {
			for b := a; b <= len(ks); b++ {
				for c := 0; c <= len(ks); c++ {
					for d := c; d <= len(ks); d++ {
						nv++
						mode := modes[nv%len(modes)]
						arr := make([]int, len(ks))
						for i, k := range ks {
							arr[i] = (k + 1) * 100
							if mode != "e" {
								arr[i] += i
							}
						}
						emitView(g, mode, arr, a, b, c, d, nv/len(modes)%2, "views-exhaustive")
					}
				}
			}
		}
	})
	// random arrays to length 40 (a few to 150): same start with different lengths in both
	// argument orders, identical, shifted by a little, anything
	for i := 0; i < g.Scale(3000, 60000); i++ {
		n := g.R.Range(1, 40)
		if i%100 == 0 {
			n = g.R.Range(100, 150)
		}
		nsym := g.R.Range(1, 4)
		mode := tr.Pick(g.R, []string{"e", "e", "k", "k", "p", "o", "c", "m"})
		arr := make([]int, n)
		for j := range arr {
			k := g.R.Intn(nsym)
			if j > 0 && g.R.Chance(1, 3) {
				k = key(arr[j-1])
			}
			arr[j] = k * 100
			if mode != "e" {
				arr[j] += j % 100
			}
		}
		a := g.R.Intn(n + 1)
		if g.R.Chance(1, 3) {
			a = 0
		}
		b := g.R.Range(a, n)
		c, d := a, b
		switch g.R.Intn(6) {
		case 0: // bs := as[:k]
			d = g.R.Range(c, b)
		case 1: // as := bs[:k]
			d = g.R.Range(b, n)
		case 2: // identical
		case 3: // shifted by a little
			c = g.R.Range(max(0, a-3), min(n, a+3))
			d = g.R.Range(c, n)
		case 4: // same end
			c = g.R.Range(0, b)
			d = b
		default:
			c = g.R.Intn(n + 1)
			d = g.R.Range(c, n)
		}
		emitView(g, mode, arr, a, b, c, d, g.R.Intn(2), "views-random")
	}
}

// ---------------------------------------------------------------- typed: strings with equal hashes, big uint64

// Pairs of DIFFERENT strings whose 32-bit hashes are equal.  The shared table
// corpus/common/hash-collisions.tsv (hash, string a, string b; Go-quoted) is read at start-up when
// it can be found (next to the executable's work/bin, under $VERIF_ROOT, or above the working
// directory); builtinPairs holds a copy of it, so that the codes are the same wherever the harness
// runs, plus pairs for hashes the table does not have and strings a lax comparison takes for equal:
//
//	64-bit FNV-1a, low half: "line 0150729"/"line 1396742", halves xor-ed: "line 0031719"/"line 0066101";
//	h*31+c, 8 letters: kzvdiaib/edsgrvyp;  h*33+c: ab/bA;  h*33^c: "line 1785094"/"line 2805900";
//	sdbm: qknflzog/ubgsxddw;  CRC-32 (IEEE): onaqttns/vqiclser;  CRC-32C: "line 1371838"/"line 2000402";
//	Adler-32: bdb/cbc;  "" and NUL, composed and decomposed e-acute, K and the Kelvin sign, a
//	trailing blank, a common 40-byte prefix.
var builtinPairs = [][2]string{
	// corpus/common/hash-collisions.tsv
	{"line 0335786", "line 1074240"}, {"line 0335787", "line 1074241"},
	{"line 0112789", "line 0349192"}, {"line 0112788", "line 0349193"},
	{"--tag=2daa2057", "--tag=3b323a2d"}, {"--tag=bf22885e", "--tag=bc7ff02d"},
	{"--tag=ed88ee72", "--tag=0b90e457"}, {"--tag=4a9d0d2c", "--tag=067899bd"},
	{"--tag=8755d764", "--tag=4170cb18"}, {"--tag=b4538002", "--tag=ac67906e"},
	{"--tag=0cb1f505", "--tag=912208a7"}, {"--tag=0ed8f52b", "--tag=934908cd"},
	{"--tag=57c7e8dd", "--tag=ae345e04"}, {"--tag=68fea7eb", "--tag=bf6b1d12"},
	{"k0695b", "k418c8"}, {"k0695c", "k418c9"}, {"k278eb", "k64938"}, {"k278ec", "k64939"},
	{"aca", "bab"}, {"bca", "cab"}, {"cca", "dab"},
	{"liquid", "costarring"}, {"declinate", "macallums"}, {"altarage", "zinke"},
	{"\tx[462789] = y", "\tx[679192] = y"},
	{"Aa", "BB"}, {"AaAa", "BBBB"}, {"AaBB", "BBAa"},
	// own additions
	{"line 0150729", "line 1396742"}, {"line 0031719", "line 0066101"},
	{"kzvdiaib", "edsgrvyp"}, {"ab", "bA"}, {"line 1785094", "line 2805900"},
	{"qknflzog", "ubgsxddw"}, {"onaqttns", "vqiclser"}, {"line 1371838", "line 2000402"}, {"bdb", "cbc"},
	{"", "\x00"}, {"\u00e9", "e\u0301"}, {"K", "\u212a"}, {"x", "x "},
	{"0123456789012345678901234567890123456789a", "0123456789012345678901234567890123456789b"},
}

// sharedPairs reads corpus/common/hash-collisions.tsv; nil when it is not found.
func sharedPairs() [][2]string {
	const rel = "corpus/common/hash-collisions.tsv"
	var roots []string
	if v := os.Getenv("VERIF_ROOT"); v != "" {
		roots = append(roots, v)
	}
	if exe, err := os.Executable(); err == nil {
		roots = append(roots, filepath.Dir(filepath.Dir(filepath.Dir(exe))))
	}
	if wd, err := os.Getwd(); err == nil {
		for d := wd; ; d = filepath.Dir(d) {
			roots = append(roots, d)
			if d == filepath.Dir(d) {
				break
			}
		}
	}
	for _, root := range roots {
		data, err := os.ReadFile(filepath.Join(root, rel))
		if err != nil {
			continue
		}
		var out [][2]string
		for _, l := range strings.Split(string(data), "\n") {
			f := strings.Split(strings.TrimRight(l, "\r"), "\t")
			if len(f) != 3 || strings.HasPrefix(l, "#") {
				continue
			}
			a, e1 := strconv.Unquote(f[1])
			b, e2 := strconv.Unquote(f[2])
			if e1 == nil && e2 == nil && a != b {
				out = append(out, [2]string{a, b})
			}
		}
		return out
	}
	return nil
}

// collTable: the strings in byte order (the order of cmp.Compare); collMate[c] = the code of the
// string that collides with code c.
var collTable []string
var collMate []int

func init() {
	seen := map[string]bool{}
	var pairs [][2]string
	for _, p := range append(slices.Clone(builtinPairs), sharedPairs()...) {
		if seen[p[0]] || seen[p[1]] {
			continue
		}
		seen[p[0]], seen[p[1]] = true, true
		pairs = append(pairs, p)
		collTable = append(collTable, p[0], p[1])
	}
	sort.Strings(collTable)
	collMate = make([]int, len(collTable))
	at := func(s string) int { i, _ := slices.BinarySearch(collTable, s); return i }
	for _, p := range pairs {
		collMate[at(p[0])], collMate[at(p[1])] = at(p[1]), at(p[0])
	}
}

var extU64 = []uint64{0, 1, 1 << 53, 1<<53 + 1, 1<<53 + 2, 1<<63 - 1, 1 << 63, 1<<63 + 1, math.MaxUint64 - 1, math.MaxUint64}

// typedLCS: slice.LCS on []string; every element a fresh allocation (no two inputs share bytes).
func typedLCS(ca, cb []int) string {
	mk := func(cs []int) ([]string, bool) {
		out := make([]string, len(cs))
		for i, c := range cs {
			if c < 0 || c >= len(collTable) {
				return nil, false
			}
			out[i] = strings.Clone(collTable[c])
		}
		return out, true
	}
	as, ok1 := mk(ca)
	bs, ok2 := mk(cb)
	if !ok1 || !ok2 {
		return "?"
	}
	as0, bs0 := slices.Clone(as), slices.Clone(bs)
	res := slice.LCS(as, bs)
	afterCall()
	m := !slices.Equal(as, as0) || !slices.Equal(bs, bs0)
	back := make([]int, len(res))
	for i, r := range res {
		c, found := slices.BinarySearch(collTable, r)
		if !found {
			c = -1
		}
		back[i] = c
	}
	nl := "s"
	if res == nil {
		nl = "z"
	}
	return nl + " " + tr.Ints(back) + " m" + tr.B(m) + " a0"
}

func genTyped4(g *tr.G) {
	nc := len(collTable)
	emitL := func(a, b []int, tags ...string) {
		line := "L g " + tr.Ints(a) + " " + tr.Ints(b)
		nt := len(a) > 0 && len(b) > 0
		t := append([]string{"lcs-typed-g"}, tags...)
		g.Emit(line, nt, t...)
	}
	// every colliding pair alone, in both orders, aligned and next to each other
	for c := 0; c < nc; c++ {
		d := collMate[c]
		emitL([]int{c}, []int{d}, "colliding-pair-aligned")
		emitL([]int{c, d}, []int{d, c}, "colliding-pair-aligned")
		emitL([]int{c, d}, []int{c}, "colliding-pair-adjacent")
		emitL([]int{d}, []int{d, c}, "colliding-pair-adjacent")
		emitL([]int{c, c, d}, []int{d, d, c}, "colliding-pair-aligned")
	}
	// random: a common base, the second argument with some elements replaced by their colliding mates
	for i := 0; i < g.Scale(600, 12000); i++ {
		n := g.R.Range(1, 14)
		few := g.R.Range(1, 4)
		pool := make([]int, few)
		for j := range pool {
			pool[j] = g.R.Intn(nc)
		}
		a := make([]int, n)
		for j := range a {
			a[j] = pool[g.R.Intn(few)]
			if g.R.Bool() {
				a[j] = collMate[a[j]]
			}
		}
		var b []int
		for _, c := range a {
			switch {
			case g.R.Chance(1, 8): // dropped
			case g.R.Chance(1, 3):
				b = append(b, collMate[c]) // the mate in the same place
			case g.R.Chance(1, 10):
				b = append(b, c, collMate[c])
			default:
				b = append(b, c)
			}
		}
		emitL(a, b, "colliding-random")
	}
	// LIS / LNDS on the strings and on the big unsigned values
	for _, mode := range []string{"g", "j"} {
		k := typedCodes(mode)
		emit := func(ks []int, tags ...string) {
			nt, t := lisTags(ks)
			t = append(append(t, "lis-typed-"+mode), tags...)
			g.Emit("I "+mode+" "+tr.Ints(ks), nt, t...)
			g.Emit("N "+mode+" "+tr.Ints(ks), nt, t...)
		}
		if mode == "j" {
			allLists(k, g.Scale(3, 4), func(ks []int) { emit(slices.Clone(ks), "lis-typed-exhaustive") })
		} else {
			for c := 0; c < k; c++ { // every pair of a string with its mate, and triples around it
				d := collMate[c]
				emit([]int{c, d})
				emit([]int{c, d, c})
				emit([]int{d, c, c, d})
				for e := 0; e < k; e += 5 {
					emit([]int{c, e, d})
					emit([]int{e, c, d, e})
				}
			}
		}
		for i := 0; i < g.Scale(300, 6000); i++ {
			n := g.R.Range(2, 40)
			ks := make([]int, n)
			for j := range ks {
				ks[j] = g.R.Intn(k)
				if mode == "g" && j > 0 && g.R.Chance(1, 3) {
					ks[j] = collMate[ks[j-1]]
				}
			}
			emit(ks)
		}
	}
	// ints above 2^53 that differ in the last digits only, through the int-coded modes (== resp.
	// cmp.Compare on the whole int)
	big := []int{1 << 53, 1<<53 + 1, 1<<53 + 2, 1<<60 + 1, 1 << 60, 1<<62 - 1, 1<<62 - 2}
	for i := 0; i < g.Scale(400, 8000); i++ {
		pick := func(n int) []int {
			out := make([]int, n)
			for j := range out {
				out[j] = big[g.R.Intn(len(big))]
			}
			return out
		}
		a, b := pick(g.R.Range(1, 8)), pick(g.R.Range(1, 8))
		nt := true
		g.Emit("L e "+tr.Ints(a)+" "+tr.Ints(b), nt, "lcs-big-ints", "lcs-mode-e")
		g.Emit("I n "+tr.Ints(a), nt, "lis-big-ints", "lis-mode-n")
		g.Emit("N n "+tr.Ints(a), nt, "lis-big-ints", "lis-mode-n")
	}
}

// ---------------------------------------------------------------- run-length sweeps and sizes

func payloadMod(keys []int) []int {
	out := make([]int, len(keys))
	for i, k := range keys {
		out[i] = k*100 + i%100
	}
	return out
}

var natModes = []string{"k", "d", "t", "x", "k"}
var revModes = []string{"r", "q"}

// sweepKeys: a first run of exactly L elements, then a LOWER run of L elements that starts with a
// new minimum and replaces every tracked subsequence from the bottom up, the longest one last (a
// wrong placement or a wrong predecessor anywhere on the way surfaces in the result, which is the
// second run), and last ONE element that lies between the two runs: it extends the longest
// subsequence exactly if every position was improved by the second run (a missed improvement
// shows as a result one short of the optimum).  Under a natural-order or (keys mirrored) a reversed
// comparison.
//
//	shape a: both runs strictly ascending;  shape p: both runs plateaus (LNDS: ascending with ties only);
//	shape s: a staircase of plateaus of growing length, then a lower staircase of four long plateaus;
//	shape t: ascending run, new minimum, then one element above everything.
func sweepKeys(L int, shape byte) []int {
	var ks []int
	switch shape {
	case 'a':
		for i := 0; i < L; i++ {
			ks = append(ks, L+5+i)
		}
		for i := 0; i < L; i++ {
			ks = append(ks, i)
		}
		ks = append(ks, L+2)
	case 'p':
		for i := 0; i < L; i++ {
			ks = append(ks, 5)
		}
		for i := 0; i < L; i++ {
			ks = append(ks, 3)
		}
		ks = append(ks, 4)
	case 't':
		for i := 0; i < L; i++ {
			ks = append(ks, 5+i)
		}
		ks = append(ks, 0, L+9)
	case 's': // staircase: plateaus of growing length 1, 2, 3, ... up to L elements in all, then lower
		for i, step, left := 0, 1, 1; i < L; i++ {
			ks = append(ks, 5+step)
			if left--; left == 0 {
				step++
				left = step
			}
		}
		for i := 0; i < L; i++ {
			ks = append(ks, i*4/L)
		}
		ks = append(ks, 4)
	}
	return ks
}

func emitSweep(g *tr.G, fn string, L int, shape byte, reversed bool) {
	ks := sweepKeys(L, shape)
	mode := natModes[L%len(natModes)]
	if reversed {
		mode = revModes[L%len(revModes)]
		top := 2*L + 20
		for i := range ks {
			ks[i] = top - ks[i]
		}
	}
	vs := payloadMod(ks)
	tags := []string{"sweep", "sweep-shape-" + string(shape), "lis-mode-" + mode}
	if reversed {
		tags = append(tags, "sweep-reversed")
	}
	if L >= 64 {
		tags = append(tags, "sweep-run>=64")
	}
	if L > 256 {
		tags = append(tags, "sweep-run>256")
	}
	g.Emit(fn+" "+mode+" "+tr.Ints(vs), true, tags...)
}

func genSweeps(g *tr.G) {
	// The extracted models walk lists: a line of n elements costs about n^2 * 60 ns to replay, the
	// whole sweep of one shape over L = 1..600 about 18 s (two thirds of it above L = 400).
	// Thorough tier: every L to 600 in every shape.  Quick tier (about 12 s of replay):
	//   L <= 128        every natural-order shape, the new-minimum shapes, one reversed and one
	//                   staircase shape (rotating with L and the seed);
	//   128 < L <= 256  LIS ascending, one of LNDS ascending / plateau (parity of L + seed), the
	//                   new-minimum shapes;
	//   256 < L <= 600  every fourth L (the residue rotates with the seed), one natural shape each
	//                   (every second L: 5 s more, every L: 14 s more);
	//   everything at 2^k-1, 2^k, 2^k+1; one more shape at the multiples of 64; LIS ascending and
	//   LNDS plateau at the multiples of 100.
	const top = 600
	seed := int(g.Seed)
	rot := seed % 3
	pow2 := func(L int) bool { // 2^k-1, 2^k, 2^k+1
		return L&(L-1) == 0 || (L+1)&L == 0 || (L-1)&(L-2) == 0
	}
	for L := 1; L <= top; L++ {
		all := g.Thorough() || pow2(L)
		low, mid := L <= 128, L > 128 && L <= 256
		pick := !low && !mid && (L+seed)%4 == 0 // the one shape of this L above 256: (L/4+rot)%3
		if all || low || mid || pick && (L/4+rot)%3 == 0 || L%100 == 0 || L%64 == 0 && (L/64+rot)%3 == 0 {
			emitSweep(g, "I", L, 'a', false)
		}
		if all || low || mid && (L+seed)%2 == 0 || pick && (L/4+rot)%3 == 1 || L%64 == 0 && (L/64+rot)%3 == 1 {
			emitSweep(g, "N", L, 'a', false)
		}
		if all || low || mid && (L+seed)%2 == 1 || pick && (L/4+rot)%3 == 2 || L%100 == 0 || L%64 == 0 && (L/64+rot)%3 == 2 {
			emitSweep(g, "N", L, 'p', false)
		}
		if all || low || mid {
			emitSweep(g, "I", L, 't', false)
			emitSweep(g, "N", L, 't', true)
		}
		if all || low && (L+rot)%3 == 0 {
			emitSweep(g, "I", L, 'a', true)
		}
		if all || low && (L+rot)%3 == 1 {
			emitSweep(g, "N", L, 'a', true)
			emitSweep(g, "I", L, 's', false)
		}
		if all || low && (L+rot)%3 == 2 {
			emitSweep(g, "N", L, 'p', true)
			emitSweep(g, "N", L, 's', false)
		}
	}
	// sizes around powers of two, several shapes of disorder
	sizes := []int{31, 32, 33, 63, 64, 65, 127, 128, 129, 255, 256, 257, 511, 512, 513}
	if g.Thorough() {
		sizes = append(sizes, 1023, 1024, 1025, 2049)
	} else {
		sizes = append(sizes, 1025)
	}
	for _, n := range sizes {
		for style := 0; style < 4; style++ {
			if n > 600 && style != int(g.Seed%4) && !g.Thorough() {
				continue
			}
			ks := make([]int, n)
			cur := 0
			for i := range ks {
				switch style {
				case 0: // ascending with rare dips to a new low
					cur++
					if g.R.Chance(1, 40) {
						cur = -i
					}
				case 1: // few distinct keys: long runs of ties
					if g.R.Chance(1, 5) {
						cur = g.R.Intn(4)
					}
				case 2: // wide random
					cur = g.R.Intn(4 * n)
				case 3: // descending with rare jumps up
					cur--
					if g.R.Chance(1, 40) {
						cur += g.R.Intn(n)
					}
				}
				ks[i] = cur + 2*n
			}
			mode := natModes[(n+style)%len(natModes)]
			vs := payloadMod(ks)
			tags := []string{"lis-scale", "lis-mode-" + mode}
			g.Emit("I "+mode+" "+tr.Ints(vs), true, tags...)
			g.Emit("N "+mode+" "+tr.Ints(vs), true, tags...)
		}
	}
}

func round4(g *tr.G) {
	genViews(g)
	genTyped4(g)
	genSweeps(g)
}
