// Round 5: two-sided sweeps, one repeated key against a duplicate-free side, shared storage at every
// length, exact large sizes, re-entrant callbacks, more element types.
//
//	S <mode> <as> <bs> [w<pre>,<spare>]                   the L line once more
//	T <mode> <lo1> <hi1> <lo2> <hi2> <c> <arr>             the V line once more
//	    Same call, same record.  The letter tells the driver that the line is too long for the
//	    extracted model (lists indexed by position: a 300 x 600 table takes seconds): it is judged
//	    by the property alone -- common subsequence of both arguments, taken from one of them, of
//	    the length of the reference table written on arrays -- and not replayed on the model.  The
//	    generators use L / V up to 65 x 130 elements and S / T above.
//
//	G <I|N> <mode> <n> <base><end> [w<pre>,<spare>] | <len>:<fnv>:<positions> m<0|1> a<0|1>
//	    LIS (I) / LNDS (N) of an input of n elements made by a recipe (the driver makes the same):
//	    key(i) for i < n by <base>, the LAST element replaced as <end> says; element i is
//	    key*100 + i%100.
//	      base a: i+1 (ascending)       d: n-i (descending)        p: 5 (one plateau)
//	           s: i/256+1 (plateaus of 256)   w: i%256+1 (sawtooth)   x: pseudo-random in 1..n
//	           t: two interleaved ascending runs (even places low, odd places high)
//	      end  -: nothing replaced      h: n+10 (above everything: it extends the longest chain)
//	           l: 0 (a new minimum)     m: n/2+1
//	    The record is bounded: the length of the result, the FNV-1a digest of its elements and the
//	    positions of the input a greedy left-to-right match assigns to them, as runs "lo-hi"
//	    ("nomatch@j" when element j of the result is found nowhere behind its predecessor).  Spec
//	    only above 200 elements: increasing positions, the digest of the elements at these positions,
//	    their order, and the length against an O(n log n) reference (patience on arrays), which
//	    is itself compared with the quadratic reference on every G line of at most 150 elements.
//
//	P ...@<j>:<call>... <line>
//	    A prelude item that starts with "@<j>:" is not run before the case: it is armed, and run
//	    from INSIDE the case's own callback (eq / cmp) when that is called for the j-th time -- a
//	    nested call into the package while the outer call is running (its panics recovered inside).
//	    The outer call must not notice (the model ignores it).  Only for the ...Func forms.
//
//	typed modes: I / N  y []byte, w []int16, u []float32 (NaN, -Inf, -1.5, -0, +0, 1.5, +Inf: the two
//	    zeros tie under cmp.Compare and are told apart by the sign bit);  L  y []byte, z []bool,
//	    u []float32 (== : NaN equals nothing, the zeros equal each other), a [] of a 40-byte
//	    comparable struct, r []*int (== is identity).  Codes as in the other typed modes.
//	modes K and Q (L, I, N): the ...Func forms on elements that are not ints -- K a 40-byte struct
//	    (key and payload in two of its fields), Q pointers to such structs -- with eq / cmp on the
//	    key alone: on the trace's ints exactly mode k.
package main

import (
	"cmp"
	"fmt"
	"math"
	"slices"
	"strconv"
	"strings"

	"github.com/creachadair/mds/slice"
	"verif/harness/internal/tr"
)

// ---------------------------------------------------------------- re-entrant callbacks

type armedCall struct {
	at   int
	item string
}

var armed []armedCall
var cbCalls int

func resetNested() { armed, cbCalls = nil, 0 }

// arm takes "@<j>:<call>" apart.
func arm(one string) {
	j, call, ok := strings.Cut(one[1:], ":")
	at, err := strconv.Atoi(j)
	if !ok || err != nil || at < 1 {
		return
	}
	armed = append(armed, armedCall{at, call})
}

func nestedHook() {
	cbCalls++
	for _, a := range armed {
		if a.at == cbCalls {
			runPrelude(a.item)
		}
	}
}

func hookEq(eq func(a, b int) bool) func(a, b int) bool {
	if len(armed) == 0 {
		return eq
	}
	return func(a, b int) bool { nestedHook(); return eq(a, b) }
}

func hookCmp(c func(a, b int) int) func(a, b int) int {
	if len(armed) == 0 {
		return c
	}
	return func(a, b int) int { nestedHook(); return c(a, b) }
}

// ---------------------------------------------------------------- G lines

func fnvInts(xs []int) uint64 {
	h := uint64(0xcbf29ce484222325)
	put := func(b byte) { h ^= uint64(b); h *= 0x100000001b3 }
	if len(xs) == 0 {
		put('.')
		return h
	}
	var buf [24]byte
	for i, x := range xs {
		if i > 0 {
			put(',')
		}
		for _, b := range strconv.AppendInt(buf[:0], int64(x), 10) {
			put(b)
		}
	}
	return h
}

const gMax = 1 << 17

// recipeKeys: the keys of a G line; nil when the recipe is not understood.
func recipeKeys(n int, recipe string) []int {
	if len(recipe) != 2 || n < 0 || n > gMax {
		return nil
	}
	ks := make([]int, n)
	x := uint32(12345)
	for i := range ks {
		switch recipe[0] {
		case 'a':
			ks[i] = i + 1
		case 'd':
			ks[i] = n - i
		case 'p':
			ks[i] = 5
		case 's':
			ks[i] = i/256 + 1
		case 'w':
			ks[i] = i%256 + 1
		case 'x':
			x = (x*1103515245 + 12345) & 0x7fffffff
			ks[i] = int(x>>8)%n + 1
		case 't':
			if i%2 == 0 {
				ks[i] = i/2 + 1
			} else {
				ks[i] = n + i/2 + 1
			}
		default:
			return nil
		}
	}
	if n > 0 {
		switch recipe[1] {
		case '-':
		case 'h':
			ks[n-1] = 2*n + 10
		case 'l':
			ks[n-1] = 0
		case 'm':
			ks[n-1] = n/2 + 1
		default:
			return nil
		}
	}
	return ks
}

func runsOf(pos []int) string {
	if len(pos) == 0 {
		return "."
	}
	var sb strings.Builder
	for i := 0; i < len(pos); {
		j := i
		for j+1 < len(pos) && pos[j+1] == pos[j]+1 {
			j++
		}
		if sb.Len() > 0 {
			sb.WriteByte(',')
		}
		sb.WriteString(strconv.Itoa(pos[i]))
		if j > i {
			sb.WriteByte('-')
			sb.WriteString(strconv.Itoa(pos[j]))
		}
		i = j + 1
	}
	return sb.String()
}

func execG(f []string) string {
	if len(f) < 5 || (f[1] != "I" && f[1] != "N") {
		return "?"
	}
	n, err := strconv.Atoi(f[3])
	if err != nil {
		return "?"
	}
	ks := recipeKeys(n, f[4])
	if ks == nil && n != 0 {
		return "?"
	}
	if typedMode(f[2]) {
		return "?"
	}
	pre, spare := parseWin(f, 5)
	wv := mkWindow(payloadMod(ks), pre, spare)
	vs := wv.w
	vs0 := slices.Clone(wv.backing)
	orig := slices.Clone(vs)
	var res []int
	switch {
	case f[1] == "I" && f[2] == "n":
		res = slice.LIS(vs)
	case f[1] == "I":
		res = slice.LISFunc(vs, hookCmp(cmpFor(f[2])))
	case f[2] == "n":
		res = slice.LNDS(vs)
	default:
		res = slice.LNDSFunc(vs, hookCmp(cmpFor(f[2])))
	}
	afterCall()
	m := !slices.Equal(wv.backing, vs0)
	// the positions a greedy match gives the elements of the result
	pos := make([]int, 0, len(res))
	at := 0
	shown := ""
	for j, r := range res {
		for at < len(orig) && orig[at] != r {
			at++
		}
		if at >= len(orig) {
			shown = "nomatch@" + strconv.Itoa(j)
			break
		}
		pos = append(pos, at)
		at++
	}
	if shown == "" {
		shown = fmt.Sprintf("%d:%x:%s", len(res), fnvInts(res), runsOf(pos))
	}
	vs1 := slices.Clone(wv.backing)
	res = res[:cap(res)]
	for i := range res {
		res[i] = poison
	}
	a := !slices.Equal(wv.backing, vs1)
	return shown + " m" + tr.B(m) + " a" + tr.B(a)
}

// ---------------------------------------------------------------- typed modes of round 5

var extByte = []byte{0, 1, 127, 128, 255}
var extInt16 = []int16{-32768, -32767, -1, 0, 1, 32766, 32767}
var extF32 = []float32{float32(math.NaN()), float32(math.Inf(-1)), -1.5, float32(math.Copysign(0, -1)), 0, 1.5, float32(math.Inf(1))}

type wide struct {
	A, B, C, D int64
	E          [8]byte
}

var extWide = []wide{
	{},
	{D: 1},
	{A: 1},
	{E: [8]byte{0, 0, 0, 0, 0, 0, 0, 1}},
	{A: 1, B: 2, C: 3, D: 4, E: [8]byte{5}},
	{A: 1, B: 2, C: 3, D: 4, E: [8]byte{6}},
}
var extBool = []bool{false, true}
var extPtr = func() []*int {
	out := make([]*int, 5)
	for i := 1; i < len(out); i++ { // code 0 is the nil pointer
		v := 7 // equal pointees, distinct pointers
		out[i] = &v
	}
	return out
}()

func f32same(a, b float32) bool { return math.Float32bits(a) == math.Float32bits(b) }

// typedRunI: typedRun with an identity test of its own (cmp.Compare cannot tell -0 from +0).
func typedRunI[T cmp.Ordered](strict bool, table []T, codes []int, ident func(a, b T) bool) string {
	vs := make([]T, len(codes))
	for i, c := range codes {
		if c < 0 || c >= len(table) {
			return "?"
		}
		vs[i] = table[c]
	}
	in := slices.Clone(vs)
	var res []T
	if strict {
		res = slice.LIS(vs)
	} else {
		res = slice.LNDS(vs)
	}
	afterCall()
	m := !slices.EqualFunc(vs, in, ident)
	back := make([]int, len(res))
	for i, r := range res {
		back[i] = -1
		for c, t := range table {
			if ident(t, r) {
				back[i] = c
			}
		}
	}
	return tr.Ints(back) + " m" + tr.B(m) + " a0"
}

func typedLIS5(strict bool, mode string, codes []int) string {
	switch mode {
	case "y":
		return typedRunI(strict, extByte, codes, func(a, b byte) bool { return a == b })
	case "w":
		return typedRunI(strict, extInt16, codes, func(a, b int16) bool { return a == b })
	case "u":
		return typedRunI(strict, extF32, codes, f32same)
	}
	return "?"
}

// typedLCSOf: slice.LCS at an element type; ident tells the elements of the table apart.
func typedLCSOf[T comparable](table []T, ident func(a, b T) bool, ca, cb []int) string {
	mk := func(cs []int) ([]T, bool) {
		out := make([]T, len(cs))
		for i, c := range cs {
			if c < 0 || c >= len(table) {
				return nil, false
			}
			out[i] = table[c]
		}
		return out, true
	}
	as, ok1 := mk(ca)
	bs, ok2 := mk(cb)
	if !ok1 || !ok2 {
		return "?"
	}
	as0, bs0 := slices.Clone(as), slices.Clone(bs)
	res := slice.LCS(as, bs)
	afterCall()
	m := !slices.EqualFunc(as, as0, ident) || !slices.EqualFunc(bs, bs0, ident)
	back := make([]int, len(res))
	for i, r := range res {
		back[i] = -1
		for c, t := range table {
			if ident(t, r) {
				back[i] = c
			}
		}
	}
	nl := "s"
	if res == nil {
		nl = "z"
	}
	return nl + " " + tr.Ints(back) + " m" + tr.B(m) + " a0"
}

func lcsTyped5(mode string) bool { return strings.Contains("yzuar", mode) && len(mode) == 1 }

func typedLCS5(mode string, ca, cb []int) string {
	switch mode {
	case "y":
		return typedLCSOf(extByte, func(a, b byte) bool { return a == b }, ca, cb)
	case "z":
		return typedLCSOf(extBool, func(a, b bool) bool { return a == b }, ca, cb)
	case "u":
		return typedLCSOf(extF32, f32same, ca, cb)
	case "a":
		return typedLCSOf(extWide, func(a, b wide) bool { return a == b }, ca, cb)
	case "r":
		return typedLCSOf(extPtr, func(a, b *int) bool { return a == b }, ca, cb)
	}
	return "?"
}

func lcsTypedCodes(mode string) int {
	switch mode {
	case "y":
		return len(extByte)
	case "z":
		return len(extBool)
	case "u":
		return len(extF32)
	case "a":
		return len(extWide)
	}
	return len(extPtr)
}


// unInts5: tr.UnInts with two abbreviations for long inputs: "v*n" (n times v) and "a~b" (a, a+1, .. b).
func unInts5(s string) []int {
	if !strings.ContainsAny(s, "*~") {
		return tr.UnInts(s)
	}
	var out []int
	for _, p := range strings.Split(s, ",") {
		if v, n, ok := strings.Cut(p, "*"); ok {
			x, e1 := strconv.Atoi(v)
			k, e2 := strconv.Atoi(n)
			if e1 != nil || e2 != nil || k < 0 || k > 1<<17 {
				panic("bad int " + p)
			}
			for ; k > 0; k-- {
				out = append(out, x)
			}
		} else if a, b, ok := strings.Cut(p, "~"); ok {
			x, e1 := strconv.Atoi(a)
			y, e2 := strconv.Atoi(b)
			if e1 != nil || e2 != nil || y-x > 1<<17 {
				panic("bad int " + p)
			}
			for ; x <= y; x++ {
				out = append(out, x)
			}
		} else {
			out = append(out, tr.UnInts(p)...)
		}
	}
	return out
}

// ---------------------------------------------------------------- the ...Func forms on structs and pointers

func wideOf(e int) wide {
	return wide{A: int64(key(e)), B: 0x0102030405060708, C: -1, D: int64(e % 100), E: [8]byte{9, 9, 9, 9, 9, 9, 9, byte(e)}}
}
func (w wide) code() int {
	e := int(w.A)*100 + int(w.D)
	if w != wideOf(e) {
		return -888888
	}
	return e
}

// funcOn: LCSFunc / LISFunc / LNDSFunc at element type T; key equality / key order as in mode k.
func funcOn[T any](f []string, enc func(int) T, dec func(T) int) string {
	encAll := func(xs []int) []T {
		out := make([]T, len(xs))
		for i, x := range xs {
			out[i] = enc(x)
		}
		return out
	}
	decAll := func(xs []T) []int {
		out := make([]int, len(xs))
		for i, x := range xs {
			out[i] = dec(x)
		}
		return out
	}
	switch f[0] {
	case "L":
		if len(f) < 4 {
			return "?"
		}
		a, b := tr.UnInts(f[2]), tr.UnInts(f[3])
		as, bs := encAll(a), encAll(b)
		res := slice.LCSFunc(as, bs, func(x, y T) bool {
			if len(armed) > 0 {
				nestedHook()
			}
			return key(dec(x)) == key(dec(y))
		})
		afterCall()
		m := !slices.Equal(decAll(as), a) || !slices.Equal(decAll(bs), b)
		nl := "s"
		if res == nil {
			nl = "z"
		}
		return nl + " " + tr.Ints(decAll(res)) + " m" + tr.B(m) + " a0"
	case "I", "N":
		v := tr.UnInts(f[2])
		vs := encAll(v)
		c := func(x, y T) int {
			if len(armed) > 0 {
				nestedHook()
			}
			return cmp.Compare(key(dec(x)), key(dec(y)))
		}
		var res []T
		if f[0] == "I" {
			res = slice.LISFunc(vs, c)
		} else {
			res = slice.LNDSFunc(vs, c)
		}
		afterCall()
		m := !slices.Equal(decAll(vs), v)
		return tr.Ints(decAll(res)) + " m" + tr.B(m) + " a0"
	}
	return "?"
}

func funcTyped(mode string) bool { return mode == "K" || mode == "Q" }

func execFuncTyped(f []string) string {
	if f[1] == "K" {
		return funcOn(f, wideOf, wide.code)
	}
	return funcOn(f, func(e int) *wide { w := wideOf(e); return &w }, func(p *wide) int {
		if p == nil {
			return -888888
		}
		return p.code()
	})
}

// ---------------------------------------------------------------- generators

// modelFits: the sizes up to which an LCS line is replayed on the extracted model (its cost grows
// with the cube of the length: 8 ms at 64 x 64, 35 ms at 64 x 128).
func modelFits(la, lb int) bool { return min(la, lb) <= 65 && max(la, lb) <= 130 }

func seqFrom(lo, n int) []int {
	out := make([]int, n)
	for i := range out {
		out[i] = lo + i
	}
	return out
}

func repKey(v, n int) []int {
	out := make([]int, n)
	for i := range out {
		out[i] = v
	}
	return out
}

// elems: keys to elements; mode e compares whole ints (no payload), the others keys only (the
// payload tells the two inputs and the places apart).
func elems(mode string, ks []int, base int) []int {
	if mode == "e" {
		return plain(ks)
	}
	out := make([]int, len(ks))
	for i, k := range ks {
		out[i] = k*100 + base + i%50
	}
	return out
}

func emitTwo(g *tr.G, mode string, ka, kb []int, tags ...string) {
	emitted++
	wf, _ := winField(emitted)
	kind := "S"
	if modelFits(len(ka), len(kb)) {
		kind = "L"
	}
	t := append([]string{"lcs-mode-" + mode}, tags...)
	if kind == "S" {
		t = append(t, "spec-only")
	}
	if len(ka) >= 100 && len(kb) >= 100 {
		t = append(t, "lcs-both-sides>=100")
	}
	g.Emit(kind+" "+mode+" "+tr.Ints(elems(mode, ka, 0))+" "+tr.Ints(elems(mode, kb, 50))+wf, len(ka) > 0 && len(kb) > 0, t...)
}

// twoSidedShape: the keys of the two inputs of a sweep line.
func twoSidedShape(g *tr.G, shape byte, la, lb, L int) (ka, kb []int) {
	fit := func(ks []int, n, nsym int) []int {
		for len(ks) < n {
			ks = append(ks, g.R.Intn(nsym))
		}
		return ks[:n]
	}
	switch shape {
	case 'q': // all equal
		return repKey(7, la), repKey(7, lb)
	case 'i': // the same distinct elements; the longer side every element twice when it is twice as long
		ka = seqFrom(1, la)
		if lb == 2*la {
			for _, k := range ka {
				kb = append(kb, k, k)
			}
			return ka, kb
		}
		if la == 2*lb {
			kb = seqFrom(1, lb)
			ka = nil
			for _, k := range kb {
				ka = append(ka, k, k)
			}
			return ka, kb
		}
		return ka, seqFrom(1, lb)
	case 'o': // distinct elements on both sides, exactly one in common
		ka, kb = seqFrom(1, la), seqFrom(1001, lb)
		if la > 0 && lb > 0 {
			pa := []int{0, la / 2, la - 1}[L%3]
			pb := []int{lb - 1, lb / 2, 0}[L/3%3]
			kb[pb] = ka[pa]
		}
		return ka, kb
	case 'b': // random over two symbols
		return fit(nil, la, 2), fit(nil, lb, 2)
	case 'd': // derived from a common base by edits
		base := fit(nil, max(la, lb), 3)
		return fit(mutate(g.R, base, 3), la, 3), fit(mutate(g.R, base, 3), lb, 3)
	case 'v': // the same distinct elements, one side reversed
		ka, kb = seqFrom(1, la), seqFrom(1, lb)
		slices.Reverse(kb)
		return ka, kb
	}
	// periods 2 and 3
	ka, kb = make([]int, la), make([]int, lb)
	for i := range ka {
		ka[i] = i % 2
	}
	for i := range kb {
		kb[i] = i % 3
	}
	return ka, kb
}

// genTwoSided: BOTH inputs long.  Every L in 0..300 with the other side L, L+1, L-1 and 2L long
// (either order), in two shapes per pair (quick) or all seven (thorough), sharing elements.
func genTwoSided(g *tr.G) {
	const top = 300
	shapes := []byte{'q', 'i', 'o', 'b', 'd', 'v', 'z'}
	seed := int(g.Seed)
	for L := 0; L <= top; L++ {
		for ri, lb := range []int{L, L + 1, L - 1, 2 * L} {
			if lb < 0 || ri == 3 && L == 0 {
				continue
			}
			la := L
			if ri == 3 && (L+seed)%2 == 1 { // the longer side first
				la, lb = lb, la
			}
			rel := []string{"two-sided:L,L", "two-sided:L,L+1", "two-sided:L,L-1", "two-sided:L,2L"}[ri]
			for si, sh := range shapes {
				if !g.Thorough() && si != (L+ri+seed)%7 && si != (L+ri+seed+3)%7 {
					continue
				}
				mode := "ek"[(L+si)%2 : (L+si)%2+1]
				if (L+ri+si)%6 == 0 {
					mode = []string{"c", "m", "o", "p"}[(L/6+si)%4]
				}
				ka, kb := twoSidedShape(g, sh, la, lb, L)
				emitTwo(g, mode, ka, kb, "two-sided", rel, "two-sided-shape-"+string(sh))
			}
		}
	}
}

// genOneDoubled: a duplicate-free side of every length 1..100 (thorough: 300) against the same
// sequence with ONE key twice: in place ("k k"), a few places later, or at either end.
func genOneDoubled(g *tr.G) {
	top := g.Scale(100, 300)
	seed := int(g.Seed)
	insert := func(ks []int, at, v int) []int {
		out := append([]int{}, ks[:at]...)
		out = append(out, v)
		return append(out, ks[at:]...)
	}
	for n := 1; n <= top; n++ {
		asc := seqFrom(1, n)
		perm := seqFrom(1, n)
		for i := n - 1; i > 0; i-- {
			j := g.R.Intn(i + 1)
			perm[i], perm[j] = perm[j], perm[i]
		}
		type variant struct {
			other []int
			tag   string
		}
		for bi, base := range [][]int{asc, perm} {
			if !g.Thorough() && bi != (n+seed)%2 {
				continue
			}
			ri := g.R.Intn(n)
			vs := []variant{
				{insert(base, 0, base[0]), "doubled-in-place"},
				{insert(base, n/2, base[n/2]), "doubled-in-place"},
				{insert(base, n, base[n-1]), "doubled-in-place"},
				{insert(base, ri, base[ri]), "doubled-in-place"},
				{insert(base, min(n, n/3+1+1+n%3), base[n/3]), "doubled-a-few-places-later"},
				{insert(base, 0, base[n-1]), "doubled-at-the-front"},
				{insert(base, n, base[0]), "doubled-at-the-end"},
				{insert(base, 0, base[n/2]), "doubled-at-the-front"},
			}
			for vi, v := range vs {
				if !g.Thorough() && vi != 3 && vi != 4 && vi != (n+seed)%3 && vi != 5+(n+seed)%3 {
					continue
				}
				mode := "ek"[(n+vi)%2 : (n+vi)%2+1]
				tags := []string{"one-doubled", v.tag}
				if n >= 16 {
					tags = append(tags, "one-doubled:distinct-side>=16")
				}
				if (n+vi+bi)%2 == 0 || g.Thorough() {
					emitTwo(g, mode, base, v.other, tags...)
				}
				if (n+vi+bi)%2 == 1 || g.Thorough() {
					emitTwo(g, mode, v.other, base, tags...)
				}
			}
		}
	}
}

// genSharedSweep: both arguments views of ONE array of every length 0..300: f(s, s[:k]), f(s[:k], s)
// (with natural capacity the shorter view's spare capacity IS the rest of the longer one), and two
// adjacent halves (the first one's spare capacity is the second).
func genSharedSweep(g *tr.G) {
	seed := int(g.Seed)
	for L := 0; L <= 300; L++ {
		arr := make([]int, L)
		for j := range arr {
			k := g.R.Intn(3)
			if L%2 == 0 {
				k = j + 1 // distinct
			}
			arr[j] = k*100 + j%100
		}
		ks := []int{0, 1, L / 2, L - 1, L}
		for vi := 0; vi < 3; vi++ {
			k := ks[(L+vi+seed)%len(ks)]
			if k < 0 || k > L {
				continue
			}
			if !g.Thorough() && vi != (L+seed)%3 && L != 64 && L != 65 && L != 128 {
				continue
			}
			a, b, c, d := 0, L, 0, k
			switch vi {
			case 1:
				a, b, c, d = 0, k, 0, L
			case 2:
				a, b, c, d = 0, k, k, L
			}
			mode := "kkep"[(L+vi)%4 : (L+vi)%4+1]
			src := arr
			if mode == "e" {
				src = make([]int, L)
				for j := range arr {
					src[j] = key(arr[j]) * 100
				}
			}
			kind := "T"
			if modelFits(b-a, d-c) {
				kind = "V"
			}
			line := kind + " " + mode + " " + strconv.Itoa(a) + " " + strconv.Itoa(b) + " " + strconv.Itoa(c) + " " + strconv.Itoa(d) +
				" " + strconv.Itoa((L+vi)%2) + " " + tr.Ints(src)
			tags := []string{"views", "shared-sweep", viewKind(a, b, c, d), "lcs-mode-" + mode}
			if kind == "T" {
				tags = append(tags, "spec-only")
			}
			g.Emit(line, true, tags...)
		}
	}
}

// genExactSizes: G lines.  Quick tier: every n to 150 in turn through the shapes (the O(n log n)
// reference is compared with the quadratic one there, and the model replays them), and sorted /
// reversed-with-a-last-maximum inputs at 2^15 and 2^16 - 1, 2^16, 2^16 + 1.  Thorough tier: all
// bases and ends at 2^15 - 1 .. 2^15 + 1 and 2^16 - 1 .. 2^16 + 1 (and 2^8, 2^12 likewise) under four
// comparisons.
func genExactSizes(g *tr.G) {
	bases := "adpswxt"
	ends := "-hlm"
	emit := func(fn string, mode string, n int, recipe string, tags ...string) {
		emitted++
		wf, _ := winField(emitted)
		t := append([]string{"exact-size", "lis-mode-" + mode, "recipe-" + recipe}, tags...)
		if n > 200 {
			t = append(t, "spec-only")
		}
		if n >= 1<<15 {
			t = append(t, "exact-size>=2^15")
		}
		g.Emit("G "+fn+" "+mode+" "+strconv.Itoa(n)+" "+recipe+wf, true, t...)
	}
	modes := []string{"k", "d", "x", "n", "t"}
	for n := 0; n <= 150; n++ {
		for r := 0; r < g.Scale(2, 28); r++ {
			q := n*2 + r + int(g.Seed)
			recipe := string(bases[q%7]) + string(ends[q/7%4])
			emit("IN"[q%2:q%2+1], modes[q%5], n, recipe, "exact-size-small")
		}
	}
	big := []int{1 << 15, 1<<16 - 1, 1 << 16, 1<<16 + 1}
	if g.Thorough() {
		big = []int{255, 256, 257, 4095, 4096, 4097, 1<<15 - 1, 1 << 15, 1<<15 + 1, 1<<16 - 1, 1 << 16, 1<<16 + 1}
	}
	for _, n := range big {
		for bi := range bases {
			for ei := range ends {
				recipe := string(bases[bi]) + string(ends[ei])
				if !g.Thorough() && recipe != "a-" && recipe != "dh" && recipe != "xh" {
					continue
				}
				for _, fn := range []string{"I", "N"} {
					for mi, mode := range modes {
						if g.Thorough() && mi != (bi+ei)%5 && mi != (bi+ei+2)%5 || !g.Thorough() && mi != (bi+n)%5 {
							continue
						}
						emit(fn, mode, n, recipe)
					}
				}
			}
		}
	}
}

// genNested: re-entrant callbacks -- the case's eq / cmp calls back into the package (a complete
// call, or one whose own callback panics and is recovered) while the outer call is running.
// Called right after genPreludes: these are P lines too (two collections each, cheap while the
// heap is small).
func genNested(g *tr.G) {
	for i := 0; i < g.Scale(400, 4000); i++ {
		lis := i%2 == 1
		var line string
		var la, lb, total int
		if lis {
			ks := randKeys(g.R, 40)
			if i%20 == 1 {
				ks = sweepKeys(tr.Pick(g.R, []int{31, 32, 33, 63, 64, 65}), 'a')
			}
			if len(ks) < 2 {
				ks = []int{1, 0, 2}
			}
			mode := tr.Pick(g.R, []string{"k", "r", "d", "t", "q", "x", "c", "m"})
			line = "IN"[i/2%2:i/2%2+1] + " " + mode + " " + tr.Ints(payloadMod(ks))
			la, lb, total = len(ks), 0, len(ks)-1
		} else {
			k := g.R.Range(2, 4)
			base := make([]int, g.R.Range(1, 30))
			if i%20 == 0 {
				base = make([]int, tr.Pick(g.R, []int{31, 32, 33, 63, 64, 65}))
			}
			for j := range base {
				base[j] = g.R.Intn(k)
			}
			a, b := mutate(g.R, base, k), mutate(g.R, base, k)
			if len(a) == 0 || len(b) == 0 {
				a, b = []int{0, 1}, []int{1, 0, 1}
			}
			mode := tr.Pick(g.R, []string{"k", "k", "c", "m", "o", "p"})
			line = "L " + mode + " " + tr.Ints(withPayload(a, 0)) + " " + tr.Ints(withPayload(b, 50))
			la, lb, total = len(a), len(b), len(a)*len(b)
		}
		at := []int{1, 2, total/2 + 1, max(total-min(la, max(lb, 1)), 1), max(total, 1)}[g.R.Intn(5)]
		// the nested call: the sizes of the case (the same rows / tables), one more, smaller, larger
		size := func(base int) int {
			switch g.R.Intn(5) {
			case 0:
				return base
			case 1:
				return base + 1
			case 2:
				return max(base/2, 1)
			case 3:
				return 2*base + 1
			}
			return g.R.Range(1, base+3)
		}
		n, m := size(max(la, 1)), size(max(lb, la, 1))
		fn := "lllain"[g.R.Intn(6)]
		if lis {
			fn = "iinnla"[g.R.Intn(6)]
		}
		tot := n * m
		if fn == 'i' || fn == 'n' {
			tot = max(n-1, 1)
		}
		k := []int{0, 0, 1, tot/2 + 1, tot}[g.R.Intn(5)]
		item := fmt.Sprintf("@%d:%c%d.%d.%d.%d", at, fn, n, m, k, g.R.Intn(3))
		tags := []string{"nested-call"}
		if k == 0 {
			tags = append(tags, "nested-call-runs-to-end")
		} else {
			tags = append(tags, "nested-call-panics-inside")
		}
		g.Emit(line, true, "nested-twin") // the case alone first: what fails without the nested call is reported without it
		g.Emit("P "+item+" "+line, true, tags...)
	}
	isolate()
}

// genTyped5: the cmp.Ordered wrappers on []byte, []int16, []float32 and slice.LCS on []byte, []bool,
// []float32, a 40-byte struct and pointers.
func genTyped5(g *tr.G) {
	for _, mode := range []string{"y", "w", "u"} {
		k := map[string]int{"y": len(extByte), "w": len(extInt16), "u": len(extF32)}[mode]
		allLists(k, g.Scale(3, 4), func(ks []int) {
			nt, tags := lisTags(ks)
			g.Emit("I "+mode+" "+tr.Ints(ks), nt, append(tags, "lis-typed-"+mode, "lis-typed-exhaustive")...)
			g.Emit("N "+mode+" "+tr.Ints(ks), nt, append(tags, "lis-typed-"+mode)...)
		})
		for i := 0; i < g.Scale(150, 4000); i++ {
			n := g.R.Range(5, 40)
			if i%10 == 0 {
				n = tr.Pick(g.R, []int{63, 64, 65, 127, 128, 129, 255, 256, 257})
			}
			ks := make([]int, n)
			for j := range ks {
				ks[j] = g.R.Intn(k)
			}
			nt, tags := lisTags(ks)
			g.Emit("I "+mode+" "+tr.Ints(ks), nt, append(tags, "lis-typed-"+mode)...)
			g.Emit("N "+mode+" "+tr.Ints(ks), nt, append(tags, "lis-typed-"+mode)...)
		}
	}
	for _, mode := range []string{"y", "z", "u", "a", "r"} {
		k := lcsTypedCodes(mode)
		var lists [][]int
		allLists(k, g.Scale(2, 3), func(ks []int) { lists = append(lists, slices.Clone(ks)) })
		if mode == "z" {
			lists = nil
			allLists(k, g.Scale(4, 5), func(ks []int) { lists = append(lists, slices.Clone(ks)) })
		}
		for _, a := range lists {
			for _, b := range lists {
				g.Emit("L "+mode+" "+tr.Ints(a)+" "+tr.Ints(b), len(a) > 0 && len(b) > 0, "lcs-typed-"+mode, "lcs-typed-exhaustive")
			}
		}
		for i := 0; i < g.Scale(200, 5000); i++ {
			n := g.R.Range(1, 30)
			if i%10 == 0 {
				n = tr.Pick(g.R, []int{31, 32, 33, 63, 64, 65})
			}
			base := make([]int, n)
			for j := range base {
				base[j] = g.R.Intn(k)
			}
			a, b := mutate(g.R, base, k), mutate(g.R, base, k)
			g.Emit("L "+mode+" "+tr.Ints(a)+" "+tr.Ints(b), len(a) > 0 && len(b) > 0, "lcs-typed-"+mode)
		}
	}
}

// genThinLong: one input of exactly 2^15 - 1 .. 2^15 + 1 and 2^16 - 1 .. 2^16 + 1 elements against a
// thin one (the table is linear in the long side): all equal, distinct with the LAST / the first and
// the last element in common, nothing in common; both argument orders.  S lines with abbreviated
// lists ("7*65536", "1~65536": the harness and the driver expand them).
func genThinLong(g *tr.G) {
	for _, n := range []int{1<<15 - 1, 1 << 15, 1<<15 + 1, 1<<16 - 1, 1 << 16, 1<<16 + 1} {
		if !g.Thorough() && n < 1<<16-1 && n != 1<<15 {
			continue
		}
		N := strconv.Itoa(n)
		type pair struct{ long, thin string }
		pairs := []pair{
			{"700*" + N, "700,700,700"},
			{"1~" + N, N},
			{"1~" + N, "1," + N},
			{"1~" + N, strconv.Itoa(n + 5)},
			{"700*" + strconv.Itoa(n-1) + ",900", "900"},
		}
		for pi, p := range pairs {
			a, b := p.long, p.thin
			if (pi+n)%2 == 1 {
				a, b = b, a
			}
			g.Emit("S e "+a+" "+b, true, "thin-long", "spec-only", "lcs-mode-e", "exact-size>=2^15")
			if g.Thorough() {
				g.Emit("S e "+b+" "+a, true, "thin-long", "spec-only", "lcs-mode-e", "exact-size>=2^15")
			}
		}
	}
}

// genFuncTyped: LCSFunc, LISFunc, LNDSFunc on a 40-byte struct and on pointers to it (modes K, Q).
func genFuncTyped(g *tr.G) {
	for _, mode := range []string{"K", "Q"} {
		var lists [][]int
		allLists(3, g.Scale(3, 4), func(ks []int) { lists = append(lists, slices.Clone(ks)) })
		for _, a := range lists {
			for _, b := range lists {
				g.Emit("L "+mode+" "+tr.Ints(withPayload(a, 0))+" "+tr.Ints(withPayload(b, 50)), hasDup(a) || hasDup(b), "func-typed-"+mode, "lcs-mode-"+mode)
			}
		}
		allLists(4, g.Scale(4, 6), func(ks []int) {
			vs := withPayload(ks, 0)
			g.Emit("I "+mode+" "+tr.Ints(vs), hasDup(ks), "func-typed-"+mode, "lis-mode-"+mode)
			g.Emit("N "+mode+" "+tr.Ints(vs), hasDup(ks), "func-typed-"+mode, "lis-mode-"+mode)
		})
		for i := 0; i < g.Scale(200, 5000); i++ {
			k := g.R.Range(2, 5)
			n := g.R.Intn(41)
			if i%10 == 0 {
				n = tr.Pick(g.R, []int{31, 32, 33, 63, 64, 65})
			}
			base := make([]int, n)
			for j := range base {
				base[j] = g.R.Intn(k)
			}
			a, b := mutate(g.R, base, k), mutate(g.R, base, k)
			if len(a) > 49 {
				a = a[:49]
			}
			g.Emit("L "+mode+" "+tr.Ints(withPayload(a, 0))+" "+tr.Ints(payloadMod(b)), true, "func-typed-"+mode, "lcs-mode-"+mode)
			ks := randKeys(g.R, 60)
			if i%10 == 0 {
				ks = sweepKeys(tr.Pick(g.R, []int{31, 32, 33, 63, 64, 65, 100}), "apst"[i/10%4])
			}
			g.Emit("IN"[i%2:i%2+1]+" "+mode+" "+tr.Ints(payloadMod(ks)), true, "func-typed-"+mode, "lis-mode-"+mode)
		}
	}
}

func round5(g *tr.G) {
	genFuncTyped(g)
	genThinLong(g)
	genTwoSided(g)
	genOneDoubled(g)
	genSharedSweep(g)
	genExactSizes(g)
	genTyped5(g)
}
