// Round 5: the whole surface of the header API.
//
// (a) FILE NAMES SPECIAL TO THE FORMATS.  So far header names came from a list of fourteen (`names`)
// and, in git wrappers, were always a/f<i>, b/f<i>.  "Header file names survive" quantifies over every
// tab- and newline-free name, and the names a diff tool itself writes are the ones a reader is
// tempted to interpret: /dev/null (git's and GNU diff's "no such file": one side of every patch that
// creates or deletes a file), the a/ and b/ prefixes git puts in front of every path, names equal to
// the defaults the formatters substitute for an empty name ("a", "b"), the same name on both
// sides, names with blanks, quotes, backslashes (git C-quotes such paths), names that look like
// header or hunk lines, names ending in a timestamp-like tail.  Every ordered pair of `specialNames`
// (both sides equal included) goes through
//
//	D / A   Unified + ReadUnified + re-format, Context, the reference appliers (with the header)
//	G       a git wrapper of one file and of two files (the reader carries one diffReader from
//	        patch to patch) with the junk lines git writes for that kind of patch (new file mode /
//	        deleted file mode / index / rename from-to / similarity), ReadGitPatch
//	Q       the same round trips behind an earlier reader call that saw /dev/null headers
//
// on a rotating diff: an ordinary change, a created file (Left empty: every line added), a deleted
// file (Right empty), two hunks -- with no stamp, a left stamp, both stamps rotating.
// Names with a tab or newline are outside the theorems (the formats have no spelling for them); they
// run too, for the correspondence with the model.
//
// (b) OPTIONS AND ENTRY POINTS.  `ZF` lines: FileInfo.TimeFormat (the one option field the earlier
// streams never set) -- a real time written by Unified and Context under a caller-chosen layout must
// appear in both headers exactly as time.Format spells it under that layout, and under the default
// layout when the field is empty:
//
//	ZF <layout hex | -> <unix sec> <nsec> <zone offset sec> | same|zero|lost
//
// (c) THE KIND OF READER.  Read, ReadUnified and ReadGitPatch take an io.Reader; every stream handed
// them a *strings.Reader.  `src` (used for every reader call of every line kind) picks the kind of
// reader from the length of the text, so that the same line always gets the same kind: *strings.Reader,
// *bytes.Reader, *bytes.Buffer, *bufio.Reader (which bufio.NewReader hands back as it is), a 16-byte
// *bufio.Reader, one byte per Read, the last bytes returned together with io.EOF, chunks of seven bytes
// each preceded by a Read that returns (0, nil).  The model reads a text; how it arrives is not its
// business.
//
// Diff.Format and Patch.Format are the documented ways to call a FormatFunc; `format` (main.go) now
// renders every text a second time through (&mdiff.Diff{Chunks: cs}).Format and reports a
// difference in place of the text.
package main

import (
	"bufio"
	"bytes"
	"fmt"
	"io"
	"slices"
	"strconv"
	"strings"
	"time"

	"github.com/creachadair/mds/mdiff"
	"github.com/creachadair/mds/slice"
	"verif/harness/internal/tr"
)

// specialNames: header names a reader or writer could be tempted to interpret.  "" is written as the
// default name (a / b) and comes back as that.
var specialNames = []string{
	"/dev/null", "a/x", "b/x", "a/", "b/", "a", "b", "", "x",
	"a/dev/null", "/dev/null/", "/dev/nul", "dev/null", " /dev/null", "/dev/null ", "NUL", "nul",
	"a/dir/file name.go", "b/dir/file name.go", "\"a/quoted name\"", "\"b/q\\\"uote\"", "'single'", "back\\slash", "a/a/x", "b/a/x", "a/b/x",
	"--- a/x", "+++ b/x", "@@ -1,2 +1,2 @@", "diff --git a/x b/x", "index 83a4f1..9bc2d0", "new file mode 100644", "\\ No newline at end of file",
	"x 2024-01-02 03:04:05 +0000", "a/x  ", "a//x", "./x", "../x", "é/ü", "a/\xff",
}

// names outside the theorems (a tab ends the name in the header line, a newline ends the line):
// correspondence with the model only
var uncleanNames = []string{"a/x\ty", "\t", "a/x\t2024-01-02 03:04:05 +0000", "/dev/null\t", "\t/dev/null"}

type nameDiff struct {
	l, r []string
	ctx  int
	kind string // what git calls the patch
}

var nameDiffs = []nameDiff{
	{[]string{"k1", "k2", "k3", "o1", "o2", "k4", "k5"}, []string{"k1", "k2", "k3", "n1", "n2", "n3", "k4", "k5"}, 1, "change"},
	{nil, []string{"p", "q"}, 0, "create"},
	{[]string{"p", "q", "r"}, nil, 0, "delete"},
	{[]string{"k1", "o1", "o2", "k2", "k3", "k4", "k5", "k6", "o3", "o4", "k7"}, []string{"k1", "n1", "n2", "k2", "k3", "k4", "k5", "k6", "k7"}, 1, "change"},
	{nil, []string{"only", "two", "lines", "", "/dev/null"}, 3, "create"},
	{[]string{"--- /dev/null", "+++ /dev/null"}, nil, 2, "delete"},
}

func gitJunkFor(kind string, l, r string, i int) []string {
	head := "diff --git " + l + " " + r
	switch kind {
	case "create":
		return []string{head, "new file mode 100644", "index 0000000..9bc2d0"}
	case "delete":
		return []string{head, "deleted file mode 100644", "index 83a4f1..0000000"}
	}
	switch i % 4 {
	case 0:
		return []string{head, "index 83a4f1..9bc2d0 100644"}
	case 1:
		return []string{head, "similarity index 90%", "rename from " + l, "rename to " + r, "index 83a4f1..9bc2d0 100644"}
	case 2:
		return []string{head, "old mode 100644", "new mode 100755", "index 83a4f1..9bc2d0"}
	}
	return []string{head}
}

func stampFor(i int) (lt, rt time.Time) {
	s := stamps[2:]
	switch i % 4 {
	case 1:
		lt, _ = time.Parse(mdiff.TimeFormat, s[i/4%len(s)])
	case 2:
		lt, _ = time.Parse(mdiff.TimeFormat, s[i/4%len(s)])
		rt, _ = time.Parse(mdiff.TimeFormat, s[(i/4+1)%len(s)])
	case 3:
		rt, _ = time.Parse(mdiff.TimeFormat, "1970-01-01 00:00:00 +0000") // the epoch: what tools write for /dev/null
	}
	return
}

func headerNames(g *tr.G) {
	all := slices.Concat(specialNames, uncleanNames)
	n := 0
	one := func(ln, rn string, full bool) {
		n++
		d := nameDiffs[n%len(nameDiffs)]
		// the side that does not exist is the one tools name /dev/null: steer the rotation so that a
		// created file meets Left = /dev/null and a deleted one Right = /dev/null
		if ln == "/dev/null" && rn != "/dev/null" {
			d = nameDiffs[[]int{1, 4}[n%2]]
		} else if rn == "/dev/null" && ln != "/dev/null" {
			d = nameDiffs[[]int{2, 5}[n%2]]
		}
		cs := chunksOf(d.l, d.r, d.ctx)
		fi := &mdiff.FileInfo{Left: ln, Right: rn}
		fi.LeftTime, fi.RightTime = stampFor(n)
		tags := []string{"names", "names-" + d.kind}
		if ln == "/dev/null" || rn == "/dev/null" {
			tags = append(tags, "names-dev-null")
		}
		if ln == rn {
			tags = append(tags, "names-both-sides-equal")
		}
		if strings.ContainsAny(ln+rn, "\t\n") {
			tags = append(tags, "names-with-tab(correspondence only)")
		}
		rest := tr.HexList(d.l) + " " + tr.HexList(d.r) + " " + encFI(fi) + " " + encChunks(cs)
		g.Emit("D "+rest, true, tags...)
		if d.kind == "change" { // an empty range is F6 for the appliers
			g.Emit("A "+rest, true, "names-applied")
		}
		// one file in a git wrapper
		g.Emit("G 1 "+tr.HexList(gitJunkFor(d.kind, ln, rn, n))+" "+encFI(fi)+" "+encChunks(cs), true, "names", "names-git")
		if !full {
			return
		}
		// two and three files: this one in front of, behind and between ordinary ones / its mirror image
		plain := nameDiffs[0]
		pfi := &mdiff.FileInfo{Left: "a/plain", Right: "b/plain"}
		pitem := tr.HexList(gitJunkFor("change", "a/plain", "b/plain", 0)) + " " + encFI(pfi) + " " + encChunks(chunksOf(plain.l, plain.r, 1))
		item := tr.HexList(gitJunkFor(d.kind, ln, rn, n)) + " " + encFI(fi) + " " + encChunks(cs)
		md := nameDiffs[(n+1)%len(nameDiffs)]
		mfi := &mdiff.FileInfo{Left: rn, Right: ln, LeftTime: fi.RightTime, RightTime: fi.LeftTime}
		mitem := tr.HexList(gitJunkFor(md.kind, rn, ln, n+1)) + " " + encFI(mfi) + " " + encChunks(chunksOf(md.l, md.r, md.ctx))
		switch n % 4 {
		case 0:
			g.Emit("G 2 "+item+" "+pitem, true, "names", "names-git-several-files")
		case 1:
			g.Emit("G 2 "+pitem+" "+item, true, "names", "names-git-several-files")
		case 2:
			g.Emit("G 2 "+item+" "+mitem, true, "names", "names-git-several-files")
		default:
			g.Emit("G 3 "+pitem+" "+item+" "+mitem, true, "names", "names-git-several-files")
		}
		// behind an earlier reader call that saw a /dev/null header (and one that did not)
		if n%3 == 0 {
			pre := "g:" + tr.Hex("diff --git a/y b/y\nnew file mode 100644\n--- /dev/null\n+++ b/y\n@@ -0,0 +1,2 @@\n+p\n+q\n")
			if n%2 == 0 {
				pre = "u:" + tr.Hex("--- a/y\n+++ /dev/null\n@@ -1,2 +0,0 @@\n-p\n-q\n")
			}
			g.Emit("Q "+pre+" "+[]string{"g", "u"}[n/3%2]+" "+encFI(fi)+" "+encChunks(cs), true, "names", "names-after-earlier-call")
		}
	}
	// every ordered pair of the first seventeen (the /dev/null family, a/ b/, the defaults, empty) in
	// full; every name of the list against itself, /dev/null, a/x, b/x and the empty name both ways
	core := 17
	for i, ln := range all {
		for j, rn := range all {
			switch {
			case i < core && j < core:
				one(ln, rn, true)
			case i == j:
				one(ln, rn, true)
			case j < 4 || rn == "":
				one(ln, rn, g.Thorough() || (i+j)%2 == 0)
			case i < 4 || ln == "":
				one(ln, rn, g.Thorough() || (i+j)%2 == 1)
			case g.Thorough():
				one(ln, rn, false)
			}
		}
	}
}

// ---------------------------------------------------------------- options and entry points

var layouts = []string{"", time.RFC3339, time.RFC3339Nano, time.RFC1123Z, time.ANSIC, time.Kitchen, "2006-01-02", "15:04:05.000", "Mon Jan _2 15:04:05 2006 -0700",
	"2006-01-02 15:04:05.999999 -0700", "2006-01-02 15:04:05 -0700", "literal", "2006\t01", "Jan 2", "06/1/2 3PM MST"}

// stampLayout: the headers Unified and Context write for a real time under a chosen layout
func stampLayout(layout string, sec, nsec int64, off int) string {
	t := time.Unix(sec, nsec).In(time.FixedZone("zone", off))
	cs := []*mdiff.Chunk{{LStart: 1, LEnd: 3, RStart: 1, REnd: 3, Edits: []mdiff.Edit{{Op: slice.OpReplace, X: []string{"x", "w"}, Y: []string{"y", "z"}}}}}
	fi := &mdiff.FileInfo{Left: "l", Right: "r", LeftTime: t, RightTime: t, TimeFormat: layout}
	want := layout
	if want == "" {
		want = mdiff.TimeFormat
	}
	tail := "\t" + t.Format(want) + "\n"
	if t.IsZero() {
		tail = "\n"
	}
	u := format(mdiff.Unified, cs, fi)
	c := format(mdiff.Context, cs, fi)
	if !strings.HasPrefix(u, "--- l"+tail+"+++ r"+tail+"@@ ") || !strings.HasPrefix(c, "*** l"+tail+"--- r"+tail+"***************\n") {
		return "lost"
	}
	// the body is the one written without the option
	fi0 := &mdiff.FileInfo{Left: "l", Right: "r"}
	u0, c0 := format(mdiff.Unified, cs, fi0), format(mdiff.Context, cs, fi0)
	if strings.TrimPrefix(u, "--- l"+tail+"+++ r"+tail) != strings.TrimPrefix(u0, "--- l\n+++ r\n") ||
		strings.TrimPrefix(c, "*** l"+tail+"--- r"+tail) != strings.TrimPrefix(c0, "*** l\n--- r\n") {
		return "lost"
	}
	if t.IsZero() {
		return "zero"
	}
	return "same"
}

func timeLayouts(g *tr.G) {
	secs := []int64{0, 1, 1700000000, 951782400, -1, 4107542399, -62135596800}
	for i, lay := range layouts {
		for j, sec := range secs {
			nsec := []int64{0, 1000, 123456789, 999999999}[(i+j)%4]
			if sec == -62135596800 {
				nsec = 0 // the zero time: not written, under any layout
			}
			off := []int{0, 3600, -34200, 19800}[(i+2*j)%4]
			l := "-"
			if lay != "" {
				l = tr.Hex(lay)
			}
			g.Emit(fmt.Sprintf("ZF %s %d %d %d", l, sec, nsec, off), true, "time-format-option")
		}
	}
}

// formatVia renders through the documented entry point Diff.Format (main.go's format compares)
func formatVia(f mdiff.FormatFunc, cs []*mdiff.Chunk, fi *mdiff.FileInfo) (string, error) {
	var b bytes.Buffer
	err := (&mdiff.Diff{Chunks: cs}).Format(&b, f, fi)
	return b.String(), err
}

var _ = strconv.Itoa

// ---------------------------------------------------------------- reader kinds

type chunkReader struct {
	s       string
	k       int  // bytes per Read
	withEOF bool // the last bytes come together with io.EOF
	zeros   bool // every chunk is preceded by one Read that returns (0, nil)
	zero    bool
}

func (r *chunkReader) Read(p []byte) (int, error) {
	if len(r.s) == 0 {
		return 0, io.EOF
	}
	if len(p) == 0 {
		return 0, nil
	}
	if r.zeros {
		if r.zero = !r.zero; r.zero {
			return 0, nil
		}
	}
	n := min(len(p), r.k, len(r.s))
	copy(p, r.s[:n])
	r.s = r.s[n:]
	if r.withEOF && len(r.s) == 0 {
		return n, io.EOF
	}
	return n, nil
}

const readerKinds = 8

// src: a reader over text, its kind chosen by the length of the text
func src(text string) io.Reader {
	switch len(text) % readerKinds {
	case 1:
		return bytes.NewReader([]byte(text))
	case 2:
		return bytes.NewBufferString(text)
	case 3:
		return bufio.NewReader(strings.NewReader(text))
	case 4:
		return bufio.NewReaderSize(strings.NewReader(text), 16)
	case 5:
		return &chunkReader{s: text, k: 1}
	case 6:
		return &chunkReader{s: text, k: 1 << 20, withEOF: true}
	case 7:
		return &chunkReader{s: text, k: 7, zeros: true}
	}
	return strings.NewReader(text)
}
