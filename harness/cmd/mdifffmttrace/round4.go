// Round 4 streams: state carried across calls, equalities, conditions on values.
//
//	Q <preludes> <n|u|g> <fi> <chunks> | <text> <result> <re-formatted> <prelude results> <same|changed>
//
// A Q line is an ordinary round trip through ONE reader - n: Normal/Read, u: Unified/ReadUnified,
// g: a one-file git wrapper around Unified/ReadGitPatch - run AFTER a prelude of earlier calls in
// the same process, '&'-separated:
//
//	n:<hex> u:<hex> g:<hex>   Read / ReadUnified / ReadGitPatch on that text (rejected, damaged,
//	                          cut short, much larger, or valid)
//	w<k>  x<k>                the line's own chunks through the three formatters into a writer
//	                          whose k-th Write fails (w) or panics (x; recovered)
//	b<k>                      a much larger formatter call first: one Replace of k lines of k bytes
//
// The line is self-contained: replayed alone it prepares the same state.  The readers and
// formatters keep nothing between calls, so the model predicts the round trip from the chunks
// alone; a package-level pool, cache or scratch buffer that an earlier call leaves dirty (a
// pushed-back line, a file header, the chunks read so far, half a rendering) shows as a round
// trip that fails on text the formatter wrote.  What the prelude's reader calls returned is
// spelled AFTER the round trip ran (field 4: what the model says those texts read as) and
// compared with its spelling before (field 5): a later call must not reach into a patch handed
// out earlier.
package main

import (
	"errors"
	"io"
	"slices"
	"strconv"
	"strings"
	"unicode"

	"github.com/creachadair/mds/mdiff"
	"github.com/creachadair/mds/slice"
	"verif/harness/internal/tr"
)

// gitJunk is what a g round trip puts in front of the Unified rendering.
const gitJunk = "diff --git a/f b/f\nindex 83a4f1..9bc2d0 100644\n"

type failWriter struct {
	n, k   int
	panics bool
}

func (w *failWriter) Write(p []byte) (int, error) {
	w.n++
	if w.n >= w.k {
		if w.panics {
			panic("writer gave up")
		}
		return 0, errors.New("writer failed")
	}
	return len(p), nil
}

func bigChunk(k int) []*mdiff.Chunk {
	x, y := make([]string, k), make([]string, k)
	for i := range x {
		x[i], y[i] = scaleLine(k, i), scaleLine(k, i+3)
	}
	return []*mdiff.Chunk{{LStart: 1, LEnd: 1 + k, RStart: 1, REnd: 1 + k, Edits: []mdiff.Edit{{Op: slice.OpReplace, X: x, Y: y}}}}
}

// runPrelude runs one prelude item and returns a function spelling what it returned ("-" for
// the formatter preludes), ok = false for a malformed item.
func runPrelude(item string, cs []*mdiff.Chunk, fi *mdiff.FileInfo) (func() string, bool) {
	none := func() string { return "-" }
	if len(item) < 2 {
		return nil, false
	}
	if item[1] == ':' {
		text := tr.UnHex(item[2:])
		switch item[0] {
		case 'n':
			p, err := mdiff.Read(src(text))
			return func() string { return encPatch(p, err) }, true
		case 'u':
			p, err := mdiff.ReadUnified(src(text))
			return func() string { return encPatch(p, err) }, true
		case 'g':
			ps, err := mdiff.ReadGitPatch(src(text))
			return func() string { return encPatches(ps, err) }, true
		}
		return nil, false
	}
	k, err := strconv.Atoi(item[1:])
	if err != nil || k < 0 || k > 100000 {
		return nil, false
	}
	fs := []mdiff.FormatFunc{mdiff.Normal, mdiff.Unified, mdiff.Context}
	switch item[0] {
	case 'w', 'x':
		for _, f := range fs {
			tr.Catch(func() { f(&failWriter{k: k, panics: item[0] == 'x'}, cs, fi) })
		}
		return none, true
	case 'b':
		for _, f := range fs {
			f(io.Discard, bigChunk(min(k, 2000)), fi)
		}
		return none, true
	}
	return nil, false
}

func execQ(f []string) string {
	if len(f) != 5 {
		return "?"
	}
	fi, cs := decFI(f[3]), decChunks(f[4])
	var after []func() string
	var before []string
	for _, item := range strings.Split(f[1], "&") {
		enc, ok := runPrelude(item, cs, fi)
		if !ok {
			return "?"
		}
		after = append(after, enc)
		before = append(before, enc())
	}
	var text, res, re string
	switch f[2] {
	case "n":
		text = format(mdiff.Normal, cs, fi)
		p, err := mdiff.Read(src(text))
		res, re = encPatch(p, err), reformat(p, err, mdiff.Normal)
	case "u":
		text = format(mdiff.Unified, cs, fi)
		p, err := mdiff.ReadUnified(src(text))
		res, re = encPatch(p, err), reformat(p, err, mdiff.Unified)
	case "g":
		text = gitJunk + format(mdiff.Unified, cs, fi)
		res, re = encPatches(mdiff.ReadGitPatch(src(text))), "-"
	default:
		return "?"
	}
	same := "same"
	now := make([]string, len(after))
	for i, enc := range after {
		if now[i] = enc(); now[i] != before[i] {
			same = "changed"
		}
	}
	return tr.Hex(text) + " " + res + " " + re + " " + strings.Join(now, "&") + " " + same
}

// modelable: texts the model of the readers covers (see the damaged-text stream of main.go)
func modelable(text string) bool {
	return strings.IndexFunc(text, func(r rune) bool { return r > 127 && unicode.IsSpace(r) }) < 0 && !greyStamp(text)
}

// ---------------------------------------------------------------- preludes (class 1)

// preludeTexts: texts that leave a reader at every exit it has - valid renderings, the same cut
// short after every line, with every kind of foreign line behind the last hunk (the unified
// reader pushes it back and stops), with a count in a change command or hunk header made wrong
// (the normal reader has pushed back the next command when it notices), damaged at random, much
// larger than what follows - and the hand-written texts.
func preludeTexts(g *tr.G) []string {
	out := slices.Clone(handTexts)
	hdr := &mdiff.FileInfo{Left: "old", Right: "new"}
	type pair struct{ l, r []string }
	var diffs []pair
	for _, role := range []string{"del", "repY", "ctx"} {
		l, r := sweepPair("q", role, 0, len(diffs))
		diffs = append(diffs, pair{l, r})
	}
	l2, r2 := scaleHunks(3, 1, 9)
	diffs = append(diffs, pair{l2, r2})
	trailers := []string{"diff --git a b", "junk", "\\ No newline at end of file", "1a1", "--- x", "@@ bad", "", " ctx", "-gone", "+new", "> x", "< y", "---", "index 1..2", "Binary files differ"}
	for di, d := range diffs {
		cs := chunksOf(d.l, d.r, di%2+1)
		texts := []string{
			format(mdiff.Normal, cs, nil),
			format(mdiff.Unified, cs, nil),
			format(mdiff.Unified, cs, hdr),
			gitJunk + format(mdiff.Unified, cs, hdr) + "diff --git c d\nnew file mode 100644\n" + format(mdiff.Unified, cs, &mdiff.FileInfo{Left: "c", Right: "d"}),
		}
		for ti, t := range texts {
			out = append(out, t)
			lines := strings.SplitAfter(t, "\n")
			lines = lines[:len(lines)-1]
			for k := 1; k < len(lines); k++ { // cut short after every line; every third cut also without its newline
				cut := strings.Join(lines[:k], "")
				out = append(out, cut)
				if (k+ti)%3 == 0 {
					out = append(out, strings.TrimSuffix(cut, "\n"))
				}
			}
			for _, tl := range trailers {
				out = append(out, t+tl+"\n")
			}
			out = append(out, strings.Join(lines[1:], "")) // first line missing
			// a number made wrong in every line that has one (change commands, hunk headers)
			for k, ln := range lines {
				header := strings.HasPrefix(ln, "@@") || (ti == 0 && !strings.HasPrefix(ln, "<") && !strings.HasPrefix(ln, ">") && !strings.HasPrefix(ln, "-"))
				if i := strings.IndexAny(ln, "0123456789"); i >= 0 && header {
					bumped := ln[:i] + "7" + ln[i:]
					out = append(out, strings.Join(lines[:k], "")+bumped+strings.Join(lines[k+1:], ""))
					if j := strings.LastIndexAny(ln, "0123456789"); j > i {
						out = append(out, strings.Join(lines[:k], "")+ln[:j]+"9"+ln[j+1:]+strings.Join(lines[k+1:], ""))
					}
				}
			}
		}
		for i := 0; i < g.Scale(12, 200); i++ {
			t := texts[g.R.Intn(len(texts))]
			for m := 1 + g.R.Intn(2); m > 0; m-- {
				t = mutate(g.R, t)
			}
			out = append(out, t)
		}
	}
	// much larger than what follows: many hunks, one edit of many lines, a line beyond the reader's buffer
	lb, rb := scaleHunks(g.Scale(40, 300), 1, 3)
	big := chunksOf(lb, rb, 1)
	out = append(out, format(mdiff.Unified, big, hdr), format(mdiff.Normal, big, nil), format(mdiff.Unified, big, hdr)+"junk\n",
		gitJunk+format(mdiff.Unified, big, hdr))
	ll, rl := sweepPair(scaleLine(5000, 1), "repX", 0, 0)
	long := chunksOf(ll, rl, 1)
	out = append(out, format(mdiff.Unified, long, nil), format(mdiff.Normal, long, nil)+"junk\n", format(mdiff.Unified, long, nil)+"junk\n")
	var keep []string
	seen := map[string]bool{}
	for _, t := range out {
		if seen[t] {
			continue
		}
		seen[t] = true
		if !modelable(t) {
			g.W.Count("prelude-text-skipped(non-ASCII space or non-canonical stamp)", 1)
			continue
		}
		keep = append(keep, t)
	}
	return keep
}

func preludes(g *tr.G) {
	hdr := &mdiff.FileInfo{Left: "a/f", Right: "b/f"}
	type main struct {
		fi *mdiff.FileInfo
		cs []*mdiff.Chunk
	}
	var mains []main
	for i, role := range []string{"del", "add", "repX", "ctx"} {
		l, r := sweepPair([]string{"liquid", "-- ", "", "@@ -1 +1 @@"}[i], role, i%2, i)
		mains = append(mains, main{hdr, chunksOf(l, r, 1)})
	}
	l2, r2 := scaleHunks(2, 0, 5)
	mains = append(mains, main{hdr, chunksOf(l2, r2, 0)})
	emit := func(i int, pre, rk string, tags ...string) {
		m := mains[i%len(mains)]
		fi := m.fi
		if rk != "g" && i%3 == 0 {
			fi = nil
		}
		out := g.Emit("Q "+pre+" "+rk+" "+encFI(fi)+" "+encChunks(m.cs), true, append(tags, "prelude", "prelude-then-"+rk)...)
		if w := strings.Fields(out); len(w) == 5 && strings.Contains(w[3], "E:") {
			g.W.Count("prelude-reader-rejected", 1)
		}
	}
	texts := preludeTexts(g)
	n := 0
	for ti, t := range texts {
		for _, pk := range []string{"n", "u", "g"} {
			for _, rk := range []string{"n", "u", "g"} {
				// quick: all 3x3 combinations for every second text, the diagonal and one off-diagonal pair for the others
				if !g.Thorough() && ti%2 == 1 && pk != rk && (ti/2+int(pk[0])+int(rk[0]))%3 != 0 {
					continue
				}
				emit(n, pk+":"+tr.Hex(t), rk, "prelude-"+pk+"-then-"+rk)
				n++
			}
		}
	}
	// two earlier calls
	for i := 0; i < g.Scale(300, 6000); i++ {
		a, b := tr.Pick(g.R, texts), tr.Pick(g.R, texts)
		if len(a)+len(b) > 4000 {
			continue
		}
		pks := []string{"n", "u", "g"}
		emit(n, tr.Pick(g.R, pks)+":"+tr.Hex(a)+"&"+tr.Pick(g.R, pks)+":"+tr.Hex(b), tr.Pick(g.R, pks), "prelude-two-calls")
		n++
	}
	// formatter preludes: a writer that fails / panics at its k-th Write, a much larger call first
	for k := 1; k <= g.Scale(24, 60); k++ {
		for ri, rk := range []string{"n", "u", "g"} {
			emit(k+ri, "w"+strconv.Itoa(k), rk, "prelude-writer-fails")
			emit(k+ri, "x"+strconv.Itoa(k), rk, "prelude-writer-panics")
		}
	}
	for i, k := range []int{1, 64, 255, 256, 257, 600, 1500} {
		for _, rk := range []string{"n", "u", "g"} {
			emit(i, "b"+strconv.Itoa(k), rk, "prelude-bigger-format-call")
			emit(i, "b"+strconv.Itoa(k)+"&u:"+tr.Hex(texts[(i*7)%len(texts)]), rk, "prelude-bigger-format-call")
		}
	}
}

// ---------------------------------------------------------------- equalities (class 2)

// lineEnding: scaleLine with a chosen last byte (lines of one length in different roles must differ)
func lineEnding(n, salt int, end byte) string {
	b := []byte(scaleLine(n, salt))
	if n > 0 {
		b[n-1] = end
	}
	return string(b)
}

// everyLength: EVERY line length from 1 to 600 (thorough: 1100), not only those around powers of
// two: one diff per length in which a line of exactly that length is deleted, another one added
// and a third one context (the three formats put 1 or 2 marker bytes in front of it and a newline
// behind it), through Normal/Read, Unified/ReadUnified, Context (D), the three reference
// appliers (A) and a git wrapper/ReadGitPatch (G).
func everyLength(g *tr.G) {
	hdr := &mdiff.FileInfo{Left: "a/f", Right: "b/f"}
	for n := 1; n <= g.Scale(600, 1100); n++ {
		c, d, a := lineEnding(n, n, 'x'), lineEnding(n, n+7, 'y'), lineEnding(n, n+13, 'z')
		l := []string{"k1", "k2", "k3", c, d, "o1", "k4", "k5", "k6", "k7"}
		r := []string{"k1", "k2", "k3", c, "k4", "k5", "n1", a, "k6", "k7"}
		ctx := 1
		if g.Thorough() || n%5 == 0 {
			// also as either side of a Replace, with more context
			l = append(l, "k8", "k9", lineEnding(n, n+3, 'p'), "o2", "k10")
			r = append(r, "k8", "k9", "n2", lineEnding(n, n+5, 'q'), "k10")
			ctx = 1 + n%3
		}
		cs := chunksOf(l, r, ctx)
		rest := encFI(nil) + " " + encChunks(cs)
		g.Emit("D . . "+rest, true, "every-length", "every-length-roundtrip")
		g.Emit("A "+tr.HexList(l)+" "+tr.HexList(r)+" "+rest, true, "every-length-applied")
		if g.Thorough() || n%2 == 0 || (n >= 250 && n <= 260) {
			g.Emit("G 1 "+tr.HexList([]string{"diff --git a/f b/f", "index 83a4f1..9bc2d0 100644"})+" "+encFI(hdr)+" "+encChunks(cs), true, "every-length", "every-length-git")
		}
	}
}

// everyCount: every number of lines in one edit (1..600), every line number a hunk can start at
// (0..600 lines in front of it: the spellings of 1..600 in ranges and change commands), every
// number of hunks in a file (1..100; thorough 1..600).
func everyCount(g *tr.G) {
	letters := "abcefghijklmnopqrstuvwxyz"
	for k := 1; k <= g.Scale(600, 1100); k++ {
		blk := make([]string, k)
		for j := range blk {
			blk[j] = letters[(j+k)%len(letters) : (j+k)%len(letters)+1]
		}
		pre, post := []string{"k1", "k2", "k3"}, []string{"k5", "k6", "k7"}
		var l, r []string
		switch k % 3 {
		case 0:
			l, r = slices.Concat(pre, blk, post), slices.Concat(pre, post)
		case 1:
			l, r = slices.Concat(pre, post), slices.Concat(pre, blk, post)
		case 2:
			l, r = slices.Concat(pre, blk, post), slices.Concat(pre, []string{"n1", "n2"}, post)
		}
		cs := chunksOf(l, r, 1)
		g.Emit("D . . - "+encChunks(cs), true, "every-count", "every-edit-size")
		if g.Thorough() || k%8 == 0 || (k >= 250 && k <= 260) {
			g.Emit("A "+tr.HexList(l)+" "+tr.HexList(r)+" - "+encChunks(cs), true, "every-edit-size-applied")
		}
	}
	for p := 0; p <= g.Scale(600, 1100); p++ {
		var l, r []string
		for j := 0; j < p; j++ {
			s := string([]byte{'A' + byte(j%26), 'a' + byte(j/26%26)})
			l, r = append(l, s), append(r, s)
		}
		if p%2 == 1 && p >= 9 {
			r = slices.Concat([]string{"N1", "N2", "N3"}, r[2:]) // left and right line numbers differ
		}
		l = append(l, "o1", "o2", "t1", "t2", "t3")
		r = append(r, "n1", "n2", "n3", "t1", "t2", "t3")
		cs := chunksOf(l, r, p%4)
		g.Emit("D . . - "+encChunks(cs), true, "every-count", "every-start-line")
		if g.Thorough() || p%7 == 0 || p < 12 || (p >= 96 && p <= 102) {
			g.Emit("A "+tr.HexList(l)+" "+tr.HexList(r)+" - "+encChunks(cs), true, "every-start-line-applied")
		}
	}
	for m := 1; m <= g.Scale(100, 600); m++ {
		ctx := m % 3
		if m > 40 && !g.Thorough() {
			ctx = 0 // four lines per hunk instead of up to eight: the count is what is swept here
		}
		l, r := scaleHunks(m, ctx, m)
		cs := chunksOf(l, r, ctx)
		if len(cs) != m {
			g.W.Count("scale-hunk-count-off(not intended)", 1)
		}
		g.Emit("D . . - "+encChunks(cs), true, "every-count", "every-hunk-count")
		if g.Thorough() || m%8 == 0 {
			g.Emit("A "+tr.HexList(l)+" "+tr.HexList(r)+" - "+encChunks(cs), true, "every-hunk-count-applied")
		}
		if m <= 64 || g.Thorough() {
			g.Emit("G 1 "+tr.HexList([]string{"diff --git a/f b/f"})+" "+encFI(&mdiff.FileInfo{Left: "a/f", Right: "b/f"})+" "+encChunks(cs), true, "every-count", "every-hunk-count-git")
		}
	}
}

// ---------------------------------------------------------------- conditions on values (class 3)

// the colliding pairs: collisions.go (shared table + coarsePairs), loaded when the stream starts
var collidingPairs [][2]string

// valueTexts: line texts whose VALUE a reader or formatter could act on: numbers around 2^53 and
// 2^63/2^64, digit runs of 15-20 digits, texts that are ranges or change commands, valid 2-, 3-
// and 4-byte UTF-8 sequences at the ends and in the middle of filler
var valueTexts = []string{
	"9007199254740991", "9007199254740992", "9007199254740993", "9223372036854775807", "9223372036854775808", "18446744073709551615", "18446744073709551616",
	"123456789012345", "1234567890123456", "12345678901234567", "123456789012345678", "1234567890123456789", "12345678901234567890",
	"-0", "+0", "0", "00", "1,2", "1,0", "0,0", "-1,2 +1,2", "1.5", "1e308", "NaN", "0x10",
	"\xc3\xa9", "\xc3\xa9xxxx", "xxxx\xc3\xa9", "xx\xc3\xa9xx", "\xe2\x82\xac", "\xe2\x82\xacxxxx", "xxxx\xe2\x82\xac", "xx\xe2\x82\xacxx",
	"\xf0\x9f\x98\x80", "\xf0\x9f\x98\x80xxxx", "xxxx\xf0\x9f\x98\x80", "xx\xf0\x9f\x98\x80xx", "\x00\x00\xc3\xa9\x00\x00", "\x00\xf0\x9f\x98\x80\x00", "\xef\xbb\xbfx", "x\xef\xbf\xbd",
}

func values(g *tr.G) {
	collidingPairs = loadPairs(g.W)
	hdr := &mdiff.FileInfo{Left: "a/f", Right: "b/f"}
	emit := func(l, r []string, ctx int, tag string) {
		cs := chunksOf(l, r, ctx)
		var fi *mdiff.FileInfo
		if (len(l)+ctx)%2 == 0 {
			fi = hdr
		}
		rest := tr.HexList(l) + " " + tr.HexList(r) + " " + encFI(fi) + " " + encChunks(cs)
		tags := []string{"values", tag}
		if oneLineSide(cs) {
			tags = append(tags, "values-one-line-side(F5 trigger; not intended)")
		}
		g.Emit("D "+rest, true, tags...)
		g.Emit("A "+rest, true, "values-applied")
	}
	pre, post := []string{"k1", "k2", "k3"}, []string{"k5", "k6", "k7"}
	cat := func(parts ...[]string) []string { return slices.Concat(parts...) }
	for i, p := range collidingPairs {
		for _, ab := range [][2]string{{p[0], p[1]}, {p[1], p[0]}} {
			a, b := ab[0], ab[1]
			// aligned: a in Left where Right has b (two-line edits: no one-line side)
			emit(cat(pre, []string{a, "o1"}, post), cat(pre, []string{b, "n1"}, post), 1, "values-pair-aligned")
			emit(cat(pre, []string{"o1", a}, post), cat(pre, []string{"n1", b}, post), 0, "values-pair-aligned")
			// aligned with equal lines around: only a/b differ between the files (a one-line change needs context 1)
			emit(cat(pre, []string{a}, post), cat(pre, []string{b}, post), 1+i%3, "values-pair-aligned")
			// next to each other, in either order on either side
			emit(cat(pre, []string{a, b}, post), cat(pre, []string{b, a}, post), 1, "values-pair-adjacent")
			emit(cat(pre, []string{a, b, "o1"}, post), cat(pre, post), 1, "values-pair-adjacent")
			emit(cat(pre, post), cat(pre, []string{"n1", a, b}, post), 1, "values-pair-adjacent")
			// one is context, the other changes beside it
			emit(cat(pre, []string{a, b, "o1"}, post), cat(pre, []string{a, "n1", "n2"}, post), 1, "values-pair-context")
			emit(cat(pre, []string{a, a, b}, post), cat(pre, []string{a, b, b}, post), 2, "values-pair-context")
		}
		// one in each file of a git wrapper, at the same place
		in := "G 2"
		for j, s := range p {
			l, r := sweepPair(s, []string{"del", "repY"}[i%2], j, 0)
			in += " " + tr.HexList([]string{"diff --git a/f b/f"}) + " " + encFI(hdr) + " " + encChunks(chunksOf(l, r, 1))
		}
		g.Emit(in, true, "values", "values-pair-git")
	}
	for i, s := range valueTexts {
		sweepOne(g, i, s, "value", g.Scale(0, 1))
	}
}
