// Round 6 (classes 4 and 6 of ROUND6_GUIDE.md).
//
// (a) EQUAL INSTANTS, DIFFERENT REPRESENTATIONS.  A header carries two timestamps.  The streams so far
// drew them independently from a list of four (no two of them the same instant), or used ONE time for
// both sides (Z, ZF lines).  A writer that compares the two with time.Time.Equal (instants, not
// zones) or by their clock readings and re-uses the rendering of one side for the other is invisible
// to that.  `stampPairs`: header timestamp PAIRS
//
//	same instant, different zones      10:00:00.25 +0000 / 12:00:00.25 +0200 (also across midnight, across
//	                                   the year, quarter-hour zones, sub-second digits)
//	same clock reading, different zones     10:00:00 +0000 / 10:00:00 +0200
//	identical                          the same stamp on both sides
//	one microsecond / one second apart, with and without a fraction
//	zero / non-zero                    either side without a stamp
//
// in both orders, through D and A lines (Unified + ReadUnified + re-format byte for byte, Context,
// the appliers with the header), git wrappers of one and two files (the second the mirror image),
// and Q lines behind an earlier reader call that saw the mirrored pair.  The model takes stamps as
// opaque tokens, the spec demands each one back as written.
//
//	ZP <layout hex|-> <sec1> <nsec1> <off1> <sec2> <nsec2> <off2> | <hdr> <left> <right> <re-formatted>
//
// Two REAL times (an instant shown in a fixed zone; the zones are NAMED "zl" and "zr", so a layout with
// the zone abbreviation tells them apart even at equal offsets) as LeftTime / RightTime, written by
// Unified and Context under FileInfo.TimeFormat = layout ("-": the field left empty).  hdr: "hdr" when
// both writers' file headers are exactly  name TAB time.Format(layout)  for each side (no TAB part for a
// zero time), else "nohdr".  Under the default layout the text is read back by ReadUnified and, in a
// git wrapper, by ReadGitPatch: left / right = same | zero | lost as on Z lines, each side judged on
// its own; re-formatted = "same" when Patch.Format(Unified) gives the text back byte for byte, else
// "diff".  Under another layout the three fields are "-".
//
// (b) LARGE TEXTS (class 6).  The diffs of every stream so far come from New on texts of at most a
// few hundred lines.  `largeTexts`: Left and Right of 1100 x 2200 and 4100 x 4101 lines (above 2^20
// and 2^24 pairs of lines, where New or the slice.EditScript under it could switch strategy -- strip
// a common prefix and suffix, split the problem, report one Replace) built from blocks so that New
// stays fast (all lines different but for the few the shape is about): a block put in front of /
// behind / into the middle of the common lines, the last or first three lines replaced, ONE line
// inserted into (removed from) a run of 1, 2, 5 identical lines, "x y x y" -> "x y", one of two
// adjacent EMPTY lines removed, one line doubled -- the shapes where the common prefix and the common
// suffix of the inputs overlap -- and the mirror image of each, at contexts 3, 1 (and 0 where no range
// is empty).  Two lines per diff:
//
//	LA <ctx> <fi> <recipe> | <N> <U> <C> <chunks>
//	    Self-contained: the texts are NAMED by a recipe (the language of harness/cmd/mdifftrace/scale.go:
//	    ','-separated items <e|d|c><count>.<period>.<offset>[.<runlen>], e = lines of both texts, d = of Left
//	    only, c = of Right only; line j of an item is the decimal spelling of offset + (j/runlen) mod period,
//	    0 the empty line; group*reps).  The harness calls New(Left, Right) [.AddContext(ctx).Unify() for
//	    ctx > 0] ITSELF when the line runs (also when it is replayed: the chunks are an observation, not an
//	    input) and records the three renderings (hex) and the chunks.  The driver predicts the renderings
//	    from the recorded chunks (formatter model) and judges by the property alone: the chunks must
//	    describe how Left becomes Right, and each rendering applied to Left by the reference appliers
//	    must give Right.
//	D . . <fi> <chunks>      the round trips of the same chunks (the texts are not needed for those).
package main

import (
	"fmt"
	"strconv"
	"strings"
	"time"

	"github.com/creachadair/mds/mdiff"
	"github.com/creachadair/mds/slice"
	"verif/harness/internal/tr"
)

// ---------------------------------------------------------------- (a) pairs of stamps

// stampPairList: pairs of texts in mdiff.TimeFormat ("" = the zero time), canonical spellings with
// days up to 28 and zone hours below 24 (what the model's instance of the timestamp tokens knows).
var stampPairList = [][3]string{
	{"same-instant", "2024-01-02 10:00:00.25 +0000", "2024-01-02 12:00:00.25 +0200"},
	{"same-instant", "2024-01-02 03:04:05 +0000", "2024-01-01 20:04:05 -0700"},
	{"same-instant", "1999-12-27 23:30:00 -0100", "1999-12-28 22:30:00 +2200"},
	{"same-instant", "2000-01-02 00:59:59.999999 +0100", "2000-01-01 23:59:59.999999 +0000"},
	{"same-instant", "2006-01-02 15:04:05.5 +0530", "2006-01-02 15:19:05.5 +0545"},
	{"same-instant", "2031-07-09 00:00:00.000001 -0100", "2031-07-09 01:00:00.000001 +0000"},
	{"same-instant", "1970-01-01 00:00:00 +0000", "1970-01-01 01:00:00 +0100"},
	{"same-instant", "2024-02-27 23:59:59 -1200", "2024-02-27 12:00:59 -2359"},
	{"same-clock", "2024-01-02 10:00:00 +0000", "2024-01-02 10:00:00 +0200"},
	{"same-clock", "2024-01-02 10:00:00.25 -0700", "2024-01-02 10:00:00.25 +0700"},
	{"same-clock", "1970-01-01 00:00:00 +0000", "1970-01-01 00:00:00 +0100"},
	{"identical", "2024-01-02 10:00:00.25 +0200", "2024-01-02 10:00:00.25 +0200"},
	{"identical", "1970-01-01 00:00:00 +0000", "1970-01-01 00:00:00 +0000"},
	{"a-microsecond-apart", "2024-01-02 10:00:00 +0000", "2024-01-02 10:00:00.000001 +0000"},
	{"a-microsecond-apart", "2024-01-02 10:00:00.999999 +0000", "2024-01-02 12:00:01 +0200"},
	{"a-second-apart", "2024-01-02 10:00:00 +0000", "2024-01-02 12:00:01 +0200"},
	{"zero-and-not", "", "2024-01-02 12:00:00.25 +0200"},
	{"zero-and-not", "", "1970-01-01 00:00:00 +0000"},
	{"zero-and-not", "", ""},
}

func stampOf(s string) time.Time {
	if s == "" {
		return time.Time{}
	}
	t, err := time.Parse(mdiff.TimeFormat, s)
	if err != nil || t.Format(mdiff.TimeFormat) != s {
		panic("stampPairList: not a canonical stamp: " + s)
	}
	return t
}

func stampPairs(g *tr.G) {
	namePairs := [][2]string{{"l", "r"}, {"a/x", "b/x"}, {"", ""}, {"same", "same"}, {"/dev/null", "b/new"}, {"dir/file name.go", "dir/file name.go"}}
	n := 0
	for _, sp := range stampPairList {
		for order := 0; order < 2; order++ {
			ls, rs := sp[1], sp[2]
			if order == 1 {
				if ls == rs {
					continue
				}
				ls, rs = rs, ls
			}
			for v := 0; v < 3; v++ { // three diffs and name pairs per stamp pair
				n++
				d := nameDiffs[[]int{0, 3, 0, 3, 1, 2}[n%6]]
				np := namePairs[n%len(namePairs)]
				if np[0] == "/dev/null" {
					d = nameDiffs[1]
				}
				cs := chunksOf(d.l, d.r, d.ctx)
				fi := &mdiff.FileInfo{Left: np[0], Right: np[1], LeftTime: stampOf(ls), RightTime: stampOf(rs)}
				mfi := &mdiff.FileInfo{Left: np[1], Right: np[0], LeftTime: fi.RightTime, RightTime: fi.LeftTime}
				tags := []string{"stamp-pair", "stamp-pair:" + sp[0]}
				rest := tr.HexList(d.l) + " " + tr.HexList(d.r) + " " + encFI(fi) + " " + encChunks(cs)
				g.Emit("D "+rest, true, tags...)
				if d.kind == "change" {
					g.Emit("A "+rest, true, "stamp-pair-applied")
				}
				item := tr.HexList(gitJunkFor(d.kind, cmpOr(np[0], "a"), cmpOr(np[1], "b"), n)) + " " + encFI(fi) + " " + encChunks(cs)
				md := nameDiffs[0]
				mitem := tr.HexList(gitJunkFor(md.kind, cmpOr(np[1], "a"), cmpOr(np[0], "b"), n+1)) + " " + encFI(mfi) + " " + encChunks(chunksOf(md.l, md.r, md.ctx))
				switch v {
				case 0:
					g.Emit("G 1 "+item, true, "stamp-pair", "stamp-pair-git")
				case 1:
					g.Emit("G 2 "+item+" "+mitem, true, "stamp-pair", "stamp-pair-git")
				default:
					g.Emit("G 2 "+mitem+" "+item, true, "stamp-pair", "stamp-pair-git")
				}
				// behind an earlier reader call that saw the mirrored pair
				pre := "u:" + tr.Hex(format(mdiff.Unified, chunksOf(md.l, md.r, md.ctx), mfi))
				if v == 1 {
					pre = "g:" + tr.Hex("diff --git a b\n"+format(mdiff.Unified, chunksOf(md.l, md.r, md.ctx), mfi))
				}
				if modelable(tr.UnHex(pre[2:])) {
					g.Emit("Q "+pre+" "+[]string{"u", "g", "u"}[v]+" "+encFI(fi)+" "+encChunks(cs), true, "stamp-pair", "stamp-pair-after-earlier-call")
				}
			}
		}
	}
}

func cmpOr(s, d string) string {
	if s == "" {
		return d
	}
	return s
}

// ---------------------------------------------------------------- ZP lines: two real times

func realTime(sec, nsec int64, off int, name string) time.Time {
	return time.Unix(sec, nsec).In(time.FixedZone(name, off))
}

func stampPairLine(layout string, s1, n1 int64, o1 int, s2, n2 int64, o2 int) string {
	t1, t2 := realTime(s1, n1, o1, "zl"), realTime(s2, n2, o2, "zr")
	cs := []*mdiff.Chunk{{LStart: 1, LEnd: 3, RStart: 1, REnd: 3, Edits: []mdiff.Edit{{Op: slice.OpReplace, X: []string{"x", "w"}, Y: []string{"y", "z"}}}}}
	fi := &mdiff.FileInfo{Left: "l", Right: "r", LeftTime: t1, RightTime: t2, TimeFormat: layout}
	want := layout
	if want == "" {
		want = mdiff.TimeFormat
	}
	tail := func(t time.Time) string {
		if t.IsZero() {
			return "\n"
		}
		return "\t" + t.Format(want) + "\n"
	}
	u := format(mdiff.Unified, cs, fi)
	c := format(mdiff.Context, cs, fi)
	hdr := "hdr"
	if !strings.HasPrefix(u, "--- l"+tail(t1)+"+++ r"+tail(t2)+"@@ ") || !strings.HasPrefix(c, "*** l"+tail(t1)+"--- r"+tail(t2)+"***************\n") {
		hdr = "nohdr"
	}
	if layout != "" {
		return hdr + " - - -"
	}
	p, err := mdiff.ReadUnified(src(u))
	ps, err2 := mdiff.ReadGitPatch(src("diff --git l r\n" + u))
	if err != nil || p.FileInfo == nil || err2 != nil || len(ps) != 1 || ps[0].FileInfo == nil {
		return hdr + " lost lost diff"
	}
	same := func(want time.Time, got ...time.Time) string {
		res := ""
		for _, g := range got {
			r := "lost"
			_, a := want.Zone()
			_, b := g.Zone()
			switch {
			case want.IsZero() && g.IsZero():
				r = "zero"
			case !want.IsZero() && g.Equal(want.Truncate(time.Microsecond)) && a == b:
				r = "same"
			}
			if res != "" && r != res {
				return "lost"
			}
			res = r
		}
		return res
	}
	re := "diff"
	var b strings.Builder
	p.Format(&b, mdiff.Unified)
	if b.String() == u {
		re = "same"
	}
	return hdr + " " + same(t1, p.FileInfo.LeftTime, ps[0].FileInfo.LeftTime) + " " + same(t2, p.FileInfo.RightTime, ps[0].FileInfo.RightTime) + " " + re
}

func execZP(f []string) string {
	if len(f) != 8 {
		return "?"
	}
	lay := ""
	if f[1] != "-" {
		lay = tr.UnHex(f[1])
	}
	return stampPairLine(lay, atoi64(f[2]), atoi64(f[3]), atoi(f[4]), atoi64(f[5]), atoi64(f[6]), atoi(f[7]))
}

func realStampPairs(g *tr.G) {
	const zeroSec = -62135596800
	secs := []int64{0, 1, 1700000000, 951782400, -1, 4107542399, 68169599, -2208988800, 253402300799, -62167219200}
	nsecs := []int64{0, 250000000, 1000, 999999000, 123456789, 999999999, 1}
	offs := []int{0, 3600, -3600, 7200, 19800, 20700, -34200, -25200, 45900, 86340, -86340, 60, -60, 3630, 90000}
	seen := map[string]bool{}
	emit := func(lay string, s1, n1 int64, o1 int, s2, n2 int64, o2 int, tags ...string) {
		l := "-"
		if lay != "" {
			l = tr.Hex(lay)
		}
		in := fmt.Sprintf("ZP %s %d %d %d %d %d %d", l, s1, n1, o1, s2, n2, o2)
		if seen[in] {
			return
		}
		seen[in] = true
		g.Emit(in, true, append([]string{"real-stamp-pair"}, tags...)...)
	}
	k := 0
	for i, sec := range secs {
		for j, o1 := range offs {
			for _, o2 := range []int{offs[(j+1)%len(offs)], offs[(j+i+3)%len(offs)], o1} {
				k++
				if !g.Thorough() && k%3 != int(g.Seed)%3 && o1 != o2 && i > 2 {
					continue
				}
				nsec := nsecs[k%len(nsecs)]
				lay := ""
				if k%4 == 0 {
					lay = layouts[1+k/4%(len(layouts)-1)]
				}
				// the same instant in two zones (equal zones: the same time twice, under two zone NAMES)
				emit(lay, sec, nsec, o1, sec, nsec, o2, "real-stamp-pair:same-instant")
				if o1 != o2 {
					// the same clock reading in two zones
					emit(lay, sec, nsec, o1, sec+int64(o1)-int64(o2), nsec, o2, "real-stamp-pair:same-clock")
				}
				switch k % 5 {
				case 0: // zero and not
					emit(lay, zeroSec, 0, 0, sec, nsec, o2, "real-stamp-pair:zero-and-not")
					emit(lay, sec, nsec, o1, zeroSec, 0, o2, "real-stamp-pair:zero-and-not")
				case 1: // the same instant but for digits below the microsecond / a microsecond / a second apart
					emit(lay, sec, nsec, o1, sec, nsec/1000*1000, o2, "real-stamp-pair:apart")
				case 2:
					emit(lay, sec, nsec, o1, sec, (nsec+1000)%1000000000, o2, "real-stamp-pair:apart")
				case 3:
					emit(lay, sec, nsec, o1, sec+1, nsec, o2, "real-stamp-pair:apart")
				}
			}
		}
	}
	for i := 0; i < g.Scale(300, 6000); i++ {
		sec := tr.Pick(g.R, secs) + int64(g.R.Range(-100000, 100000))
		nsec := int64(g.R.Intn(1000000000))
		if g.R.Chance(1, 2) {
			nsec = tr.Pick(g.R, nsecs)
		}
		o1, o2 := 60*g.R.Range(-1439, 1439), 60*g.R.Range(-1439, 1439)
		if g.R.Chance(1, 8) {
			o2 = g.R.Range(-91000, 91000)
		}
		lay := ""
		if g.R.Chance(1, 4) {
			lay = tr.Pick(g.R, layouts)
		}
		emit(lay, sec, nsec, o1, sec, nsec, o2, "real-stamp-pair:same-instant")
	}
}

// ---------------------------------------------------------------- (b) large texts

const (
	baseA6 = 10001
	baseJ6 = 200001
	baseK6 = 400001
)

// ---- recipes (the language of harness/cmd/mdifftrace/scale.go)

type rItem struct {
	kind                          byte
	count, period, offset, runlen int
}
type rGroup struct {
	items []rItem
	reps  int
}

const maxRecipeLines = 40000

func parseRecipe(s string) ([]rGroup, bool) {
	if s == "." {
		return nil, true
	}
	var out []rGroup
	total := 0
	for _, gs := range strings.Split(s, ",") {
		g := rGroup{reps: 1}
		if i := strings.IndexByte(gs, '*'); i >= 0 {
			r, err := strconv.Atoi(gs[i+1:])
			if err != nil || r < 0 || r > maxRecipeLines {
				return nil, false
			}
			g.reps, gs = r, gs[:i]
		}
		for _, is := range strings.Split(gs, "/") {
			if len(is) < 2 || strings.IndexByte("edc", is[0]) < 0 {
				return nil, false
			}
			p := strings.Split(is[1:], ".")
			if len(p) != 3 && len(p) != 4 {
				return nil, false
			}
			v := [4]int{0, 0, 0, 1}
			for i := range p {
				x, err := strconv.Atoi(p[i])
				if err != nil || x < 0 || x > 1<<40 {
					return nil, false
				}
				v[i] = x
			}
			if v[1] < 1 || v[3] < 1 {
				return nil, false
			}
			total += v[0] * g.reps
			if v[0] > maxRecipeLines || total > maxRecipeLines {
				return nil, false
			}
			g.items = append(g.items, rItem{is[0], v[0], v[1], v[2], v[3]})
		}
		out = append(out, g)
	}
	return out, true
}

func recipeLine(v int) string {
	if v == 0 {
		return ""
	}
	return strconv.Itoa(v)
}

func buildTexts(gs []rGroup) (lhs, rhs []string) {
	for _, g := range gs {
		for r := 0; r < g.reps; r++ {
			for _, it := range g.items {
				for j := 0; j < it.count; j++ {
					t := recipeLine(it.offset + (j/it.runlen)%it.period)
					if it.kind != 'c' {
						lhs = append(lhs, t)
					}
					if it.kind != 'd' {
						rhs = append(rhs, t)
					}
				}
			}
		}
	}
	return
}

func execLA(f []string) string {
	if len(f) != 4 {
		return "?"
	}
	ctx, err := strconv.Atoi(f[1])
	gs, ok := parseRecipe(f[3])
	if err != nil || !ok || ctx < 0 || ctx > 1<<20 {
		return "?"
	}
	fi := decFI(f[2])
	l, r := buildTexts(gs)
	cs := chunksOf(l, r, ctx)
	n := format(mdiff.Normal, cs, fi)
	u := format(mdiff.Unified, cs, fi)
	c := format(mdiff.Context, cs, fi)
	return tr.Hex(n) + " " + tr.Hex(u) + " " + tr.Hex(c) + " " + encChunks(cs)
}

func rit(kind byte, count, period, offset int) string {
	if count < 1 {
		return ""
	}
	return string(kind) + strconv.Itoa(count) + "." + strconv.Itoa(max(period, 1)) + "." + strconv.Itoa(offset)
}

func joinRecipe(xs ...string) string {
	var out []string
	for _, x := range xs {
		if x != "" {
			out = append(out, x)
		}
	}
	return strings.Join(out, ",")
}

// largeRecipe: the recipe of a shape; n = the number of common lines, m = the length asked of the
// longer text where the shape leaves it open.  "" when the shape does not fit.
func largeRecipe(shape string, n, m int) string {
	A := func(from, to int) string { return rit('e', to-from, to-from, baseA6+from) }
	J := func(kind byte, k int) string { return rit(kind, k, k, baseJ6) }
	K := func(kind byte, k int) string { return rit(kind, k, k, baseK6) }
	if n < 8 || m < n {
		return ""
	}
	switch {
	case shape == "front" && m > n:
		return joinRecipe(A(0, n), J('c', m-n))
	case shape == "back" && m > n:
		return joinRecipe(J('c', m-n), A(0, n))
	case shape == "middle" && m > n:
		return joinRecipe(A(0, n/2), J('c', m-n), A(n/2, n))
	case shape == "centre" && m > n+1:
		return joinRecipe(J('c', (m-n)/2), A(0, n), K('c', m-n-(m-n)/2))
	case shape == "tails":
		return joinRecipe(A(0, n-3), J('d', 3), K('c', max(m-n, 3)))
	case shape == "heads":
		return joinRecipe(J('d', 3), K('c', max(m-n, 3)), A(0, n-3))
	case strings.HasPrefix(shape, "run-"):
		k := map[string]int{"run-1": 1, "run-2": 2, "run-5": 5}[shape]
		if k < 1 {
			return ""
		}
		h := (n - k) / 2
		return joinRecipe(A(0, h), rit('e', k, 1, 7), rit('c', 1, 1, 7), A(h, n-k))
	case shape == "abab":
		h := (n - 2) / 2
		return joinRecipe(A(0, h), rit('e', 2, 2, 7), rit('c', 2, 2, 7), A(h, n-2))
	case shape == "blank":
		h := (n - 1) / 2
		return joinRecipe(A(0, h), rit('e', 1, 1, 0), rit('c', 1, 1, 0), A(h, n-1))
	case shape == "dup":
		p := n / 3
		return joinRecipe(A(0, p), rit('c', 1, 1, baseA6+p-1), A(p, n))
	}
	return ""
}

// mirrorRecipe exchanges Left and Right
func mirrorRecipe(rec string) string {
	items := strings.Split(rec, ",")
	for i, x := range items {
		switch {
		case strings.HasPrefix(x, "d"):
			items[i] = "c" + x[1:]
		case strings.HasPrefix(x, "c"):
			items[i] = "d" + x[1:]
		}
	}
	return strings.Join(items, ",")
}

var largeShapes = []string{"front", "back", "middle", "centre", "tails", "heads", "run-1", "run-2", "run-5", "abab", "blank", "dup"}

var nLarge int

func emitLarge(g *tr.G, shape string, n, m int, mirror bool) {
	rec := largeRecipe(shape, n, m)
	if rec == "" {
		return
	}
	if mirror {
		rec = mirrorRecipe(rec)
	}
	gs, ok := parseRecipe(rec)
	if !ok {
		g.W.Count("large-recipe-rejected(not intended)", 1)
		return
	}
	l, r := buildTexts(gs)
	nLarge++
	ctx := []int{3, 1, 3, 1, 0}[nLarge%5]
	switch {
	case shape == "tails" || shape == "heads": // a Replace: no empty range at context 0
	case ctx == 0:
		ctx = 3 // a pure insertion or deletion has an empty range at context 0 (F6)
	case shape == "front" || shape == "back" || shape == "centre":
		ctx = 3 // a block at the very start or end: one line of context would be a one-line side (F5)
	}
	var fi *mdiff.FileInfo
	if nLarge%3 == 0 {
		fi = &mdiff.FileInfo{Left: "old", Right: "new"}
	}
	tags := []string{"large", "large:" + shape}
	switch cells := len(l) * len(r); {
	case cells > 1<<24:
		tags = append(tags, "large:pairs-of-lines>2^24")
	case cells >= 1<<20:
		tags = append(tags, "large:pairs-of-lines>=2^20")
	}
	out := g.Emit("LA "+strconv.Itoa(ctx)+" "+encFI(fi)+" "+rec, true, tags...)
	// the round trips of the chunks New returned on this run
	if f := strings.Fields(out); len(f) == 4 {
		cs := decChunks(f[3])
		rt := []string{"large-round-trip"}
		if oneLineSide(cs) {
			rt = append(rt, "large-one-line-side(F5 trigger; not intended)")
		}
		g.Emit("D . . "+encFI(fi)+" "+f[3], true, rt...)
	}
}

func largeTexts(g *tr.G) {
	seed := int(g.Seed)
	if !g.Thorough() {
		for i, sh := range largeShapes {
			emitLarge(g, sh, 1100, 2200, (i+seed)%2 == 0)
		}
		for _, sh := range []string{"run-1", "run-2", "abab", "blank", "dup"} {
			emitLarge(g, sh, 4100, 4100, false)
			emitLarge(g, sh, 4100, 4100, true)
		}
		for i, sh := range []string{"tails", "front", "middle"} {
			emitLarge(g, sh, 4099+(i+seed)%2, 4101, (i+seed)%2 == 0)
		}
		return
	}
	for ni, n := range []int{724, 1023, 1024, 1025, 1100, 1448, 1449, 2047, 2048, 2049, 2896, 2897, 4095, 4096, 4097, 4100} {
		for mi, m := range []int{n, n + 1, 2 * n} {
			if n*m > 17_500_000 {
				continue
			}
			for si, sh := range largeShapes {
				fixed := strings.HasPrefix(sh, "run-") || sh == "abab" || sh == "blank" || sh == "dup"
				if fixed && mi != 0 {
					continue
				}
				if n > 2100 && (ni+mi+si+seed)%2 == 0 && !fixed {
					continue
				}
				emitLarge(g, sh, n, m, false)
				emitLarge(g, sh, n, m, true)
			}
		}
	}
	// a thin text against a long one, the product just above 2^20 and 2^24
	for i, p := range [][2]int{{64, 16385}, {256, 4097}, {512, 2049}, {1024, 16385}, {2048, 8193}} {
		for si, sh := range []string{"front", "back", "middle", "centre"} {
			emitLarge(g, sh, p[0], p[1], (i+si+seed)%2 == 0)
		}
	}
}
