// Command mdifffmttrace drives the text formatters and readers of package mdiff of the working
// tree and records inputs and observables, one case per line:
//
//	D <L> <R> <fi> <chunks> | <N> <U> <C> <RN> <RU> <FN> <FU>
//	    the chunks (computed by the generator with mdiff.New[.AddContext(n).Unify()], or synthetic)
//	    rendered by Normal, Unified, Context (hex); Read(N) and ReadUnified(U) (patch encodings);
//	    the patches formatted again (hex, "x" when the reader failed)
//	A <L> <R> <fi> <chunks> | <N> <U> <C>      same renderings, for the "applies to Left" check
//	S <L> <R> <fi> <chunks> | like D           synthetic chunk lists: correspondence only
//	T <n|u|g> <text>        | <result>         Read / ReadUnified / ReadGitPatch on arbitrary text
//	G <k> {<junk> <fi> <chunks>}*k | <text> <result>   git-style wrappers around Unified renderings
//	Q <preludes> <n|u|g> <fi> <chunks> | <text> <result> <re-formatted> <prelude results> <same|changed>
//	    one round trip (Normal/Read, Unified/ReadUnified, or a one-file git wrapper/ReadGitPatch)
//	    AFTER earlier calls in the same process that the line itself names: see round4.go
//	ZF <layout hex|-> <unix sec> <nsec> <zone offset sec> | same|zero|lost    FileInfo.TimeFormat: see round5.go
//	ZP <layout hex|-> <sec1> <nsec1> <off1> <sec2> <nsec2> <off2> | <hdr> <left> <right> <re-formatted>   two real times: see round6.go
//	LA <ctx> <fi> <recipe> | <N> <U> <C> <chunks>     large texts named by a recipe, New called when the line runs: see round6.go
//	Z <unix sec> <nsec> <zone offset sec> | same|zero|lost
//	    a real time.Time (instant + fixed zone) put into FileInfo.LeftTime/RightTime, written by
//	    Unified and Context with the default TimeFormat and read back by ReadUnified/ReadGitPatch:
//	    "same" = both stamps come back as the same instant at microsecond precision with the same
//	    zone offset, "zero" = the time IsZero (not written, comes back zero), "lost" = anything else
//
// L, R, junk: hex lists of lines.  fi: "-" (nil) or <left>,<right>,<ltime>,<rtime> (hex; a time
// is its text in mdiff.TimeFormat, "-" = zero).  chunks: "." or ls:le:rs:re:edits;... with
// edits "." or <d|e|c|r><X hexlist>_<Y hexlist>/...  A patch is E:<kind> or P:<fi>:<chunks>.
package main

import (
	"bytes"
	"fmt"
	"os"
	osexec "os/exec"
	"path/filepath"
	"regexp"
	"slices"
	"strconv"
	"strings"
	"time"
	"unicode"

	"github.com/creachadair/mds/mdiff"
	"github.com/creachadair/mds/slice"
	"verif/harness/internal/tr"
)

// ---------------------------------------------------------------- encodings

var opChar = map[slice.EditOp]string{slice.OpDrop: "d", slice.OpEmit: "e", slice.OpCopy: "c", slice.OpReplace: "r"}
var charOp = map[byte]slice.EditOp{'d': slice.OpDrop, 'e': slice.OpEmit, 'c': slice.OpCopy, 'r': slice.OpReplace}

func encEdits(es []mdiff.Edit) string {
	if len(es) == 0 {
		return "."
	}
	out := make([]string, len(es))
	for i, e := range es {
		oc, ok := opChar[e.Op]
		if !ok {
			oc = "?"
		}
		out[i] = oc + tr.HexList(e.X) + "_" + tr.HexList(e.Y)
	}
	return strings.Join(out, "/")
}

func encChunks(cs []*mdiff.Chunk) string {
	if len(cs) == 0 {
		return "."
	}
	out := make([]string, len(cs))
	for i, c := range cs {
		out[i] = fmt.Sprintf("%d:%d:%d:%d:%s", c.LStart, c.LEnd, c.RStart, c.REnd, encEdits(c.Edits))
	}
	return strings.Join(out, ";")
}

func decChunks(s string) []*mdiff.Chunk {
	if s == "." {
		return nil
	}
	var out []*mdiff.Chunk
	for _, cs := range strings.Split(s, ";") {
		f := strings.SplitN(cs, ":", 5)
		c := &mdiff.Chunk{LStart: atoi(f[0]), LEnd: atoi(f[1]), RStart: atoi(f[2]), REnd: atoi(f[3])}
		if f[4] != "." {
			for _, es := range strings.Split(f[4], "/") {
				x, y, _ := strings.Cut(es[1:], "_")
				c.Edits = append(c.Edits, mdiff.Edit{Op: charOp[es[0]], X: tr.UnHexList(x), Y: tr.UnHexList(y)})
			}
		}
		out = append(out, c)
	}
	return out
}

func atoi(s string) int {
	n, err := strconv.Atoi(s)
	if err != nil {
		panic(err)
	}
	return n
}

func encTime(t time.Time) string {
	if t.IsZero() {
		return "-"
	}
	return tr.Hex(t.Format(mdiff.TimeFormat))
}

func decTime(s string) time.Time {
	if s == "-" {
		return time.Time{}
	}
	t, err := time.Parse(mdiff.TimeFormat, tr.UnHex(s))
	if err != nil {
		panic(err)
	}
	return t
}

func encFI(fi *mdiff.FileInfo) string {
	if fi == nil {
		return "-"
	}
	return tr.Hex(fi.Left) + "," + tr.Hex(fi.Right) + "," + encTime(fi.LeftTime) + "," + encTime(fi.RightTime)
}

func decFI(s string) *mdiff.FileInfo {
	if s == "-" {
		return nil
	}
	f := strings.Split(s, ",")
	return &mdiff.FileInfo{Left: tr.UnHex(f[0]), Right: tr.UnHex(f[1]), LeftTime: decTime(f[2]), RightTime: decTime(f[3])}
}

var linePfx = regexp.MustCompile(`^line \d+: `)

func errKind(err error) string {
	s := linePfx.ReplaceAllString(err.Error(), "")
	s = strings.TrimPrefix(s, "read patch header: ")
	s = strings.TrimPrefix(s, "diff header: ")
	for _, p := range [][2]string{
		{"unexpected blank line", "blank"}, {"invalid change command", "cmd"}, {"invalid line range", "span"},
		{"left span", "span"}, {"right span", "span"}, {"add got", "count"}, {"delete got", "count"},
		{"unexpected delete line", "edit"}, {"unexpected insert line", "edit"}, {"unexpected --- separator", "edit"},
		{"invalid chunk header", "header"}, {"unexpected prefix", "prefix"}, {"missing right header", "right"},
		{"missing patch header", "patchhdr"}, {"incomplete patch header", "patchhdr"}, {"no patches found", "nopatch"},
		{"EOF", "eof"},
	} {
		if strings.HasPrefix(s, p[0]) {
			return p[1]
		}
	}
	return "other(" + tr.Hex(err.Error()) + ")"
}

func encPatch(p *mdiff.Patch, err error) string {
	if err != nil {
		return "E:" + errKind(err)
	}
	return "P:" + encFI(p.FileInfo) + ":" + encChunks(p.Chunks)
}

func format(f mdiff.FormatFunc, cs []*mdiff.Chunk, fi *mdiff.FileInfo) string {
	var b bytes.Buffer
	err := f(&b, cs, fi)
	// the documented entry point, Diff.Format, must write the same bytes (round5.go)
	if via, err2 := formatVia(f, cs, fi); via != b.String() || (err == nil) != (err2 == nil) {
		return "!Diff.Format writes something else than the FormatFunc called directly: " + via
	}
	if err != nil {
		return "!" + err.Error()
	}
	return b.String()
}

// beyondModel: a line number whose magnitude exceeds 2^61.  The readers' int arithmetic is
// modelled up to the ends of int (atoi64, wrap64); the formatters' is not (their position
// arithmetic comes from Gen as expressions over Z), so such patches are not formatted again.
func beyondModel(p *mdiff.Patch) bool {
	big := func(n int) bool { return n > 1<<61 || n < -(1<<61) }
	for _, c := range p.Chunks {
		if big(c.LStart) || big(c.LEnd) || big(c.RStart) || big(c.REnd) {
			return true
		}
	}
	return false
}

func reformat(p *mdiff.Patch, err error, f mdiff.FormatFunc) string {
	if err != nil {
		return "x"
	}
	if beyondModel(p) {
		return "big"
	}
	var b bytes.Buffer
	p.Format(&b, f)
	return tr.Hex(b.String())
}

func exec(in string) (out string) {
	defer func() {
		if r := recover(); r != nil {
			out = "panic:" + tr.PanicKind(r)
		}
	}()
	f := strings.Fields(in)
	switch f[0] {
	case "D", "S", "A":
		fi, cs := decFI(f[3]), decChunks(f[4])
		n := format(mdiff.Normal, cs, fi)
		u := format(mdiff.Unified, cs, fi)
		c := format(mdiff.Context, cs, fi)
		if f[0] == "A" {
			return tr.Hex(n) + " " + tr.Hex(u) + " " + tr.Hex(c)
		}
		pn, errn := mdiff.Read(src(n))
		pu, erru := mdiff.ReadUnified(src(u))
		return strings.Join([]string{tr.Hex(n), tr.Hex(u), tr.Hex(c), encPatch(pn, errn), encPatch(pu, erru),
			reformat(pn, errn, mdiff.Normal), reformat(pu, erru, mdiff.Unified)}, " ")
	case "T":
		text := tr.UnHex(f[2])
		switch f[1] {
		case "n":
			p, err := mdiff.Read(src(text))
			return encPatch(p, err) + " " + reformat(p, err, mdiff.Normal)
		case "u":
			p, err := mdiff.ReadUnified(src(text))
			return encPatch(p, err) + " " + reformat(p, err, mdiff.Unified)
		case "g":
			return encPatches(mdiff.ReadGitPatch(src(text)))
		}
	case "Q":
		return execQ(f)
	case "Z":
		return stampRoundTrip(atoi64(f[1]), atoi64(f[2]), atoi(f[3]))
	case "ZF":
		lay := ""
		if f[1] != "-" {
			lay = tr.UnHex(f[1])
		}
		return stampLayout(lay, atoi64(f[2]), atoi64(f[3]), atoi(f[4]))
	case "ZP": // two real times, one per side (round6.go)
		return execZP(f)
	case "LA": // texts by recipe; New is called here (round6.go)
		return execLA(f)
	case "V", "W": // validation of the reference appliers against GNU diff / GNU patch: the
		// outside tool's answer is part of the input (an oracle), nothing of mdiff runs here
		return "ok"
	case "G":
		k := atoi(f[1])
		var b strings.Builder
		for i := 0; i < k; i++ {
			for _, j := range tr.UnHexList(f[2+3*i]) {
				b.WriteString(j + "\n")
			}
			b.WriteString(format(mdiff.Unified, decChunks(f[4+3*i]), decFI(f[3+3*i])))
		}
		return tr.Hex(b.String()) + " " + encPatches(mdiff.ReadGitPatch(src(b.String())))
	}
	return "?"
}

func atoi64(s string) int64 {
	n, err := strconv.ParseInt(s, 10, 64)
	if err != nil {
		panic(err)
	}
	return n
}

// stampRoundTrip: does a real timestamp survive Unified -> ReadUnified / ReadGitPatch (and is the
// header Context writes the same stamp text)?
func stampRoundTrip(sec, nsec int64, off int) string {
	t := time.Unix(sec, nsec).In(time.FixedZone("zone", off))
	cs := []*mdiff.Chunk{{LStart: 1, LEnd: 2, RStart: 1, REnd: 3, Edits: []mdiff.Edit{{Op: slice.OpReplace, X: []string{"x"}, Y: []string{"y", "z"}}}}}
	fi := &mdiff.FileInfo{Left: "l", Right: "r", LeftTime: t, RightTime: t}
	text := format(mdiff.Unified, cs, fi)
	p, err := mdiff.ReadUnified(src(text))
	if err != nil || p.FileInfo == nil {
		return "lost"
	}
	ps, err := mdiff.ReadGitPatch(src("diff --git l r\n" + text))
	if err != nil || len(ps) != 1 || ps[0].FileInfo == nil {
		return "lost"
	}
	same := func(want, got time.Time) string {
		if want.IsZero() {
			if got.IsZero() {
				return "zero"
			}
			return "lost"
		}
		_, o1 := want.Zone()
		_, o2 := got.Zone()
		if got.Equal(want.Truncate(time.Microsecond)) && o1 == o2 {
			return "same"
		}
		return "lost"
	}
	res := same(t, p.FileInfo.LeftTime)
	for _, got := range []time.Time{p.FileInfo.RightTime, ps[0].FileInfo.LeftTime, ps[0].FileInfo.RightTime} {
		if same(t, got) != res {
			return "lost"
		}
	}
	// Context writes the same stamp text in its header
	ctext := format(mdiff.Context, cs, fi)
	if !t.IsZero() && !strings.HasPrefix(ctext, "*** l\t"+t.Format(mdiff.TimeFormat)+"\n") {
		return "lost"
	}
	return res
}

func encPatches(ps []*mdiff.Patch, err error) string {
	if err != nil {
		return "E:" + errKind(err)
	}
	out := make([]string, len(ps))
	for i, p := range ps {
		out[i] = encPatch(p, nil)
	}
	if len(out) == 0 {
		return "P*"
	}
	return strings.Join(out, "+")
}

// ---------------------------------------------------------------- generation

func gen(alpha []string, n int, f func([]string)) {
	var rec func(cur []string)
	rec = func(cur []string) {
		f(cur)
		if len(cur) == n {
			return
		}
		for _, a := range alpha {
			rec(append(slices.Clone(cur), a))
		}
	}
	rec(nil)
}

func chunksOf(l, r []string, ctx int) []*mdiff.Chunk {
	d := mdiff.New(slices.Clone(l), slices.Clone(r))
	if ctx > 0 {
		d.AddContext(ctx).Unify()
	}
	return d.Chunks
}

var hostile = []string{"a", "b", "", "-x", "--- q", "+y", "@@ z", "< w", "> v", " s", "diff d", "---", "\\ No newline at end of file",
	"***************", "*** 1 ****", "--- 1 ----", "1a1", "@@ -1 +1 @@", "+++ b", "- -- x ----", "! x", "  ", "\t", "2,3c4", "\xff\x00", "d", "@",
	// line contents with a carriage return (a CRLF text split at "\n"), with the Unicode spaces strings.Fields
	// knows (NEL, NBSP, EM SPACE, IDEOGRAPHIC SPACE), truncated UTF-8, form feed / vertical tab
	"x\r", "\r", "a\u00a0b", "\u0085", "@@\u2003-1 +1 @@", "\u3000", "\xc2", "\xe2\x80", "\f\v", "-- x ----", "** 1,2 ****"}

var names = []string{"", "a", "b", "left.txt", "dir/file name.go", "x,y:z;w", "--- odd", "é", "old ****", "new ----", "1,2 ****", "n\r", "sp\u00a0ce", "@@ -1 +1 @@"}
var stamps = []string{"", "", "2024-01-02 03:04:05 +0000", "1999-12-28 23:59:59.5 -0700", "2006-01-02 15:04:05.999999 +0530", "2031-07-09 00:00:00.000001 -0100"}

func randFI(r *tr.Rand) *mdiff.FileInfo {
	if r.Chance(1, 2) {
		return nil
	}
	fi := &mdiff.FileInfo{Left: tr.Pick(r, names), Right: tr.Pick(r, names)}
	if s := tr.Pick(r, stamps); s != "" {
		fi.LeftTime, _ = time.Parse(mdiff.TimeFormat, s)
	}
	if s := tr.Pick(r, stamps); s != "" {
		fi.RightTime, _ = time.Parse(mdiff.TimeFormat, s)
	}
	return fi
}

func oneLineSide(cs []*mdiff.Chunk) bool {
	for _, c := range cs {
		if c.LEnd-c.LStart == 1 || c.REnd-c.RStart == 1 {
			return true
		}
	}
	return false
}
func emptyLeft(cs []*mdiff.Chunk) bool {
	for _, c := range cs {
		if c.LEnd == c.LStart {
			return true
		}
	}
	return false
}

func emitDiff(g *tr.G, l, r []string, ctx int, fi *mdiff.FileInfo, tags ...string) {
	cs := chunksOf(l, r, ctx)
	rest := tr.HexList(l) + " " + tr.HexList(r) + " " + encFI(fi) + " " + encChunks(cs)
	tags = append(tags, "ctx"+strconv.Itoa(min(ctx, 4)))
	if len(cs) == 0 {
		tags = append(tags, "empty-diff")
	}
	if oneLineSide(cs) {
		tags = append(tags, "one-line-side(F5 trigger)")
	}
	if emptyLeft(cs) {
		tags = append(tags, "empty-left-range(F6 trigger)")
	}
	for _, c := range cs {
		if c.REnd == c.RStart {
			tags = append(tags, "empty-right-range(F6 trigger under the strict reading)")
			break
		}
	}
	if len(l) == 0 || len(r) == 0 {
		tags = append(tags, "empty-file")
	}
	if fi != nil {
		tags = append(tags, "file-header")
	}
	g.Emit("D "+rest, len(cs) > 0, tags...)
	g.Emit("A "+rest, len(cs) > 0)
}

// ---------------------------------------------------------------- sweep of line texts
//
// The formats mark every line of a diff by its first bytes, so the property's "all newline-free
// lines" is only exercised by line TEXTS that themselves look like markers.  The sweep takes every
// string up to a length bound over the bytes the formats and readers give a meaning to, plus
// random longer ones built from those bytes and from the words that open header lines, and puts
// each one in every syntactic role a line can have in a diff: deleted, added, either side of a
// Replace, context before/after a change — at the head, at the tail and alone in its edit — among
// ordinary lines, so that no hunk has a one-line side (F5) and, at contexts 1 and 3, no empty
// range (F6).  Each diff goes through Normal/Read, Unified/ReadUnified, Context (D and A lines:
// round trip and application to Left) and, two files at a time, through a git wrapper/ReadGitPatch.

var sweepBytes = []byte{'-', '+', ' ', '@', '<', '>', '\\', '*', '!', 'd', '\t', '\r'}
var sweepWords = []string{"--- ", "+++ ", "@@ -", "diff --git ", "index ", "\\ No newline", "-- ", "***", "---",
	// pieces that complete a header-like line
	" @@", "1", ",", " +", "a", "c", "< ", "> ", "*** ", " ****", " ----", "***************"}

// sweepTexts: every string of length <= n over sweepBytes, shortest first.
func sweepTexts(n int) []string {
	out := []string{""}
	for lo := 0; n > 0; n-- {
		hi := len(out)
		for _, s := range out[lo:hi] {
			for _, b := range sweepBytes {
				out = append(out, s+string(b))
			}
		}
		lo = hi
	}
	return out
}

func sweepRandomText(r *tr.Rand) string {
	var b strings.Builder
	for k := 2 + r.Intn(4); k > 0; k-- {
		if r.Chance(1, 2) {
			b.WriteString(tr.Pick(r, sweepWords))
		} else {
			b.WriteByte(tr.Pick(r, sweepBytes))
		}
	}
	return b.String()
}

var sweepRoles = []string{"del", "add", "repX", "repY", "ctx"}

// sweepPair builds Left and Right with the text s in the given role.  pos: 0 = s first in its
// two-line edit, 1 = s last, 2 = s alone (a one-line edit; contexts >= 1 only).  Ordinary lines
// never contain a sweep byte, so the diff aligns nothing with s by accident.
func sweepPair(s, role string, pos, shift int) (l, r []string) {
	pre := []string{"k1", "k2", "k3", "k4"}[:3+shift%2]
	post := []string{"k5", "k6", "k7"}
	blk := func(o string) []string {
		switch pos {
		case 0:
			return []string{s, o}
		case 1:
			return []string{o, s}
		}
		return []string{s}
	}
	cat := func(parts ...[]string) []string { return slices.Concat(parts...) }
	switch role {
	case "del":
		return cat(pre, blk("o1"), post), cat(pre, post)
	case "add":
		return cat(pre, post), cat(pre, blk("n1"), post)
	case "repX":
		return cat(pre, blk("o1"), post), cat(pre, []string{"n1", "n2"}, post)
	case "repY":
		return cat(pre, []string{"o1", "o2"}, post), cat(pre, blk("n1"), post)
	}
	// context: s right before the change (0), right after it (1), on both sides (2)
	old, nw := []string{"o1", "o2"}, []string{"n1", "n2", "n3"}
	switch pos {
	case 0:
		return cat(pre, []string{s}, old, post), cat(pre, []string{s}, nw, post)
	case 1:
		return cat(pre, old, []string{s}, post), cat(pre, nw, []string{s}, post)
	}
	return cat(pre, []string{s}, old, []string{s}, post), cat(pre, []string{s}, nw, []string{s}, post)
}

func sweepEmit(g *tr.G, s, role string, pos, shift, ctx int, fi *mdiff.FileInfo, kind string) {
	l, r := sweepPair(s, role, pos, shift)
	cs := chunksOf(l, r, ctx)
	tags := []string{"sweep", "sweep-" + kind, "sweep-role-" + role, "sweep-ctx" + strconv.Itoa(ctx)}
	if oneLineSide(cs) {
		tags = append(tags, "sweep-one-line-side(F5 trigger; not intended)")
	}
	rest := tr.HexList(l) + " " + tr.HexList(r) + " " + encFI(fi) + " " + encChunks(cs)
	g.Emit("D "+rest, true, tags...)
	if ctx > 0 || (role != "del" && role != "add") { // at context 0 a pure deletion/insertion has an empty range (F6)
		g.Emit("A "+rest, true, "sweep-applied")
	}
}

func sweepGit(g *tr.G, s string, roleA string, posA int, roleB string, posB int, ctx int) {
	in := "G 2"
	for i, rp := range []struct {
		role string
		pos  int
	}{{roleA, posA}, {roleB, posB}} {
		l, r := sweepPair(s, rp.role, rp.pos, i)
		junk := []string{"diff --git a/f b/f", "index 83a4f1..9bc2d0 100644"}
		if i == 0 {
			junk = slices.Insert(junk, 0, "commit 4a5b6c", "", "    message")
		}
		fi := &mdiff.FileInfo{Left: "a/f" + strconv.Itoa(i), Right: "b/f" + strconv.Itoa(i)}
		in += " " + tr.HexList(junk) + " " + encFI(fi) + " " + encChunks(chunksOf(l, r, ctx))
	}
	g.Emit(in, true, "sweep", "sweep-git", "sweep-ctx"+strconv.Itoa(ctx))
}

// sweepOne puts the text s through the roles.  level 2: every position at context 1, one position
// at contexts 3 and 0, six git wrappers; level 1: one position per role and context, three git
// wrappers; level 0: context 1 only, one position per role, one git wrapper.
func sweepOne(g *tr.G, i int, s, kind string, level int) {
	hdr := &mdiff.FileInfo{Left: "l", Right: "r"}
	for ri, role := range sweepRoles {
		for pos := 0; pos < 3; pos++ {
			if level == 2 || pos == (i+ri)%3 {
				var fi *mdiff.FileInfo
				if (i+ri+pos)%4 == 0 {
					fi = hdr
				}
				sweepEmit(g, s, role, pos, i, 1, fi, kind)
			}
		}
		if level == 0 {
			continue
		}
		sweepEmit(g, s, role, (i+ri)%3, i+1, 3, nil, kind)
		if role != "ctx" {
			sweepEmit(g, s, role, (i+ri)%2, i, 0, nil, kind) // two-line edits only: no one-line side
		}
	}
	if level == 0 {
		sweepGit(g, s, []string{"del", "repX", "add"}[i%3], i%2, []string{"repY", "ctx", "del"}[i%3], (i+1)%3, 1)
		return
	}
	sweepGit(g, s, "del", 0, "repY", 1, 1)
	sweepGit(g, s, "repX", 1, "ctx", i%3, 1)
	sweepGit(g, s, "add", 0, "del", 2, 1)
	if level == 2 {
		sweepGit(g, s, "del", 1, "add", 2, 1)
		sweepGit(g, s, []string{"del", "repX", "add"}[i%3], i%2, []string{"repY", "ctx", "del"}[i%3], (i+1)%2, 3)
		sweepGit(g, s, "repX", i%2, "del", (i+1)%2, 0)
	}
}

// markerTails: what a line text must be (or start with) for the written line - one or two marker
// bytes in front of the text - to be, or to start with, one of the words the readers and patch
// tools look for: every proper suffix of every such word, alone and followed by an ordinary byte.
func markerTails() []string {
	words := []string{"--- ", "+++ ", "*** ", "@@ -1,2 +1,2 @@", "-- ", "---", "***************", "*** 1,2 ****", "--- 1,2 ----",
		"\\ No newline at end of file", "diff --git a/f b/f", "index 83a4f1..9bc2d0 100644", "< ", "> ", "! ", "+ ", "- ", "  ", "1a2", "1,2c3,4", "3d2",
		"Binary files a and b differ", "Only in a: f", "new file mode 100644", "deleted file mode 100644", "rename from a", "GIT binary patch", "From 4a5b6c Mon Sep 17 00:00:00 2001", "-- ", "2.43.0"}
	seen := map[string]bool{}
	var out []string
	for _, w := range words {
		n := len(w)
		for k := 0; k < n && k <= 4; k++ {
			for _, t := range []string{w[k:], w[k:] + "x", w[k:min(n, k+4)]} {
				if !seen[t] {
					seen[t] = true
					out = append(out, t)
				}
			}
		}
	}
	return out
}

func sweep(g *tr.G) {
	short := sweepTexts(2) // 157 texts
	for i, s := range short {
		sweepOne(g, i, s, "short", 2)
	}
	// length 3: over the four bytes that mark hunk lines and headers in the quick tier, over all twelve in the thorough tier
	if g.Thorough() {
		for i, s := range sweepTexts(3)[len(short):] {
			sweepOne(g, i, s, "len3", 1+(i+1)%4/3)
		}
	} else {
		save := sweepBytes
		sweepBytes = []byte{'-', '+', ' ', '@'}
		for i, s := range sweepTexts(3)[21:] {
			sweepOne(g, i, s, "len3", 0)
		}
		sweepBytes = save
	}
	for i, s := range markerTails() {
		sweepOne(g, i, s, "marker-tail", g.Scale(0, 1))
	}
	// every single byte value (a line is any newline-free string), alone and in front of / behind a marker byte
	for b := 0; b < 256; b++ {
		if b == '\n' || bytes.IndexByte(sweepBytes, byte(b)) >= 0 {
			continue
		}
		sweepOne(g, b, string([]byte{byte(b)}), "byte", 0)
		if g.Thorough() {
			sweepOne(g, b, string([]byte{'-', byte(b)}), "byte", 0)
			sweepOne(g, b+1, string([]byte{byte(b), ' '}), "byte", 0)
			sweepOne(g, b+2, string([]byte{'+', '+', byte(b)}), "byte", 0)
		}
	}
	for i := 0; i < g.Scale(150, 4000); i++ {
		sweepOne(g, i, sweepRandomText(g.R), "random", 1)
	}
}

// ---------------------------------------------------------------- scale
//
// Sizes around the thresholds of the machinery under the readers and formatters: a line that does
// not fit bufio's 4096-byte buffer (with a one- or two-byte marker and the newline in front of /
// behind it, so every length from 4090 to 4098 is a different case), 8192, and beyond; an edit of
// 255..1025 (thorough: ..8193) lines and a file of 1..65 hunks (append growth of e.X, e.Y, Edits and
// of the readers' chunk slice); several files with many hunks each in one git wrapper (the
// readers' chunk slice is handed from one patch to the next).

func scaleLine(n, salt int) string {
	const pat = "ab-+ @<>\\*!d\tq-- ++ @@ xyz"
	b := make([]byte, n)
	for i := range b {
		b[i] = pat[(i+salt)%len(pat)]
	}
	if n > 0 {
		b[n-1] = 'z' // no trailing blank or CR: the line has to survive tools that trim
	}
	return string(b)
}

// scaleHunks: two files that differ in m two-line replacements, far enough apart to stay separate hunks at context ctx.
func scaleHunks(m, ctx, salt int) (l, r []string) {
	for i := 0; i < m; i++ {
		for j := 0; j < 2*ctx+2; j++ {
			s := "u" + strconv.Itoa(salt) + "." + strconv.Itoa(i) + "." + strconv.Itoa(j)
			l, r = append(l, s), append(r, s)
		}
		l = append(l, "o"+strconv.Itoa(i), "- ")
		r = append(r, "n"+strconv.Itoa(i), "+"+strconv.Itoa(i))
	}
	return append(l, "tail"), append(r, "tail")
}

func scale(g *tr.G) {
	lens := []int{4090, 4091, 4092, 4093, 4094, 4095, 4096, 4097, 4098, 8189, 8190, 8191, 8192, 8193, 8194, 12288, 20000}
	if g.Thorough() {
		for k := 6; k <= 16; k++ {
			lens = append(lens, 1<<k-2, 1<<k-1, 1<<k, 1<<k+1)
		}
		lens = append(lens, 100000) // the extracted model's list functions are not tail recursive: ~150000 bytes per text is the limit of an 8 MB stack
	}
	for i, n := range lens {
		for ri, role := range sweepRoles {
			if g.Thorough() && n <= 20000 || ri == i%5 {
				sweepEmit(g, scaleLine(n, i), role, (i+ri)%3, i, 1, nil, "long-line")
			}
		}
		if i%3 == 0 && n <= 40000 {
			sweepGit(g, scaleLine(n, i), sweepRoles[i%4], i%2, sweepRoles[(i+1)%4], (i+1)%2, 1)
		}
	}
	// one edit of many lines
	for i, n := range append([]int{255, 256, 257, 1023, 1024, 1025}, []int{2047, 2049, 4095, 4097, 8193}[:g.Scale(0, 5)]...) {
		var blk []string
		for j := 0; j < n; j++ {
			blk = append(blk, "v"+strconv.Itoa(j%97)+"."+strconv.Itoa(j))
		}
		pre, post := []string{"k1", "k2", "k3"}, []string{"k5", "k6", "k7"}
		var l, r []string
		switch i % 3 {
		case 0:
			l, r = slices.Concat(pre, blk, post), slices.Concat(pre, post)
		case 1:
			l, r = slices.Concat(pre, post), slices.Concat(pre, blk, post)
		case 2:
			l, r = slices.Concat(pre, blk, post), slices.Concat(pre, []string{"n1", "n2"}, blk[:n/2], post)
		}
		cs := chunksOf(l, r, 1+i%3)
		rest := tr.HexList(l) + " " + tr.HexList(r) + " - " + encChunks(cs)
		g.Emit("D "+rest, true, "scale", "scale-big-edit")
		g.Emit("A "+rest, true, "scale")
	}
	// many hunks per file, several files per wrapper
	counts := []int{1, 2, 3, 4, 5, 7, 8, 9, 15, 16, 17, 31, 32, 33, 63, 64, 65}
	if g.Thorough() {
		counts = append(counts, 127, 128, 129, 255, 256, 257, 511, 513, 1025)
	}
	for i, m := range counts {
		ctx := i % 3
		l, r := scaleHunks(m, ctx, i)
		cs := chunksOf(l, r, ctx)
		if len(cs) != m {
			g.W.Count("scale-hunk-count-off(not intended)", 1)
		}
		rest := tr.HexList(l) + " " + tr.HexList(r) + " - " + encChunks(cs)
		g.Emit("D "+rest, true, "scale", "scale-many-hunks")
		g.Emit("A "+rest, true, "scale")
	}
	for i := 0; i+2 < len(counts) && counts[i+2] <= 130; i++ {
		k := 2 + i%3
		in := "G " + strconv.Itoa(k)
		for j := 0; j < k; j++ {
			m := counts[(i+(k-1-j))%len(counts)] // descending, then wrapping: a later file with fewer hunks than an earlier one and vice versa
			if j == k-1 && i%2 == 0 {
				m = counts[(i+k)%len(counts)]
			}
			ctx := (i + j) % 3
			l, r := scaleHunks(min(m, 130), ctx, i*10+j)
			junk := []string{"diff --git a/f b/f", "index 83a4f1..9bc2d0 100644"}
			fi := &mdiff.FileInfo{Left: "a/f" + strconv.Itoa(j), Right: "b/f" + strconv.Itoa(j)}
			in += " " + tr.HexList(junk) + " " + encFI(fi) + " " + encChunks(chunksOf(l, r, ctx))
		}
		g.Emit(in, true, "scale", "scale-git-many-hunks")
	}
}

// mutate damages a rendered diff in one place.
func mutate(r *tr.Rand, text string) string {
	lines := strings.SplitAfter(text, "\n")
	if len(lines) == 0 {
		return text
	}
	i := r.Intn(len(lines))
	switch r.Intn(10) {
	case 0: // drop a line
		lines = slices.Delete(lines, i, i+1)
	case 1: // duplicate a line
		lines = slices.Insert(lines, i, lines[i])
	case 2: // blank line
		lines = slices.Insert(lines, i, "\n")
	case 3: // hostile line
		lines = slices.Insert(lines, i, tr.Pick(r, hostile)+"\n")
	case 4: // change one byte
		if b := []byte(lines[i]); len(b) > 0 {
			b[r.Intn(len(b))] = tr.Pick(r, []byte("0123456789,-+@ <>acd\t\n!*x"))
			lines[i] = string(b)
		}
	case 5: // drop one byte
		if b := []byte(lines[i]); len(b) > 0 {
			k := r.Intn(len(b))
			lines[i] = string(slices.Delete(b, k, k+1))
		}
	case 6: // no final newline
		last := len(lines) - 1
		lines[last] = strings.TrimSuffix(lines[last], "\n")
	case 7: // swap two lines
		j := r.Intn(len(lines))
		lines[i], lines[j] = lines[j], lines[i]
	case 9: // blow a digit up into a number near or beyond the ends of int
		if k := strings.IndexAny(lines[i], "0123456789"); k >= 0 {
			lines[i] = lines[i][:k] + tr.Pick(r, []string{"9223372036854775807", "9223372036854775808", "9223372036854775806", "18446744073709551615", "4611686018427387904", "123456789012345678901234567890"}) + lines[i][k+1:]
		}
	case 8: // insert a byte
		b := []byte(lines[i])
		k := r.Intn(len(b) + 1)
		lines[i] = string(slices.Insert(b, k, tr.Pick(r, []byte("0123456789,-+@ <>acd\t!*x"))))
	}
	return strings.Join(lines, "")
}

// greyStamp reports whether a file-header line of text carries a timestamp that time.Parse
// accepts although it is not the canonical spelling Time.Format writes (the model's instance of
// the opaque timestamp tokens knows canonical spellings only), or the zero time.
func greyStamp(text string) bool {
	for _, l := range strings.Split(text, "\n") {
		if !strings.HasPrefix(l, "--- ") && !strings.HasPrefix(l, "+++ ") {
			continue
		}
		if _, rest, ok := strings.Cut(l[4:], "\t"); ok {
			if ts, err := time.Parse(mdiff.TimeFormat, rest); err == nil && (ts.IsZero() || ts.Format(mdiff.TimeFormat) != rest || ts.Day() > 28) {
				return true
			}
		}
	}
	return false
}

var handTexts = []string{
	"", "\n", "@@ -2 +2 @@\n-a\n+b\n", "@@ -1,0 +1 @@\n+b\n", "@@ -0,0 +1 @@\n+b\n", "@@ -1,2 +1,3 @@ func foo()\n a\n+b\n c\n",
	"--- a\n+++ b\n", "--- a\n", "--- a\n@@ -1 +1 @@\n", "--- a\tjunk\n+++ b\t2024-01-02 03:04:05 +0000\n@@ -1 +1 @@\n-x\n+y\n",
	"@@ -1 +1 @@\n-x\n+y\ndiff --git\n", "@@ -1 +1 @@\n-x\n\n+y\n", "@@ -1 +1\n", "@@ 1 +1 @@\n", "@@ -1 1 @@\n", "@@ -1,x +1 @@\n", "@@ -1,2,3 +1 @@\n",
	"@@\t-1\t+1\t@@\n-x\n+y", "@@ -+1 +-1 @@\n", "@@ --1 ++1 @@\n",
	"1a1\n> x\n", "0a1\n> x\n", "1d0\n< x\n", "1c1\n< x\n---\n> y\n", "1,0d0\n", "2,1d1\n> x\n", "1,2d0\n< x\n", "1a2\n< foo\n> bar\n", "1a2\n< foo\n", "1d1\n> x\n",
	"1c1\n< x\n---\n---\n> y\n", "1c1\n> y\n< x\n", "1c1\n< x\n---\n< z\n", "abc\n", "1x1\n", "\n1a1\n", "1a\n", "a1\n", "1,a1\n> x\n", "1ad\n", "1d1a1\n", "5,6c7,8\n< a\n< b\n---\n> c\n> d\n",
	"+1a+1\n> x\n", "1a1\n> x", "1a1\r\n> x\r\n",
	"diff --git a/x b/x\nindex 1..2 100644\n--- a/x\n+++ b/x\n@@ -1 +1 @@ ctx\n-a\n+b\n",
	"commit 1\n\n    msg\n\ndiff --git a/x b/x\n--- a/x\n+++ b/x\n@@ -1,2 +1,2 @@\n-a\n+b\n c\ndiff --git a/y b/y\nnew file mode 100644\n--- /dev/null\n+++ b/y\n@@ -0,0 +1,2 @@\n+p\n+q\n",
	"diff --git a/x b/x\n", "diff a\n--- a\n", "diff a\n--- a\nfoo\n", "nothing\n", "diff a\n--- a\n+++ b\n", "diff a\n--- a\n+++ b\n@@ -1 +1 @@\n-a\n\n",
	"diff a\n--- a\n+++ b\n@@ -1 +1 @@\n-a\n\\ No newline at end of file\n+b\ndiff b\n--- c\n+++ d\n@@ -3,2 +3 @@\n-a\n b\n",
	"diff a\n--- a\n+++ b\nBinary files differ\n", "--- a\n+++ b\ndiff a\n--- c\n+++ d\n@@ -1 +1 @@\n+x\n",
	// numbers at and beyond the ends of int: strconv.Atoi's range error, wrap-around in the readers' sums
	"@@ -9223372036854775807,5 +1 @@\n", "@@ -9223372036854775808 +1 @@\n", "@@ -1,18446744073709551616 +1 @@\n", "@@ --9223372036854775808,-1 +1,2 @@\n+a\n+b\n",
	"@@ -1 +9223372036854775807,9223372036854775807 @@\n-x\n", "@@ -00000000000000000000000000000000000000001,2 +1 @@\n-a\n-b\n+c\n",
	"9223372036854775807a1\n> x\n", "1a9223372036854775807\n> x\n", "1a9223372036854775806,9223372036854775807\n> x\n> y\n", "-9223372036854775808d1\n< x\n", "99999999999999999999a1\n> x\n",
	"1,9223372036854775807d0\n< x\n", "1d9223372036854775807\n< x\n", "-9223372036854775808,-9223372036854775808c1\n< x\n---\n> y\n", "1c-9223372036854775808\n< x\n---\n> y\n",
	"diff x\n--- a\n+++ b\n@@ -9223372036854775807,1 +9223372036854775807,1 @@\n-x\n+y\n",
}

func text(ls []string) string {
	if len(ls) == 0 {
		return ""
	}
	return strings.Join(ls, "\n") + "\n"
}

// gnuValidation (thorough tier, when /usr/bin/diff and /usr/bin/patch exist) records, for every
// pair of tiny texts, GNU diff's own output in seven modes (V lines: the reference appliers must
// turn Left into Right with it) and what GNU patch makes of mdiff's three renderings (W lines:
// whenever the strict reference applier accepts a rendering, patch must produce the same file).
// A disagreement is a fault of the reference appliers (the spec), never of mdiff.
func gnuValidation(g *tr.G) {
	diffBin, err1 := osexec.LookPath("diff")
	patchBin, err2 := osexec.LookPath("patch")
	if err1 != nil || err2 != nil {
		return
	}
	dir, err := os.MkdirTemp("", "c14gnu")
	if err != nil {
		return
	}
	defer os.RemoveAll(dir)
	lf, rf, pf, of := filepath.Join(dir, "l"), filepath.Join(dir, "r"), filepath.Join(dir, "p"), filepath.Join(dir, "o")
	modes := [][]string{{"n"}, {"u", "-U0"}, {"u", "-U1"}, {"u", "-U3"}, {"c", "-C0"}, {"c", "-C1"}, {"c", "-C3"}}
	gen([]string{"a", "b"}, 4, func(l []string) {
		gen([]string{"a", "b"}, 3, func(r []string) {
			if slices.Equal(l, r) {
				return
			}
			os.WriteFile(lf, []byte(text(l)), 0o644)
			os.WriteFile(rf, []byte(text(r)), 0o644)
			for _, m := range modes {
				args := slices.Clone(m[1:])
				if m[0] != "n" && (len(l)+len(r))%2 == 0 {
					// keep the file header, with names that look like range lines
					args = append(args, "--label", "1,2 ****", "--label", "x ----")
				}
				out, _ := osexec.Command(diffBin, append(args, lf, rf)...).Output()
				// drop the file header lines of -U/-C output (they carry temp names and times)
				lines := strings.SplitAfter(string(out), "\n")
				for len(lines) > 0 && (strings.HasPrefix(lines[0], "--- "+dir) || strings.HasPrefix(lines[0], "+++ "+dir) || strings.HasPrefix(lines[0], "*** "+dir)) {
					lines = lines[1:]
				}
				g.Emit("V "+m[0]+" "+tr.HexList(l)+" "+tr.HexList(r)+" "+tr.Hex(strings.Join(lines, "")), true, "gnu-diff")
			}
			for _, ctx := range []int{0, 1, 3} {
				cs := chunksOf(l, r, ctx)
				res := make([]string, 3)
				for i, f := range []mdiff.FormatFunc{mdiff.Normal, mdiff.Unified, mdiff.Context} {
					os.WriteFile(pf, []byte(format(f, cs, nil)), 0o644)
					os.Remove(of)
					flag := []string{"-n", "-u", "-c"}[i]
					err := osexec.Command(patchBin, flag, "-s", "-f", "-F0", "-o", of, "-r", "-", lf, pf).Run()
					got, rerr := os.ReadFile(of)
					if err != nil || rerr != nil {
						res[i] = "x"
					} else {
						res[i] = tr.Hex(string(got))
					}
				}
				g.Emit("W "+tr.HexList(l)+" "+tr.HexList(r)+" "+encChunks(cs)+" "+strings.Join(res, " "), true, "gnu-patch")
			}
		})
	})
}

func main() {
	tr.Main("C14: ROUND 6 (round6.go): header timestamp PAIRS - the same instant in two zones (also across midnight, quarter-hour zones, sub-second digits), the same clock reading in two zones, identical stamps, a microsecond / a second apart, zero and non-zero - in both orders through D, A, git wrappers of one and two files (the second the mirror image) and Q lines behind a reader call that saw the mirrored pair; ZP lines: two REAL times (instants in fixed zones named zl / zr) as LeftTime / RightTime under the default layout and 14 others - both headers of Unified and Context compared with time.Format side by side, under the default layout each side read back by ReadUnified and ReadGitPatch on its own and the patch re-formatted byte for byte; LARGE texts of 1100 x 2200 and 4100 x 4101 lines through New (above 2^20 and 2^24 pairs of lines; thorough: lengths around the square roots of 2^20 .. 2^24) - a block behind / in front of / in the middle of the common lines, three lines replaced at either end, ONE line inserted into a run of 1, 2, 5 identical lines, x y x y -> x y, one of two adjacent empty lines removed, a line doubled, and the mirror images - at contexts 3, 1, 0, each as a self-contained LA line (texts named by a recipe, New called when the line runs; the three renderings applied to the whole of Left by the reference appliers) and a D line (round trips of the same chunks). ROUND 5 (round5.go): header names special to the formats - /dev/null and near misses, a/ and b/ prefixes, the default placeholders a and b, the empty name, equal names on both sides, names with blanks, quotes, backslashes, names that look like header / hunk / git lines or end in a timestamp (names with a tab: correspondence only) - in every ordered pair of the core seventeen and each of the others against itself, /dev/null, a/x, b/x and the empty name, on an ordinary change, a created file and a deleted file (the side that does not exist named /dev/null), with no, one and both stamps, through D, A, git wrappers of one, two and three files with the junk lines git writes for that kind of patch, and Q lines behind a reader call that saw a /dev/null header; every rendering also through Diff.Format (must be byte-identical); ZF lines: FileInfo.TimeFormat set to 14 layouts (and left empty) on real times, both headers of Unified and Context compared with time.Format; every reader call of every line through one of eight kinds of io.Reader chosen by the length of the text (strings.Reader, bytes.Reader, bytes.Buffer, bufio.Reader of the default size and of 16 bytes, one byte per Read, the last bytes together with io.EOF, 7-byte chunks behind reads that return (0, nil)). ROUND 4 (Q lines, each self-contained: it names the earlier calls it runs after): a round trip through each of the three readers after each of the three readers was called on a text that leaves it at one of its exits - every hand-written text, valid renderings (normal, unified with and without header, two-file git wrapper) whole, cut short after every line, with 15 kinds of foreign line behind the last hunk, with a number in every change command and hunk header made wrong, with the first line missing, damaged at random, and much larger ones (40 hunks, a 5000-byte line) - all 3x3 combinations of prelude reader and target reader, two earlier calls, formatter calls into a writer that fails or panics at its k-th Write (k = 1..24), a much larger formatter call first; what the earlier reader calls returned is spelled again after the round trip and must not have changed. EVERY line length 1..600 (thorough 1100) as a deleted, an added and a context line of one diff (every fifth length also as either side of a Replace) through Normal/Read, Unified/ReadUnified, Context, the three reference appliers and a git wrapper; every number of lines in one edit 1..600 (dropped / inserted / replaced, rotating), every start line 1..601 (spellings of all those numbers in ranges and change commands; odd offsets with different left and right line numbers), every number of hunks 1..100 (thorough 600). COLLIDING LINES from corpus/common/hash-collisions.tsv (FNV-1a/FNV-1 32, CRC-32, Adler-32, djb2, 31-polynomial; each pair checked against its hash when the generator starts) and lines equal up to case, surrounding blanks, Unicode normalisation, numeric value, byte order: one in Left where Right has the other, next to each other, one the context of a change to the other, one in each file of a git wrapper; number-like and multi-byte UTF-8 line texts in every role. Then, as before: every pair of texts over 3 symbols to length 3 (quick) / 4 (thorough) at contexts 0, 1, 3, each diff with and without a file header; a sweep of line texts - every string of length <= 2 (quick) / <= 3 (thorough) over the bytes the formats give a meaning to (- + space @ < > \\ * ! d TAB CR) and random longer ones built from them and from the words that open header lines - each as a deleted line, an added line, either side of a Replace and a context line, first, last and alone in its edit, among ordinary lines at contexts 1, 3 and 0, through Normal/Read, Unified/ReadUnified, Context and two-file git wrappers/ReadGitPatch; a scale stream - lines of 4090..4098, 8189..8194, 12288, 20000 bytes (thorough: 2^k-2..2^k+1 up to 65537, and 100000) in every role, one edit of 255..1025 (thorough ..8193) lines, files of 1..65 (thorough ..1025) hunks, git wrappers of 2-4 files with up to 65 (129) hunks each; random texts of hostile lines (empty, starting with - + < > @ space --- diff, looking like hunk headers and change commands); long texts with line numbers of 2-4 digits; synthetic chunk lists (negative and inconsistent ranges, empty edits) for the formatter/reader correspondence; rendered diffs damaged in one place and hand-written texts for the readers; git-style wrappers around 1-3 renderings. For every diff the three renderings, Read/ReadUnified of them and the re-formatted patches are recorded. A case is non-trivial when the diff has at least one chunk (readers: always).",
		exec, func(g *tr.G) {
			// round 4 (round4.go): earlier calls in the same process.  FIRST: these lines carry their own
			// prelude, so they fail alone when replayed; an ordinary line that fails only because of what
			// an earlier LINE of this process left behind does not, and must not be the first one reported
			preludes(g)
			// round 5 (round5.go): header names special to the formats (/dev/null, a/, b/, the defaults, equal
			// names, blanks, quotes) in every pair, created and deleted files, git wrappers of several files;
			// the TimeFormat option
			headerNames(g)
			timeLayouts(g)
			// round 6 (round6.go): pairs of header stamps at the same instant in different zones, at the same
			// clock reading, identical, zero and not; large texts (1100 x 2200, 4100 x 4101 lines) through New
			stampPairs(g)
			realStampPairs(g)
			largeTexts(g)
			// exhaustive tiny texts
			alpha := []string{"a", "b", "c"}
			n := g.Scale(3, 4)
			gen(alpha, n, func(l []string) {
				gen(alpha, n, func(r []string) {
					for _, ctx := range []int{0, 1, 3} {
						var fi *mdiff.FileInfo
						if (len(l)+len(r)+ctx)%3 == 0 {
							fi = &mdiff.FileInfo{Left: "l", Right: "r"}
						}
						emitDiff(g, l, r, ctx, fi, "exhaustive")
					}
				})
			})
			// every short text over the formats' special bytes, in every role a line can have
			sweep(g)
			// sizes around the thresholds underneath: 4096-byte reader buffer, append growth, many hunks, many files
			scale(g)
			// round 4 (round4.go): every length and count, colliding and number-like line texts
			everyLength(g)
			everyCount(g)
			values(g)
			// hostile line contents
			for i := 0; i < g.Scale(4000, 100000); i++ {
				sub := []string{tr.Pick(g.R, hostile), tr.Pick(g.R, hostile), tr.Pick(g.R, hostile)}
				mk := func() []string {
					k := g.R.Intn(7)
					out := make([]string, k)
					for j := range out {
						out[j] = tr.Pick(g.R, sub)
					}
					return out
				}
				emitDiff(g, mk(), mk(), tr.Pick(g.R, []int{0, 0, 1, 2, 3, 5}), randFI(g.R), "hostile")
			}
			// long texts: multi-digit line numbers, several chunks
			for i := 0; i < g.Scale(300, 6000); i++ {
				pre := tr.Pick(g.R, []int{0, 7, 9, 10, 98, 99, 100, 998, 1001})
				var l, r []string
				for j := 0; j < pre; j++ {
					l = append(l, "p")
					r = append(r, "p")
				}
				k := 5 + g.R.Intn(25)
				for j := 0; j < k; j++ {
					s := tr.Pick(g.R, []string{"x", "y", "z", "w"})
					switch g.R.Intn(6) {
					case 0:
						l = append(l, s)
					case 1:
						r = append(r, s)
					case 2:
						l = append(l, s)
						r = append(r, s+"'")
					default:
						l = append(l, s)
						r = append(r, s)
					}
				}
				emitDiff(g, l, r, g.R.Intn(5), randFI(g.R), "long")
			}
			// synthetic chunk lists (correspondence only)
			for i := 0; i < g.Scale(1500, 30000); i++ {
				var cs []*mdiff.Chunk
				for k := g.R.Intn(4); k > 0; k-- {
					c := &mdiff.Chunk{LStart: g.R.Range(-2, 12), RStart: g.R.Range(-2, 12)}
					c.LEnd = c.LStart + g.R.Range(-1, 3)
					c.REnd = c.RStart + g.R.Range(-1, 3)
					for m := g.R.Intn(4); m > 0; m-- {
						e := mdiff.Edit{Op: tr.Pick(g.R, []slice.EditOp{slice.OpDrop, slice.OpEmit, slice.OpCopy, slice.OpReplace})}
						for x := g.R.Intn(3); x > 0; x-- {
							e.X = append(e.X, tr.Pick(g.R, hostile))
						}
						for y := g.R.Intn(3); y > 0; y-- {
							e.Y = append(e.Y, tr.Pick(g.R, hostile))
						}
						c.Edits = append(c.Edits, e)
					}
					cs = append(cs, c)
				}
				g.Emit("S . . "+encFI(randFI(g.R))+" "+encChunks(cs), true, "synthetic")
			}
			// readers on hand-written and damaged texts
			for _, t := range handTexts {
				for _, k := range []string{"n", "u", "g"} {
					g.Emit("T "+k+" "+tr.Hex(t), true, "hand-written")
				}
			}
			for i := 0; i < g.Scale(3000, 80000); i++ {
				sub := []string{tr.Pick(g.R, hostile), tr.Pick(g.R, hostile), "a"}
				mk := func() []string {
					k := g.R.Intn(6)
					out := make([]string, k)
					for j := range out {
						out[j] = tr.Pick(g.R, sub)
					}
					return out
				}
				cs := chunksOf(mk(), mk(), g.R.Intn(3))
				fi := randFI(g.R)
				kind := tr.Pick(g.R, []string{"n", "u", "u", "g"})
				var text string
				switch kind {
				case "n":
					text = format(mdiff.Normal, cs, nil)
				case "u":
					text = format(mdiff.Unified, cs, fi)
				case "g":
					text = "diff --git a b\nindex 1..2\n" + format(mdiff.Unified, cs, &mdiff.FileInfo{}) + "diff --git c d\n" + format(mdiff.Unified, cs, fi)
				}
				for m := 1 + g.R.Intn(2); m > 0; m-- {
					text = mutate(g.R, text)
				}
				if strings.IndexFunc(text, func(r rune) bool { return r > 127 && unicode.IsSpace(r) }) >= 0 || greyStamp(text) {
					// outside the model: strings.Fields on non-ASCII white space (FormatLines.fields knows the
					// ASCII ones; the hunk headers the formatters write are ASCII), and see greyStamp
					g.W.Count("damaged-text-skipped(non-ASCII space or non-canonical stamp)", 1)
					continue
				}
				g.Emit("T "+kind+" "+tr.Hex(text), true, "damaged")
			}
			if g.Thorough() {
				gnuValidation(g)
			}
			// real timestamps through the default TimeFormat: which survive, exactly
			const year0, year10000 = -62167219200, 253402300800 // unix seconds of 0000-01-01 and 10000-01-01 (UTC)
			secs := []int64{0, -1, 1, 1700000000, -62135596800, -62135596801, -62135596799, year0, year0 - 1, year0 + 1, year10000 - 1, year10000, year10000 + 1,
				951782400 /* 2000-02-29 */, 4107542399 /* 2100-02-28 23:59:59 */, 68169599 /* 1972-02-29 */, -2208988800 /* 1900-01-01 */}
			nsecs := []int64{0, 0, 1, 999, 1000, 1001, 500000000, 999999000, 999999999, 123456789, 120000000}
			offs := []int{0, 0, 60, -60, 3600, -3600, 19800, -34200, 45900, 3630, -3630, 59, -59, 1172, 86340, 86400, 89940, 90000, -89940, -90000, 360000, -86400}
			for i := 0; i < g.Scale(1500, 30000); i++ {
				sec := tr.Pick(g.R, secs)
				switch g.R.Intn(4) {
				case 0:
					sec = year0 + int64(g.R.Uint64()%uint64(year10000-year0))
				case 1:
					sec += int64(g.R.Range(-100000, 100000))
				}
				nsec := tr.Pick(g.R, nsecs)
				if g.R.Chance(1, 3) {
					nsec = int64(g.R.Intn(1000000000))
				}
				off := tr.Pick(g.R, offs)
				switch g.R.Intn(4) {
				case 0:
					off = 60 * g.R.Range(-1500, 1500)
				case 1:
					off = g.R.Range(-91000, 91000)
				}
				tags := []string{"timestamp"}
				local := sec + int64(off)
				if local < year0 || local >= year10000 {
					tags = append(tags, "stamp-year-outside-0..9999")
				}
				if off%60 != 0 {
					tags = append(tags, "stamp-zone-with-seconds")
				}
				if nsec%1000 != 0 {
					tags = append(tags, "stamp-sub-microsecond")
				}
				if out := g.Emit(fmt.Sprintf("Z %d %d %d", sec, nsec, off), true, tags...); out == "same" {
					g.W.Count("stamp-survives", 1)
				}
			}
			// git wrappers
			junk0 := []string{"diff --git a/f b/f", "index 83a4f1..9bc2d0 100644", "new file mode 100644", "similarity index 90%", "deleted file mode 100644", "old mode 100644"}
			for i := 0; i < g.Scale(600, 15000); i++ {
				k := 1 + g.R.Intn(3)
				in := "G " + strconv.Itoa(k)
				for j := 0; j < k; j++ {
					var junk []string
					if j == 0 {
						for m := g.R.Intn(3); m > 0; m-- {
							junk = append(junk, tr.Pick(g.R, []string{"commit 4a5b6c", "Author: A <a@b>", "", "    message", "Date: now"}))
						}
					}
					junk = append(junk, "diff --git a/f b/f")
					for m := g.R.Intn(3); m > 0; m-- {
						junk = append(junk, tr.Pick(g.R, junk0[1:]))
					}
					sub := []string{tr.Pick(g.R, hostile), "a", "b"}
					mk := func() []string {
						n := g.R.Intn(5)
						out := make([]string, n)
						for x := range out {
							out[x] = tr.Pick(g.R, sub)
						}
						return out
					}
					var cs []*mdiff.Chunk
					for len(cs) == 0 {
						cs = chunksOf(mk(), mk(), g.R.Intn(3))
					}
					fi := randFI(g.R)
					if fi == nil {
						fi = &mdiff.FileInfo{Left: "a/f", Right: "b/f"}
					}
					in += " " + tr.HexList(junk) + " " + encFI(fi) + " " + encChunks(cs)
				}
				g.Emit(in, true, "git-wrapper")
			}
		})
}
