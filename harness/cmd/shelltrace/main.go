// Command shelltrace drives shell.Split/Quote/Join and shell.Scanner of the working tree and
// records inputs and observables, one case per line:
//
//	S <hex>            | <ok> <hexlist>          Split
//	Q <hex>            | <hex>                    Quote
//	J <hexlist>        | <hex>                    Join
//	R <hexlist>        | <ok> <hexlist>          Split(Join(ss))
//	N <frag> <hex> <ops> | n<ok>:<hex text>:<complete>;r<hex rest>;…   Scanner session; ops over {n,r};
//	                     frag = reader fragmentation (0 whole, k>0 chunks of k bytes, -k seeded random)
//
// A panic inside the package is recorded as the output PANIC (after the observations made so far).
package main

import (
	"io"
	"strconv"
	"strings"
	"sync"

	"github.com/creachadair/mds/shell"
	"verif/harness/internal/tr"
)

type fragReader struct {
	s    string
	k    int
	rng  *tr.Rand
	hits int
}

func (f *fragReader) Read(p []byte) (int, error) {
	if len(f.s) == 0 {
		return 0, io.EOF
	}
	n := len(p)
	switch {
	case f.k > 0:
		n = min(n, f.k)
	case f.k < 0:
		n = min(n, 1+f.rng.Intn(5))
	}
	n = min(n, len(f.s))
	copy(p, f.s[:n])
	f.s = f.s[n:]
	return n, nil
}

// exec runs one case; a panic of the package (e.g. a transducer table that no longer covers a
// state/class pair) is an observation ("PANIC"), not a crash of the harness.
func exec(in string) (out string) {
	var partial []string
	if p := tr.Catch(func() { out = exec1(in, &partial) }); p != "" {
		return strings.Join(append(partial, "PANIC"), ";")
	}
	return out
}

func exec1(in string, partial *[]string) string {
	// fields are separated by blanks; '_' is accepted too, so that an input can be quoted as one
	// blank-free word in the FAIL lines of the supporting scripts (bin/incoq-shell, bin/dash-shell)
	f := strings.FieldsFunc(in, func(r rune) bool { return r == ' ' || r == '_' })
	switch f[0] {
	case "S":
		fs, ok := shell.Split(tr.UnHex(f[1]))
		return tr.B(ok) + " " + tr.HexList(fs)
	case "Q":
		return tr.Hex(shell.Quote(tr.UnHex(f[1])))
	case "J":
		return tr.Hex(shell.Join(tr.UnHexList(f[1])))
	case "R":
		fs, ok := shell.Split(shell.Join(tr.UnHexList(f[1])))
		return tr.B(ok) + " " + tr.HexList(fs)
	case "N":
		k, _ := strconv.Atoi(f[1])
		src := tr.UnHex(f[2])
		fr := &fragReader{s: src, k: k, rng: tr.NewRand(uint64(len(src))*31 + uint64(-k))}
		sc := shell.NewScanner(fr)
		var out []string
		defer func() { *partial = out }()
		for _, op := range f[3] {
			switch op {
			case 'n':
				ok := sc.Next()
				out = append(out, "n"+tr.B(ok)+":"+tr.Hex(sc.Text())+":"+tr.B(sc.Complete()))
			case 'r':
				rest, _ := io.ReadAll(sc.Rest())
				out = append(out, "r"+tr.Hex(string(rest)))
			}
		}
		return strings.Join(out, ";")
	}
	return "?"
}

var classAlpha = []byte{'a', ' ', '\n', '\\', '\'', '"'}
var wideAlpha = []byte{'a', ' ', '\t', '\n', '\\', '\'', '"', 0x80, 0, ';'}
var metaAlpha = []byte{'a', ' ', '\'', '"', '\\', '$', '*', '\n', '\t', '#', '~', '=', ';', '`', 0x80, '!', '{', '-', '%', '[', '?', '|', '&', '<', '>', '(', ')', 0xff}

// allStrings calls f on every string over alpha of length 0..maxLen, shortest first (so that the
// first failing case reported is a minimal one).
func allStrings(alpha []byte, maxLen int, f func(s string)) {
	var rec func(cur []byte, n int)
	rec = func(cur []byte, n int) {
		if n == 0 {
			f(string(cur))
			return
		}
		for _, a := range alpha {
			rec(append(cur[:len(cur):len(cur)], a), n-1)
		}
	}
	for l := 0; l <= maxLen; l++ {
		rec(nil, l)
	}
}

func randString(r *tr.Rand, alpha []byte, maxLen int) string {
	n := r.Intn(maxLen + 1)
	b := make([]byte, n)
	for i := range b {
		if r.Chance(1, 10) {
			b[i] = byte(r.Intn(256))
		} else {
			b[i] = tr.Pick(r, alpha)
		}
	}
	return string(b)
}

func special(s string) bool { return strings.ContainsAny(s, " \t\n\\'\"|&;<>()$`*?[#~=%") }

func main() {
	tr.Main("C15: every single byte, all strings to length 3 (quick) / 4 (thorough) over a 28-symbol metacharacter alphabet for Quote and Split(Join), random lists of random strings, concurrent calls so pooled buffers are reused; C16: every byte value alone, inside a word and inside each kind of quoting, all strings to length 3 (quick) / 4 (thorough) over a 10-symbol alphabet with both blanks, NUL and a non-ASCII byte, all strings over the six tokenizer classes to length 6 (quick) / 8 (thorough) for Split, scanner sessions under every fragmentation with Rest at every point, random long inputs. A case is non-trivial when its input contains a quoting character, separator or metacharacter; distinct = distinct input lines.",
		exec, func(g *tr.G) {
			switch g.Prop {
			case "C15":
				for b := 0; b < 256; b++ {
					s := string([]byte{byte(b)})
					g.Emit("Q "+tr.Hex(s), special(s), "single-byte")
					g.Emit("R "+tr.HexList([]string{s}), special(s))
				}
				g.Emit("J .", false, "empty-list")
				g.Emit("R .", false, "empty-list")
				g.Emit("R "+tr.HexList([]string{""}), true, "empty-string")
				g.Emit("R "+tr.HexList([]string{"", ""}), true, "empty-string")
				allStrings(metaAlpha, g.Scale(3, 4), func(s string) {
					g.Emit("Q "+tr.Hex(s), special(s), "exhaustive-meta")
					parts := strings.Split(s, "a")
					g.Emit("J "+tr.HexList(parts), special(s))
					g.Emit("R "+tr.HexList(parts), special(s))
				})
				for i := 0; i < g.Scale(20000, 400000); i++ {
					n := g.R.Intn(5)
					ss := make([]string, n)
					for j := range ss {
						ss[j] = randString(g.R, metaAlpha, 12)
					}
					g.Emit("R "+tr.HexList(ss), true, "random-list")
					g.Emit("J "+tr.HexList(ss), true)
					if n > 0 {
						g.Emit("Q "+tr.Hex(ss[0]), special(ss[0]))
					}
				}
				// pooled buffers under concurrency: results must still be the sequential ones
				var wg sync.WaitGroup
				var mu sync.Mutex
				for w := 0; w < 8; w++ {
					wg.Add(1)
					r := tr.NewRand(g.Seed*977 + uint64(w))
					go func() {
						defer wg.Done()
						for i := 0; i < g.Scale(500, 20000); i++ {
							ss := []string{randString(r, metaAlpha, 20), randString(r, metaAlpha, 3)}
							in := "R " + tr.HexList(ss)
							out := exec(in)
							in2 := "J " + tr.HexList(ss)
							out2 := exec(in2)
							mu.Lock()
							g.W.Case(in, out, true, "concurrent")
							g.W.Case(in2, out2, true, "concurrent")
							mu.Unlock()
						}
					}()
				}
				wg.Wait()
			case "C16":
				// every byte value alone and inside a word: the whole byte->class map is exercised
				for b := 0; b < 256; b++ {
					c := string([]byte{byte(b)})
					g.Emit("S "+tr.Hex(c), special(c), "every-byte")
					g.Emit("S "+tr.Hex("a"+c+"b"), special(c), "every-byte")
					g.Emit("S "+tr.Hex("\""+c+"\" '"+c+"' \\"+c), true, "every-byte")
				}
				allStrings(wideAlpha, g.Scale(3, 4), func(s string) {
					g.Emit("S "+tr.Hex(s), special(s), "exhaustive-wide")
				})
				allStrings(classAlpha, g.Scale(6, 8), func(s string) {
					g.Emit("S "+tr.Hex(s), special(s), "exhaustive-class")
				})
				sess := func(s string) {
					for _, k := range []int{0, 1, 2, 3, -1} {
						// full scan, then extra Next calls past the end
						g.Emit("N "+strconv.Itoa(k)+" "+tr.Hex(s)+" "+strings.Repeat("n", len(s)/2+3), special(s), "session")
					}
					// Rest after every number of Next calls
					for i := 0; i <= len(s)/2+1 && i < 6; i++ {
						g.Emit("N "+strconv.Itoa(g.R.Range(-1, 2))+" "+tr.Hex(s)+" "+strings.Repeat("n", i)+"rnn", special(s), "rest")
					}
				}
				allStrings(classAlpha, g.Scale(4, 5), sess)
				for i := 0; i < g.Scale(3000, 100000); i++ {
					s := randString(g.R, classAlpha, 40)
					g.Emit("S "+tr.Hex(s), true, "random-long")
					if i%5 == 0 {
						sess(s)
					}
				}
				// inputs longer than bufio's 4096-byte buffer
				for i := 0; i < g.Scale(5, 200); i++ {
					var sb strings.Builder
					for sb.Len() < 9000 {
						sb.WriteString(randString(g.R, classAlpha, 30))
					}
					s := sb.String()
					g.Emit("S "+tr.Hex(s), true, "over-buffer")
					g.Emit("N -1 "+tr.Hex(s)+" nnnnnrn", true, "over-buffer")
				}
			}
		})
}
