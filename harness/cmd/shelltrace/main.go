// Command shelltrace drives shell.Split/Quote/Join and shell.Scanner of the working tree and
// records inputs and observables, one case per line:
//
//	S <hex>            | <ok> <hexlist>          Split
//	Q <hex>            | <hex>                    Quote
//	J <hexlist>        | <hex>                    Join
//	R <hexlist>        | <ok> <hexlist>          Split(Join(ss))
//	H <hexlist>        | <hexlist>;<hexlist>     hold: Quote of every element, then Join of every
//	                                              non-empty prefix; ALL results are kept and only read
//	                                              after the last call (and after a GC for some inputs),
//	                                              so a result that aliases a pooled buffer shows
//	K <hexlist> <ops>   | q<hex>;j<hex>;r<ok>:<hexlist>;s<ok>:<hexlist>;…   a history of calls in ONE process
//	                                              (round 4): ops is a ','-separated list of q<i> Quote(ss[i]),
//	                                              j<i>.<n> Join(ss[i:i+n]), r<i>.<n> Split(Join(ss[i:i+n])),
//	                                              s<i> Split(ss[i]); every result is kept and read after the
//	                                              last call, so state that one call leaves behind for the next
//	                                              (a pool, a table of recent results) shows in a replayable line
//	N <frag> <hex> <ops> | n<ok>:<hex text>:<complete>;r<hex rest>;…   Scanner session
//	M <kind1> <hex1> <ops1> <kind2> <hex2> <ops2> | <session 1>;Z<text>:<complete>:<err>;<session 2>
//	                                              ONE scanner, two inputs, every kind of reader (round 5,
//	                                              round5.go): NewScanner over the first, ops1, Reset onto
//	                                              the second, ops2
//
// Session ops: n Next (records result, Text, Complete), r Rest (records every byte read from it),
// e Err (e0 nil, e1 io.EOF, e2 other), z Reset to a fresh reader of the same input (records z),
// s Scanner.Split (s<hexlist>:<hex text>:<complete>, Text and Complete taken after the call), a Each
// to the end, b/c Each whose callback returns false at the first/second token, x/y Each whose
// callback PANICS at the first/second token (recovered by the harness; the scanner is used on)
// (a|b|c|x|y<hexlist of the tokens passed to the callback>:<hex text>:<complete>).
// Round 6: p<k> Rest of which only the first k bytes are read (p<hex of the bytes read>), q<k> k more
// bytes from the reader the last Rest returned (q<hex>; q- when no Rest came before or a Reset came
// since), t Text and Complete with no call in between (t<hex text>:<complete>).
// The strings returned by Text and passed to Each's callback are kept and read at the end of the
// session.
//
// frag = how the reader fragments the input: [e][z]<k>.  k = 0: as much as the caller's buffer
// takes; k > 0: chunks of k bytes; k < 0: seeded random chunks of 1..5 bytes.  Flag e: the last
// chunk is returned together with io.EOF (n > 0 and io.EOF in one call); flag z: every chunk is
// preceded by one to three reads that return (0, nil).
//
// <hex> is two hex digits per byte, with runs written as r<count>z<hex block>z (rle.go); "-" is
// the empty string, "." the empty list.
//
// A panic inside the package is recorded as the output PANIC (after the observations made so far);
// a scanner that never stops returning tokens as RUNAWAY (see runaway).
package main

import (
	"errors"
	"io"
	"runtime"
	"strconv"
	"strings"
	"sync"
	"time"

	"github.com/creachadair/mds/shell"
	"verif/harness/internal/tr"
)

type fragReader struct {
	s       string
	k       int
	withEOF bool // flag e
	zeros   bool // flag z
	rng     *tr.Rand
	pendZ   int
	primed  bool
}

func (f *fragReader) Read(p []byte) (int, error) {
	if len(f.s) == 0 {
		return 0, io.EOF
	}
	if len(p) == 0 {
		return 0, nil
	}
	if f.zeros {
		if !f.primed {
			f.pendZ = 1 + f.rng.Intn(3)
			f.primed = true
		}
		if f.pendZ > 0 {
			f.pendZ--
			return 0, nil
		}
		f.primed = false
	}
	n := len(p)
	switch {
	case f.k > 0:
		n = min(n, f.k)
	case f.k < 0:
		n = min(n, 1+f.rng.Intn(5))
	}
	n = min(n, len(f.s))
	copy(p, f.s[:n])
	f.s = f.s[n:]
	if f.withEOF && len(f.s) == 0 {
		return n, io.EOF
	}
	return n, nil
}

func newFrag(desc, src string) *fragReader {
	fr := &fragReader{s: src}
	for len(desc) > 0 && (desc[0] == 'e' || desc[0] == 'z') {
		if desc[0] == 'e' {
			fr.withEOF = true
		} else {
			fr.zeros = true
		}
		desc = desc[1:]
	}
	fr.k, _ = strconv.Atoi(desc)
	fr.rng = tr.NewRand(uint64(len(src))*31 + uint64(int64(-fr.k)))
	return fr
}

// exec runs one case; a panic of the package (e.g. a transducer table that no longer covers a
// state/class pair) is an observation ("PANIC"), not a crash of the harness.
func exec(in string) (out string) {
	var partial []string
	if p := tr.Catch(func() { out = exec1(in, &partial) }); p != "" {
		return strings.Join(append(partial, "PANIC"), ";")
	}
	return out
}

var gcCases int // hold cases executed so far (exec is called from one goroutine for H lines)

// a held observation: the strings are converted to hex only when the session is over
type held struct {
	pre     string
	toks    []string // printed as a hex list when hasToks
	hasToks bool
	txt     string // printed as hex when hasTxt
	hasTxt  bool
	post    string
}

func (h held) String() string {
	out := h.pre
	if h.hasToks {
		out += hxList(h.toks)
		if h.hasTxt {
			out += ":"
		}
	}
	if h.hasTxt {
		out += hx(h.txt)
	}
	return out + h.post
}

// runaway reports whether a scanner over src keeps returning tokens beyond any possible number
// (every token but the last consumes at least one byte).  It is checked before Split, Scanner.Split
// and Each are let loose on an input, because those would then allocate without end; the case is
// recorded as RUNAWAY.  A Next that does not return at all within the watchdog is reported the
// same way.
func runaway(desc, src string) bool {
	bad := false
	if r := tr.Guard(20*time.Second, func() {
		sc := shell.NewScanner(newFrag(desc, src))
		for i := 0; i <= len(src)+2; i++ {
			if !sc.Next() {
				return
			}
		}
		bad = true
	}); r == "hang" {
		return true
	}
	return bad
}

// errCallback is what the callback of the x / y session ops panics with
var errCallback = errors.New("callback panics")

// parseKOp reads one op of a K line: a letter, an index and (after '.') a count that defaults to 1
func parseKOp(op string) (kind byte, i, n int) {
	if op == "" {
		return '?', 0, 0
	}
	rest := op[1:]
	n = 1
	if d := strings.IndexByte(rest, '.'); d >= 0 {
		n, _ = strconv.Atoi(rest[d+1:])
		rest = rest[:d]
	}
	i, _ = strconv.Atoi(rest)
	return op[0], i, n
}

// subList is ss[i:i+n] cut to the list (an op that the shrinker has separated from its strings
// still means something); elemAt likewise
func subList(ss []string, i, n int) []string {
	lo := min(max(i, 0), len(ss))
	hi := min(max(i+n, lo), len(ss))
	return ss[lo:hi:hi]
}

func elemAt(ss []string, i int) string {
	if i < 0 || i >= len(ss) {
		return ""
	}
	return ss[i]
}

func exec1(in string, partial *[]string) string {
	// fields are separated by blanks; '_' is accepted too, so that an input can be quoted as one
	// blank-free word in the FAIL lines of the supporting scripts (bin/incoq-shell, bin/dash-shell)
	f := strings.FieldsFunc(in, func(r rune) bool { return r == ' ' || r == '_' })
	switch f[0] {
	case "S":
		if runaway("0", unhx(f[1])) {
			return "RUNAWAY"
		}
		fs, ok := shell.Split(unhx(f[1]))
		return tr.B(ok) + " " + hxList(fs)
	case "Q":
		return hx(shell.Quote(unhx(f[1])))
	case "J":
		return hx(shell.Join(unhxList(f[1])))
	case "R":
		j := shell.Join(unhxList(f[1]))
		if runaway("0", j) {
			return "RUNAWAY"
		}
		fs, ok := shell.Split(j)
		return tr.B(ok) + " " + hxList(fs)
	case "H":
		ss := unhxList(f[1])
		qs := make([]string, 0, len(ss))
		js := make([]string, 0, len(ss))
		for _, s := range ss {
			qs = append(qs, shell.Quote(s))
		}
		for i := range ss {
			js = append(js, shell.Join(ss[:i+1]))
		}
		gcCases++
		if len(ss)%3 == 0 && (gcCases <= 300 || gcCases%97 == 0) {
			// a GC empties the pools; a result must not depend on the buffer it was built in.  (Only
			// for the first few hundred hold cases and then now and again: the generator's own heap
			// makes every collection slow in the thorough tier.)
			runtime.GC()
		}
		if len(ss)%3 == 0 {
			_ = shell.Quote(" overwrite the pooled buffer once more ")
		}
		return hxList(qs) + ";" + hxList(js)
	case "K":
		ss := unhxList(f[1])
		var ops []string
		if len(f) > 2 {
			ops = strings.Split(f[2], ",")
		}
		var obs []held
		flush := func() []string {
			out := make([]string, len(obs))
			for i, h := range obs {
				out[i] = h.String()
			}
			return out
		}
		defer func() { *partial = flush() }()
		for _, op := range ops {
			kind, i, n := parseKOp(op)
			switch kind {
			case 'q':
				obs = append(obs, held{pre: "q", txt: shell.Quote(elemAt(ss, i)), hasTxt: true})
			case 'j':
				obs = append(obs, held{pre: "j", txt: shell.Join(subList(ss, i, n)), hasTxt: true})
			case 'r', 's':
				src := elemAt(ss, i)
				if kind == 'r' {
					src = shell.Join(subList(ss, i, n))
				}
				if runaway("0", src) {
					return strings.Join(append(flush(), "RUNAWAY"), ";")
				}
				fs, ok := shell.Split(src)
				obs = append(obs, held{pre: string(kind) + tr.B(ok) + ":", toks: fs, hasToks: true})
			default:
				obs = append(obs, held{pre: "?"})
			}
		}
		gcCases++
		if len(ops)%3 == 0 && (gcCases <= 300 || gcCases%97 == 0) {
			runtime.GC() // as for H lines: a kept result must not depend on the buffer it was built in
		}
		if len(ops)%3 == 0 {
			_ = shell.Quote(" overwrite the pooled buffer once more ")
		}
		return strings.Join(flush(), ";")
	case "N":
		src := unhx(f[2])
		if len(f) > 3 && strings.ContainsAny(f[3], "sabcxy") && runaway(f[1], src) {
			return "RUNAWAY"
		}
		fr := newFrag(f[1], src)
		sc := shell.NewScanner(fr)
		var obs []held
		flush := func() []string {
			out := make([]string, len(obs))
			for i, h := range obs {
				out[i] = h.String()
			}
			return out
		}
		defer func() { *partial = flush() }()
		ops := ""
		if len(f) > 3 {
			ops = f[3]
		}
		runSession(sc, ops, &obs, func() {
			fr = newFrag(f[1], src)
			sc.Reset(fr)
		})
		return strings.Join(flush(), ";")
	case "M": // one scanner, two inputs (round5.go)
		return execReuse(f, partial)
	}
	return "?"
}

// runSession performs the session ops on sc, appending one observation per op; reset is what the
// op z does (nil: z is not an op of this kind of line)
func runSession(sc *shell.Scanner, ops string, obs *[]held, reset func()) {
	each := func(tag string, stopAt int, panics bool) {
		var toks []string
		func() {
			defer func() {
				if p := recover(); p != nil && p != any(errCallback) {
					panic(p) // a panic of the package, not of the callback
				}
			}()
			sc.Each(func(tok string) bool {
				toks = append(toks, tok)
				// read-only re-entrancy (round 5): inside the callback the scanner's own observers
				// describe the token just handed over
				if t := sc.Text(); t != tok {
					toks = append(toks, "\x00Text() inside the callback of Each is not the token passed to it but "+t)
				}
				if panics && len(toks) == stopAt {
					panic(errCallback)
				}
				return len(toks) != stopAt
			})
		}()
		*obs = append(*obs, held{pre: tag, toks: toks, hasToks: true, txt: sc.Text(), hasTxt: true, post: ":" + tr.B(sc.Complete())})
	}
	// round 6 (round6.go): the reader handed out by the last Rest, for the ops that read only part of it
	var restReader io.Reader
	readSome := func(k int) string {
		buf := make([]byte, k)
		n, _ := io.ReadFull(restReader, buf) // stops at k bytes or at the end of the reader
		return string(buf[:n])
	}
	for i := 0; i < len(ops); i++ {
		op := ops[i]
		count := 0 // p<k>, q<k>: the decimal digits that follow the letter
		if op == 'p' || op == 'q' {
			for i+1 < len(ops) && ops[i+1] >= '0' && ops[i+1] <= '9' {
				i++
				count = min(count*10+int(ops[i]-'0'), 1<<24)
			}
		}
		switch op {
		case 'n':
			ok := sc.Next()
			*obs = append(*obs, held{pre: "n" + tr.B(ok) + ":", txt: sc.Text(), hasTxt: true, post: ":" + tr.B(sc.Complete())})
		case 'r':
			restReader = sc.Rest()
			rest, _ := io.ReadAll(restReader)
			*obs = append(*obs, held{pre: "r", txt: string(rest), hasTxt: true})
		case 'p': // Rest, and only the first <count> bytes are read from the reader it returns
			restReader = sc.Rest()
			*obs = append(*obs, held{pre: "p", txt: readSome(count), hasTxt: true})
		case 'q': // <count> more bytes from the reader the last Rest returned (nothing when there is none)
			if restReader == nil {
				*obs = append(*obs, held{pre: "q-"})
			} else {
				*obs = append(*obs, held{pre: "q", txt: readSome(count), hasTxt: true})
			}
		case 't': // Text and Complete, no call in between
			*obs = append(*obs, held{pre: "t", txt: sc.Text(), hasTxt: true, post: ":" + tr.B(sc.Complete())})
		case 'e':
			*obs = append(*obs, held{pre: errCode(sc.Err())})
		case 'z':
			if reset != nil {
				reset()
				restReader = nil // the scanner's buffer now reads the new input: the old reader is not used on
				*obs = append(*obs, held{pre: "z"})
			}
		case 's':
			toks := sc.Split()
			*obs = append(*obs, held{pre: "s", toks: toks, hasToks: true, txt: sc.Text(), hasTxt: true, post: ":" + tr.B(sc.Complete())})
		case 'a':
			each("a", 0, false)
		case 'b':
			each("b", 1, false)
		case 'c':
			each("c", 2, false)
		case 'x':
			each("x", 1, true)
		case 'y':
			each("y", 2, true)
		}
	}
}

func errCode(err error) string {
	switch err {
	case nil:
		return "e0"
	case io.EOF:
		return "e1"
	}
	return "e2"
}

var classAlpha = []byte{'a', ' ', '\n', '\\', '\'', '"'}
var wideAlpha = []byte{'a', ' ', '\t', '\n', '\\', '\'', '"', 0x80, 0, ';'}
var metaAlpha = []byte{'a', ' ', '\'', '"', '\\', '$', '*', '\n', '\t', '#', '~', '=', ';', '`', 0x80, '!', '{', '-', '%', '[', '?', '|', '&', '<', '>', '(', ')', 0xff}

// Every code point with the Unicode White_Space property, as UTF-8, plus the ASCII controls that
// unicode.IsSpace accepts and the two Latin-1 spaces as raw (invalid UTF-8) bytes.  Only space,
// tab and newline separate words for the package and for a POSIX shell; everything else here is
// an ordinary byte sequence.
var uniSpaces = []string{
	"\v", "\f", "\r", "\x85", "\xa0", "\u0085", "\u00a0", "\u1680",
	"\u2000", "\u2001", "\u2002", "\u2003", "\u2004", "\u2005", "\u2006", "\u2007", "\u2008", "\u2009", "\u200a",
	"\u2028", "\u2029", "\u202f", "\u205f", "\u3000",
	"\u180e", "\u200b", "\ufeff", "\x1c", "\x1d", "\x1e", "\x1f", // not White_Space, but treated as blank by some libraries
}

// fragmentations every session is run under
var allFrags = []string{"0", "1", "2", "3", "-1", "e0", "e1", "e2", "z0", "z1", "ez3"}
var bigFrags = []string{"0", "e0", "z0", "4096", "4095", "4097", "e4096", "1", "-1", "ez7"}

// allStrings calls f on every string over alpha of length 0..maxLen, shortest first (so that the
// first failing case reported is a minimal one).
func allStrings(alpha []byte, maxLen int, f func(s string)) {
	var rec func(cur []byte, n int)
	rec = func(cur []byte, n int) {
		if n == 0 {
			f(string(cur))
			return
		}
		for _, a := range alpha {
			rec(append(cur[:len(cur):len(cur)], a), n-1)
		}
	}
	for l := 0; l <= maxLen; l++ {
		rec(nil, l)
	}
}

func randString(r *tr.Rand, alpha []byte, maxLen int) string {
	n := r.Intn(maxLen + 1)
	b := make([]byte, n)
	for i := range b {
		if r.Chance(1, 10) {
			b[i] = byte(r.Intn(256))
		} else {
			b[i] = tr.Pick(r, alpha)
		}
	}
	return string(b)
}

// a long token: quoted or escaped text of about n bytes that the scanner has to carry over several
// refills of bufio's 4096-byte buffer
func bigToken(r *tr.Rand, n int) string {
	var sb strings.Builder
	switch r.Intn(4) {
	case 0: // one double-quoted stretch with escapes
		sb.WriteByte('"')
		for sb.Len() < n {
			switch r.Intn(12) {
			case 0:
				sb.WriteString("\\\"")
			case 1:
				sb.WriteString("\\\\")
			case 2:
				sb.WriteString("\\\n")
			case 3:
				sb.WriteString("\\x")
			case 4:
				sb.WriteString(" \t\n'")
			default:
				sb.WriteString("abcdefgh"[:1+r.Intn(8)])
			}
		}
		sb.WriteByte('"')
	case 1: // single quotes
		sb.WriteByte('\'')
		for sb.Len() < n {
			const body = "xy \\\"\n\t z"
			sb.WriteString(body[:1+r.Intn(len(body))])
		}
		sb.WriteByte('\'')
	case 2: // bare word with escapes and continuations
		for sb.Len() < n {
			switch r.Intn(8) {
			case 0:
				sb.WriteString("\\ ")
			case 1:
				sb.WriteString("\\\n")
			case 2:
				sb.WriteString("''")
			case 3:
				sb.WriteString("\"\"")
			default:
				sb.WriteString("w0123456"[:1+r.Intn(8)])
			}
		}
	default: // alternating quoting forms glued into one word
		for sb.Len() < n {
			sb.WriteString("'a b'\"c d\"e\\ f")
		}
	}
	return sb.String()
}

func special(s string) bool { return strings.ContainsAny(s, " \t\n\\'\"|&;<>()$`*?[#~=%") }

func main() {
	tr.Main("C15: every single byte, all strings to length 3 (quick) / 4 (thorough) over a 28-symbol metacharacter alphabet for Quote and Split(Join), random lists of random strings, Unicode white space, hold cases (every result of a series of Quote/Join calls is read only after the last call, some after a GC), concurrent workers that read their results a window of calls later; C16: every byte value alone, inside a word and inside each kind of quoting, all strings to length 3 (quick) / 4 (thorough) over a 10-symbol alphabet with both blanks, NUL and a non-ASCII byte, all strings over the six tokenizer classes to length 6 (quick) / 8 (thorough) for Split, every Unicode white-space code point as UTF-8, scanner sessions under eleven reader fragmentations (fixed and random chunks, a last chunk delivered together with io.EOF, empty reads) with Rest after every number of Next calls under every fragmentation, Err/Reset/Scanner.Split/Each sessions, random long inputs, inputs and single tokens longer than bufio's buffer. Both: scale streams (scale.go) -- lengths, run lengths, element counts and reader chunk sizes 2^k-1, 2^k, 2^k+1 for k = 6..13 and beyond 2*4096, smallest first; C15: plain filler plus ONE special character class (each of the 22 bytes Quote protects, alone or with a single quote) at the end, start, around the leading power-of-two block, everywhere, sparse, alternating, through Quote, Join, Split(Join) and hold cases, lists of 2^k short elements; C16: 34 kinds of runs (bare / single- / double-quoted text, quoted blanks, escape runs, quotes and escapes opening exactly at the boundary, unterminated runs, continuation runs, separator runs of one class, many short tokens) through Split and through scanner sessions (Rest right after and right before the long token, full scan with Err, Scanner.Split, Each) under chunk sizes tied to the run length with the e and z flags. Round 4 (round4.go): K lines = histories of Quote / Join / Split(Join) / Split calls in ONE process with every result read after the last call -- exhaustive two-call histories over small near-equal (C15) or malformed (C16: all strings to length 2 over the six classes) strings, the equal-length collision pairs of corpus/common/hash-collisions.tsv (FNV-1a, FNV-1, CRC-32, 31-polynomial, djb2, Adler-32) quoted, joined and split one right after the other in both orders, with a third string in between, bare and with a common suffix that makes them need quotation, random histories over near-equal strings (one byte changed, two swapped, reversed, one more or less), a 300..4097-byte (thorough 8193) call before and between ordinary ones; every length 1..300 (thorough 600): C15 filler plus one special character of each of the 22 classes (last and one rotating position, with a single quote), element counts and joined lengths; C16 a token holding exactly L bytes (bare, double-quoted, single-quoted, half bare and half quoted) when each of 44 kinds of event arrives (the two-byte append after a backslash inside double quotes, escapes, continuations, quotes opening or closing, separators, end of input), with more bytes of the same token after it, through Split and a session under a rotating fragmentation, and seven of the events at every source offset 0..300; Each whose callback panics (recovered) at the first / second token, the scanner used on; Round 5 (round5.go, C16): M lines = ONE scanner on two inputs - NewScanner over the first, a session, Reset onto the second, Text / Complete / Err right after the Reset, a session from the whole op set - for every pair of 17 reader kinds (strings.Reader, bytes.Reader, bytes.Buffer, bufio.Reader of three sizes, a one-byte ByteReader, a reader returning data with io.EOF, MultiReader, LimitReader, seven fragmentations) at 42 points of a first session (before any Next, between tokens, past the end, after Rest, after Scanner.Split, after Each to the end / stopped / panicked, inside an unterminated quotation), after NewScanner(nil), after a reader that fails after k bytes, with inputs longer than one and two bufio buffers, and random combinations: the second session must be that of a fresh scanner on the second input; inside every Each callback Text() must be the token passed to it; 2-, 3- and 4-byte UTF-8 sequences, truncated, overlong and surrogate forms at the ends and in the middle of filler. Round 6 (round6.go, C16): Rest more than once -- session ops p<k> (Rest, only the first k bytes of its reader are read), q<k> (k more bytes from that reader), t (Text and Complete with no call in between): after every number of Next calls on ten inputs a first Rest read for k = 0..len+1 bytes, then nothing / Next / Err / Text / Scanner.Split / Each / more bytes / another partial Rest, then Rest again (exactly the bytes still unread), then Next / Err / Text / a third Rest; all sessions of up to three (thorough four) ops over the enlarged op set; the same before and after a Reset onto a second input for every pair of reader kinds, after NewScanner(nil) and after a failing reader; prefixes ending next to the 4096- and 8192-byte marks of inputs longer than one and two bufio buffers; random sessions. A case is non-trivial when its input contains a quoting character, separator or metacharacter; distinct = distinct input lines.",
		exec, func(g *tr.G) {
			switch g.Prop {
			case "C15":
				for b := 0; b < 256; b++ {
					s := string([]byte{byte(b)})
					g.Emit("Q "+hx(s), special(s), "single-byte")
					g.Emit("R "+hxList([]string{s}), special(s))
				}
				g.Emit("J .", false, "empty-list")
				g.Emit("R .", false, "empty-list")
				g.Emit("H .", false, "empty-list")
				g.Emit("R "+hxList([]string{""}), true, "empty-string")
				g.Emit("R "+hxList([]string{"", ""}), true, "empty-string")
				g.Emit("J "+hxList([]string{"", "", ""}), true, "empty-string")
				g.Emit("H "+hxList([]string{"", "a b", "", "'"}), true, "empty-string")
				// round 4: short histories of calls in one line, the hash-collision pairs one right after
				// the other (round4.go)
				kSmall(g)
				kCollisions(g)
				for _, u := range uniSpaces {
					for _, s := range []string{u, "a" + u + "b", u + "a", "a" + u, "a b" + u, u + "'"} {
						g.Emit("Q "+hx(s), true, "unicode-space")
						g.Emit("R "+hxList([]string{s, u}), true, "unicode-space")
					}
				}
				allStrings(metaAlpha, g.Scale(3, 4), func(s string) {
					g.Emit("Q "+hx(s), special(s), "exhaustive-meta")
					parts := strings.Split(s, "a")
					g.Emit("J "+hxList(parts), special(s))
					g.Emit("R "+hxList(parts), special(s))
				})
				// hold: all short lists over a small alphabet of strings that take each path of
				// Quote (copied unchanged, wrapped, escaped quote, empty), then random ones
				holdAlpha := []string{"", "a", "a b", "'", "it's", "x;y", "~", "plain", "a'b c"}
				var rec func(cur []string, n int)
				rec = func(cur []string, n int) {
					if n == 0 {
						g.Emit("H "+hxList(cur), true, "hold")
						return
					}
					for _, a := range holdAlpha {
						rec(append(cur[:len(cur):len(cur)], a), n-1)
					}
				}
				for l := 1; l <= g.Scale(3, 4); l++ {
					rec(nil, l)
				}
				for i := 0; i < g.Scale(2000, 60000); i++ {
					n := 1 + g.R.Intn(12)
					ss := make([]string, n)
					for j := range ss {
						ss[j] = randString(g.R, metaAlpha, 1+g.R.Intn(40))
					}
					g.Emit("H "+hxList(ss), true, "hold-random")
				}
				// round 4 (round4.go): histories of calls in one line (collision pairs, near-equal and
				// repeated arguments, a much larger call in between), every length 1..300, UTF-8 sequences
				kHistories(g)
				eqC15(g)
				utf8C15(g)
				// sizes around the powers of two, single-class strings (scale.go); before the long random
				// cases so that the first failing input reported is a structured one
				scaleC15(g)
				// long arguments: results larger than any small-buffer threshold, still held
				for i := 0; i < g.Scale(60, 1500); i++ {
					n := 2 + g.R.Intn(4)
					ss := make([]string, n)
					for j := range ss {
						ss[j] = randString(g.R, metaAlpha, 100+g.R.Intn(g.Scale(3000, 6000)))
					}
					g.Emit("H "+hxList(ss), true, "hold-long")
				}
				for i := 0; i < g.Scale(20000, 400000); i++ {
					n := g.R.Intn(5)
					ss := make([]string, n)
					for j := range ss {
						ss[j] = randString(g.R, metaAlpha, 12)
					}
					g.Emit("R "+hxList(ss), true, "random-list")
					g.Emit("J "+hxList(ss), true)
					if n > 0 {
						g.Emit("Q "+hx(ss[0]), special(ss[0]))
					}
				}
				// pooled buffers under concurrency: every worker keeps the results of a window of
				// calls and reads them only when the window is full; they must be the sequential ones
				var wg sync.WaitGroup
				var mu sync.Mutex
				for w := 0; w < 8; w++ {
					wg.Add(1)
					r := tr.NewRand(g.Seed*977 + uint64(w))
					w := w
					go func() {
						defer wg.Done()
						const window = 64
						type pend struct {
							in, out string
							raw     bool // out is the returned string itself (held), not a finished trace output
						}
						for i := 0; i < g.Scale(8, 300); i++ {
							var ps []pend
							for j := 0; j < window; j++ {
								ss := []string{randString(r, metaAlpha, 20), randString(r, metaAlpha, 3)}
								if r.Chance(1, 4) {
									// the two strings of a hash-collision pair (round4.go), one per worker parity
									p := tr.Pick(r, collisionPairs)
									ss[0] = p[(w+j)%2] + tr.Pick(r, collSuffixes)
								}
								switch j % 3 {
								case 0:
									in := "Q " + hx(ss[0])
									var out string
									if p := tr.Catch(func() { out = shell.Quote(ss[0]) }); p != "" {
										ps = append(ps, pend{in, "PANIC", false})
									} else {
										ps = append(ps, pend{in, out, true})
									}
								case 1:
									in := "J " + hxList(ss)
									var out string
									if p := tr.Catch(func() { out = shell.Join(ss) }); p != "" {
										ps = append(ps, pend{in, "PANIC", false})
									} else {
										ps = append(ps, pend{in, out, true})
									}
								default:
									in := "R " + hxList(ss)
									ps = append(ps, pend{in, exec(in), false})
								}
								if j%16 == 5 {
									runtime.Gosched()
								}
							}
							mu.Lock()
							for _, p := range ps {
								if p.raw {
									g.W.Case(p.in, hx(p.out), true, "concurrent-held")
								} else {
									g.W.Case(p.in, p.out, true, "concurrent")
								}
							}
							mu.Unlock()
						}
					}()
				}
				wg.Wait()
			case "C16":
				// every byte value alone and inside a word: the whole byte->class map is exercised
				for b := 0; b < 256; b++ {
					c := string([]byte{byte(b)})
					g.Emit("S "+hx(c), special(c), "every-byte")
					g.Emit("S "+hx("a"+c+"b"), special(c), "every-byte")
					g.Emit("S "+hx("\""+c+"\" '"+c+"' \\"+c), true, "every-byte")
				}
				// round 4: several Splits in one line, each leaving the pooled scanner to the next (round4.go)
				kSmall(g)
				kCollisions(g)
				// Unicode white space is not a separator
				for _, u := range uniSpaces {
					for _, s := range []string{u, "a" + u + "b", u + "a", "a" + u, " " + u + " ", "a" + u + " b", u + u, "a b" + u + "c d", "\"" + u + "\"", "\\" + u} {
						g.Emit("S "+hx(s), true, "unicode-space")
					}
					g.Emit("N 0 "+hx("a"+u+"b "+u)+" nnn", true, "unicode-space")
					g.Emit("N 1 "+hx("a"+u+"b "+u)+" nrn", true, "unicode-space")
				}
				allStrings(wideAlpha, g.Scale(3, 4), func(s string) {
					g.Emit("S "+hx(s), special(s), "exhaustive-wide")
				})
				allStrings(classAlpha, g.Scale(6, 8), func(s string) {
					g.Emit("S "+hx(s), special(s), "exhaustive-class")
				})
				sess := func(s string, frags []string) {
					nn := len(s)/2 + 3
					for _, k := range frags {
						// full scan, then extra Next calls past the end
						g.Emit("N "+k+" "+hx(s)+" "+strings.Repeat("n", nn), special(s), "session")
						// Rest after every number of Next calls, under this fragmentation
						for i := 0; i <= len(s)/2+1 && i < 6; i++ {
							g.Emit("N "+k+" "+hx(s)+" "+strings.Repeat("n", i)+"rnn", special(s), "rest")
						}
					}
				}
				pickFrags := func(n int) []string {
					out := make([]string, n)
					for i := range out {
						out[i] = tr.Pick(g.R, allFrags)
					}
					return out
				}
				allStrings(classAlpha, g.Scale(3, 4), func(s string) { sess(s, allFrags) })
				// one length further, three fragmentations per string
				allStrings(classAlpha, g.Scale(4, 5), func(s string) {
					if len(s) == g.Scale(4, 5) {
						sess(s, pickFrags(3))
					}
				})
				// Err, Reset, Scanner.Split and Each in every position of short sessions
				opAlpha := []byte("nresabcz")
				allStrings(classAlpha[:5], 3, func(s string) {
					if len(s) < 2 {
						return
					}
					allStrings(opAlpha, 2, func(ops string) {
						if ops == "" {
							return
						}
						g.Emit("N "+tr.Pick(g.R, allFrags)+" "+hx(s+" b")+" "+ops+"ne", special(s), "ops")
					})
				})
				// round 6 (round6.go): Rest more than once -- only part of the first reader is read, then
				// Next / Err / Text, then Rest again for exactly the bytes still unread
				genRestTwice(g)
				for i := 0; i < g.Scale(4000, 80000); i++ {
					s := randString(g.R, classAlpha, 24)
					nops := 1 + g.R.Intn(8)
					ops := make([]byte, nops)
					for j := range ops {
						if g.R.Chance(1, 2) {
							ops[j] = 'n'
						} else {
							ops[j] = tr.Pick(g.R, opAlpha)
						}
					}
					g.Emit("N "+tr.Pick(g.R, allFrags)+" "+hx(s)+" "+string(ops), true, "ops-random")
				}
				for i := 0; i < g.Scale(3000, 100000); i++ {
					s := randString(g.R, classAlpha, 40)
					g.Emit("S "+hx(s), true, "random-long")
					if i%5 == 0 {
						sess(s, pickFrags(2))
					}
				}
				// round 5 (round5.go): one scanner, two inputs -- Reset onto a second input through every
				// kind of reader at every point of a first session, then the whole op set
				genReuse(g)
				// round 4 (round4.go): several Splits in one line (the pooled scanner as the call before
				// left it), every token length and source offset 0..300 before every kind of event
				kHistories(g)
				eqC16(g)
				utf8C16(g)
				// runs, tokens and token counts around the powers of two (scale.go); before the long random
				// inputs so that the first failing input reported is a structured one
				scaleC16(g)
				// inputs longer than bufio's 4096-byte buffer: Split, a full scan and Rest at several
				// depths under the fragmentations that align with, straddle or ignore the buffer size
				for i := 0; i < g.Scale(6, 150); i++ {
					var sb strings.Builder
					for sb.Len() < 9000 {
						sb.WriteString(randString(g.R, classAlpha, 30))
					}
					s := sb.String()
					g.Emit("S "+hx(s), true, "over-buffer")
					for _, k := range bigFrags {
						depth := g.R.Intn(40)
						if g.R.Chance(1, 3) {
							depth = 200 + g.R.Intn(600)
						}
						g.Emit("N "+k+" "+hx(s)+" "+strings.Repeat("n", depth)+"rn", true, "over-buffer-rest")
					}
					g.Emit("N "+tr.Pick(g.R, bigFrags)+" "+hx(s)+" nnnsne", true, "over-buffer")
				}
				// words separated by runs of one to three separators, longer than the buffer: Rest right
				// after the first few tokens (most of a refill still buffered), deep inside, and around
				// the places where a refill happens -- what Rest returns must not depend on how much the
				// scanner has read ahead
				for i := 0; i < g.Scale(3, 20); i++ {
					var sb strings.Builder
					nw, atRefill := 0, 0
					for sb.Len() < 6000 {
						if sb.Len() < 4096 {
							atRefill = nw // the word that straddles (or ends at) bufio's first refill
						}
						sb.WriteString("w" + strconv.Itoa(nw))
						nw++
						for k := 1 + g.R.Intn(3); k > 0; k-- {
							sb.WriteByte(" \t\n "[g.R.Intn(4)])
						}
					}
					s := sb.String()
					for j, k := range bigFrags {
						depths := []int{0, 1, 2, 3, 5, 8}
						if g.Thorough() || j%4 == i%4 {
							depths = append(depths, atRefill-1, atRefill, atRefill+1, atRefill+2, nw)
						}
						for _, depth := range depths {
							g.Emit("N "+k+" "+hx(s)+" "+strings.Repeat("n", depth)+"rn", true, "over-buffer-blanks")
						}
					}
				}
				// single tokens that span several refills, followed by more input; Rest right after
				// (the model and the reference build a token by appending at the end of a list, so their
				// cost is quadratic in the token length: sizes and counts are kept moderate)
				for i := 0; i < g.Scale(6, 40); i++ {
					tok := bigToken(g.R, 4200+g.R.Intn(g.Scale(4000, 9000)))
					pre := randString(g.R, classAlpha, 6)
					if i%2 == 0 {
						pre = "w" + strconv.Itoa(i) // a random prefix often leaves a quote open and the token is scanned in another state
					}
					s := pre + " " + tok + "  " + randString(g.R, classAlpha, 20)
					g.Emit("S "+hx(s), true, "big-token")
					for j, k := range bigFrags {
						if g.Thorough() || j%3 == i%3 {
							g.Emit("N "+k+" "+hx(s)+" "+strings.Repeat("n", 1+g.R.Intn(4))+"rn", true, "big-token")
						}
					}
				}
			}
		})
}
