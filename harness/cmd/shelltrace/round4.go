// Round-4 streams: equalities, state carried from one call to the next, conditions on values.
//
// The scale streams (scale.go) aim at thresholds: sizes 2^k-1, 2^k, 2^k+1.  A path that is taken at
// exactly ONE length -- a token that holds exactly 63 bytes when a two-byte append arrives, a string
// of exactly 64 bytes -- falls between them unless the event that needs the length happens to sit
// there.  Here every length 0..300 (thorough: 0..600) is combined with every kind of event:
//
//   - C16 (eqC16): a token that already holds exactly L bytes (bare, inside double quotes, inside
//     single quotes, or half bare and half quoted) when each kind of escape, quote opening or closing,
//     continuation, separator or end of input arrives, always followed by more bytes of the same
//     token; and the same events at every source offset 0..300 of the input;
//   - C15 (eqC15): Quote / Split(Join) of L bytes of filler with one special character of each of the
//     22 classes, element counts 0..300, joined lengths 3..300.
//
// K lines (main.go) are histories of calls in one process, every result read after the last call:
// what one call leaves behind (a pooled buffer or scanner, a table of recent results) for the next
// shows in a line that replays on its own.  Their arguments are equal, near-equal (one byte
// changed, two bytes swapped, one byte more or less), collide under the usual 32-bit string hashes
// (collisionPairs, with and without a common suffix that makes them need quotation), are much
// larger or smaller than their neighbour's, or are malformed (open quotes, dangling backslash).
package main

import (
	"strconv"
	"strings"

	"verif/harness/internal/tr"
)

// Equal-length (and a few unequal-length) pairs of different strings with the same 32-bit hash:
// a copy of /verif/corpus/common/hash-collisions.tsv (FNV-1a, FNV-1, CRC-32, the 31-polynomial,
// djb2, Adler-32).  All of these hashes consume their input from left to right with a state no
// wider than the result, so a pair extended by a common SUFFIX still collides.
var collisionPairs = [][2]string{
	{"line 0335786", "line 1074240"}, {"line 0335787", "line 1074241"}, // FNV-1a
	{"line 0112789", "line 0349192"}, {"line 0112788", "line 0349193"}, // FNV-1
	{"--tag=2daa2057", "--tag=3b323a2d"}, {"--tag=bf22885e", "--tag=bc7ff02d"}, // FNV-1a
	{"--tag=ed88ee72", "--tag=0b90e457"}, {"--tag=4a9d0d2c", "--tag=067899bd"}, // FNV-1
	{"--tag=8755d764", "--tag=4170cb18"}, {"--tag=b4538002", "--tag=ac67906e"}, // CRC-32
	{"--tag=0cb1f505", "--tag=912208a7"}, {"--tag=0ed8f52b", "--tag=934908cd"}, // 31-polynomial
	{"--tag=57c7e8dd", "--tag=ae345e04"}, {"--tag=68fea7eb", "--tag=bf6b1d12"}, // djb2
	{"k0695b", "k418c8"}, {"k0695c", "k418c9"}, // FNV-1a
	{"k278eb", "k64938"}, {"k278ec", "k64939"}, // FNV-1
	{"aca", "bab"}, {"bca", "cab"}, {"cca", "dab"}, // Adler-32
	{"liquid", "costarring"}, {"declinate", "macallums"}, {"altarage", "zinke"}, // FNV-1a, unequal lengths
	{"\tx[462789] = y", "\tx[679192] = y"}, // FNV-1a
	{"Aa", "BB"}, {"AaAa", "BBBB"}, {"AaBB", "BBAa"}, // 31-polynomial
}

// common suffixes: none, and four that make both strings need quotation (each in its own way)
var collSuffixes = []string{"", " x", "=", "'", "'s $x"}

// histories over the list [a, c, b, c] (a, b the colliding pair, c a third string):
// a = 0, c = 1, b = 2
var collHistories = []string{
	// Quote of one right after the other, both orders, with a third string in between, repeated
	"q0,q2", "q2,q0", "q0,q1,q2", "q2,q1,q0", "q0,q2,q0,q2", "q0,q0,q2,q2", "q1,q0,q2,q1",
	// Join of one-element lists, of lists that differ in the colliding element only
	"j0.1,j2.1", "j2.1,j0.1", "j0.1,j1.1,j2.1", "j0.2,j2.2", "j2.2,j0.2", "j0.3,j1.3",
	// Quote and Join mixed
	"q0,j2.1", "j0.1,q2", "q0,j0.1,q2,j2.1", "j0.2,q2,q0",
	// through the scanner: Split(Join) in sequence, Split of the strings themselves
	"r0.1,r2.1", "r2.1,r0.1", "r0.2,r2.2", "q0,r2.1,q2,r0.1",
	"s0,s2", "s2,s0", "s0,s1,s2", "s0,s2,s0",
}

func hasScan(h string) bool { return strings.ContainsAny(h, "rs") }

// kCollisions: the collision pairs through the histories above
func kCollisions(g *tr.G) {
	for pi, p := range collisionPairs {
		for si, suf := range collSuffixes {
			a, b := p[0]+suf, p[1]+suf
			c := []string{"x y", "--tag=00000000", "", "it's"}[(pi+si)%4]
			list := hxList([]string{a, c, b, c})
			for _, h := range collHistories {
				if g.Prop == "C16" && !hasScan(h) {
					continue
				}
				g.Emit("K "+list+" "+h, true, "k-collision")
			}
			if g.Prop == "C15" {
				// and as a held-result line: Quote of each, Join of each prefix
				g.Emit("H "+hxList([]string{a, b}), true, "k-collision")
				g.Emit("H "+hxList([]string{b, c, a}), true, "k-collision")
			}
		}
	}
}

// nearEqual: variants of s that a weak comparison takes for s
func nearEqual(r *tr.Rand, s string) string {
	b := []byte(s)
	switch r.Intn(8) {
	case 0: // the same string
	case 1: // one byte changed
		if len(b) > 0 {
			b[r.Intn(len(b))] ^= byte(1 << r.Intn(8))
		}
	case 2: // two bytes swapped (same length, same multiset of bytes, same sum)
		if len(b) > 1 {
			i, j := r.Intn(len(b)), r.Intn(len(b))
			b[i], b[j] = b[j], b[i]
		}
	case 3: // reversed
		for i, j := 0, len(b)-1; i < j; i, j = i+1, j-1 {
			b[i], b[j] = b[j], b[i]
		}
	case 4: // one byte less
		if len(b) > 0 {
			b = b[:len(b)-1]
		}
	case 5: // one byte more
		b = append(b, tr.Pick(r, metaAlpha))
	case 6: // first byte dropped
		if len(b) > 0 {
			b = b[1:]
		}
	default: // one byte moved up and its neighbour down (same length, same sum)
		if len(b) > 1 {
			i := r.Intn(len(b) - 1)
			if b[i] < 255 && b[i+1] > 0 {
				b[i]++
				b[i+1]--
			}
		}
	}
	return string(b)
}

func randHistory(r *tr.Rand, kinds string, nstr, nops int) string {
	ops := make([]string, nops)
	for i := range ops {
		k := kinds[r.Intn(len(kinds))]
		ix := r.Intn(nstr)
		if i > 0 && r.Chance(1, 4) {
			ops[i] = ops[i-1] // the very same call again
			continue
		}
		switch k {
		case 'j', 'r':
			ops[i] = string(k) + strconv.Itoa(ix) + "." + strconv.Itoa(r.Intn(nstr-ix+1))
		default:
			ops[i] = string(k) + strconv.Itoa(ix)
		}
	}
	return strings.Join(ops, ",")
}

// kSmall: exhaustive short histories over small near-equal (C15) or malformed (C16) strings.  Emitted
// early: a change that makes one call depend on the one before it is then first reported on a line
// that replays on its own, not on whichever single-call line happened to follow another.
func kSmall(g *tr.G) {
	if g.Prop == "C15" {
		small := []string{"", "a", "a b", "b a", "a  b", "'", "a'b", "b'a", "a=b"}
		ops1 := []string{"q0", "q1", "j0.1", "j1.1", "j0.2", "r0.2", "r1.1"}
		for _, x := range small {
			for _, y := range small {
				l := hxList([]string{x, y})
				for _, o1 := range ops1 {
					for _, o2 := range ops1 {
						g.Emit("K "+l+" "+o1+","+o2, true, "k-small")
					}
				}
				g.Emit("K "+l+" q0,q1,q0,j0.2,j1.1,q1", true, "k-small")
			}
		}
	} else {
		// every pair of strings to length 2 over the tokenizer's classes, Split one after the other:
		// the first leaves the pooled scanner in every state it can be left in
		var strs []string
		allStrings(classAlpha, 2, func(s string) { strs = append(strs, s) })
		for _, x := range strs {
			for _, y := range strs {
				g.Emit("K "+hxList([]string{x, y})+" s0,s1", true, "k-small")
			}
		}
		for _, x := range strs {
			g.Emit("K "+hxList([]string{x, "a 'b c' \"d\\\"e\" f\\ g"})+" s1,s0,s1,s0,s0,s1", true, "k-small")
		}
	}
}

// kHistories: random histories over random near-equal strings, a much larger call before or after
// an ordinary one, malformed input before an ordinary one
func kHistories(g *tr.G) {
	kinds := "qqjr"
	alpha := metaAlpha
	if g.Prop == "C16" {
		kinds = "ssrq"
		alpha = classAlpha
	}
	for i := 0; i < g.Scale(2500, 60000); i++ {
		n := 2 + g.R.Intn(3)
		ss := make([]string, n)
		ss[0] = randString(g.R, alpha, 1+g.R.Intn(24))
		for j := 1; j < n; j++ {
			ss[j] = nearEqual(g.R, ss[g.R.Intn(j)])
		}
		g.Emit("K "+hxList(ss)+" "+randHistory(g.R, kinds, n, 2+g.R.Intn(7)), true, "k-random")
	}
	// a much larger call before, between and after ordinary ones: pooled buffers and scanners that
	// have grown, results of very different sizes next to each other
	for bi, n := range []int{300, 1025, 4097, 8193} {
		if n > 4097 && !g.Thorough() {
			continue
		}
		if g.Prop == "C15" {
			bigs := []string{classString(n, ' ', posLast), classString(n, '\'', posMid), classString(n, ';', posFirst) + "'"}
			for ci, big := range bigs {
				small := []string{"a b", "it's", "", "x;y'"}[(bi+ci)%4]
				l := hxList([]string{big, small, big[:len(big)-1] + "?"})
				for _, h := range []string{"q0,q1,q0", "q1,q0,q1", "j0.2,q1,j1.1", "q0,q2,q0", "r0.1,r1.1,r0.2", "j0.3,q1,q0,j1.2"} {
					g.Emit("K "+l+" "+h, true, "k-big")
				}
			}
		} else {
			bigs := []string{"'" + fill(n, 3) + "'", "\"" + fill(n, 5), "'" + fill(n, 7), fill(n, 9) + "\\", rep("a ", n)}
			for ci, big := range bigs {
				small := []string{"a 'b c' d", "\"x\\y\"z w", "p\\ q r", "''"}[(bi+ci)%4]
				l := hxList([]string{big, small})
				for _, h := range []string{"s0,s1", "s1,s0,s1", "s0,s0,s1"} {
					g.Emit("K "+l+" "+h, true, "k-big")
				}
			}
		}
	}
}

// ---------------------------------------------------------------- C16: equalities

// an event that arrives when the token holds exactly L bytes: source = open + <L filler bytes> + ev +
// tail (mixed: the first half of the filler outside the quotes).  last: the input ends inside it.
type evKind struct {
	name, open, ev, tail string
	last                 bool
}

var evKinds = []evKind{
	// inside double quotes: the two-byte append (backslash kept), the one-byte escapes, continuation
	{"dq-xpush", "\"", "\\x", "yz\"", false},
	{"dq-xpush-sq", "\"", "\\'", "yz\"", false},
	{"dq-xpush-sp", "\"", "\\ ", "yz\"", false},
	{"dq-xpush-twice", "\"", "\\x\\y", "zw\"", false},
	{"dq-xpush-close", "\"", "\\x\"", "", false},
	{"dq-xpush-one", "\"", "\\x", "y\"", false},
	{"dq-esc-dq", "\"", "\\\"", "yz\"", false},
	{"dq-esc-bsl", "\"", "\\\\", "yz\"", false},
	{"dq-cont", "\"", "\\\n", "yz\"", false},
	{"dq-sq", "\"", "'", "yz\"", false},
	{"dq-blank", "\"", " \t\n", "yz\"", false},
	// double quotes closing at L, and what follows in the same word
	{"dq-reopen", "\"", "\"\"", "yz\"", false},
	{"dq-to-sq", "\"", "\"'", "y z'", false},
	{"dq-to-bare", "\"", "\"", "yz", false},
	{"dq-to-esc", "\"", "\"\\ ", "yz", false},
	{"dq-word-end", "\"", "\" ", "yz", false},
	{"dq-xpush-eof", "\"", "\\x", "y", true},
	{"dq-bsl-eof", "\"", "\\", "", true},
	// bare word: escapes, continuation, quotes opening at L
	{"bare-esc-sp", "", "\\ ", "yz", false},
	{"bare-esc-x", "", "\\x", "yz", false},
	{"bare-esc-sq", "", "\\'", "yz", false},
	{"bare-esc-dq", "", "\\\"", "yz", false},
	{"bare-esc-bsl", "", "\\\\", "yz", false},
	{"bare-cont", "", "\\\n", "yz", false},
	{"bare-open-sq", "", "'", "y z'w", false},
	{"bare-open-dq", "", "\"", "y z\"w", false},
	{"bare-open-dq-xpush", "", "\"\\x", "yz\"", false},
	{"bare-open-dq-esc", "", "\"\\\"", "yz\"", false},
	{"bare-empty-sq", "", "''", "yz", false},
	{"bare-empty-dq", "", "\"\"", "yz", false},
	{"bare-end-sp", "", " ", "yz", false},
	{"bare-end-nl", "", "\n", "yz", false},
	{"bare-end-tab", "", "\t\t", "yz", false},
	{"bare-dangling", "", "\\", "", true},
	{"bare-eof", "", "", "", true},
	// inside single quotes: everything is literal but the quote
	{"sq-bsl", "'", "\\", "yz'", false},
	{"sq-bsl-x", "'", "\\x", "yz'", false},
	{"sq-dq", "'", "\"", "yz'", false},
	{"sq-reopen", "'", "''", "yz'", false},
	{"sq-to-dq-xpush", "'", "'\"\\x", "yz\"", false},
	{"sq-to-esc", "'", "'\\ ", "yz", false},
	{"sq-to-bare", "'", "'", "yz", false},
	{"sq-word-end", "'", "' ", "yz", false},
	{"sq-unterm", "'", "x", "", true},
}

func (k evKind) src(L int, mixed bool) string {
	if mixed && k.open != "" {
		h := L / 2
		return fill(h, L+1) + k.open + fill(L-h, L+1+h) + k.ev + k.tail
	}
	return k.open + fill(L, L+1) + k.ev + k.tail
}

func evByName(name string) evKind {
	for _, k := range evKinds {
		if k.name == name {
			return k
		}
	}
	panic("no event kind " + name)
}

func eqMax(g *tr.G) int { return g.Scale(300, 600) }

func eqC16(g *tr.G) {
	rot := int(g.Seed % 11)
	for L := 0; L <= eqMax(g); L++ {
		for ki, k := range evKinds {
			// what precedes the token: nothing, a short token, a token longer than the one under test
			// (the token buffer has held more), blanks only
			pre, nt := "", 1
			switch (L + ki) % 4 {
			case 1:
				pre, nt = "p0 ", 2
			case 2:
				pre, nt = fill(L+70, 2)+"\n", 2
			case 3:
				pre = " \t"
			}
			post := " q1 'q 2'\n"
			if k.last {
				post = ""
			}
			g.W.Count("eq-kind-"+k.name, 1)
			s := pre + k.src(L, false) + post
			hs := hx(s)
			g.Emit("S "+hs, true, "eq-split")
			if k.open != "" && L >= 2 && (g.Thorough() || (L+ki)%3 == 0 || L >= 60 && L <= 68) {
				g.Emit("S "+hx(pre+k.src(L, true)+post), true, "eq-split-mixed")
			}
			// a session under a rotating fragmentation: Rest right after the token / the whole scan
			// with Err / Rest before the token / Each stopped (or its callback panicking) at it
			f := allFrags[(L+ki+rot)%len(allFrags)]
			nx := strings.Repeat("n", nt)
			var ops string
			switch (L/4 + ki) % 5 {
			case 0, 1:
				ops = nx + "rn"
			case 2:
				ops = nx + "nnne"
			case 3:
				ops = nx[1:] + "rnr"
			default:
				ops = nx[1:] + []string{"bnrn", "xnrn", "cnne", "ynne"}[(L+ki)%4]
			}
			if g.Thorough() || (L+ki)%3 == 0 || L <= 70 {
				g.Emit("N "+f+" "+hs+" "+ops, true, "eq-session", "eq-frag-"+f)
			}
		}
	}
	// the same events at every source offset: P bytes of blanks or of short tokens in front of a
	// short token that has the event
	offs := []string{"dq-xpush", "dq-cont", "bare-esc-sp", "dq-esc-dq", "sq-bsl", "sq-to-dq-xpush", "bare-open-sq"}
	for P := 0; P <= eqMax(g); P++ {
		for oi, name := range offs {
			k := evByName(name)
			var pre string
			switch (P + oi) % 3 {
			case 0:
				pre = rep(" \n\t", P)
			case 1:
				pre = rep("ab cd\n", P)
				if P > 0 && !strings.ContainsAny(pre[P-1:], " \n") {
					pre = pre[:P-1] + " " // the token under test starts at offset P
				}
			default:
				pre = rep(" ", P)
			}
			s := pre + k.src(3, false) + " q1\n"
			g.Emit("S "+hx(s), true, "eq-offset")
			if (P+oi)%2 == 0 || g.Thorough() {
				f := allFrags[(P+oi+rot)%len(allFrags)]
				g.Emit("N "+f+" "+hx(s)+" "+strings.Repeat("n", (P+oi)%3)+"rn", true, "eq-offset")
			}
		}
	}
}

// multi-byte UTF-8 sequences (2, 3, 4 bytes), truncated, overlong and surrogate forms: bytes like
// any other for the package
var utf8Seqs = []string{"\u00e9", "\u20ac", "\U0001F600", "\xc3", "\xe2\x82", "\xf0\x9f\x98", "\xc0\xaf", "\xed\xa0\x80", "\xf4\x90\x80\x80", "\xef\xbf\xbd", "\xff\xfe"}

func utf8C16(g *tr.G) {
	for _, n := range []int{0, 9, 61, 70} {
		for _, u := range utf8Seqs {
			for pi, body := range []string{u + fill(n, 1), fill(n/2, 1) + u + fill(n-n/2, 2), fill(n, 3) + u, u + fill(n, 4) + u} {
				for _, s := range []string{body, "'" + body + "'", "\"" + body + "\"", "\"" + body + "\\" + u + "\"", body + " " + u + "\\" + u} {
					g.Emit("S "+hx(s), true, "utf8")
				}
				g.Emit("N "+allFrags[(pi+n)%len(allFrags)]+" "+hx(body+" '"+u+" "+u+"' z")+" nrn", true, "utf8")
			}
		}
	}
}

// ---------------------------------------------------------------- C15: equalities

func eqC15(g *tr.G) {
	elems := []string{"", "a", "a b", "'", "it's", "x;y", "~"}
	for L := 1; L <= eqMax(g); L++ {
		g.Emit("Q "+hx(fill(L, L)), false, "eq-plain")
		for ci, c := range quoteSpecials {
			g.Emit("Q "+hx(classString(L, c, posLast)), true, "eq-quote")
			if L >= 2 {
				p := 1 + (ci+L)%(nPos-1)
				g.Emit("Q "+hx(classString(L, c, p)), true, "eq-quote", "eq-pos-"+posName[p])
				if c != '\'' {
					// one class plus the single quote
					b := []byte(classString(L, c, []int{posLast, posFirst, posMid}[(ci+L)%3]))
					at := (ci*7 + L) % L
					if b[at] == c {
						at = (at + 1) % L
					}
					b[at] = '\''
					g.Emit("Q "+hx(string(b)), true, "eq-quote-pair")
				}
			}
			if c == ' ' || c == '\'' || ci == L%len(quoteSpecials) {
				g.Emit("R "+hxList([]string{classString(L, c, []int{posLast, posFirst, posAll}[L%3])}), true, "eq-roundtrip")
			}
		}
		// two near-equal strings of this length one right after the other, and again
		a := classString(L, quoteSpecials[L%len(quoteSpecials)], posLast)
		b := []byte(a)
		b[0] ^= 1
		g.Emit("K "+hxList([]string{a, string(b)})+" q0,q1,q0,j0.2", true, "eq-history")
		// the JOINED text has this length
		if L >= 3 {
			h := L / 2
			g.Emit("J "+hxList([]string{classString(h, ' ', posLast), classString(L-h-1, ';', posFirst)}), true, "eq-join-total")
			g.Emit("R "+hxList([]string{fill(h, 1), classString(L-h-1, '\t', posMid)}), true, "eq-join-total")
		}
		// this many elements
		one := elems[L%len(elems)]
		ss := make([]string, L)
		for i := range ss {
			ss[i] = one
		}
		g.Emit("R "+hxList(ss), true, "eq-count")
		for i := range ss {
			ss[i] = elems[(i+L)%len(elems)]
		}
		g.Emit("R "+hxList(ss), true, "eq-count")
		g.Emit("J "+hxList(ss), true, "eq-count")
	}
}

func utf8C15(g *tr.G) {
	for _, n := range []int{0, 9, 61, 70} {
		for _, u := range utf8Seqs {
			for _, body := range []string{u + fill(n, 1), fill(n/2, 1) + u + fill(n-n/2, 2), fill(n, 3) + u, u + fill(n, 4) + u} {
				for _, s := range []string{body, body + " ", "'" + body, u + " " + body, body + "=" + u + "'" + u} {
					g.Emit("Q "+hx(s), special(s), "utf8")
					g.Emit("R "+hxList([]string{s, u}), true, "utf8")
				}
			}
		}
	}
}
