// Round 6: Rest more than once, and readers that are read only in part.
//
// "Rest returns exactly the bytes not yet consumed."  Until now every Rest of a session was followed
// by io.ReadAll of the reader it returned, so that a second Rest could only ever be asked for the
// empty remainder.  A caller may just as well read a header of k bytes from the reader, look at
// Err / Text / Complete, try Next (which must say false from now on) and call Rest again for what
// is left: exactly the bytes that were neither tokenized nor read through the first reader.
//
// Session ops added for this (runSession in main.go, for N and M lines alike):
//
//	p<k>  rd := sc.Rest(); read the first k bytes of rd (or all of it when it is shorter)   p<hex>
//	q<k>  k more bytes from the reader the last Rest returned                               q<hex>
//	      (q- when no Rest came before, or a Reset came since: the old reader is not used on)
//	t     Text and Complete with no call in between                                         t<hex>:<complete>
//
// Only ONE reader is read from at any time (the one the latest Rest returned): what two readers of one
// scanner do to each other is not documented.
//
// The streams, smallest first:
//
//	(1) every prefix length: on a set of short inputs, after every number of Next calls, a first Rest
//	    of which k = 0 .. len+1 bytes are read, one of a set of things in between (nothing, Next,
//	    Err, Text, Scanner.Split, Each, more bytes from the reader, a Rest of which again only part is
//	    read), the second Rest read to the end, and a tail (Next, Err, Text, a third Rest);
//	(2) all sessions of up to three ops over the enlarged op set on three inputs;
//	(3) the same through M lines: the partly read Rest in the first session, then Reset onto a second
//	    input (which must be scanned as by a fresh scanner), and in the second session, for every kind
//	    of reader;
//	(4) inputs longer than one and two bufio buffers: prefixes that end next to the 4096-byte marks
//	    of the buffered reader, counted from the start of the input and from the point of the Rest;
//	(5) random sessions over the enlarged op set.
package main

import (
	"strconv"
	"strings"

	"verif/harness/internal/tr"
)

// inputs of streams (1)-(3): several tokens, quotations, a continuation, blanks at both ends, an open quote
var restInputs = []string{
	"a b c",
	"ab cd ef",
	"'a b' \"c d\" e f",
	"a\\\nb  c\td\n",
	"  lead and trail  ",
	"x 'open quote y z",
	"one",
	"",
	" \n ",
	"k1 k2 k3 k4 k5 k6 k7 k8",
}

func genRestTwice(g *tr.G) {
	n := 0
	emitN := func(src, ops string, tags ...string) {
		n++
		frag := allFrags[n%len(allFrags)]
		g.Emit("N "+frag+" "+hx(src)+" "+ops, true, append(tags, "rest-twice")...)
	}
	// (1)
	mids := []string{"", "n", "e", "t", "nn", "ne", "tn", "s", "a", "b", "q1", "q1n", "p1", "p0", "p2n", "nq2t"}
	tails := []string{"", "n", "ne", "t", "r", "ntr", "q1"}
	for _, src := range restInputs {
		nTok := len(strings.Fields(src)) // an upper bound on the number of tokens
		for i := 0; i <= nTok+1 && i <= 5; i++ {
			pre := strings.Repeat("n", i)
			for k := 0; k <= len(src)+1 && k <= 12; k++ {
				for mi, mid := range mids {
					// quick: the simple things in between for every k, the others for a third of them
					if !g.Thorough() && mi >= 4 && (mi+k+i)%3 != 0 {
						continue
					}
					tail := tails[(mi+k+i+n)%len(tails)]
					emitN(src, pre+"p"+strconv.Itoa(k)+mid+"r"+tail, "rest-twice-prefix")
				}
			}
			// the first reader read to its end, then Rest again; Rest twice in a row; three partial ones
			emitN(src, pre+"rr", "rest-twice-prefix")
			emitN(src, pre+"rnrn", "rest-twice-prefix")
			emitN(src, pre+"p0p0r", "rest-twice-prefix")
			emitN(src, pre+"p1np1np1nr", "rest-twice-prefix")
			emitN(src, pre+"tp2tq1tr", "rest-twice-prefix")
			emitN(src, pre+"p1zp1r", "rest-twice-prefix")   // a Reset in between: a new session
			emitN(src, pre+"p2zq1nr", "rest-twice-prefix")  // q after Reset reads nothing
			emitN(src, pre+"p3enetnr", "rest-twice-prefix") // Err, Next, Err, Text, Next between the two
		}
	}
	// (2)
	opAlpha := []string{"n", "r", "p0", "p1", "p3", "q1", "e", "t", "z", "s", "b"}
	for _, src := range []string{"a b c", "'q r' s", "w\\"} {
		var rec func(cur string, depth int)
		rec = func(cur string, depth int) {
			if depth == 0 {
				if strings.ContainsAny(cur, "pqt") { // the others are in the streams of the earlier rounds
					emitN(src, cur, "rest-twice-exhaustive")
				}
				return
			}
			for _, o := range opAlpha {
				rec(cur+o, depth-1)
			}
		}
		for l := 1; l <= g.Scale(3, 4); l++ {
			rec("", l)
		}
	}
	// (3)
	all := append(append([]string{}, byteReaderKinds...), plainReaderKinds...)
	emitM := func(k1, s1, o1, k2, s2, o2 string, tags ...string) {
		if o1 == "" {
			o1 = "-"
		}
		if o2 == "" {
			o2 = "-"
		}
		g.Emit("M "+k1+" "+hx(s1)+" "+o1+" "+k2+" "+hx(s2)+" "+o2, true, append(tags, "rest-twice", "rest-twice-reuse")...)
	}
	firsts := []string{"p0", "p1", "np2", "np2n", "p3q1", "nnp1r", "p2tne"}
	seconds := []string{"p0r", "p1r", "np1nr", "np0er", "p2q1r", "nnp1tnr", "p1p1p1r", "np2ntern"}
	for i1, k1 := range all {
		for i2, k2 := range all {
			if !g.Thorough() && (i1+i2)%2 != 0 && i1 != i2 {
				continue
			}
			o1 := firsts[(i1+2*i2)%len(firsts)]
			o2 := seconds[(3*i1+i2)%len(seconds)]
			emitM(k1, "a b 'c d' e f", o1, k2, "p q r s t", o2)
			if (i1+i2)%3 == 0 {
				emitM(k1, "a b c", "n", k2, "p 'q r' s\tt\n", seconds[(i1+i2)%len(seconds)])
			}
		}
	}
	for i2, k2 := range all {
		emitM("0", "", "", k2, "p q r s", seconds[i2%len(seconds)])
		for k := 0; k <= 6; k += 3 {
			emitM("x"+strconv.Itoa(k), "ab cd ef", "nnp1", k2, "p q r s", seconds[(i2+k)%len(seconds)])
		}
	}
	// (4)
	words := func(tag string, total int) string {
		var sb strings.Builder
		for i := 0; sb.Len() < total; i++ {
			sb.WriteString(tag + strconv.Itoa(i) + " ")
		}
		return sb.String()
	}
	sizes := []int{4200, 8300}
	if g.Thorough() {
		sizes = []int{4096, 4200, 6000, 8300, 12400}
	}
	for si, total := range sizes {
		src := words("v", total)
		first := len("v0 ")
		var ks []int
		for _, mark := range []int{4096, 8192} {
			for d := -1; d <= 1; d++ {
				ks = append(ks, mark+d, mark+d-first) // counted from the start of the input / from the point of the Rest after one Next
			}
		}
		ks = append(ks, 0, 1, 15, 16, 17, total-first-1, total-first, total)
		for ki, k := range ks {
			if k < 0 {
				continue
			}
			for fi, frag := range bigFrags {
				if !g.Thorough() && (ki+fi+si)%4 != 0 {
					continue
				}
				ops := []string{"np%dr", "np%dnr", "p%dner", "nnp%dq1r", "np%dq4096r", "np%dp1r"}[(ki+fi)%6]
				g.Emit("N "+frag+" "+hx(src)+" "+strings.Replace(ops, "%d", strconv.Itoa(k), 1), true, "rest-twice", "rest-twice-big")
			}
		}
		for i, k := range all {
			if g.Thorough() || (i+si)%2 == 0 {
				emitM(all[(i+1)%len(all)], "a b", "n", k, src, "np"+strconv.Itoa(4096-first+(i%3)-1)+"nr")
				emitM(k, src, "np4100", all[(i+2)%len(all)], "p q r", "np1r")
			}
		}
	}
	// (5)
	ropAlpha := []string{"n", "n", "n", "r", "p0", "p1", "p2", "p5", "q1", "q3", "e", "t", "z", "s", "a", "b", "c", "x", "y"}
	for i := 0; i < g.Scale(2500, 60000); i++ {
		s := randString(g.R, classAlpha, 24)
		var sb strings.Builder
		for j := 1 + g.R.Intn(8); j > 0; j-- {
			sb.WriteString(tr.Pick(g.R, ropAlpha))
		}
		if !strings.ContainsAny(sb.String(), "pq") {
			sb.WriteString("p" + strconv.Itoa(g.R.Intn(4)) + "nr")
		}
		g.Emit("N "+tr.Pick(g.R, allFrags)+" "+hx(s)+" "+sb.String(), true, "rest-twice", "rest-twice-random")
	}
}
