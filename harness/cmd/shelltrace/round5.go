// Round 5: one Scanner, two inputs, every kind of reader.
//
// Until now every session was NewScanner over the harness's own fragmenting reader (which is an
// io.Reader and nothing else), and the op z reset the scanner to a fresh reader OF THE SAME KIND
// over THE SAME input.  The documented way to use a Scanner on several inputs is Reset, and what a
// caller hands to NewScanner / Reset is usually a *strings.Reader, a *bytes.Reader, a *bytes.Buffer
// or a *bufio.Reader -- all of which implement io.ByteReader, io.ByteScanner, io.WriterTo ... that
// an implementation may test for.
//
//	M <kind1> <src1> <ops1|-> <kind2> <src2> <ops2|-> | <session 1>;Z<text>:<complete>:<err>;<session 2>
//
// sc := NewScanner(<reader kind1 over src1>); ops1; sc.Reset(<reader kind2 over src2>); Text,
// Complete and Err right after the Reset (the Z observation: those of a fresh scanner); ops2.
// ops as in N lines (n r e s a b c x y; z is not an op here).  The observations of the second
// session must be those of a FRESH scanner on src2 -- whatever the first session was, wherever it
// stopped (before any Next, between tokens, inside an unterminated quotation, after the end of input,
// after Rest, after an Each that was stopped or whose callback panicked, after a read error), and
// whatever the two readers are.
//
// Reader kinds:
//
//	f<frag>  the fragmenting reader of N lines (io.Reader only); frag as there: [e][z]<k>
//	s        *strings.Reader            b   *bytes.Reader          B   *bytes.Buffer
//	u        *bufio.Reader of the default size over a strings.Reader (bufio.NewReader hands such a
//	         reader back as it is: the scanner then reads from the CALLER's bufio.Reader)
//	v        *bufio.Reader of 16 bytes over a strings.Reader
//	w        *bufio.Reader of 8192 bytes over the fragmenting reader e1
//	o        a reader that hands out one byte per Read and also implements io.ByteReader
//	m        io.MultiReader over the two halves of the input
//	l        io.LimitReader(len(src)) over the input followed by junk that must never be seen
//	t        iotest-style: the last byte is returned together with io.EOF by Read, and ReadByte exists
//	0        a nil io.Reader (what the package's own pool does: NewScanner(nil), then Reset);
//	         kind1 only, with no ops before the Reset
//	x<k>     kind1 only: the reader fails with an error that is not io.EOF after k bytes.  The
//	         first session then is a prelude: its observations are not recorded (printed as P).
package main

import (
	"bufio"
	"bytes"
	"errors"
	"io"
	"strconv"
	"strings"
	"time"

	"github.com/creachadair/mds/shell"
	"verif/harness/internal/tr"
)

type oneByteReader struct {
	s string
}

func (r *oneByteReader) Read(p []byte) (int, error) {
	if len(r.s) == 0 {
		return 0, io.EOF
	}
	if len(p) == 0 {
		return 0, nil
	}
	p[0] = r.s[0]
	r.s = r.s[1:]
	return 1, nil
}

func (r *oneByteReader) ReadByte() (byte, error) {
	if len(r.s) == 0 {
		return 0, io.EOF
	}
	c := r.s[0]
	r.s = r.s[1:]
	return c, nil
}

// dataEOFReader returns its last bytes together with io.EOF, from Read and from ReadByte alike
type dataEOFReader struct {
	s string
}

func (r *dataEOFReader) Read(p []byte) (int, error) {
	if len(r.s) == 0 {
		return 0, io.EOF
	}
	n := copy(p, r.s)
	r.s = r.s[n:]
	if len(r.s) == 0 {
		return n, io.EOF
	}
	return n, nil
}

func (r *dataEOFReader) ReadByte() (byte, error) {
	if len(r.s) == 0 {
		return 0, io.EOF
	}
	c := r.s[0]
	r.s = r.s[1:]
	return c, nil // io.ByteReader: "If ReadByte returns an error, no input byte was consumed"
}

var errReader = errors.New("the reader failed")

type failingReader struct {
	s string
	k int
}

func (r *failingReader) Read(p []byte) (int, error) {
	if r.k <= 0 || len(r.s) == 0 {
		return 0, errReader
	}
	n := min(len(p), r.k, len(r.s))
	copy(p, r.s[:n])
	r.s, r.k = r.s[n:], r.k-n
	return n, nil
}

// mkReader: ok = false for a kind this position does not allow (or a malformed one)
func mkReader(kind, src string, first bool) (r io.Reader, ok bool) {
	if kind == "" {
		return nil, false
	}
	switch kind[0] {
	case 'f':
		return newFrag(kind[1:], src), true
	case 's':
		return strings.NewReader(src), kind == "s"
	case 'b':
		return bytes.NewReader([]byte(src)), kind == "b"
	case 'B':
		return bytes.NewBufferString(src), kind == "B"
	case 'u':
		return bufio.NewReader(strings.NewReader(src)), kind == "u"
	case 'v':
		return bufio.NewReaderSize(strings.NewReader(src), 16), kind == "v"
	case 'w':
		return bufio.NewReaderSize(newFrag("e1", src), 8192), kind == "w"
	case 'o':
		return &oneByteReader{src}, kind == "o"
	case 'm':
		return io.MultiReader(strings.NewReader(src[:len(src)/2]), strings.NewReader(src[len(src)/2:])), kind == "m"
	case 'l':
		return io.LimitReader(strings.NewReader(src+" JUNK 'behind the limit"), int64(len(src))), kind == "l"
	case 't':
		return &dataEOFReader{src}, kind == "t"
	case '0':
		return nil, first && kind == "0"
	case 'x':
		k, err := strconv.Atoi(kind[1:])
		return &failingReader{src, k}, first && err == nil && k >= 0
	}
	return nil, false
}

func execReuse(f []string, partial *[]string) string {
	if len(f) != 7 {
		return "?"
	}
	src1, src2 := unhx(f[2]), unhx(f[5])
	ops1, ops2 := f[3], f[6]
	if ops1 == "-" {
		ops1 = ""
	}
	if ops2 == "-" {
		ops2 = ""
	}
	r1, ok1 := mkReader(f[1], src1, true)
	r2, ok2 := mkReader(f[4], src2, false)
	if !ok1 || !ok2 || (f[1] == "0" && ops1 != "") {
		return "?"
	}
	noZ := func(ops string) string { return strings.ReplaceAll(ops, "z", "") }
	ops1, ops2 = noZ(ops1), noZ(ops2)
	prelude := f[1][0] == 'x'
	if !prelude && strings.ContainsAny(ops1, "sabcxy") && runaway("0", src1) {
		return "RUNAWAY"
	}
	if strings.ContainsAny(ops2, "sabcxy") && runaway("0", src2) {
		return "RUNAWAY"
	}
	var sc *shell.Scanner
	if f[1] == "0" {
		sc = shell.NewScanner(nil)
	} else {
		sc = shell.NewScanner(r1)
	}
	var obs []held
	flush := func() []string {
		out := make([]string, len(obs))
		for i, h := range obs {
			out[i] = h.String()
		}
		return out
	}
	defer func() { *partial = flush() }()
	if prelude {
		// a first session on a reader that fails: a scanner that never stops is still noticed
		if r := tr.Guard(20*time.Second, func() {
			var scratch []held
			runSession(sc, ops1, &scratch, nil)
		}); r == "hang" {
			return "RUNAWAY"
		}
		obs = append(obs, held{pre: "P"})
	} else {
		runSession(sc, ops1, &obs, nil)
	}
	sc.Reset(r2)
	obs = append(obs, held{pre: "Z", txt: sc.Text(), hasTxt: true, post: ":" + tr.B(sc.Complete()) + ":" + errCode(sc.Err())})
	runSession(sc, ops2, &obs, nil)
	return strings.Join(flush(), ";")
}

// ---------------------------------------------------------------- generation

var byteReaderKinds = []string{"s", "b", "B", "u", "v", "w", "o", "t"}
var plainReaderKinds = []string{"f0", "f1", "f-1", "fe0", "fe2", "fz1", "fez3", "m", "l"}

// first inputs that leave the scanner at every kind of point, with the ops that take it there
type reusePoint struct{ src, ops string }

var reusePoints = []reusePoint{
	{"", ""}, {"", "n"}, {"", "r"}, {"", "ne"}, // nothing to read; end of input seen at once
	{"a b c", ""}, {"a b c", "n"}, {"a b c", "nn"}, {"a b c", "nnn"}, {"a b c", "nnnn"}, {"a b c", "nnnne"}, // before any Next; between tokens; at the end; past it
	{"a b c", "r"}, {"a b c", "nr"}, {"a b c", "nrn"}, {"a b c", "nnnr"}, {"a b c", "nnnnr"}, // after Rest at every depth
	{"a b c", "s"}, {"a b c", "ns"}, {"a b c", "a"}, {"a b c", "b"}, {"a b c", "c"}, {"a b c", "x"}, {"a b c", "y"}, {"a b c", "bn"}, {"a b c", "xr"}, // Split, Each to the end / stopped / panicking
	{"'a b", "n"}, {"'a b", "nn"}, {"\"a b", "n"}, {"\"a\\", "n"}, {"a\\", "n"}, {"a\\", "nne"}, {"x 'y", "nn"}, {"x 'y", "s"}, {"x \"y z", "a"}, // ended inside a quotation / after a backslash: Complete false, state not Break
	{"'a b' \"c d\" e", "n"}, {"'a b' \"c d\" e", "nn"}, {"a\\\nb c", "n"}, // quoted tokens, a continuation
	{"  \n\t ", "n"}, {"  a", ""}, {"a  ", "n"}, {"a  ", "nn"}, // blanks only; leading; trailing
	{"one-rather-longer-token-than-anything-in-the-second-input and more", "n"}, // the token buffer has held more
	{"one-rather-longer-token-than-anything-in-the-second-input and more", "nr"},
}

// second inputs and the sessions run on them: together the whole op set
var reuseSecond = []reusePoint{
	{"p q", "nnne"}, {"p q", "rn"}, {"p q", "nrn"}, {"p q", "nnrne"}, {"p q", "se"}, {"p q", "ae"}, {"p q", "bnr"}, {"p q", "cr"}, {"p q", "xnr"}, {"p q", "yne"},
	{"p q", "enen"}, {"p q", "r"}, {"p q", "nr"}, {"", "ne"}, {"", "r"}, {"", "s"}, {"", "a"},
	{"'u v' w", "nrn"}, {"'u v' w", "nnn"}, {"'u v' w", "r"}, {"\"open q", "nne"}, {"\"open q", "nr"}, {"\"open q", "s"}, {"w\\", "nne"}, {"w\\", "a"},
	{"one", "nn"}, {"one", "nr"}, {"one", "rnn"}, {"a\\\nb  c", "nnne"}, {"a\\\nb  c", "nr"}, {" lead trail ", "nrn"}, {" lead trail ", "nnrn"}, {"\n", "nr"}, {"x", "r"},
	{"k1 k2 k3 k4 k5 k6", "nnr"}, {"k1 k2 k3 k4 k5 k6", "cnr"}, {"k1 k2 k3 k4 k5 k6", "ynr"}, {"k1 k2 k3 k4 k5 k6", "nnnnnnr"}, {"k1 k2 k3 k4 k5 k6", "nnnnnnnr"},
}

func genReuse(g *tr.G) {
	all := append(append([]string{}, byteReaderKinds...), plainReaderKinds...)
	n := 0
	emit := func(k1, s1, o1, k2, s2, o2 string, tags ...string) {
		n++
		if o1 == "" {
			o1 = "-"
		}
		if o2 == "" {
			o2 = "-"
		}
		tags = append(tags, "reuse")
		isBR := func(k string) bool { return strings.IndexByte("sbBuvwot", k[0]) >= 0 }
		if isBR(k2) {
			tags = append(tags, "reuse-onto-a-ByteReader")
			if strings.Contains(o2, "r") {
				tags = append(tags, "reuse-onto-a-ByteReader-then-Rest")
			}
		}
		if isBR(k1) && !isBR(k2) {
			tags = append(tags, "reuse-from-a-ByteReader-onto-a-plain-reader")
		}
		out := g.Emit("M "+k1+" "+hx(s1)+" "+o1+" "+k2+" "+hx(s2)+" "+o2, true, tags...)
		if strings.Contains(out, "PANIC") || strings.Contains(out, "RUNAWAY") {
			g.W.Count("reuse-panic-or-runaway", 1)
		}
	}
	// (1) every point of a first session x every pair of reader kinds; the second input and its
	// session rotate so that every (second kind, second session) pair comes up for every first kind
	for pi, p := range reusePoints {
		for i1, k1 := range all {
			for i2, k2 := range all {
				reps := 1
				if g.Thorough() {
					reps = 4
				}
				for rp := 0; rp < reps; rp++ {
					sec := reuseSecond[(pi*7+i1*3+i2*11+rp*13+n)%len(reuseSecond)]
					// quick: every kind pair at every third point, all pairs with a ByteReader second
					// kind at every point
					if !g.Thorough() && i2 >= len(byteReaderKinds) && (pi+i1+i2)%3 != 0 {
						continue
					}
					emit(k1, p.src, p.ops, k2, sec.src, sec.ops, "reuse-points")
				}
			}
		}
	}
	// (2) every second session on every second kind, behind a short first session on a strings.Reader
	// and on the fragmenting reader (the seed class exactly: ByteReader, then Rest), and behind the
	// pool's NewScanner(nil)
	for si, sec := range reuseSecond {
		for i2, k2 := range all {
			p := reusePoints[(si+i2)%len(reusePoints)]
			emit("s", p.src, p.ops, k2, sec.src, sec.ops, "reuse-second-sessions")
			emit("f0", "a b c", "n", k2, sec.src, sec.ops, "reuse-second-sessions")
			emit("0", "", "", k2, sec.src, sec.ops, "reuse-after-NewScanner(nil)")
		}
	}
	// (3) a first reader that fails after k bytes, at every k of a short input
	errSrc := "ab 'c d' e\\ f \"g"
	for k := 0; k <= len(errSrc); k++ {
		for i2, k2 := range all {
			sec := reuseSecond[(k*5+i2)%len(reuseSecond)]
			emit("x"+strconv.Itoa(k), errSrc, []string{"nnnn", "nne", "s", "a", "nr", "nnnnnne"}[(k+i2)%6], k2, sec.src, sec.ops, "reuse-after-read-error")
		}
	}
	// (4) sizes: a first input longer than bufio's buffer (thousands of its bytes are still
	// buffered when the Reset comes), a second input longer than it (Rest after a few tokens must
	// return all the rest: what the scanner's reader holds AND what the source still has)
	words := func(tag string, total int) string {
		var sb strings.Builder
		for i := 0; sb.Len() < total; i++ {
			sb.WriteString(tag + strconv.Itoa(i) + " ")
		}
		return sb.String()
	}
	bigs := []int{4097, 6000, 8193}
	if g.Thorough() {
		bigs = []int{4095, 4096, 4097, 6000, 8193, 12289, 16385, 20000}
	}
	for bi, total := range bigs {
		long1, long2 := words("f", total), words("g", total)
		// every kind with the long input, as the first and as the second reader: Rest right after the
		// first token must hand back ALL the rest (what the scanner's buffer holds and what the source
		// still has), and a full scan must see every token
		for i, k := range all {
			sec := reuseSecond[(i+bi)%len(reuseSecond)]
			emit(k, long1, "nr", all[(i+bi+1)%len(all)], sec.src, sec.ops, "reuse-long-every-kind")
			emit(all[(i+bi+2)%len(all)], "a b c", "n", k, long2, "nr", "reuse-long-every-kind")
			if (i+bi)%3 == 0 || g.Thorough() {
				emit(k, long1, "s", k, long2, "ae", "reuse-long-every-kind")
			}
		}
		for i1, k1 := range all {
			for i2, k2 := range all {
				// quick: a twelfth of the kind pairs per size, thorough: a third (a line of this stream costs the
				// driver 10-30 ms)
				if (!g.Thorough() && (i1+2*i2+5*bi)%12 != 0) || (g.Thorough() && (i1+2*i2+5*bi)%3 != 0) {
					continue
				}
				o1 := []string{"n", "nnn", "", "nr", "b", strings.Repeat("n", 40)}[(i1+i2+bi)%6]
				// long first, short second
				sec := reuseSecond[(i1*5+i2*3+bi)%len(reuseSecond)]
				emit(k1, long1, o1, k2, sec.src, sec.ops, "reuse-long-first-input")
				// short first, long second with Rest at a few depths
				o2 := []string{"nr", "nnnr", "r", "cr", "ynr", strings.Repeat("n", 30) + "rn"}[(i1+2*i2+bi)%6]
				emit(k1, "a b c", []string{"n", "nnnn", "r"}[(i1+i2)%3], k2, long2, o2, "reuse-long-second-input")
				if (i1+i2)%4 == 0 {
					emit(k1, long1, o1, k2, long2, o2, "reuse-long-both")
				}
			}
		}
	}
	// (5) random inputs, sessions and kinds
	opAlpha := []byte("nnnresabcxy")
	for i := 0; i < g.Scale(4000, 100000); i++ {
		rops := func() string {
			b := make([]byte, g.R.Intn(7))
			for j := range b {
				b[j] = tr.Pick(g.R, opAlpha)
			}
			return string(b)
		}
		k1 := tr.Pick(g.R, all)
		s1 := randString(g.R, classAlpha, 24)
		o1 := rops()
		switch g.R.Intn(12) {
		case 0:
			k1, o1 = "0", ""
		case 1:
			k1 = "x" + strconv.Itoa(g.R.Intn(len(s1)+1))
		}
		k2 := tr.Pick(g.R, all)
		if g.R.Chance(1, 2) {
			k2 = tr.Pick(g.R, byteReaderKinds)
		}
		emit(k1, s1, o1, k2, randString(g.R, classAlpha, 24), rops(), "reuse-random")
	}
}
