// Trace syntax for byte strings, shared with ocaml/shell_driver.ml and bin/incoq-shell.
//
// A byte string is written as a sequence of segments: two hex digits for one byte, or
// r<count>z<hex block>z for <count> consecutive copies of a block of 1..64 bytes; "-" is the
// empty string.  The encoding is canonical (the driver produces the very same text from the
// model's bytes, so trace lines are compared as text): at each position, left to right, the
// smallest period p in 1..64 whose block repeats k >= 2 times covering k*p >= 32 bytes is taken
// with the greatest such k; otherwise one byte is written in hex.  A string shorter than 32
// bytes is therefore plain hex, and everything written before the scale streams existed
// (corpus, replays, notes) reads as before.  With it a failing input of 4097 bytes is ~150
// characters instead of 8194, and the quick trace of C16 is a few MB instead of ~100.
package main

import (
	"strconv"
	"strings"
)

const (
	rleMaxP = 64
	rleMin  = 32
)

const hexDigits = "0123456789abcdef"

func hx(s string) string {
	if s == "" {
		return "-"
	}
	n := len(s)
	var sb strings.Builder
	sb.Grow(2 * min(n, 256))
	wr := func(t string) {
		for i := 0; i < len(t); i++ {
			sb.WriteByte(hexDigits[t[i]>>4])
			sb.WriteByte(hexDigits[t[i]&15])
		}
	}
	for i := 0; i < n; {
		found := false
		if n-i >= rleMin {
			for p := 1; p <= rleMaxP && i+2*p <= n; p++ {
				k := 1
				for i+(k+1)*p <= n && s[i+k*p:i+(k+1)*p] == s[i:i+p] {
					k++
				}
				if k >= 2 && k*p >= rleMin {
					sb.WriteByte('r')
					sb.WriteString(strconv.Itoa(k))
					sb.WriteByte('z')
					wr(s[i : i+p])
					sb.WriteByte('z')
					i += k * p
					found = true
					break
				}
			}
		}
		if !found {
			wr(s[i : i+1])
			i++
		}
	}
	return sb.String()
}

func hexVal(c byte) int {
	switch {
	case c >= '0' && c <= '9':
		return int(c - '0')
	case c >= 'a' && c <= 'f':
		return int(c-'a') + 10
	case c >= 'A' && c <= 'F':
		return int(c-'A') + 10
	}
	panic("bad hex digit in trace input")
}

func unhx(s string) string {
	if s == "-" {
		return ""
	}
	var sb strings.Builder
	plain := func(t string) string {
		if len(t)%2 != 0 {
			panic("odd number of hex digits in trace input")
		}
		b := make([]byte, len(t)/2)
		for i := range b {
			b[i] = byte(hexVal(t[2*i])<<4 | hexVal(t[2*i+1]))
		}
		return string(b)
	}
	for i := 0; i < len(s); {
		if s[i] == 'r' {
			j := strings.IndexByte(s[i:], 'z')
			if j < 0 {
				panic("bad repeat group in trace input")
			}
			k, err := strconv.Atoi(s[i+1 : i+j])
			e := strings.IndexByte(s[i+j+1:], 'z')
			if err != nil || e < 0 || k < 0 || k > 1<<24 {
				panic("bad repeat group in trace input")
			}
			sb.WriteString(strings.Repeat(plain(s[i+j+1:i+j+1+e]), k))
			i += j + 1 + e + 1
			continue
		}
		j := i
		for j < len(s) && s[j] != 'r' {
			j++
		}
		sb.WriteString(plain(s[i:j]))
		i = j
	}
	return sb.String()
}

func hxList(ss []string) string {
	if len(ss) == 0 {
		return "."
	}
	out := make([]string, len(ss))
	for i, s := range ss {
		out[i] = hx(s)
	}
	return strings.Join(out, ",")
}

func unhxList(s string) []string {
	if s == "." {
		return nil
	}
	parts := strings.Split(s, ",")
	for i := range parts {
		parts[i] = unhx(parts[i])
	}
	return parts
}
