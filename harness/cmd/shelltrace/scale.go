// Scale streams (round 3): inputs whose SIZE is the point.  The exhaustive and random streams of
// main.go stay below ~40 bytes per string (plus a few random 9 KB inputs over the whole
// alphabet); a change that only shows above a size threshold -- a fast path for strings of 64
// bytes or more, a quoted run as long as bufio's 4096-byte buffer, a list with more than 256
// elements -- and only for inputs whose special characters all come from ONE class is invisible
// to them.  Here every length, run length, element count and reader chunk size is taken from
// around the powers of two 2^6..2^13 (2^k-1, 2^k, 2^k+1) and a few sizes beyond 2*4096, smallest
// first (so that the first failing input reported is the smallest of its class), and every
// string is built from plain filler plus ONE kind of special character (or one kind plus the
// single quote), in every position that matters.
//
// Cost: the extracted model and the reference append at the end of a list, so a token of n bytes
// costs n^2/2 cell copies in the driver (~0.2 s at 8192).  The number of big cases is limited by
// dens(); within one size the variants rotate so that every class / kind / fragmentation is seen
// at every threshold at least once.  The driver evaluates a session once for all fragmentations
// of the same (input, ops), which are therefore emitted consecutively.
package main

import (
	"strconv"
	"strings"

	"verif/harness/internal/tr"
)

// plain bytes: no meaning to the tokenizer, none needs quoting; 49 symbols, so the pattern never
// lines up with a power of two (a dropped, duplicated or displaced block changes the text)
const plainFill = "abcdefghijklmnopqrstuvwxyz0123456789+-./:,@^_{}!]"

func fill(n, off int) string {
	if n <= 0 {
		return ""
	}
	b := make([]byte, n)
	for i := range b {
		b[i] = plainFill[(off+i)%len(plainFill)]
	}
	return string(b)
}

// pairs repeats the unit p up to n bytes and pads with filler, never cutting a unit in two
func pairs(p string, n int) string {
	if n <= 0 {
		return ""
	}
	k := n / len(p)
	return strings.Repeat(p, k) + fill(n-k*len(p), n)
}

// rep repeats p to exactly n bytes (the last copy may be cut)
func rep(p string, n int) string {
	if n <= 0 {
		return ""
	}
	return strings.Repeat(p, n/len(p)+1)[:n]
}

// pow2Sizes: 2^k-1, 2^k, 2^k+1 for k = 6..maxK, ascending
func pow2Sizes(maxK int) []int {
	var out []int
	for k := 6; k <= maxK; k++ {
		out = append(out, 1<<k-1, 1<<k, 1<<k+1)
	}
	return out
}

// sizes of the scale streams: the powers of two to 8192, then a few beyond two buffers
func scaleSizes(g *tr.G) []int {
	out := pow2Sizes(13)
	out = append(out, 2*4096+2+g.R.Intn(60), 2*4096+100+g.R.Intn(900))
	if g.Thorough() {
		out = append(out, 3*4096-1, 3*4096, 3*4096+1, 4*4096-1, 4*4096, 4*4096+1, 4*4096+5+g.R.Intn(3000))
	}
	return out
}

// dens: how many variants a size can afford (3 = everything .. 0 = the essentials)
func dens(g *tr.G, n int) int {
	if g.Thorough() {
		switch {
		case n <= 4097:
			return 3
		case n <= 8193:
			return 2
		case n <= 2*4096+1000:
			return 1
		}
		return 0
	}
	switch {
	case n <= 1025:
		return 3
	case n <= 2049:
		return 2
	case n <= 4097:
		return 1
	}
	return 0
}

// near2 is the power of two nearest to n
func near2(n int) int {
	p := 1
	for p*2 <= n+1 {
		p *= 2
	}
	return p
}

// ---------------------------------------------------------------- C15

// every byte Quote must protect, each its own class
var quoteSpecials = []byte(" \t\n|&;<>()$`\\\"*?[#~=%'")

const (
	posLast = iota
	posFirst
	posPow2m1 // the last byte of the leading 2^k block (index 63 of 65..128 bytes, 4095 of 4097..8192)
	posPow2   // the first byte after it
	posAll
	posMid
	posSparse // every 61st byte
	posAlt    // every other byte
	posEnds
	nPos
)

var posName = []string{"last", "first", "pow2-1", "pow2", "all", "mid", "sparse", "alt", "ends"}

// classString: n bytes of plain filler with c in the places pos selects
func classString(n int, c byte, pos int) string {
	b := []byte(fill(n, int(c)+n))
	p2 := 1
	for p2*2 < n {
		p2 *= 2
	}
	switch pos {
	case posLast:
		b[n-1] = c
	case posFirst:
		b[0] = c
	case posPow2m1:
		b[p2-1] = c
	case posPow2:
		b[p2] = c
	case posAll:
		for i := range b {
			b[i] = c
		}
	case posMid:
		b[n/2] = c
	case posSparse:
		for i := 60; i < n; i += 61 {
			b[i] = c
		}
	case posAlt:
		for i := n & 1; i < n; i += 2 {
			b[i] = c
		}
	case posEnds:
		b[0], b[n-1] = c, c
	}
	return string(b)
}

func scaleC15(g *tr.G) {
	sizes := scaleSizes(g)
	rot := int(g.Seed % 6) // what rotates at the big sizes also rotates with the seed
	for si, n := range sizes {
		d := dens(g, n)
		tagN := "scale-" + strconv.Itoa(near2(n))
		// --- Quote of single-class strings
		if d > 0 || si%3 == rot%3 {
			g.Emit("Q "+hx(fill(n, si)), false, "scale-plain") // nothing to quote: returned as it is
		}
		for ci, c := range quoteSpecials {
			var ps []int
			switch d {
			case 3:
				for p := 0; p < nPos; p++ {
					ps = append(ps, p)
				}
			case 2:
				ps = []int{posLast, 1 + (ci+si)%(nPos-1), 1 + (ci+si+3)%(nPos-1), 1 + (ci+si+5)%(nPos-1)}
			case 1:
				ps = []int{posLast, 1 + (ci+si)%(nPos-1)}
			default:
				ps = []int{(ci + si) % nPos}
				if ci < 3 || c == '\'' { // the three separators and the quote: always also at the very end
					ps = append(ps, posLast)
				}
			}
			seen := map[int]bool{}
			for _, p := range ps {
				if seen[p] {
					continue
				}
				seen[p] = true
				if c == '\'' && d == 0 && (p != posLast || si%3 != rot%3) {
					continue // bare text with escaped quotes: quadratic for the reference
				}
				g.Emit("Q "+hx(classString(n, c, p)), true, "scale-quote", tagN, "scale-pos-"+posName[p])
			}
			// one class plus the single quote
			if c != '\'' {
				b := []byte(classString(n, c, posLast))
				b[(ci*7+si+rot)%(n-1)] = '\''
				g.Emit("Q "+hx(string(b)), true, "scale-quote-pair", tagN)
				if d == 3 {
					b = []byte(classString(n, c, posFirst))
					b[n-1] = '\''
					g.Emit("Q "+hx(string(b)), true, "scale-quote-pair", tagN)
				}
			}
			// --- Split(Join([s])): the same strings back through the scanner
			var rps []int
			switch {
			case d == 3:
				rps = []int{posLast, posFirst, posAll}
			case d == 2 && (ci+si)%3 == 0:
				rps = []int{(ci + si) % nPos}
			case d == 1 && ((ci+si)%8 == 0 || c == ' '):
				rps = []int{(ci + si) % nPos}
			case d == 0 && c == ' ' && n <= 8193, d == 0 && c == '\'' && si%3 == rot%3:
				rps = []int{[]int{posLast, posPow2m1, posAll}[(si+rot)%3]}
			case d == 0 && c == ' ' && si%2 == rot%2:
				rps = []int{posSparse}
			}
			for _, p := range rps {
				g.Emit("R "+hxList([]string{classString(n, c, p)}), true, "scale-roundtrip", tagN)
			}
		}
		// every byte value as the one odd byte of a string just over the small thresholds
		if n == 65 || n == 257 || (g.Thorough() && n == 4097) {
			for b := 0; b < 256; b++ {
				g.Emit("Q "+hx(classString(n, byte(b), posLast)), special(string([]byte{byte(b)})), "scale-every-byte")
			}
		}
		// --- Join of long elements, three classes at a time
		nj := map[int]int{3: 8, 2: 8, 1: 3, 0: 1}[d]
		for j := 0; j < nj; j++ {
			var ss []string
			for e := 0; e < 3; e++ {
				ci := (3*j + e + si) % len(quoteSpecials)
				if quoteSpecials[ci] == '\'' && n > 4097 {
					ci = 0
				}
				ss = append(ss, classString(n, quoteSpecials[ci], (j+e+si)%nPos))
			}
			// the first element's class once more as the last element: every class of the line is
			// seen by the loop over ss[1:], not only by the call for ss[0]
			ss = append(ss, classString(n, ss[0][strings.IndexAny(ss[0], string(quoteSpecials))], posLast))
			g.Emit("J "+hxList(ss), true, "scale-join", tagN)
			if j == 0 {
				// results held across later calls, at this size
				g.Emit("H "+hxList(append(ss[:2:2], "", "it's")), true, "scale-hold", tagN)
			}
		}
		// the joined text (not one element) reaches the size: two halves, and many small pieces
		h := n / 2
		g.Emit("J "+hxList([]string{classString(h, ' ', posLast), classString(n-h-1, ';', posFirst)}), true, "scale-join-total", tagN)
		if d > 0 || si%3 == rot%3 {
			g.Emit("R "+hxList([]string{fill(h, 1), classString(n-h-1, '\t', posMid)}), true, "scale-join-total", tagN)
		}
		// --- element COUNT at the size: lists of n short strings of one kind, and of rotating kinds
		if n <= 4097 || g.Thorough() {
			elems := []string{"", "a", "a b", "'", "it's", "x;y", "~"}
			mk := func(f func(i int) string) []string {
				ss := make([]string, n)
				for i := range ss {
					ss[i] = f(i)
				}
				return ss
			}
			one := elems[si%len(elems)]
			lists := [][]string{mk(func(int) string { return one }), mk(func(i int) string { return elems[i%len(elems)] })}
			if d >= 2 {
				lists = append(lists, mk(func(int) string { return "" }), mk(func(int) string { return "a b" }))
			}
			for _, ss := range lists {
				g.Emit("R "+hxList(ss), true, "scale-count", tagN)
				if n <= 1025 || g.Thorough() && n <= 4097 {
					g.Emit("J "+hxList(ss), true, "scale-count", tagN)
				}
			}
		}
	}
}

// ---------------------------------------------------------------- C16

// a runKind builds an input around one run of about n bytes
type runKind struct {
	name string
	// long: the run is (part of) ONE token whose text grows with n (quadratic in the driver)
	long bool
	// last: the run leaves the input open, nothing may follow it
	last bool
	// toks: number of tokens in the core up to and including the run (Next calls to get past it)
	toks int
	mk   func(n int) string
}

var runKinds = []runKind{
	// the three forms a long token can take, plain
	{"sq-plain", true, false, 1, func(n int) string { return "'" + fill(n, 3) + "'" }},
	{"dq-plain", true, false, 1, func(n int) string { return "\"" + fill(n, 5) + "\"" }},
	{"bare", true, false, 1, func(n int) string { return fill(n, 7) }},
	// quoted runs of blanks and of the other quoting characters
	{"sq-blank", true, false, 1, func(n int) string { return "'" + rep(" ", n) + "'" }},
	{"sq-mixed", true, false, 1, func(n int) string { return "'" + rep("xy \\\" z\t\n", n) + "'" }},
	{"dq-blank", true, false, 1, func(n int) string { return "\"" + rep(" \t\n'", n) + "\"" }},
	// runs of escapes
	{"dq-esc", true, false, 1, func(n int) string { return "\"" + pairs("\\\"", n) + "\"" }},
	{"dq-bsl", true, false, 1, func(n int) string { return "\"" + pairs("\\\\", n) + "\"" }},
	{"dq-xpush", true, false, 1, func(n int) string { return "\"" + pairs("\\x", n) + "\"" }},
	{"esc-run", true, false, 1, func(n int) string { return pairs("\\ ", n) }},
	{"esc-quotes", true, false, 1, func(n int) string { return pairs("\\'", n/2) + pairs("\\\"", n-n/2) }},
	{"glued", true, false, 1, func(n int) string { return pairs("'a b'\"c d\"e\\ f", n) }},
	// a quote or an escape that opens exactly where the run ends (index n-1 of the token's source)
	{"open-sq-at", true, false, 1, func(n int) string { return fill(n-1, 11) + "'x y'" }},
	{"open-dq-at", true, false, 1, func(n int) string { return fill(n-1, 13) + "\"x\\\"y\"" }},
	{"esc-at", true, false, 1, func(n int) string { return fill(n-1, 17) + "\\ z" }},
	{"dq-esc-at", true, false, 1, func(n int) string { return "\"" + fill(n-2, 19) + "\\\"x\"" }},
	{"close-at", true, false, 1, func(n int) string { return "'" + fill(n-2, 23) + "'tail" }},
	// input that ends inside the run
	{"unterm-sq", true, true, 1, func(n int) string { return "'" + fill(n, 29) }},
	{"unterm-dq", true, true, 1, func(n int) string { return "\"" + fill(n, 31) }},
	{"dangling", true, true, 1, func(n int) string { return fill(n, 37) + "\\" }},
	{"unterm-dq-esc", true, true, 1, func(n int) string { return "\"" + pairs("\\\"", n) }},
	// a short token that takes n bytes of source
	{"cont-run", false, false, 1, func(n int) string { return "a" + pairs("\\\n", n) + "b" }},
	{"dq-cont", false, false, 1, func(n int) string { return "\"" + pairs("\\\n", n) + "\"" }},
	{"empty-quotes", false, false, 1, func(n int) string { return pairs("''", n/2) + pairs("\"\"", n-n/2) + "x" }},
	// runs of separators of one class, between, before and after words
	{"blank-sp", false, false, 1, func(n int) string { return "a" + rep(" ", n) + "b" }},
	{"blank-tab", false, false, 1, func(n int) string { return "a" + rep("\t", n) + "b" }},
	{"blank-nl", false, false, 1, func(n int) string { return "a" + rep("\n", n) + "b" }},
	{"blank-mix", false, false, 1, func(n int) string { return "a" + rep(" \t\n", n) + "b" }},
	{"blank-cont", false, false, 1, func(n int) string { return "a " + pairs("\\\n", n) + " b" }},
	{"blank-lead", false, false, 1, func(n int) string { return rep(" \n", n) + "a" }},
	{"blank-trail", false, true, 1, func(n int) string { return "a" + rep("\t ", n) }},
	// n bytes of short tokens (the token COUNT grows with n)
	{"many-1", false, false, 0, func(n int) string { return rep("a ", n) }},
	{"many-empty", false, false, 0, func(n int) string { return rep("'' ", n) }},
	{"many-nl", false, false, 0, func(n int) string { return rep("ab\n", n) }},
}

// fragmentations for a run of about n bytes: the plain ones, chunks of the nearest power of two
// and its neighbours alone and with the e / z flags, and (from 4096 on) bufio's own size
func scaleFrags(n int) []string {
	t := near2(n)
	if t > 4096 {
		return []string{"0", "e0", "z0", "1", "-1", "4096", "4095", "4097", "e4096", "z4095", "ez4097", "ez7", "e1", "z1", "2048", "e3"}
	}
	ts := strconv.Itoa
	return []string{"0", ts(t), ts(t - 1), ts(t + 1), "e" + ts(t), "z" + ts(t+1), "ez" + ts(t-1), "1", "-1", "e0", "z0",
		"2", "3", "e1", "e2", "z1", "ez3"}
}

func scaleC16(g *tr.G) {
	sizes := scaleSizes(g)
	rot := int(g.Seed % 12)
	primary := 3 // the first three kinds are run at every size
	for si, n := range sizes {
		d := dens(g, n)
		tagN := "scale-" + strconv.Itoa(near2(n))
		frags := scaleFrags(n)
		for ki, k := range runKinds {
			many := k.toks == 0
			withSplit := true
			if d == 0 {
				// beyond 4097: the primary kinds always (one of them beyond 8193); of the other long
				// kinds a third, each at one of the three sizes around 8192 (which third rotates
				// with the seed), sessions only; the cheap kinds at two sizes, the many-token
				// kinds at one
				switch {
				case n > 8193:
					// beyond two buffers: one primary kind at the first such size, all three at the last
					if !(ki < primary && (ki == (si+rot)%primary || si == len(sizes)-1)) && !(!k.long && !many && (ki+si+rot)%4 == 0) {
						continue
					}
					withSplit = ki == (si+rot)%primary
				case ki < primary:
					// sessions at 8192 and 8193 for all three, at 8191 for one; Split at one size each
					if n < 8192 && ki != (si+rot)%primary {
						continue
					}
					withSplit = (ki+si+rot)%3 == 0
				case k.long:
					if (ki+rot)%4 != 0 || (ki/4+si)%3 != 0 {
						continue
					}
					withSplit = false
				default:
					if (ki+si+rot)%3 == 1 {
						continue
					}
				}
			}
			if d == 1 && k.long && ki >= primary {
				if (ki+si+rot)%3 == 1 {
					continue // two of the three sizes around 4096, Split at one of them
				}
				withSplit = (ki+si+rot)%3 == 0
			}
			if d <= 1 && many {
				continue // token counts are the business of the count stream below
			}
			pre, post := "", " q1 'q 2'\n"
			if (ki+si)%2 == 0 && k.name != "blank-lead" {
				pre = "p0 "
			}
			if k.last {
				post = ""
			}
			core := k.mk(n)
			s := pre + core + post
			nt := k.toks // Next calls that return the run's token
			if pre != "" {
				nt++
			}
			if many {
				nt += n / 5
			}
			g.W.Count("scale-kind-"+k.name, 1)
			hs := hx(s)
			if withSplit {
				g.Emit("S "+hs, true, "scale-split", tagN)
			}
			if d == 3 && pre != "" {
				g.Emit("S "+hx(core+post), true, "scale-split", tagN)
			}
			// sessions: Rest right after the run's token (A), Rest just before it, so that what is
			// read back is long (B), a full scan past the end with Err (C), Scanner.Split (D), Each (E)
			nx := func(k int) string { return strings.Repeat("n", max(k, 0)) }
			total := nt + 4
			if many {
				total = n/2 + 3
			}
			variants := []string{
				nx(nt) + "rn",
				nx(nt-1) + "rnr",
				nx(total) + "e",
				nx(nt-1) + "sne",
				nx(nt-1) + "ae",
				nx(nt-1) + "cnrn",
			}
			var use []int
			switch {
			case d == 3 && g.Thorough():
				use = []int{0, 1, 2, 3, 4, 5}
			case d >= 2:
				use = []int{0, 1, 2 + (ki+si)%4}
			case d == 1:
				use = []int{0, 1}
				if ki < primary {
					use = append(use, 2+(ki+si)%4)
				}
			default:
				use = []int{0, 1}
				if !k.long {
					use = []int{(ki + si) % 2, 2 + (ki+si)%4}
				}
			}
			for vi, v := range use {
				// which fragmentations: all of them for the primary kinds and (thorough) small sizes,
				// otherwise those tied to the size plus a rotating selection of the rest
				var fs []string
				switch {
				case ki < primary && v == 0, g.Thorough() && d == 3:
					fs = frags
				case d == 3:
					fs = append(fs, frags[:7]...)
					for j := 0; j < 3; j++ {
						fs = append(fs, frags[7+(ki+si+vi+3*j)%(len(frags)-7)])
					}
				case d >= 1:
					for j := 0; j < 4; j++ {
						fs = append(fs, frags[(ki+si+vi+rot+2*j)%7])
					}
					for j := 0; j < 2; j++ {
						fs = append(fs, frags[7+(ki+si+vi+rot+3*j)%(len(frags)-7)])
					}
				default:
					for j := 0; j < 5; j++ {
						fs = append(fs, frags[(ki+si+vi+rot+3*j)%len(frags)])
					}
				}
				for _, f := range fs {
					g.Emit("N "+f+" "+hs+" "+variants[v], true, "scale-session", tagN, "scale-frag-"+f)
				}
			}
		}
		// a long token followed by a long remainder: Rest right after the token has about n more bytes
		// to hand back, most of them already buffered
		if d > 0 || si%3 == rot%3 {
			k := runKinds[(si+rot)%primary]
			s := "p0 " + k.mk(n) + " " + rep("t1 t22\tt333\n", n)
			hs := hx(s)
			for j := 0; j < 6; j++ {
				f := frags[(si+rot+3*j)%len(frags)]
				g.Emit("N "+f+" "+hs+" nnrnr", true, "scale-long-tail", tagN, "scale-frag-"+f)
			}
		}
		// token COUNT at the size: n short tokens of one shape, one separator each (the reference is
		// quadratic in the number of tokens: 4097 is 0.3 s, 16385 would be 5 s per evaluation)
		if n <= 4097 || g.Thorough() && n <= 8193 {
			shapes := []string{"a", "''", "ab", "\"x y\"", "\\ "}
			seps := []string{" ", "\t", "\n"}
			s := strings.Repeat(shapes[(si+rot)%len(shapes)]+seps[(si/3+rot)%len(seps)], n)
			hs := hx(s)
			g.Emit("S "+hs, true, "scale-count", tagN)
			cv := []string{"sne", "ae", strings.Repeat("n", n+2) + "e", strings.Repeat("n", n/2) + "rn", strings.Repeat("n", n-1) + "cnrn"}
			for vi, v := range cv {
				if d < 2 && vi != (si+rot)%len(cv) {
					continue
				}
				for j := 0; j < 3; j++ {
					f := frags[(si+rot+vi+5*j)%len(frags)]
					g.Emit("N "+f+" "+hs+" "+v, true, "scale-count", tagN, "scale-frag-"+f)
				}
			}
		}
		// every byte value as the whole body of a run just over the small thresholds: bare, in
		// single and in double quotes
		if n == 65 || n == 257 || (g.Thorough() && n == 4097) {
			for b := 0; b < 256; b++ {
				r := rep(string([]byte{byte(b)}), n)
				g.Emit("S "+hx("x "+r+" y"), true, "scale-every-byte")
				g.Emit("S "+hx("'"+r+"' \""+r+"\" z"), true, "scale-every-byte")
				g.Emit("N "+frags[(b%6)+1]+" "+hx("'"+r+"' z")+" nrn", true, "scale-every-byte")
			}
		}
	}
}
