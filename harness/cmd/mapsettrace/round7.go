// Round 7: irreflexive elements (ROUND7_GUIDE.md class 4).
//
// A NaN is a legal map key that is not equal to itself.  The Go specification fixes what the built-in
// map does with it: every insertion of a NaN adds a NEW entry, m[NaN] finds nothing, delete(m, NaN)
// removes nothing, ranging over the map yields every NaN entry, len counts them, maps.Clone copies
// them -- and clear(m) is the ONE operation that removes them.  Up to round 6 every float-typed kind
// left NaN out (encFloat: "no NaN, outside the theorems"), so a Clear that is written as
// range-and-delete looked exactly like the real one.  The kinds
//
//	LNf float64    LNg float32    LNa any (float64 and float32 NaNs next to ints, strings, floats)
//	LNr struct{F float64; S string} (a NaN in a field makes the whole key irreflexive)
//
// run the typed API on sets that hold NaN members.  Codes: -1 is a NaN (LNa: -1 a float64 NaN, -2 a
// float32 NaN; LNr: -1 {NaN, "a"}, -2 {NaN, ""}); every other code c >= 0 is an ordinary value
// (LNf/LNg c + 0.5 except 0 -> 0; LNa as encAny; LNr {c, ""}).  Every occurrence of a NaN code is a
// NaN value of its own.  Operations (a subset of main.go's, same spelling):
//
//	new:i:L nil:i clone:i:j isect:i:J add:i:L addall:i:j rm:i:L rmall:i:j clear:i pop:i:X
//	has:i:x hasall:i:L hasany:i:L len:i empty:i eq:i:j sub:i:j meets:i:j slice:i
//
// (addall:i:i is refused: inserting NaN keys into the map being ranged over has no defined count.)
// X is an ORACLE field as in main.go: the code Pop returned, written back into the recorded input.
//
// res:  C1 a constructor returned a non-nil map that no variable held before (C0 otherwise);
// R1 a mutator returned the map its receiver variable holds after the call (R0 otherwise);
// b0/b1, i<n>, e<code> (Pop), l<nonnil>:<NaNs listed>:<ordinary codes listed, sorted>.
// dump: n (nil) or <Len><E|F IsEmpty>:<Has over 0..3 and a NaN>:<NaN members met by ranging>:<sorted
// ordinary codes met by ranging>:<length of Slice()>.
//
// The lines are not replayed on the extracted model (its elements have a decidable equality that is
// reflexive: NaN is outside the theorems).  ocaml/mapset_driver.ml predicts the output by the rules of
// the language quoted above (eval_nan: an ordinary set and a count of NaN members per variable) and
// decides the property on the implementation's output in spec_nan.  bin/incoq-mapset skips every
// line whose kind starts with L.
package main

import (
	"math"
	"sort"
	"strconv"
	"strings"

	"github.com/creachadair/mds/mapset"
	"verif/harness/internal/tr"
)

// rule7 is put in front of the rule text of main.go
const rule7 = "C18: ROUND 7 (kinds LNf LNg LNa LNr, round7.go): sets of float64 / float32 / any / struct{F float64; S string} elements that hold NaN MEMBERS (1, 2, 3 and 7..129 of them, alone and next to ordinary members; built by New, Add, AddAll, Clone) under Clear (then Len, IsEmpty, Slice, Has, Equals, Clone and further writes), Has/HasAll/HasAny/Equals/IsSubset/Intersects/Intersect/Slice/Clone/Remove/RemoveAll/AddAll with the NaN in the receiver, in the argument and in both, Pop (oracle field), and random histories over {NaN, 0..3}; not replayed on the model (NaN is outside the theorems): the driver's reference is the built-in map of the Go specification driven by the same calls, the property clause is Clear: Len 0, IsEmpty, nothing met by ranging, Slice empty. "

type frec struct {
	F float64
	S string
}

// nanWorld: the element type of an LN kind
type nanWorld[T comparable] struct {
	enc   func(int) T // codes >= 0: injective, 0 -> the zero value; codes < 0: a NaN
	dec   map[T]int
	nanOK func(int) bool // which negative codes exist
}

func (w *nanWorld[T]) ok(c int) bool { return c >= 0 && c < 1<<20 || c < 0 && w.nanOK(c) }

func (w *nanWorld[T]) e(c int) T {
	v := w.enc(c)
	if c >= 0 {
		w.dec[v] = c
	}
	return v
}

// d: the code of a value that came back (any irreflexive value prints as -1, a value never handed in as unknownCode)
func (w *nanWorld[T]) d(v T) int {
	if v != v {
		return -1
	}
	if c, ok := w.dec[v]; ok {
		return c
	}
	return unknownCode
}

func runNaN(f []string, in string) (string, string) {
	one := func(c int) bool { return c == -1 }
	two := func(c int) bool { return c == -1 || c == -2 }
	switch f[0] {
	case "LNf":
		return runNaNT(&nanWorld[float64]{enc: func(c int) float64 {
			if c < 0 {
				return math.NaN()
			}
			if c == 0 {
				return 0
			}
			return float64(c) + 0.5
		}, dec: map[float64]int{}, nanOK: one}, f, in)
	case "LNg":
		return runNaNT(&nanWorld[float32]{enc: func(c int) float32 {
			if c < 0 {
				return float32(math.NaN())
			}
			if c == 0 {
				return 0
			}
			return float32(c) + 0.5
		}, dec: map[float32]int{}, nanOK: one}, f, in)
	case "LNa":
		ea := encAny(ptrTable{})
		return runNaNT(&nanWorld[any]{enc: func(c int) any {
			switch c {
			case -1:
				return math.NaN()
			case -2:
				return float32(math.NaN())
			}
			return ea(c)
		}, dec: map[any]int{}, nanOK: two}, f, in)
	case "LNr":
		return runNaNT(&nanWorld[frec]{enc: func(c int) frec {
			switch c {
			case -1:
				return frec{math.NaN(), "a"}
			case -2:
				return frec{math.NaN(), ""}
			}
			return frec{float64(c), ""}
		}, dec: map[frec]int{}, nanOK: two}, f, in)
	}
	return in, "?"
}

func nanDump[T comparable](w *nanWorld[T], m mapset.Set[T]) string {
	if m == nil {
		if m.Len() != 0 || !m.IsEmpty() || m.Has(w.e(0)) || len(m.Slice()) != 0 {
			return "n!"
		}
		return "n"
	}
	var keys []int
	nans := 0
	for k := range m {
		if c := w.d(k); c == -1 {
			nans++
		} else {
			keys = append(keys, c)
		}
	}
	sort.Ints(keys)
	var mask strings.Builder
	for x := 0; x < 4; x++ {
		mask.WriteString(tr.B(m.Has(w.e(x))))
	}
	mask.WriteString(tr.B(m.Has(w.e(-1))))
	e := "F"
	if m.IsEmpty() {
		e = "E"
	}
	return strconv.Itoa(m.Len()) + e + ":" + mask.String() + ":" + strconv.Itoa(nans) + ":" + tr.Ints(keys) + ":" + strconv.Itoa(len(m.Slice()))
}

func runNaNT[T comparable](w *nanWorld[T], f []string, in string) (string, string) {
	k, err := strconv.Atoi(f[1])
	if err != nil || k < 1 || k > 8 {
		return in, "?"
	}
	for c := 0; c < 4; c++ {
		w.e(c) // (Pop of an empty set returns the zero value: known before the first dump)
	}
	vars := make([]mapset.Set[T], k)
	var keep []mapset.Set[T] // every map ever held stays reachable: addresses are not reused
	var ops []string
	if len(f) >= 3 {
		ops = strings.Split(f[2], ";")
	}
	outs := make([]string, 0, len(ops))
	newOps := make([]string, 0, len(ops))
	for _, op := range ops {
		nop, res := nanOp(w, vars, op)
		keep = append(keep, vars...)
		newOps = append(newOps, nop)
		var sb strings.Builder
		sb.WriteString(res)
		for j := range vars {
			sb.WriteString("/")
			sb.WriteString(nanDump(w, vars[j]))
		}
		outs = append(outs, sb.String())
	}
	_ = keep
	return f[0] + " " + f[1] + " " + strings.Join(newOps, ";"), strings.Join(outs, ";")
}

func nanOp[T comparable](w *nanWorld[T], vars []mapset.Set[T], op string) (nop string, res string) {
	nop = op
	p := strings.Split(op, ":")
	bad := func() (string, string) { return op, "?" }
	if len(p) < 2 || len(p) > 3 {
		return bad()
	}
	i, err := strconv.Atoi(p[1])
	if err != nil || i < 0 || i >= len(vars) {
		return bad()
	}
	arg := "."
	if len(p) == 3 {
		arg = p[2]
	}
	list := func() ([]T, bool) {
		l, ok := parseList(arg)
		if !ok {
			return nil, false
		}
		out := make([]T, len(l))
		for n, c := range l {
			if !w.ok(c) {
				return nil, false
			}
			out[n] = w.e(c)
		}
		return out, true
	}
	other := func() (int, bool) {
		j, err := strconv.Atoi(arg)
		return j, err == nil && j >= 0 && j < len(vars)
	}
	ctor := func(r mapset.Set[T]) string {
		fresh := r != nil
		for _, v := range vars {
			if v != nil && r != nil && ptr(v) == ptr(r) {
				fresh = false
			}
		}
		vars[i] = r
		return "C" + tr.B(fresh)
	}
	recv := func(r mapset.Set[T]) string {
		same := (r == nil && vars[i] == nil) || (r != nil && vars[i] != nil && ptr(r) == ptr(vars[i]))
		return "R" + tr.B(same)
	}
	switch p[0] {
	case "new":
		l, ok := list()
		if !ok {
			return bad()
		}
		return op, ctor(mapset.New(l...))
	case "nil":
		vars[i] = nil
		return op, "R1"
	case "clone":
		j, ok := other()
		if !ok {
			return bad()
		}
		return op, ctor(vars[j].Clone())
	case "isect":
		js, ok := parseList(arg)
		if !ok {
			return bad()
		}
		ss := make([]mapset.Set[T], len(js))
		for n, j := range js {
			if j < 0 || j >= len(vars) {
				return bad()
			}
			ss[n] = vars[j]
		}
		return op, ctor(mapset.Intersect(ss...))
	case "add":
		l, ok := list()
		if !ok {
			return bad()
		}
		return op, recv(vars[i].Add(l...))
	case "addall":
		j, ok := other()
		if !ok || j == i {
			return bad()
		}
		return op, recv(vars[i].AddAll(vars[j]))
	case "rm":
		l, ok := list()
		if !ok {
			return bad()
		}
		return op, recv(vars[i].Remove(l...))
	case "rmall":
		j, ok := other()
		if !ok {
			return bad()
		}
		return op, recv(vars[i].RemoveAll(vars[j]))
	case "clear":
		if len(p) != 2 {
			return bad()
		}
		return op, recv(vars[i].Clear())
	case "pop":
		x := w.d(vars[i].Pop())
		return "pop:" + p[1] + ":" + strconv.Itoa(x), "e" + strconv.Itoa(x)
	case "has":
		l, ok := list()
		if !ok || len(l) != 1 {
			return bad()
		}
		return op, "b" + tr.B(vars[i].Has(l[0]))
	case "hasall":
		l, ok := list()
		if !ok {
			return bad()
		}
		return op, "b" + tr.B(vars[i].HasAll(l...))
	case "hasany":
		l, ok := list()
		if !ok {
			return bad()
		}
		return op, "b" + tr.B(vars[i].HasAny(l...))
	case "len":
		return op, "i" + strconv.Itoa(vars[i].Len())
	case "empty":
		return op, "b" + tr.B(vars[i].IsEmpty())
	case "eq", "sub", "meets":
		j, ok := other()
		if !ok {
			return bad()
		}
		switch p[0] {
		case "eq":
			return op, "b" + tr.B(vars[i].Equals(vars[j]))
		case "sub":
			return op, "b" + tr.B(vars[i].IsSubset(vars[j]))
		}
		return op, "b" + tr.B(vars[i].Intersects(vars[j]))
	case "slice":
		s := vars[i].Slice()
		var keys []int
		nans := 0
		for _, v := range s {
			if c := w.d(v); c == -1 {
				nans++
			} else {
				keys = append(keys, c)
			}
		}
		sort.Ints(keys)
		return op, "l" + tr.B(s != nil) + ":" + strconv.Itoa(nans) + ":" + tr.Ints(keys)
	}
	return bad()
}

// ---- generation

var nanKinds = []string{"LNf", "LNg", "LNa", "LNr"}

// round7: NaN members under every operation of the typed API.
func (g *gen) round7() {
	for _, kind := range nanKinds {
		tag := func(t string) []string { return []string{"round7", "r7-nan", "r7-nan-" + kind, t} }
		n2 := "-1"
		if kind == "LNa" || kind == "LNr" {
			n2 = "-2"
		}
		// Clear on a set that holds NaN members: 1, 2, 3 of them, alone and next to ordinary members, built
		// by New, Add (one call, several calls), AddAll and Clone; the cleared set used again afterwards
		for _, build := range []string{
			"new:0:-1", "new:0:-1," + n2, "new:0:-1,1,-1,2," + n2, "new:0:0,-1", "add:0:-1", "add:0:1;add:0:-1;add:0:" + n2 + ";add:0:-1",
			"new:1:-1,2;addall:0:1", "new:1:-1,2;new:0:3;addall:0:1", "new:1:" + n2 + ",-1,5;clone:0:1", "new:1:-1;clone:0:1;add:0:-1",
		} {
			g.emit(kind+" 2 "+build+";len:0;clear:0;len:0;empty:0;slice:0;has:0:-1;add:0:1,-1;clear:0;eq:0:1;clone:1:0", true, tag("r7-clear-with-nan")...)
		}
		// every other operation with a NaN in the receiver, in the argument, in both
		for _, a := range []string{"new:0:-1,1,2", "new:0:1,2", "new:0:-1", "nil:0", "new:0:."} {
			for _, b := range []string{"new:1:-1,2,3", "new:1:2,3", "new:1:" + n2, "nil:1", "new:1:1,2,-1"} {
				g.emit(kind+" 3 "+a+";"+b+";has:0:-1;has:0:1;hasall:0:1,-1;hasall:0:1,2;hasany:0:-1;hasany:0:-1,2;len:0;empty:0;"+
					"eq:0:1;eq:0:0;sub:0:1;sub:1:0;sub:0:0;meets:0:1;meets:0:0;isect:2:0,1;isect:2:0;isect:2:0,0;slice:0;clone:2:0;eq:2:0;rm:2:-1;rm:2:1,-1;"+
					"rmall:2:1;rmall:2:2;addall:2:1;addall:2:0;len:2;clear:2;len:2;addall:2:1;clear:1;clear:0", true, tag("r7-every-operation-with-nan")...)
			}
		}
		// Pop on sets with NaN members (the popped code is an oracle field), then Clear
		for _, a := range []string{"new:0:-1", "new:0:-1,1", "new:0:-1,-1,1,2", "new:0:1,2,3"} {
			g.emit(kind+" 1 "+a+";pop:0:?;len:0;pop:0:?;len:0;pop:0:?;clear:0;pop:0:?;len:0", true, tag("r7-pop-with-nan")...)
		}
		// many NaN members: 2^k-1, 2^k, 2^k+1 of them (the map grows past its first bucket), then Clear
		for _, n := range []int{7, 8, 9, 15, 16, 17, 63, 64, 65, 127, 128, 129} {
			l := strings.TrimSuffix(strings.Repeat("-1,", n), ",")
			g.emit(kind+" 2 new:0:"+l+",1;add:0:"+l+";len:0;clone:1:0;clear:0;len:0;slice:0;len:1;clear:1;empty:1", true, tag("r7-many-nan")...)
		}
		// random histories over {NaN, 0, 1, 2, 3}
		for n := 0; n < g.o.Scale(150, 3000); n++ {
			k := 2 + g.r.Intn(2)
			item := func() string {
				if g.r.Chance(1, 3) {
					if n2 == "-2" && g.r.Chance(1, 2) {
						return "-2"
					}
					return "-1"
				}
				return strconv.Itoa(g.r.Intn(4))
			}
			lst := func() string {
				m := g.r.Intn(4)
				if m == 0 {
					return "."
				}
				var xs []string
				for ; m > 0; m-- {
					xs = append(xs, item())
				}
				return strings.Join(xs, ",")
			}
			v := func() string { return strconv.Itoa(g.r.Intn(k)) }
			var ops []string
			for m := 3 + g.r.Intn(10); m > 0; m-- {
				i := v()
				switch g.r.Intn(16) {
				case 0, 1:
					ops = append(ops, "new:"+i+":"+lst())
				case 2, 3, 4:
					ops = append(ops, "add:"+i+":"+lst())
				case 5:
					ops = append(ops, "rm:"+i+":"+lst())
				case 6, 7:
					ops = append(ops, "clear:"+i)
				case 8:
					ops = append(ops, "clone:"+i+":"+v())
				case 9:
					if j := v(); j != i {
						ops = append(ops, "addall:"+i+":"+j)
					}
				case 10:
					ops = append(ops, "rmall:"+i+":"+v())
				case 11:
					ops = append(ops, "pop:"+i+":?")
				case 12:
					ops = append(ops, "eq:"+i+":"+v())
				case 13:
					ops = append(ops, "sub:"+i+":"+v(), "meets:"+i+":"+v())
				case 14:
					ops = append(ops, "hasall:"+i+":"+lst(), "hasany:"+i+":"+lst())
				case 15:
					ops = append(ops, "isect:"+i+":"+v()+","+v(), "slice:"+i)
				}
			}
			if len(ops) > 0 {
				g.emit(kind+" "+strconv.Itoa(k)+" "+strings.Join(ops, ";"), true, tag("r7-nan-random-history")...)
			}
		}
	}
}
