// Round 3: the SCALE stream of mapsettrace (kinds Si Sx Ss St, see main.go for the line format).
//
// Sets of 2^k-1, 2^k, 2^k+1 members for k = 1..12 (Go maps change representation at 8 entries and
// then grow by doubling), a few random large sizes, on four element types (ints, extreme ints,
// strings, structs; code 0 is the zero value of the type and a member of almost every set):
//
//	battery   every observer and every variadic call on the big set (no items, repeats, more arguments
//	          than members, non-members), the zero value removed/re-added/popped, every self-application,
//	          constructors from sequences with repeats, a set emptied by Remove / Clear and used again
//	pairs     every binary operation on (nil, empty non-nil, emptied by Remove, cleared, singleton, big)
//	          x the same, results and operands mutated afterwards
//	drain     Pop until empty and twice more (the spec demands each member exactly once)
//	regrow    grow in chunks, drain to 1/8 by Pop or by Remove, every observer on what is left
//	          (Has asked about every element of the universe), regrow, compare with a clone
//	histories random histories whose item lists are runs of about 2^k elements
//
// The extracted model validates every iteration order in quadratic time, so what is limited is the
// NUMBER of big cases, not their size (Pop until empty is cubic in the model: up to 1025 members in
// the quick tier, 2049 in the thorough tier; 4095..4097 are popped 40 times and then emptied by Remove).
package main

import (
	"fmt"
	"strconv"
	"strings"
)

var scaleKinds = []string{"Si", "Sx", "Ss", "St"}

// run of codes lo, lo+1, ... below hi as a list item ("" when empty)
func run1(lo, hi int) string {
	switch {
	case hi <= lo:
		return ""
	case hi == lo+1:
		return strconv.Itoa(lo)
	}
	return fmt.Sprintf("%d~%d", lo, hi)
}

// run of codes lo, lo+step, ... below hi
func runStep(lo, hi, step int) string {
	if hi <= lo {
		return ""
	}
	return fmt.Sprintf("%d~%d~%d", lo, hi, step)
}

// list joins items, dropping empty ones ("." when nothing is left)
func list(items ...string) string {
	var out []string
	for _, it := range items {
		if it != "" && it != "." {
			out = append(out, it)
		}
	}
	if len(out) == 0 {
		return "."
	}
	return strings.Join(out, ",")
}

func ops(o ...string) string { return strings.Join(o, ";") }

func sizeTags(n int) []string {
	t := []string{"scale"}
	switch {
	case n > 2048:
		t = append(t, "scale-size>2048")
	case n > 256:
		t = append(t, "scale-size-257..2048")
	case n > 8:
		t = append(t, "scale-size-9..256")
	default:
		t = append(t, "scale-size<=8")
	}
	return t
}

func (g *gen) semit(kind string, k int, n int, body string, tags ...string) {
	t := append(sizeTags(n), "scale-type-"+kind)
	g.emit(fmt.Sprintf("%s %d %s", kind, k, body), true, append(t, tags...)...)
}

// slim: sizes from which the slim forms are used (the extracted model is quadratic per call):
// above 1025 members in the quick tier, above 4097 in the thorough tier.
func (g *gen) slim(n int) bool { return n > g.o.Scale(1025, 4097) }

// slimBattery: the battery for sets above 1025 members in the quick tier -- every method once or
// twice in ONE case (the model is quadratic per call).
func (g *gen) slimBattery(kind string, n int) {
	all := run1(0, n)
	S := func(x int) string { return strconv.Itoa(x) }
	g.semit(kind, 2, n, ops("new:0:"+list(all), "len:0", "empty:0", "has:0:0", "has:0:"+S(n-1), "has:0:"+S(n), "hasd:0:"+run1(-2, n+2),
		"hasall:0:"+list(all, "0", S(n-1), S(n-1)), "hasall:0:"+list(S(n), all), "hasall:0:.", "hasany:0:"+list(run1(n, n+3), S(n-1), S(n-1)), "hasany:0:.",
		"slice:0:?", "appendf:0:7,7:?", "addall:0:0", "meets:0:0", "isect:1:0,0", "rm:1:0,0", "has:1:0", "eq:0:1", "sub:1:0", "add:1:0,0",
		"rmall:1:1", "empty:1", "pop:1:?", "add:1:0", "pop:1:?", "pop:1:?", "rm:0:.", "add:0:.", "pop:0:?", "pop:0:?", "rm:0:"+list(runStep(0, n, 2), "0", "0"), "has:0:0", "len:0", "add:0:"+list("0", "0", S(n)), "len:0",
		"rm:0:"+list(run1(1, n+5)), "len:0", "pop:0:?", "empty:0", "slice:0:?", "clear:0", "pop:0:?", "keys:0:"+list(runStep(0, n, 2)), "values:1:"+list(runStep(0, n, 4), "0"), "range:1:"+list(runStep(1, n, 4), "1")+":"+g.seqKind(n), "meets:0:1", "len:1"),
		"scale-slim-battery", "items-with-repeats", "no-items", "self-application", "zero-value-popped")
}

// shortBattery: 2^e-1 above 1025 in the quick tier.
func (g *gen) shortBattery(kind string, n int) {
	all := run1(0, n)
	S := func(x int) string { return strconv.Itoa(x) }
	g.semit(kind, 1, n, ops("new:0:"+list(all), "len:0", "has:0:0", "hasd:0:"+run1(-2, n+2), "hasall:0:"+list(all, "0", S(n-1)), "hasany:0:"+list(S(n), S(n), "0"), "slice:0:?",
		"pop:0:?", "rm:0:0,0", "has:0:0", "add:0:0", "rmall:0:0", "empty:0", "pop:0:?", "add:0:"+list(runStep(0, n, 4), "0"), "len:0", "clear:0", "len:0"),
		"scale-short-battery", "items-with-repeats", "self-application")
}

// battery: one big set, everything the API offers on it.
func (g *gen) battery(kind string, n int) {
	if g.slim(n) {
		g.slimBattery(kind, n)
		return
	}
	all := run1(0, n)
	S := func(x int) string { return strconv.Itoa(x) }
	// observers and variadic predicates
	g.semit(kind, 1, n, ops("new:0:"+list(all), "len:0", "empty:0", "has:0:0", "has:0:"+S(n-1), "has:0:"+S(n), "has:0:-1",
		"hasd:0:"+run1(-2, n+2),
		"hasall:0:"+list(all), "hasall:0:"+list(all, all), "hasall:0:0,0,0", "hasall:0:"+list(all, "0", S(n-1), S(n-1)), "hasall:0:"+run1(0, n+1), "hasall:0:"+list(S(n), all), "hasall:0:.",
		"hasany:0:"+run1(n, n+3), "hasany:0:"+list(run1(n, n+3), S(n-1), S(n-1)), "hasany:0:"+list("-1", "-1", "0"), "hasany:0:.",
		"slice:0:?", "append:0:n:?", "append:0:7,7:?", "appendf:0:7,7:?", "appendf:0:.:?", "append:0:.:?", "len:0"),
		"scale-observers", "items-with-repeats", "no-items")
	// the zero value as a member: removed, asked for, re-added, popped from a singleton
	g.semit(kind, 2, n, ops("new:0:"+list(all), "rm:0:0", "has:0:0", "len:0", "hasall:0:0", "hasany:0:0", "add:0:0", "has:0:0", "rm:0:0,0,0", "add:0:0,0", "len:0",
		"new:1:0", "has:1:0", "slice:1:?", "pop:1:?", "len:1", "has:1:0", "pop:1:?", "add:1:0", "has:1:0", "rm:1:0", "empty:1", "range:1:0,0:"+g.seqKind(n+1), "pop:1:?", "empty:1",
		"keys:1:0", "pop:1:?", "values:1:0", "pop:1:?", "len:1", "isect:1:0,0", "has:1:0", "rmall:0:1", "has:0:0"),
		"scale-zero-value", "zero-value-popped")
	// self-application
	g.semit(kind, 2, n, ops("new:0:"+list(all), "addall:0:0", "len:0", "meets:0:0", "eq:0:0", "sub:0:0", "isect:1:0", "eq:1:0", "isect:1:0,0,0", "sub:0:1",
		"clone:1:0", "rmall:1:1", "len:1", "meets:1:1", "eq:1:1", "add:1:0", "rmall:0:0", "empty:0", "meets:0:0", "eq:0:0", "add:0:"+list(all), "addall:0:0", "eq:0:1", "sub:1:0"),
		"scale-self-application", "self-application")
	// variadic mutators: repeats, no items, non-members, more items than members; a size hint
	hint := min(n, 1<<16)
	g.semit(kind, 1, n, ops("newsize:0:"+S(hint), "add:0:"+list(all, all), "len:0", "rm:0:.", "add:0:.", "rm:0:"+list(runStep(0, n, 2), runStep(0, n, 2)), "len:0", "hasd:0:"+run1(0, n+1),
		"rm:0:"+run1(-5, 0), "add:0:"+list("0", "0", S(n), S(n)), "rm:0:"+run1(0, n+5), "len:0", "rm:0:0,0", "add:0:0", "len:0"),
		"scale-variadic", "items-with-repeats", "no-items")
	// constructors from sequences with repeats; the argument maps/slices are poisoned afterwards
	g.semit(kind, 2, n, ops("range:0:"+list(all, all)+":"+g.seqKind(n), "keys:1:"+list(all), "eq:0:1", "values:0:"+list(all, run1(0, n/2)), "eq:0:1", "sub:1:0", "new:0:"+list(runStep(0, n, 3), "0", "0"), "sub:0:1", "len:0",
		"clone:0:1", "eq:0:1", "add:0:"+S(n), "eq:0:1", "sub:1:0", "len:1"),
		"scale-constructors")
	// emptied by Remove, cleared: an empty set whose map has been big
	g.semit(kind, 1, n, ops("new:0:"+list(all), "rm:0:"+list(all), "len:0", "empty:0", "has:0:0", "slice:0:?", "append:0:7:?", "pop:0:?", "hasall:0:.", "hasall:0:0", "hasany:0:0", "add:0:"+run1(n, 2*n), "len:0", "clear:0",
		"pop:0:?", "slice:0:?", "empty:0", "add:0:"+list(all), "len:0", "hasd:0:"+run1(0, n+1)),
		"scale-emptied-reused")
}

type operand struct {
	name string
	mk   func(i, n int) string
}

var operands = []operand{
	{"nil", func(i, n int) string { return fmt.Sprintf("nil:%d", i) }},
	{"empty", func(i, n int) string { return fmt.Sprintf("new:%d:.", i) }},
	{"emptied", func(i, n int) string {
		return fmt.Sprintf("new:%d:%s;rm:%d:%s", i, list(run1(0, n)), i, list(run1(0, n)))
	}},
	{"cleared", func(i, n int) string { return fmt.Sprintf("new:%d:%s;clear:%d", i, list(run1(0, n)), i) }},
	{"single", func(i, n int) string { return fmt.Sprintf("new:%d:%d", i, (n-1)*i) }}, // {0} as receiver, {n-1} as argument
	{"big", func(i, n int) string {
		if i == 0 {
			return fmt.Sprintf("new:0:%s", list(run1(0, n)))
		}
		return fmt.Sprintf("new:%d:%s", i, list(run1(n/2, n+n/2))) // overlaps the receiver by half
	}},
}

// pairs: every binary operation on one ordered pair of operand shapes.
func (g *gen) pair(kind string, n int, a, b operand) {
	body := ops(a.mk(0, n), b.mk(1, n), "meets:0:1", "meets:1:0", "sub:0:1", "sub:1:0", "eq:0:1", "isect:2:0,1", "isect:2:1,0,1", "add:2:-3",
		"clone:2:0", "addall:2:1", "add:2:-3", "clone:2:0", "rmall:2:1", "addall:0:1", "eq:0:1", "sub:1:0", "add:0:-4", "rmall:1:0", "len:1", "add:1:-5", "len:0")
	if g.slim(n) {
		body = ops(a.mk(0, n), b.mk(1, n), "meets:0:1", "eq:0:1", "isect:2:1,0", "add:2:-3", "clone:2:0", "rmall:2:1", "addall:0:1", "sub:1:0", "add:0:-4", "len:1", "add:1:-5", "len:0")
	}
	tags := []string{"scale-pair", "scale-pair-" + a.name + "-" + b.name}
	if a.name == "nil" {
		tags = append(tags, "nil-receiver")
	}
	if b.name == "nil" {
		tags = append(tags, "nil-argument")
	}
	g.semit(kind, 3, n, body, tags...)
}

// equal big operands (the loops of Equals/IsSubset/Intersects run to their end) and a one-element difference
func (g *gen) equalPair(kind string, n int, bigger bool) {
	all := list(run1(0, n))
	if g.slim(n) {
		g.semit(kind, 2, n, ops("new:0:"+all, "clone:1:0", "eq:0:1", "sub:0:1", "meets:0:1", "rm:1:"+strconv.Itoa(n-1), "eq:0:1", "sub:0:1", "add:1:"+strconv.Itoa(n), "eq:0:1", "sub:1:0",
			"new:0:"+list(run1(n+1, 2*n)), "meets:0:1", "meets:1:0"), "scale-pair", "scale-pair-equal-big")
		if n <= 2049 && bigger {
			// operands of different big sizes: a disjoint set of twice the size, then a superset
			g.semit(kind, 2, n, ops("new:1:"+all, "new:0:"+list(run1(n+1, 3*n+3)), "sub:1:0", "sub:0:1", "eq:1:0", "meets:1:0", "add:0:"+all, "sub:1:0", "sub:0:1", "meets:0:1"), "scale-pair", "scale-pair-big-bigger")
		}
		return
	}
	g.semit(kind, 3, n, ops("new:0:"+all, "new:1:"+all, "eq:0:1", "sub:0:1", "sub:1:0", "meets:0:1", "rm:1:"+strconv.Itoa(n-1), "eq:0:1", "sub:0:1", "sub:1:0", "add:1:"+strconv.Itoa(n), "eq:0:1", "sub:0:1", "sub:1:0",
		"isect:2:0,1", "len:2", "rmall:0:1", "len:0", "meets:0:1", "new:2:"+list(run1(n, 2*n)), "meets:2:0", "meets:1:2", "isect:0:1,2", "len:0"), "scale-pair", "scale-pair-equal-big")
	if !bigger {
		return
	}
	// operands of different big sizes: a disjoint set of twice the size, then a superset
	g.semit(kind, 3, n, ops("new:1:"+all, "new:0:"+list(run1(n+1, 3*n+3)), "sub:1:0", "sub:0:1", "eq:1:0", "meets:1:0", "meets:0:1", "isect:2:0,1", "isect:2:1,0", "clone:2:1", "rmall:2:0", "len:2", "clone:2:0", "rmall:2:1", "len:2",
		"add:0:"+all, "sub:1:0", "sub:0:1", "meets:0:1", "isect:2:0,1", "eq:2:1", "rmall:0:1", "len:0", "addall:1:0", "len:1"), "scale-pair", "scale-pair-big-bigger")
}

// drain: Pop until empty and beyond.
func (g *gen) drain(kind string, n, pops int) {
	all := list(run1(0, n))
	o := []string{"new:0:" + all}
	for i := 0; i < pops; i++ {
		o = append(o, "pop:0:?")
	}
	tag := "scale-pop-until-empty"
	if pops < n {
		o = append(o, "len:0", "rm:0:"+all, "pop:0:?", "len:0")
		tag = "scale-pop-some"
	} else {
		o = append(o, "len:0", "add:0:0", "pop:0:?", "empty:0")
	}
	g.semit(kind, 1, n, ops(o...), tag, "zero-value-popped")
}

// regrow: grow in chunks, drain to n/8 (by Pop, or by Remove in chunks of `chunk` items), observe, regrow.
func (g *gen) regrow(kind string, n int, byPop bool, chunk int) {
	o := []string{"add:0:" + list(run1(0, n/4)), "add:0:" + list(run1(n/4, n/2), run1(0, 3)), "add:0:" + list(run1(n/2, n)), "len:0"}
	left := n / 8
	if byPop {
		for i := 0; i < n-left; i++ {
			o = append(o, "pop:0:?")
		}
	} else {
		// remove from the top down to `left` members: what is left is 0..left-1
		for hi := n; hi > left; hi -= chunk {
			o = append(o, "rm:0:"+list(run1(max(left, hi-chunk), hi)))
		}
	}
	all := list(run1(0, n))
	o = append(o, "len:0", "empty:0", "hasd:0:"+run1(-1, n+1), "slice:0:?", "appendf:0:7:?", "hasall:0:"+all, "hasany:0:"+all, "clone:1:0", "eq:0:1", "sub:0:1", "meets:0:1", "isect:1:0,1",
		"add:0:"+all, "len:0", "hasd:0:"+run1(-1, n+1), "eq:0:1", "sub:1:0", "rmall:0:1", "len:0", "addall:0:1", "len:0", "slice:0:?")
	tag := "scale-grow-remove-regrow"
	if byPop {
		tag = "scale-grow-pop-regrow"
	}
	g.semit(kind, 2, n, ops(o...), tag)
}

// a random history whose item lists are runs of about 2^k codes
func (g *gen) scaleHistory(kind string, maxN int) {
	k := g.r.Range(2, 3)
	v := func() int { return g.r.Intn(k) }
	size := func() int {
		e := g.r.Range(1, 12)
		for 1<<e+1 > maxN {
			e--
		}
		return 1<<e + g.r.Intn(3) - 1
	}
	rl := func() string {
		n := size()
		lo := g.r.Intn(3) * (maxN / 4)
		if g.r.Chance(1, 3) {
			lo = 0
		}
		switch g.r.Intn(6) {
		case 0:
			return list(run1(lo, lo+n), run1(lo, lo+n/2)) // repeats
		case 1:
			return list(runStep(lo, lo+2*n, 2))
		case 2:
			return list("0", run1(lo, lo+n), "0")
		}
		return list(run1(lo, lo+n))
	}
	n := g.r.Range(8, 24)
	var o []string
	for len(o) < n {
		i, j := v(), v()
		switch c := g.r.Intn(100); {
		case c < 18:
			o = append(o, fmt.Sprintf("add:%d:%s", i, rl()))
		case c < 28:
			o = append(o, fmt.Sprintf("addall:%d:%d", i, j))
		case c < 38:
			o = append(o, fmt.Sprintf("rm:%d:%s", i, rl()))
		case c < 46:
			o = append(o, fmt.Sprintf("rmall:%d:%d", i, j))
		case c < 54:
			for x := g.r.Range(1, 5); x > 0; x-- {
				o = append(o, fmt.Sprintf("pop:%d:?", i))
			}
		case c < 56:
			o = append(o, fmt.Sprintf("clear:%d", i))
		case c < 58:
			o = append(o, fmt.Sprintf("nil:%d", i))
		case c < 63:
			if ctor := []string{"new", "range", "keys", "values"}[g.r.Intn(4)]; ctor == "range" {
				o = append(o, fmt.Sprintf("range:%d:%s:%s", i, rl(), seqKinds[g.r.Intn(len(seqKinds))])) // round 6: the kind of sequence
			} else {
				o = append(o, fmt.Sprintf("%s:%d:%s", ctor, i, rl()))
			}
		case c < 67:
			o = append(o, fmt.Sprintf("clone:%d:%d", i, j))
		case c < 73:
			o = append(o, fmt.Sprintf("isect:%d:%s", i, []string{fmt.Sprint(j), fmt.Sprintf("%d,%d", i, j), fmt.Sprintf("%d,%d,%d", j, i, j), "."}[g.r.Intn(4)]))
		case c < 80:
			o = append(o, fmt.Sprintf("%s:%d:%s", []string{"hasall", "hasany", "hasd"}[g.r.Intn(3)], i, rl()))
		case c < 91:
			o = append(o, fmt.Sprintf("%s:%d:%d", []string{"meets", "sub", "eq"}[g.r.Intn(3)], i, j))
		case c < 95:
			o = append(o, fmt.Sprintf("slice:%d:?", i))
		default:
			o = append(o, fmt.Sprintf("%s:%d:%s:?", []string{"append", "appendf"}[g.r.Intn(2)], i, []string{"n", ".", "8", "8,9,8"}[g.r.Intn(4)]))
		}
	}
	g.semit(kind, k, maxN, ops(o...), "scale-random-history")
}

func (g *gen) scale() {
	th := g.o.Thorough()
	ki := 0
	next := func() string { ki++; return scaleKinds[ki%len(scaleKinds)] }
	for e := 1; e <= 12; e++ {
		for d := -1; d <= 1; d++ {
			n := 1<<e + d
			if n < 1 || (e == 2 && d == -1) { // 3 = 2^1+1 = 2^2-1 once
				continue
			}
			if n > 1025 && !th {
				// quick tier above 1025 members: the model is quadratic per call, so one slim battery
				// (a shorter one at 2^e-1), big x big, and at 2^e+1 the pairs of big with the empty shapes
				if d == 1 {
					g.slimBattery(next(), n)
				} else {
					g.shortBattery(next(), n)
				}
				if d == 1 || (e == 11 && d == -1) {
					g.pair(next(), n, operands[5], operands[5])
				}
				if d == 1 {
					g.pair(next(), n, operands[0], operands[5]) // nil x big
					if e == 11 {
						g.pair(next(), n, operands[5], operands[3]) // big x cleared
						g.pair(next(), n, operands[2], operands[5]) // emptied x big
						g.pair(next(), n, operands[5], operands[0])
						g.pair(next(), n, operands[4], operands[5])
						g.pair(next(), n, operands[5], operands[1])
					}
				}
				if d == 0 {
					g.equalPair(next(), n, false)
				}
				if d == 1 && e == 11 {
					g.equalPair(next(), n, true)
				}
				if e == 11 && d == 1 {
					g.drain(next(), n, 8)
				}
				continue
			}
			// batteries: all four element types on small sets, two on medium ones, one on big ones
			kinds := []string{next()}
			switch {
			case n <= 65:
				kinds = scaleKinds
			case n <= 129 || th && n <= 1025:
				kinds = append(kinds, next())
			}
			for _, kind := range kinds {
				g.battery(kind, n)
			}
			// operand pairs: all 36 at 2^e+1 (above 513: those with a big operand); at 2^e-1 and 2^e half of those with a big operand
			for ai, a := range operands {
				for bi, b := range operands {
					big := a.name == "big" || b.name == "big"
					switch {
					case d == 1 && (n <= 513 || big):
					case d != 1 && big && ((ai+bi)%2 == 0 && (n <= 257 || ai == bi) || th && n <= 1025):
					default:
						continue
					}
					g.pair(next(), n, a, b)
				}
			}
			g.equalPair(next(), n, n <= 129 || d == 1 || th)
			// Pop until empty
			switch {
			case n <= 257, n <= 513 && d != 0, n == 1025, th && n <= 1025, th && n == 2049:
				g.drain(next(), n, n+2)
			default:
				g.drain(next(), n, 12)
			}
		}
	}
	// grow - drain - regrow
	for _, n := range []int{16, 64, 256} {
		g.regrow(next(), n, true, 0)
		g.regrow(next(), n, false, 1)
	}
	g.regrow(next(), 512, true, 0)
	g.regrow(next(), 1024, false, 8)
	g.regrow(next(), 4096, false, 128)
	if th {
		g.regrow(next(), 1024, true, 0)
		g.regrow(next(), 8192, false, 256)
		for _, n := range []int{8191, 8192, 8193} {
			g.battery(next(), n)
			g.equalPair(next(), n, false)
		}
		g.pair(next(), 8193, operands[5], operands[5])
	}
	// a few random large sizes
	for i := 0; i < g.o.Scale(2, 8); i++ {
		n := g.r.Range(300, g.o.Scale(2500, 7000))
		g.battery(next(), n)
		g.equalPair(next(), n, i%2 == 0)
	}
	// random histories over runs
	for i := 0; i < g.o.Scale(150, 1500); i++ {
		g.scaleHistory(next(), []int{40, 300, 1100}[i%3])
	}
	for i := 0; i < g.o.Scale(1, 30); i++ {
		g.scaleHistory(next(), 4200)
	}
}
