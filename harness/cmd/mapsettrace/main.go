// Command mapsettrace drives mapset.Set of the working tree through histories over several named
// set variables (all nil at the start) and records every observable, one case per line:
//
//	<kind> <k> <op>;<op>;…  |  <res>/<dump v0>/…/<dump v(k-1)>;…
//
// kind is X (exhaustive small scope), B (big sets), H (random history) -- all three over int elements
// (round 5: So Sb Sh Sg = bool / uint8 / int16 / float32 elements, see round5.go)
// -- or one of the SCALE kinds Si Sx Ss St (round 3, generators in scale.go); k the number of
// variables.  Ops (i, j variable indices, L a comma list of ints or "." for none; an item of a list
// may also be a run lo~hi or lo~hi~step = lo, lo+step, ... below hi):
//
//	new:i:L newsize:i:n nil:i clone:i:j isect:i:J range:i:L|nil keys:i:L|nil values:i:L|nil   v_i = …
//	add:i:L addall:i:j rm:i:L rmall:i:j clear:i pop:i:X                                      mutators
//	has:i:x hasall:i:L hasany:i:L len:i empty:i meets:i:j sub:i:j eq:i:j                     predicates
//	slice:i:O append:i:V:O appendf:i:V:O                                                     V prefix (n = nil slice)
//	hasd:i:L                                                                                 Has of every item of L, one call each
//
// (append gives the prefix room for two more elements, appendf room for the whole set: the in-place
// path of Append; both are the model's Append.)
//
// Round 4 (inst.go, round4.go): more element types (kinds Sp Sa Sf Sz), a 4th field on keys / values /
// range / new / add / rm / hasall / hasany / isect naming the instantiation of the other type parameter
// or the form of the argument list, keysv / rangev (another set variable is the argument map) and
// appendc (Append onto a given spare capacity); see the head of inst.go.
//
// Scale kinds.  The elements in a trace line are always int CODES; the Go element type the code runs
// on is chosen by the second letter of the kind and the code is mapped to a value of that type by an
// injective function that sends code 0 to the zero value of the type:
//
//	Si int (the code itself)      Sx int, extreme values (MinInt64, MaxInt64, -1, ... then code*0x9E37...15 mod 2^64)
//	Ss string ("" for 0; short, long with a common prefix, multi-byte, with a NUL byte)
//	St struct{A int; B string; C [2]int8}
//
// Values coming back from the implementation (Pop, Slice, Append, ranging over the map) are mapped
// back through the table of all values handed in so far (a value never handed in prints as
// -999999999).  In the scale kinds every list of more than 64 elements in the OUTPUT (sorted members
// in a dump, sorted result of Slice/Append) and in the oracle field of slice/append is replaced by
// #<digest>, digest = two polynomial hashes (mod 2^31-1, mod 2^31-19) of the SORTED codes: map order
// is never compared.  The driver computes the same digest from the model's sorted members.
//
// (range:i:nil is Range of the nil iterator function, keys/values:i:nil the nil map; newsize takes
// any int, negative and huge hints included.)
//
// X (the element Pop returned) and O (the order in which Slice/Append listed the members) are
// decided by the Go runtime: they are ORACLE fields.  The harness ignores whatever the input says
// there, runs the implementation and writes the observed value back into the input it records, so
// the model can validate it against the specification of map iteration and then use it.
//
// res: for every call that returns a set  S<identity><=|!><0|1>  where identity says which map was
// returned, by address, relative to the state BEFORE the call: nil, new (an address never seen in
// this case; every map ever seen is kept alive, so addresses are not reused), v<j> (the map
// variable j held; smallest such j), old (seen before but held by no variable); = iff the
// receiver/destination variable holds the returned map after the call; the last digit is 1 iff
// poisoning (insert a sentinel into one map, look for it in the other) disagrees with the
// address comparison for the returned map against any map of the pre-state.
// e<x> Pop, b<0|1>, i<n>, l<nonnil>:<prefix as is>:<rest sorted>, PANIC:<kind>.
// dump: n (nil) or <Len><E|F IsEmpty>:<Has mask over 0..7>:<sorted keys by ranging the map>@<a>,
// a = the smallest index of a variable holding the same map (its own index unless two share one).
package main

import (
	"fmt"
	"iter"
	"maps"
	"math"
	"reflect"
	"slices"
	"sort"
	"strconv"
	"strings"

	"github.com/creachadair/mds/mapset"
	"verif/harness/internal/tr"
)

const sentinel = -7777777 // code of the poison element: never an element of any generated set
const unknownCode = -999999999
const maskN = 8
const digestOver = 64 // scale kinds: longer lists are printed as #<digest>

// world: the element type a case runs on.  enc maps a code to a value (injective, 0 -> zero value);
// dec is the table of everything handed in so far (nil: T is int and the code is the value).
type world[T comparable] struct {
	enc   func(int) T
	dec   map[T]int
	scale bool
	univ1 bool           // kinds Sz, So: the element type has no value to spare for a poison element (struct{}: ONE value, the only code is 0; bool: codes 0 and 1)
	okc   func(int) bool // which codes the type can express (nil: struct{} = code 0 only when univ1, else every code)
}

// ok: may the code occur in a case of this world?
func (w *world[T]) ok(c int) bool {
	if w.okc != nil {
		return c == sentinel || w.okc(c)
	}
	return !w.univ1 || c == 0
}

func (w *world[T]) okAll(l []int) bool {
	for _, c := range l {
		if !w.ok(c) {
			return false
		}
	}
	return true
}

func (w *world[T]) e(c int) T {
	v := w.enc(c)
	if w.dec != nil && !w.univ1 {
		if old, ok := w.dec[v]; ok && old != c {
			panic(fmt.Sprintf("harness: codes %d and %d map to the same value", old, c))
		}
		w.dec[v] = c
	}
	return v
}

func (w *world[T]) d(v T) int {
	if w.dec == nil {
		return any(v).(int)
	}
	if c, ok := w.dec[v]; ok {
		return c
	}
	return unknownCode
}

func (w *world[T]) es(l []int) []T {
	out := make([]T, len(l))
	for i, c := range l {
		out[i] = w.e(c)
	}
	return out
}

func (w *world[T]) ds(l []T) []int {
	out := make([]int, len(l))
	for i, v := range l {
		out[i] = w.d(v)
	}
	return out
}

// ints prints a list of codes; in the scale kinds a long one as its digest.
func (w *world[T]) ints(l []int) string {
	if w.scale && len(l) > digestOver {
		return "#" + digest(l)
	}
	return tr.Ints(l)
}

// digest of a sequence of codes (callers sort first): two polynomial hashes in 31-bit fields, so
// that the OCaml driver computes the same with native ints.
func digest(xs []int) string {
	const m1, p1 = 2147483647, 1000003
	const m2, p2 = 2147483629, 1000033
	h1, h2 := int64(7), int64(7)
	for _, x := range xs {
		a := (int64(x)%m1 + m1) % m1
		b := (int64(x)%m2 + m2) % m2
		h1 = (h1*p1 + a) % m1
		h2 = (h2*p2 + b) % m2
	}
	return fmt.Sprintf("%08x%08x", h1, h2)
}

// ---- the element types of the scale kinds

var extremes = []int{0, math.MinInt64, math.MaxInt64, -1, 1, math.MinInt64 + 1, math.MaxInt64 - 1, 1 << 32, -(1 << 32), 1 << 31, -(1 << 31) - 1, 1 << 53, 255, 256, -128, 1 << 62}

func encExtreme(c int) int {
	if c >= 0 && c < len(extremes) {
		return extremes[c]
	}
	return int(uint64(c) * 0x9E3779B97F4A7C15)
}

func encString(c int) string {
	if c == 0 {
		return ""
	}
	if c >= 1 && c <= len(collisions) {
		return collisions[c-1] // pairs with equal 32-bit hashes (FNV-1a, Java), see inst.go
	}
	s := strconv.Itoa(c)
	switch ((c % 5) + 5) % 5 {
	case 0:
		return "k" + s
	case 1:
		return s + strings.Repeat("é", 1+((c/5)%3+3)%3)
	case 2:
		return "a long prefix that all of these keys have in common: " + s
	case 3:
		return "\x00" + s
	}
	return s
}

type rec struct {
	A int
	B string
	C [2]int8
}

func encRec(c int) rec {
	b := ""
	if c&1 == 1 {
		b = "x"
	}
	return rec{A: c >> 1, B: b, C: [2]int8{int8(c % 5), int8((c >> 1) % 3)}}
}

func ptr[T comparable](m mapset.Set[T]) uintptr {
	if m == nil {
		return 0
	}
	return reflect.ValueOf(m).Pointer()
}

// parseList: "." / "" = none; items are ints or runs lo~hi / lo~hi~step.
func parseList(s string) ([]int, bool) {
	if s == "." || s == "" {
		return nil, true
	}
	parts := strings.Split(s, ",")
	out := make([]int, 0, len(parts))
	for _, p := range parts {
		if strings.Contains(p, "~") {
			q := strings.Split(p, "~")
			if len(q) < 2 || len(q) > 3 {
				return nil, false
			}
			lo, err1 := strconv.Atoi(q[0])
			hi, err2 := strconv.Atoi(q[1])
			step := 1
			if len(q) == 3 {
				var err3 error
				step, err3 = strconv.Atoi(q[2])
				if err3 != nil {
					return nil, false
				}
			}
			if err1 != nil || err2 != nil || step < 1 || hi-lo > 1<<22 {
				return nil, false
			}
			for x := lo; x < hi; x += step {
				out = append(out, x)
			}
			continue
		}
		n, err := strconv.Atoi(p)
		if err != nil {
			return nil, false
		}
		out = append(out, n)
	}
	return out, true
}

func dump[T comparable](w *world[T], vars []mapset.Set[T], idx int) string {
	m := vars[idx]
	if m == nil {
		// still ask the nil set everything the API offers
		if m.Len() != 0 || !m.IsEmpty() || m.Has(w.e(0)) || len(m.Slice()) != 0 {
			return "n!"
		}
		return "n"
	}
	keys := make([]int, 0, len(m))
	for k := range m {
		keys = append(keys, w.d(k))
	}
	sort.Ints(keys)
	var mask strings.Builder
	for x := 0; x < maskN; x++ {
		mask.WriteString(tr.B(w.ok(x) && m.Has(w.e(x))))
	}
	e := "F"
	if m.IsEmpty() {
		e = "E"
	}
	a := idx
	for j := 0; j < idx; j++ {
		if ptr(vars[j]) == ptr(m) {
			a = j
			break
		}
	}
	return strconv.Itoa(m.Len()) + e + ":" + mask.String() + ":" + w.ints(keys) + "@" + strconv.Itoa(a)
}

// poisoned reports whether a and b share storage, by mutating one and re-reading the other.
func poisoned[T comparable](w *world[T], a, b mapset.Set[T]) bool {
	if a == nil || b == nil {
		return false
	}
	if w.univ1 { // no second value to insert: the address is all there is
		return ptr(a) == ptr(b)
	}
	s := w.e(sentinel)
	res := false
	a[s] = struct{}{}
	if _, ok := b[s]; ok {
		res = true
	}
	delete(a, s)
	b[s] = struct{}{}
	if _, ok := a[s]; ok {
		res = true
	}
	delete(b, s)
	return res
}

// mem remembers every map address seen in the current case and keeps the maps reachable, so that a
// new allocation can never reuse the address of a dropped map.
type mem[T comparable] struct {
	seen map[uintptr]bool
	keep []mapset.Set[T]
}

func (c *mem[T]) note(ms ...mapset.Set[T]) {
	for _, m := range ms {
		if m != nil && !c.seen[ptr(m)] {
			c.seen[ptr(m)] = true
			c.keep = append(c.keep, m)
		}
	}
}

// ident: which map is r, relative to the variables as they were before the call; and does
// poisoning agree with the address comparison?
func (c *mem[T]) ident(w *world[T], pre []mapset.Set[T], r mapset.Set[T]) (string, bool) {
	if r == nil {
		return "nil", false
	}
	id := "new"
	if c.seen[ptr(r)] {
		id = "old"
	}
	for j := len(pre) - 1; j >= 0; j-- {
		if pre[j] != nil && ptr(pre[j]) == ptr(r) {
			id = "v" + strconv.Itoa(j)
		}
	}
	disagree := false
	for _, m := range pre {
		if m != nil && poisoned(w, r, m) != (ptr(r) == ptr(m)) {
			disagree = true
		}
	}
	return id, disagree
}

// run executes one case; it returns the input with the oracle fields filled in and the output.
func run(in string) (string, string) {
	f := strings.Fields(in)
	if len(f) < 2 {
		return in, "?"
	}
	switch f[0] {
	case "X", "B", "H":
		return runT(&world[int]{enc: func(c int) int { return c }}, f, in)
	case "LNf", "LNg", "LNa", "LNr": // round 7: sets with NaN members (round7.go; not replayed on the model)
		return runNaN(f, in)
	case "Si", "Li": // (L kinds, round 5: the same element types on sets of 2^15..2^16+1 members; not replayed on the model)
		return runT(&world[int]{enc: func(c int) int { return c }, scale: true}, f, in)
	case "Lx":
		return runT(&world[int]{enc: encExtreme, dec: map[int]int{0: 0}, scale: true}, f, in)
	case "Ls":
		return runT(&world[string]{enc: encString, dec: map[string]int{"": 0}, scale: true}, f, in)
	case "Lt":
		return runT(&world[rec]{enc: encRec, dec: map[rec]int{{}: 0}, scale: true}, f, in)
	case "Lf":
		return runT(&world[float64]{enc: encFloat, dec: map[float64]int{0: 0}, scale: true}, f, in)
	case "Sx":
		return runT(&world[int]{enc: encExtreme, dec: map[int]int{0: 0}, scale: true}, f, in)
	case "Ss":
		return runT(&world[string]{enc: encString, dec: map[string]int{"": 0}, scale: true}, f, in)
	case "St":
		return runT(&world[rec]{enc: encRec, dec: map[rec]int{{}: 0}, scale: true}, f, in)
	case "Sp":
		t := ptrTable{}
		return runT(&world[*int]{enc: t.get, dec: map[*int]int{nil: 0}, scale: true}, f, in)
	case "Sa":
		return runT(&world[any]{enc: encAny(ptrTable{}), dec: map[any]int{nil: 0}, scale: true}, f, in)
	case "Sf":
		return runT(&world[float64]{enc: encFloat, dec: map[float64]int{0: 0}, scale: true}, f, in)
	// round 5: the small element types -- bool (two values, codes 0 1), uint8 (codes -64..190; 191 is the
	// poison element), int16, float32
	case "So":
		return runT(&world[bool]{enc: func(c int) bool { return c == 1 }, dec: map[bool]int{false: 0, true: 1}, scale: true, univ1: true,
			okc: func(c int) bool { return c == 0 || c == 1 }}, f, in)
	case "Sb":
		return runT(&world[uint8]{enc: func(c int) uint8 {
			if c == sentinel {
				return 191
			}
			return uint8(c) // 0..190 and, for the negative codes -64..-1, 192..255
		}, dec: map[uint8]int{0: 0}, scale: true, okc: func(c int) bool { return c >= -64 && c <= 190 }}, f, in)
	case "Sh":
		return runT(&world[int16]{enc: func(c int) int16 { return int16(c) }, dec: map[int16]int{0: 0}, scale: true,
			okc: func(c int) bool { return c >= -20000 && c <= 20000 }}, f, in) // (the poison code maps to 21007)
	case "Sg":
		return runT(&world[float32]{enc: encFloat32, dec: map[float32]int{0: 0}, scale: true}, f, in)
	case "Sz":
		return runT(&world[struct{}]{enc: func(int) struct{} { return struct{}{} }, dec: map[struct{}]int{{}: 0}, scale: true, univ1: true}, f, in)
	}
	return in, "?"
}

func runT[T comparable](w *world[T], f []string, in string) (string, string) {
	k, err := strconv.Atoi(f[1])
	if err != nil || k < 1 || k > 8 {
		return in, "?"
	}
	vars := make([]mapset.Set[T], k)
	c := &mem[T]{seen: map[uintptr]bool{}}
	var ops []string
	if len(f) >= 3 {
		ops = strings.Split(f[2], ";")
	}
	outs := make([]string, 0, len(ops))
	newOps := make([]string, 0, len(ops))
	for _, op := range ops {
		nop, res := runOp(w, c, vars, op)
		c.note(vars...)
		newOps = append(newOps, nop)
		var sb strings.Builder
		sb.WriteString(res)
		for j := range vars {
			sb.WriteString("/")
			sb.WriteString(dump(w, vars, j))
		}
		outs = append(outs, sb.String())
	}
	return f[0] + " " + f[1] + " " + strings.Join(newOps, ";"), strings.Join(outs, ";")
}

func runOp[T comparable](w *world[T], c *mem[T], vars []mapset.Set[T], op string) (nop string, res string) {
	nop = op
	p := strings.Split(op, ":")
	bad := func() (string, string) { return op, "?" }
	if len(p) < 2 {
		return bad()
	}
	i, err := strconv.Atoi(p[1])
	if err != nil || i < 0 || i >= len(vars) {
		return bad()
	}
	idx := func(s string) (int, bool) {
		j, err := strconv.Atoi(s)
		return j, err == nil && j >= 0 && j < len(vars)
	}
	arg := func(n int) string {
		if n < len(p) {
			return p[n]
		}
		return "."
	}
	pre := slices.Clone(vars)
	poison := w.e(sentinel)
	// plist: a list of codes of this world
	plist := func(s string) ([]int, bool) {
		l, ok := parseList(s)
		return l, ok && w.okAll(l)
	}
	// returned: the result string of a call that returned the set r (vars[i] already updated)
	returned := func(r mapset.Set[T]) string {
		id, disagree := c.ident(w, pre, r)
		c.note(r)
		eq := "!"
		if ptr(r) == ptr(vars[i]) {
			eq = "="
		}
		return "S" + id + eq + tr.B(disagree)
	}
	pan := tr.Catch(func() {
		switch p[0] {
		case "new":
			l, ok := plist(arg(2))
			a, ok2 := mkArgs(w, l, arg(3))
			if !ok || !ok2 {
				res = "?"
				return
			}
			if a.none {
				vars[i] = mapset.New[T]()
			} else {
				vars[i] = mapset.New(a.items...)
			}
			// the argument slice is not retained: it is compared and poisoned afterwards
			res = returned(vars[i]) + a.after(w)
		case "newsize":
			n, err := strconv.ParseInt(arg(2), 10, 64)
			if err != nil || (n > 1<<16 && n < 1<<62) { // mid-size hints really allocate
				res = "?"
				return
			}
			vars[i] = mapset.NewSize[T](int(n))
			res = returned(vars[i])
		case "nil":
			vars[i] = nil
			res = "Snil=0"
		case "clone":
			j, ok := idx(arg(2))
			if !ok {
				res = "?"
				return
			}
			vars[i] = vars[j].Clone()
			res = returned(vars[i])
		case "isect":
			js, ok := parseList(arg(2))
			if !ok {
				res = "?"
				return
			}
			var args []mapset.Set[T]
			for _, j := range js {
				if j < 0 || j >= len(vars) {
					res = "?"
					return
				}
				args = append(args, vars[j])
			}
			switch form := arg(3); {
			case form == ".":
				// (round 5) the operand list is the caller's: it has one spare cell behind it (holding an
				// empty decoy set) and is compared with what was handed in after the call
				decoy := mapset.Set[T]{}
				full := append(append(make([]mapset.Set[T], 0, len(args)+1), args...), decoy)
				given := full[:len(args)]
				vars[i] = mapset.Intersect(given...)
				for x := range args {
					if ptr(given[x]) != ptr(args[x]) {
						res = "!"
					}
				}
				if ptr(full[len(args)]) != ptr(decoy) || len(decoy) != 0 {
					res = "!"
				}
			case form == "n" && len(args) == 0:
				vars[i] = mapset.Intersect([]mapset.Set[T](nil)...)
			case form == "e" && len(args) == 0:
				vars[i] = mapset.Intersect([]mapset.Set[T]{}...)
			case form == "0" && len(args) == 0:
				vars[i] = mapset.Intersect[T]()
			case form == "w":
				// a window into a larger array of operands: the cells around it hold an empty set
				// that must not be looked at (the intersection with it is empty)
				decoy := mapset.Set[T]{}
				big := make([]mapset.Set[T], len(args)+2*windowPad)
				for x := range big {
					big[x] = decoy
				}
				copy(big[windowPad:], args)
				win := big[windowPad : windowPad+len(args)]
				vars[i] = mapset.Intersect(win...)
				for x := range win {
					if ptr(win[x]) != ptr(args[x]) {
						res = "!"
					}
				}
				if len(decoy) != 0 {
					res = "!"
				}
			default:
				res = "?"
				return
			}
			res = returned(vars[i]) + res
		case "range":
			if arg(2) == "nil" {
				var it iter.Seq[T]
				r := mapset.Range(it) // panics for the nil function: the variable keeps its value
				vars[i] = r
				res = returned(vars[i])
				return
			}
			l, ok := plist(arg(2))
			if !ok {
				res = "?"
				return
			}
			r, after, ok := doRange(w, l, arg(3))
			if !ok {
				res = "?"
				return
			}
			vars[i] = r
			res = returned(vars[i]) + after() // what the iterator read from is the caller's: poisoned
		case "rangev", "keysv":
			j, ok := idx(arg(2))
			if !ok {
				res = "?"
				return
			}
			src := vars[j]
			want := len(src)
			var r mapset.Set[T]
			mark := ""
			if p[0] == "keysv" {
				r = mapset.Keys(src)
			} else if arg(3) == "p" { // round 6: the keys of the set behind a single-use sequence
				r, mark = rangePulledKeys(src)
			} else {
				r = mapset.Range(maps.Keys(src))
			}
			vars[i] = r
			res = returned(vars[i]) + mark
			if len(src) != want { // (whether it is still the same map shows in the dumps)
				res += "!"
			}
		case "keys":
			var l []int
			if arg(2) != "nil" {
				var ok bool
				l, ok = plist(arg(2))
				if !ok {
					res = "?"
					return
				}
			}
			r, after, ok := doKeys(w, l, arg(2) == "nil", arg(3))
			if !ok {
				res = "?"
				return
			}
			vars[i] = r
			res = returned(vars[i]) + after() // the argument map is left alone, and is the caller's afterwards
		case "values":
			var l []int
			if arg(2) != "nil" {
				var ok bool
				l, ok = plist(arg(2))
				if !ok {
					res = "?"
					return
				}
			}
			r, after, ok := doValues(w, l, arg(2) == "nil", arg(3), ptrTable{})
			if !ok {
				res = "?"
				return
			}
			vars[i] = r
			res = returned(vars[i]) + after()
		case "add":
			l, ok := plist(arg(2))
			a, ok2 := mkArgs(w, l, arg(3))
			if !ok || !ok2 {
				res = "?"
				return
			}
			var r mapset.Set[T]
			if a.none {
				r = vars[i].Add()
			} else {
				r = vars[i].Add(a.items...)
			}
			res = returned(r) + a.after(w)
		case "addall":
			j, ok := idx(arg(2))
			if !ok {
				res = "?"
				return
			}
			r := vars[i].AddAll(vars[j])
			res = returned(r)
		case "rm":
			l, ok := plist(arg(2))
			a, ok2 := mkArgs(w, l, arg(3))
			if !ok || !ok2 {
				res = "?"
				return
			}
			var r mapset.Set[T]
			if a.none {
				r = vars[i].Remove()
			} else {
				r = vars[i].Remove(a.items...)
			}
			res = returned(r) + a.after(w)
		case "rmall":
			j, ok := idx(arg(2))
			if !ok {
				res = "?"
				return
			}
			r := vars[i].RemoveAll(vars[j])
			res = returned(r)
		case "clear":
			r := vars[i].Clear()
			res = returned(r)
		case "pop":
			x := w.d(vars[i].Pop())
			res = "e" + strconv.Itoa(x)
			nop = "pop:" + p[1] + ":" + strconv.Itoa(x)
		case "has":
			x, err := strconv.Atoi(arg(2))
			if err != nil || !w.ok(x) {
				res = "?"
				return
			}
			res = "b" + tr.B(vars[i].Has(w.e(x)))
		case "hasd":
			l, ok := plist(arg(2))
			if !ok {
				res = "?"
				return
			}
			var yes []int
			for _, x := range l {
				if vars[i].Has(w.e(x)) {
					yes = append(yes, x)
				}
			}
			res = "h" + strconv.Itoa(len(yes)) + ":" + digest(yes)
		case "hasall", "hasany":
			l, ok := plist(arg(2))
			a, ok2 := mkArgs(w, l, arg(3))
			if !ok || !ok2 {
				res = "?"
				return
			}
			var b bool
			switch {
			case p[0] == "hasall" && a.none:
				b = vars[i].HasAll()
			case p[0] == "hasall":
				b = vars[i].HasAll(a.items...)
			case a.none:
				b = vars[i].HasAny()
			default:
				b = vars[i].HasAny(a.items...)
			}
			res = "b" + tr.B(b) + a.after(w)
		case "len":
			res = "i" + strconv.Itoa(vars[i].Len())
		case "empty":
			res = "b" + tr.B(vars[i].IsEmpty())
		case "meets", "sub", "eq":
			j, ok := idx(arg(2))
			if !ok {
				res = "?"
				return
			}
			var b bool
			switch p[0] {
			case "meets":
				b = vars[i].Intersects(vars[j])
			case "sub":
				b = vars[i].IsSubset(vars[j])
			case "eq":
				b = vars[i].Equals(vars[j])
			}
			res = "b" + tr.B(b)
		case "slice":
			r := vars[i].Slice()
			rc := w.ds(r)
			s := slices.Clone(rc)
			sort.Ints(s)
			if w.scale && len(rc) > digestOver {
				nop = "slice:" + p[1] + ":#" // the order is not listed: the result is compared sorted
			} else {
				nop = "slice:" + p[1] + ":" + tr.Ints(rc)
			}
			res = "l" + tr.B(r != nil) + ":.:" + w.ints(s)
			for x := range r { // the result is the caller's: overwrite it, the dump follows
				r[x] = poison
			}
		case "append", "appendf":
			var vs []T
			var l []int
			if arg(2) != "n" {
				var ok bool
				l, ok = plist(arg(2))
				if !ok {
					res = "?"
					return
				}
				room := 2 // room for two: both the in-place and the reallocating path occur
				if p[0] == "appendf" {
					room = len(vars[i]) // "if cap(vs) >= len(s) this will not allocate"
				}
				vs = make([]T, len(l), len(l)+room)
				copy(vs, w.es(l))
			}
			n := len(vs)
			r := vars[i].Append(vs)
			if len(r) < n {
				res = "l" + tr.B(r != nil) + ":short:" + tr.Ints(w.ds(r))
				return
			}
			rest := w.ds(r[n:])
			if w.scale && len(rest) > digestOver {
				nop = p[0] + ":" + p[1] + ":" + arg(2) + ":#"
			} else {
				nop = p[0] + ":" + p[1] + ":" + arg(2) + ":" + tr.Ints(rest)
			}
			sort.Ints(rest)
			res = "l" + tr.B(r != nil) + ":" + tr.Ints(w.ds(r[:n])) + ":" + w.ints(rest)
			for x := range r {
				r[x] = poison
			}
			for x := range vs {
				vs[x] = poison
			}
		case "appendc":
			l, ok := plist(arg(2))
			room, err := strconv.Atoi(arg(4))
			if !ok || err != nil || room < 0 || room > 1<<20 {
				res = "?"
				return
			}
			n := len(l)
			r, inPlace, clobbered := appendCap(w, vars[i], l, room)
			if len(r) < n {
				res = "l" + tr.B(r != nil) + ":short:" + tr.Ints(w.ds(r))
				return
			}
			rest := w.ds(r[n:])
			if w.scale && len(rest) > digestOver {
				nop = "appendc:" + p[1] + ":" + arg(2) + ":#:" + arg(4)
			} else {
				nop = "appendc:" + p[1] + ":" + arg(2) + ":" + tr.Ints(rest) + ":" + arg(4)
			}
			sort.Ints(rest)
			res = "l" + tr.B(r != nil) + ":" + tr.Ints(w.ds(r[:n])) + ":" + w.ints(rest) + ":" + tr.B(inPlace) + tr.B(clobbered)
			for x := range r {
				r[x] = poison
			}
		default:
			res = "?"
		}
	})
	if pan != "" {
		return nop, "PANIC:" + strings.TrimPrefix(pan, "panic:")
	}
	return nop, res
}

// ---------------------------------------------------------------- generation

type gen struct {
	o *tr.Opts
	r *tr.Rand
	w *tr.W
}

func (g *gen) emit(in string, nontrivial bool, tags ...string) {
	nin, out := run(in)
	g.w.Case(nin, out, nontrivial, tags...)
}

func subsetList(mask, n int) string {
	var l []int
	for x := 0; x < n; x++ {
		if mask&(1<<x) != 0 {
			l = append(l, x)
		}
	}
	return tr.Ints(l)
}

// initOp: code -1 = nil variable, otherwise New(subset)
func initOp(i, code, n int) string {
	if code < 0 {
		return fmt.Sprintf("nil:%d", i)
	}
	return fmt.Sprintf("new:%d:%s", i, subsetList(code, n))
}

func popcount(x int) int {
	n := 0
	for ; x > 0; x &= x - 1 {
		n++
	}
	return n
}

func operandTags(a, b int) []string {
	var t []string
	if a < 0 {
		t = append(t, "nil-receiver")
	}
	if b < 0 {
		t = append(t, "nil-argument")
	}
	if a == 0 || b == 0 {
		t = append(t, "empty-nonnil-operand")
	}
	la, lb := popcount(max(a, 0)), popcount(max(b, 0))
	switch {
	case la > lb:
		t = append(t, "receiver-larger")
	case la < lb:
		t = append(t, "receiver-smaller")
	default:
		t = append(t, "equal-size")
	}
	return t
}

func allLists(n, maxLen int, f func(l []int)) {
	var rec func(cur []int)
	rec = func(cur []int) {
		f(cur)
		if len(cur) == maxLen {
			return
		}
		for x := 0; x < n; x++ {
			rec(append(cur[:len(cur):len(cur)], x))
		}
	}
	rec(nil)
}

func (g *gen) exhaustive() {
	const U = 4
	// every binary operation on every ordered pair of operands from {nil} + all subsets of {0..3}
	for a := -1; a < 1<<U; a++ {
		for b := -1; b < 1<<U; b++ {
			tags := append(operandTags(a, b), "exhaustive-pair")
			pre := initOp(0, a, U) + ";" + initOp(1, b, U) + ";"
			for _, op := range []string{"addall:0:1", "rmall:0:1", "meets:0:1", "sub:0:1", "eq:0:1", "isect:2:0,1", "isect:0:0,1", "isect:1:0,1"} {
				g.emit("X 3 "+pre+op, true, tags...)
			}
			// mutate after the call and read both again: a result must not share storage
			g.emit("X 3 "+pre+"addall:0:1;add:0:5;rm:1:0,1;pop:0:?;clear:1", true, "poison-after-addall")
			g.emit("X 3 "+pre+"isect:2:0,1;add:2:5;clear:0;add:1:6;pop:2:?", true, "poison-after-intersect")
		}
	}
	// every unary operation, also with both operands the same variable
	for a := -1; a < 1<<U; a++ {
		tags := operandTags(a, a)
		pre := initOp(0, a, U) + ";"
		for _, op := range []string{"clone:1:0;add:1:5;rm:0:0;pop:1:?", "clone:0:0", "pop:0:?;pop:0:?;pop:0:?;pop:0:?;pop:0:?", "clear:0;add:0:1",
			"slice:0:?", "append:0:n:?", "append:0:.:?", "append:0:7,7:?", "len:0;empty:0;has:0:0;has:0:3;has:0:4",
			"appendc:0:.:?:0;appendc:0:.:?:1;appendc:0:.:?:2;appendc:0:.:?:3;appendc:0:.:?:4;appendc:0:.:?:5", "appendc:0:7:?:0;appendc:0:7:?:1;appendc:0:7:?:2;appendc:0:7:?:3;appendc:0:7:?:4;appendc:0:7:?:5",
			"appendc:0:7,7:?:0;appendc:0:7,7:?:1;appendc:0:7,7:?:2;appendc:0:7,7:?:3;appendc:0:7,7:?:4;appendc:0:7,7:?:5",
			"addall:0:0", "rmall:0:0", "meets:0:0", "sub:0:0", "eq:0:0", "isect:1:0", "isect:1:0,0", "isect:0:0,0,0", "isect:1:.",
			"newsize:0:0", "newsize:1:3;addall:1:0", "nil:0;pop:0:?;rm:0:1;clear:0;slice:0:?"} {
			g.emit("X 2 "+pre+op, true, append(tags, "exhaustive-unary")...)
		}
		// self-application once more, followed by reads and writes of the same variable
		for _, op := range []string{"addall:0:0;add:0:5;pop:0:?", "rmall:0:0;len:0;add:0:1", "isect:0:0;add:0:5", "isect:0:0,0;rm:0:0", "clone:0:0;rmall:0:0",
			"eq:0:0;sub:0:0;meets:0:0;rmall:0:0;eq:0:0;sub:0:0;meets:0:0"} {
			g.emit("X 1 "+pre+op, true, append(tags, "self-application")...)
		}
		// degenerate arguments: no items at all, the nil iterator, nil maps, negative and huge size hints
		for _, op := range []string{"add:0:.;rm:0:.;hasall:0:.;hasany:0:.", "range:1:nil;add:1:5", "range:0:nil", "keys:1:nil;add:1:5", "values:1:nil;add:1:5", "keys:0:nil", "values:0:nil",
			"newsize:1:-1;add:1:1;addall:1:0", "newsize:0:-9223372036854775808", "newsize:1:9223372036854775807;add:1:2", "newsize:0:-1099511627776", "isect:1:.;add:1:5", "new:0:.", "append:0:.:?",
			// round 4: the argument map of Keys has struct{} values / is itself a set (nil, empty, a variable); no argument at all
			"keys:1:nil:e;add:1:5", "keys:1:nil:S;add:1:5", "keys:1:.:e;add:1:5", "keys:0:nil:e", "keysv:1:0;add:1:5;rm:0:0", "rangev:1:0;add:1:5;rm:0:0", "keysv:0:0;add:0:5", "values:1:nil:t;add:1:5",
			"new:1:.:0;add:1:5", "new:1:.:n;add:1:5", "isect:1:.:0;add:1:5", "isect:1:.:e;add:1:5", "hasall:0:.:0;hasall:0:.:n;hasany:0:.:0;add:0:.:0;rm:0:.:n", "isect:1:0,0:w;add:1:5"} {
			g.emit("X 2 "+pre+op, true, append(tags, "degenerate-argument")...)
		}
		allLists(U+1, g.o.Scale(2, 3), func(l []int) {
			ls := tr.Ints(l)
			t := append(tags, "exhaustive-items")
			if len(l) == 0 {
				t = append(t, "no-items")
			}
			for x := range l {
				if slices.Contains(l[:x], l[x]) {
					t = append(t, "items-with-repeats")
					break
				}
			}
			for _, op := range []string{"hasall", "hasany", "add", "rm"} {
				g.emit(fmt.Sprintf("X 1 %s%s:0:%s", pre, op, ls), true, t...)
			}
		})
	}
	allLists(U, 3, func(l []int) {
		ls := tr.Ints(l)
		for _, op := range []string{"new", "range", "keys", "values"} {
			g.emit(fmt.Sprintf("X 2 new:1:0,1;%s:0:%s;add:0:5", op, ls), true, "exhaustive-constructors")
		}
	})
	// Intersect of three operands over {0,1,2} + nil
	const U3 = 3
	for a := -1; a < 1<<U3; a++ {
		for b := -1; b < 1<<U3; b++ {
			for c := -1; c < 1<<U3; c++ {
				g.emit("X 4 "+initOp(0, a, U3)+";"+initOp(1, b, U3)+";"+initOp(2, c, U3)+";isect:3:0,1,2;add:3:5", true, "exhaustive-intersect3")
			}
		}
	}
}

func rangeList(lo, hi int) string {
	l := make([]int, 0, hi-lo)
	for x := lo; x < hi; x++ {
		l = append(l, x)
	}
	return tr.Ints(l)
}

// big: sets beyond one bucket/group of the runtime's map (9 … 300 elements): self-application
// (deleting from / inserting into the map being ranged over), draining by Pop, overlapping operands.
func (g *gen) big() {
	sizes := []int{9, 17, 40, 130}
	if g.o.Thorough() {
		sizes = append(sizes, 64, 65, 300)
	}
	for _, n := range sizes {
		a := "new:0:" + rangeList(0, n) + ";"
		b := "new:1:" + rangeList(n/2, n+n/2) + ";"
		pops := strings.Repeat("pop:0:?;", n+1)
		for _, op := range []string{"rmall:0:0;len:0;add:0:1", "addall:0:0;len:0", "eq:0:0;sub:0:0;meets:0:0", "isect:1:0,0;eq:1:0;rmall:1:1;len:0",
			"clone:1:0;rmall:0:1;len:1", pops + "len:0", "slice:0:?", "append:0:7:?", "hasall:0:" + rangeList(0, n) + ";hasany:0:" + rangeList(n, n+3),
			"rm:0:" + rangeList(0, n+2) + ";add:0:1"} {
			g.emit("B 2 "+a+strings.TrimSuffix(op, ";"), true, "big-sets", "big-unary")
		}
		for _, op := range []string{"rmall:0:1", "rmall:1:0", "addall:0:1", "meets:0:1;meets:1:0", "sub:0:1;eq:0:1", "isect:2:0,1", "isect:2:1,0,1", "addall:2:0;rmall:2:1;rmall:2:2"} {
			g.emit("B 3 "+a+b+op, true, "big-sets", "big-pair")
		}
	}
}

func (g *gen) randList(u, maxLen int) string {
	n := g.r.Intn(maxLen + 1)
	l := make([]int, n)
	for i := range l {
		l[i] = g.r.Intn(u)
	}
	return tr.Ints(l)
}

func (g *gen) history() {
	k := g.r.Range(2, 4)
	u := g.r.Range(3, 7)
	n := g.r.Range(5, 40)
	ops := make([]string, 0, n)
	v := func() int { return g.r.Intn(k) }
	for len(ops) < n {
		i, j := v(), v()
		switch c := g.r.Intn(100); {
		case c < 14:
			ops = append(ops, fmt.Sprintf("add:%d:%s", i, g.randList(u, 4)))
		case c < 24:
			ops = append(ops, fmt.Sprintf("addall:%d:%d", i, j))
		case c < 33:
			ops = append(ops, fmt.Sprintf("rm:%d:%s", i, g.randList(u, 4)))
		case c < 41:
			ops = append(ops, fmt.Sprintf("rmall:%d:%d", i, j))
		case c < 51:
			ops = append(ops, fmt.Sprintf("pop:%d:?", i))
		case c < 54:
			ops = append(ops, fmt.Sprintf("clear:%d", i))
		case c < 58:
			ops = append(ops, fmt.Sprintf("nil:%d", i))
		case c < 62:
			ops = append(ops, fmt.Sprintf("new:%d:%s", i, g.randList(u, 5)))
		case c < 66:
			ops = append(ops, fmt.Sprintf("clone:%d:%d", i, j))
		case c < 72:
			m := g.r.Intn(4)
			js := make([]int, m)
			for x := range js {
				js[x] = v()
			}
			ops = append(ops, fmt.Sprintf("isect:%d:%s", i, tr.Ints(js)))
		case c < 74:
			l := g.randList(u, 5)
			if g.r.Chance(1, 6) {
				l = "nil"
			}
			switch op := tr.Pick(g.r, []string{"range", "keys", "values", "keysv", "rangev"}); op {
			case "keysv", "rangev": // another set is the argument map
				if op == "rangev" && g.r.Bool() { // round 6: behind a single-use sequence
					ops = append(ops, fmt.Sprintf("rangev:%d:%d:p", i, j))
					break
				}
				ops = append(ops, fmt.Sprintf("%s:%d:%d", op, i, j))
			case "keys":
				ops = append(ops, fmt.Sprintf("keys:%d:%s:%s", i, l, tr.Pick(g.r, []string{"s", "e", "S", "i", "p", "z", "a"})))
			case "values":
				ops = append(ops, fmt.Sprintf("values:%d:%s:%s", i, l, tr.Pick(g.r, []string{"i", "s", "t", "a"})))
			default:
				ops = append(ops, fmt.Sprintf("range:%d:%s:%s", i, l, tr.Pick(g.r, seqKinds))) // round 6: the kind of sequence
			}
		case c < 78:
			ops = append(ops, fmt.Sprintf("%s:%d:%s", tr.Pick(g.r, []string{"hasall", "hasany"}), i, g.randList(u, 3)))
		case c < 90:
			ops = append(ops, fmt.Sprintf("%s:%d:%d", tr.Pick(g.r, []string{"meets", "sub", "eq"}), i, j))
		case c < 94:
			ops = append(ops, fmt.Sprintf("slice:%d:?", i))
		case c < 97:
			if g.r.Bool() { // any length and spare capacity of the destination
				ops = append(ops, fmt.Sprintf("appendc:%d:%s:?:%d", i, sevens(g.r.Intn(4)), g.r.Intn(u+2)))
			} else {
				ops = append(ops, fmt.Sprintf("append:%d:%s:?", i, tr.Pick(g.r, []string{"n", ".", "8", "8,9,8"})))
			}
		case c < 98:
			// drain to empty
			for x := 0; x < u+1; x++ {
				ops = append(ops, fmt.Sprintf("pop:%d:?", i))
			}
		default:
			ops = append(ops, fmt.Sprintf("newsize:%d:%d", i, g.r.Intn(7)-2))
		}
	}
	tags := []string{"random-history"}
	for _, o := range ops {
		f := strings.Split(o, ":")
		if len(f) == 3 && f[1] == f[2] && (f[0] == "addall" || f[0] == "rmall" || f[0] == "meets" || f[0] == "sub" || f[0] == "eq") {
			tags = append(tags, "history-with-self-application")
			break
		}
	}
	g.emit(fmt.Sprintf("H %d %s", k, strings.Join(ops, ";")), true, tags...)
}

const rule = "C18: (identity of every returned map by address, relative to the variables before the call, and which variables share a map, are part of every output) every binary operation (AddAll, RemoveAll, Intersects, IsSubset, Equals, Intersect into a third/the first/the second variable) on every ordered pair of operands from {nil} + the 16 subsets of {0..3}, each also followed by mutations of result and argument (aliasing poison); every unary operation and every self-application (s op s, also followed by reads and writes) on the 17 operands; degenerate arguments (no items, the nil iterator function, nil maps, negative and huge size hints); big sets of 9-130 (thorough: -300) elements with self-application, draining by Pop and overlapping operands; HasAll/HasAny/Add/Remove with every item list to length 2 (quick) / 3 (thorough) over {0..4}; New/Range/Keys/Values on every list to length 3; Intersect on every triple over {nil} + subsets of {0,1,2}; random histories of 5-40 operations over 2-4 variables and universes of 3-7 elements, with variables reset to nil, cleared and drained by Pop.  After every operation every variable is dumped (nil-ness, Len, IsEmpty, Has over 0..7, sorted keys).  The element Pop returned and the order Slice/Append produced are recorded as oracle inputs.  Round 3, scale stream (kinds Si Sx Ss St = int / extreme int / string / struct elements, codes in the trace, code 0 = the zero value of the type and a member of almost every set): sets of 2^k-1, 2^k, 2^k+1 members for k = 1..12 and a few random large sizes: every observer and variadic call on the big set (no items, repeats, more arguments than members, non-members; Has asked about every element of the universe), the zero value removed / re-added / popped, every self-application, constructors from sequences with repeats (argument maps and slices poisoned afterwards), sets emptied by Remove or Clear and used again, every binary operation on (nil, empty, emptied by Remove, cleared, singleton, big) x the same with results and operands mutated afterwards, equal big operands and one-element differences, Pop until empty and beyond (to 1025 members in the quick tier, 2049 in the thorough tier), grow - drain to 1/8 by Pop or Remove - observe - regrow, random histories over runs of about 2^k items; lists of more than 64 codes in the output are digests of the SORTED codes.  Round 4 (kinds Sp Sa Sf Sz added = *int / any with mixed dynamic types / float64 / struct{} elements; code 0 is the nil pointer, the nil interface, 0.0, struct{}{}): every generic entry point on every one of the eight element types with a nil, an empty non-nil and a populated argument -- Keys for nine value types of the argument map (struct{}, a mapset.Set, string, int, bool, *int, [0]int, any, func()), Values for six key types, Range for three kinds of iterator, Keys/Range of another set VARIABLE (nil, empty, emptied, cleared, populated, the destination itself), New/Add/Remove/HasAll/HasAny/Intersect with no argument at all, the nil slice, a window into a larger array; all 36 operand-shape pairs on every type; string elements with equal FNV-1a-32 / Java hashes in either operand; Append onto every (len 0..4, cap-len 0..8) for every set size 0..6, fresh and after shrinking, with the placement of the result (the destination's array iff cap-len >= Len) and the cells outside the appended range part of the output; every set size 0..600 (quick: all to 256, every fourth beyond) with argument counts and spare capacities one below, at and one above Len and operands differing in one element.  Round 5 (multi-operand calls, packed 15-120 calls to a line): Intersect of EVERY ordered triple and quadruple of {nil} + the 16 subsets of {0..3} (quick: quadruples with nil at one rotating position), each third pair of operands also as a chain of two AddAll and of two RemoveAll; 2..5 operands over universes of 4..8 values for EVERY weak order of their sizes (3, 13, 75, 541 patterns; the smallest with 1, 2 or 3 members), all sharing one value and then, position by position, the operand there alone giving it up at unchanged size -- Intersect into a fresh variable and into the first operand's, the same operands as AddAll chains into a nil / empty / small / full receiver and RemoveAll chains out of the full universe, with repeats and the receiver itself in the chain, on the typed kinds too; every list of 1..5 operand indices with repeats over three variables of decreasing sizes; nil / empty / emptied / cleared / NewSize(0) operands at every position of 2..5 operands, one and two at a time; HasAll, HasAny, Add, Remove with every item list of 3, 4 and 5 items over {0..4} (quick: nine receivers to length 4, length 5 once with a rotating receiver); struct{} elements with every list of 0..5 operands over nil, {} and {0}; bool elements (kind So) with every list of 0..4 operands over nil, {}, {false}, {true}, {false,true}, every pair, every item list to 5 items and the constructors; uint8, int16 and float32 elements (Sb Sh Sg) through the round-4 instantiation / capacity generators, batteries and pairs at 1..200 members; thorough tier only: sets of exactly 2^15, 2^16-1, 2^16, 2^16+1 members (kinds Li Lx Ls Lt Lf; expected outputs from a direct evaluator on OCaml's sets, the extracted model being quadratic per call).  The operand list handed to Intersect has a spare cell behind it and is compared with what was handed in after every call.  Round 6 (single-use sequences): Range over nine kinds of sequence -- slices.Values, maps.Keys, a loop that yields every value twice, and six that deliver every value ONCE (a drained queue, a captured position that only moves forward, a closed buffered channel, a bufio.Scanner, iter.Pull handed on as a push sequence, one that panics when ranged over a second time) -- on every element type over the empty list, one value, the zero value, repeats next to each other and apart, a repeat followed by a new value; every list to length 3 over three values under every single-use kind; runs of 0..70 already known values followed by a new one; Range of the pulled keys of another set variable (also the destination itself); the scale batteries and the random histories draw the kind of sequence per call; after the call the source is inspected (values left in it = the callee stopped ranging early).  Every case is non-trivial; distinct = distinct recorded inputs."

func main() {
	o := tr.ParseFlags()
	w := tr.NewW(o.Out)
	g := &gen{o: o, r: tr.NewRand(o.Seed), w: w}
	if o.Replay != "" {
		for _, in := range tr.ReplayInputs(o.Replay) {
			g.emit(in, true, "replayed")
		}
	} else if o.Prop == "C18" || o.Prop == "" {
		g.exhaustive()
		g.round6X() // (single-use sequences on small int sets: early, so that the first failing line is a small one)
		g.round7()  // (NaN members in the float-typed and any-typed sets: small lines)
		g.round5()  // (multi-operand calls on small int sets: before the big cases, so that the first failing line is a small one)
		g.round6()  // (the sequence kinds on every element type)
		g.big()
		g.scale()
		g.round4()
		for i := 0; i < o.Scale(4000, 250000); i++ {
			g.history()
		}
	}
	w.Close(o, rule7+rule, nil)
}
