// Round 4 generators (ROUND4_GUIDE.md classes 2, 3 and 4; the operations are in inst.go):
//
//	inst       every generic entry point (Keys, Values, Range, New, NewSize, Intersect, Clone, AddAll,
//	           the variadic methods) on EVERY element type -- int, extreme int, string, struct, *int,
//	           any (mixed dynamic types), float64, struct{} -- with a nil, an empty non-nil and a
//	           populated argument each; Keys for nine value types of its argument map (struct{}, a
//	           mapset.Set, string, int, bool, *int, [0]int, any, func()), Values for six key types,
//	           Range for three kinds of iterator, Keys / Range of another set VARIABLE (nil, empty,
//	           emptied, cleared, populated, itself); the result is written to, the argument is
//	           mutated, and the nil-ness of every variable is part of every dump
//	forms      variadic calls with no argument at all, the nil slice, a window into a larger array
//	collisions the strings of codes 1..14 collide pairwise under FNV-1a-32 / Java's hash: one of
//	           each pair in either operand, both in one set
//	appendCap  Append onto every (len, cap) with len 0..4, cap-len 0..8 for every set size 0..6
//	           (and after the set has shrunk); where the result lives and that no other cell of
//	           the destination's array is written are part of the output
//	sizes      EVERY set size 0..600 (quick: every size to 256, every fourth beyond in a shorter
//	           case, rotating with the seed) with the observers, both Append paths around cap-len = Len, and the
//	           binary operations against a clone that differs in one element
package main

import (
	"fmt"
	"strconv"
	"strings"
)

// the element types other than struct{} (which has one value and its own generator)
var allKinds = []string{"Si", "Sx", "Ss", "St", "Sp", "Sa", "Sf"}

type varShape struct {
	name string
	mk   func(i int) string
}

// shapes of a set variable over the codes 0..4
var varShapes = []varShape{
	{"nil", func(i int) string { return fmt.Sprintf("nil:%d", i) }},
	{"empty", func(i int) string { return fmt.Sprintf("new:%d:.", i) }},
	{"empty-newsize", func(i int) string { return fmt.Sprintf("newsize:%d:0", i) }},
	{"emptied", func(i int) string { return fmt.Sprintf("new:%d:0,1;rm:%d:0,1", i, i) }},
	{"cleared", func(i int) string { return fmt.Sprintf("new:%d:0,1,2;clear:%d", i, i) }},
	{"zero-only", func(i int) string { return fmt.Sprintf("new:%d:0", i) }},
	{"populated", func(i int) string { return fmt.Sprintf("new:%d:0,1,2", i) }},
	{"populated-no-zero", func(i int) string { return fmt.Sprintf("new:%d:1,2,3,4", i) }},
}

func (g *gen) r4emit(kind string, k int, body string, tags ...string) {
	g.emit(fmt.Sprintf("%s %d %s", kind, k, body), true, append([]string{"round4", "r4-type-" + kind}, tags...)...)
}

func argTag(sh string) string {
	switch sh {
	case "nil":
		return "r4-nil-argument"
	case ".":
		return "r4-empty-nonnil-argument"
	}
	return "r4-populated-argument"
}

func (g *gen) inst(kind string) {
	// Keys: the value type of the argument map x nil / empty / populated
	for _, u := range strings.Split("s e S i b p z a f", " ") {
		for _, sh := range []string{"nil", ".", "0", "1,2", "0,1,2,3"} {
			g.r4emit(kind, 2, ops("new:1:1,2", "keys:0:"+sh+":"+u, "add:0:5", "pop:0:?", "has:0:0", "clear:0", "keys:1:"+sh+":"+u, "len:1"),
				"r4-keys", "r4-keys-value-type-"+u, argTag(sh))
		}
	}
	// Keys / Range of another set variable
	for _, sh := range varShapes {
		g.r4emit(kind, 2, ops(sh.mk(1), "keysv:0:1", "add:0:5", "rm:1:0,1", "len:0", "pop:0:?", "rangev:0:1", "add:1:6", "len:0", "keysv:1:1", "add:1:7", "rangev:1:1", "rm:1:7", "len:1"),
			"r4-keys-of-a-set", "r4-set-argument-"+sh.name)
		g.r4emit(kind, 2, ops("new:0:3,4", sh.mk(1), "rangev:0:1", "add:0:5", "clear:1", "len:0", "keysv:0:0", "rangev:0:0", "len:0"),
			"r4-keys-of-a-set", "r4-set-argument-"+sh.name)
	}
	// Values: the key type of the argument map
	for _, u := range strings.Split("i s e p a t", " ") {
		for _, sh := range []string{"nil", ".", "0", "0,0", "1,2", "0,1,2,3,1"} {
			if u == "e" && strings.Contains(sh, ",") {
				continue
			}
			g.r4emit(kind, 2, ops("new:1:1,2", "values:0:"+sh+":"+u, "add:0:5", "pop:0:?", "has:0:0", "values:1:"+sh+":"+u, "len:1"),
				"r4-values", "r4-values-key-type-"+u, argTag(sh))
		}
	}
	// Range: the kind of iterator
	for _, u := range strings.Split("v k h", " ") {
		for _, sh := range []string{".", "0", "0,0", "1,2", "0,1,2,3,1"} {
			g.r4emit(kind, 2, ops("new:1:1,2", "range:0:"+sh+":"+u, "add:0:5", "pop:0:?", "has:0:0", "range:1:"+sh+":"+u, "len:1"),
				"r4-range", "r4-range-iterator-"+u, argTag(sh))
		}
	}
	g.r4emit(kind, 2, ops("new:1:1,2", "range:0:nil", "range:1:nil", "len:1", "add:0:5"), "r4-range", "r4-nil-argument")
	// New / NewSize: the forms of the argument list
	for _, o := range []string{"new:0:.:0", "new:0:.:n", "new:0:.", "new:0:0:w", "new:0:0,1,2:w", "new:0:1,1,2:w", "newsize:0:-1", "newsize:0:0", "newsize:0:1", "newsize:0:3", "newsize:0:64"} {
		g.r4emit(kind, 2, ops("new:1:1,2", o, "add:0:5", "rm:0:5,0", "len:0", strings.Replace(o, ":0:", ":1:", 1), "len:1"), "r4-new-forms")
	}
	// the variadic methods, Clone and Intersect on every shape of receiver / operand
	for _, sh := range varShapes {
		g.r4emit(kind, 1, ops(sh.mk(0), "hasall:0:.:0", "hasall:0:.:n", "hasany:0:.:0", "hasany:0:.:n", "hasall:0:0,1:w", "hasall:0:0:w", "hasany:0:9,1:w", "hasany:0:9,8:w",
			"rm:0:.:0", "rm:0:.:n", "rm:0:1,1:w", "len:0", "add:0:.:0", "add:0:.:n", "add:0:6,6,0:w", "len:0", "rm:0:0,6,6:w", "len:0"),
			"r4-variadic-forms", "r4-receiver-"+sh.name)
		g.r4emit(kind, 2, ops(sh.mk(0), "isect:1:.:0", "add:1:5", "isect:1:.:n", "isect:1:.:e", "isect:1:0:w", "add:1:5", "len:0", "isect:1:0,0:w", "isect:0:0:w", "add:0:6", "isect:0:0,1:w", "len:0"),
			"r4-intersect-forms", "r4-receiver-"+sh.name)
		g.r4emit(kind, 2, ops(sh.mk(0), "clone:1:0", "add:1:5", "rm:0:0", "len:1", "clone:0:0", "add:0:6", "len:1", "addall:1:0", "rmall:0:1", "len:0"),
			"r4-clone", "r4-receiver-"+sh.name)
	}
	// every binary operation on (nil, empty, emptied, cleared, singleton, populated) x the same
	for _, a := range operands {
		for _, b := range operands {
			g.pair(kind, 3, a, b)
		}
	}
	// colliding strings (codes 1..14 of the string kind; the same codes on every type)
	g.r4emit(kind, 3, ops("new:0:1,3,9", "new:1:2,4,10", "meets:0:1", "meets:1:0", "sub:0:1", "eq:0:1", "isect:2:0,1", "hasall:0:1,2", "hasany:0:2,4,10", "has:0:2", "has:1:1",
		"addall:0:1", "rm:0:1", "has:0:2", "has:0:1", "rmall:0:1", "len:0", "new:2:"+run1(1, 15), "sub:0:2", "sub:1:2", "rm:2:2,4,10", "meets:1:2", "len:2"), "r4-collisions")
	for _, pr := range [][2]int{{1, 2}, {3, 4}, {5, 6}, {7, 8}, {9, 10}, {11, 12}, {11, 13}, {12, 13}, {13, 14}} {
		a, b := strconv.Itoa(pr[0]), strconv.Itoa(pr[1])
		g.r4emit(kind, 3, ops("new:0:"+a, "new:1:"+b, "eq:0:1", "sub:0:1", "meets:0:1", "has:0:"+b, "hasall:0:"+b, "hasany:0:"+b, "isect:2:0,1", "keysv:2:0", "has:2:"+b,
			"add:0:"+b, "rm:0:"+a, "has:0:"+b, "has:0:"+a, "eq:0:1", "len:0", "pop:0:?", "pop:1:?"), "r4-collisions")
	}
}

// instZ: the element type struct{} -- one value, code 0.
func (g *gen) instZ() {
	const kind = "Sz"
	shapes := []varShape{varShapes[0], varShapes[1], varShapes[2],
		{"emptied", func(i int) string { return fmt.Sprintf("new:%d:0;rm:%d:0", i, i) }},
		{"cleared", func(i int) string { return fmt.Sprintf("new:%d:0,0;clear:%d", i, i) }},
		{"popped", func(i int) string { return fmt.Sprintf("new:%d:0;pop:%d:?", i, i) }},
		varShapes[5]}
	for _, sh := range []string{"nil", ".", "0", "0,0"} {
		for _, u := range strings.Split("s e S i b p z a f", " ") {
			g.r4emit(kind, 2, ops("new:1:0", "keys:0:"+sh+":"+u, "add:0:0", "pop:0:?", "has:0:0", "keys:1:"+sh+":"+u, "len:1"), "r4-keys", "r4-keys-value-type-"+u, argTag(sh))
		}
		for _, u := range strings.Split("i s e p a t", " ") {
			if u == "e" && strings.Contains(sh, ",") {
				continue
			}
			g.r4emit(kind, 2, ops("new:1:0", "values:0:"+sh+":"+u, "add:0:0", "pop:0:?", "has:0:0", "values:1:"+sh+":"+u, "len:1"), "r4-values", "r4-values-key-type-"+u, argTag(sh))
		}
		if sh != "nil" {
			for _, u := range strings.Split("v k h", " ") {
				g.r4emit(kind, 2, ops("new:1:0", "range:0:"+sh+":"+u, "add:0:0", "pop:0:?", "range:1:"+sh+":"+u, "len:1"), "r4-range", "r4-range-iterator-"+u, argTag(sh))
			}
		}
	}
	g.r4emit(kind, 2, ops("new:1:0", "range:0:nil", "range:1:nil", "len:1"), "r4-range", "r4-nil-argument")
	for _, o := range []string{"new:0:.:0", "new:0:.:n", "new:0:.", "new:0:0:w", "new:0:0,0,0:w", "newsize:0:-1", "newsize:0:0", "newsize:0:3"} {
		g.r4emit(kind, 2, ops("new:1:0", o, "add:0:0", "len:0", "rm:0:0,0", "len:0", strings.Replace(o, ":0:", ":1:", 1), "len:1"), "r4-new-forms")
	}
	for _, a := range shapes {
		g.r4emit(kind, 2, ops(a.mk(1), "keysv:0:1", "add:0:0", "rm:1:0", "len:0", "pop:0:?", "rangev:0:1", "add:1:0", "len:0", "keysv:1:1", "rangev:1:1", "len:1"), "r4-keys-of-a-set", "r4-set-argument-"+a.name)
		g.r4emit(kind, 1, ops(a.mk(0), "hasall:0:.:0", "hasall:0:.:n", "hasany:0:.:0", "hasany:0:.:n", "hasall:0:0,0:w", "hasany:0:0:w", "hasall:0:0", "hasany:0:0,0", "hasd:0:0,0",
			"slice:0:?", "append:0:n:?", "append:0:0,0:?", "appendf:0:0:?", "len:0", "empty:0", "has:0:0",
			"rm:0:.:0", "rm:0:.:n", "rm:0:0,0:w", "len:0", "add:0:.:0", "add:0:.:n", "add:0:0,0,0:w", "len:0", "pop:0:?", "pop:0:?", "add:0:0", "clear:0", "pop:0:?"),
			"r4-variadic-forms", "r4-receiver-"+a.name)
		g.r4emit(kind, 2, ops(a.mk(0), "isect:1:.:0", "add:1:0", "isect:1:.:n", "isect:1:.:e", "isect:1:0:w", "add:1:0", "len:0", "isect:1:0,0:w", "isect:0:0:w", "add:0:0", "isect:0:0,1:w", "len:0",
			"clone:1:0", "rm:1:0", "len:0", "clone:0:0", "len:0"), "r4-intersect-forms", "r4-clone", "r4-receiver-"+a.name)
		for _, b := range shapes {
			g.r4emit(kind, 3, ops(a.mk(0), b.mk(1), "meets:0:1", "meets:1:0", "sub:0:1", "sub:1:0", "eq:0:1", "isect:2:0,1", "isect:2:1,0,1", "add:2:0", "clone:2:0", "addall:2:1", "rm:2:0",
				"clone:2:0", "rmall:2:1", "addall:0:1", "eq:0:1", "sub:1:0", "rmall:1:0", "len:1", "add:1:0", "len:0", "pop:0:?", "len:1"),
				"scale-pair", "r4-pair-"+a.name+"-"+b.name)
		}
		var o []string
		for m := 0; m <= 3; m++ {
			for room := 0; room <= 3; room++ {
				o = append(o, fmt.Sprintf("appendc:0:%s:?:%d", repeatCode("0", m), room))
			}
		}
		g.r4emit(kind, 1, ops(a.mk(0), ops(o...)), "r4-append-capacity", "r4-receiver-"+a.name)
	}
}

func sevens(m int) string { return repeatCode("7", m) }

func repeatCode(c string, m int) string {
	if m == 0 {
		return "."
	}
	return strings.TrimSuffix(strings.Repeat(c+",", m), ",")
}

// appendSweep: every (len, cap, set size) for small values.
func (g *gen) appendSweep(kind string) {
	for s := 0; s <= 6; s++ {
		for _, shrunk := range []bool{false, true} {
			o := []string{"new:0:" + list(run1(0, s))}
			tags := []string{"r4-append-capacity"}
			if shrunk { // the same members left over from a set that has been bigger / emptied and refilled
				if s == 0 {
					o = []string{"new:0:" + run1(0, 20), "rm:0:" + run1(0, 20)}
				} else {
					o = []string{"new:0:" + run1(0, 20), "rm:0:" + run1(s, 20)}
				}
				tags = append(tags, "r4-append-after-shrinking")
			}
			o = append(o, "append:0:n:?")
			for m := 0; m <= 4; m++ {
				for room := 0; room <= 8; room++ {
					o = append(o, fmt.Sprintf("appendc:0:%s:?:%d", sevens(m), room))
					g.w.Count("r4-append-0<room<size", b2i(room > 0 && room < s))
					g.w.Count("r4-append-room=size", b2i(room == s))
					g.w.Count("r4-append-room=size-1", b2i(room == s-1))
				}
			}
			g.r4emit(kind, 1, ops(o...), tags...)
		}
	}
}

func b2i(b bool) int {
	if b {
		return 1
	}
	return 0
}

// sizeCase: one case on a set of exactly n members -- every equality on len(s) a method could
// branch on is met with: more arguments than members, as many, one fewer; spare capacity one short
// of, exactly and one above the number of members; an operand of the same size that differs in
// one element, one smaller, one bigger.
func (g *gen) sizeCase(kind string, n int, slim bool) {
	S := strconv.Itoa
	all := list(run1(0, n))
	if slim { // above 256 members in the quick tier: every method once (the model is quadratic per call)
		g.semit(kind, 2, n, ops("new:0:"+all, "hasall:0:"+list(all, "0"), "hasall:0:"+list(run1(1, n+1)), "hasany:0:"+list(run1(n, 2*n-1), S(n-1)), "slice:0:?",
			"appendc:0:7:?:"+S(n-1), "appendc:0:7:?:"+S(n), "clone:1:0", "eq:0:1", "rm:1:"+S(n-1), "add:1:"+S(n), "eq:0:1", "sub:0:1", "meets:1:0", "isect:1:0,1", "len:1",
			"keysv:1:0", "add:1:"+S(n), "sub:0:1", "sub:1:0", "rmall:1:0", "len:1", "pop:0:?", "rm:0:"+list(all), "empty:0"), "round4", "r4-size-sweep")
		return
	}
	o := []string{"new:0:" + all, "len:0", "empty:0", "hasall:0:" + all, "hasall:0:" + list(all, "0"), "hasall:0:" + list(run1(0, n-1)), "hasall:0:" + list(run1(1, n+1)),
		"hasany:0:" + list(run1(n, 2*n)), "hasany:0:" + list(run1(n, 2*n-1), S(n-1)), "hasd:0:" + run1(-1, n+1), "slice:0:?"}
	for _, room := range []int{n - 1, n, n + 1, 1} {
		if room >= 0 {
			o = append(o, "appendc:0:7:?:"+S(room))
		}
	}
	o = append(o, "clone:1:0", "eq:0:1", "sub:0:1", "meets:0:1", "rm:1:"+S(n-1), "add:1:"+S(n), "eq:0:1", "eq:1:0", "sub:0:1", "sub:1:0", "isect:2:0,1", "len:2",
		"rm:1:"+S(n), "sub:1:0", "sub:0:1", "eq:0:1", "add:1:"+list(S(n-1), S(n)), "sub:0:1", "sub:1:0", "meets:1:0", "keysv:2:1", "eq:2:1", "addall:2:0", "rmall:2:1", "len:2",
		"rm:0:"+list(run1(0, n-1)), "len:0", "pop:0:?", "pop:0:?", "len:0", "add:0:"+list(all, all), "len:0", "rm:0:"+list(all, "0"), "empty:0")
	g.semit(kind, 3, n, ops(o...), "round4", "r4-size-sweep")
}

func (g *gen) sizeSweep() {
	kinds := append(append([]string{}, allKinds...), "Si")
	for n := 0; n <= 600; n++ {
		quickBig := !g.o.Thorough() && n > 256
		if quickBig && (n+int(g.o.Seed))%4 != 0 {
			continue
		}
		g.sizeCase(kinds[(n+int(g.o.Seed))%len(kinds)], n, quickBig)
		if g.o.Thorough() {
			g.sizeCase(kinds[(n+3+int(g.o.Seed))%len(kinds)], n, false)
		}
	}
}

func (g *gen) round4() {
	for _, kind := range allKinds {
		g.inst(kind)
		g.appendSweep(kind)
	}
	g.instZ()
	// the round-3 batteries on the element types new in this round
	for _, kind := range []string{"Sp", "Sa", "Sf"} {
		for _, n := range []int{1, 3, 9, 65, 257} {
			g.battery(kind, n)
			if n <= 65 || g.o.Thorough() {
				g.drain(kind, n, n+2)
			}
			g.equalPair(kind, n, true)
		}
		g.regrow(kind, 64, true, 0)
		for i := 0; i < g.o.Scale(12, 200); i++ {
			g.scaleHistory(kind, []int{40, 300}[i%2])
		}
	}
	g.sizeSweep()
}
