// Round 6: single-use sequences (ROUND6_GUIDE.md class 2).
//
// mapset.Range is the one entry point of the package that takes an iter.Seq.  Up to round 5 it was
// fed re-iterable sequences only (slices.Values, maps.Keys, a hand-written loop over a slice): a
// Range that ranges over its argument more than once, peeks at it first, or gives up half-way looks
// exactly like the real one on those.  The 4th field of range (and now of rangev) also names
// sequences that deliver every value ONCE, to whoever asks first:
//
//	range:i:L:u   u =  q  a queue that is drained: the closure holds the slice and reslices it
//	                   i  a closure with a captured position that only moves forward
//	                   c  the values waiting in a closed, buffered channel
//	                   r  a reader: a bufio.Scanner over text, one value per line
//	                   p  iter.Pull of a re-iterable sequence, handed on as a push sequence
//	                   o  strictly single-use: ranging over it a second time panics
//	                      (result PANIC:other, the variable keeps its value)
//	rangev:i:j:p  Range(it), it = iter.Pull(maps.Keys(v_j)) handed on as a push sequence
//
// All of them honour the protocol (they stop, and release what they hold, when yield returns
// false), deliver repeats as often as the list has them, and are built afresh for every call.
// After the call the harness looks at the source: "<" is appended to the result if values were
// left in it (the callee stopped ranging before the end -- Range cannot know its values without
// asking for all of them).  The model and the reference sets take the list as it stands: how the
// argument is ranged over is not observable in a correct result.
//
// Generators (round6): runs of 0..70 already known values followed by a new one; on every element type every one of the nine sequence kinds over the empty
// list, one value, the zero value, repeats next to each other and apart, a repeat followed by a
// new value, into a nil / populated / the argument's own variable, followed by writes to the
// result; every list to length 3 over three values under every single-use kind (kind X); the
// scale batteries and the random histories draw their kind of sequence per call.
package main

import (
	"bufio"
	"fmt"
	"iter"
	"maps"
	"slices"
	"strconv"
	"strings"

	"github.com/creachadair/mds/mapset"
	"verif/harness/internal/tr"
)

// seqKinds: v k h are re-iterable (inst.go), the rest single-use.
var seqKinds = []string{"v", "k", "h", "q", "i", "c", "r", "p", "o"}
var singleUse = []string{"q", "i", "c", "r", "p", "o"}

// pullSeq hands a pull iterator on as a push sequence: single-use, whatever it was made from.
func pullSeq[T any](src iter.Seq[T]) (it iter.Seq[T], leftover func() int) {
	next, stop := iter.Pull(src)
	it = func(yield func(T) bool) {
		for {
			v, ok := next()
			if !ok {
				return
			}
			if !yield(v) {
				stop()
				return
			}
		}
	}
	leftover = func() int {
		n := 0
		for {
			if _, ok := next(); !ok {
				break
			}
			n++
		}
		stop()
		return n
	}
	return it, leftover
}

// singleUseSeq: the single-use sequence of kind u over items, and a function that says how many
// values its source still holds (and releases the source).
func singleUseSeq[T any](items []T, u string) (it iter.Seq[T], leftover func() int, ok bool) {
	switch u {
	case "q":
		q := items
		return func(yield func(T) bool) {
			for len(q) > 0 {
				v := q[0]
				q = q[1:]
				if !yield(v) {
					return
				}
			}
		}, func() int { return len(q) }, true
	case "i":
		pos := 0
		return func(yield func(T) bool) {
			for pos < len(items) {
				v := items[pos]
				pos++
				if !yield(v) {
					return
				}
			}
		}, func() int { return len(items) - pos }, true
	case "c":
		ch := make(chan T, len(items))
		for _, v := range items {
			ch <- v
		}
		close(ch)
		return func(yield func(T) bool) {
			for v := range ch {
				if !yield(v) {
					return
				}
			}
		}, func() int { return len(ch) }, true
	case "r":
		var sb strings.Builder
		for n := range items {
			sb.WriteString(strconv.Itoa(n))
			sb.WriteByte('\n')
		}
		sc := bufio.NewScanner(strings.NewReader(sb.String()))
		return func(yield func(T) bool) {
				for sc.Scan() {
					n, err := strconv.Atoi(sc.Text())
					if err != nil || n < 0 || n >= len(items) {
						panic("harness: bad line from the reader")
					}
					if !yield(items[n]) {
						return
					}
				}
			}, func() int {
				n := 0
				for sc.Scan() {
					n++
				}
				return n
			}, true
	case "p":
		it, leftover = pullSeq(slices.Values(items))
		return it, leftover, true
	case "o":
		used := false
		return func(yield func(T) bool) {
			if used {
				panic("harness: a single-use sequence was ranged over a second time")
			}
			used = true
			for _, v := range items {
				if !yield(v) {
					return
				}
			}
		}, func() int { return 0 }, true
	}
	return nil, nil, false
}

// rangeSingleUse: Range over the single-use sequence of kind u.
func rangeSingleUse[T comparable](w *world[T], items []T, u string) (r mapset.Set[T], after func() string, ok bool) {
	it, leftover, ok := singleUseSeq(items, u)
	if !ok {
		return nil, nil, false
	}
	defer func() {
		if p := recover(); p != nil {
			leftover() // (releases the source)
			panic(p)
		}
	}()
	r = mapset.Range(it)
	return r, func() string {
		bad := ""
		if leftover() != 0 {
			bad = "<"
		}
		p := w.e(sentinel)
		for i := range items {
			items[i] = p
		}
		return bad
	}, true
}

// rangePulledKeys: Range(iter.Pull(maps.Keys(src))) -- another set variable behind a single-use sequence.
func rangePulledKeys[T comparable](src mapset.Set[T]) (r mapset.Set[T], mark string) {
	it, leftover := pullSeq(maps.Keys(src))
	defer func() {
		if p := recover(); p != nil {
			leftover()
			panic(p)
		}
	}()
	r = mapset.Range(it)
	if leftover() != 0 {
		mark = "<"
	}
	return r, mark
}

// ---- generation

func (g *gen) r6emit(kind string, k int, body string, tags ...string) {
	g.emit(fmt.Sprintf("%s %d %s", kind, k, body), true, append([]string{"round6", "r6-type-" + kind}, tags...)...)
}

func seqTag(u string) string {
	if slices.Contains(singleUse, u) {
		return "r6-single-use-sequence"
	}
	return "r6-re-iterable-sequence"
}

// seqKind: the sequence kind of the n-th ranged call of a generator that rotates through them.
func (g *gen) seqKind(n int) string { return seqKinds[(n+int(g.o.Seed))%len(seqKinds)] }

// round6X: kind X (int elements) -- every list to length 3 over {0,1,2} under every single-use
// kind, the result written to afterwards; the same list twice in one case (two sequences, built
// afresh); into the variable that another set came from.
func (g *gen) round6X() {
	for _, u := range singleUse {
		allLists(3, 3, func(l []int) {
			ls := tr.Ints(l)
			g.emit(fmt.Sprintf("X 2 new:1:0,1;range:0:%s:%s;add:0:5;range:1:%s:%s;pop:1:?", ls, u, ls, u), true,
				"round6", "r6-exhaustive-sequences", "r6-sequence-"+u, seqTag(u))
		})
	}
	// a run of L values that are already known, then a new one (L = 0..70: one value repeated; two
	// and three values taking turns), the kind of sequence rotating with L
	for shape := 0; shape < 3; shape++ {
		var o []string
		for L := 0; L <= 70; L++ {
			l := []int{1, 2, 3}[:shape+1]
			for x := 0; x < L; x++ {
				l = append(l, 1+x%(shape+1))
			}
			l = append(l, 4)
			o = append(o, fmt.Sprintf("range:0:%s:%s", tr.Ints(l), g.seqKind(L+shape)))
		}
		g.emit("X 1 "+strings.Join(o, ";"), true, "round6", "r6-run-of-known-values-then-a-new-one")
	}
	for _, u := range seqKinds {
		g.emit(fmt.Sprintf("X 3 new:1:0,1,2;rangev:0:1:p;rm:1:0;add:0:5;range:2:2,1,0:%s;rangev:1:2:p;rangev:2:2:p;add:2:6;len:1", u), true,
			"round6", "r6-pulled-keys-of-a-set", "r6-sequence-"+u, seqTag(u))
	}
}

// round6Inst: every element type x every sequence kind x the shapes of the list.
func (g *gen) round6Inst(kind string) {
	shapes := []string{".", "0", "3", "0,0", "1,2", "1,1,2", "0,1,2,3,1", "2,0,2,4,0,3"}
	if kind == "Sz" {
		shapes = []string{".", "0", "0,0", "0,0,0"}
	}
	if kind == "So" {
		shapes = []string{".", "0", "1", "0,0", "1,0", "1,1,0", "0,1,0,1"}
	}
	seed := "new:1:1,2"
	tail := []string{"add:0:5", "pop:0:?", "has:0:0"}
	if kind == "Sz" || kind == "So" {
		seed = "new:1:0"
		tail = []string{"add:0:0", "pop:0:?"}
	}
	for _, u := range seqKinds {
		for _, sh := range shapes {
			o := append([]string{seed, "range:0:" + sh + ":" + u}, tail...)
			o = append(o, "range:1:"+sh+":"+u, "len:1", "rangev:0:1:p", "len:0", "rangev:1:1:p", "len:1")
			g.r6emit(kind, 2, ops(o...), "r6-range", "r6-sequence-"+u, seqTag(u), argTag(sh))
		}
	}
}

func (g *gen) round6() {
	for _, kind := range append(append([]string{}, allKinds...), "Sz", "So", "Sb", "Sh", "Sg") {
		g.round6Inst(kind)
	}
}
