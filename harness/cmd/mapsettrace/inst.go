// Round 4: generic instantiations, argument identity and capacity histories (see ROUND4_GUIDE.md,
// classes 3 and 4).  This file holds the element types of the new kinds Sp Sa Sf Sz, the helpers
// that call Keys / Values / Range at several instantiations of their OTHER type parameter, the
// forms of a variadic argument list and the capacity sweep of Append; the generators are in
// round4.go.
//
// New syntax (everything else as in main.go):
//
//	keys:i:L|nil:u      Keys(m), m a map from the elements to  u = s string (default)  e struct{}
//	                    S the map IS a mapset.Set  i int  b bool  p *int  z [0]int  a any  f func()
//	values:i:L|nil:u    Values(m), the keys of m are  u = i int (default)  s string  e struct{} (at most
//	                    one item)  p *int  a any  t the element type itself (map[T]T, keys are other elements)
//	range:i:L|nil:u     Range(it), it =  u = v slices.Values (default)  k maps.Keys of a map[T]struct{}
//	                    h a hand-written push iterator that repeats every element
//	                    (round 6: q i c r p o = single-use sequences, see round6.go)
//	keysv:i:j  rangev:i:j   v_i = Keys(v_j) / Range(maps.Keys(v_j)): ANOTHER SET is the argument map
//	new/add/rm/hasall/hasany:i:L:form   form =  . a fresh slice of exactly the items (default)
//	                    n the nil slice spread (no items only)   0 no argument at all (no items only)
//	                    w a window into a larger array whose other cells hold a poison value
//	isect:i:J:form      the same forms for the list of operands
//	appendc:i:V:O:room  Append(vs), len(vs) = |V|, cap(vs) = |V| + room.  The result has two more
//	                    digits:  l<nonnil>:<prefix>:<rest>:<p><c>  p = 1 iff the result starts at the
//	                    first cell of vs' array (language rule for append: iff room >= Len, or the set
//	                    is empty), c = 1 iff a cell of that array outside the appended range changed.
//
// After every call the argument (map, slice, window) is compared with what was handed in: "!" is
// appended to the result if the callee modified it.
package main

import (
	"iter"
	"maps"
	"math"
	"slices"
	"strconv"
	"unsafe"

	"github.com/creachadair/mds/mapset"
)

// ---- element types of the new kinds

// ptrTable hands out one *int per code (0 = the nil pointer).
type ptrTable map[int]*int

func (t ptrTable) get(c int) *int {
	if c == 0 {
		return nil
	}
	if p, ok := t[c]; ok {
		return p
	}
	p := new(int)
	*p = c
	t[c] = p
	return p
}

// encAny: dynamic types mixed in one set; 0 is the nil interface.  Equal numbers of different
// dynamic types (int 7, int64 7, float64 7, "7") are different keys.
func encAny(t ptrTable) func(int) any {
	return func(c int) any {
		if c == 0 {
			return nil
		}
		switch ((c % 8) + 8) % 8 {
		case 1:
			return c
		case 2:
			return strconv.Itoa(c - 2) // "0", "8", ... next to the ints 1, 9, ...
		case 3:
			return encRec(c)
		case 4:
			return t.get(c)
		case 5:
			return float64(c - 4) // 1.0, 9.0: the same numbers as case 1
		case 6:
			return [2]int{c, -c}
		case 7:
			return int64(c - 6)
		}
		return uint16(c / 8) // 8, 16, ...: uint16(1), uint16(2), ... (|c| below 2^19)
	}
}

var floatExtremes = []float64{0, math.Inf(1), math.Inf(-1), math.MaxFloat64, math.SmallestNonzeroFloat64, 1 << 53, 1<<53 + 2, -1,
	-math.MaxFloat64, -math.SmallestNonzeroFloat64, 1 << 63, 0.1, 0.30000000000000004, 0.3, 1e-320, -(1 << 53)}

// encFloat: no NaN (outside the theorems) and no -0 (it IS the key 0).
func encFloat(c int) float64 {
	if c >= 0 && c < len(floatExtremes) {
		return floatExtremes[c]
	}
	return float64(c) + 0.5
}

// encFloat32 (round 5): ±Inf, the ends of the float32 range, values that differ in the last bit, the
// float32 nearest to 0.1; no NaN and no -0, as for float64.
var float32Extremes = []float32{0, float32(math.Inf(1)), float32(math.Inf(-1)), math.MaxFloat32, math.SmallestNonzeroFloat32, 1 << 24, 1<<24 + 2, -1,
	-math.MaxFloat32, -math.SmallestNonzeroFloat32, 0.1, 0.3, math.Nextafter32(0.3, 1), 1e-40, 16777215, -(1 << 24)}

func encFloat32(c int) float32 {
	if c >= 0 && c < len(float32Extremes) {
		return float32Extremes[c]
	}
	return float32(c) + 0.5 // exact and distinct below 2^23 (the poison code included)
}

// the 32-bit hash collisions of ROUND4_GUIDE.md class 3, as the strings of codes 1..14 (so that
// every set of three or more strings holds a colliding pair next to each other, and the pairs
// {1,3} / {2,4} hold one of each pair at the same place): FNV-1a-32, then Java's 31-polynomial.
var collisions = []string{"liquid", "costarring", "declinate", "macallums", "altarage", "zinke",
	"\tx[462789] = y", "\tx[679192] = y", "Aa", "BB", "AaAa", "BBBB", "AaBB", "BBAa"}

// ---- the argument list of a variadic call

type vargs[T comparable] struct {
	items []T // what is passed (nil for the forms n and 0)
	none  bool
	orig  []T
	big   []T // form w: the array the window lies in
	lo    int
}

const windowPad = 3

func mkArgs[T comparable](w *world[T], l []int, form string) (a vargs[T], ok bool) {
	vals := w.es(l)
	a.orig = slices.Clone(vals)
	switch form {
	case ".", "":
		a.items = vals
	case "n":
		if len(l) != 0 {
			return a, false
		}
	case "0":
		if len(l) != 0 {
			return a, false
		}
		a.none = true
	case "w":
		p := w.e(sentinel)
		a.big = make([]T, len(l)+2*windowPad)
		for i := range a.big {
			a.big[i] = p
		}
		a.lo = windowPad
		copy(a.big[a.lo:], vals)
		a.items = a.big[a.lo : a.lo+len(l)] // capacity reaches into the poisoned cells behind
	default:
		return a, false
	}
	return a, true
}

// after: "" if the callee left the argument alone, "!" otherwise; then the argument is the
// caller's again and is overwritten.
func (a vargs[T]) after(w *world[T]) string {
	bad := ""
	p := w.e(sentinel)
	if !slices.Equal(a.items, a.orig) && !(len(a.items) == 0 && len(a.orig) == 0) {
		bad = "!"
	}
	for i, v := range a.big {
		if (i < a.lo || i >= a.lo+len(a.orig)) && v != p {
			bad = "!"
		}
	}
	for i := range a.items {
		a.items[i] = p
	}
	return bad
}

// ---- Keys / Values / Range at several instantiations

// keysU: Keys on a map[T]U built from the codes (nil map when isNil).
func keysU[T comparable, U any](w *world[T], l []int, isNil bool, val func(n int) U) (mapset.Set[T], func() string) {
	var m map[T]U
	if !isNil {
		m = make(map[T]U)
		for n, x := range l {
			m[w.e(x)] = val(n)
		}
	}
	want := len(m)
	r := mapset.Keys(m)
	return r, func() string {
		bad := ""
		if len(m) != want || isNil != (m == nil) {
			bad = "!"
		}
		if m != nil && !w.univ1 { // the argument is the caller's afterwards: the dump follows
			m[w.e(sentinel)] = val(-1)
			for _, x := range l {
				delete(m, w.e(x))
				break
			}
		}
		return bad
	}
}

// keysSet: the argument is itself a mapset.Set (the named type, not a map literal).
func keysSet[T comparable](w *world[T], l []int, isNil bool) (mapset.Set[T], func() string) {
	var m mapset.Set[T]
	if !isNil {
		m = mapset.Set[T]{}
		for _, x := range l {
			m[w.e(x)] = struct{}{}
		}
	}
	want := len(m)
	r := mapset.Keys(m)
	return r, func() string {
		bad := ""
		if len(m) != want || isNil != (m == nil) || (m != nil && ptr(m) == ptr(r)) {
			bad = "!"
		}
		if m != nil && !w.univ1 {
			m[w.e(sentinel)] = struct{}{}
			for _, x := range l {
				delete(m, w.e(x))
				break
			}
		}
		return bad
	}
}

func doKeys[T comparable](w *world[T], l []int, isNil bool, u string) (r mapset.Set[T], after func() string, ok bool) {
	ok = true
	switch u {
	case ".", "s":
		r, after = keysU(w, l, isNil, func(int) string { return "v" })
	case "e":
		r, after = keysU(w, l, isNil, func(int) struct{} { return struct{}{} })
	case "S":
		r, after = keysSet(w, l, isNil)
	case "i":
		r, after = keysU(w, l, isNil, func(n int) int { return n })
	case "b":
		r, after = keysU(w, l, isNil, func(n int) bool { return n%2 == 0 })
	case "p":
		r, after = keysU(w, l, isNil, func(n int) *int {
			if n%2 == 0 {
				return nil
			}
			return &n
		})
	case "z":
		r, after = keysU(w, l, isNil, func(int) [0]int { return [0]int{} })
	case "a":
		r, after = keysU(w, l, isNil, func(n int) any {
			if n%2 == 0 {
				return nil
			}
			return n
		})
	case "f":
		r, after = keysU(w, l, isNil, func(int) func() { return nil })
	default:
		ok = false
	}
	return
}

// valuesK: Values on a map[K]T whose n-th entry has the key key(n, value).
func valuesK[K, T comparable](w *world[T], l []int, isNil bool, key func(n int, v T) K) (mapset.Set[T], func() string) {
	var m map[K]T
	if !isNil {
		m = make(map[K]T)
		for n, x := range l {
			v := w.e(x)
			m[key(n, v)] = v
		}
	}
	want := len(m)
	r := mapset.Values(m)
	return r, func() string {
		bad := ""
		if len(m) != want || isNil != (m == nil) {
			bad = "!"
		}
		p := w.e(sentinel)
		for k := range m {
			m[k] = p
		}
		return bad
	}
}

func doValues[T comparable](w *world[T], l []int, isNil bool, u string, pt ptrTable) (r mapset.Set[T], after func() string, ok bool) {
	ok = true
	switch u {
	case ".", "i":
		r, after = valuesK(w, l, isNil, func(n int, _ T) int { return 1000 + n })
	case "s":
		r, after = valuesK(w, l, isNil, func(n int, _ T) string { return "k" + strconv.Itoa(n) })
	case "e":
		if len(l) > 1 { // a map with struct{} keys has one entry
			return nil, nil, false
		}
		r, after = valuesK(w, l, isNil, func(int, T) struct{} { return struct{}{} })
	case "p":
		r, after = valuesK(w, l, isNil, func(n int, _ T) *int { return pt.get(n) }) // the first key is the nil pointer
	case "a":
		r, after = valuesK(w, l, isNil, func(n int, _ T) any {
			if n == 0 {
				return nil
			}
			return n
		})
	case "t":
		// keys and values of one type, but different elements (codes 1000, 1001, ...)
		r, after = valuesK(w, l, isNil, func(n int, _ T) T { return w.e(1000 + n) })
	default:
		ok = false
	}
	return
}

func doRange[T comparable](w *world[T], l []int, u string) (r mapset.Set[T], after func() string, ok bool) {
	items := w.es(l)
	poisonItems := func() string {
		p := w.e(sentinel)
		for i := range items {
			items[i] = p
		}
		return ""
	}
	switch u {
	case ".", "v":
		return mapset.Range(slices.Values(items)), poisonItems, true
	case "k":
		m := make(map[T]struct{}, len(items))
		for _, v := range items {
			m[v] = struct{}{}
		}
		want := len(m)
		r = mapset.Range(maps.Keys(m))
		return r, func() string {
			bad := ""
			if len(m) != want {
				bad = "!"
			}
			if !w.univ1 {
				m[w.e(sentinel)] = struct{}{}
			}
			for _, v := range items {
				delete(m, v)
				break
			}
			return bad
		}, true
	case "h":
		var it iter.Seq[T] = func(yield func(T) bool) {
			for _, v := range items {
				if !yield(v) || !yield(v) {
					return
				}
			}
		}
		return mapset.Range(it), poisonItems, true
	}
	return rangeSingleUse(w, items, u) // round 6: the single-use sequences q i c r p o (round6.go)
}

// ---- Append with a given spare capacity

// appendCap runs s.Append(vs) with len(vs) = len(prefix), cap(vs) = len(prefix) + room and
// reports the result, whether it starts at the first cell of vs' array, and whether any cell of
// that array outside the appended range was written.
func appendCap[T comparable](w *world[T], s mapset.Set[T], prefix []int, room int) (r []T, inPlace, clobbered bool) {
	p := w.e(sentinel)
	m := len(prefix)
	backing := make([]T, m+room)
	pre := w.es(prefix)
	copy(backing, pre)
	for i := m; i < len(backing); i++ {
		backing[i] = p
	}
	vs := backing[:m:len(backing)]
	n := len(s)
	r = s.Append(vs)
	var zero T
	switch {
	case unsafe.Sizeof(zero) == 0:
		// all cells of a zero-size type share one address: answer by the language rule
		inPlace = n == 0 || room >= n
	case len(backing) == 0:
		inPlace = cap(r) == 0 // nothing to share: the empty set must hand back vs itself
	case cap(r) == 0:
		inPlace = false
	default:
		inPlace = unsafe.SliceData(r) == unsafe.SliceData(backing)
	}
	if !slices.Equal(backing[:m], pre) {
		clobbered = true
	}
	if inPlace && !w.univ1 {
		for i := m + n; i < len(backing); i++ {
			if backing[i] != p {
				clobbered = true
			}
		}
	}
	for i := range backing {
		if !inPlace || i >= len(r) {
			backing[i] = p
		}
	}
	return r, inPlace, clobbered
}
