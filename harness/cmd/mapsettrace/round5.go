// Round 5 generators: MULTI-OPERAND calls (ROUND5_GUIDE.md; the operations are the ones of main.go
// and inst.go, nothing new on the model side).
//
// What rounds 1-4 left open: every call with more than two set operands ran over the universe
// {0,1,2} (+ nil), where an operand of three members IS the universe and cannot lack anything the
// others share; item lists of HasAll/HasAny/Add/Remove stopped at two (thorough: three) items;
// AddAll/RemoveAll were always single calls.  A change that needs three or more operands whose SIZES
// come in a particular order (the smallest last, strictly decreasing twice, a tie in the middle ...)
// together with ONE operand, at a particular position, that alone lacks a common element was out
// of reach.
//
//	multiTriples   Intersect of EVERY ordered triple of {nil} + the 16 subsets of {0..3} (17^3), followed,
//	               on every third pair, by the AddAll chain and the RemoveAll chain of the same operands
//	multiQuads     Intersect of EVERY ordered quadruple over the same 17 operands (17^4 calls; the quick
//	               tier runs the 16^4 non-nil ones plus one nil position per seed, the thorough tier all)
//	sizeOrders     2..5 operands over universes of 4..8 values for EVERY weak order of their sizes
//	               (3, 13, 75, 541 patterns; the smallest operand has 1, 2 or 3 members, the others one
//	               more per rank): all operands share the value 0; then, position by
//	               position, the operand at that position alone gives up 0 while keeping its size
//	               (Intersect into a fresh variable, into the first operand's variable; HasAll/HasAny
//	               of the result); the same operands as an AddAll chain into a nil / empty / small /
//	               full receiver and as a RemoveAll chain out of the full universe, operands repeated
//	               and the receiver itself in the chain, every operand in turn (a clone of it) as the
//	               receiver of the chain of the others; on the typed kinds as well
//	aliasOperands  operand LISTS with repeats: every list of 1..4 (and every 5th of length 5) variable
//	               indices over three variables of decreasing sizes, for each choice of the one operand
//	               that lacks the common value (or none); the destination is one of the operands too
//	emptyPositions nil / empty / emptied by Remove / cleared / NewSize(0) at every position of 2..5
//	               operands, one and two of them per call
//	itemLists      HasAll, HasAny, Add, Remove with EVERY item list of length 3, 4 and 5 over {0..4}
//	               (a non-member first / in the middle / last, repeats, more items than members) on
//	               receivers of every size 0..4 and nil (quick: 9 receivers up to length 4, length 5 on
//	               every list once with a rotating receiver; thorough: all 17 receivers for all)
//	oneValue       struct{} elements: every list of 0..5 operands over {nil, {}, {0}} (3^0+...+3^5 calls)
//	smallTypes     the element types bool (kind So: two values; every list of 0..4 operands over nil, {},
//	               {false}, {true}, {false,true}, every pair, every item list to 5 items, the constructors),
//	               uint8 (Sb; the whole type in one set), int16 (Sh), float32 (Sg): the round-4 instantiation
//	               and capacity generators, batteries and pairs at 1..200 members, the multi-operand lines
//
//	largeSizes     thorough tier only: sets of exactly 2^15, 2^16-1, 2^16, 2^16+1 members (kinds Li Lx Ls Lt Lf),
//	               every observer, the binary operations against a clone differing in one element, Pop,
//	               Slice / Append; expected outputs from OCaml's own sets, not from the extracted model
//
// The cases are packed: one trace line holds 15..240 calls on fixed variables (the shrinker of
// bin/check cuts a failing line down to the operations that matter).  In every Intersect call the
// harness now also compares the operand list with what it handed in ("!" behind the result when the
// callee reordered or overwrote the caller's slice).
package main

import (
	"fmt"
	"strconv"
	"strings"

	"verif/harness/internal/tr"
)

func (g *gen) r5emit(kind string, k int, o []string, tags ...string) {
	g.emit(fmt.Sprintf("%s %d %s", kind, k, strings.Join(o, ";")), true, append([]string{"round5", "r5-type-" + kind}, tags...)...)
}

func idxList(n int) string {
	l := make([]int, n)
	for i := range l {
		l[i] = i
	}
	return tr.Ints(l)
}

// ---- exhaustive triples and quadruples over {nil} + subsets of {0..3}

func (g *gen) multiTriples() {
	const U = 4
	for a := -1; a < 1<<U; a++ {
		for b := -1; b < 1<<U; b++ {
			o := []string{initOp(0, a, U), initOp(1, b, U)}
			chains := (a+b+int(g.o.Seed))%3 == 0 || g.o.Thorough()
			for c := -1; c < 1<<U; c++ {
				o = append(o, initOp(2, c, U), "isect:3:0,1,2")
				g.countSizes("r5-isect3", popcount(max(a, 0)), popcount(max(b, 0)), popcount(max(c, 0)))
				if chains {
					o = append(o, "clone:3:0", "addall:3:1", "addall:3:2", "new:3:0,1,2,3,5", "rmall:3:1", "rmall:3:2")
				}
			}
			tags := []string{"r5-exhaustive-intersect3"}
			if chains {
				tags = append(tags, "r5-exhaustive-chain2")
			}
			g.r5emit("X", 4, o, tags...)
		}
	}
}

// countSizes: which order of sizes a call has (strictly decreasing twice in argument order is the
// state the fifth-generation seed needs).
func (g *gen) countSizes(prefix string, sz ...int) {
	dec, inc := 0, 0
	for i := 1; i < len(sz); i++ {
		if sz[i] < sz[i-1] {
			dec++
		}
		if sz[i] > sz[i-1] {
			inc++
		}
	}
	g.w.Count(prefix+"-sizes-strictly-decreasing-at-least-twice", b2i(dec >= 2 && inc == 0))
	g.w.Count(prefix+"-sizes-strictly-increasing-at-least-twice", b2i(inc >= 2 && dec == 0))
	g.w.Count(prefix+"-sizes-up-and-down", b2i(inc >= 1 && dec >= 1))
}

func (g *gen) multiQuads() {
	const U = 4
	nilPos := int(g.o.Seed) % 4 // quick: which operand position also runs through nil
	for a := -1; a < 1<<U; a++ {
		for b := -1; b < 1<<U; b++ {
			for c := -1; c < 1<<U; c++ {
				if !g.o.Thorough() {
					skip := false
					for p, x := range []int{a, b, c} {
						if x < 0 && p != nilPos {
							skip = true
						}
					}
					if skip {
						continue
					}
				}
				o := []string{initOp(0, a, U), initOp(1, b, U), initOp(2, c, U)}
				for d := -1; d < 1<<U; d++ {
					if d < 0 && !g.o.Thorough() && nilPos != 3 {
						continue
					}
					o = append(o, initOp(3, d, U), "isect:4:0,1,2,3")
					g.countSizes("r5-isect4", popcount(max(a, 0)), popcount(max(b, 0)), popcount(max(c, 0)), popcount(max(d, 0)))
				}
				g.r5emit("X", 5, o, "r5-exhaustive-intersect4")
			}
		}
	}
}

// ---- every weak order of the sizes of 2..5 operands

// weakOrders: all rank vectors r in {1..n}^n whose set of values is {1..m} for some m.
func weakOrders(n int) [][]int {
	var out [][]int
	r := make([]int, n)
	var rec func(i int)
	rec = func(i int) {
		if i == n {
			seen := make([]bool, n+2)
			mx := 0
			for _, x := range r {
				seen[x] = true
				mx = max(mx, x)
			}
			for x := 1; x <= mx; x++ {
				if !seen[x] {
					return
				}
			}
			out = append(out, append([]int(nil), r...))
			return
		}
		for x := 1; x <= n; x++ {
			r[i] = x
			rec(i + 1)
		}
	}
	rec(0)
	return out
}

// pickOthers: cnt of the codes 1..u-1, starting at a rotating place.
func pickOthers(u, cnt, start int) []int {
	l := make([]int, 0, cnt)
	for j := 0; j < cnt; j++ {
		l = append(l, 1+((start+j)%(u-1)+(u-1))%(u-1))
	}
	return l
}

// holder / defector of rank r (= its size) over the universe 0..u-1: with and without the value 0.
func holder(u, r, start int) string {
	return tr.Ints(append([]int{0}, pickOthers(u, r-1, start)...))
}
func defector(u, r, start int) string { return tr.Ints(pickOthers(u, r, start)) }

func (g *gen) sizeOrderCase(kind string, ranks []int, salt, base int, chains bool) {
	n := len(ranks)
	// n operands of sizes base+1..base+n over base+n+1 values (at least the universe of 4): the
	// smallest operand has base+1 members
	u := max(n+1+base, 4)
	size := func(r int) int { return r + base }
	all := idxList(n)
	dest := strconv.Itoa(n)
	o := make([]string, 0, 8*n)
	for i, r := range ranks {
		o = append(o, fmt.Sprintf("new:%d:%s", i, holder(u, size(r), salt+2*i)))
	}
	o = append(o, "isect:"+dest+":"+all, "hasall:"+dest+":0", "hasany:"+dest+":"+tr.Ints(pickOthers(u, u-1, 0)))
	for p, r := range ranks {
		// the operand at position p alone lacks 0; every other operand holds it
		o = append(o, fmt.Sprintf("new:%d:%s", p, defector(u, size(r), salt+2*p)), "isect:"+dest+":"+all)
		if p == n-1 || (p+salt)%2 == 0 {
			o = append(o, "has:"+dest+":0")
		}
		if p == 0 {
			o = append(o, "isect:0:"+all, fmt.Sprintf("new:0:%s", defector(u, size(r), salt)))
		}
		o = append(o, fmt.Sprintf("new:%d:%s", p, holder(u, size(r), salt+2*p)))
	}
	sz := make([]int, n)
	for i, r := range ranks {
		sz[i] = size(r)
	}
	g.countSizes("r5-size-orders", sz...)
	g.w.Count("r5-size-orders-smallest-operand-has-"+strconv.Itoa(base+1), 1)
	g.r5emit(kind, n+1, o, "r5-size-orders", "r5-size-orders-"+strconv.Itoa(n)+"-operands")
	if !chains {
		return
	}
	// the same operands as chains of AddAll / RemoveAll: into nil, empty, a small and the full receiver
	o = o[:0]
	for i, r := range ranks {
		if (i+salt)%3 == 0 {
			o = append(o, fmt.Sprintf("new:%d:%s", i, defector(u, size(r), salt+2*i)))
		} else {
			o = append(o, fmt.Sprintf("new:%d:%s", i, holder(u, size(r), salt+2*i)))
		}
	}
	recv := []string{"nil:" + dest, "new:" + dest + ":.", "new:" + dest + ":" + strconv.Itoa(u-1), "new:" + dest + ":" + run1(0, u+1)}[salt%4]
	o = append(o, recv)
	for i := range ranks {
		o = append(o, fmt.Sprintf("addall:%s:%d", dest, i))
	}
	o = append(o, "len:"+dest, "new:"+dest+":"+run1(0, u+1))
	for i := range ranks {
		o = append(o, fmt.Sprintf("rmall:%s:%d", dest, i))
	}
	// operands repeated, the receiver itself in the middle of the chain, the chain run backwards
	o = append(o, "len:"+dest, "new:"+dest+":"+strconv.Itoa(u), fmt.Sprintf("addall:%s:%d", dest, n-1), fmt.Sprintf("addall:%s:%d", dest, n-1), "addall:"+dest+":"+dest)
	for i := n - 1; i >= 0; i-- {
		o = append(o, fmt.Sprintf("addall:%s:%d", dest, i))
	}
	o = append(o, fmt.Sprintf("rmall:%s:%d", dest, 0), fmt.Sprintf("rmall:%s:%d", dest, 0), "len:"+dest, "rmall:"+dest+":"+dest, "addall:"+dest+":0", "len:"+dest)
	g.r5emit(kind, n+1, o, "r5-chains", "r5-chains-"+strconv.Itoa(n)+"-operands")
	// every operand in turn as the RECEIVER (a clone of it) of the chain of the others: the receiver
	// is smaller than, as big as and bigger than what is removed from / added to it, in every order
	o = o[:0]
	for i, r := range ranks {
		if (i+salt)%3 == 1 {
			o = append(o, fmt.Sprintf("new:%d:%s", i, defector(u, size(r), salt+3*i)))
		} else {
			o = append(o, fmt.Sprintf("new:%d:%s", i, holder(u, size(r), salt+3*i)))
		}
	}
	for i := range ranks {
		o = append(o, fmt.Sprintf("clone:%s:%d", dest, i))
		for j := range ranks {
			if j != i {
				o = append(o, fmt.Sprintf("rmall:%s:%d", dest, j))
			}
		}
		o = append(o, fmt.Sprintf("clone:%s:%d", dest, i))
		for j := n - 1; j >= 0; j-- {
			if j != i {
				o = append(o, fmt.Sprintf("addall:%s:%d", dest, j))
			}
		}
	}
	g.r5emit(kind, n+1, o, "r5-chains", "r5-chains-operand-as-receiver")
}

func (g *gen) sizeOrders() {
	seed := int(g.o.Seed)
	for n := 2; n <= 5; n++ {
		for wi, ranks := range weakOrders(n) {
			// the smallest operand has 1, 2 or 3 members: all three for up to four operands, rotating for five
			for base := 0; base <= 2; base++ {
				if n == 5 && !g.o.Thorough() && (wi+seed)%3 != base {
					continue
				}
				g.sizeOrderCase("X", ranks, wi+seed+base, base, n <= 3 || g.o.Thorough() || (wi+seed+base)%4 == 0)
			}
			// the typed kinds: every pattern of 2 and 3 operands on every type, the others rotating
			kinds := append(append([]string{}, allKinds...), r5Kinds...)
			for ki, kind := range kinds {
				if n <= 3 || (wi+ki+seed)%len(kinds) == 0 && (n == 4 || g.o.Thorough() || (wi+seed)%5 == 0) {
					g.sizeOrderCase(kind, ranks, wi+ki+seed, (wi+ki)%3, n <= 3)
				}
			}
		}
	}
}

// ---- operand lists with repeats

func (g *gen) aliasOperands() {
	seed := int(g.o.Seed)
	for lack := -1; lack < 3; lack++ { // which of the three lacks the common value 0 (none: -1)
		init := make([]string, 3)
		for i, r := range []int{3, 2, 1} {
			if i == lack {
				init[i] = fmt.Sprintf("new:%d:%s", i, defector(4, r, i))
			} else {
				init[i] = fmt.Sprintf("new:%d:%s", i, holder(4, r, i))
			}
		}
		var o []string
		flush := func() {
			if len(o) > 0 {
				g.r5emit("X", 4, append(append([]string{}, init...), o...), "r5-alias-operands")
				o = o[:0]
			}
		}
		cnt := 0
		allLists(3, 5, func(l []int) {
			if len(l) == 0 {
				return
			}
			cnt++
			if len(l) == 5 && !g.o.Thorough() && (cnt+seed)%5 != 0 {
				return
			}
			o = append(o, "isect:3:"+tr.Ints(l))
			if cnt%11 == 0 { // the destination is one of the operands: re-create it afterwards
				d := l[len(l)-1]
				o = append(o, fmt.Sprintf("isect:%d:%s", d, tr.Ints(l)), init[d])
			}
			if len(o) >= 40 {
				flush()
			}
		})
		flush()
	}
}

// ---- nil and empty operands at every position

func (g *gen) emptyPositions() {
	shapes := []varShape{varShapes[0], varShapes[1], varShapes[2], varShapes[3], varShapes[4]}
	for n := 2; n <= 5; n++ {
		u := max(n+1, 4)
		for q := 0; q < n; q++ {
			for si, sh := range shapes {
				var o []string
				for i := 0; i < n; i++ {
					o = append(o, fmt.Sprintf("new:%d:%s", i, holder(u, 1+(i+q+si)%n, i)))
				}
				o = append(o, strings.Split(sh.mk(q), ";")...)
				all := idxList(n)
				o = append(o, "isect:"+strconv.Itoa(n)+":"+all, "add:"+strconv.Itoa(n)+":5")
				// a second empty one at every other position
				for q2 := 0; q2 < n; q2++ {
					if q2 != q {
						o = append(o, strings.Split(shapes[(si+q2)%len(shapes)].mk(q2), ";")...)
						o = append(o, "isect:"+strconv.Itoa(n)+":"+all, fmt.Sprintf("new:%d:%s", q2, holder(u, 1+(q2+q+si)%n, q2)))
					}
				}
				// the chains with the empty operand in the middle
				for i := 0; i < n; i++ {
					o = append(o, fmt.Sprintf("addall:%d:%d", n, i))
				}
				for i := n - 1; i >= 0; i-- {
					o = append(o, fmt.Sprintf("rmall:%d:%d", n, i))
				}
				g.r5emit([]string{"X", "Si", "Ss", "Sp", "Sa", "Sf", "St", "Sx", "Sb", "Sh", "Sg"}[(n+q+si)%11], n+1, o, "r5-empty-at-position", "r5-empty-operand-"+sh.name)
			}
		}
	}
}

// ---- item lists of 3..5 items

func (g *gen) itemLists() {
	const U = 4
	seed := int(g.o.Seed)
	recvQuick := []int{-1, 0, 1, 2, 3, 6, 7, 14, 15} // nil, {}, {0}, {1}, {0,1}, {1,2}, {0,1,2}, {1,2,3}, {0,1,2,3}
	var recvAll []int
	for a := -1; a < 1<<U; a++ {
		recvAll = append(recvAll, a)
	}
	for length := 3; length <= 5; length++ {
		var lists []string
		var rec func(cur []int)
		rec = func(cur []int) {
			if len(cur) == length {
				lists = append(lists, tr.Ints(cur))
				return
			}
			for x := 0; x <= U; x++ {
				rec(append(cur[:len(cur):len(cur)], x))
			}
		}
		rec(nil)
		recv := recvAll
		if !g.o.Thorough() {
			recv = recvQuick
		}
		const perLine = 60
		for c := 0; c < len(lists); c += perLine {
			chunk := lists[c:min(c+perLine, len(lists))]
			rs := recv
			if length == 5 && !g.o.Thorough() { // every list once, the receiver rotating
				rs = []int{recvAll[(c/perLine+seed)%len(recvAll)]}
			}
			for _, a := range rs {
				o := []string{initOp(0, a, U)}
				for _, l := range chunk {
					o = append(o, "hasall:0:"+l, "hasany:0:"+l)
				}
				g.r5emit("X", 1, o, "r5-item-lists", "r5-item-lists-"+strconv.Itoa(length))
				if length == 3 || (c/perLine+a+seed)%8 == 0 || g.o.Thorough() {
					// the mutators: the receiver is made anew for every list
					o = o[:0]
					for li, l := range chunk {
						if length > 3 && !g.o.Thorough() && li%4 != 0 {
							continue
						}
						o = append(o, initOp(0, a, U), "add:0:"+l, initOp(0, a, U), "rm:0:"+l)
					}
					g.r5emit("X", 1, o, "r5-item-lists", "r5-item-lists-mutators")
				}
			}
		}
	}
}

// ---- struct{} elements: 0..5 operands over nil, {} and {0}

func (g *gen) oneValue() {
	shapes := []string{"nil:%d", "new:%d:.", "new:%d:0"}
	for n := 0; n <= 5; n++ {
		total := 1
		for i := 0; i < n; i++ {
			total *= 3
		}
		var o []string
		for m := 0; m < total; m++ {
			x := m
			for i := 0; i < n; i++ {
				if m == 0 || (m/pow3(i))%3 != ((m-1)/pow3(i))%3 {
					o = append(o, fmt.Sprintf(shapes[x%3], i))
				}
				x /= 3
			}
			o = append(o, fmt.Sprintf("isect:%d:%s", n, idxList(n)))
			if m%9 == 4 {
				for i := 0; i < n; i++ {
					o = append(o, fmt.Sprintf("addall:%d:%d", n, i))
				}
				for i := 0; i < n; i++ {
					o = append(o, fmt.Sprintf("rmall:%d:%d", n, i))
				}
			}
			if len(o) >= 40 || m == total-1 {
				g.r5emit("Sz", n+1, o, "r5-one-value")
				o = o[:0]
				// the variables start nil again on the next line: re-create what the odometer assumes
				if m != total-1 {
					y := m
					for i := 0; i < n; i++ {
						o = append(o, fmt.Sprintf(shapes[y%3], i))
						y /= 3
					}
				}
			}
		}
	}
}

// ---- the small element types (ROUND5_GUIDE.md class 2)

// r5Kinds: uint8 (codes -64..190), int16, float32 -- every generic entry point with nil / empty /
// populated arguments, the forms of the argument lists and the Append capacity sweep (the round-4
// generators inst and appendSweep), the batteries / equal pairs / a drain at 1, 3, 9, 65, 200
// members (uint8: 1, 3, 9, 33, 60 -- the pairs use codes up to 3n+3), and their share of the
// multi-operand lines above.
var r5Kinds = []string{"Sb", "Sh", "Sg"}

func (g *gen) smallTypes() {
	for _, kind := range r5Kinds {
		g.inst(kind)
		g.appendSweep(kind)
		sizes := []int{1, 3, 9, 65, 200}
		if kind == "Sb" {
			sizes = []int{1, 3, 9, 33, 60}
		}
		for _, n := range sizes {
			g.equalPair(kind, n, true)
			g.battery(kind, n)
			if n <= 65 || g.o.Thorough() {
				g.drain(kind, n, n+2)
			}
		}
		// uint8: the whole type but the poison value in one set
		if kind == "Sb" {
			g.r5emit(kind, 3, []string{"new:0:-64~191", "len:0", "hasall:0:-64~191,0~100", "hasany:0:190", "new:1:-64~191~2", "sub:1:0", "sub:0:1", "isect:2:0,1,0", "len:2", "rmall:0:1", "len:0",
				"meets:0:1", "addall:0:1", "eq:0:2", "rm:0:-64~190", "slice:0:?", "pop:0:?", "pop:0:?", "empty:0"}, "r5-small-types", "r5-whole-uint8")
		}
	}
	g.twoValues()
}

// twoValues: bool elements (codes 0 = false, 1 = true): every list of 0..4 operands over nil, {},
// {false}, {true}, {false,true}; every binary operation on every pair of them; every item list of
// up to 5 items; the constructors.
func (g *gen) twoValues() {
	const kind = "So"
	shapes := []string{"nil:%d", "new:%d:.", "new:%d:0", "new:%d:1", "new:%d:0,1"}
	for n := 0; n <= 4; n++ {
		total := 1
		for i := 0; i < n; i++ {
			total *= len(shapes)
		}
		var o []string
		for m := 0; m < total; m++ {
			x := m
			for i := 0; i < n; i++ {
				o = append(o, fmt.Sprintf(shapes[x%len(shapes)], i))
				x /= len(shapes)
			}
			o = append(o, fmt.Sprintf("isect:%d:%s", n, idxList(n)))
			if m%7 == 3 {
				for i := 0; i < n; i++ {
					o = append(o, fmt.Sprintf("addall:%d:%d", n, i))
				}
				for i := n - 1; i >= 0; i-- {
					o = append(o, fmt.Sprintf("rmall:%d:%d", n, i))
				}
			}
			if len(o) >= 40 || m == total-1 {
				g.r5emit(kind, n+1, o, "r5-small-types", "r5-bool-operands")
				o = o[:0]
			}
		}
	}
	for a := range shapes {
		for b := range shapes {
			g.r5emit(kind, 3, []string{fmt.Sprintf(shapes[a], 0), fmt.Sprintf(shapes[b], 1), "meets:0:1", "sub:0:1", "eq:0:1", "isect:2:0,1", "add:2:1", "clone:2:0", "addall:2:1", "rm:2:0",
				"clone:2:0", "rmall:2:1", "addall:0:1", "eq:0:1", "rmall:1:0", "len:1", "add:1:0", "pop:0:?", "pop:0:?", "pop:0:?", "slice:1:?", "appendc:1:0,1:?:1", "appendc:1:.:?:2", "keysv:2:1", "rangev:2:0", "len:2"},
				"r5-small-types", "r5-bool-pairs")
		}
		var o []string
		o = append(o, fmt.Sprintf(shapes[a], 0))
		allLists(2, 5, func(l []int) {
			ls := tr.Ints(l)
			o = append(o, "hasall:0:"+ls, "hasany:0:"+ls)
			if len(l) <= 3 {
				o = append(o, "clone:1:0", "add:1:"+ls, "clone:1:0", "rm:1:"+ls)
			}
		})
		g.r5emit(kind, 2, o, "r5-small-types", "r5-bool-item-lists")
	}
	for _, c := range []string{"new:0:.:0", "new:0:.:n", "new:0:0,1,1,0:w", "newsize:0:0", "newsize:0:2", "keys:0:nil:e", "keys:0:0,1:S", "keys:0:1:b", "values:0:0,1,1:i", "values:0:nil:t", "range:0:1,0,1:h", "range:0:.:k", "isect:0:.:0", "isect:0:.:e"} {
		g.r5emit(kind, 2, []string{"new:1:1", c, "add:0:1", "rm:0:1,0", "len:0", strings.Replace(c, ":0:", ":1:", 1), "len:1"}, "r5-small-types", "r5-bool-constructors")
	}
}

// ---- exact large sizes (thorough tier; ROUND5_GUIDE.md class 5)

// largeSizes: sets of 2^15, 2^16-1, 2^16, 2^16+1 members on five element types (kinds Li Lx Ls Lt Lf).
// The driver does not replay these lines on the extracted model (quadratic per call: minutes per
// line) but on OCaml's own sets; spec decides the property on them as on every line.
func (g *gen) largeSizes() {
	if !g.o.Thorough() {
		return
	}
	S := strconv.Itoa
	kinds := []string{"Li", "Ls", "Lx", "Lt", "Lf"}
	for ni, n := range []int{1 << 15, 1<<16 - 1, 1 << 16, 1<<16 + 1} {
		all := run1(0, n)
		for ki := 0; ki < 2; ki++ {
			kind := kinds[(ni+2*ki+int(g.o.Seed))%len(kinds)]
			o := []string{"new:0:" + all, "len:0", "empty:0", "has:0:" + S(n-1), "has:0:" + S(n), "hasd:0:" + run1(-2, n+2), "hasall:0:" + list(all, "0", S(n-1)),
				"hasall:0:" + list(run1(1, n+1)), "hasany:0:" + list(run1(n, 2*n), S(n-1)), "hasany:0:" + run1(n, n+3), "slice:0:?", "appendf:0:7,7:?", "append:0:n:?",
				"clone:1:0", "eq:0:1", "sub:0:1", "meets:0:1", "rm:1:" + S(n-1), "add:1:" + S(n), "eq:0:1", "eq:1:0", "sub:0:1", "sub:1:0", "isect:2:0,1", "len:2", "isect:2:1,0,1",
				"new:2:" + list(runStep(0, n, 2), S(n)), "sub:2:1", "sub:2:0", "isect:2:2,0,1", "len:2", "addall:2:0", "rmall:2:1", "len:2", "rmall:0:2", "rm:0:" + runStep(0, n, 2), "len:0", "add:0:" + list(all, "0"),
				"eq:0:1", "rmall:0:0", "empty:0", "addall:0:1", "pop:0:?", "pop:0:?", "len:0", "clear:1", "pop:1:?", "len:1", "addall:1:1", "rm:0:" + list(all, S(n)), "empty:0", "slice:0:?"}
			g.emit(fmt.Sprintf("%s 3 %s", kind, strings.Join(o, ";")), true, "round5", "r5-exact-large-size", "r5-large-"+S(n))
		}
	}
}

func pow3(i int) int {
	p := 1
	for ; i > 0; i-- {
		p *= 3
	}
	return p
}

func (g *gen) round5() {
	g.sizeOrders() // (the shortest lines first: the first failing line is what gets reported and shrunk)
	g.aliasOperands()
	g.emptyPositions()
	g.oneValue()
	g.smallTypes()
	g.multiTriples()
	g.itemLists()
	g.multiQuads()
	g.largeSizes()
}
