module verif/cacheconc

go 1.23

require (
	github.com/anishathalye/porcupine v1.3.0
	github.com/creachadair/mds v0.0.0
)

replace github.com/creachadair/mds => /repo
