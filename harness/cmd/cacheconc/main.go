// Command cacheconc runs the real cache.Cache (LRU store) of the working tree from several
// goroutines on a small shared key space, records the concurrent histories (invocation and
// response stamps from one atomic counter, results, and the OnEvict calls made during each call)
// and checks them:
//
//	(a) linearizability (porcupine v1.3.0) against a Go transcription of the C08 reference: recency
//	    list, Put/Get are uses, Has is not; the victims of a Put are taken from the observed callback
//	    log and checked as in the policy-agnostic reference S1 (present entries, evicted only while
//	    the value does not fit, stop only when it fits) — a victim that is not the least recently
//	    used entry is counted (known finding F2), not rejected;
//	(b) every observed Size() within [0, limit], every Len() within [0, number of keys];
//	(c) every entry that left the cache was reported to the callback exactly once: after a final
//	    Clear, the callback log is exactly the set of (key, value) of the Puts that returned true
//	    (values are unique);
//	(d) no panic.
//
// It is meant to be built with -race; data races are reported by the runtime on stderr and turned
// into failures by the runner script.  Output: FAIL input=<cfg> reason=<reason> per failing run,
// then one STATS line.  -replay <cfg> re-runs one configuration (the schedule is the runtime's, so
// a failure need not recur).
package main

import (
	"bytes"
	"flag"
	"fmt"
	"os"
	"runtime"
	"sort"
	"strconv"
	"strings"
	"sync"
	"sync/atomic"
	"time"

	"github.com/anishathalye/porcupine"
	"github.com/creachadair/mds/cache"
)

type rng struct{ s uint64 }

func newRng(seed uint64) *rng { return &rng{s: seed*0x9E3779B97F4A7C15 + 0x1234567} }
func (r *rng) next() uint64 {
	r.s += 0x9E3779B97F4A7C15
	z := r.s
	z = (z ^ (z >> 30)) * 0xBF58476D1CE4E5B9
	z = (z ^ (z >> 27)) * 0x94D049BB133111EB
	return z ^ (z >> 31)
}
func (r *rng) intn(n int) int { return int(r.next() % uint64(n)) }

type kv struct{ k, v int }

type input struct {
	kind byte // p g h r l s c
	key  int
	val  int
}

type output struct {
	ok  bool
	val int
	n   int64
	ev  []kv
}

type rec struct {
	g         int
	in        input
	out       output
	call, ret int64
	panicked  string
}

type config struct {
	seed   uint64
	run    int
	procs  int
	g      int
	ops    int
	keys   int
	limit  int64
	sizeMd int // 0 unit, 3 = v mod 3
}

func (c config) String() string {
	return fmt.Sprintf("seed=%d,run=%d,procs=%d,g=%d,ops=%d,keys=%d,limit=%d,size=%d", c.seed, c.run, c.procs, c.g, c.ops, c.keys, c.limit, c.sizeMd)
}

func parseConfig(s string) (c config, err error) {
	for _, f := range strings.Split(s, ",") {
		kv := strings.SplitN(f, "=", 2)
		if len(kv) != 2 {
			return c, fmt.Errorf("bad field %q", f)
		}
		n, e := strconv.ParseInt(kv[1], 10, 64)
		if e != nil {
			return c, e
		}
		switch kv[0] {
		case "seed":
			c.seed = uint64(n)
		case "run":
			c.run = int(n)
		case "procs":
			c.procs = int(n)
		case "g":
			c.g = int(n)
		case "ops":
			c.ops = int(n)
		case "keys":
			c.keys = int(n)
		case "limit":
			c.limit = n
		case "size":
			c.sizeMd = int(n)
		}
	}
	return c, nil
}

func (c config) size(v int) int64 {
	if c.sizeMd == 0 {
		return 1
	}
	return int64(v % c.sizeMd)
}

func goid() int64 {
	var buf [64]byte
	n := runtime.Stack(buf[:], false)
	f := bytes.Fields(buf[:n])
	id, _ := strconv.ParseInt(string(f[1]), 10, 64)
	return id
}

// execute runs one configuration on the real cache.
func execute(c config) (hist []rec, global []kv) {
	var clock int64
	var hmu sync.Mutex // the harness's own lock: callback log and goroutine table
	slots := map[int64]*[]kv{}
	cb := func(k, v int) {
		id := goid()
		hmu.Lock()
		global = append(global, kv{k, v})
		if s := slots[id]; s != nil {
			*s = append(*s, kv{k, v})
		}
		hmu.Unlock()
	}
	// The size function and the callback run inside the cache's critical sections: yielding there
	// stretches them, so that other goroutines really arrive while a call is in progress (also
	// with GOMAXPROCS=1).
	var yields int64
	stretch := func() {
		if atomic.AddInt64(&yields, 1)%2 == 0 {
			runtime.Gosched()
		}
	}
	inner := cb
	cb = func(k, v int) { stretch(); inner(k, v) }
	cfg := cache.LRU[int, int]().OnEvict(cb).WithSize(func(v int) int64 { stretch(); return c.size(v) })
	cc := cache.New(c.limit, cfg)

	doOp := func(g int, in input, cur *[]kv) (r rec) {
		r.g, r.in = g, in
		*cur = nil
		defer func() {
			if p := recover(); p != nil {
				r.panicked = fmt.Sprint(p)
				r.ret = atomic.AddInt64(&clock, 1)
			}
		}()
		r.call = atomic.AddInt64(&clock, 1)
		switch in.kind {
		case 'p':
			r.out.ok = cc.Put(in.key, in.val)
		case 'g':
			r.out.val, r.out.ok = cc.Get(in.key)
		case 'h':
			r.out.ok = cc.Has(in.key)
		case 'r':
			r.out.ok = cc.Remove(in.key)
		case 'l':
			r.out.n = int64(cc.Len())
		case 's':
			r.out.n = cc.Size()
		case 'c':
			cc.Clear()
		}
		r.ret = atomic.AddInt64(&clock, 1)
		hmu.Lock()
		r.out.ev = append([]kv(nil), (*cur)...)
		hmu.Unlock()
		return r
	}

	per := make([][]rec, c.g)
	var wg sync.WaitGroup
	start := make(chan struct{})
	for g := 0; g < c.g; g++ {
		wg.Add(1)
		go func(g int) {
			defer wg.Done()
			r := newRng(c.seed*1000003 + uint64(c.run)*977 + uint64(g)*31 + 7)
			cur := new([]kv)
			hmu.Lock()
			slots[goid()] = cur
			hmu.Unlock()
			// the programme of this goroutine is fixed before the start
			ins := make([]input, c.ops)
			for i := range ins {
				x := r.intn(100)
				k := r.intn(c.keys)
				switch {
				case x < 38:
					// unique value with the wanted size residue
					res := 1
					if c.sizeMd != 0 {
						res = r.intn(c.sizeMd)
					}
					base := (g+1)*100000 + (i+1)*10
					v := base
					if c.sizeMd != 0 {
						v = base - base%c.sizeMd + res
					}
					ins[i] = input{kind: 'p', key: k, val: v}
				case x < 58:
					ins[i] = input{kind: 'g', key: k}
				case x < 68:
					ins[i] = input{kind: 'h', key: k}
				case x < 82:
					ins[i] = input{kind: 'r', key: k}
				case x < 89:
					ins[i] = input{kind: 'l'}
				case x < 97:
					ins[i] = input{kind: 's'}
				default:
					ins[i] = input{kind: 'c'}
				}
			}
			yield := make([]bool, c.ops)
			for i := range yield {
				yield[i] = r.intn(3) == 0
			}
			<-start
			for i, in := range ins {
				per[g] = append(per[g], doOp(g, in, cur))
				if yield[i] {
					runtime.Gosched()
				}
			}
		}(g)
	}
	close(start)
	wg.Wait()
	for g := range per {
		hist = append(hist, per[g]...)
	}
	// everything departs
	cur := new([]kv)
	hmu.Lock()
	slots[goid()] = cur
	hmu.Unlock()
	hist = append(hist, doOp(c.g, input{kind: 'c'}, cur))
	return hist, global
}

// ---- the sequential reference (state = "k:v;k:v;" least recently used first)

type ent = kv

func decode(s string) []ent {
	if s == "" {
		return nil
	}
	parts := strings.Split(strings.TrimSuffix(s, ";"), ";")
	out := make([]ent, len(parts))
	for i, p := range parts {
		a := strings.SplitN(p, ":", 2)
		out[i].k, _ = strconv.Atoi(a[0])
		out[i].v, _ = strconv.Atoi(a[1])
	}
	return out
}

func encode(es []ent) string {
	var b strings.Builder
	for _, e := range es {
		fmt.Fprintf(&b, "%d:%d;", e.k, e.v)
	}
	return b.String()
}

var nonLRU int64 // a victim that was not the least recently used entry was seen (known finding F2)

func model(c config) porcupine.Model {
	find := func(es []ent, k int) int {
		for i, e := range es {
			if e.k == k {
				return i
			}
		}
		return -1
	}
	total := func(es []ent) (t int64) {
		for _, e := range es {
			t += c.size(e.v)
		}
		return
	}
	without := func(es []ent, i int) []ent {
		out := make([]ent, 0, len(es))
		out = append(out, es[:i]...)
		return append(out, es[i+1:]...)
	}
	return porcupine.Model{
		Init: func() interface{} { return "" },
		Step: func(st, inp, outp interface{}) (bool, interface{}) {
			es := decode(st.(string))
			in := inp.(input)
			out := outp.(output)
			switch in.kind {
			case 'p':
				vs := c.size(in.val)
				if vs > c.limit {
					return !out.ok && len(out.ev) == 0, st
				}
				if !out.ok {
					return false, st
				}
				ev := out.ev
				if i := find(es, in.key); i >= 0 {
					if len(ev) == 0 || ev[0] != es[i] {
						return false, st
					}
					ev = ev[1:]
					es = without(es, i)
				}
				for _, victim := range ev {
					if total(es)+vs <= c.limit {
						return false, st // evicted although the value fits
					}
					i := find(es, victim.k)
					if i < 0 || es[i] != victim {
						return false, st
					}
					if i != 0 {
						atomic.StoreInt64(&nonLRU, 1)
					}
					es = without(es, i)
				}
				if total(es)+vs > c.limit {
					return false, st
				}
				es = append(append([]ent(nil), es...), ent{in.key, in.val})
				return true, encode(es)
			case 'g':
				i := find(es, in.key)
				if i < 0 {
					return !out.ok && out.val == 0 && len(out.ev) == 0, st
				}
				if !out.ok || out.val != es[i].v || len(out.ev) != 0 {
					return false, st
				}
				e := es[i]
				return true, encode(append(without(es, i), e))
			case 'h':
				return out.ok == (find(es, in.key) >= 0) && len(out.ev) == 0, st
			case 'r':
				i := find(es, in.key)
				if i < 0 {
					return !out.ok && len(out.ev) == 0, st
				}
				if !out.ok || len(out.ev) != 1 || out.ev[0] != es[i] {
					return false, st
				}
				return true, encode(without(es, i))
			case 'l':
				return out.n == int64(len(es)) && len(out.ev) == 0, st
			case 's':
				t := total(es)
				return out.n == t && t <= c.limit && len(out.ev) == 0, st
			case 'c':
				if len(out.ev) != len(es) {
					return false, st
				}
				a := append([]ent(nil), es...)
				b := append([]ent(nil), out.ev...)
				less := func(x []ent) func(i, j int) bool {
					return func(i, j int) bool { return x[i].k < x[j].k || (x[i].k == x[j].k && x[i].v < x[j].v) }
				}
				sort.Slice(a, less(a))
				sort.Slice(b, less(b))
				for i := range a {
					if a[i] != b[i] {
						return false, st
					}
				}
				return true, ""
			}
			return false, st
		},
		Equal: func(a, b interface{}) bool { return a.(string) == b.(string) },
	}
}

// check returns the reasons for which this run fails.
func check(c config, hist []rec, global []kv, timeout time.Duration) (reasons []string, overlaps int) {
	ops := make([]porcupine.Operation, 0, len(hist))
	puts := map[kv]int{}
	perOp := 0
	for _, r := range hist {
		if r.panicked != "" {
			reasons = append(reasons, "panic")
			continue
		}
		ops = append(ops, porcupine.Operation{ClientId: r.g, Input: r.in, Call: r.call, Output: r.out, Return: r.ret})
		perOp += len(r.out.ev)
		switch r.in.kind {
		case 'p':
			if r.out.ok {
				puts[kv{r.in.key, r.in.val}]++
			}
		case 's':
			if r.out.n < 0 || r.out.n > c.limit {
				reasons = append(reasons, "size-exceeds-limit")
			}
		case 'l':
			if r.out.n < 0 || r.out.n > int64(c.keys) {
				reasons = append(reasons, "len-out-of-range")
			}
		}
	}
	for i := range hist {
		for j := i + 1; j < len(hist); j++ {
			if hist[i].g != hist[j].g && hist[i].call < hist[j].ret && hist[j].call < hist[i].ret {
				overlaps++
			}
		}
	}
	// exactly once
	seen := map[kv]int{}
	for _, e := range global {
		seen[e]++
	}
	okOnce := perOp == len(global) && len(seen) == len(puts)
	for e, n := range seen {
		if n != 1 || puts[e] != 1 {
			okOnce = false
		}
	}
	if !okOnce {
		reasons = append(reasons, "callback-not-exactly-once")
	}
	switch porcupine.CheckOperationsTimeout(model(c), ops, timeout) {
	case porcupine.Illegal:
		reasons = append(reasons, "not-linearizable")
	case porcupine.Unknown:
		reasons = append(reasons, "linearizability-check-timeout")
	}
	return dedup(reasons), overlaps
}

func dedup(xs []string) []string {
	seen := map[string]bool{}
	var out []string
	for _, x := range xs {
		if !seen[x] {
			seen[x] = true
			out = append(out, x)
		}
	}
	return out
}

func dump(hist []rec) {
	sort.Slice(hist, func(i, j int) bool { return hist[i].call < hist[j].call })
	for _, r := range hist {
		fmt.Fprintf(os.Stderr, "  g%d [%d,%d] %c key=%d val=%d -> ok=%v val=%d n=%d ev=%v %s\n", r.g, r.call, r.ret, r.in.kind, r.in.key, r.in.val,
			r.out.ok, r.out.val, r.out.n, r.out.ev, r.panicked)
	}
}

func selftest() bool {
	c := config{limit: 2, keys: 3}
	m := model(c)
	op := func(g int, in input, out output, call, ret int64) porcupine.Operation {
		return porcupine.Operation{ClientId: g, Input: in, Output: out, Call: call, Return: ret}
	}
	// overlapping Put and Get: Get may see the value or not
	h1 := []porcupine.Operation{
		op(0, input{kind: 'p', key: 1, val: 10}, output{ok: true}, 1, 4),
		op(1, input{kind: 'g', key: 1}, output{ok: true, val: 10}, 2, 3),
		op(1, input{kind: 'l'}, output{n: 1}, 5, 6),
	}
	// Put completes before Get starts, Get misses: not linearizable
	h2 := []porcupine.Operation{
		op(0, input{kind: 'p', key: 1, val: 10}, output{ok: true}, 1, 2),
		op(1, input{kind: 'g', key: 1}, output{}, 3, 4),
	}
	// Size above the limit
	h3 := []porcupine.Operation{
		op(0, input{kind: 'p', key: 1, val: 10}, output{ok: true}, 1, 2),
		op(0, input{kind: 'p', key: 2, val: 20}, output{ok: true}, 3, 4),
		op(0, input{kind: 'p', key: 0, val: 30}, output{ok: true}, 5, 6), // no eviction reported
		op(0, input{kind: 's'}, output{n: 3}, 7, 8),
	}
	// a lost eviction report
	h4 := []porcupine.Operation{
		op(0, input{kind: 'p', key: 1, val: 10}, output{ok: true}, 1, 2),
		op(0, input{kind: 'p', key: 2, val: 20}, output{ok: true}, 3, 4),
		op(0, input{kind: 'p', key: 0, val: 30}, output{ok: true, ev: []kv{{1, 10}}}, 5, 6),
		op(1, input{kind: 'h', key: 1}, output{ok: false}, 7, 8),
		op(1, input{kind: 's'}, output{n: 2}, 9, 10),
	}
	ok := porcupine.CheckOperations(m, h1) && !porcupine.CheckOperations(m, h2) && !porcupine.CheckOperations(m, h3) && porcupine.CheckOperations(m, h4)
	return ok
}

func main() {
	seed := flag.Uint64("seed", 1, "seed")
	runs := flag.Int("runs", 100, "histories")
	procs := flag.Int("procs", 0, "GOMAXPROCS (0 = leave)")
	gor := flag.Int("goroutines", 0, "goroutines (0 = 2..4)")
	nops := flag.Int("ops", 0, "ops per goroutine (0 = 5..9)")
	keys := flag.Int("keys", 0, "key space (0 = 2..5)")
	replay := flag.String("replay", "", "configuration to re-run")
	verbose := flag.Bool("v", false, "dump failing histories")
	st := flag.Bool("selftest", false, "check the checker")
	flag.Parse()
	if *st {
		if selftest() {
			fmt.Println("SELFTEST PASS")
			return
		}
		fmt.Println("SELFTEST FAIL")
		os.Exit(2)
	}
	if *procs > 0 {
		runtime.GOMAXPROCS(*procs)
	}
	var cfgs []config
	if *replay != "" {
		c, err := parseConfig(*replay)
		if err != nil {
			fmt.Println("bad -replay:", err)
			os.Exit(2)
		}
		if c.procs > 0 {
			runtime.GOMAXPROCS(c.procs)
		}
		for i := 0; i < *runs; i++ {
			cfgs = append(cfgs, c)
		}
	} else {
		r := newRng(*seed)
		for i := 0; i < *runs; i++ {
			c := config{seed: *seed, run: i, procs: runtime.GOMAXPROCS(0), g: *gor, ops: *nops, keys: *keys}
			if c.g == 0 {
				c.g = 2 + r.intn(3)
			}
			if c.ops == 0 {
				c.ops = 5 + r.intn(5)
			}
			if c.keys == 0 {
				c.keys = 2 + r.intn(4)
			}
			c.limit = int64(1 + r.intn(6))
			if r.intn(2) == 0 {
				c.sizeMd = 3
			}
			cfgs = append(cfgs, c)
		}
	}
	fails, totalOps, overlaps, nonlin := 0, 0, 0, 0
	for _, c := range cfgs {
		hist, global := execute(c)
		totalOps += len(hist)
		reasons, ov := check(c, hist, global, 20*time.Second)
		overlaps += ov
		for _, why := range reasons {
			fails++
			if why == "not-linearizable" {
				nonlin++
			}
			fmt.Printf("FAIL input=%s reason=%s\n", c, why)
		}
		if len(reasons) > 0 && *verbose {
			dump(hist)
		}
	}
	fmt.Printf("STATS runs=%d ops=%d fails=%d nonlinearizable=%d nonLRUVictims=%d overlaps=%d procs=%d\n",
		len(cfgs), totalOps, fails, nonlin, atomic.LoadInt64(&nonLRU), overlaps, runtime.GOMAXPROCS(0))
	if fails > 0 {
		os.Exit(1)
	}
}
