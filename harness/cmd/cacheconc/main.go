// Command cacheconc runs the real cache.Cache (LRU store) of the working tree from several
// goroutines on a small shared key space, records the concurrent histories (invocation and
// response stamps from one atomic counter, results, and the OnEvict calls made during each call)
// and checks them.
//
// Two workloads:
//
//	mode=0 (random)  2-4 goroutines x 5-9 random calls on 2-5 keys, all released at once;
//	mode=1 (duel)    contended same-key rounds: one cache lives for several phases; before a phase
//	                 the driver makes the contended key present (sequentially), then 2-4 goroutines
//	                 that have met at a spin barrier each fire one to three calls at that key:
//	                 Remove/Remove, Remove/Put, Remove/Clear, Remove/evicting Put, Get/Get, Put/Put
//	                 and random contended mixes; Len and Size are read between the phases.
//	mode=2 (readers) the same phases on a cache the driver has filled to its limit, with Len/Size
//	                 readers racing an evicting Put, a Clear or a Remove, and Get/Has of a key racing
//	                 the Put that replaces it or the Put that evicts it.
//	mode=3 (staged)  interleavings forced by a handshake instead of luck: the size function and the
//	                 eviction callback are hooks inside the cache's critical sections; in every act
//	                 goroutine A makes one call (evicting Put, Put on a one-entry cache, replacing
//	                 Put, Remove, Clear) and stops inside it at a chosen hook call (the callback for
//	                 the victim / replaced / removed / n-th cleared entry, or the size function on its
//	                 value - i.e. after the store has been changed and before, or in the middle of,
//	                 the update of count and size); only then one or two probers start their calls
//	                 (Len, Size, Get/Has of the departing and of the arriving key, sometimes a Put or
//	                 Remove of it); A goes on as soon as every prober has either finished or is
//	                 blocked on a mutex (its goroutine state says so - no time-out involved).  With
//	                 every method one critical section the probers always block and their results
//	                 are those after A's call; anything they can see while A is stopped - a count
//	                 between two updates, a store without the entry that is being replaced - must
//	                 still have a sequential explanation.
//
// Per history:
//
//	(a) linearizability (porcupine v1.3.0) against a Go transcription of the C08 reference: recency
//	    list, Put/Get are uses, Has is not; the victims of a Put are taken from the observed callback
//	    log and checked as in the policy-agnostic reference S1 (present entries, evicted only while
//	    the value does not fit, stop only when it fits) - a victim that is not the least recently
//	    used entry is counted (known finding F2), not rejected;
//	(b) every observed Size() within [0, limit], every Len() within [0, number of keys] (never negative);
//	(c) quiescence: once all goroutines are done the driver reads Len, Size, Has and Get of every key;
//	    Len must be the number of keys present and Size the sum of the sizes of the values present;
//	(d) every entry that left the cache was reported to the callback exactly once: callbacks are
//	    counted per (key, value) - values are unique per Put, so this is per (key, value-version) -
//	    and after a final Clear every successful Put must have exactly one report, and nothing
//	    else may have been reported (callback-twice / callback-never / callback-unknown-entry);
//	(e) no panic.
//
// Nothing in the verdict depends on wall-clock time: -budget only decides how many histories are
// produced (a slow machine yields fewer histories, never a failure), and a linearizability check that
// does not finish in its time slice is counted as inconclusive, not as a failure.  A deadlock (a
// method calling another locking method of the same cache under the mutex) is recognised by the
// states of the goroutines, not by a time-out (see watchdog).
//
// It is meant to be built with -race; data races are reported by the runtime on stderr and turned
// into failures by the runner script.  Output: CUR <cfg> before each history, FAIL input=<cfg>
// reason=<reason> per failing history, then one STATS line.  -replay <cfg> re-runs one
// configuration (the schedule is the runtime's, so a failure need not recur).
package main

import (
	"bytes"
	"flag"
	"fmt"
	"os"
	"runtime"
	"sort"
	"strconv"
	"strings"
	"sync"
	"sync/atomic"
	"time"

	"github.com/anishathalye/porcupine"
	"github.com/creachadair/mds/cache"
)

type rng struct{ s uint64 }

func newRng(seed uint64) *rng { return &rng{s: seed*0x9E3779B97F4A7C15 + 0x1234567} }
func (r *rng) next() uint64 {
	r.s += 0x9E3779B97F4A7C15
	z := r.s
	z = (z ^ (z >> 30)) * 0xBF58476D1CE4E5B9
	z = (z ^ (z >> 27)) * 0x94D049BB133111EB
	return z ^ (z >> 31)
}
func (r *rng) intn(n int) int { return int(r.next() % uint64(n)) }

type kv struct{ k, v int }

type input struct {
	kind byte // p g h r l s c
	key  int
	val  int
}

type output struct {
	ok  bool
	val int
	n   int64
	ev  []kv
}

type rec struct {
	g         int
	in        input
	out       output
	call, ret int64
	panicked  string
}

type config struct {
	mode   int // 0 random, 1 duel
	seed   uint64
	run    int
	procs  int
	g      int
	ops    int // random: calls per goroutine; duel: phases
	keys   int
	limit  int64
	sizeMd int // 0 unit, 3 = v mod 3
}

func (c config) String() string {
	return fmt.Sprintf("mode=%d,seed=%d,run=%d,procs=%d,g=%d,ops=%d,keys=%d,limit=%d,size=%d", c.mode, c.seed, c.run, c.procs, c.g, c.ops, c.keys, c.limit, c.sizeMd)
}

func parseConfig(s string) (c config, err error) {
	for _, f := range strings.Split(s, ",") {
		kv := strings.SplitN(f, "=", 2)
		if len(kv) != 2 {
			return c, fmt.Errorf("bad field %q", f)
		}
		n, e := strconv.ParseInt(kv[1], 10, 64)
		if e != nil {
			return c, e
		}
		switch kv[0] {
		case "mode":
			c.mode = int(n)
		case "seed":
			c.seed = uint64(n)
		case "run":
			c.run = int(n)
		case "procs":
			c.procs = int(n)
		case "g":
			c.g = int(n)
		case "ops":
			c.ops = int(n)
		case "keys":
			c.keys = int(n)
		case "limit":
			c.limit = n
		case "size":
			c.sizeMd = int(n)
		}
	}
	if c.g < 1 || c.g > 64 || c.ops < 1 || c.keys < 1 || c.limit < 1 {
		return c, fmt.Errorf("incomplete configuration %q", s)
	}
	return c, nil
}

func (c config) size(v int) int64 {
	if c.sizeMd == 0 {
		return 1
	}
	return int64(v % c.sizeMd)
}

func goid() int64 {
	var buf [64]byte
	n := runtime.Stack(buf[:], false)
	f := bytes.Fields(buf[:n])
	id, _ := strconv.ParseInt(string(f[1]), 10, 64)
	return id
}

// ---- one cache under observation

type world struct {
	c      config
	cc     *cache.Cache[int, int]
	clock  int64
	hmu    sync.Mutex // the harness's own lock: callback log and goroutine table
	slots  map[int64]*[]kv
	global []kv
	yields int64
	detail []string
	gate   atomic.Pointer[gate] // staged mode: where goroutine A stops inside its call
}

// A gate stops one goroutine (owner) inside a call of the cache: at the first call of the hook kind
// ('c' = eviction callback, 's' = size function) whose value argument is val.  Values are unique per
// Put, so this names one entry.  The probers wait for inside, make their calls and set done.
type gate struct {
	kind    byte
	val     int
	owner   atomic.Int64
	armed   atomic.Int32
	inside  chan struct{}
	once    sync.Once
	probers []*prober
}

type prober struct {
	gid     atomic.Int64
	started atomic.Int32
	done    atomic.Int32
}

func (g *gate) open() { g.once.Do(func() { close(g.inside) }) }

var gateFired, gateProbesInside, gateGaveUp int64 // statistics of the staged mode

// stateOf returns the scheduler state of goroutine id as the runtime prints it ("running",
// "runnable", "sync.Mutex.Lock", ...), "" if there is no such goroutine.
func stateOf(id int64, buf []byte) string {
	dump := string(buf[:runtime.Stack(buf, true)])
	pre := "goroutine " + strconv.FormatInt(id, 10) + " ["
	i := strings.Index(dump, pre)
	if i < 0 {
		return ""
	}
	st := dump[i+len(pre):]
	if j := strings.IndexAny(st, ",]"); j >= 0 {
		st = st[:j]
	}
	return st
}

// atGate is called by the hooks.  The owner of an armed gate stops here: it lets the probers go and
// waits until each of them has finished or is blocked on a synchronisation primitive (which, with
// the cache's mutex held by this very goroutine, is where a prober of a correct cache ends up).
func (w *world) atGate(kind byte, v int) {
	g := w.gate.Load()
	if g == nil || g.kind != kind || g.val != v || g.owner.Load() != goid() {
		return
	}
	if !g.armed.CompareAndSwap(1, 0) {
		return
	}
	atomic.AddInt64(&gateFired, 1)
	g.open()
	buf := make([]byte, 1<<16)
	for _, p := range g.probers {
		for p.started.Load() == 0 {
			runtime.Gosched()
		}
		for i := 0; p.done.Load() == 0; i++ {
			if i >= 2 && blockedStates[stateOf(p.gid.Load(), buf)] {
				break
			}
			if i > 200000 {
				atomic.AddInt64(&gateGaveUp, 1)
				break
			}
			runtime.Gosched()
		}
		if p.done.Load() != 0 {
			atomic.AddInt64(&gateProbesInside, 1) // finished while this goroutine is inside its call
		}
	}
}

func newWorld(c config) *world {
	w := &world{c: c, slots: map[int64]*[]kv{}}
	// The size function and the callback run inside the cache's critical sections: yielding there
	// stretches them, so that other goroutines really arrive while a call is in progress (also
	// with GOMAXPROCS=1).
	stretch := func() {
		if atomic.AddInt64(&w.yields, 1)%2 == 0 {
			runtime.Gosched()
		}
	}
	cb := func(k, v int) {
		stretch()
		w.atGate('c', v)
		id := goid()
		w.hmu.Lock()
		w.global = append(w.global, kv{k, v})
		if s := w.slots[id]; s != nil {
			*s = append(*s, kv{k, v})
		}
		w.hmu.Unlock()
	}
	cfg := cache.LRU[int, int]().OnEvict(cb).WithSize(func(v int) int64 { stretch(); w.atGate('s', v); return c.size(v) })
	w.cc = cache.New(c.limit, cfg)
	return w
}

// register gives the calling goroutine its per-call callback log.
func (w *world) register() *[]kv {
	cur := new([]kv)
	w.hmu.Lock()
	w.slots[goid()] = cur
	w.hmu.Unlock()
	return cur
}

func (w *world) do(g int, in input, cur *[]kv) (r rec) {
	r.g, r.in = g, in
	*cur = nil
	defer func() {
		if p := recover(); p != nil {
			r.panicked = fmt.Sprint(p)
			r.ret = atomic.AddInt64(&w.clock, 1)
		}
	}()
	cc := w.cc
	r.call = atomic.AddInt64(&w.clock, 1)
	switch in.kind {
	case 'p':
		r.out.ok = cc.Put(in.key, in.val)
	case 'g':
		r.out.val, r.out.ok = cc.Get(in.key)
	case 'h':
		r.out.ok = cc.Has(in.key)
	case 'r':
		r.out.ok = cc.Remove(in.key)
	case 'l':
		r.out.n = int64(cc.Len())
	case 's':
		r.out.n = cc.Size()
	case 'c':
		cc.Clear()
	}
	r.ret = atomic.AddInt64(&w.clock, 1)
	atomic.AddInt64(&progress, 1)
	w.hmu.Lock()
	r.out.ev = append([]kv(nil), (*cur)...)
	w.hmu.Unlock()
	return r
}

// ---- deadlock detection
//
// A method that calls another locking method of the same cache while it holds the mutex blocks for
// ever, and with it every other caller.  The Go runtime reports "all goroutines are asleep" only in
// programs without cgo, and the race detector brings cgo in; so the harness applies the runtime's
// criterion itself: once a second, if no call has completed since the last look, it takes a
// stop-the-world dump of all goroutines and looks at their states.  If every goroutine other than
// the watchdog waits on a mutex, a channel or a WaitGroup - none running, runnable, sleeping, in a
// select with a timer or in a system call - nothing can ever wake any of them: that is a deadlock,
// whatever the speed of the machine.  Three such looks in a row end the process with a FAIL line.

var progress int64      // completed calls
var curCfg atomic.Value // the configuration being run (string)

var blockedStates = map[string]bool{
	"semacquire": true, "sync.Mutex.Lock": true, "sync.RWMutex.Lock": true, "sync.RWMutex.RLock": true,
	"chan receive": true, "chan send": true, "sync.WaitGroup.Wait": true, "sync.Cond.Wait": true,
}

func allBlocked(dump string) bool {
	n, self := 0, 0
	for _, l := range strings.Split(dump, "\n") {
		if !strings.HasPrefix(l, "goroutine ") || !strings.HasSuffix(l, "]:") {
			continue
		}
		i := strings.IndexByte(l, '[')
		st := l[i+1 : len(l)-2]
		if j := strings.IndexByte(st, ','); j >= 0 {
			st = st[:j]
		}
		n++
		if st == "running" {
			self++ // the goroutine that takes the dump
			continue
		}
		if !blockedStates[st] {
			return false
		}
	}
	return n >= 2 && self == 1
}

func watchdog() {
	last, strikes := int64(-1), 0
	buf := make([]byte, 1<<20)
	for {
		time.Sleep(time.Second)
		p := atomic.LoadInt64(&progress)
		if p != last {
			last, strikes = p, 0
			continue
		}
		if allBlocked(string(buf[:runtime.Stack(buf, true)])) {
			strikes++
		} else {
			strikes = 0
		}
		if strikes >= 3 {
			cfg, _ := curCfg.Load().(string)
			fmt.Printf("FAIL input=%s reason=deadlock\n", cfg)
			fmt.Printf("STATS mode=-1 runs=0 ops=0 fails=1 nonlinearizable=0 inconclusive=0 nonLRUVictims=0 overlaps=0 procs=%d wall=0 contended=-\n", runtime.GOMAXPROCS(0))
			os.Exit(1)
		}
	}
}

// fresh returns a value that no other Put of this history uses, with the wanted size residue.
func (c config) fresh(r *rng, g, i int) int {
	base := (g+1)*100000 + (i+1)*10
	if c.sizeMd == 0 {
		return base
	}
	return base - base%c.sizeMd + r.intn(c.sizeMd)
}

// quiesce is run by the driver when every goroutine is done: it reads Len, Size and every key,
// compares them directly (no reference involved), and finally clears the cache so that every
// entry departs.  The calls are part of the history as well.
func (w *world) quiesce(hist []rec) ([]rec, []string) {
	var reasons []string
	c := w.c
	cur := w.register()
	add := func(in input) rec {
		r := w.do(c.g, in, cur)
		hist = append(hist, r)
		return r
	}
	ln := add(input{kind: 'l'})
	sz := add(input{kind: 's'})
	present, total := int64(0), int64(0)
	for k := 0; k <= c.keys; k++ { // key c.keys is the duel mode's second key
		h := add(input{kind: 'h', key: k})
		g := add(input{kind: 'g', key: k})
		if h.panicked != "" || g.panicked != "" {
			continue
		}
		if h.out.ok != g.out.ok {
			reasons = append(reasons, "quiescent-has-get-disagree")
		}
		if g.out.ok {
			present++
			total += c.size(g.out.val)
		}
	}
	if ln.panicked == "" && ln.out.n != present {
		reasons = append(reasons, "quiescent-len-is-not-the-number-of-keys-present")
		w.detail = append(w.detail, fmt.Sprintf("quiescent Len()=%d but %d keys present", ln.out.n, present))
	}
	if sz.panicked == "" && sz.out.n != total {
		reasons = append(reasons, "quiescent-size-is-not-the-sum-of-present-values")
		w.detail = append(w.detail, fmt.Sprintf("quiescent Size()=%d but the present values sum to %d", sz.out.n, total))
	}
	add(input{kind: 'c'})
	return hist, reasons
}

// executeRandom: every goroutine runs a fixed random programme; all are released at once.
func executeRandom(c config) (hist []rec, global []kv, reasons, detail []string) {
	w := newWorld(c)
	per := make([][]rec, c.g)
	var wg sync.WaitGroup
	start := make(chan struct{})
	for g := 0; g < c.g; g++ {
		wg.Add(1)
		go func(g int) {
			defer wg.Done()
			r := newRng(c.seed*1000003 + uint64(c.run)*977 + uint64(g)*31 + 7)
			cur := w.register()
			// the programme of this goroutine is fixed before the start
			ins := make([]input, c.ops)
			for i := range ins {
				x := r.intn(100)
				k := r.intn(c.keys)
				switch {
				case x < 38:
					ins[i] = input{kind: 'p', key: k, val: c.fresh(r, g, i)}
				case x < 58:
					ins[i] = input{kind: 'g', key: k}
				case x < 68:
					ins[i] = input{kind: 'h', key: k}
				case x < 82:
					ins[i] = input{kind: 'r', key: k}
				case x < 89:
					ins[i] = input{kind: 'l'}
				case x < 97:
					ins[i] = input{kind: 's'}
				default:
					ins[i] = input{kind: 'c'}
				}
			}
			yield := make([]bool, c.ops)
			for i := range yield {
				yield[i] = r.intn(3) == 0
			}
			<-start
			for i, in := range ins {
				per[g] = append(per[g], w.do(g, in, cur))
				if yield[i] {
					runtime.Gosched()
				}
			}
		}(g)
	}
	close(start)
	wg.Wait()
	for g := range per {
		hist = append(hist, per[g]...)
	}
	hist, reasons = w.quiesce(hist)
	return hist, w.global, reasons, w.detail
}

// executeDuel: contended same-key phases (see the package comment).  Key 0 is the contended key,
// key c.keys (one past the random key space) is the "other" key whose Put evicts key 0 when the
// limit is small.
func executeDuel(c config) (hist []rec, global []kv, reasons, detail []string) {
	w := newWorld(c)
	r := newRng(c.seed*7000003 + uint64(c.run)*7919 + 13)
	phases := c.ops
	other := c.keys
	// programmes: prog[p][g] = calls of goroutine g in phase p; pre[p] = the driver's calls before it
	prog := make([][][]input, phases)
	pre := make([][]input, phases)
	post := make([][]input, phases)
	serial := 0
	val := func(g int) int { serial++; return c.fresh(r, g, serial) }
	contended := func(g int) input {
		k := 0
		if c.keys > 1 && r.intn(4) == 0 {
			k = 1 + r.intn(c.keys-1)
		}
		if c.mode == 2 {
			// readers: mostly Len, Size, Get and Has
			switch x := r.intn(100); {
			case x < 30:
				return input{kind: 'l'}
			case x < 60:
				return input{kind: 's'}
			case x < 75:
				return input{kind: 'g', key: k}
			case x < 85:
				return input{kind: 'h', key: k}
			case x < 93:
				return input{kind: 'p', key: k, val: val(g)}
			default:
				return input{kind: 'r', key: k}
			}
		}
		switch x := r.intn(100); {
		case x < 35:
			return input{kind: 'r', key: k}
		case x < 60:
			return input{kind: 'p', key: k, val: val(g)}
		case x < 75:
			return input{kind: 'g', key: k}
		case x < 83:
			return input{kind: 'c'}
		case x < 90:
			return input{kind: 'h', key: k}
		case x < 95:
			return input{kind: 'l'}
		default:
			return input{kind: 's'}
		}
	}
	for p := 0; p < phases; p++ {
		prog[p] = make([][]input, c.g)
		if c.mode == 2 {
			// readers: the driver fills the cache to its limit (keys 0.., key 0 the least recently used
			// unless a Get follows), so that the Put of the other key has to evict
			if r.intn(8) != 0 {
				pre[p] = append(pre[p], input{kind: 'c'})
				for k := 0; k < c.keys && int64(k) < c.limit; k++ {
					pre[p] = append(pre[p], input{kind: 'p', key: k, val: val(c.g)})
				}
			}
			if r.intn(4) == 0 {
				pre[p] = append(pre[p], input{kind: 'g', key: 0})
			}
			t := r.intn(8)
			reader := func(g int) input {
				if (g+p)%2 == 0 {
					return input{kind: 'l'}
				}
				return input{kind: 's'}
			}
			for g := 0; g < c.g; g++ {
				var first input
				switch t {
				case 0, 1: // Len/Size readers against a Put that has to evict
					if g == 0 {
						first = input{kind: 'p', key: other, val: val(g)}
					} else {
						first = reader(g)
					}
				case 2, 3: // ... against Clear
					if g == 0 {
						first = input{kind: 'c'}
					} else {
						first = reader(g)
					}
				case 4: // Get/Has of a key against the Put that replaces it
					if g == 0 {
						first = input{kind: 'p', key: 0, val: val(g)}
					} else if g%2 == 1 {
						first = input{kind: 'g', key: 0}
					} else {
						first = input{kind: 'h', key: 0}
					}
				case 5: // Get of the evicted and of the arriving key against the evicting Put
					if g == 0 {
						first = input{kind: 'p', key: other, val: val(g)}
					} else if g%2 == 1 {
						first = input{kind: 'g', key: 0}
					} else {
						first = input{kind: 'g', key: other}
					}
				case 6: // readers against Remove
					if g == 0 {
						first = input{kind: 'r', key: 0}
					} else {
						first = reader(g)
					}
				default:
					first = contended(g)
				}
				prog[p][g] = append(prog[p][g], first)
				for n := r.intn(3); n > 0; n-- {
					prog[p][g] = append(prog[p][g], contended(g))
				}
			}
			if r.intn(2) == 0 {
				post[p] = append(post[p], input{kind: 'l'}, input{kind: 's'})
			}
			continue
		}
		// the contended key is present at the start of most phases
		if r.intn(8) != 0 {
			pre[p] = append(pre[p], input{kind: 'p', key: 0, val: val(c.g)})
		}
		if r.intn(3) == 0 {
			pre[p] = append(pre[p], input{kind: 'g', key: 0})
		}
		t := r.intn(10)
		for g := 0; g < c.g; g++ {
			var first input
			switch t {
			case 0, 1: // Remove/Remove
				first = input{kind: 'r', key: 0}
			case 2: // Remove/Put of the same key
				if g == 0 {
					first = input{kind: 'r', key: 0}
				} else {
					first = input{kind: 'p', key: 0, val: val(g)}
				}
			case 3: // Remove/Clear
				if g == 0 {
					first = input{kind: 'c'}
				} else {
					first = input{kind: 'r', key: 0}
				}
			case 4: // Remove against a Put of another key that has to evict
				if g == 0 {
					first = input{kind: 'p', key: other, val: val(g)}
				} else {
					first = input{kind: 'r', key: 0}
				}
			case 5: // Get/Get (and one Put of the other key, which evicts by recency)
				if g == 0 && c.g > 2 {
					first = input{kind: 'p', key: other, val: val(g)}
				} else {
					first = input{kind: 'g', key: 0}
				}
			case 6: // Put/Put of the same key
				first = input{kind: 'p', key: 0, val: val(g)}
			default:
				first = contended(g)
			}
			prog[p][g] = append(prog[p][g], first)
			for n := r.intn(3); n > 0; n-- {
				prog[p][g] = append(prog[p][g], contended(g))
			}
		}
		if r.intn(2) == 0 {
			post[p] = append(post[p], input{kind: 'l'}, input{kind: 's'})
		}
	}
	per := make([][]rec, c.g)
	starts := make([]chan struct{}, phases)
	dones := make([]sync.WaitGroup, phases)
	ready := make([]int32, phases)
	for p := range starts {
		starts[p] = make(chan struct{})
		dones[p].Add(c.g)
	}
	spinOnly := runtime.GOMAXPROCS(0) > c.g
	for g := 0; g < c.g; g++ {
		go func(g int) {
			cur := w.register()
			for p := 0; p < phases; p++ {
				<-starts[p]
				// meet the others, so that the first calls of the phase start together
				atomic.AddInt32(&ready[p], 1)
				for n := 0; atomic.LoadInt32(&ready[p]) < int32(c.g); n++ {
					if !spinOnly || n%64 == 63 {
						runtime.Gosched()
					}
				}
				for _, in := range prog[p][g] {
					per[g] = append(per[g], w.do(g, in, cur))
				}
				dones[p].Done()
			}
		}(g)
	}
	cur := w.register()
	for p := 0; p < phases; p++ {
		for _, in := range pre[p] {
			hist = append(hist, w.do(c.g, in, cur))
		}
		close(starts[p])
		dones[p].Wait()
		for _, in := range post[p] {
			hist = append(hist, w.do(c.g, in, cur))
		}
	}
	for g := range per {
		hist = append(hist, per[g]...)
	}
	hist, reasons = w.quiesce(hist)
	return hist, w.global, reasons, w.detail
}

// executeStaged: see the package comment (mode=3).  Goroutine 0 is A, 1..g-1 are the probers, the
// driver (index g) rebuilds a known state before every act.
func executeStaged(c config) (hist []rec, global []kv, reasons, detail []string) {
	w := newWorld(c)
	r := newRng(c.seed*9000011 + uint64(c.run)*104729 + 17)
	serial := 0
	// a value no other Put of this history uses, of size res (sizes are v mod 3 when c.sizeMd = 3, else 1)
	val := func(res int) int {
		serial++
		base := (serial + 1) * 30
		if c.sizeMd == 0 {
			return base
		}
		return base - base%c.sizeMd + res%c.sizeMd
	}
	cur := w.register()
	drv := func(in input) rec {
		x := w.do(c.g, in, cur)
		hist = append(hist, x)
		return x
	}
	for act := 0; act < c.ops; act++ {
		drv(input{kind: 'c'})
		// the entries the driver puts, oldest first: keys 0..n-1
		var ents []kv
		put := func(res int) {
			e := kv{len(ents), val(res)}
			ents = append(ents, e)
			drv(input{kind: 'p', key: e.k, val: e.v})
		}
		unit := c.sizeMd == 0
		fill := func() { // to the limit, with entries of size 1
			for int64(len(ents)) < c.limit && len(ents) < c.keys {
				put(1)
			}
		}
		var opA input
		var stopAt kv // the entry at whose hook call A stops
		var probes []input
		kind := r.intn(7)
		newKey := c.keys // a key the driver never uses
		switch kind {
		case 0, 5, 6: // a Put that has to evict (6: the prober changes the cache too)
			fill()
			res := 1
			if !unit && c.limit >= 2 && r.intn(2) == 0 {
				res = 2 // evicts two
			}
			opA = input{kind: 'p', key: newKey, val: val(res)}
			stopAt = ents[0]
			if res == 2 && len(ents) > 1 && r.intn(2) == 0 {
				stopAt = ents[1]
			}
			probes = []input{{kind: 'l'}, {kind: 's'}, {kind: 'g', key: 0}, {kind: 'g', key: newKey}, {kind: 'h', key: 0}, {kind: 'h', key: newKey},
				{kind: 'g', key: len(ents) - 1}, {kind: 'l'}, {kind: 's'}}
			if kind == 6 {
				probes = []input{{kind: 'p', key: newKey, val: val(1)}, {kind: 'r', key: 0}, {kind: 'p', key: 0, val: val(1)}, {kind: 'r', key: newKey}, {kind: 'l'}, {kind: 's'}}
			}
		case 1: // a Put into a cache whose only entry has to go (count is 0 in the middle of it)
			newRes := 1
			switch {
			case unit && c.limit > 1:
				fill() // not possible with unit sizes: the oldest of a full cache goes
			case unit:
				put(1)
			case c.limit <= 2:
				put(int(c.limit)) // one value fills the limit
			case c.limit == 3:
				put(2)
				newRes = 2
			default:
				put(2)
				put(2)
			}
			opA = input{kind: 'p', key: newKey, val: val(newRes)}
			stopAt = ents[0]
			probes = []input{{kind: 'g', key: stopAt.k}, {kind: 'g', key: newKey}}
			if r.intn(2) == 0 {
				probes = append(probes, input{kind: 'l'}, input{kind: 's'})
			}
		case 2: // Clear
			n := 1 + r.intn(4)
			for i := 0; i < n && len(ents) < c.keys; i++ {
				if unit {
					if int64(len(ents)) < c.limit {
						put(1)
					}
				} else if int64(len(ents)) < c.limit && r.intn(3) != 0 {
					put(1)
				} else {
					put(0) // zero-size entries always fit
				}
			}
			if len(ents) == 0 {
				put(1)
			}
			opA = input{kind: 'c'}
			stopAt = ents[r.intn(len(ents))]
			probes = []input{{kind: 'l'}, {kind: 's'}, {kind: 'h', key: stopAt.k}, {kind: 'g', key: stopAt.k}, {kind: 'g', key: ents[len(ents)-1].k},
				{kind: 'l'}, {kind: 's'}, {kind: 'h', key: ents[0].k}}
		case 3: // a Put that replaces (under v mod 3 perhaps with a bigger value that also evicts)
			fill()
			j := r.intn(len(ents))
			res := 1
			if !unit && c.limit >= 2 && r.intn(2) == 0 {
				res = 2
			}
			opA = input{kind: 'p', key: ents[j].k, val: val(res)}
			stopAt = ents[j]
			probes = []input{{kind: 'g', key: ents[j].k}, {kind: 'h', key: ents[j].k}, {kind: 'l'}, {kind: 's'}, {kind: 'g', key: ents[j].k}, {kind: 'g', key: ents[0].k}}
		default: // 4: Remove
			fill()
			j := r.intn(len(ents))
			opA = input{kind: 'r', key: ents[j].k}
			stopAt = ents[j]
			probes = []input{{kind: 'h', key: ents[j].k}, {kind: 'g', key: ents[j].k}, {kind: 'l'}, {kind: 's'}, {kind: 'r', key: ents[j].k},
				{kind: 'p', key: ents[j].k, val: val(1)}}
		}
		g := &gate{kind: 'c', val: stopAt.v, inside: make(chan struct{})}
		if r.intn(2) == 0 {
			g.kind = 's'
		}
		np := c.g - 1
		if np < 1 {
			np = 1
		}
		progs := make([][]input, np)
		for i := range progs {
			g.probers = append(g.probers, &prober{})
			// one to three probes; a prober keeps the order of the list (Get of the departing key before Get of the arriving one)
			n := 1 + r.intn(3)
			at := r.intn(len(probes))
			if kind == 1 {
				at, n = 0, len(probes)
			}
			for k := 0; k < n && at+k < len(probes); k++ {
				in := probes[at+k]
				if in.kind == 'p' {
					in.val = val(1) // every Put of a history has its own value
				}
				progs[i] = append(progs[i], in)
			}
		}
		w.gate.Store(g)
		recs := make([][]rec, np+1)
		var wg sync.WaitGroup
		wg.Add(np + 1)
		go func() {
			defer wg.Done()
			defer g.open() // if the call never reaches the hook, the probers still run
			mine := w.register()
			g.owner.Store(goid())
			g.armed.Store(1)
			recs[0] = append(recs[0], w.do(0, opA, mine))
		}()
		for i := 0; i < np; i++ {
			go func(i int) {
				defer wg.Done()
				p := g.probers[i]
				defer p.done.Store(1)
				mine := w.register()
				p.gid.Store(goid())
				<-g.inside
				p.started.Store(1)
				for _, in := range progs[i] {
					recs[i+1] = append(recs[i+1], w.do(i+1, in, mine))
				}
			}(i)
		}
		wg.Wait()
		w.gate.Store(nil)
		for _, rs := range recs {
			hist = append(hist, rs...)
		}
	}
	hist, reasons = w.quiesce(hist)
	return hist, w.global, reasons, w.detail
}

func execute(c config) ([]rec, []kv, []string, []string) {
	switch c.mode {
	case 1, 2:
		return executeDuel(c)
	case 3:
		return executeStaged(c)
	}
	return executeRandom(c)
}

// ---- the sequential reference (state = "k:v;k:v;" least recently used first)

type ent = kv

func decode(s string) []ent {
	if s == "" {
		return nil
	}
	parts := strings.Split(strings.TrimSuffix(s, ";"), ";")
	out := make([]ent, len(parts))
	for i, p := range parts {
		a := strings.SplitN(p, ":", 2)
		out[i].k, _ = strconv.Atoi(a[0])
		out[i].v, _ = strconv.Atoi(a[1])
	}
	return out
}

func encode(es []ent) string {
	var b strings.Builder
	for _, e := range es {
		fmt.Fprintf(&b, "%d:%d;", e.k, e.v)
	}
	return b.String()
}

var nonLRU int64 // a victim that was not the least recently used entry was seen (known finding F2)

func model(c config) porcupine.Model {
	find := func(es []ent, k int) int {
		for i, e := range es {
			if e.k == k {
				return i
			}
		}
		return -1
	}
	total := func(es []ent) (t int64) {
		for _, e := range es {
			t += c.size(e.v)
		}
		return
	}
	without := func(es []ent, i int) []ent {
		out := make([]ent, 0, len(es))
		out = append(out, es[:i]...)
		return append(out, es[i+1:]...)
	}
	return porcupine.Model{
		Init: func() interface{} { return "" },
		Step: func(st, inp, outp interface{}) (bool, interface{}) {
			es := decode(st.(string))
			in := inp.(input)
			out := outp.(output)
			switch in.kind {
			case 'p':
				vs := c.size(in.val)
				if vs > c.limit {
					return !out.ok && len(out.ev) == 0, st
				}
				if !out.ok {
					return false, st
				}
				ev := out.ev
				if i := find(es, in.key); i >= 0 {
					if len(ev) == 0 || ev[0] != es[i] {
						return false, st
					}
					ev = ev[1:]
					es = without(es, i)
				}
				for _, victim := range ev {
					if total(es)+vs <= c.limit {
						return false, st // evicted although the value fits
					}
					i := find(es, victim.k)
					if i < 0 || es[i] != victim {
						return false, st
					}
					if i != 0 {
						atomic.StoreInt64(&nonLRU, 1)
					}
					es = without(es, i)
				}
				if total(es)+vs > c.limit {
					return false, st
				}
				es = append(append([]ent(nil), es...), ent{in.key, in.val})
				return true, encode(es)
			case 'g':
				i := find(es, in.key)
				if i < 0 {
					return !out.ok && out.val == 0 && len(out.ev) == 0, st
				}
				if !out.ok || out.val != es[i].v || len(out.ev) != 0 {
					return false, st
				}
				e := es[i]
				return true, encode(append(without(es, i), e))
			case 'h':
				return out.ok == (find(es, in.key) >= 0) && len(out.ev) == 0, st
			case 'r':
				i := find(es, in.key)
				if i < 0 {
					return !out.ok && len(out.ev) == 0, st
				}
				if !out.ok || len(out.ev) != 1 || out.ev[0] != es[i] {
					return false, st
				}
				return true, encode(without(es, i))
			case 'l':
				return out.n == int64(len(es)) && len(out.ev) == 0, st
			case 's':
				t := total(es)
				return out.n == t && t <= c.limit && len(out.ev) == 0, st
			case 'c':
				if len(out.ev) != len(es) {
					return false, st
				}
				a := append([]ent(nil), es...)
				b := append([]ent(nil), out.ev...)
				less := func(x []ent) func(i, j int) bool {
					return func(i, j int) bool { return x[i].k < x[j].k || (x[i].k == x[j].k && x[i].v < x[j].v) }
				}
				sort.Slice(a, less(a))
				sort.Slice(b, less(b))
				for i := range a {
					if a[i] != b[i] {
						return false, st
					}
				}
				return true, ""
			}
			return false, st
		},
		Equal: func(a, b interface{}) bool { return a.(string) == b.(string) },
	}
}

// check returns the reasons for which this history fails; inconclusive = the linearizability
// search did not finish in its time slice (not a failure).
func check(c config, hist []rec, global []kv, slice time.Duration) (reasons []string, overlaps int, inconclusive bool) {
	ops := make([]porcupine.Operation, 0, len(hist))
	puts := map[kv]int{}
	perOp := 0
	anyPanic := false // the callback log of a call that panicked is not attributed to it
	for _, r := range hist {
		if r.panicked != "" {
			reasons = append(reasons, "panic:"+firstWords(r.panicked))
			anyPanic = true
			continue
		}
		ops = append(ops, porcupine.Operation{ClientId: r.g, Input: r.in, Call: r.call, Output: r.out, Return: r.ret})
		perOp += len(r.out.ev)
		switch r.in.kind {
		case 'p':
			if r.out.ok {
				puts[kv{r.in.key, r.in.val}]++
			}
		case 's':
			if r.out.n < 0 {
				reasons = append(reasons, "size-negative")
			} else if r.out.n > c.limit {
				reasons = append(reasons, "size-exceeds-limit")
			}
		case 'l':
			if r.out.n < 0 {
				reasons = append(reasons, "len-negative")
			} else if r.out.n > int64(c.keys)+1 {
				reasons = append(reasons, "len-exceeds-number-of-keys")
			}
		}
	}
	for i := range hist {
		for j := i + 1; j < len(hist); j++ {
			if hist[i].g != hist[j].g && hist[i].call < hist[j].ret && hist[j].call < hist[i].ret {
				overlaps++
				tagOverlap(hist[i].in, hist[j].in)
			}
		}
	}
	// exactly once, per (key, value-version)
	seen := map[kv]int{}
	for _, e := range global {
		seen[e]++
	}
	if perOp != len(global) && !anyPanic {
		reasons = append(reasons, "callback-outside-any-call")
	}
	for e, n := range seen {
		if puts[e] == 0 {
			reasons = append(reasons, "callback-unknown-entry")
		} else if n > 1 {
			reasons = append(reasons, "callback-twice")
		}
	}
	for e, n := range puts {
		if n != 1 {
			reasons = append(reasons, "harness-value-not-unique")
		}
		if seen[e] == 0 {
			reasons = append(reasons, "callback-never")
		}
	}
	switch porcupine.CheckOperationsTimeout(model(c), ops, slice) {
	case porcupine.Illegal:
		reasons = append(reasons, "not-linearizable")
	case porcupine.Unknown:
		inconclusive = true
	}
	return dedup(reasons), overlaps, inconclusive
}

// linearLine returns one linearization of a (linearizable) history, as porcupine finds it, in the
// text form read by bin/incoq-cacheconc:  "<limit> <sizeMd> | call;call;..." with
// p<k>:<v>=<ok>/<ev>  g<k>=<ok>:<val>  h<k>=<ok>  r<k>=<ok>/<ev>  l=<n>  s=<n>  c=/<ev>,  <ev> = k:v,k:v or "."
func linearLine(c config, hist []rec) string {
	var ops []porcupine.Operation
	for _, r := range hist {
		if r.panicked != "" {
			return ""
		}
		ops = append(ops, porcupine.Operation{ClientId: r.g, Input: r.in, Call: r.call, Output: r.out, Return: r.ret})
	}
	res, info := porcupine.CheckOperationsVerbose(model(c), ops, 5*time.Second)
	if res != porcupine.Ok {
		return ""
	}
	parts := info.PartialLinearizationsOperations()
	if len(parts) != 1 || len(parts[0]) == 0 {
		return ""
	}
	lin := parts[0][0]
	for _, l := range parts[0] {
		if len(l) > len(lin) {
			lin = l
		}
	}
	if len(lin) != len(ops) {
		return ""
	}
	b01 := func(b bool) string {
		if b {
			return "1"
		}
		return "0"
	}
	evs := func(ev []kv) string {
		if len(ev) == 0 {
			return "."
		}
		var xs []string
		for _, e := range ev {
			xs = append(xs, fmt.Sprintf("%d:%d", e.k, e.v))
		}
		return strings.Join(xs, ",")
	}
	var calls []string
	for _, o := range lin {
		in, out := o.Input.(input), o.Output.(output)
		switch in.kind {
		case 'p':
			calls = append(calls, fmt.Sprintf("p%d:%d=%s/%s", in.key, in.val, b01(out.ok), evs(out.ev)))
		case 'g':
			calls = append(calls, fmt.Sprintf("g%d=%s:%d", in.key, b01(out.ok), out.val))
		case 'h':
			calls = append(calls, fmt.Sprintf("h%d=%s", in.key, b01(out.ok)))
		case 'r':
			calls = append(calls, fmt.Sprintf("r%d=%s/%s", in.key, b01(out.ok), evs(out.ev)))
		case 'l':
			calls = append(calls, fmt.Sprintf("l=%d", out.n))
		case 's':
			calls = append(calls, fmt.Sprintf("s=%d", out.n))
		case 'c':
			calls = append(calls, fmt.Sprintf("c=/%s", evs(out.ev)))
		}
	}
	return fmt.Sprintf("%d %d | %s", c.limit, c.sizeMd, strings.Join(calls, ";"))
}

func modeOf(fixed *config, m int) int {
	if fixed != nil {
		return fixed.mode
	}
	return m
}

// contended counts the overlapping pairs of calls that conflict: two calls on the SAME key
// (rr = Remove/Remove, pr = Put/Remove, gg = Get/Get, pp = Put/Put, gp, gr, ...), calls
// overlapping a Clear (cr, cp, cg) and Len/Size readers overlapping a call that changes the cache
// (lp, ps, lr, rs, cl, cs).  These are the states the property text names.
var contended = map[string]int{}

func tagOverlap(a, b input) {
	x, y := a.kind, b.kind
	if x > y {
		x, y = y, x
	}
	keyed := func(k byte) bool { return k == 'p' || k == 'g' || k == 'r' || k == 'h' }
	reader := func(k byte) bool { return k == 'l' || k == 's' }
	changes := func(k byte) bool { return k == 'p' || k == 'r' || k == 'c' }
	switch {
	case keyed(x) && keyed(y) && a.key == b.key:
		contended[string([]byte{x, y})]++
	case x == 'c' && keyed(y):
		contended[string([]byte{x, y})]++
	case reader(x) && changes(y), reader(y) && changes(x): // Len/Size against Put, Remove, Clear: cl, cs, lp, lr, ps, rs
		contended[string([]byte{x, y})]++
	}
}

func tagString() string {
	var ks []string
	for k := range contended {
		ks = append(ks, k)
	}
	sort.Strings(ks)
	var xs []string
	for _, k := range ks {
		xs = append(xs, fmt.Sprintf("%s:%d", k, contended[k]))
	}
	if len(xs) == 0 {
		return "-"
	}
	return strings.Join(xs, ",")
}

func firstWords(s string) string {
	f := strings.Fields(s)
	if len(f) > 3 {
		f = f[:3]
	}
	return strings.Join(f, "_")
}

func dedup(xs []string) []string {
	seen := map[string]bool{}
	var out []string
	for _, x := range xs {
		if !seen[x] {
			seen[x] = true
			out = append(out, x)
		}
	}
	return out
}

func dump(hist []rec) {
	sort.Slice(hist, func(i, j int) bool { return hist[i].call < hist[j].call })
	for _, r := range hist {
		fmt.Fprintf(os.Stderr, "  g%d [%d,%d] %c key=%d val=%d -> ok=%v val=%d n=%d ev=%v %s\n", r.g, r.call, r.ret, r.in.kind, r.in.key, r.in.val,
			r.out.ok, r.out.val, r.out.n, r.out.ev, r.panicked)
	}
}

func selftest() bool {
	c := config{limit: 2, keys: 3}
	m := model(c)
	op := func(g int, in input, out output, call, ret int64) porcupine.Operation {
		return porcupine.Operation{ClientId: g, Input: in, Output: out, Call: call, Return: ret}
	}
	// overlapping Put and Get: Get may see the value or not
	h1 := []porcupine.Operation{
		op(0, input{kind: 'p', key: 1, val: 10}, output{ok: true}, 1, 4),
		op(1, input{kind: 'g', key: 1}, output{ok: true, val: 10}, 2, 3),
		op(1, input{kind: 'l'}, output{n: 1}, 5, 6),
	}
	// Put completes before Get starts, Get misses: not linearizable
	h2 := []porcupine.Operation{
		op(0, input{kind: 'p', key: 1, val: 10}, output{ok: true}, 1, 2),
		op(1, input{kind: 'g', key: 1}, output{}, 3, 4),
	}
	// Size above the limit
	h3 := []porcupine.Operation{
		op(0, input{kind: 'p', key: 1, val: 10}, output{ok: true}, 1, 2),
		op(0, input{kind: 'p', key: 2, val: 20}, output{ok: true}, 3, 4),
		op(0, input{kind: 'p', key: 0, val: 30}, output{ok: true}, 5, 6), // no eviction reported
		op(0, input{kind: 's'}, output{n: 3}, 7, 8),
	}
	// a lost eviction report
	h4 := []porcupine.Operation{
		op(0, input{kind: 'p', key: 1, val: 10}, output{ok: true}, 1, 2),
		op(0, input{kind: 'p', key: 2, val: 20}, output{ok: true}, 3, 4),
		op(0, input{kind: 'p', key: 0, val: 30}, output{ok: true, ev: []kv{{1, 10}}}, 5, 6),
		op(1, input{kind: 'h', key: 1}, output{ok: false}, 7, 8),
		op(1, input{kind: 's'}, output{n: 2}, 9, 10),
	}
	// check-then-act Remove: two overlapping Removes of one present key both report true
	h5 := []porcupine.Operation{
		op(2, input{kind: 'p', key: 0, val: 10}, output{ok: true}, 1, 2),
		op(0, input{kind: 'r', key: 0}, output{ok: true, ev: []kv{{0, 10}}}, 3, 6),
		op(1, input{kind: 'r', key: 0}, output{ok: true, ev: []kv{{0, 0}}}, 4, 5),
	}
	// the same with one of them reporting false: legal
	h6 := []porcupine.Operation{
		op(2, input{kind: 'p', key: 0, val: 10}, output{ok: true}, 1, 2),
		op(0, input{kind: 'r', key: 0}, output{ok: true, ev: []kv{{0, 10}}}, 3, 6),
		op(1, input{kind: 'r', key: 0}, output{}, 4, 5),
	}
	// two overlapping Gets, then a Put that must evict: the victim is reported, recency of the
	// Gets is not constrained by the reference (F2), but a victim that is not present is illegal
	h7 := []porcupine.Operation{
		op(2, input{kind: 'p', key: 0, val: 10}, output{ok: true}, 1, 2),
		op(2, input{kind: 'p', key: 1, val: 20}, output{ok: true}, 3, 4),
		op(0, input{kind: 'g', key: 0}, output{ok: true, val: 10}, 5, 8),
		op(1, input{kind: 'g', key: 0}, output{ok: true, val: 20}, 6, 7), // another key's value
	}
	ok := porcupine.CheckOperations(m, h1) && !porcupine.CheckOperations(m, h2) && !porcupine.CheckOperations(m, h3) && porcupine.CheckOperations(m, h4) &&
		!porcupine.CheckOperations(m, h5) && porcupine.CheckOperations(m, h6) && !porcupine.CheckOperations(m, h7)
	// the direct checks: a second report of a departed entry, a negative Len
	hist := []rec{
		{g: 0, in: input{kind: 'p', key: 0, val: 10}, out: output{ok: true}, call: 1, ret: 2},
		{g: 0, in: input{kind: 'r', key: 0}, out: output{ok: true, ev: []kv{{0, 10}}}, call: 3, ret: 4},
		{g: 0, in: input{kind: 'l'}, out: output{n: -1}, call: 5, ret: 6},
	}
	rs, _, _ := check(c, hist, []kv{{0, 10}, {0, 10}}, time.Second)
	has := func(x string) bool {
		for _, r := range rs {
			if r == x {
				return true
			}
		}
		return false
	}
	return ok && has("callback-twice") && has("len-negative") && has("callback-outside-any-call") && has("not-linearizable")
}

func main() {
	seed := flag.Uint64("seed", 1, "seed")
	runs := flag.Int("runs", 100, "histories at most")
	minRuns := flag.Int("minruns", 10, "histories at least (whatever the budget)")
	budget := flag.Float64("budget", 0, "seconds after which no further history is started (0 = none)")
	mode := flag.Int("mode", 0, "0 random workload, 1 contended same-key phases, 2 readers against evicting Put/Clear/Remove, 3 staged (handshake through the hooks)")
	procs := flag.Int("procs", 0, "GOMAXPROCS (0 = leave)")
	gor := flag.Int("goroutines", 0, "goroutines (0 = 2..4)")
	nops := flag.Int("ops", 0, "random: calls per goroutine (0 = 5..9); duel: phases (0 = 4..8)")
	keys := flag.Int("keys", 0, "key space (0 = 2..5; duel 1..2)")
	replay := flag.String("replay", "", "configuration to re-run")
	verbose := flag.Bool("v", false, "dump failing histories")
	quiet := flag.Bool("q", false, "no CUR lines")
	emit := flag.String("emitlin", "", "append linearizations of sampled histories to this file (for bin/incoq-cacheconc)")
	emitN := flag.Int("emitn", 100, "number of linearizations to emit")
	emitEvery := flag.Int("emitevery", 7, "sample every n-th history")
	st := flag.Bool("selftest", false, "check the checker")
	flag.Parse()
	if *st {
		if selftest() {
			fmt.Println("SELFTEST PASS")
			return
		}
		fmt.Println("SELFTEST FAIL")
		os.Exit(2)
	}
	if *procs > 0 {
		runtime.GOMAXPROCS(*procs)
	}
	var fixed *config
	if *replay != "" {
		c, err := parseConfig(*replay)
		if err != nil {
			fmt.Println("bad -replay:", err)
			os.Exit(2)
		}
		if c.procs > 0 {
			runtime.GOMAXPROCS(c.procs)
		}
		fixed = &c
	}
	r := newRng(*seed*31 + uint64(*mode))
	next := func(i int) config {
		if fixed != nil {
			return *fixed
		}
		c := config{mode: *mode, seed: *seed, run: i, procs: runtime.GOMAXPROCS(0), g: *gor, ops: *nops, keys: *keys}
		if c.g == 0 {
			c.g = 2 + r.intn(3)
		}
		if c.mode == 1 {
			if c.ops == 0 {
				c.ops = 4 + r.intn(5)
			}
			if c.keys == 0 {
				c.keys = 1 + r.intn(2)
			}
			c.limit = int64(1 + r.intn(3))
		} else if c.mode == 2 {
			if c.ops == 0 {
				c.ops = 4 + r.intn(5)
			}
			c.limit = int64(1 + r.intn(3))
			if c.keys == 0 {
				c.keys = int(c.limit) + r.intn(2)
			}
		} else if c.mode == 3 {
			if *gor == 0 {
				c.g = 2 + r.intn(2)
			}
			if c.ops == 0 {
				c.ops = 3 + r.intn(4)
			}
			c.limit = int64(1 + r.intn(4))
			if c.keys == 0 {
				c.keys = int(c.limit) + 2
			}
		} else {
			if c.ops == 0 {
				c.ops = 5 + r.intn(5)
			}
			if c.keys == 0 {
				c.keys = 2 + r.intn(4)
			}
			c.limit = int64(1 + r.intn(6))
		}
		if r.intn(2) == 0 {
			c.sizeMd = 3
		}
		return c
	}
	go watchdog()
	t0 := time.Now()
	done, fails, totalOps, overlaps, nonlin, inconcl, emitted := 0, 0, 0, 0, 0, 0, 0
	failed := map[string]bool{}
	for i := 0; i < *runs; i++ {
		if i >= *minRuns && *budget > 0 && time.Since(t0).Seconds() > *budget {
			break
		}
		c := next(i)
		curCfg.Store(c.String())
		if !*quiet {
			fmt.Printf("CUR %s\n", c)
		}
		hist, global, reasons, detail := execute(c)
		done++
		totalOps += len(hist)
		more, ov, inc := check(c, hist, global, 5*time.Second)
		reasons = dedup(append(reasons, more...))
		overlaps += ov
		if inc {
			inconcl++
		}
		if *emit != "" && emitted < *emitN && len(reasons) == 0 && !inc && i%*emitEvery == 0 {
			if l := linearLine(c, hist); l != "" {
				if f, err := os.OpenFile(*emit, os.O_APPEND|os.O_CREATE|os.O_WRONLY, 0o644); err == nil {
					fmt.Fprintln(f, l)
					f.Close()
					emitted++
				}
			}
		}
		for _, why := range reasons {
			fails++
			if why == "not-linearizable" {
				nonlin++
			}
			// one line per distinct reason is enough for the report
			if !failed[why] || *verbose {
				fmt.Printf("FAIL input=%s reason=%s\n", c, why)
			}
			failed[why] = true
		}
		if len(reasons) > 0 && *verbose {
			for _, d := range detail {
				fmt.Fprintln(os.Stderr, "  "+d)
			}
			dump(hist)
		}
	}
	fmt.Printf("STATS mode=%d runs=%d ops=%d fails=%d nonlinearizable=%d inconclusive=%d nonLRUVictims=%d overlaps=%d procs=%d wall=%.1f contended=%s gates=%d probesInside=%d gaveUp=%d\n",
		modeOf(fixed, *mode), done, totalOps, fails, nonlin, inconcl, atomic.LoadInt64(&nonLRU), overlaps, runtime.GOMAXPROCS(0), time.Since(t0).Seconds(), tagString(),
		atomic.LoadInt64(&gateFired), atomic.LoadInt64(&gateProbesInside), atomic.LoadInt64(&gateGaveUp))
	if fails > 0 {
		os.Exit(1)
	}
}
