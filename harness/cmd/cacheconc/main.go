// Command cacheconc runs the real cache.Cache (LRU store) of the working tree from several
// goroutines on a small shared key space, records the concurrent histories (invocation and
// response stamps from one atomic counter, results, and the OnEvict calls made during each call)
// and checks them.
//
// Two workloads:
//
//	mode=0 (random)  2-4 goroutines x 5-9 random calls on 2-5 keys, all released at once;
//	mode=1 (duel)    contended same-key rounds: one cache lives for several phases; before a phase
//	                 the driver makes the contended key present (sequentially), then 2-4 goroutines
//	                 that have met at a spin barrier each fire one to three calls at that key:
//	                 Remove/Remove, Remove/Put, Remove/Clear, Remove/evicting Put, Get/Get, Put/Put
//	                 and random contended mixes; Len and Size are read between the phases.
//	mode=2 (readers) the same phases on a cache the driver has filled to its limit, with Len/Size
//	                 readers racing an evicting Put, a Clear or a Remove, and Get/Has of a key racing
//	                 the Put that replaces it or the Put that evicts it.
//	mode=3 (staged)  interleavings forced by a handshake instead of luck: the size function and the
//	                 eviction callback are hooks inside the cache's critical sections; in every act
//	                 goroutine A makes one call (evicting Put, Put on a one-entry cache, replacing
//	                 Put, Remove, Clear) and stops inside it at a chosen hook call (the callback for
//	                 the victim / replaced / removed / n-th cleared entry, or the size function on its
//	                 value - i.e. after the store has been changed and before, or in the middle of,
//	                 the update of count and size); only then one or two probers start their calls
//	                 (Len, Size, Get/Has of the departing and of the arriving key, sometimes a Put or
//	                 Remove of it); A goes on as soon as every prober has either finished or is
//	                 blocked on a mutex (its goroutine state says so - no time-out involved).  With
//	                 every method one critical section the probers always block and their results
//	                 are those after A's call; anything they can see while A is stopped - a count
//	                 between two updates, a store without the entry that is being replaced - must
//	                 still have a sequential explanation.  A third of the configurations hold 65..300
//	                 entries (next to every multiple of 64, and anywhere): Clear, and a Put whose value
//	                 has many victims or fills the limit exactly, are stopped at the hook call for the
//	                 k-th entry to go - k such that the number left is next to a multiple of 64 (16, 100,
//	                 128), at either end, or anywhere - so the probers are already queued on the mutex
//	                 when the call goes on: if it lets go of the mutex anywhere later, they get in.
//	mode=4 (pollers) one writer, 1-3 pollers.  Per round the writer rebuilds a cache of 2..6 or 65..300
//	                 entries (sizes 1, or v mod (limit+1) with zero-size entries on top) and then makes
//	                 the racing calls: Clear; one Put that fills the limit exactly (size == limit, at
//	                 least two entries present; on small caches again and again after refills); one Put
//	                 with many victims; Puts with one victim each; Removes and replacing Puts; Clear /
//	                 partial refill / Clear.  Meanwhile the pollers ask Len, Size, Has (eldest, newest,
//	                 arriving key) in a loop, and Get of those keys up to three times a round.  Of a run
//	                 of equal answers only the first and the last enter the history (see executePoll).
//	mode=5 (handoff) small caches; per act a helper brings the cache's sync.Mutex into starvation mode
//	                 with goroutine A first in the queue and one to three probers behind it (see type
//	                 handoff): every Unlock inside A's one call - evicting, exactly-filling, replacing or
//	                 refused Put, Remove, Clear, Get, Has, Len, Size - hands the mutex to a prober, also
//	                 where Lock follows at once and no hook is called in between (a method made of two
//	                 critical sections, a check-then-act through another public method).
//
// Every workload runs on two kinds of cache, drawn per history (configuration field store): cache.LRU()
// (store=0) and the harness's own list-based LRU Store handed over through the public Config.WithStore
// (store=1, liststore.go - the same file is checked sequentially by cachetrace's W lines).  The hooks of
// that Store run inside every Store method, so the harness's code (a yield; in the staged mode a gate)
// also runs INSIDE Get (Store.Access) and Has (Store.Check), which call neither the size function nor the
// callback.  Staged acts of their own (store=1): A is a Get or a Has of a present key, mostly the least
// recently used one, stopped at the start or the end of Check / Access (also of the Check a Get would make
// if it looked the key up first), with writers queued on the mutex behind it - a Put of another key that
// needs that entry's room, a Remove of it, Clear, a replacing Put; in the other acts the gate is, half of
// the time, at the start or the end of one of the Store calls of A's call (Check, Remove, the n-th Evict,
// Store).  Small caches are drained after an act (Puts of fresh keys): the victims show the recency order
// the act has left.  The handoff mode has an act of its own as well: A is a Get of the least recently
// used key, the first prober in the queue a writer that takes that entry away.
//
// Per history:
//
//	(a) linearizability (porcupine v1.3.0) against a Go transcription of the C08 reference LRU: recency
//	    list, Put/Get are uses, Has is not; the victims of a Put are taken from the observed callback
//	    log and must be the least recently used entries, in that order, evicted only while the value
//	    does not fit and until it fits.  A victim that is not the least recently used entry is accepted
//	    (and counted: known finding F2) only on cache.LRU() and only once the history is no longer
//	    *settled* in the sense of theorem C08_lru_settled_partial (see model);
//	(b) every observed Size() within [0, limit], every Len() within [0, number of keys] (never negative);
//	(c) quiescence: once all goroutines are done the driver reads Len, Size, Has and Get of every key;
//	    Len must be the number of keys present and Size the sum of the sizes of the values present;
//	(d) every entry that left the cache was reported to the callback exactly once: callbacks are
//	    counted per (key, value) - values are unique per Put, so this is per (key, value-version) -
//	    and after a final Clear every successful Put must have exactly one report, and nothing
//	    else may have been reported (callback-twice / callback-never / callback-unknown-entry);
//	(e) no panic.
//
// Nothing in the verdict depends on wall-clock time: -budget only decides how many histories are
// produced (a slow machine yields fewer histories, never a failure), and a linearizability check that
// does not finish in its time slice is counted as inconclusive, not as a failure.  A deadlock (a
// method calling another locking method of the same cache under the mutex) is recognised by the
// states of the goroutines, not by a time-out (see watchdog).
//
// It is meant to be built with -race; data races are reported by the runtime on stderr and turned
// into failures by the runner script.  Output: CUR <cfg> before each history, FAIL input=<cfg>
// reason=<reason> per failing history, then one STATS line.  -replay <cfg> re-runs one
// configuration (the schedule is the runtime's, so a failure need not recur).
package main

import (
	"bytes"
	"flag"
	"fmt"
	"os"
	"reflect"
	"runtime"
	"sort"
	"strconv"
	"strings"
	"sync"
	"sync/atomic"
	"time"
	"unsafe"

	"github.com/anishathalye/porcupine"
	"github.com/creachadair/mds/cache"
)

type rng struct{ s uint64 }

func newRng(seed uint64) *rng { return &rng{s: seed*0x9E3779B97F4A7C15 + 0x1234567} }
func (r *rng) next() uint64 {
	r.s += 0x9E3779B97F4A7C15
	z := r.s
	z = (z ^ (z >> 30)) * 0xBF58476D1CE4E5B9
	z = (z ^ (z >> 27)) * 0x94D049BB133111EB
	return z ^ (z >> 31)
}
func (r *rng) intn(n int) int { return int(r.next() % uint64(n)) }

type kv struct{ k, v int }

type input struct {
	kind byte // p g h r l s c
	key  int
	val  int
}

type output struct {
	ok  bool
	val int
	n   int64
	ev  []kv
}

type rec struct {
	g         int
	in        input
	out       output
	call, ret int64
	panicked  string
}

type config struct {
	mode   int // 0 random, 1 duel
	seed   uint64
	run    int
	procs  int
	g      int
	ops    int // random: calls per goroutine; duel: phases
	keys   int
	limit  int64
	sizeMd int // 0 unit, m = v mod m (3 in the small workloads; limit+1 in the big ones, so that a value can fill the limit exactly)
	store  int // 0 = cache.LRU(), 1 = the harness's listStore handed over through Config.WithStore (hooks inside every Store method)
}

// keyspace is the number of keys a history of this configuration may use (0..keyspace-1).
func (c config) keyspace() int {
	if c.mode == 4 {
		return c.keys + 8
	}
	if c.mode == 5 {
		return c.keys + 2 // the arriving key and the helper's key
	}
	if c.mode == 3 && c.limit < 8 {
		return c.keys + 1 + int(c.limit) // and the keys of the drain that follows an act (executeStaged)
	}
	return c.keys + 1 // key c.keys is the duel mode's second key
}

func (c config) String() string {
	s := fmt.Sprintf("mode=%d,seed=%d,run=%d,procs=%d,g=%d,ops=%d,keys=%d,limit=%d,size=%d", c.mode, c.seed, c.run, c.procs, c.g, c.ops, c.keys, c.limit, c.sizeMd)
	if c.store != 0 {
		s += fmt.Sprintf(",store=%d", c.store) // configurations written before round 5 have no such field: cache.LRU()
	}
	return s
}

func parseConfig(s string) (c config, err error) {
	for _, f := range strings.Split(s, ",") {
		kv := strings.SplitN(f, "=", 2)
		if len(kv) != 2 {
			return c, fmt.Errorf("bad field %q", f)
		}
		n, e := strconv.ParseInt(kv[1], 10, 64)
		if e != nil {
			return c, e
		}
		switch kv[0] {
		case "mode":
			c.mode = int(n)
		case "seed":
			c.seed = uint64(n)
		case "run":
			c.run = int(n)
		case "procs":
			c.procs = int(n)
		case "g":
			c.g = int(n)
		case "ops":
			c.ops = int(n)
		case "keys":
			c.keys = int(n)
		case "limit":
			c.limit = n
		case "size":
			c.sizeMd = int(n)
		case "store":
			c.store = int(n)
		}
	}
	if c.g < 1 || c.g > 64 || c.ops < 1 || c.keys < 1 || c.limit < 1 {
		return c, fmt.Errorf("incomplete configuration %q", s)
	}
	return c, nil
}

func (c config) size(v int) int64 {
	if c.sizeMd == 0 {
		return 1
	}
	return int64(v % c.sizeMd)
}

func goid() int64 {
	var buf [64]byte
	n := runtime.Stack(buf[:], false)
	f := bytes.Fields(buf[:n])
	id, _ := strconv.ParseInt(string(f[1]), 10, 64)
	return id
}

// ---- one cache under observation

type world struct {
	c      config
	cc     *cache.Cache[int, int]
	clock  int64
	hmu    sync.Mutex // the harness's own lock: callback log and goroutine table
	slots  map[int64]*[]kv
	global []kv
	yields int64
	detail []string
	gate   atomic.Pointer[gate] // staged mode: where goroutine A stops inside its call
	hand   atomic.Pointer[handoff]
	mword  *int32               // the state word of the cache's mutex (handoff mode: read only, to see whether it is in starvation mode)
	ls     *listStore[int, int] // config.store = 1: the Store the cache was given
}

// handoff mode (mode=5).  A sync.Mutex whose waiter has waited for more than a millisecond and then
// loses the mutex once more to a goroutine that did not wait goes into starvation mode: from then on
// Unlock hands the mutex to the first waiter, and a goroutine that calls Lock queues behind the others
// even if it has only just unlocked.  The helper goroutine H brings the cache's mutex into that mode with
// A first in the queue and the probers behind it: H stops in the size function of its own Put (mutex
// held) until A and then the probers are blocked on the mutex and a millisecond and a half has passed,
// finishes the Put and at once makes a second one, which takes the mutex before the woken A gets to it; A
// finds the mutex taken again and declares starvation; H, stopped in the size function of its second Put
// until it sees that, returns.  Now A is handed the mutex, and EVERY Unlock inside A's call - also one
// that is followed by Lock at once, with no hook call in between - hands the mutex to a prober, whose call
// then runs in the middle of A's.  If every method is one critical section the probers simply run after A.
// Nothing in the verdict depends on the timing: if starvation mode is not reached the act is an ordinary
// contended one (statistic handoffArmed).
type handoff struct {
	owner   atomic.Int64 // H's goroutine id
	stops   [2]hookCall  // where H stops in its first and in its second call
	stage   atomic.Int32
	startA  chan struct{}
	startP  chan struct{}
	a       *prober
	probers []*prober
}

// hookCall names one call of a hook: the size function ('s') or the eviction callback ('c') on a value.
type hookCall struct {
	kind byte
	val  int
}

var handActs, handArmed int64

// waitBlocked waits until p's goroutine has started and then has either finished or is blocked.
func waitBlocked(p *prober, buf []byte) {
	for i := 0; p.started.Load() == 0 && i < 1000000; i++ {
		runtime.Gosched()
	}
	for i := 0; p.done.Load() == 0; i++ {
		if i >= 2 && blockedStates[stateOf(p.gid.Load(), buf)] {
			break
		}
		if i > 200000 {
			atomic.AddInt64(&gateGaveUp, 1)
			break
		}
		runtime.Gosched()
	}
}

func (w *world) atHand(kind byte, v int) {
	h := w.hand.Load()
	if h == nil || h.owner.Load() != goid() {
		return
	}
	at := hookCall{kind, v}
	switch {
	case at == h.stops[0] && h.stage.CompareAndSwap(0, 1):
		buf := make([]byte, 1<<16)
		close(h.startA)
		waitBlocked(h.a, buf)
		close(h.startP)
		for _, p := range h.probers {
			waitBlocked(p, buf)
		}
		for t := time.Now(); time.Since(t) < 1500*time.Microsecond; {
			runtime.Gosched()
		}
	case at == h.stops[1] && h.stage.CompareAndSwap(1, 2):
		for i := 0; i < 20000 && h.a.done.Load() == 0; i++ {
			if w.mword != nil && atomic.LoadInt32(w.mword)&4 != 0 { // mutexStarving
				atomic.AddInt64(&handArmed, 1)
				break
			}
			runtime.Gosched()
		}
	}
}

// mutexWord finds the sync.Mutex (or sync.RWMutex, whose first field is one) among the fields of the
// cache and returns the address of its state word; nil if there is none.
func mutexWord(cc any) *int32 {
	v := reflect.ValueOf(cc)
	if v.Kind() != reflect.Pointer || v.Elem().Kind() != reflect.Struct {
		return nil
	}
	v = v.Elem()
	for i := 0; i < v.NumField(); i++ {
		f := v.Field(i)
		if t := f.Type().String(); (t == "sync.Mutex" || t == "sync.RWMutex") && f.CanAddr() {
			return (*int32)(unsafe.Pointer(f.UnsafeAddr()))
		}
	}
	return nil
}

// A gate stops one goroutine (owner) inside a call of the cache: at the first call of the hook kind
// ('c' = eviction callback, 's' = size function) whose value argument is val.  Values are unique per
// Put, so this names one entry.  The probers wait for inside, make their calls and set done.
// With the harness's own Store (config.store = 1) the hook kinds of listStore are gates as well: the start
// (k a t m e) and the end (K A T M E) of Check, Access, Store, Remove, Evict, val being the KEY of the call
// (Evict: 0 at the start, the victim's key at the end), after `skip` such calls by the owner have gone by.
// These are the only gates inside Get and Has, which call neither the size function nor the callback.
type gate struct {
	kind    byte
	val     int
	skip    atomic.Int32
	owner   atomic.Int64
	armed   atomic.Int32
	inside  chan struct{}
	once    sync.Once
	probers []*prober
}

type prober struct {
	gid     atomic.Int64
	started atomic.Int32
	done    atomic.Int32
}

func (g *gate) open() { g.once.Do(func() { close(g.inside) }) }

var gateFired, gateProbesInside, gateGaveUp, storeGateFired int64 // statistics of the staged mode

// stateOf returns the scheduler state of goroutine id as the runtime prints it ("running",
// "runnable", "sync.Mutex.Lock", ...), "" if there is no such goroutine.
func stateOf(id int64, buf []byte) string {
	dump := string(buf[:runtime.Stack(buf, true)])
	pre := "goroutine " + strconv.FormatInt(id, 10) + " ["
	i := strings.Index(dump, pre)
	if i < 0 {
		return ""
	}
	st := dump[i+len(pre):]
	if j := strings.IndexAny(st, ",]"); j >= 0 {
		st = st[:j]
	}
	return st
}

// atGate is called by the hooks.  The owner of an armed gate stops here: it lets the probers go and
// waits until each of them has finished or is blocked on a synchronisation primitive (which, with
// the cache's mutex held by this very goroutine, is where a prober of a correct cache ends up).
func (w *world) atGate(kind byte, v int) {
	g := w.gate.Load()
	if g == nil || g.kind != kind || g.val != v || g.owner.Load() != goid() {
		return
	}
	if g.armed.Load() == 1 && g.skip.Load() > 0 {
		g.skip.Add(-1) // only the owner gets here
		return
	}
	if !g.armed.CompareAndSwap(1, 0) {
		return
	}
	atomic.AddInt64(&gateFired, 1)
	if kind != 'c' && kind != 's' {
		atomic.AddInt64(&storeGateFired, 1)
	}
	g.open()
	buf := make([]byte, 1<<16)
	for _, p := range g.probers {
		for p.started.Load() == 0 {
			runtime.Gosched()
		}
		for i := 0; p.done.Load() == 0; i++ {
			if i >= 2 && blockedStates[stateOf(p.gid.Load(), buf)] {
				break
			}
			if i > 200000 {
				atomic.AddInt64(&gateGaveUp, 1)
				break
			}
			runtime.Gosched()
		}
		if p.done.Load() != 0 {
			atomic.AddInt64(&gateProbesInside, 1) // finished while this goroutine is inside its call
		}
	}
}

func newWorld(c config) *world {
	w := &world{c: c, slots: map[int64]*[]kv{}}
	// The size function and the callback run inside the cache's critical sections: yielding there
	// stretches them, so that other goroutines really arrive while a call is in progress (also
	// with GOMAXPROCS=1).
	stretch := func() {
		if atomic.AddInt64(&w.yields, 1)%2 == 0 {
			runtime.Gosched()
		}
	}
	cb := func(k, v int) {
		stretch()
		w.atGate('c', v)
		w.atHand('c', v)
		id := goid()
		w.hmu.Lock()
		w.global = append(w.global, kv{k, v})
		if s := w.slots[id]; s != nil {
			*s = append(*s, kv{k, v})
		}
		w.hmu.Unlock()
	}
	sz := func(v int) int64 { stretch(); w.atGate('s', v); w.atHand('s', v); return c.size(v) }
	var cfg cache.Config[int, int]
	switch {
	case c.store == 0:
		cfg = cache.LRU[int, int]().OnEvict(cb).WithSize(sz)
	case c.run%2 == 0:
		// the harness's own Store (liststore.go) through the public Config.WithStore; its hooks run inside
		// every Store method, i.e. also inside Get (Access) and Has (Check)
		w.ls = &listStore[int, int]{hook: func(kind byte, key int) { stretch(); w.atGate(kind, key) }}
		cfg = cache.Config[int, int]{}.WithStore(w.ls).OnEvict(cb).WithSize(sz)
	default: // the options in another order, on top of the Config that LRU() returns
		w.ls = &listStore[int, int]{hook: func(kind byte, key int) { stretch(); w.atGate(kind, key) }}
		cfg = cache.LRU[int, int]().WithSize(sz).OnEvict(cb).WithStore(w.ls)
	}
	w.cc = cache.New(c.limit, cfg)
	if c.mode == 5 {
		w.mword = mutexWord(w.cc)
	}
	return w
}

// register gives the calling goroutine its per-call callback log.
func (w *world) register() *[]kv {
	cur := new([]kv)
	w.hmu.Lock()
	w.slots[goid()] = cur
	w.hmu.Unlock()
	return cur
}

func (w *world) do(g int, in input, cur *[]kv) (r rec) {
	r.g, r.in = g, in
	*cur = nil
	defer func() {
		if p := recover(); p != nil {
			r.panicked = fmt.Sprint(p)
			r.ret = atomic.AddInt64(&w.clock, 1)
		}
	}()
	cc := w.cc
	r.call = atomic.AddInt64(&w.clock, 1)
	switch in.kind {
	case 'p':
		r.out.ok = cc.Put(in.key, in.val)
	case 'g':
		r.out.val, r.out.ok = cc.Get(in.key)
	case 'h':
		r.out.ok = cc.Has(in.key)
	case 'r':
		r.out.ok = cc.Remove(in.key)
	case 'l':
		r.out.n = int64(cc.Len())
	case 's':
		r.out.n = cc.Size()
	case 'c':
		cc.Clear()
	}
	r.ret = atomic.AddInt64(&w.clock, 1)
	atomic.AddInt64(&progress, 1)
	w.hmu.Lock()
	r.out.ev = append([]kv(nil), (*cur)...)
	w.hmu.Unlock()
	return r
}

// ---- deadlock detection
//
// A method that calls another locking method of the same cache while it holds the mutex blocks for
// ever, and with it every other caller.  The Go runtime reports "all goroutines are asleep" only in
// programs without cgo, and the race detector brings cgo in; so the harness applies the runtime's
// criterion itself: once a second, if no call has completed since the last look, it takes a
// stop-the-world dump of all goroutines and looks at their states.  If every goroutine other than
// the watchdog waits on a mutex, a channel or a WaitGroup - none running, runnable, sleeping, in a
// select with a timer or in a system call - nothing can ever wake any of them: that is a deadlock,
// whatever the speed of the machine.  Three such looks in a row end the process with a FAIL line.

var progress int64      // completed calls
var curCfg atomic.Value // the configuration being run (string)

var blockedStates = map[string]bool{
	"semacquire": true, "sync.Mutex.Lock": true, "sync.RWMutex.Lock": true, "sync.RWMutex.RLock": true,
	"chan receive": true, "chan send": true, "sync.WaitGroup.Wait": true, "sync.Cond.Wait": true,
}

func allBlocked(dump string) bool {
	n, self := 0, 0
	for _, l := range strings.Split(dump, "\n") {
		if !strings.HasPrefix(l, "goroutine ") || !strings.HasSuffix(l, "]:") {
			continue
		}
		i := strings.IndexByte(l, '[')
		st := l[i+1 : len(l)-2]
		if j := strings.IndexByte(st, ','); j >= 0 {
			st = st[:j]
		}
		n++
		if st == "running" {
			self++ // the goroutine that takes the dump
			continue
		}
		if !blockedStates[st] {
			return false
		}
	}
	return n >= 2 && self == 1
}

func watchdog() {
	last, strikes := int64(-1), 0
	buf := make([]byte, 1<<20)
	for {
		time.Sleep(time.Second)
		p := atomic.LoadInt64(&progress)
		if p != last {
			last, strikes = p, 0
			continue
		}
		if allBlocked(string(buf[:runtime.Stack(buf, true)])) {
			strikes++
		} else {
			strikes = 0
		}
		if strikes >= 3 {
			cfg, _ := curCfg.Load().(string)
			fmt.Printf("FAIL input=%s reason=deadlock\n", cfg)
			fmt.Printf("STATS mode=-1 runs=0 ops=0 fails=1 nonlinearizable=0 inconclusive=0 nonLRUVictims=0 overlaps=0 procs=%d wall=0 contended=-\n", runtime.GOMAXPROCS(0))
			os.Exit(1)
		}
	}
}

// fresh returns a value that no other Put of this history uses, with the wanted size residue.
func (c config) fresh(r *rng, g, i int) int {
	base := (g+1)*100000 + (i+1)*10
	if c.sizeMd == 0 {
		return base
	}
	return base - base%c.sizeMd + r.intn(c.sizeMd)
}

// quiesce is run by the driver when every goroutine is done: it reads Len, Size and every key,
// compares them directly (no reference involved), and finally clears the cache so that every
// entry departs.  The calls are part of the history as well.
func (w *world) quiesce(hist []rec) ([]rec, []string) {
	var reasons []string
	c := w.c
	cur := w.register()
	add := func(in input) rec {
		r := w.do(c.g, in, cur)
		hist = append(hist, r)
		return r
	}
	ln := add(input{kind: 'l'})
	sz := add(input{kind: 's'})
	present, total := int64(0), int64(0)
	for k := 0; k < c.keyspace(); k++ {
		h := add(input{kind: 'h', key: k})
		g := add(input{kind: 'g', key: k})
		if h.panicked != "" || g.panicked != "" {
			continue
		}
		if h.out.ok != g.out.ok {
			reasons = append(reasons, "quiescent-has-get-disagree")
		}
		if g.out.ok {
			present++
			total += c.size(g.out.val)
		}
	}
	if ln.panicked == "" && ln.out.n != present {
		reasons = append(reasons, "quiescent-len-is-not-the-number-of-keys-present")
		w.detail = append(w.detail, fmt.Sprintf("quiescent Len()=%d but %d keys present", ln.out.n, present))
	}
	if sz.panicked == "" && sz.out.n != total {
		reasons = append(reasons, "quiescent-size-is-not-the-sum-of-present-values")
		w.detail = append(w.detail, fmt.Sprintf("quiescent Size()=%d but the present values sum to %d", sz.out.n, total))
	}
	add(input{kind: 'c'})
	return hist, reasons
}

// executeRandom: every goroutine runs a fixed random programme; all are released at once.
func executeRandom(c config) (hist []rec, global []kv, reasons, detail []string) {
	w := newWorld(c)
	per := make([][]rec, c.g)
	var wg sync.WaitGroup
	start := make(chan struct{})
	for g := 0; g < c.g; g++ {
		wg.Add(1)
		go func(g int) {
			defer wg.Done()
			r := newRng(c.seed*1000003 + uint64(c.run)*977 + uint64(g)*31 + 7)
			cur := w.register()
			// the programme of this goroutine is fixed before the start
			ins := make([]input, c.ops)
			for i := range ins {
				x := r.intn(100)
				k := r.intn(c.keys)
				switch {
				case x < 38:
					ins[i] = input{kind: 'p', key: k, val: c.fresh(r, g, i)}
				case x < 58:
					ins[i] = input{kind: 'g', key: k}
				case x < 68:
					ins[i] = input{kind: 'h', key: k}
				case x < 82:
					ins[i] = input{kind: 'r', key: k}
				case x < 89:
					ins[i] = input{kind: 'l'}
				case x < 97:
					ins[i] = input{kind: 's'}
				default:
					ins[i] = input{kind: 'c'}
				}
			}
			yield := make([]bool, c.ops)
			for i := range yield {
				yield[i] = r.intn(3) == 0
			}
			<-start
			for i, in := range ins {
				per[g] = append(per[g], w.do(g, in, cur))
				if yield[i] {
					runtime.Gosched()
				}
			}
		}(g)
	}
	close(start)
	wg.Wait()
	for g := range per {
		hist = append(hist, per[g]...)
	}
	hist, reasons = w.quiesce(hist)
	return hist, w.global, reasons, w.detail
}

// executeDuel: contended same-key phases (see the package comment).  Key 0 is the contended key,
// key c.keys (one past the random key space) is the "other" key whose Put evicts key 0 when the
// limit is small.
func executeDuel(c config) (hist []rec, global []kv, reasons, detail []string) {
	w := newWorld(c)
	r := newRng(c.seed*7000003 + uint64(c.run)*7919 + 13)
	phases := c.ops
	other := c.keys
	// programmes: prog[p][g] = calls of goroutine g in phase p; pre[p] = the driver's calls before it
	prog := make([][][]input, phases)
	pre := make([][]input, phases)
	post := make([][]input, phases)
	serial := 0
	val := func(g int) int { serial++; return c.fresh(r, g, serial) }
	contended := func(g int) input {
		k := 0
		if c.keys > 1 && r.intn(4) == 0 {
			k = 1 + r.intn(c.keys-1)
		}
		if c.mode == 2 {
			// readers: mostly Len, Size, Get and Has
			switch x := r.intn(100); {
			case x < 30:
				return input{kind: 'l'}
			case x < 60:
				return input{kind: 's'}
			case x < 75:
				return input{kind: 'g', key: k}
			case x < 85:
				return input{kind: 'h', key: k}
			case x < 93:
				return input{kind: 'p', key: k, val: val(g)}
			default:
				return input{kind: 'r', key: k}
			}
		}
		switch x := r.intn(100); {
		case x < 35:
			return input{kind: 'r', key: k}
		case x < 60:
			return input{kind: 'p', key: k, val: val(g)}
		case x < 75:
			return input{kind: 'g', key: k}
		case x < 83:
			return input{kind: 'c'}
		case x < 90:
			return input{kind: 'h', key: k}
		case x < 95:
			return input{kind: 'l'}
		default:
			return input{kind: 's'}
		}
	}
	for p := 0; p < phases; p++ {
		prog[p] = make([][]input, c.g)
		if c.mode == 2 {
			// readers: the driver fills the cache to its limit (keys 0.., key 0 the least recently used
			// unless a Get follows), so that the Put of the other key has to evict
			if r.intn(8) != 0 {
				pre[p] = append(pre[p], input{kind: 'c'})
				for k := 0; k < c.keys && int64(k) < c.limit; k++ {
					pre[p] = append(pre[p], input{kind: 'p', key: k, val: val(c.g)})
				}
			}
			if r.intn(4) == 0 {
				pre[p] = append(pre[p], input{kind: 'g', key: 0})
			}
			t := r.intn(8)
			reader := func(g int) input {
				if (g+p)%2 == 0 {
					return input{kind: 'l'}
				}
				return input{kind: 's'}
			}
			for g := 0; g < c.g; g++ {
				var first input
				switch t {
				case 0, 1: // Len/Size readers against a Put that has to evict
					if g == 0 {
						first = input{kind: 'p', key: other, val: val(g)}
					} else {
						first = reader(g)
					}
				case 2, 3: // ... against Clear
					if g == 0 {
						first = input{kind: 'c'}
					} else {
						first = reader(g)
					}
				case 4: // Get/Has of a key against the Put that replaces it
					if g == 0 {
						first = input{kind: 'p', key: 0, val: val(g)}
					} else if g%2 == 1 {
						first = input{kind: 'g', key: 0}
					} else {
						first = input{kind: 'h', key: 0}
					}
				case 5: // Get of the evicted and of the arriving key against the evicting Put
					if g == 0 {
						first = input{kind: 'p', key: other, val: val(g)}
					} else if g%2 == 1 {
						first = input{kind: 'g', key: 0}
					} else {
						first = input{kind: 'g', key: other}
					}
				case 6: // readers against Remove
					if g == 0 {
						first = input{kind: 'r', key: 0}
					} else {
						first = reader(g)
					}
				default:
					first = contended(g)
				}
				prog[p][g] = append(prog[p][g], first)
				for n := r.intn(3); n > 0; n-- {
					prog[p][g] = append(prog[p][g], contended(g))
				}
			}
			if r.intn(2) == 0 {
				post[p] = append(post[p], input{kind: 'l'}, input{kind: 's'})
			}
			continue
		}
		// the contended key is present at the start of most phases
		if r.intn(8) != 0 {
			pre[p] = append(pre[p], input{kind: 'p', key: 0, val: val(c.g)})
		}
		if r.intn(3) == 0 {
			pre[p] = append(pre[p], input{kind: 'g', key: 0})
		}
		t := r.intn(10)
		for g := 0; g < c.g; g++ {
			var first input
			switch t {
			case 0, 1: // Remove/Remove
				first = input{kind: 'r', key: 0}
			case 2: // Remove/Put of the same key
				if g == 0 {
					first = input{kind: 'r', key: 0}
				} else {
					first = input{kind: 'p', key: 0, val: val(g)}
				}
			case 3: // Remove/Clear
				if g == 0 {
					first = input{kind: 'c'}
				} else {
					first = input{kind: 'r', key: 0}
				}
			case 4: // Remove against a Put of another key that has to evict
				if g == 0 {
					first = input{kind: 'p', key: other, val: val(g)}
				} else {
					first = input{kind: 'r', key: 0}
				}
			case 5: // Get/Get (and one Put of the other key, which evicts by recency)
				if g == 0 && c.g > 2 {
					first = input{kind: 'p', key: other, val: val(g)}
				} else {
					first = input{kind: 'g', key: 0}
				}
			case 6: // Put/Put of the same key
				first = input{kind: 'p', key: 0, val: val(g)}
			default:
				first = contended(g)
			}
			prog[p][g] = append(prog[p][g], first)
			for n := r.intn(3); n > 0; n-- {
				prog[p][g] = append(prog[p][g], contended(g))
			}
		}
		if r.intn(2) == 0 {
			post[p] = append(post[p], input{kind: 'l'}, input{kind: 's'})
		}
	}
	per := make([][]rec, c.g)
	starts := make([]chan struct{}, phases)
	dones := make([]sync.WaitGroup, phases)
	ready := make([]int32, phases)
	for p := range starts {
		starts[p] = make(chan struct{})
		dones[p].Add(c.g)
	}
	spinOnly := runtime.GOMAXPROCS(0) > c.g
	for g := 0; g < c.g; g++ {
		go func(g int) {
			cur := w.register()
			for p := 0; p < phases; p++ {
				<-starts[p]
				// meet the others, so that the first calls of the phase start together
				atomic.AddInt32(&ready[p], 1)
				for n := 0; atomic.LoadInt32(&ready[p]) < int32(c.g); n++ {
					if !spinOnly || n%64 == 63 {
						runtime.Gosched()
					}
				}
				for _, in := range prog[p][g] {
					per[g] = append(per[g], w.do(g, in, cur))
				}
				dones[p].Done()
			}
		}(g)
	}
	cur := w.register()
	for p := 0; p < phases; p++ {
		for _, in := range pre[p] {
			hist = append(hist, w.do(c.g, in, cur))
		}
		close(starts[p])
		dones[p].Wait()
		for _, in := range post[p] {
			hist = append(hist, w.do(c.g, in, cur))
		}
	}
	for g := range per {
		hist = append(hist, per[g]...)
	}
	hist, reasons = w.quiesce(hist)
	return hist, w.global, reasons, w.detail
}

// executeStaged: see the package comment (mode=3).  Goroutine 0 is A, 1..g-1 are the probers, the
// driver (index g) rebuilds a known state before every act.
func executeStaged(c config) (hist []rec, global []kv, reasons, detail []string) {
	w := newWorld(c)
	r := newRng(c.seed*9000011 + uint64(c.run)*104729 + 17)
	serial := 0
	// a value no other Put of this history uses, of size res (sizes are v mod 3 when c.sizeMd = 3, else 1)
	val := func(res int) int {
		serial++
		base := (serial + 1) * 30
		if c.sizeMd == 0 {
			return base
		}
		if c.sizeMd > 3 {
			return (serial+1)*c.sizeMd + res%c.sizeMd
		}
		return base - base%c.sizeMd + res%c.sizeMd
	}
	cur := w.register()
	drv := func(in input) rec {
		x := w.do(c.g, in, cur)
		hist = append(hist, x)
		return x
	}
	for act := 0; act < c.ops; act++ {
		drv(input{kind: 'c'})
		// the entries the driver puts, oldest first: keys 0..n-1
		var ents []kv
		put := func(res int) {
			e := kv{len(ents), val(res)}
			ents = append(ents, e)
			drv(input{kind: 'p', key: e.k, val: e.v})
		}
		unit := c.sizeMd == 0
		fill := func() { // to the limit, with entries of size 1
			for int64(len(ents)) < c.limit && len(ents) < c.keys {
				put(1)
			}
		}
		var opA input
		var stopAt kv // the entry at whose hook call A stops
		var probes []input
		kind := r.intn(7)
		newKey := c.keys // a key the driver never uses
		if c.limit >= 8 {
			// a big cache (65..300 entries in the generated configurations): mostly Clear and Puts with many
			// victims, stopped after k evictions; the one-victim Put, the replacing Put and Remove as well
			kind = []int{7, 7, 7, 8, 8, 8, 0, 3, 4, 6}[r.intn(10)]
			if unit && kind == 8 {
				kind = 7 // with unit sizes a Put has one victim at most
			}
		}
		if c.store == 1 && r.intn(3) == 0 {
			// the cache runs on the harness's Store: A is a Get (9) or a Has (10), stopped INSIDE Store.Access /
			// Store.Check, with writers queued on the mutex behind it
			kind = 9 + r.intn(2)
		}
		// atMultiple picks how many of n entries have gone when A stops: mostly so that the number left is
		// next to a multiple of 64 (or of 16, 100), at both ends, or anywhere
		atMultiple := func(n int) int {
			if n <= 1 {
				return 0
			}
			j := r.intn(n)
			switch r.intn(6) {
			case 0, 1, 2:
				if n > 60 {
					left := 64*(1+r.intn((n+4)/64)) + r.intn(5) - 2
					j = n - left
				}
			case 3:
				q := []int{16, 32, 100, 128}[r.intn(4)]
				if n > q {
					j = n - (q*(1+r.intn(n/q)) + r.intn(3) - 1)
				}
			case 4:
				j = []int{0, 1, n - 2, n - 1}[r.intn(4)]
			}
			if j < 0 {
				j = 0
			}
			if j > n-1 {
				j = n - 1
			}
			return j
		}
		switch kind {
		case 7: // Clear of a big cache, stopped at the hook call for the j-th entry to go
			fill()
			if !unit {
				for z := r.intn(3); z > 0 && len(ents) < c.keys; z-- {
					put(0) // zero-size entries on top of the full cache
				}
			}
			n := len(ents)
			j := atMultiple(n)
			opA = input{kind: 'c'}
			stopAt = ents[j]
			nx := j + 1
			if nx > n-1 {
				nx = n - 1
			}
			probes = []input{{kind: 'l'}, {kind: 's'}, {kind: 'h', key: ents[j].k}, {kind: 'g', key: ents[nx].k}, {kind: 'g', key: ents[n-1].k},
				{kind: 'l'}, {kind: 's'}, {kind: 'h', key: ents[0].k}, {kind: 'g', key: ents[0].k}, {kind: 'l'}}
		case 8: // a Put with many victims (sizes are v mod (limit+1): a value may fill the limit exactly), stopped at the j-th
			fill()
			n := len(ents)
			sz := int(c.limit)
			switch r.intn(3) {
			case 0: // fills the cache exactly: everything goes
			case 1:
				sz = 2 + r.intn(n)
			default:
				sz = n - atMultiple(n)
			}
			if sz < 2 {
				sz = 2
			}
			if int64(sz) > c.limit {
				sz = int(c.limit)
			}
			target := newKey
			if r.intn(4) == 0 {
				target = ents[r.intn(n)].k // replaces an entry as well
			}
			opA = input{kind: 'p', key: target, val: val(sz)}
			victims := sz - int(c.limit-int64(n))
			if target != newKey {
				victims--
			}
			if victims < 1 {
				victims = 1
			}
			if victims > n {
				victims = n
			}
			j := atMultiple(victims)
			stopAt = ents[j]
			probes = []input{{kind: 'l'}, {kind: 's'}, {kind: 'g', key: ents[j].k}, {kind: 'h', key: ents[j].k}, {kind: 'g', key: target}, {kind: 'g', key: ents[n-1].k},
				{kind: 'h', key: ents[0].k}, {kind: 'l'}, {kind: 's'}}
		case 0, 5, 6: // a Put that has to evict (6: the prober changes the cache too)
			fill()
			res := 1
			if !unit && c.limit >= 2 && r.intn(2) == 0 {
				res = 2 // evicts two
			}
			opA = input{kind: 'p', key: newKey, val: val(res)}
			stopAt = ents[0]
			if res == 2 && len(ents) > 1 && r.intn(2) == 0 {
				stopAt = ents[1]
			}
			probes = []input{{kind: 'l'}, {kind: 's'}, {kind: 'g', key: 0}, {kind: 'g', key: newKey}, {kind: 'h', key: 0}, {kind: 'h', key: newKey},
				{kind: 'g', key: len(ents) - 1}, {kind: 'l'}, {kind: 's'}}
			if kind == 6 {
				probes = []input{{kind: 'p', key: newKey, val: val(1)}, {kind: 'r', key: 0}, {kind: 'p', key: 0, val: val(1)}, {kind: 'r', key: newKey}, {kind: 'l'}, {kind: 's'}}
			}
		case 1: // a Put into a cache whose only entry has to go (count is 0 in the middle of it)
			newRes := 1
			switch {
			case unit && c.limit > 1:
				fill() // not possible with unit sizes: the oldest of a full cache goes
			case unit:
				put(1)
			case c.limit <= 2:
				put(int(c.limit)) // one value fills the limit
			case c.limit == 3:
				put(2)
				newRes = 2
			default:
				put(2)
				put(2)
			}
			opA = input{kind: 'p', key: newKey, val: val(newRes)}
			stopAt = ents[0]
			probes = []input{{kind: 'g', key: stopAt.k}, {kind: 'g', key: newKey}}
			if r.intn(2) == 0 {
				probes = append(probes, input{kind: 'l'}, input{kind: 's'})
			}
		case 2: // Clear
			n := 1 + r.intn(4)
			for i := 0; i < n && len(ents) < c.keys; i++ {
				if unit {
					if int64(len(ents)) < c.limit {
						put(1)
					}
				} else if int64(len(ents)) < c.limit && r.intn(3) != 0 {
					put(1)
				} else {
					put(0) // zero-size entries always fit
				}
			}
			if len(ents) == 0 {
				put(1)
			}
			opA = input{kind: 'c'}
			stopAt = ents[r.intn(len(ents))]
			probes = []input{{kind: 'l'}, {kind: 's'}, {kind: 'h', key: stopAt.k}, {kind: 'g', key: stopAt.k}, {kind: 'g', key: ents[len(ents)-1].k},
				{kind: 'l'}, {kind: 's'}, {kind: 'h', key: ents[0].k}}
		case 3: // a Put that replaces (under v mod 3 perhaps with a bigger value that also evicts)
			fill()
			j := r.intn(len(ents))
			res := 1
			if !unit && c.limit >= 2 && r.intn(2) == 0 {
				res = 2
			}
			opA = input{kind: 'p', key: ents[j].k, val: val(res)}
			stopAt = ents[j]
			probes = []input{{kind: 'g', key: ents[j].k}, {kind: 'h', key: ents[j].k}, {kind: 'l'}, {kind: 's'}, {kind: 'g', key: ents[j].k}, {kind: 'g', key: ents[0].k}}
		case 9, 10: // a Get / a Has of a present key, mostly the least recently used one; the probers change the cache:
			// a Put of another key that has to evict (the key that is being read, when it is the eldest), a Remove
			// of it, Clear, a Put that replaces it - then readers
			fill()
			j := 0
			if r.intn(3) == 0 {
				j = r.intn(len(ents))
			}
			opA = input{kind: 'g', key: ents[j].k}
			if kind == 10 {
				opA.kind = 'h'
			}
			stopAt = ents[j]
			probes = []input{{kind: 'p', key: newKey, val: val(1)}, {kind: 'r', key: ents[j].k}, {kind: 'c'}, {kind: 'p', key: ents[j].k, val: val(1)},
				{kind: 'g', key: ents[j].k}, {kind: 'h', key: ents[j].k}, {kind: 'l'}, {kind: 's'}, {kind: 'g', key: newKey}, {kind: 'g', key: ents[len(ents)-1].k}}
		default: // 4: Remove
			fill()
			j := r.intn(len(ents))
			opA = input{kind: 'r', key: ents[j].k}
			stopAt = ents[j]
			probes = []input{{kind: 'h', key: ents[j].k}, {kind: 'g', key: ents[j].k}, {kind: 'l'}, {kind: 's'}, {kind: 'r', key: ents[j].k},
				{kind: 'p', key: ents[j].k, val: val(1)}}
		}
		g := &gate{kind: 'c', val: stopAt.v, inside: make(chan struct{})}
		if r.intn(2) == 0 {
			g.kind = 's'
		}
		if c.store == 1 && (kind >= 9 || r.intn(2) == 0) {
			// a gate inside a method of the harness's Store instead: at the start or at the end of one of the Store
			// calls that A's call makes (or, for a Get, would make if it looked the key up with Check first)
			type at struct {
				kind      byte
				key, skip int
			}
			nth := 0 // stopAt is the nth entry to be evicted (the driver's entries leave in the order they were put)
			for i, e := range ents {
				if e == stopAt {
					nth = i
				}
			}
			var cands []at
			k := opA.key
			switch opA.kind {
			case 'g':
				cands = []at{{'k', k, 0}, {'K', k, 0}, {'a', k, 0}, {'A', k, 0}}
			case 'h':
				cands = []at{{'k', k, 0}, {'K', k, 0}}
			case 'r':
				cands = []at{{'k', k, 0}, {'K', k, 0}, {'m', k, 0}, {'M', k, 0}}
			case 'c':
				cands = []at{{'e', 0, nth}, {'E', stopAt.k, 0}}
			case 'p':
				cands = []at{{'k', k, 0}, {'K', k, 0}, {'t', k, 0}, {'T', k, 0}}
				if stopAt.k == k {
					cands = append(cands, at{'m', k, 0}, at{'M', k, 0}) // replaces
				} else {
					cands = append(cands, at{'e', 0, nth}, at{'E', stopAt.k, 0}, at{'E', stopAt.k, 0})
				}
			}
			x := cands[r.intn(len(cands))]
			g.kind, g.val = x.kind, x.key
			g.skip.Store(int32(x.skip))
		}
		np := c.g - 1
		if np < 1 {
			np = 1
		}
		progs := make([][]input, np)
		for i := range progs {
			g.probers = append(g.probers, &prober{})
			// one to three probes; a prober keeps the order of the list (Get of the departing key before Get of the arriving one)
			n := 1 + r.intn(3)
			at := r.intn(len(probes))
			if kind == 1 {
				at, n = 0, len(probes)
			}
			if kind >= 9 && i == 0 {
				at, n = r.intn(4), 1+r.intn(2) // the first prober starts with one of the writers
			}
			for k := 0; k < n && at+k < len(probes); k++ {
				in := probes[at+k]
				if in.kind == 'p' {
					in.val = val(1) // every Put of a history has its own value
				}
				progs[i] = append(progs[i], in)
			}
		}
		w.gate.Store(g)
		recs := make([][]rec, np+1)
		var wg sync.WaitGroup
		wg.Add(np + 1)
		go func() {
			defer wg.Done()
			defer g.open() // if the call never reaches the hook, the probers still run
			mine := w.register()
			g.owner.Store(goid())
			g.armed.Store(1)
			recs[0] = append(recs[0], w.do(0, opA, mine))
		}()
		for i := 0; i < np; i++ {
			go func(i int) {
				defer wg.Done()
				p := g.probers[i]
				defer p.done.Store(1)
				mine := w.register()
				p.gid.Store(goid())
				<-g.inside
				p.started.Store(1)
				for _, in := range progs[i] {
					recs[i+1] = append(recs[i+1], w.do(i+1, in, mine))
				}
			}(i)
		}
		wg.Wait()
		w.gate.Store(nil)
		for _, rs := range recs {
			hist = append(hist, rs...)
		}
		// small caches: a drain after the act (Puts of fresh keys, each as big as an entry), whose victims show the
		// recency order the act has left behind - a use recorded late, or not at all, changes who goes first.
		// (Decided by a generator of its own: the acts of a configuration are what they were before round 5.)
		if r2 := newRng(c.seed*17000023 + uint64(c.run)*49979687 + uint64(act)*7 + 3); c.limit < 8 && (kind >= 9 || r2.intn(2) == 0) {
			for d := 0; d < int(c.limit); d++ {
				drv(input{kind: 'p', key: c.keys + 1 + d, val: val(1)})
			}
		}
	}
	hist, reasons = w.quiesce(hist)
	return hist, w.global, reasons, w.detail
}

// executePoll: mode=4 (see the package comment).  Goroutine 0 is the only writer: in every round it
// rebuilds a known state (Clear + Puts, sequentially) and then makes the round's racing calls while the
// pollers (goroutines 1..g-1) call Len, Size, Has and now and then Get in a loop.  A poller's Len, Size
// and Has observations are thinned before the history is checked: of a run of equal answers to the same
// question only the first and the last are kept.  Dropping calls that do not change the cache from a
// history cannot make a linearizable history non-linearizable, so no false alarm comes from this; what is
// kept still carries every change of an answer with its real-time bounds.
func executePoll(c config) (hist []rec, global []kv, reasons, detail []string) {
	w := newWorld(c)
	r := newRng(c.seed*11000027 + uint64(c.run)*15485863 + 23)
	unit := c.sizeMd == 0
	serial := 0
	val := func(res int) int {
		serial++
		if unit {
			return serial
		}
		return serial*c.sizeMd + res%c.sizeMd
	}
	n := c.keys
	np := c.g - 1
	if np < 1 {
		np = 1
	}
	extra := func(i int) int { return n + i%8 } // keys the fill never uses
	// what the pollers ask in this round; written by the writer before it raises `racing`
	type question struct {
		in  input
		get bool // a Get (changes recency, never thinned): asked a few times per round only
	}
	var asks atomic.Pointer[[]question]
	var racing, stop atomic.Int32
	polls := make([]atomic.Int64, np)
	per := make([][]rec, np+1)
	var wg sync.WaitGroup
	few := runtime.GOMAXPROCS(0) <= np
	for i := 0; i < np; i++ {
		wg.Add(1)
		go func(i int) {
			defer wg.Done()
			mine := w.register()
			type stream struct {
				has  bool
				last rec // the latest record of a run of equal answers (not yet kept unless it was the first)
				kept bool
			}
			streams := map[input]*stream{}
			flush := func() {
				for _, st := range streams {
					if st.has && !st.kept {
						per[i+1] = append(per[i+1], st.last)
					}
				}
				streams = map[input]*stream{}
			}
			gets, turn := 0, i
			for stop.Load() == 0 {
				if racing.Load() == 0 {
					gets = 0
					runtime.Gosched()
					continue
				}
				qs := *asks.Load()
				q := qs[turn%len(qs)]
				turn++
				if q.get {
					if gets >= 3 {
						continue
					}
					gets++
				}
				x := w.do(i+1, q.in, mine)
				polls[i].Add(1)
				if q.get || x.panicked != "" || len(x.out.ev) != 0 {
					per[i+1] = append(per[i+1], x)
				} else {
					st := streams[q.in]
					if st == nil {
						st = &stream{}
						streams[q.in] = st
					}
					if st.has && st.last.out.ok == x.out.ok && st.last.out.n == x.out.n {
						st.last, st.kept = x, false
					} else {
						if st.has && !st.kept {
							per[i+1] = append(per[i+1], st.last)
						}
						per[i+1] = append(per[i+1], x)
						st.has, st.last, st.kept = true, x, true
					}
				}
				if few || turn%16 == 0 {
					runtime.Gosched()
				}
				if len(per[i+1]) > 4000 {
					break // a bound on the history, never reached on the unchanged tree
				}
			}
			flush()
		}(i)
	}
	cur := w.register()
	wr := func(in input) rec {
		x := w.do(0, in, cur)
		per[0] = append(per[0], x)
		return x
	}
	for round := 0; round < c.ops; round++ {
		wr(input{kind: 'c'})
		var ents []kv // what the writer has put, oldest first
		put := func(k, res int) {
			e := kv{k, val(res)}
			ents = append(ents, e)
			wr(input{kind: 'p', key: e.k, val: e.v})
		}
		for k := 0; k < n && int64(k) < c.limit; k++ {
			put(k, 1)
		}
		if !unit {
			for z := r.intn(3); z > 0; z-- {
				put(extra(5+z), 0) // zero-size entries on top of the full cache
			}
		}
		if r.intn(3) == 0 && len(ents) > 2 {
			// a few Gets, so that recency is not the order of the keys
			for z := 1 + r.intn(3); z > 0; z-- {
				j := r.intn(len(ents))
				wr(input{kind: 'g', key: ents[j].k})
				e := ents[j]
				ents = append(append(ents[:j:j], ents[j+1:]...), e)
			}
		}
		m := len(ents)
		var prog []input
		kind := r.intn(6)
		if unit && (kind == 1 || kind == 2) {
			kind = []int{0, 3}[r.intn(2)]
		}
		target := extra(0)
		switch kind {
		case 0: // Clear
			prog = []input{{kind: 'c'}}
		case 1: // one Put that fills the limit exactly (size == limit): every entry goes
			if r.intn(4) == 0 {
				target = ents[r.intn(m)].k
			}
			prog = []input{{kind: 'p', key: target, val: val(int(c.limit))}}
			if n <= 8 {
				// small cache: again and again - refill with two to four entries, then the exactly-filling Put
				for cyc := 2 + r.intn(6); cyc > 0; cyc-- {
					for e := 2 + r.intn(3); e > 0; e-- {
						prog = append(prog, input{kind: 'p', key: r.intn(n), val: val(r.intn(2))})
					}
					prog = append(prog, input{kind: 'p', key: extra(r.intn(2)), val: val(int(c.limit))})
				}
			}
		case 2: // one Put with many victims
			sz := 2 + r.intn(m)
			if int64(sz) > c.limit {
				sz = int(c.limit)
			}
			prog = []input{{kind: 'p', key: target, val: val(sz)}}
		case 3: // Puts of new keys, each with one victim
			for z := 1 + r.intn(4); z > 0; z-- {
				prog = append(prog, input{kind: 'p', key: extra(z), val: val(1)})
			}
		case 4: // Removes and replacing Puts all over the cache
			for z := 2 + r.intn(4); z > 0; z-- {
				e := ents[r.intn(m)]
				if r.intn(2) == 0 {
					prog = append(prog, input{kind: 'r', key: e.k})
				} else {
					prog = append(prog, input{kind: 'p', key: e.k, val: val(1)})
				}
			}
		default: // Clear, refill a part, Clear again
			prog = []input{{kind: 'c'}}
			for k := 0; k < m/2+1 && k < n; k++ {
				prog = append(prog, input{kind: 'p', key: k, val: val(1)})
			}
			prog = append(prog, input{kind: 'c'})
		}
		qs := []question{{in: input{kind: 'l'}}, {in: input{kind: 's'}}, {in: input{kind: 'h', key: ents[0].k}}, {in: input{kind: 'l'}}, {in: input{kind: 's'}},
			{in: input{kind: 'h', key: ents[m-1].k}}, {in: input{kind: 'h', key: target}}, {in: input{kind: 'g', key: ents[0].k}, get: true},
			{in: input{kind: 'l'}}, {in: input{kind: 's'}}, {in: input{kind: 'g', key: ents[m-1].k}, get: true}, {in: input{kind: 'g', key: target}, get: true}}
		if r.intn(2) == 0 {
			qs = qs[:7] // Len, Size and Has only
		}
		asks.Store(&qs)
		marks := make([]int64, np)
		for i := range marks {
			marks[i] = polls[i].Load()
		}
		racing.Store(1)
		for i := range marks { // every poller is polling before the racing calls start
			for spin := 0; polls[i].Load() == marks[i] && spin < 1000000; spin++ {
				runtime.Gosched()
			}
		}
		for _, in := range prog {
			wr(in)
		}
		racing.Store(0)
	}
	stop.Store(1)
	wg.Wait()
	for g := range per {
		hist = append(hist, per[g]...)
	}
	hist, reasons = w.quiesce(hist)
	return hist, w.global, reasons, w.detail
}

// executeHandoff: mode=5, see the comment on type handoff.  Goroutine 0 is A, 1..g-1 are the probers,
// g is the driver, g+1 the helper H.
func executeHandoff(c config) (hist []rec, global []kv, reasons, detail []string) {
	w := newWorld(c)
	r := newRng(c.seed*13000027 + uint64(c.run)*32452843 + 29)
	unit := c.sizeMd == 0
	serial := 0
	val := func(res int) int {
		serial++
		if unit {
			return serial
		}
		return serial*c.sizeMd + res%c.sizeMd
	}
	cur := w.register()
	drv := func(in input) rec {
		x := w.do(c.g, in, cur)
		hist = append(hist, x)
		return x
	}
	hk := c.keys + 1 // H's key
	newKey := c.keys
	for act := 0; act < c.ops; act++ {
		drv(input{kind: 'c'})
		var ents []kv
		put := func(res int) {
			e := kv{len(ents), val(res)}
			ents = append(ents, e)
			drv(input{kind: 'p', key: e.k, val: e.v})
		}
		// H's entry has size 0 where there are sizes; with unit sizes it takes one of the limit's places
		room := int(c.limit)
		if unit {
			room--
		}
		for len(ents) < room && len(ents) < c.keys {
			put(1)
		}
		hres := 0
		v0 := val(hres)
		drv(input{kind: 'p', key: hk, val: v0})
		if len(ents) == 0 {
			ents = []kv{{hk, 0}} // the cache holds H's entry only
		}
		m := len(ents)
		j := r.intn(m)
		var opA input
		var probes []input
		switch r.intn(8) {
		case 0: // a Put that has to evict
			opA = input{kind: 'p', key: newKey, val: val(1)}
			probes = []input{{kind: 'l'}, {kind: 's'}, {kind: 'g', key: ents[0].k}, {kind: 'g', key: newKey}, {kind: 'h', key: ents[0].k}, {kind: 'h', key: newKey}, {kind: 'l'}, {kind: 's'},
				{kind: 'r', key: newKey}, {kind: 'p', key: newKey, val: val(1)}}
		case 1: // a Put that fills the limit exactly
			opA = input{kind: 'p', key: newKey, val: val(int(c.limit))}
			if r.intn(3) == 0 {
				opA.key = ents[j].k
			}
			probes = []input{{kind: 'l'}, {kind: 's'}, {kind: 'g', key: opA.key}, {kind: 'h', key: ents[m-1].k}, {kind: 'l'}, {kind: 's'}, {kind: 'g', key: ents[0].k},
				{kind: 'p', key: ents[0].k, val: val(0)}, {kind: 'l'}}
		case 2: // a Put that replaces
			opA = input{kind: 'p', key: ents[j].k, val: val(1)}
			probes = []input{{kind: 'g', key: ents[j].k}, {kind: 'h', key: ents[j].k}, {kind: 'l'}, {kind: 's'}, {kind: 'r', key: ents[j].k}, {kind: 'p', key: ents[j].k, val: val(1)}, {kind: 'g', key: ents[j].k}}
		case 3, 4: // Remove (the probers remove, look up and put the same key)
			opA = input{kind: 'r', key: ents[j].k}
			probes = []input{{kind: 'r', key: ents[j].k}, {kind: 'h', key: ents[j].k}, {kind: 'g', key: ents[j].k}, {kind: 'l'}, {kind: 's'}, {kind: 'r', key: ents[j].k},
				{kind: 'p', key: ents[j].k, val: val(1)}, {kind: 'r', key: ents[j].k}}
		case 5: // Clear
			opA = input{kind: 'c'}
			probes = []input{{kind: 'l'}, {kind: 's'}, {kind: 'h', key: ents[j].k}, {kind: 'g', key: ents[m-1].k}, {kind: 'p', key: ents[j].k, val: val(1)}, {kind: 'l'}, {kind: 's'}, {kind: 'r', key: ents[0].k}}
		case 6: // a reader or a Get; the probers change the cache
			opA = []input{{kind: 'g', key: ents[j].k}, {kind: 'h', key: ents[j].k}, {kind: 'l'}, {kind: 's'}, {kind: 'g', key: newKey}}[r.intn(5)]
			probes = []input{{kind: 'r', key: ents[j].k}, {kind: 'p', key: ents[j].k, val: val(1)}, {kind: 'p', key: newKey, val: val(1)}, {kind: 'l'}, {kind: 'c'}, {kind: 'g', key: ents[j].k}, {kind: 's'}}
		default: // a Put that is refused, a Remove of a key that is not there
			opA = input{kind: 'r', key: newKey}
			if !unit && r.intn(2) == 0 {
				opA = input{kind: 'p', key: ents[j].k, val: val(int(c.limit) + 1)} // sizes are v mod (limit+2) here: over the limit
			}
			probes = []input{{kind: 'p', key: newKey, val: val(1)}, {kind: 'r', key: newKey}, {kind: 'g', key: ents[j].k}, {kind: 'l'}, {kind: 's'}}
		}
		// round 5: every fourth act or so, A is a Get (sometimes a Has) of the LEAST recently used key and the first
		// prober in the queue is a writer that takes that very entry away - a Put of another key that needs its room,
		// a Remove, a replacing Put, Clear.  If the Get lets go of the mutex anywhere between looking the key up and
		// recording the use, the writer runs there.  (Drawn from a generator of its own, after the act above has been
		// drawn: the other acts of a configuration are what they were.)
		r2 := newRng(c.seed*19000013 + uint64(c.run)*67867967 + uint64(act)*11 + 5)
		special := r2.intn(4) == 0
		if special {
			e := ents[0]
			opA = input{kind: 'g', key: e.k}
			if r2.intn(5) == 0 {
				opA.kind = 'h'
			}
			probes = []input{{kind: 'p', key: newKey, val: val(1)}, {kind: 'r', key: e.k}, {kind: 'p', key: e.k, val: val(1)}, {kind: 'c'},
				{kind: 'g', key: ents[m-1].k}, {kind: 'p', key: newKey, val: val(1)}, {kind: 'l'}, {kind: 's'}, {kind: 'g', key: e.k}}
		}
		np := c.g - 1
		if np < 1 {
			np = 1
		}
		// H's two calls on its own key, and the hook call inside each at which it stops: a Put in the size
		// function on the new value (the first thing it does) or in the callback for the value it replaces,
		// a Remove in the callback
		h := &handoff{startA: make(chan struct{}), startP: make(chan struct{}), a: &prober{}}
		v1, v2 := val(hres), val(hres)
		var hops [2]input
		switch r.intn(3) {
		case 0:
			hops[0], h.stops[0] = input{kind: 'p', key: hk, val: v1}, hookCall{'s', v1}
		case 1:
			hops[0], h.stops[0] = input{kind: 'p', key: hk, val: v1}, hookCall{'c', v0}
		default:
			hops[0], h.stops[0] = input{kind: 'r', key: hk}, hookCall{'c', v0}
		}
		switch x := r.intn(3); {
		case hops[0].kind == 'r' || x == 0:
			hops[1], h.stops[1] = input{kind: 'p', key: hk, val: v2}, hookCall{'s', v2}
		case x == 1:
			hops[1], h.stops[1] = input{kind: 'p', key: hk, val: v2}, hookCall{'c', v1}
		default:
			hops[1], h.stops[1] = input{kind: 'r', key: hk}, hookCall{'c', v1}
		}
		progs := make([][]input, np)
		for i := range progs {
			h.probers = append(h.probers, &prober{})
			n := 1 + r.intn(3)
			at := r.intn(len(probes))
			if special && i == 0 {
				at = r2.intn(3)
			}
			for k := 0; k < n && at+k < len(probes); k++ {
				in := probes[at+k]
				if in.kind == 'p' {
					in.val = val(int(c.size(in.val))) // every Put of a history has its own value, of the size that was meant
				}
				progs[i] = append(progs[i], in)
			}
		}
		w.hand.Store(h)
		recs := make([][]rec, np+2)
		var wg sync.WaitGroup
		wg.Add(np + 2)
		var once sync.Once
		release := func() { // if H never reaches its stop (a size function called outside the mutex ...), everybody still runs
			once.Do(func() {
				if h.stage.CompareAndSwap(0, 3) {
					close(h.startA)
					close(h.startP)
				}
			})
		}
		go func() {
			defer wg.Done()
			defer release()
			mine := w.register()
			h.owner.Store(goid())
			recs[np+1] = append(recs[np+1], w.do(c.g+1, hops[0], mine))
			recs[np+1] = append(recs[np+1], w.do(c.g+1, hops[1], mine))
		}()
		go func() {
			defer wg.Done()
			defer h.a.done.Store(1)
			mine := w.register()
			h.a.gid.Store(goid())
			<-h.startA
			h.a.started.Store(1)
			recs[0] = append(recs[0], w.do(0, opA, mine))
		}()
		for i := 0; i < np; i++ {
			go func(i int) {
				defer wg.Done()
				p := h.probers[i]
				defer p.done.Store(1)
				mine := w.register()
				p.gid.Store(goid())
				<-h.startP
				p.started.Store(1)
				for _, in := range progs[i] {
					recs[i+1] = append(recs[i+1], w.do(i+1, in, mine))
				}
			}(i)
		}
		wg.Wait()
		w.hand.Store(nil)
		atomic.AddInt64(&handActs, 1)
		for _, rs := range recs {
			hist = append(hist, rs...)
		}
	}
	hist, reasons = w.quiesce(hist)
	return hist, w.global, reasons, w.detail
}

// bigN draws the number of entries of a big cache: next to a multiple of 64 (63..257), just above 64,
// or anywhere in 65..maxN.
func bigN(r *rng, maxN int) int {
	if maxN < 66 {
		maxN = 66
	}
	n := 65 + r.intn(maxN-64)
	switch r.intn(3) {
	case 0:
		n = 64*(1+r.intn(4)) - 1 + r.intn(3)
	case 1:
		n = 65 + r.intn(64)
	}
	if n > maxN {
		n = maxN
	}
	return n
}

func execute(c config) ([]rec, []kv, []string, []string) {
	switch c.mode {
	case 1, 2:
		return executeDuel(c)
	case 3:
		return executeStaged(c)
	case 4:
		return executePoll(c)
	case 5:
		return executeHandoff(c)
	}
	return executeRandom(c)
}

// ---- the sequential reference (state = the entries, least recently used first; a state is never
// changed in place: porcupine keeps the states it has seen)
//
// Which entry a Put evicts.  The reference is the LRU cache: the victims of a Put are the least recently
// used entries, in that order.  The only licence is known finding F2 (heapq's pop never sifts up, so after
// a removal in the middle of its heap lruStore can evict an entry that is not the eldest), and it is given
// exactly as far as theorem C08_lru_settled_partial leaves room for it: the history so far must no longer
// be *settled* (CacheSpec.settled, evaluated on the reference's own state) - some call found its key
// present while more than 5 entries were present and the last call that changed the cache was a successful
// Remove.  Until then, and always when the cache runs on the harness's listStore (config.store = 1: no
// heap, F2 does not apply), a victim that is not the least recently used entry is rejected.  (Before round
// 5 every present entry was accepted as a victim, on every history: a Get that reports a hit on the very
// entry an overlapping Put evicts was "explained" as Get first, then the Put evicting the entry that had
// just been used.)

type ent = kv

type mstate struct {
	es    []ent
	top   bool // CacheSpec.settles: the last call that changed the cache was not a successful Remove
	loose bool // the history is no longer settled: F2 may show
}

var nonLRU int64 // a victim that was not the least recently used entry was accepted (known finding F2)

func model(c config) porcupine.Model {
	find := func(es []ent, k int) int {
		for i, e := range es {
			if e.k == k {
				return i
			}
		}
		return -1
	}
	total := func(es []ent) (t int64) {
		for _, e := range es {
			t += c.size(e.v)
		}
		return
	}
	// without returns a fresh slice with room for one more entry
	without := func(es []ent, i int) []ent {
		out := make([]ent, 0, len(es))
		out = append(out, es[:i]...)
		return append(out, es[i+1:]...)
	}
	// hit: the call finds its key present (CacheSpec.hits)
	hit := func(ms mstate) mstate {
		if !ms.top && len(ms.es) > 5 {
			ms.loose = true
		}
		return ms
	}
	return porcupine.Model{
		Init: func() interface{} { return mstate{top: true} },
		Step: func(st, inp, outp interface{}) (bool, interface{}) {
			ms := st.(mstate)
			es := ms.es
			in := inp.(input)
			out := outp.(output)
			switch in.kind {
			case 'p':
				vs := c.size(in.val)
				if vs > c.limit {
					return !out.ok && len(out.ev) == 0, st
				}
				if !out.ok {
					return false, st
				}
				ev := out.ev
				es = append(make([]ent, 0, len(es)+1), es...)
				if i := find(es, in.key); i >= 0 {
					if len(ev) == 0 || ev[0] != es[i] {
						return false, st
					}
					ms = hit(ms)
					ev = ev[1:]
					es = append(es[:i], es[i+1:]...)
				}
				t := total(es)
				// the victims: a prefix of the recency list (one pass); anywhere else only under F2's licence
				n := 0
				for n < len(ev) && n < len(es) && es[n] == ev[n] {
					if t+vs <= c.limit {
						return false, st // evicted although the value fits
					}
					t -= c.size(es[n].v)
					n++
				}
				es = es[n:]
				if n < len(ev) && (c.store != 0 || !ms.loose) {
					return false, st // not the least recently used entry
				}
				for _, victim := range ev[n:] {
					if t+vs <= c.limit {
						return false, st
					}
					i := find(es, victim.k)
					if i < 0 || es[i] != victim {
						return false, st
					}
					if i != 0 {
						atomic.StoreInt64(&nonLRU, 1)
					}
					t -= c.size(victim.v)
					es = append(es[:i], es[i+1:]...)
				}
				if t+vs > c.limit {
					return false, st
				}
				return true, mstate{append(es, ent{in.key, in.val}), true, ms.loose}
			case 'g':
				i := find(es, in.key)
				if i < 0 {
					return !out.ok && out.val == 0 && len(out.ev) == 0, st
				}
				if !out.ok || out.val != es[i].v || len(out.ev) != 0 {
					return false, st
				}
				ms = hit(ms)
				if i == len(es)-1 {
					return true, mstate{es, true, ms.loose}
				}
				e := es[i]
				return true, mstate{append(without(es, i), e), true, ms.loose}
			case 'h':
				return out.ok == (find(es, in.key) >= 0) && len(out.ev) == 0, st
			case 'r':
				i := find(es, in.key)
				if i < 0 {
					return !out.ok && len(out.ev) == 0, st
				}
				if !out.ok || len(out.ev) != 1 || out.ev[0] != es[i] {
					return false, st
				}
				ms = hit(ms)
				return true, mstate{without(es, i), false, ms.loose}
			case 'l':
				return out.n == int64(len(es)) && len(out.ev) == 0, st
			case 's':
				t := total(es)
				return out.n == t && t <= c.limit && len(out.ev) == 0, st
			case 'c':
				if len(out.ev) != len(es) {
					return false, st
				}
				a := append([]ent(nil), es...)
				b := append([]ent(nil), out.ev...)
				less := func(x []ent) func(i, j int) bool {
					return func(i, j int) bool { return x[i].k < x[j].k || (x[i].k == x[j].k && x[i].v < x[j].v) }
				}
				sort.Slice(a, less(a))
				sort.Slice(b, less(b))
				for i := range a {
					if a[i] != b[i] {
						return false, st
					}
				}
				return true, mstate{nil, true, ms.loose}
			}
			return false, st
		},
		Equal: func(a, b interface{}) bool {
			x, y := a.(mstate), b.(mstate)
			if len(x.es) != len(y.es) || x.top != y.top || x.loose != y.loose {
				return false
			}
			for i := range x.es {
				if x.es[i] != y.es[i] {
					return false
				}
			}
			return true
		},
	}
}

// check returns the reasons for which this history fails; inconclusive = the linearizability
// search did not finish in its time slice (not a failure).
func check(c config, hist []rec, global []kv, slice time.Duration) (reasons []string, overlaps int, inconclusive bool) {
	ops := make([]porcupine.Operation, 0, len(hist))
	puts := map[kv]int{}
	perOp := 0
	anyPanic := false // the callback log of a call that panicked is not attributed to it
	for _, r := range hist {
		if r.panicked != "" {
			reasons = append(reasons, "panic:"+firstWords(r.panicked))
			anyPanic = true
			continue
		}
		ops = append(ops, porcupine.Operation{ClientId: r.g, Input: r.in, Call: r.call, Output: r.out, Return: r.ret})
		perOp += len(r.out.ev)
		switch r.in.kind {
		case 'p':
			if r.out.ok {
				puts[kv{r.in.key, r.in.val}]++
			}
		case 's':
			if r.out.n < 0 {
				reasons = append(reasons, "size-negative")
			} else if r.out.n > c.limit {
				reasons = append(reasons, "size-exceeds-limit")
			}
		case 'l':
			if r.out.n < 0 {
				reasons = append(reasons, "len-negative")
			} else if r.out.n > int64(c.keyspace()) {
				reasons = append(reasons, "len-exceeds-number-of-keys")
			}
		}
	}
	byCall := append([]rec(nil), hist...)
	sort.Slice(byCall, func(i, j int) bool { return byCall[i].call < byCall[j].call })
	for i := range byCall {
		for j := i + 1; j < len(byCall) && byCall[j].call < byCall[i].ret; j++ {
			if byCall[i].g != byCall[j].g {
				overlaps++
				tagOverlap(byCall[i].in, byCall[j].in)
			}
		}
	}
	// exactly once, per (key, value-version)
	seen := map[kv]int{}
	for _, e := range global {
		seen[e]++
	}
	if perOp != len(global) && !anyPanic {
		reasons = append(reasons, "callback-outside-any-call")
	}
	for e, n := range seen {
		if puts[e] == 0 {
			reasons = append(reasons, "callback-unknown-entry")
		} else if n > 1 {
			reasons = append(reasons, "callback-twice")
		}
	}
	for e, n := range puts {
		if n != 1 {
			reasons = append(reasons, "harness-value-not-unique")
		}
		if seen[e] == 0 {
			reasons = append(reasons, "callback-never")
		}
	}
	switch porcupine.CheckOperationsTimeout(model(c), ops, slice) {
	case porcupine.Illegal:
		reasons = append(reasons, "not-linearizable")
	case porcupine.Unknown:
		inconclusive = true
	}
	return dedup(reasons), overlaps, inconclusive
}

// linearLine returns one linearization of a (linearizable) history, as porcupine finds it, in the
// text form read by bin/incoq-cacheconc:  "<limit> <sizeMd> | call;call;..." with
// p<k>:<v>=<ok>/<ev>  g<k>=<ok>:<val>  h<k>=<ok>  r<k>=<ok>/<ev>  l=<n>  s=<n>  c=/<ev>,  <ev> = k:v,k:v or "."
func linearLine(c config, hist []rec) string {
	var ops []porcupine.Operation
	for _, r := range hist {
		if r.panicked != "" {
			return ""
		}
		ops = append(ops, porcupine.Operation{ClientId: r.g, Input: r.in, Call: r.call, Output: r.out, Return: r.ret})
	}
	res, info := porcupine.CheckOperationsVerbose(model(c), ops, 5*time.Second)
	if res != porcupine.Ok {
		return ""
	}
	parts := info.PartialLinearizationsOperations()
	if len(parts) != 1 || len(parts[0]) == 0 {
		return ""
	}
	lin := parts[0][0]
	for _, l := range parts[0] {
		if len(l) > len(lin) {
			lin = l
		}
	}
	if len(lin) != len(ops) {
		return ""
	}
	b01 := func(b bool) string {
		if b {
			return "1"
		}
		return "0"
	}
	evs := func(ev []kv) string {
		if len(ev) == 0 {
			return "."
		}
		var xs []string
		for _, e := range ev {
			xs = append(xs, fmt.Sprintf("%d:%d", e.k, e.v))
		}
		return strings.Join(xs, ",")
	}
	var calls []string
	for _, o := range lin {
		in, out := o.Input.(input), o.Output.(output)
		switch in.kind {
		case 'p':
			calls = append(calls, fmt.Sprintf("p%d:%d=%s/%s", in.key, in.val, b01(out.ok), evs(out.ev)))
		case 'g':
			calls = append(calls, fmt.Sprintf("g%d=%s:%d", in.key, b01(out.ok), out.val))
		case 'h':
			calls = append(calls, fmt.Sprintf("h%d=%s", in.key, b01(out.ok)))
		case 'r':
			calls = append(calls, fmt.Sprintf("r%d=%s/%s", in.key, b01(out.ok), evs(out.ev)))
		case 'l':
			calls = append(calls, fmt.Sprintf("l=%d", out.n))
		case 's':
			calls = append(calls, fmt.Sprintf("s=%d", out.n))
		case 'c':
			calls = append(calls, fmt.Sprintf("c=/%s", evs(out.ev)))
		}
	}
	return fmt.Sprintf("%d %d | %s", c.limit, c.sizeMd, strings.Join(calls, ";"))
}

func modeOf(fixed *config, m int) int {
	if fixed != nil {
		return fixed.mode
	}
	return m
}

// contended counts the overlapping pairs of calls that conflict: two calls on the SAME key
// (rr = Remove/Remove, pr = Put/Remove, gg = Get/Get, pp = Put/Put, gp, gr, ...), calls
// overlapping a Clear (cr, cp, cg) and Len/Size readers overlapping a call that changes the cache
// (lp, ps, lr, rs, cl, cs).  These are the states the property text names.
var contended = map[string]int{}

func tagOverlap(a, b input) {
	x, y := a.kind, b.kind
	if x > y {
		x, y = y, x
	}
	keyed := func(k byte) bool { return k == 'p' || k == 'g' || k == 'r' || k == 'h' }
	reader := func(k byte) bool { return k == 'l' || k == 's' }
	changes := func(k byte) bool { return k == 'p' || k == 'r' || k == 'c' }
	switch {
	case keyed(x) && keyed(y) && a.key == b.key:
		contended[string([]byte{x, y})]++
	case x == 'c' && keyed(y):
		contended[string([]byte{x, y})]++
	case reader(x) && changes(y), reader(y) && changes(x): // Len/Size against Put, Remove, Clear: cl, cs, lp, lr, ps, rs
		contended[string([]byte{x, y})]++
	}
}

func tagString() string {
	var ks []string
	for k := range contended {
		ks = append(ks, k)
	}
	sort.Strings(ks)
	var xs []string
	for _, k := range ks {
		xs = append(xs, fmt.Sprintf("%s:%d", k, contended[k]))
	}
	if len(xs) == 0 {
		return "-"
	}
	return strings.Join(xs, ",")
}

func firstWords(s string) string {
	f := strings.Fields(s)
	if len(f) > 3 {
		f = f[:3]
	}
	return strings.Join(f, "_")
}

func dedup(xs []string) []string {
	seen := map[string]bool{}
	var out []string
	for _, x := range xs {
		if !seen[x] {
			seen[x] = true
			out = append(out, x)
		}
	}
	return out
}

func dump(hist []rec) {
	sort.Slice(hist, func(i, j int) bool { return hist[i].call < hist[j].call })
	for _, r := range hist {
		fmt.Fprintf(os.Stderr, "  g%d [%d,%d] %c key=%d val=%d -> ok=%v val=%d n=%d ev=%v %s\n", r.g, r.call, r.ret, r.in.kind, r.in.key, r.in.val,
			r.out.ok, r.out.val, r.out.n, r.out.ev, r.panicked)
	}
}

func selftest() bool {
	c := config{limit: 2, keys: 3}
	m := model(c)
	op := func(g int, in input, out output, call, ret int64) porcupine.Operation {
		return porcupine.Operation{ClientId: g, Input: in, Output: out, Call: call, Return: ret}
	}
	// overlapping Put and Get: Get may see the value or not
	h1 := []porcupine.Operation{
		op(0, input{kind: 'p', key: 1, val: 10}, output{ok: true}, 1, 4),
		op(1, input{kind: 'g', key: 1}, output{ok: true, val: 10}, 2, 3),
		op(1, input{kind: 'l'}, output{n: 1}, 5, 6),
	}
	// Put completes before Get starts, Get misses: not linearizable
	h2 := []porcupine.Operation{
		op(0, input{kind: 'p', key: 1, val: 10}, output{ok: true}, 1, 2),
		op(1, input{kind: 'g', key: 1}, output{}, 3, 4),
	}
	// Size above the limit
	h3 := []porcupine.Operation{
		op(0, input{kind: 'p', key: 1, val: 10}, output{ok: true}, 1, 2),
		op(0, input{kind: 'p', key: 2, val: 20}, output{ok: true}, 3, 4),
		op(0, input{kind: 'p', key: 0, val: 30}, output{ok: true}, 5, 6), // no eviction reported
		op(0, input{kind: 's'}, output{n: 3}, 7, 8),
	}
	// a lost eviction report
	h4 := []porcupine.Operation{
		op(0, input{kind: 'p', key: 1, val: 10}, output{ok: true}, 1, 2),
		op(0, input{kind: 'p', key: 2, val: 20}, output{ok: true}, 3, 4),
		op(0, input{kind: 'p', key: 0, val: 30}, output{ok: true, ev: []kv{{1, 10}}}, 5, 6),
		op(1, input{kind: 'h', key: 1}, output{ok: false}, 7, 8),
		op(1, input{kind: 's'}, output{n: 2}, 9, 10),
	}
	// check-then-act Remove: two overlapping Removes of one present key both report true
	h5 := []porcupine.Operation{
		op(2, input{kind: 'p', key: 0, val: 10}, output{ok: true}, 1, 2),
		op(0, input{kind: 'r', key: 0}, output{ok: true, ev: []kv{{0, 10}}}, 3, 6),
		op(1, input{kind: 'r', key: 0}, output{ok: true, ev: []kv{{0, 0}}}, 4, 5),
	}
	// the same with one of them reporting false: legal
	h6 := []porcupine.Operation{
		op(2, input{kind: 'p', key: 0, val: 10}, output{ok: true}, 1, 2),
		op(0, input{kind: 'r', key: 0}, output{ok: true, ev: []kv{{0, 10}}}, 3, 6),
		op(1, input{kind: 'r', key: 0}, output{}, 4, 5),
	}
	// two overlapping Gets, then a Put that must evict: the victim is reported, recency of the
	// Gets is not constrained by the reference (F2), but a victim that is not present is illegal
	h7 := []porcupine.Operation{
		op(2, input{kind: 'p', key: 0, val: 10}, output{ok: true}, 1, 2),
		op(2, input{kind: 'p', key: 1, val: 20}, output{ok: true}, 3, 4),
		op(0, input{kind: 'g', key: 0}, output{ok: true, val: 10}, 5, 8),
		op(1, input{kind: 'g', key: 0}, output{ok: true, val: 20}, 6, 7), // another key's value
	}
	// a Get that hits on the least recently used of two entries, overlapping the Put of a third key that needs
	// room (limit 2).  Get first: the other entry goes.  Put first: the Get misses.  A hit AND the eviction of
	// that very entry has no explanation (the entry would have been the most recently used one).
	getPut := func(getHit bool, victim kv) []porcupine.Operation {
		g := output{}
		if getHit {
			g = output{ok: true, val: 10}
		}
		return []porcupine.Operation{
			op(2, input{kind: 'p', key: 0, val: 10}, output{ok: true}, 1, 2),
			op(2, input{kind: 'p', key: 1, val: 20}, output{ok: true}, 3, 4),
			op(0, input{kind: 'g', key: 0}, g, 5, 8),
			op(1, input{kind: 'p', key: 2, val: 30}, output{ok: true, ev: []kv{victim}}, 6, 7),
		}
	}
	// the licence of known finding F2: seven entries, a Remove, then a Get that hits (the history is no longer
	// settled), then a Put whose victim is not the least recently used entry - accepted for cache.LRU() only,
	// and only with that Get
	f2 := func(withGet bool) []porcupine.Operation {
		var h []porcupine.Operation
		t := int64(0)
		add := func(in input, out output) { h = append(h, op(0, in, out, t+1, t+2)); t += 2 }
		for k := 0; k < 7; k++ {
			add(input{kind: 'p', key: k, val: 10 + k}, output{ok: true})
		}
		add(input{kind: 'r', key: 3}, output{ok: true, ev: []kv{{3, 13}}})
		if withGet {
			add(input{kind: 'g', key: 4}, output{ok: true, val: 14})
		}
		add(input{kind: 'p', key: 7, val: 17}, output{ok: true})
		add(input{kind: 'p', key: 8, val: 18}, output{ok: true, ev: []kv{{1, 11}}})
		return h
	}
	m7 := model(config{limit: 7, keys: 9})
	m7own := model(config{limit: 7, keys: 9, store: 1})
	ok := porcupine.CheckOperations(m, h1) && !porcupine.CheckOperations(m, h2) && !porcupine.CheckOperations(m, h3) && porcupine.CheckOperations(m, h4) &&
		!porcupine.CheckOperations(m, h5) && porcupine.CheckOperations(m, h6) && !porcupine.CheckOperations(m, h7) &&
		!porcupine.CheckOperations(m, getPut(true, kv{0, 10})) && porcupine.CheckOperations(m, getPut(true, kv{1, 20})) &&
		porcupine.CheckOperations(m, getPut(false, kv{0, 10})) && !porcupine.CheckOperations(m, getPut(false, kv{1, 20})) &&
		porcupine.CheckOperations(m7, f2(true)) && !porcupine.CheckOperations(m7, f2(false)) && !porcupine.CheckOperations(m7own, f2(true))
	// the direct checks: a second report of a departed entry, a negative Len
	hist := []rec{
		{g: 0, in: input{kind: 'p', key: 0, val: 10}, out: output{ok: true}, call: 1, ret: 2},
		{g: 0, in: input{kind: 'r', key: 0}, out: output{ok: true, ev: []kv{{0, 10}}}, call: 3, ret: 4},
		{g: 0, in: input{kind: 'l'}, out: output{n: -1}, call: 5, ret: 6},
	}
	rs, _, _ := check(c, hist, []kv{{0, 10}, {0, 10}}, time.Second)
	has := func(x string) bool {
		for _, r := range rs {
			if r == x {
				return true
			}
		}
		return false
	}
	return ok && has("callback-twice") && has("len-negative") && has("callback-outside-any-call") && has("not-linearizable")
}

func main() {
	seed := flag.Uint64("seed", 1, "seed")
	runs := flag.Int("runs", 100, "histories at most")
	minRuns := flag.Int("minruns", 10, "histories at least (whatever the budget)")
	budget := flag.Float64("budget", 0, "seconds after which no further history is started (0 = none)")
	mode := flag.Int("mode", 0, "0 random workload, 1 contended same-key phases, 2 readers against evicting Put/Clear/Remove, 3 staged (handshake through the hooks), 4 pollers against one writer (big caches, exactly-filling Puts), 5 handoff (the mutex in starvation mode: every Unlock inside a call lets a prober in)")
	procs := flag.Int("procs", 0, "GOMAXPROCS (0 = leave)")
	gor := flag.Int("goroutines", 0, "goroutines (0 = 2..4)")
	nops := flag.Int("ops", 0, "random: calls per goroutine (0 = 5..9); duel: phases (0 = 4..8)")
	keys := flag.Int("keys", 0, "key space (0 = 2..5; duel 1..2)")
	replay := flag.String("replay", "", "configuration to re-run")
	verbose := flag.Bool("v", false, "dump failing histories")
	quiet := flag.Bool("q", false, "no CUR lines")
	emit := flag.String("emitlin", "", "append linearizations of sampled histories to this file (for bin/incoq-cacheconc)")
	emitN := flag.Int("emitn", 100, "number of linearizations to emit")
	emitEvery := flag.Int("emitevery", 7, "sample every n-th history")
	maxN := flag.Int("maxn", 300, "entries at most in the big caches of modes 3 and 4")
	storeFlag := flag.Int("store", -1, "0 cache.LRU(), 1 the harness's listStore through Config.WithStore (gates inside Check/Access/Store/Remove/Evict), -1 both (drawn per history)")
	st := flag.Bool("selftest", false, "check the checker")
	flag.Parse()
	if *st {
		if selftest() {
			fmt.Println("SELFTEST PASS")
			return
		}
		fmt.Println("SELFTEST FAIL")
		os.Exit(2)
	}
	if *procs > 0 {
		runtime.GOMAXPROCS(*procs)
	}
	var fixed *config
	if *replay != "" {
		c, err := parseConfig(*replay)
		if err != nil {
			fmt.Println("bad -replay:", err)
			os.Exit(2)
		}
		if c.procs > 0 {
			runtime.GOMAXPROCS(c.procs)
		}
		fixed = &c
	}
	r := newRng(*seed*31 + uint64(*mode))
	var nextLRU func(i int) config
	// which Store the cache of history i runs on is drawn from a generator of its own, so that the other
	// fields of configuration i are what they were before there was a choice (corpus.cfg names such runs)
	next := func(i int) config {
		c := nextLRU(i)
		if fixed == nil {
			c.store = *storeFlag
			if c.store < 0 {
				c.store = newRng(*seed*1000033 + uint64(*mode)*8191 + uint64(i)*131 + 5).intn(2)
			}
		}
		return c
	}
	nextLRU = func(i int) config {
		if fixed != nil {
			return *fixed
		}
		c := config{mode: *mode, seed: *seed, run: i, procs: runtime.GOMAXPROCS(0), g: *gor, ops: *nops, keys: *keys}
		if c.g == 0 {
			c.g = 2 + r.intn(3)
		}
		if c.mode == 1 {
			if c.ops == 0 {
				c.ops = 4 + r.intn(5)
			}
			if c.keys == 0 {
				c.keys = 1 + r.intn(2)
			}
			c.limit = int64(1 + r.intn(3))
		} else if c.mode == 2 {
			if c.ops == 0 {
				c.ops = 4 + r.intn(5)
			}
			c.limit = int64(1 + r.intn(3))
			if c.keys == 0 {
				c.keys = int(c.limit) + r.intn(2)
			}
		} else if c.mode == 3 {
			if *gor == 0 {
				c.g = 2 + r.intn(2)
			}
			if c.ops == 0 {
				c.ops = 3 + r.intn(4)
			}
			c.limit = int64(1 + r.intn(4))
			big := r.intn(3) == 0
			if big {
				// more than 64 entries: Clear and Puts with many victims, stopped after k evictions
				c.limit = int64(bigN(r, *maxN))
				if *nops == 0 {
					c.ops = 1 + r.intn(3)
				}
			}
			if c.keys == 0 {
				c.keys = int(c.limit) + 2
			}
			if big {
				if r.intn(2) == 0 {
					c.sizeMd = int(c.limit) + 1
				}
				return c
			}
		} else if c.mode == 5 {
			// A, 1..3 probers and the helper; small caches; sizes 1 or v mod (limit+2) (0 = no size, limit = fills exactly, limit+1 = refused)
			if *gor == 0 {
				c.g = 2 + r.intn(3)
			}
			if c.ops == 0 {
				c.ops = 3 + r.intn(4)
			}
			c.limit = int64(1 + r.intn(5))
			if c.keys == 0 {
				c.keys = int(c.limit) + 1
			}
			if r.intn(3) != 0 {
				c.sizeMd = int(c.limit) + 2
			}
			return c
		} else if c.mode == 4 {
			// one writer, 1..3 pollers; the cache holds `keys` entries when a round's racing calls start:
			// 2..6 (many rounds) or 65..300 (few rounds); sizes 1, or v mod (limit+1) so that one value fills the limit
			if *gor == 0 {
				c.g = 2 + r.intn(3)
			}
			small := r.intn(2) == 0
			if c.keys == 0 {
				if small {
					c.keys = 2 + r.intn(5)
				} else {
					c.keys = bigN(r, *maxN)
				}
			}
			if c.ops == 0 {
				if c.keys <= 8 {
					c.ops = 4 + r.intn(8)
				} else {
					c.ops = 1 + r.intn(2)
				}
			}
			c.limit = int64(c.keys)
			if r.intn(3) != 0 {
				c.sizeMd = int(c.limit) + 1
			}
			return c
		} else {
			if c.ops == 0 {
				c.ops = 5 + r.intn(5)
			}
			if c.keys == 0 {
				c.keys = 2 + r.intn(4)
			}
			c.limit = int64(1 + r.intn(6))
		}
		if r.intn(2) == 0 {
			c.sizeMd = 3
		}
		return c
	}
	go watchdog()
	t0 := time.Now()
	done, fails, totalOps, overlaps, nonlin, inconcl, emitted, ownStore := 0, 0, 0, 0, 0, 0, 0, 0
	failed := map[string]bool{}
	for i := 0; i < *runs; i++ {
		if i >= *minRuns && *budget > 0 && time.Since(t0).Seconds() > *budget {
			break
		}
		c := next(i)
		curCfg.Store(c.String())
		if !*quiet {
			fmt.Printf("CUR %s\n", c)
		}
		hist, global, reasons, detail := execute(c)
		done++
		if c.store != 0 {
			ownStore++
		}
		totalOps += len(hist)
		more, ov, inc := check(c, hist, global, 5*time.Second)
		reasons = dedup(append(reasons, more...))
		overlaps += ov
		if inc {
			inconcl++
		}
		if *emit != "" && emitted < *emitN && len(reasons) == 0 && !inc && i%*emitEvery == 0 {
			if l := linearLine(c, hist); l != "" {
				if f, err := os.OpenFile(*emit, os.O_APPEND|os.O_CREATE|os.O_WRONLY, 0o644); err == nil {
					fmt.Fprintln(f, l)
					f.Close()
					emitted++
				}
			}
		}
		for _, why := range reasons {
			fails++
			if why == "not-linearizable" {
				nonlin++
			}
			// one line per distinct reason is enough for the report
			if !failed[why] || *verbose {
				fmt.Printf("FAIL input=%s reason=%s\n", c, why)
			}
			failed[why] = true
		}
		if len(reasons) > 0 && *verbose {
			for _, d := range detail {
				fmt.Fprintln(os.Stderr, "  "+d)
			}
			dump(hist)
		}
	}
	fmt.Printf("STATS mode=%d runs=%d ops=%d fails=%d nonlinearizable=%d inconclusive=%d nonLRUVictims=%d overlaps=%d procs=%d wall=%.1f contended=%s gates=%d probesInside=%d gaveUp=%d handoffActs=%d handoffArmed=%d ownStoreRuns=%d storeGates=%d\n",
		modeOf(fixed, *mode), done, totalOps, fails, nonlin, inconcl, atomic.LoadInt64(&nonLRU), overlaps, runtime.GOMAXPROCS(0), time.Since(t0).Seconds(), tagString(),
		atomic.LoadInt64(&gateFired), atomic.LoadInt64(&gateProbesInside), atomic.LoadInt64(&gateGaveUp), atomic.LoadInt64(&handActs), atomic.LoadInt64(&handArmed),
		ownStore, atomic.LoadInt64(&storeGateFired))
	if fails > 0 {
		os.Exit(1)
	}
}
