// Round 6: independence across re-use (ROUND6_GUIDE.md class 3) -- the parts of the statistical
// step that look at MORE than the mean of independent fresh counters:
//
//   - runs separated by Reset on ONE counter (a fresh counter serves a block of `reset` runs), also
//     with the counter used on another stream of varying length between two runs ("dirty");
//   - the (Len, Count) trajectory of every run of a configuration, compared with every other run's:
//     two independent runs follow the same trajectory only with a probability that is computed
//     exactly here (collisionProb), so "identical more often than chance allows" is an assertion
//     with a proven false-alarm bound, not an estimate;
//   - several thousand fresh counters constructed in one process whose trajectories must all differ
//     (a repeated seed -- a pool of 128, 1024, 65536 seeds, a clock with a coarse tick -- shows as two
//     identical trajectories).
//
// The trajectory of a run on a stream of n DISTINCT values (each added once) is the sequence
// (Len, Count) after every Add.  With ideal coins the pair (Len, k) is a Markov chain (an Add of a
// fresh value wins its coin with probability 2^-k and then, if Len+1 >= size, a pass keeps each
// of the Len+1 buffered values with probability 1/2 and k grows by one; a lost coin leaves the
// state alone; this is the pinned single-pass code, finding F8 included) and the observed
// trajectory determines the path of the chain (a pass shows as Len >= size, a drop of Len, or an
// unchanged positive Len with a doubled Count/Len ratio).  So for two independent runs
//
//	pi = P(same trajectory) = sum over paths P(path)^2
//
// is computed by dynamic programming over the diagonal of the pair chain:
// D'(t) = sum_s D(s) * P(s -> t)^2.  The real coin wins with probability 2^-k - 2^-64 instead of
// 2^-k (Coq: C19_real_coin_gap); that moves pi by a relative 1e-15 at most per Add: the bound used
// is 1.001 * pi.
//
// Assertions (each with the budget trajBudget, at most trajAsserts of them, so that together they
// stay below 1e-11):
//
//	all pairs   N runs, N(N-1)/2 pairs: P(any identical pair) <= pairs * pi (union bound).  Where
//	            that is below the budget: NO two runs of the configuration may coincide, whether
//	            they ran on one counter or on different ones.
//	lag L       inside every block of Reset-separated runs the disjoint pairs (i, i+L): these M
//	            pairs are independent under independence of the runs, so the number X of identical
//	            ones is Binomial(M, pi): the threshold t is the smallest with
//	            P(X >= t) <= min(M*pi [t = 1], exp(-M*KL(t/M || pi))) <= budget (Chernoff), and
//	            X < t is asserted.  This also works for tiny buffers, where two honest runs
//	            coincide every so often.  Lags 1, 2, 3, 5, 8: a replay of the stream after every
//	            Reset, after every other one, ...
package main

import (
	"crypto/sha256"
	"encoding/binary"
	"hash"
	"math"
	"strconv"
)

const (
	trajBudget  = 2e-14 // per trajectory assertion
	trajAsserts = 400   // at most this many of them in one run of the step: 400 * 2e-14 = 8e-12
)

var trajLags = []int{1, 2, 3, 5, 8}

// lbinom: log of C(n, s) / 2^n.
func lbinom(n, s int) float64 {
	a, _ := math.Lgamma(float64(n + 1))
	b, _ := math.Lgamma(float64(s + 1))
	c, _ := math.Lgamma(float64(n - s + 1))
	return a - b - c - float64(n)*math.Ln2
}

// collisionProb: the probability that two independent runs of a counter of the given size on a
// stream of n distinct values (ideal coins) show the same (Len, Count) after every Add.
func collisionProb(size, n int) float64 {
	const kMax = 66
	lMax := size + 8 // Len above size+8 (finding F8 several times over): lumped into `over`, an upper bound
	cur := make([][]float64, lMax+1)
	nxt := make([][]float64, lMax+1)
	for l := range cur {
		cur[l] = make([]float64, kMax+1)
		nxt[l] = make([]float64, kMax+1)
	}
	cur[0][0] = 1
	over := 0.0
	// squared pass probabilities per buffer length, computed on demand
	passSq := map[int][]float64{}
	sq := func(m int) []float64 {
		if v, ok := passSq[m]; ok {
			return v
		}
		v := make([]float64, m+1)
		for s := 0; s <= m; s++ {
			v[s] = math.Exp(2 * lbinom(m, s))
		}
		passSq[m] = v
		return v
	}
	for step := 0; step < n; step++ {
		for l := range nxt {
			for k := range nxt[l] {
				nxt[l][k] = 0
			}
		}
		for l := 0; l <= lMax; l++ {
			for k := 0; k <= kMax; k++ {
				m := cur[l][k]
				if m == 0 {
					continue
				}
				pc := 0.0
				if k < 64 {
					pc = math.Ldexp(1, -k)
				}
				if pc < 1 {
					nxt[l][k] += m * (1 - pc) * (1 - pc)
				}
				if pc == 0 {
					continue
				}
				l1 := l + 1
				if l1 < size {
					nxt[l1][k] += m * pc * pc
					continue
				}
				k1 := min(k+1, kMax)
				for s, q := range sq(l1) {
					if s > lMax {
						over += m * pc * pc * q
					} else {
						nxt[s][k1] += m * pc * pc * q
					}
				}
			}
		}
		cur, nxt = nxt, cur
	}
	pi := over
	for l := range cur {
		for _, m := range cur[l] {
			pi += m
		}
	}
	return math.Min(1, math.Max(pi, 1e-300))
}

// binomThreshold: the smallest t >= 1 with P(Binomial(m, p) >= t) <= budget by the bounds named
// above; m+1 if there is none (the assertion has no power: it is then not made).
func binomThreshold(m int, p, budget float64) int {
	if float64(m)*p <= budget {
		return 1
	}
	if p >= 1 {
		return m + 1
	}
	for t := 1; t <= m; t++ {
		a := float64(t) / float64(m)
		if a <= p {
			continue
		}
		kl := a * math.Log(a/p)
		if a < 1 {
			kl += (1 - a) * math.Log((1-a)/(1-p))
		}
		if math.Exp(-float64(m)*kl) <= budget {
			return t
		}
	}
	return m + 1
}

// trajHash: SHA-256 over the (Len, Count) pairs of one run.
type trajHash struct {
	h   hash.Hash
	buf [16]byte
}

func newTrajHash() *trajHash { return &trajHash{h: sha256.New()} }

func (t *trajHash) add(length int, count uint64) {
	binary.LittleEndian.PutUint64(t.buf[:8], uint64(length))
	binary.LittleEndian.PutUint64(t.buf[8:], count)
	t.h.Write(t.buf[:])
}

func (t *trajHash) sum() (out [32]byte) {
	t.h.Sum(out[:0])
	t.h.Reset()
	return out
}

type trajAssertion struct {
	name      string // "all-pairs" or "lag-L"
	pairs     int
	identical int
	threshold int     // identical must stay below it; pairs+1 = not asserted (no power at this budget)
	bound     float64 // proven bound for the chance of a false alarm of this assertion
	ok        bool
}

// trajectoryTests: keys[i] = the trajectory of run i; reset > 0: runs i with the same i/reset ran
// on one counter.
func trajectoryTests(keys [][32]byte, reset int, pi float64) []trajAssertion {
	p := math.Min(1, 1.001*pi)
	var out []trajAssertion
	n := len(keys)
	groups := map[[32]byte]int{}
	for _, k := range keys {
		groups[k]++
	}
	same := 0
	for _, g := range groups {
		same += g * (g - 1) / 2
	}
	pairs := n * (n - 1) / 2
	a := trajAssertion{name: "all-pairs", pairs: pairs, identical: same, threshold: pairs + 1, ok: true}
	if ub := float64(pairs) * p; ub <= trajBudget {
		a.threshold, a.bound = 1, ub
		a.ok = same == 0
	}
	out = append(out, a)
	if reset <= 0 {
		return out
	}
	for _, lag := range trajLags {
		m, x := 0, 0
		for b := 0; b+reset <= n; b += reset {
			for b0 := 0; b0+2*lag <= reset; b0 += 2 * lag {
				for j := 0; j < lag; j++ {
					m++
					if keys[b+b0+j] == keys[b+b0+j+lag] {
						x++
					}
				}
			}
		}
		if m == 0 {
			continue
		}
		t := binomThreshold(m, p, trajBudget)
		a := trajAssertion{name: "lag-" + strconv.Itoa(lag), pairs: m, identical: x, threshold: t, ok: true}
		if t <= m {
			a.bound = trajBudget
			if t == 1 {
				a.bound = math.Min(trajBudget, float64(m)*p)
			}
			a.ok = x < t
		}
		out = append(out, a)
	}
	return out
}

// resetConfigs: the configurations of this round (scale = 1 quick, 8 thorough: more blocks / more
// fresh counters, the block length stays).
func resetConfigs(scale int) []statCfg {
	var c []statCfg
	blocks := func(cp, d, rep, k, r int, dirty, traj bool) {
		c = append(c, statCfg{cp: cp, d: d, rep: rep, runs: k * scale * r, reset: r, dirty: dirty, traj: traj})
	}
	// (a) Reset-separated runs, distinct-only streams, trajectories compared
	blocks(32, 1000, 1, 10, 400, false, true) // (the shape of the seed's own demonstration)
	blocks(32, 1000, 1, 5, 200, true, true)
	blocks(8, 400, 1, 10, 400, false, true)
	blocks(64, 1000, 1, 5, 200, false, true)
	blocks(257, 2570, 1, 12, 200, false, true)
	// tiny buffers, deep thresholds (k about 9): what a Reset must undo is far from the initial state
	blocks(2, 1024, 1, 60, 400, false, true)
	blocks(3, 1536, 1, 120, 200, true, true) // (the tolerance of the mean needs about 2.5 * 10^4 runs at this skewness)
	// tiny buffers, short streams: honest runs coincide every so often; the lag assertions count
	blocks(2, 8, 1, 50, 400, false, true)
	blocks(4, 64, 1, 50, 400, true, true)
	blocks(5, 20, 1, 50, 400, false, true)
	// (b) Reset-separated runs on streams with repeats: the mean (no trajectory model with repeats)
	blocks(4, 16, 3, 50, 400, false, false)
	blocks(8, 240, 3, 25, 400, true, false)
	blocks(32, 1000, 3, 10, 400, false, false)
	// (c) many fresh counters in one process: every trajectory differs from every other
	c = append(c, statCfg{cp: 32, d: 1000, rep: 1, runs: 6000 * scale, traj: true},
		statCfg{cp: 8, d: 400, rep: 1, runs: 4000 * scale, traj: true},
		statCfg{cp: 64, d: 1000, rep: 1, runs: 2000 * scale, traj: true})
	return c
}
