// Command distincttrace drives distinct.Counter of the working tree through a scripted random
// source (hook NewCounterWithSource) and records what it shows after every operation.
//
//	H <cap> <words> <oracles> <ops> | <len>:<count>:<p>:<words drawn by the operation>;... B=<sorted buffer>
//
// words    the 64-bit words the source returns, in order (decimal, comma separated, "." = none);
//
//	if the script runs out the case ends with ERR=nowords
//
// oracles  <op index>:<sorted buffer after that Add>, ';'-separated, one for every Add during
//
//	which a halving pass ran (it drew words beyond its coin word, or the threshold moved) ("." = none, "-" = empty buffer).  Go's map order decides
//	WHICH elements a halving pass drops; that is not observable and not predictable, so it
//	is handed to the model as an oracle (validated there).  Because the map order differs
//	from run to run, this field is always rewritten from the run at hand — in a replay the
//	oracles found in the input are ignored and regenerated.
//
// ops      a<int> = Add, r = Reset, comma separated
//
// Round 3 adds the SCALE lines (generators and the compact syntax in scale.go):
//
//	S <cap> <words> <oracles> <ops> | <record or run>;...  B=<sorted buffer | #<n>:<digest>>
//
// words    as above, and the LAST item may be g<seed>:<n> = the n words splitmix64(seed, 0..n-1)
//
//	(n is what the run at hand consumed: rewritten like the oracles)
//
// ops      as above, and a<lo>~<hi> = Add lo, lo+1, ... hi-1; z<seed>~<count>~<U>[~<base>] = count Adds of
//
//	pseudo-random values in [base, base+U) (a 31-bit linear congruential generator)
//
// output   the same record per operation, but a record that follows from the one before it (same
//
//	threshold, Count = Len << leading zeros of the threshold, Len moved by -1, 0 or +1, 0 or 1
//	words drawn) is written as ONE letter a..f = 'a' + 2*(dLen+1) + words, runs of such letters
//	form one token *<letters>, a letter repeated n >= 3 times is <letter><n>; a final buffer of
//	more than 64 values is printed as #<n>:<digest of the sorted values>.  The driver decodes
//	this back into one record per operation and checks every one of them.
//
// Round 7: Z lines = distinct.BufferSize(ε, δ, expSize), see bufsize.go.
//
// With -stat it runs the statistical supporting step instead (real NewCounter, fresh entropy): the mean
// of Count over independent fresh counters and, since round 6 (stat6.go), over runs separated by Reset
// on one counter, and the (Len, Count) trajectories of runs compared with each other against the
// exactly computed chance that two independent runs coincide.
//
// The scripted source goes in through the hook NewCounterWithSource (the real NewCounter, then the
// source replaced).  If the counter's source field cannot hold a scripted source any more the hook
// returns nil and this command exits 3: no trace line can be produced, -stat still runs.
package main

import (
	"encoding/json"
	"fmt"
	"math"
	"os"
	"sort"
	"strconv"
	"strings"
	"sync"
	"time"

	"github.com/creachadair/mds/distinct"
	"verif/harness/internal/tr"
)

// ---- scripted / generating source

type noWords struct{}

// source returns the scripted words first; when they run out it either panics (replay) or asks
// the policy for more (generation).  Every word handed out is recorded.
type source struct {
	script []uint64
	pos    int
	gen    func(first bool, p uint64) uint64 // nil: scripted only; p = the threshold before the current Add
	curP   uint64
	first  bool // the next word is the first one drawn by the current Add
	inAdd  int  // words drawn by the current Add
	used   []uint64
	// scale lines: after the script the words splitmix64(gseed, 0), splitmix64(gseed, 1), ...
	hasG  bool
	gseed uint64
	gused int
	drawn int // words handed out so far (the generated ones are not remembered in used)
}

func (s *source) Uint64() uint64 {
	var w uint64
	if s.pos < len(s.script) {
		w = s.script[s.pos]
		s.pos++
	} else if s.hasG {
		w = genWord(s.gseed, uint64(s.gused))
		s.gused++
		s.first = false
		s.inAdd++
		s.drawn++
		return w
	} else if s.gen != nil {
		w = s.gen(s.first, s.curP)
		if s.inAdd > 100 {
			// a repaired (looping) Add under an all-keep policy would spin forever: after 100 words
			// within one Add switch to alternating words, which halve the buffer under either polarity
			w = altA
		}
	} else {
		panic(noWords{})
	}
	s.first = false
	s.inAdd++
	s.drawn++
	s.used = append(s.used, w)
	return w
}

type op struct {
	add bool
	v   int
}

func parseOps(s string) []op {
	if s == "." || s == "" {
		return nil
	}
	var out []op
	for _, f := range strings.Split(s, ",") {
		if f == "r" {
			out = append(out, op{})
		} else if strings.Contains(f, "~") {
			out = append(out, expandRun(f)...)
		} else if strings.HasPrefix(f, "a") {
			n, err := strconv.Atoi(f[1:])
			if err != nil {
				panic("bad op " + f)
			}
			out = append(out, op{true, n})
		} else if f != "" {
			panic("bad op " + f)
		}
	}
	return out
}

func fmtOps(ops []op) string {
	if len(ops) == 0 {
		return "."
	}
	parts := make([]string, len(ops))
	for i, o := range ops {
		if o.add {
			parts[i] = "a" + strconv.Itoa(o.v)
		} else {
			parts[i] = "r"
		}
	}
	return strings.Join(parts, ",")
}

func parseWords(s string) []uint64 {
	if s == "." || s == "" {
		return nil
	}
	var out []uint64
	for _, f := range strings.Split(s, ",") {
		n, err := strconv.ParseUint(f, 10, 64)
		if err != nil {
			panic("bad word " + f)
		}
		out = append(out, n)
	}
	return out
}

func fmtWords(ws []uint64) string {
	if len(ws) == 0 {
		return "."
	}
	parts := make([]string, len(ws))
	for i, w := range ws {
		parts[i] = strconv.FormatUint(w, 10)
	}
	return strings.Join(parts, ",")
}

func sortedBuf(c *distinct.Counter[int]) string {
	b := c.VerifBuf()
	sort.Ints(b)
	if len(b) == 0 {
		return "-"
	}
	return tr.Ints(b)
}

type info struct {
	halved, stuck, exceeded, removedSeen, k64, multiword, reset, repeat bool
	maxLen, passes                                                      int
}

// runCase drives the real counter.  It returns the oracle field, the output and what happened.
func runCase(cp int, ops []op, src *source) (oracles, output string, inf info) {
	return runCaseK(false, cp, ops, src)
}

// runCaseK: compact = the output syntax of the scale lines.
func runCaseK(compact bool, cp int, ops []op, src *source) (oracles, output string, inf info) {
	c := distinct.NewCounterWithSource[int](cp, src)
	var recs []record
	var orc []string
	seen := map[int]bool{}
	failed := ""
	for i, o := range ops {
		drawn := src.drawn
		if !o.add {
			c.Reset()
			inf.reset = true
			seen = map[int]bool{}
		} else {
			if seen[o.v] {
				inf.repeat = true
			}
			seen[o.v] = true
			p0, l0 := c.VerifP(), c.Len()
			// a coin word is drawn only when the threshold is below its maximum; otherwise the
			// first word drawn by this Add already feeds the pass
			src.first = p0 != math.MaxUint64
			src.curP = p0
			src.inAdd = 0
			nw := src.drawn
			func() {
				defer func() {
					if r := recover(); r != nil {
						if _, ok := r.(noWords); ok {
							failed = "nowords"
							return
						}
						failed = "panic:" + tr.PanicKind(r)
					}
				}()
				c.Add(o.v)
			}()
			if failed != "" {
				break
			}
			// a halving pass ran iff the Add drew words beyond its coin word (the threshold itself
			// does not move any more once it is 0)
			coinWords := 0
			if p0 != math.MaxUint64 {
				coinWords = 1
			}
			if src.drawn-nw > coinWords || c.VerifP() != p0 {
				inf.halved = true
				inf.passes++
				orc = append(orc, strconv.Itoa(i)+":"+sortedBuf(c))
				if c.Len() >= l0+1 || (c.Len() == l0 && l0 >= cp && cp > 0) {
					inf.stuck = true
				}
				if src.drawn-nw > 2 {
					inf.multiword = true
				}
			} else if c.Len() < l0 {
				inf.removedSeen = true
			}
			if c.VerifP() == 0 {
				inf.k64 = true
			}
		}
		if c.Len() > cp {
			inf.exceeded = true
		}
		inf.maxLen = max(inf.maxLen, c.Len())
		var cnt uint64
		if pk := tr.Catch(func() { cnt = c.Count() }); pk != "" {
			failed = pk
			break
		}
		recs = append(recs, record{c.Len(), cnt, c.VerifP(), src.drawn - drawn})
	}
	out := fmtRecords(recs, compact)
	if failed != "" {
		out += " ERR=" + failed
	} else if b := c.VerifBuf(); compact && len(b) > digestOver {
		sort.Ints(b)
		out += " B=#" + strconv.Itoa(len(b)) + ":" + digest(b)
	} else {
		out += " B=" + sortedBuf(c)
	}
	o := "."
	if len(orc) > 0 {
		o = strings.Join(orc, ";")
	}
	return o, out, inf
}

func (inf info) tags(cp int) (bool, []string) {
	var t []string
	add := func(b bool, s string) {
		if b {
			t = append(t, s)
		}
	}
	add(inf.halved, "halved")
	add(!inf.halved, "exact-regime-only")
	add(inf.stuck, "pass-dropped-nothing")
	add(inf.exceeded, "len-exceeds-cap")
	add(inf.removedSeen, "failed-coin-removed-reseen")
	add(inf.k64, "threshold-zero")
	add(inf.multiword, "pass-over-64-elements")
	add(inf.reset, "reset")
	add(inf.repeat, "repeats")
	return inf.halved || inf.repeat, t
}

// replay: one input line; oracles are regenerated.
func replayLine(w *tr.W, in string) {
	f := strings.Fields(in)
	if len(f) >= 5 && f[0] == "S" {
		replayScale(w, f)
		return
	}
	if len(f) >= 1 && f[0] == "Z" { // BufferSize (bufsize.go)
		w.Case(in, runZ(f), true, "replayed")
		return
	}
	if len(f) < 5 || f[0] != "H" {
		w.Case(in, "?", false, "bad-input")
		return
	}
	cp, _ := strconv.Atoi(f[1])
	src := &source{script: parseWords(f[2])}
	ops := parseOps(f[4])
	orc, out, inf := runCase(cp, ops, src)
	_, tags := inf.tags(cp)
	w.Case("H "+f[1]+" "+f[2]+" "+orc+" "+f[4], out, true, append(tags, "replayed")...)
}

// ---- generation

const (
	allOnes = math.MaxUint64
	altA    = 0xAAAAAAAAAAAAAAAA
	alt5    = 0x5555555555555555
)

type policy struct {
	name string
	gen  func(first bool, p uint64) uint64
}

// coin word policies × pass word policies.  The first word of an Add (when the threshold is below
// its maximum) is the coin word; all later ones feed the halving pass.
func mkPolicy(r *tr.Rand, coin, pass int) policy {
	coinW := func(p uint64) uint64 {
		switch coin {
		case 5:
			// the boundary of the coin: threshold-1 wins, threshold and threshold+1 lose
			return p + uint64(r.Intn(3)) - 1
		case 0:
			return 0 // always passes (unless the threshold is 0)
		case 1:
			return allOnes // always fails
		case 2:
			if r.Bool() {
				return 0
			}
			return allOnes
		case 3:
			return r.Uint64() >> uint(r.Intn(8)) // passes about as often as a shallow threshold lets it
		default:
			return r.Uint64()
		}
	}
	passW := func() uint64 {
		switch pass {
		case 0:
			return allOnes // keep everything
		case 1:
			return 0 // drop everything
		case 2:
			return altA
		case 3:
			return alt5
		case 4:
			return r.Uint64() | r.Uint64() | r.Uint64() // mostly keep
		case 5:
			return r.Uint64() & r.Uint64() & r.Uint64() // mostly drop
		default:
			return r.Uint64()
		}
	}
	return policy{fmt.Sprintf("c%dp%d", coin, pass), func(first bool, p uint64) uint64 {
		if first {
			return coinW(p)
		}
		return passW()
	}}
}

type gen struct {
	o    *tr.Opts
	r    *tr.Rand
	w    *tr.W
	hung bool
}

func (g *gen) emit(cp int, ops []op, pol policy, pre []uint64, extra ...string) info {
	src := &source{script: pre, gen: pol.gen}
	var orc, out string
	var inf info
	if cp <= 0 {
		// With a size <= 0 the halving condition Len >= size is always true.  The pinned code runs one
		// pass and goes on; a repaired (looping) Add never returns, not even drawing words once the
		// buffer is empty.  Run these cases under a watchdog; after the first hang skip the family.
		if g.hung {
			g.w.Count("size<=0-skipped-after-hang", 1)
			return inf
		}
		done := make(chan struct{})
		go func() {
			orc, out, inf = runCase(cp, ops, src)
			close(done)
		}()
		select {
		case <-done:
		case <-time.After(3 * time.Second):
			g.hung = true
			g.w.Count("size<=0-hang", 1)
			return info{}
		}
	} else {
		orc, out, inf = runCase(cp, ops, src)
	}
	nt, tags := inf.tags(cp)
	g.w.Case("H "+strconv.Itoa(cp)+" "+fmtWords(src.used)+" "+orc+" "+fmtOps(ops), out, nt, append(tags, extra...)...)
	return inf
}

// stream with repeats: d distinct values, each repeated 1..rep times, interleaved.
func stream(r *tr.Rand, d, rep int, base int) []op {
	var vs []int
	for i := 0; i < d; i++ {
		n := 1 + r.Intn(rep)
		for j := 0; j < n; j++ {
			vs = append(vs, base+i)
		}
	}
	// Fisher-Yates, but keep a bias towards early first appearances so the buffer fills gradually
	for i := len(vs) - 1; i > 0; i-- {
		j := r.Intn(i + 1)
		vs[i], vs[j] = vs[j], vs[i]
	}
	ops := make([]op, len(vs))
	for i, v := range vs {
		ops[i] = op{true, v}
	}
	return ops
}

func (g *gen) run() {
	r := g.r
	// 1. exhaustive small scope: every stream over {0,1,2} up to length 4 (quick) / 6 (thorough),
	//    caps 1..3, every coin policy 0..2 x pass policy 0..3
	maxLen := g.o.Scale(4, 6)
	var rec func(cur []op)
	rec = func(cur []op) {
		for cp := 1; cp <= 3; cp++ {
			for coin := 0; coin <= 2; coin++ {
				for pass := 0; pass <= 3; pass++ {
					g.emit(cp, cur, mkPolicy(r, coin, pass), nil, "exhaustive-small")
				}
			}
		}
		if len(cur) == maxLen {
			return
		}
		for v := 0; v < 3; v++ {
			rec(append(cur[:len(cur):len(cur)], op{true, v}))
		}
	}
	rec(nil)

	// 2. the F8 family: fill a buffer of size c, the pass keeps everything, keep adding
	for cp := 2; cp <= 8; cp++ {
		var ops []op
		for i := 0; i < cp+3; i++ {
			ops = append(ops, op{true, i})
		}
		g.emit(cp, ops, mkPolicy(r, 0, 0), nil, "f8-family")
		ops = append(ops, op{}, op{true, 1}, op{true, 1}, op{true, 2})
		g.emit(cp, ops, mkPolicy(r, 0, 0), nil, "f8-family")
	}

	// 3. deep thresholds: the coin always passes and the pass drops everything, so every Add halves
	for _, cp := range []int{0, 1, 2} {
		var ops []op
		for i := 0; i < 70*max(cp, 1); i++ {
			ops = append(ops, op{true, i % 5})
		}
		ops = append(ops, op{}, op{true, 3})
		g.emit(cp, ops, mkPolicy(r, 0, 1), nil, "deep-threshold")
		g.emit(cp, ops, mkPolicy(r, 0, 2), nil, "deep-threshold")
	}

	// 4. random histories
	n := g.o.Scale(12000, 200000)
	for i := 0; i < n; i++ {
		cp := 1 + r.Intn(8)
		switch {
		case r.Chance(1, 12):
			cp = 9 + r.Intn(32)
		case r.Chance(1, 60):
			cp = 64 + r.Intn(140) // passes over more than 64 elements need a refill
		case r.Chance(1, 200):
			cp = -r.Intn(2) // 0 or -1: every successful Add halves
		}
		var d int
		c1 := max(cp, 1)
		switch r.Intn(5) {
		case 0:
			d = r.Intn(c1) // below the size
		case 1:
			d = c1 + r.Intn(2) // at the size
		case 2:
			d = c1 + 1 + r.Intn(3*c1)
		default:
			d = c1 * (2 + r.Intn(8)) // far above
		}
		if cp >= 64 {
			d = min(d, 3*cp)
		}
		ops := stream(r, d, 1+r.Intn(4), r.Intn(3))
		if r.Chance(1, 4) && len(ops) > 0 {
			// a Reset somewhere, then a short tail that re-enters the exact regime
			at := r.Intn(len(ops) + 1)
			tail := stream(r, r.Intn(c1+2), 1+r.Intn(3), 0)
			ops = append(append(append([]op{}, ops[:at]...), op{}), append(tail, ops[at:]...)...)
		}
		coin := r.Intn(7)
		pass := r.Intn(8)
		g.emit(cp, ops, mkPolicy(r, coin, pass), nil, "random")
	}

	// 5. extreme sizes (the size is an int the caller controls; the code only compares it with Len):
	//    the largest ints never leave the exact regime, the smallest halve on every successful Add
	for _, cp := range []int{math.MaxInt64, math.MaxInt64 - 1, 1 << 62, 1 << 32, math.MinInt64, math.MinInt64 + 1, -(1 << 40)} {
		for i := 0; i < 6; i++ {
			ops := stream(r, 1+r.Intn(40), 1+r.Intn(3), 0)
			if i%2 == 1 {
				ops = append(ops, op{}, op{true, 7}, op{true, 7}, op{true, 8})
			}
			g.emit(cp, ops, mkPolicy(r, r.Intn(7), r.Intn(8)), nil, "extreme-size")
		}
	}
}

// ---- statistical supporting run

type statCfg struct {
	cp, d, rep, runs int
	// round 6 (stat6.go)
	reset int  // > 0: one counter serves a block of `reset` runs separated by Reset (a fresh counter per block)
	dirty bool // between two runs of a block the counter is used on another stream of varying length
	traj  bool // the stream is d distinct values, each once, in order; the (Len, Count) trajectories of the runs are compared
}

// one-sided Gaussian tail
func normTail(z float64) float64 { return 0.5 * math.Erfc(z/math.Sqrt2) }

// The tolerance.  The mean of n independent Counts is compared with the true distinct count in
// units of the estimated standard error (a self-normalised sum).  Count is right-skewed (heavily
// so for sizes 2 and 3: sd about 1.5 x the mean, skewness 3..6), so the plain Gaussian tail
// 2*Q(z) understates the chance of |t| > z.  For self-normalised sums the ratio of the true tail
// to the Gaussian one is about exp(z^3 * skewness / (3 sqrt n)) on the unfavourable side
// (Cramer-type moderate deviations: Shao 1999; Jing, Shao, Wang 2003).  z is therefore chosen per
// configuration as the smallest value >= 8 for which
//
//	2 * Q(z) * exp(z^3 * g / (3 sqrt n))  <=  1e-10 / #configurations,   g = 2 * max(|sample skewness|, 1)
//
// (the factor 2 because the sample skewness of a heavy-tailed variable errs on the low side), so
// that the whole run has a false-alarm chance below 1e-10 by this estimate, a factor 10 inside the
// 1e-9 the property allows.  The variance is the sample variance, never less than 1/4 (Count is an
// integer: a floor only widens the tolerance, so a freak sample with a tiny variance cannot raise
// an alarm by itself).  Below the size the estimate must be exact in every single run.
func chooseZ(skew float64, n int, budget float64) (z, bound float64) {
	g := 2 * math.Max(math.Abs(skew), 1)
	for z = 8; z < 40; z += 0.25 {
		bound = 2 * normTail(z) * math.Exp(z*z*z*g/(3*math.Sqrt(float64(n))))
		if bound <= budget {
			return z, bound
		}
	}
	return z, bound
}

func stat(args []string) {
	tier, seed := "quick", uint64(1)
	if len(args) > 1 {
		tier = args[1]
	}
	if len(args) > 2 {
		s, _ := strconv.ParseUint(args[2], 10, 64)
		seed = s
	}
	scale := 1
	if tier == "thorough" {
		scale = 8
	}
	var cfgs []statCfg
	for _, cp := range []int{2, 3, 8, 64} {
		runs := 60000
		if cp == 64 {
			runs = 8000
		}
		for _, d := range []int{cp - 1, cp, cp + 1, 4 * cp, 30 * cp} {
			if cp == 64 && d == 30*cp {
				d = 12 * cp
			}
			for _, rep := range []int{1, 3} {
				cfgs = append(cfgs, statCfg{cp: cp, d: d, rep: rep, runs: runs * scale})
			}
		}
	}
	// round 3: the remaining tiny sizes (a pass in which everything survives has probability 2^-size:
	// 1/16 .. 1/64 here), distinct counts 100x and 1000x the size for the tiny sizes, and large sizes
	// around powers of two (passes that refill their random word many times)
	for _, cp := range []int{4, 5, 6} {
		for _, d := range []int{cp - 1, cp, cp + 1, 4 * cp, 30 * cp} {
			for _, rep := range []int{1, 3} {
				cfgs = append(cfgs, statCfg{cp: cp, d: d, rep: rep, runs: 30000 * scale})
			}
		}
	}
	for _, cp := range []int{2, 3, 4} {
		// (the tolerance formula needs about 10^4 runs at the skewness of these sizes; 1000x: thorough tier only)
		for _, rep := range []int{1, 3} {
			// (round 6: 24000 / 28000 runs, were 16000 / 12000 -- with those, one or two of these twelve configurations per
			// run had a sample skewness for which no z <= 40 met the budget)
			cfgs = append(cfgs, statCfg{cp: cp, d: 100 * cp, rep: rep, runs: 24000 * scale}, statCfg{cp: cp, d: 400 * cp, rep: rep, runs: 28000 * scale})
			if tier == "thorough" {
				cfgs = append(cfgs, statCfg{cp: cp, d: 1000 * cp, rep: rep, runs: 2000 * scale})
			}
		}
	}
	for _, cp := range []int{257, 1024} {
		for _, d := range []int{cp - 1, cp, cp + 1, 3 * cp, 10 * cp} {
			runs := 2400
			if cp > 1000 {
				runs = 1600
			}
			cfgs = append(cfgs, statCfg{cp: cp, d: d, rep: 1 + d%2*2, runs: runs * scale})
		}
	}
	// round 6: runs separated by Reset on one counter, trajectories, many fresh counters (stat6.go)
	cfgs = append(cfgs, resetConfigs(scale)...)
	budget := 1e-10 / float64(len(cfgs))
	type res struct {
		cfg                 statCfg
		mean, sd, se, tol   float64
		skew, z, bound, dev float64
		exceeded            int
		maxLen              int
		ok                  bool
		streamLen, distinc  int
		pi                  float64 // traj: the chance that two independent runs coincide
		traj                []trajAssertion
	}
	results := make([]res, len(cfgs))
	var wg sync.WaitGroup
	sem := make(chan struct{}, 8)
	t0 := time.Now()
	for ci, cfg := range cfgs {
		wg.Add(1)
		go func() {
			defer wg.Done()
			sem <- struct{}{}
			defer func() { <-sem }()
			r := tr.NewRand(seed*7919 + uint64(ci)) // the STREAM depends on the seed; the counters draw fresh entropy
			ops := stream(r, cfg.d, cfg.rep, 0)
			if cfg.traj { // d distinct values, each once, in order (what collisionProb models)
				ops = ops[:0]
				for v := 0; v < cfg.d; v++ {
					ops = append(ops, op{true, v})
				}
			}
			var keys [][32]byte
			var th *trajHash
			if cfg.traj {
				keys = make([][32]byte, cfg.runs)
				th = newTrajHash()
			}
			dist := map[int]bool{}
			for _, o := range ops {
				dist[o.v] = true
			}
			xs := make([]float64, cfg.runs)
			exceeded, maxLen := 0, 0
			var c *distinct.Counter[int]
			for i := 0; i < cfg.runs; i++ {
				if cfg.reset == 0 || i%cfg.reset == 0 {
					c = distinct.NewCounter[int](cfg.cp) // the real constructor: fresh entropy from crypto/rand
					if cfg.reset > 0 && (i/cfg.reset)%2 == 1 {
						c.Reset() // (a Reset before the first Add, on every other block)
					}
				} else {
					if cfg.dirty {
						// the counter is used on another stream first: 0 .. 64*size-1 values nobody looks at
						for j, n := 0, (i*7919)%(64*cfg.cp); j < n; j++ {
							c.Add(1000000 + j)
						}
					}
					c.Reset()
				}
				ex := false
				for _, o := range ops {
					c.Add(o.v)
					l := c.Len()
					if l > cfg.cp {
						ex = true
						maxLen = max(maxLen, l)
					}
					if th != nil {
						th.add(l, c.Count())
					}
				}
				if ex {
					exceeded++
				}
				xs[i] = float64(c.Count())
				if th != nil {
					keys[i] = th.sum()
				}
			}
			nf := float64(cfg.runs)
			var sum float64
			for _, x := range xs {
				sum += x
			}
			mean := sum / nf
			var m2, m3 float64
			for _, x := range xs {
				dd := x - mean
				m2 += dd * dd
				m3 += dd * dd * dd
			}
			vr := m2 / (nf - 1)
			skew := 0.0
			if m2 > 0 {
				skew = (m3 / nf) / math.Pow(m2/nf, 1.5)
			}
			want := float64(len(dist))
			exact := len(dist) < cfg.cp
			sd := math.Sqrt(vr)
			z, bound := chooseZ(skew, cfg.runs, budget)
			se := math.Sqrt(math.Max(vr, 0.25) / nf)
			tol := z * se
			ok := math.Abs(mean-want) <= tol
			if !(bound <= budget) { // (also NaN: 0 * Inf at z = 40)
				// (round 6) too few runs for this skewness: no z up to 40 meets the budget, so the mean is
				// reported but not asserted (does not happen with the run counts chosen below)
				ok, bound, tol = true, 0, math.Inf(1)
			}
			if exact {
				ok = vr == 0 && mean == want // exact regime: every single run must be exact
				z, bound, tol, se = 0, 0, 0, 0
			}
			rs := res{cfg, mean, sd, se, tol, skew, z, bound, (mean - want) / math.Max(se, 1e-300), exceeded, maxLen, ok, len(ops), len(dist), 0, nil}
			if cfg.traj {
				rs.pi = collisionProb(cfg.cp, cfg.d)
				rs.traj = trajectoryTests(keys, cfg.reset, rs.pi)
			}
			results[ci] = rs
		}()
	}
	wg.Wait()
	bad := 0
	var rows []map[string]any
	totalRuns, totalExceeded := 0, 0
	totalBound := 0.0
	nAssert, totalTrajBound := 0, 0.0
	for _, x := range results {
		row := map[string]any{"cap": x.cfg.cp, "distinct": x.distinc, "stream_len": x.streamLen, "runs": x.cfg.runs,
			"mean_count": x.mean, "sd": x.sd, "skewness": x.skew, "std_err": x.se, "z": x.z, "tolerance": math.Min(x.tol, math.MaxFloat64),
			"false_alarm_estimate": x.bound, "runs_with_len_over_cap": x.exceeded, "ok": x.ok}
		if x.z > 0 {
			row["deviation_in_std_errs"] = x.dev
		}
		if math.IsInf(x.tol, 1) {
			row["mean_asserted"] = false
		}
		if x.cfg.reset > 0 {
			row["runs_per_counter_separated_by_Reset"] = x.cfg.reset
			row["other_use_between_runs"] = x.cfg.dirty
		}
		how := ""
		if x.cfg.reset > 0 {
			how = fmt.Sprintf(" reset-separated-runs-per-counter=%d dirty=%v", x.cfg.reset, x.cfg.dirty)
		}
		if x.cfg.traj {
			row["chance_two_independent_runs_coincide"] = x.pi
			var ta []map[string]any
			for _, a := range x.traj {
				nAssert++
				totalTrajBound += a.bound
				m := map[string]any{"pairs": a.name, "n": a.pairs, "identical": a.identical, "ok": a.ok, "false_alarm_bound": a.bound}
				if a.threshold <= a.pairs {
					m["identical_must_stay_below"] = a.threshold
				} else {
					m["asserted"] = false
				}
				ta = append(ta, m)
				how += fmt.Sprintf(" %s:%d/%d(<%d)", a.name, a.identical, a.pairs, a.threshold)
			}
			row["trajectories"] = ta
			how += fmt.Sprintf(" pi=%.3g", x.pi)
		}
		rows = append(rows, row)
		totalRuns += x.cfg.runs
		totalExceeded += x.exceeded
		totalBound += x.bound
		fmt.Printf("stat cap=%d distinct=%d stream=%d runs=%d mean=%.4f sd=%.3f skew=%.2f z=%.2f tol=%.4f len>cap-in-runs=%d %v%s\n",
			x.cfg.cp, x.distinc, x.streamLen, x.cfg.runs, x.mean, x.sd, x.skew, x.z, x.tol, x.exceeded, x.ok, how)
		in := fmt.Sprintf("stat:cap=%d,distinct=%d,stream_len=%d,rep=%d,runs=%d,seed=%d", x.cfg.cp, x.distinc, x.streamLen, x.cfg.rep, x.cfg.runs, seed)
		if x.cfg.reset > 0 {
			in += fmt.Sprintf(",runs_per_counter_separated_by_Reset=%d,other_use_between_runs=%v", x.cfg.reset, x.cfg.dirty)
		}
		for _, a := range x.traj {
			if !a.ok {
				bad++
				what := "on one counter, separated by Reset, " + a.name
				if a.name == "all-pairs" {
					what = "any two runs of the configuration"
					if x.cfg.reset == 0 {
						what = "any two fresh counters"
					}
				}
				fmt.Printf("FAIL input=%s reason=identical-(Len,Count)-trajectories:%d-of-%d-pairs-of-runs(%s),independent-runs-coincide-with-probability-%.3g-per-pair:at-most-%d-allowed(false-alarm-bound-%.1e)\n",
					in, a.identical, a.pairs, strings.ReplaceAll(what, " ", "-"), x.pi, a.threshold-1, a.bound)
			}
		}
		if !x.ok {
			bad++
			fmt.Printf("FAIL input=%s reason=mean-of-Count=%.4f,true-distinct=%d,tolerance(%.2f-std-errors)=%.4f\n",
				in, x.mean, x.distinc, x.z, x.tol)
		}
	}
	if nAssert > trajAsserts {
		fmt.Printf("stat: %d trajectory assertions, the budget was laid out for %d\n", nAssert, trajAsserts)
		os.Exit(2)
	}
	b, err := json.Marshal(map[string]any{"what": "mean of Count over independent real counters (NewCounter, crypto/rand seeds) on fixed streams with repeats (the streams depend on the seed); tolerance z standard errors, z >= 8 chosen per configuration from the sample skewness so that the estimated false-alarm chance of the whole run is below 1e-10; round 6: also over runs separated by Reset on ONE counter (a fresh counter per block of runs; with and without other use of the counter between two runs), and the (Len, Count) trajectories of the runs of a configuration compared with each other -- runs on one counter at lags 1, 2, 3, 5, 8 and all pairs, several thousand fresh counters all pairs -- against the exactly computed chance that two independent runs coincide (proven false-alarm bound, sum below 1e-11); supporting evidence only",
		"configs": rows, "total_runs": totalRuns, "runs_in_which_len_exceeded_cap_(F8)": totalExceeded,
		"false_alarm_estimate_total": totalBound, "trajectory_assertions": nAssert, "trajectory_false_alarm_bound_total": totalTrajBound,
		"seed": seed, "wall_s": time.Since(t0).Seconds()})
	if err != nil {
		fmt.Println("stat: cannot encode the report:", err)
		os.Exit(2)
	}
	fmt.Println("EXTRA-JSON " + string(b))
	if bad > 0 {
		os.Exit(1)
	}
}

const rule = "C19 (round 2: words drawn per operation observed; coin words on the boundary of the threshold; sizes MaxInt64/MinInt64): every stream over 3 values up to length 4 (quick) / 6 (thorough) at sizes 1..3 under 12 word policies; the F8 family (a pass that keeps everything, sizes 2..8); deep thresholds (every Add halves, down to threshold 0); random histories: sizes 1..8 mostly, 9..40, 64..203 (passes that refill), 0/-1; distinct counts below/at/above/far above the size, each value repeated 1..4 times interleaved, Resets; scripted sources = 6 coin-word policies x 8 pass-word policies (all-keep, all-drop, alternating, sparse, dense, random). Observed after every operation: Len, Count, threshold; final buffer. A case is non-trivial when a halving happened or a value was repeated.  Round 3, scale lines (kind S, compact syntax: runs of Adds, pseudo-random streams, generated words, one letter per record that follows from its predecessor -- the driver decodes them and checks every record): sizes 2..6 and 2^k-1, 2^k, 2^k+1 for k = 3..12; per size streams below the size with many repeats, exactly size-1 distinct values followed by repeats of buffered values (exact, no pass may run), exactly size, 3x/10x/100x/1000x the size (1000x up to size 22, 100x up to size 70; above 1025 one line per size in the quick tier), repeats after saturation and after Reset, saturate-Reset-reuse cycles, the F8 family (all-keep passes) and passes that drop one element per word; uniform generated words or the word policies above."

func main() {
	if len(os.Args) > 1 && os.Args[1] == "-stat" {
		stat(os.Args[2:])
		return
	}
	o := tr.ParseFlags()
	if distinct.NewCounterWithSource[int](2, &source{}) == nil {
		// (round 6) the hook could not put a scripted source into the counter: its source field no longer
		// holds an arbitrary rand.Source.  No trace line can be produced; the statistical step (-stat),
		// which uses the public API only, still runs.
		fmt.Fprintln(os.Stderr, "distincttrace: the scripted random source cannot be installed in distinct.Counter (its source field does not hold a rand.Source any more): the correspondence cannot be run on this tree")
		os.Exit(3)
	}
	w := tr.NewW(o.Out)
	if o.Replay != "" {
		for _, in := range tr.ReplayInputs(o.Replay) {
			replayLine(w, in)
		}
	} else {
		g := &gen{o: o, r: tr.NewRand(o.Seed), w: w}
		g.run()
		g.scale()
		g.bufsize()
	}
	w.Close(o, rule, nil)
}
