// Z lines (round 7): distinct.BufferSize, which no generator called before.
//
//	Z <bits of ε> <bits of δ> <expSize>  |  <value>  or  panic:<message>
//
// ε and δ are written as the 16 hex digits of their IEEE-754 bits (exact, NaN and -0 included).
// value: the returned int in decimal when it is below 2^26 in absolute value, else ~%.6e of it (a
// last-place difference of the logarithm between two correct math libraries must not show; the
// driver compares the decimal form exactly), MinInt64 as is (what int(+Inf) and int(NaN) give on
// amd64).  In a panic message the formatted float is parsed back and written as its bits
// ("error bound out of range: <bits>"), so that the driver does not need Go's %v of a float.
package main

import (
	"fmt"
	"math"
	"strconv"
	"strings"

	"github.com/creachadair/mds/distinct"
)

func fbits(x float64) string {
	if x != x {
		return "nan"
	}
	return fmt.Sprintf("%016x", math.Float64bits(x))
}

func unfbits(s string) float64 {
	if s == "nan" {
		return math.NaN()
	}
	b, _ := strconv.ParseUint(s, 16, 64)
	return math.Float64frombits(b)
}

func runZ(f []string) (out string) {
	if len(f) != 4 {
		return "?"
	}
	e, d := unfbits(f[1]), unfbits(f[2])
	n, err := strconv.Atoi(f[3])
	if err != nil {
		return "?"
	}
	defer func() {
		if r := recover(); r != nil {
			msg := fmt.Sprint(r)
			if i := strings.LastIndex(msg, ": "); i >= 0 && !strings.HasPrefix(msg, "expected size") {
				if x, err := strconv.ParseFloat(msg[i+2:], 64); err == nil {
					msg = msg[:i+2] + fbits(x)
				}
			}
			out = "panic:" + msg
		}
	}()
	v := distinct.BufferSize(e, d, n)
	if v == math.MinInt64 || (v > -(1<<26) && v < 1<<26) {
		return strconv.Itoa(v)
	}
	return fmt.Sprintf("~%.6e", float64(v))
}

func (g *gen) emitZ(e, d float64, n int, tags ...string) {
	in := fmt.Sprintf("Z %s %s %d", fbits(e), fbits(d), n)
	valid := e >= 0 && e <= 1 && d >= 0 && d <= 1 && n > 0
	t := append([]string{"uncalled-api:buffersize"}, tags...)
	bad := 0
	for _, c := range []bool{!(e >= 0 && e <= 1), !(d >= 0 && d <= 1), n <= 0} {
		if c {
			bad++
		}
	}
	switch {
	case e != e || d != d:
		t = append(t, "state:buffersize-NaN-argument")
	case bad > 1:
		t = append(t, "state:buffersize-several-arguments-out-of-range")
	case bad == 1:
		t = append(t, "state:buffersize-one-argument-out-of-range")
	case e == 0 || d == 0:
		t = append(t, "state:buffersize-zero-epsilon-or-delta")
	case e == 1 || d == 1:
		t = append(t, "state:buffersize-bound-equals-1")
	}
	g.w.Case(in, runZ(strings.Fields(in)), valid && e > 0 && d > 0, t...)
}

func (g *gen) bufsize() {
	tiny := math.SmallestNonzeroFloat64
	fs := []float64{0, math.Copysign(0, -1), tiny, 1e-300, 1e-160, 1e-10, 1e-8, 3e-5, 0.001, 0.01, 0.05, 0.1, 0.25, 0.3, 0.5, 0.999999,
		math.Nextafter(1, 0), 1, math.Nextafter(1, 2), 1.5, -tiny, -0.05, -1, 1e300, math.Inf(1), math.Inf(-1), math.NaN()}
	ns := []int{math.MinInt64, -1, 0, 1, 2, 3, 10, 100, 1000, 1000000, 1<<31 - 1, 1 << 31, 1<<53 - 1, 1 << 53, 1<<53 + 1, 1 << 62, math.MaxInt64 - 1, math.MaxInt64}
	for _, e := range fs {
		for _, d := range fs {
			for _, n := range ns {
				g.emitZ(e, d, n, "buffersize-grid")
			}
		}
	}
	// the values the documentation recommends ("in the 0.05 range"), every n to 300
	for _, e := range []float64{0.01, 0.05, 0.1} {
		for _, d := range []float64{0.01, 0.05, 0.1} {
			for n := -2; n <= g.o.Scale(300, 3000); n++ {
				g.emitZ(e, d, n, "buffersize-recommended")
			}
		}
	}
	// random: log-uniform ε, δ in (0, 1], log-uniform n; now and then one argument out of range
	for it := 0; it < g.o.Scale(3000, 50000); it++ {
		lu := func() float64 { return math.Exp2(-float64(g.r.Intn(40)) * (float64(g.r.Intn(1000)+1) / 1000)) }
		e, d := lu(), lu()
		n := 1 + int(g.r.Uint64()>>uint(1+g.r.Intn(63)))
		switch g.r.Intn(12) {
		case 0:
			e = -e
		case 1:
			d = 1 + d
		case 2:
			n = -n
		}
		g.emitZ(e, d, n, "buffersize-random")
	}
}


