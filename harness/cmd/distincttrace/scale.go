// Round 3: the SCALE lines of distincttrace (kind S; the syntax is described at the top of main.go).
//
// Buffer sizes 2..6 (where a halving pass in which every element survives has a visible
// probability: known finding F8 lives here) and 2^k-1, 2^k, 2^k+1 for k = 3..12; for every size
// streams with fewer distinct values than the size, with exactly size-1 (then many repeats of the
// buffered values: still exact, no pass may run), with exactly size, and far above it (10x..1000x
// for small sizes; as far as the quadratic replay on the model allows for big ones), repeats of
// buffered values after saturation and after Reset, saturate - Reset - reuse cycles, and the F8
// family (a pass that keeps everything) at every size.  Words come from a generator
// (g<seed>: uniform 64-bit words) or from the word policies of main.go (explicit lists).
package main

import (
	"fmt"
	"sort"
	"strconv"
	"strings"

	"verif/harness/internal/tr"
)

const digestOver = 64

type record struct {
	len   int
	count uint64
	p     uint64
	nw    int
}

func lz64(x uint64) uint {
	n := uint(0)
	for n < 64 && x&(1<<(63-n)) == 0 {
		n++
	}
	return n
}

// fmtRecords: one token per record, or (compact) one letter for a record that follows from its
// predecessor; see the top of main.go.
func fmtRecords(recs []record, compact bool) string {
	if len(recs) == 0 {
		return "-"
	}
	var toks []string
	var run []byte
	flush := func() {
		if len(run) == 0 {
			return
		}
		var sb strings.Builder
		sb.WriteByte('*')
		for i := 0; i < len(run); {
			j := i
			for j < len(run) && run[j] == run[i] {
				j++
			}
			sb.WriteByte(run[i])
			switch n := j - i; {
			case n == 2:
				sb.WriteByte(run[i])
			case n > 2:
				sb.WriteString(strconv.Itoa(n))
			}
			i = j
		}
		toks = append(toks, sb.String())
		run = run[:0]
	}
	for i, r := range recs {
		if compact && i > 0 {
			pr := recs[i-1]
			d := r.len - pr.len
			if r.p == pr.p && (r.nw == 0 || r.nw == 1) && d >= -1 && d <= 1 && r.len >= 0 && r.count == uint64(r.len)<<lz64(r.p) {
				run = append(run, byte('a'+2*(d+1)+r.nw))
				continue
			}
		}
		flush()
		toks = append(toks, fmt.Sprintf("%d:%d:%d:%d", r.len, r.count, r.p, r.nw))
	}
	flush()
	return strings.Join(toks, ";")
}

// digest of a sorted sequence of values: two polynomial hashes in 31-bit fields (the OCaml driver
// computes the same with native ints).
func digest(xs []int) string {
	const m1, p1 = 2147483647, 1000003
	const m2, p2 = 2147483629, 1000033
	h1, h2 := int64(7), int64(7)
	for _, x := range xs {
		a := (int64(x)%m1 + m1) % m1
		b := (int64(x)%m2 + m2) % m2
		h1 = (h1*p1 + a) % m1
		h2 = (h2*p2 + b) % m2
	}
	return fmt.Sprintf("%08x%08x", h1, h2)
}

// genWord: the i-th word of the generator g<seed> (splitmix64's output function on a counter).
func genWord(seed, i uint64) uint64 {
	z := seed*0x9E3779B97F4A7C15 + (i+1)*0xD1B54A32D192ED03
	z = (z ^ (z >> 30)) * 0xBF58476D1CE4E5B9
	z = (z ^ (z >> 27)) * 0x94D049BB133111EB
	return z ^ (z >> 31)
}

// expandRun: a<lo>~<hi> or z<seed>~<count>~<U>[~<base>].
func expandRun(f string) []op {
	q := strings.Split(f[1:], "~")
	n := make([]int, len(q))
	for i, x := range q {
		v, err := strconv.Atoi(x)
		if err != nil {
			panic("bad op " + f)
		}
		n[i] = v
	}
	var out []op
	switch {
	case f[0] == 'a' && len(n) == 2 && n[1]-n[0] <= 1<<22:
		for v := n[0]; v < n[1]; v++ {
			out = append(out, op{true, v})
		}
	case f[0] == 'z' && (len(n) == 3 || len(n) == 4) && n[1] <= 1<<22 && n[2] >= 1 && n[0] >= 0:
		base := 0
		if len(n) == 4 {
			base = n[3]
		}
		x := n[0] % (1 << 31)
		for i := 0; i < n[1]; i++ {
			x = (x*1103515245 + 12345) % (1 << 31)
			out = append(out, op{true, base + (x>>4)%n[2]})
		}
	default:
		panic("bad op " + f)
	}
	return out
}

// parseWordSpec: explicit words, optionally ending in g<seed>[:<n>].
func parseWordSpec(s string) *source {
	src := &source{}
	if s == "." || s == "" {
		return src
	}
	items := strings.Split(s, ",")
	if last := items[len(items)-1]; strings.HasPrefix(last, "g") {
		seed, _, _ := strings.Cut(last[1:], ":")
		v, err := strconv.ParseUint(seed, 10, 64)
		if err != nil {
			panic("bad word generator " + last)
		}
		src.hasG, src.gseed = true, v
		items = items[:len(items)-1]
	}
	if len(items) > 0 {
		src.script = parseWords(strings.Join(items, ","))
	}
	return src
}

func (s *source) wordSpec() string {
	if !s.hasG {
		return fmtWords(s.used)
	}
	g := fmt.Sprintf("g%d:%d", s.gseed, s.gused)
	if len(s.used) == 0 {
		return g
	}
	return fmtWords(s.used) + "," + g
}

func runScale(cp int, opsStr string, src *source) (line, out string, inf info) {
	orc, out, inf := runCaseK(true, cp, parseOps(opsStr), src)
	return "S " + strconv.Itoa(cp) + " " + src.wordSpec() + " " + orc + " " + opsStr, out, inf
}

func replayScale(w *tr.W, f []string) {
	cp, err := strconv.Atoi(f[1])
	if err != nil {
		w.Case(strings.Join(f, " "), "?", false, "bad-input")
		return
	}
	line, out, inf := runScale(cp, f[4], parseWordSpec(f[2]))
	_, tags := inf.tags(cp)
	w.Case(line, out, true, append(tags, "replayed")...)
}

// ---- generation

func (g *gen) emitS(cp int, opsStr string, src *source, tags ...string) info {
	line, out, inf := runScale(cp, opsStr, src)
	nt, t := inf.tags(cp)
	t = append(t, "scale")
	switch {
	case cp <= 6:
		t = append(t, "scale-size-2..6")
	case cp <= 65:
		t = append(t, "scale-size-7..65")
	case cp <= 1025:
		t = append(t, "scale-size-127..1025")
	default:
		t = append(t, "scale-size-2047..4097")
	}
	if inf.passes >= 3 {
		t = append(t, "scale-3-or-more-passes")
	}
	g.w.Case(line, out, nt || true, append(t, tags...)...)
	return inf
}

func (g *gen) gsrc() *source { return &source{hasG: true, gseed: g.r.Uint64() >> 1} }

func jo(items ...string) string {
	var out []string
	for _, it := range items {
		if it != "" {
			out = append(out, it)
		}
	}
	if len(out) == 0 {
		return "."
	}
	return strings.Join(out, ",")
}

func ar(lo, hi int) string { // a<lo>~<hi>, nothing when empty
	if hi <= lo {
		return ""
	}
	if hi == lo+1 {
		return "a" + strconv.Itoa(lo)
	}
	return fmt.Sprintf("a%d~%d", lo, hi)
}

func (g *gen) zr(count, u, base int) string { // count pseudo-random values of [base, base+u)
	if count <= 0 || u <= 0 {
		return ""
	}
	if base != 0 {
		return fmt.Sprintf("z%d~%d~%d~%d", g.r.Intn(1<<30), count, u, base)
	}
	return fmt.Sprintf("z%d~%d~%d", g.r.Intn(1<<30), count, u)
}

func clamp(x, lo, hi int) int { return max(lo, min(x, hi)) }

// the stream shapes for one size c; budget = about how many Adds ONE line may have (the model's
// buffer is a list: replaying a line costs about Adds x size)
func (g *gen) scaleSize(c, budget int) {
	// below the size, with many repeats: exact however often a value is repeated
	if c >= 3 && budget >= 2*c {
		d := 1 + g.r.Intn(c-2)
		g.emitS(c, jo(ar(0, d), g.zr(clamp(budget-2*d, 4, 3*c), d, 0), ar(0, d)), g.gsrc(), "scale-below-size")
	}
	// exactly size-1 distinct values, then repeats of buffered values (no pass may run), then the
	// value that fills the buffer, repeats after saturation, Reset, the exact regime again with repeats
	if full := 3*(c-1) + 5; budget >= full+12 {
		r := clamp((budget-full)/3, 4, 3*c)
		g.emitS(c, jo(ar(0, c-1), g.zr(r, c-1, 0), ar(0, c-1), ar(c-1, c), g.zr(r, c, 0), "r", ar(0, c-1), g.zr(r, c-1, 0), ar(c-1, c+1), "r", "a5", "a5"),
			g.gsrc(), "scale-at-size-1-with-repeats", "scale-reset-reuse")
	} else {
		r := clamp((budget-c-c/2)/3, 4, 3*c)
		g.emitS(c, jo(ar(0, c-1), g.zr(r, c-1, 0), ar(c-1, c+c/2), g.zr(r, c+c/2, 0), "r", g.zr(r, r/2, 0), "a5", "a5"),
			g.gsrc(), "scale-at-size-1-with-repeats", "scale-reset-reuse")
	}
	// exactly size distinct values (one pass, at the last of them), then repeats of all of them
	if budget >= 2*c {
		g.emitS(c, jo(ar(0, c), g.zr(clamp(budget-c, 4, 3*c), c, 0)), g.gsrc(), "scale-at-size")
	}
	// far above
	for _, m := range []int{3, 10} {
		if m*c+8 <= budget {
			g.emitS(c, jo(ar(0, m*c), g.zr(clamp(budget-m*c, 4, m*c), m*c, 0)), g.gsrc(), "scale-above-size", fmt.Sprintf("scale-%dx-distinct", m))
		}
	}
	// saturate - Reset - reuse cycles: every cycle ends in the exact regime with repeats at size-1
	if 15*c <= budget {
		var cyc []string
		for i := 0; i < 3; i++ {
			cyc = append(cyc, ar(0, 2*c), g.zr(c, 2*c, 0), "r", ar(i, i+c-1), g.zr(c, c-1, i))
		}
		g.emitS(c, jo(cyc...), g.gsrc(), "scale-reset-reuse", "scale-saturate-reset-cycles")
	}
	// the F8 family at this size: the coin always passes, the pass keeps everything
	src := &source{gen: mkPolicy(g.r, 0, 0).gen}
	g.emitS(c, jo(ar(0, c+3), "r", "a1", "a1", "a2"), src, "f8-family", "scale-f8-family")
	// ... and a pass that keeps all but the first element it visits in every word: the buffer is full again almost at once
	if budget >= 2*c {
		src = &source{gen: func(first bool, p uint64) uint64 {
			if first {
				return 0
			}
			return allOnes - 1
		}}
		g.emitS(c, jo(ar(0, c+clamp(4000/c, 2, 40)), "a0", "a1"), src, "scale-pass-drops-little")
	}
}

// scaleBig: sizes above 1025 in the quick tier (the model pays for every Add in proportion to the
// buffer and for every pass in proportion to its square, so there is ONE line per size).  Every line
// starts with size-1 distinct values followed by repeats of buffered values (exact, no pass may
// run) and then fills the buffer (the pass runs at exactly `size` buffered values).
func (g *gen) scaleBig(c, d int) {
	head := jo(ar(0, c-1), g.zr(64, c-1, 0))
	switch d {
	case 1:
		// uniform words; beyond the size: half as many distinct values again with repeats, Reset, exact again
		g.emitS(c, jo(head, ar(c-1, c+c/2), g.zr(c/2, c+c/2, 0), "r", g.zr(64, 32, 0)), g.gsrc(), "scale-at-size-1-with-repeats", "scale-above-size", "scale-reset-reuse")
	case 0:
		if c > 2049 {
			// exactly `size` distinct values (the pass runs at the last one), repeats of all of them, Reset, exact again
			g.emitS(c, jo(head, ar(c-1, c), g.zr(c/4, c, 0), "r", ar(0, 16), g.zr(64, 16, 0)), g.gsrc(), "scale-at-size-1-with-repeats", "scale-at-size", "scale-reset-reuse")
			return
		}
		// the F8 family: the pass keeps everything, the next values exceed the size
		g.emitS(c, jo(head, ar(c-1, c+2), "r", "a1", "a1", "a2"), &source{gen: mkPolicy(g.r, 0, 0).gen}, "scale-at-size-1-with-repeats", "f8-family", "scale-f8-family", "scale-reset-reuse")
	default:
		// every pass keeps all but the first element it visits in each word: full again almost at once
		src := &source{gen: func(first bool, p uint64) uint64 {
			if first {
				return 0
			}
			return allOnes - 1
		}}
		g.emitS(c, jo(head, ar(c-1, c+1), "a0"), src, "scale-at-size-1-with-repeats", "scale-pass-drops-little")
	}
}

func (g *gen) scale() {
	th := g.o.Thorough()
	// sizes 2..6: many independent lines, distinct counts 10x..1000x the size
	for c := 2; c <= 6; c++ {
		for i := 0; i < g.o.Scale(3, 100); i++ {
			g.scaleSize(c, 30000)
			for _, m := range []int{10, 100, 1000} {
				// values with repeats: most of m*c distinct values among 2*m*c Adds
				g.emitS(c, jo(g.zr(2*m*c, m*c, 0)), g.gsrc(), "scale-above-size", fmt.Sprintf("scale-%dx-distinct", m))
			}
			g.emitS(c, jo(ar(0, 1000*c)), g.gsrc(), "scale-above-size", "scale-1000x-distinct")
		}
	}
	for e := 3; e <= 12; e++ {
		for d := -1; d <= 1; d++ {
			c := 1<<e + d
			if c > 1025 && !th {
				g.scaleBig(c, d)
				continue
			}
			// the model's buffer is a list and its Len a unary number: a line costs about Adds x size x 30 ns
			budget := 300000 / c
			if th {
				budget = max(12000000/c, 10*c+8)
			}
			budget = clamp(budget, 2*c+c/2, 30000)
			reps := 1
			if c <= 65 {
				reps = g.o.Scale(2, 20)
				if c > 17 && !th {
					reps = 1
				}
			}
			for i := 0; i < reps; i++ {
				g.scaleSize(c, budget)
			}
			for _, m := range []int{100, 1000} {
				if c*c*m <= 500000 || (th && c*c*m <= 20000000) {
					g.emitS(c, jo(g.zr(m*c+m*c/2, m*c, 0)), g.gsrc(), "scale-above-size", fmt.Sprintf("scale-%dx-distinct", m))
				}
			}
		}
	}
}

var _ = sort.Ints
