// Round 4: equalities, capacity history, order of earlier operations, damaged states.
//
//	T <mode><dir><G>[+<off>]  |  n<len>,i<inversions>[@<first>],o<outside>,c<fnv>,p<fnv>[,x<fnv>]
//
// heapq.Sort on a window of a larger array, observed through digests so that every length up to
// thousands is cheap.  G = <pat><n>,<a>,<b>[,<c>] as in big.go (payloads 1..n); the array has
// off + n + c elements, the argument of Sort is arr[off : off+n] (so its capacity is n + c); the
// elements before and behind the window are sentinels.  After the call the WHOLE array is looked at:
//
//	n  len of the window                       i  number of adjacent pairs of the window that are out of
//	                                              order under the comparison function (and the first one)
//	o  number of elements outside the window that are not the sentinel put there
//	c  FNV-1a64 of the comparison classes of the window in order (class of an element: its key for
//	   a d A D, key/4 for m M, 0 for z, its payload for p) -- a sorted arrangement has exactly one
//	p  FNV-1a64 of the window's elements sorted by (key, payload) -- the permutation digest
//	x  (mode x only) FNV-1a64 of the window's elements in order; which of several tied elements
//	   comes first is not part of the property, so only the lines the model replays carry it
//
// mode q: no x field; the line costs the driver a List.sort, not a replay of the list-based model.
package main

import (
	"fmt"
	"sort"
	"strconv"
	"strings"

	"github.com/creachadair/mds/heapq"
	"verif/harness/internal/tr"
)

func sentinel(i int) E { return E{-1000000 - i, -1 - i} }

func classOf(d byte, e E) int {
	switch d {
	case 'm', 'M':
		return e.K / 4
	case 'z':
		return 0
	case 'p':
		return e.P
	}
	return e.K
}

func execSortDigest(rest string) string {
	if len(rest) < 4 || (rest[0] != 'x' && rest[0] != 'q') {
		return "?"
	}
	c, ok := cmpOf(rest[1])
	if !ok {
		return "?"
	}
	gs, off := rest[2:], 0
	if i := strings.IndexByte(gs, '+'); i >= 0 {
		if off, ok = parseInt(gs[i+1:]); !ok || off < 0 || off > bigMaxN {
			return "?"
		}
		gs = gs[:i]
	}
	g, ok := parseG(gs)
	if !ok {
		return "?"
	}
	arr := make([]E, off+g.n+g.c)
	for i := range arr {
		arr[i] = sentinel(i)
	}
	for j, k := range g.keys() {
		arr[off+j] = E{k, j + 1}
	}
	win := arr[off : off+g.n]
	if pk := tr.Catch(func() { heapq.Sort(c, win) }); pk != "" {
		return "PANIC:" + strings.TrimPrefix(pk, "panic:")
	}
	outside := 0
	for i := range arr {
		if (i < off || i >= off+g.n) && arr[i] != sentinel(i) {
			outside++
		}
	}
	inv, first := 0, -1
	for i := 0; i+1 < len(win); i++ {
		if c(win[i], win[i+1]) > 0 {
			if inv == 0 {
				first = i
			}
			inv++
		}
	}
	ch := fnvBasis
	for i, e := range win {
		if i > 0 {
			ch = fnvAdd(ch, ",")
		}
		ch = fnvAdd(ch, strconv.Itoa(classOf(rest[1], e)))
	}
	xh := fnvElems(win)
	sorted := append([]E(nil), win...)
	sort.Slice(sorted, func(i, j int) bool {
		if sorted[i].K != sorted[j].K {
			return sorted[i].K < sorted[j].K
		}
		return sorted[i].P < sorted[j].P
	})
	is := "i0"
	if inv > 0 {
		is = fmt.Sprintf("i%d@%d", inv, first)
	}
	out := fmt.Sprintf("n%d,%s,o%d,c%x,p%x", len(win), is, outside, ch, fnvElems(sorted))
	if rest[0] == 'x' {
		out += fmt.Sprintf(",x%x", xh)
	}
	return out
}

// ---------------------------------------------------------------- generation

// Sort at EVERY length 0..1100 (thorough: three lines per length, and around the powers of two up to
// 4097), every comparison function, every key pattern, windows with spare capacity behind them
// (none, 1, n, 3n, 3n+1, 4n, and what brings the capacity to 1023..1025, 2048, 4097) and elements
// before them.  The lines the list-based model replays (mode x) are all lengths up to 128 (thorough
// 400) and a dozen (thorough: every eighth) beyond.
func genSortSweep(g *tr.G) {
	if g.Prop == "C06" {
		return
	}
	r := g.R
	sh := &scaleHist{g: g, tags: map[string]bool{}}
	line := func(n int, mode byte) {
		gs := sh.gen(n)
		tags := []string{"sort", "sort-sweep"}
		if r.Chance(1, 2) {
			var cs []int
			for _, c := range []int{1, n, 3 * n, 3*n + 1, 4 * n, 1023 - n, 1024 - n, 1025 - n, 2048 - n, 4097 - n} {
				if c > 0 && c <= bigMaxN {
					cs = append(cs, c)
				}
			}
			gs.c = tr.Pick(r, cs)
			tags = append(tags, "sort-spare-capacity")
			if n+gs.c >= 1024 {
				tags = append(tags, "sort-cap>=1024")
			}
		}
		s := "T " + string(mode) + string(dirs[r.Intn(len(dirs))]) + gs.String()
		if r.Chance(3, 10) {
			s += "+" + strconv.Itoa(tr.Pick(r, []int{1, 3, 64}))
			tags = append(tags, "sort-window-offset")
		}
		if mode == 'x' {
			tags = append(tags, "sort-sweep-replayed")
		}
		if n >= 1024 {
			tags = append(tags, "sort-len>=1024")
		}
		g.Emit(s, n >= 2, tags...)
	}
	small := g.Scale(128, 400)
	extra := map[int]bool{}
	for i := 0; i < 12; i++ {
		extra[r.Range(small+1, 1100)] = true
	}
	res := r.Intn(8)
	for n := 0; n <= 1100; n++ {
		for k := 0; k < g.Scale(1, 3); k++ {
			mode := byte('q')
			if n <= small || (k == 0 && (extra[n] || (g.Thorough() && n%8 == res))) {
				mode = 'x'
			}
			line(n, mode)
		}
	}
	if g.Thorough() {
		for k := 11; k <= 12; k++ {
			for _, n := range aroundPow2(k) {
				line(n, 'q')
				line(n, 'q')
			}
		}
		line(tr.Pick(r, aroundPow2(11)), 'x')
	}
	// runs of exactly b equal priorities, every b in 1..300 (thorough 600): two, three or four runs and a
	// bit, under a comparison function for which they tie (by key, by key/4: runs of 4b)
	for b := 1; b <= g.Scale(300, 600); b++ {
		n := tr.Pick(r, []int{2, 3, 4})*b + r.Intn(3)
		if n > 2400 {
			n = 2*b + 1
		}
		d := tr.Pick(r, []byte{'a', 'd', 'A', 'D', 'm', 'M'})
		mode := byte('q')
		if n <= small {
			mode = 'x'
		}
		g.Emit("T "+string(mode)+string(d)+gspec{'b', n, r.Range(1, 9), b, 0}.String(), true, "sort", "sort-tie-run-sweep")
	}
}

// ---- B lines, family 10: runs of exactly b equal priorities for every b in 1..64 (thorough 200): a
// queue of two or three runs and a bit, one interior Remove per level, Pops across the end of the
// first run, removals through reported positions, the observers.
func genTieRuns(g *tr.G) {
	r := g.R
	for b := 1; b <= g.Scale(64, 200); b++ {
		h := newScale(g)
		h.tag("scale-tie-run-sweep")
		gs := gspec{'b', tr.Pick(r, []int{2, 3})*b + r.Intn(3), r.Range(1, 9), b, 0}
		d := tr.Pick(r, []string{"a", "d", "A", "D", "m", "M"})
		switch r.Intn(3) {
		case 0:
			h.op("n" + d)
			h.op("A" + gs.String())
		case 1:
			h.op("n" + d)
			h.op("S" + gs.String())
		default:
			h.op("W" + d + gs.String())
		}
		h.removeEveryLevel()
		h.pop(b + 1)
		h.removeReported(2)
		h.observe()
		h.op("A" + gspec{'e', r.Range(1, 3), gs.a + 1, 0, 0}.String())
		if rest := popBudget - h.pops; rest > h.len() {
			h.pop(h.len() + 1)
		}
		h.observe()
		h.emit()
	}
}

// ---- B lines, family 8: capacity history.  The buffer of the queue has once been large (a slice
// with spare capacity handed to NewWithData -- free for the model, which has no capacities --, a
// big Set, that many Adds), the queue comes back to a few elements or none (Clear, Set of nothing or
// of one element, Pops, Removes, or it never held many), is optionally cleared again, and then
// lives on with the callback installed: every operation, every report checked.
func (h *scaleHist) comeBack() {
	r := h.g.R
	switch r.Intn(6) {
	case 0:
		h.tag("cap-back-by-clear")
		h.op("c")
	case 1:
		h.tag("cap-back-by-set0")
		h.op("S" + h.gen(0).String())
	case 2:
		h.tag("cap-back-by-set1")
		h.op("S" + h.gen(1).String())
	case 3:
		if h.len() <= 600 && popBudget-h.pops > h.len() {
			h.tag("cap-back-by-pop")
			h.pop(h.len() + r.Intn(2))
		} else {
			h.op("c")
		}
	case 4:
		if h.len() <= 40 {
			h.tag("cap-back-by-remove")
			for h.len() > 0 {
				h.op("R" + strconv.Itoa(tr.Pick(r, []int{0, h.len() - 1, r.Intn(h.len())})))
			}
		} else {
			h.op("c")
		}
	default: // stays as it is
	}
	if r.Chance(1, 2) {
		h.tag("cap-then-clear")
		h.op("c")
	}
}

// the life after: everything with the callback checked.  light = ascending keys only (no trigger of
// the known findings, whose attribution would replay the whole line three more times)
func (h *scaleHist) lifeAfter(light bool) {
	r := h.g.R
	first := h.sh.nextP
	if light {
		h.op("A" + gspec{'u', r.Range(3, 12), 300000, 0, 0}.String())
		h.op("X" + strconv.Itoa(h.sh.nextP-1))
		h.observe()
		h.pop(2)
		h.op("A" + gspec{'u', 3, 400000, 0, 0}.String())
		h.op("S" + h.gen(r.Range(0, 9)).String())
		h.op("A" + gspec{'u', 2, 500000, 0, 0}.String())
		h.pop(h.len() + 1)
		h.observe()
		return
	}
	h.op("A" + h.gen(r.Range(3, 24)).String())
	h.op("X" + strconv.Itoa(first))
	h.removeReported(2)
	h.observe()
	h.pop(2)
	if r.Bool() {
		h.op("o" + h.dir())
	}
	h.op("A" + h.gen(r.Range(1, 6)).String())
	h.removeEveryLevel()
	if r.Bool() {
		h.op("c")
		h.op("A" + h.gen(r.Range(1, 9)).String())
		h.removeReported(2)
	}
	h.op("S" + h.gen(r.Range(0, 30)).String())
	h.removeReported(2)
	h.observe()
	if r.Chance(1, 3) {
		h.op("U0")
		h.op("A" + h.gen(2).String())
		h.op("U1")
		h.op("A" + h.gen(3).String())
		h.removeReported(2)
	}
	if rest := popBudget - h.pops; rest > h.len() {
		h.pop(h.len() + 1)
	}
	h.observe()
}

func genCapHistory(g *tr.G) {
	r := g.R
	// capacities by spare capacity of the adopted slice: exactly 2^k-1, 2^k, 2^k+1 and a few others
	var caps []int
	for k := 8; k <= 13; k++ {
		caps = append(caps, aroundPow2(k)...)
	}
	caps = append(caps, 1280, 5120, 6000, 9000)
	for rep := 0; rep < g.Scale(2, 6); rep++ {
		for _, c := range caps {
			h := newScale(g)
			h.tag("scale-cap-history")
			h.tag("cap-by-spare")
			n := tr.Pick(r, []int{0, 1, 2, r.Range(3, 40)})
			gs := h.gen(n)
			gs.c = c - n
			h.op("W" + h.dir() + gs.String())
			if c > 1024 {
				h.tag("cap>1024")
			}
			if c > 4096 {
				h.tag("cap>4096")
			}
			h.comeBack()
			h.lifeAfter(false)
			h.emit()
		}
	}
	// the buffer really grows: Set of N (make gives exactly N), N Adds (append's growth), NewWithData
	// of N; quick: 1023..1025 by each and one of 4096..4098 by Set or Adds; a drain by Pop from
	// 257/513; thorough: all of them
	grown := func(how byte, n int, drainTo int) {
		h := newScale(g)
		h.tag("scale-cap-history")
		h.tag("cap-by-growth")
		if n > 1024 {
			h.tag("cap>1024")
		}
		if n > 4096 {
			h.tag("cap>4096")
		}
		switch how {
		case 'A': // ascending Adds: cheap for the model and no trigger of the known findings
			h.op("n" + tr.Pick(r, []string{"a", "A", "m"}))
			h.op("A" + gspec{'u', n, 1, 0, 0}.String())
		case 'S':
			h.op("S" + gspec{'r', n, 100000, r.Intn(1 << 20), 0}.String())
		default:
			h.op("W" + h.dir() + gspec{'r', n, 100000, r.Intn(1 << 20), 0}.String())
			h.op("S" + h.gen(2).String())
		}
		if drainTo >= 0 && h.len() > drainTo {
			h.tag("cap-drained-by-pop")
			h.pop(h.len() - drainTo)
		}
		if n > 2000 {
			// no further ops on thousands of elements: the list model pays for each
			h.op(tr.Pick(r, []string{"c", "c", "S" + h.gen(0).String(), "S" + h.gen(1).String()}))
			if r.Bool() {
				h.op("c")
			}
		} else {
			h.comeBack()
		}
		h.lifeAfter(true)
		h.emit()
	}
	if g.Thorough() {
		for _, how := range []byte{'A', 'S', 'W'} {
			for _, n := range []int{1023, 1024, 1025, 4095, 4096, 4097, 8193} {
				grown(how, n, -1)
			}
			grown(how, 1025, 5)
		}
		grown('S', 4097, 3200)
	} else {
		for _, how := range []byte{'A', 'S', 'W'} {
			grown(how, tr.Pick(r, []int{1023, 1024, 1025}), -1)
		}
		grown(tr.Pick(r, []byte{'A', 'S'}), tr.Pick(r, []int{4097, 4098, 5000}), -1)
	}
	for _, n := range []int{257, 513} {
		grown(tr.Pick(r, []byte{'A', 'S', 'W'}), n, r.Intn(4))
	}
}

// ---- B lines, family 9: the sweep.  Every queue length 0..600 (the list-based model pays n^2 per
// line, so the quick tier takes every length up to 160 and every fifth beyond, the residue changing
// with the seed, and ends the longer ones earlier), built by Add, Set and NewWithData in turn (the
// slice handed over with 0, 1, 2 or n spare elements), then, in a random order, one of each
// operation AT EXACTLY that length (the length is restored by an Add or a Pop in between): Add at
// offset n, an interior Remove, Pop, Reorder to a different comparison function (quick tier: on half
// of the lines beyond 160),
// the observers with Each stopped at 0, 1, n/2, n; then a Set of exactly as many elements as the
// buffer is known to hold, one fewer, one more, two more.
func genSweep(g *tr.G) {
	r := g.R
	res := r.Intn(5)
	for n := 0; n <= 600; n++ {
		if !g.Thorough() && n > 160 && n%5 != res {
			continue
		}
		h := newScale(g)
		h.tag("scale-sweep")
		capKnown := -1
		cur := "a"
		switch (n + res + n/5) % 3 {
		case 0:
			cur = h.dir()
			h.op("n" + cur)
			h.op("A" + h.gen(n).String())
		case 1:
			if r.Bool() {
				cur = h.dir()
				h.op("n" + cur)
			}
			h.op("S" + h.gen(n).String())
			capKnown = n
		default:
			gs := h.gen(n)
			gs.c = tr.Pick(r, []int{0, 0, 1, 2, n})
			cur = h.dir()
			h.op("W" + cur + gs.String())
			capKnown = n + gs.c
		}
		kinds := []byte{'A', 'R', 'P', 'O'}
		if n <= 160 || g.Thorough() || r.Bool() {
			kinds = append(kinds, 'o')
		}
		for i := len(kinds) - 1; i > 0; i-- {
			j := r.Intn(i + 1)
			kinds[i], kinds[j] = kinds[j], kinds[i]
		}
		for _, k := range kinds {
			if m := h.len(); m < n {
				h.op("A" + h.gen(n-m).String())
			} else if m > n {
				h.pop(m - n)
			}
			switch k {
			case 'A':
				h.op("A" + h.gen(1).String())
			case 'R':
				if n > 2 {
					h.op("R" + strconv.Itoa(tr.Pick(r, []int{1, n - 2, r.Range(1, n-2), r.Range(1, n-2)})))
				}
			case 'P':
				h.pop(1)
			case 'O':
				h.op("O" + strconv.Itoa(tr.Pick(r, []int{0, 1, n / 2, n})))
			default:
				d := h.dir()
				for d == cur {
					d = h.dir()
				}
				cur = d
				h.tag("sweep-reorder-at-length")
				h.op("o" + d)
			}
		}
		h.pop(3) // whatever came last is seen by three Pops
		if !g.Thorough() && n > 160 {
			h.emit()
			continue
		}
		m := n
		if capKnown >= 0 && r.Bool() {
			m = capKnown
		}
		m += tr.Pick(r, []int{-1, 0, 1, 2})
		if m < 0 {
			m = 0
		}
		h.op("S" + h.gen(m).String())
		h.pop(1)
		h.removeReported(1)
		h.op("O0")
		h.emit()
	}
}

// ---- H lines: the same contents by different histories (class "order of earlier operations"),
// then the whole observer set, an Add, removals through reported positions, a drain.
func genRoutes(g *tr.G, dup bool) {
	r := g.R
	for i := 0; i < g.Scale(400, 3000); i++ {
		h := newHist(g, false, tr.Pick(r, []int{3, 8, 40}))
		h.tags["routes"] = true
		if r.Chance(1, 3) {
			h.op("n" + h.dir())
		}
		n := r.Intn(17)
		l := h.list(n)
		addAll := func() {
			for _, e := range l {
				h.op("a" + e.String())
			}
		}
		switch r.Intn(8) {
		case 0:
			h.tags["route-set"] = true
			h.op("s" + elems(l))
		case 1:
			h.tags["route-add"] = true
			addAll()
		case 2: // extras in between, removed again through their reported positions
			h.tags["route-add-extras-removed"] = true
			var extras []E
			for _, e := range l {
				h.op("a" + e.String())
				if r.Chance(1, 3) {
					x := h.fresh(h.key())
					extras = append(extras, x)
					h.op("a" + x.String())
				}
			}
			for _, x := range extras {
				h.op("x" + strconv.Itoa(x.P))
			}
		case 3:
			h.tags["route-drained-by-pop-readded"] = true
			addAll()
			h.drain()
			addAll()
		case 4:
			h.tags["route-drained-by-remove-readded"] = true
			addAll()
			for h.sh.q.Len() > 0 {
				m := h.sh.q.Len()
				h.op("r" + strconv.Itoa(tr.Pick(r, []int{0, m - 1, r.Intn(m)})))
			}
			addAll()
		case 5:
			h.tags["route-cleared-readded"] = true
			addAll()
			h.op("c")
			addAll()
		case 6: // a larger queue once, drained long ago, then Clear
			h.tags["route-large-once"] = true
			for j, k := 0, r.Range(20, 70); j < k; j++ {
				h.add(h.key())
			}
			for h.sh.q.Len() > 3 {
				h.op("p")
			}
			h.op("c")
			addAll()
		default: // removed one by one and put back at once
			h.tags["route-remove-one-readd"] = true
			addAll()
			for j := 0; j < 3 && h.sh.q.Len() > 0; j++ {
				es := h.held()
				e := tr.Pick(r, es)
				h.op("x" + strconv.Itoa(e.P))
				h.op("a" + e.String())
			}
		}
		if r.Chance(1, 4) {
			h.op("o" + h.dir())
		}
		// the whole observer set
		h.op("f")
		h.op("l")
		h.op("e")
		h.op("E0")
		m := h.sh.q.Len()
		h.op("E" + strconv.Itoa(r.Intn(m+2)))
		for j := -1; j <= m && j < 8; j++ {
			h.op("k" + strconv.Itoa(j))
		}
		e := h.fresh(h.key())
		h.op("a" + e.String())
		h.op("x" + strconv.Itoa(e.P))
		for _, e := range h.held() {
			if r.Chance(1, 3) {
				h.op("x" + strconv.Itoa(e.P))
				h.op("f")
			}
		}
		h.add(h.key())
		h.drain()
		h.emit()
	}
}

// ---- H lines: damaged states.  Known finding F1 (pushUp's parent index) lets the array lose heap
// order; the queue is driven (Adds, Pops, interior Removes, no reset) until the front is NOT minimal
// among the held elements, with the callback installed.  Then the next insertion point is steered
// (harmless Adds of a last-ranking key, Removes of the last slot: neither moves anything) so that
// pushUp's first comparison partner, offset n/2, or the true parent (n-1)/2 is a chosen held element
// -- one that ranks before the front when there is one -- and a key is added that ranks around that
// element, around the front, between the two, before everything, behind everything; the new
// element is removed through its reported position or stays; Front, Pops, more rounds, a drain.
// C06 holds in these states (positions are reported whatever the order); C05's minimality fails
// in them and is attributed to F1/F2 by the rule of the driver.
func genDamaged(g *tr.G, dup bool) {
	r := g.R
	count := g.Scale(1200, 6000)
	if g.Prop != "C06" {
		count = g.Scale(300, 2000)
	}
	for i := 0; i < count; i++ {
		h := newHist(g, false, tr.Pick(r, []int{12, 30, 60}))
		h.tags["damaged-search"] = true
		if r.Chance(1, 4) {
			h.op("n" + tr.Pick(r, []string{"d", "A", "D", "a"}))
		}
		cur := func() func(a, b E) int { return h.sh.cur }
		lay := func() []E { return h.held() }
		notMin := func() bool {
			l := lay()
			for _, e := range l {
				if cur()(e, l[0]) < 0 {
					return true
				}
			}
			return false
		}
		for tries := 0; tries < 300 && !(h.sh.q.Len() >= 5 && notMin()); tries++ {
			n := h.sh.q.Len()
			switch {
			case n < 5 || (n < 22 && r.Chance(3, 5)):
				h.add(h.key())
			case r.Chance(3, 4):
				h.op("p")
			default:
				h.op("r" + strconv.Itoa(r.Range(1, n-1)))
			}
		}
		if h.sh.q.Len() >= 5 && notMin() {
			h.tags["front-not-min"] = true
		}
		for round, rounds := 0, r.Range(1, 3); round < rounds; round++ {
			l := lay()
			n := len(l)
			if n < 3 {
				break
			}
			// the element the insertion is aimed at
			var before []int
			for j := 1; j < n; j++ {
				if cur()(l[j], l[0]) < 0 {
					before = append(before, j)
				}
			}
			j := r.Range(1, n-1)
			if len(before) > 0 && r.Chance(3, 4) {
				j = tr.Pick(r, before)
				h.tags["aimed-at-element-before-front"] = true
			}
			// a key that ranks last under the current comparison
			lo, hi := l[0].K, l[0].K
			for _, e := range l {
				if e.K < lo {
					lo = e.K
				}
				if e.K > hi {
					hi = e.K
				}
			}
			lastKey := hi + 5
			if cur()(E{lo - 5, 0}, E{hi + 5, 0}) > 0 {
				lastKey = lo - 5
			}
			target := tr.Pick(r, []int{2 * j, 2*j + 1, 2*j + 1, 2*j + 2})
			for h.sh.q.Len() < target && h.sh.q.Len() < 80 {
				h.op("a" + h.fresh(lastKey).String())
			}
			for h.sh.q.Len() > target && h.sh.q.Len() > j+1 {
				h.op("r" + strconv.Itoa(h.sh.q.Len()-1))
			}
			kj, kf := l[j].K, l[0].K
			v := tr.Pick(r, []int{kj, kj + 1, kj - 1, kf, kf - 1, kf + 1, (kj + kf) / 2, lo - 1, hi + 1, h.key()})
			e := h.fresh(v)
			h.op("a" + e.String())
			h.tags["aimed-add"] = true
			switch r.Intn(4) {
			case 0:
				h.op("x" + strconv.Itoa(e.P))
			case 1:
				h.op("f")
				h.op("p")
			case 2:
				es := h.held()
				h.op("x" + strconv.Itoa(tr.Pick(r, es).P))
			}
		}
		if r.Chance(1, 2) {
			h.drain()
		} else {
			for _, e := range h.held() {
				h.op("x" + strconv.Itoa(e.P))
			}
		}
		h.emit()
	}
}

func genRound4(g *tr.G) {
	dup := g.Prop != "C06"
	genRoutes(g, dup)
	genDamaged(g, dup)
	genCapHistory(g)
	genSweep(g)
	genTieRuns(g)
	genSortSweep(g)
}
