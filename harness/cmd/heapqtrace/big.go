// B lines: the "scale" stream (round 3).  Histories on heapq.Queue[E] holding hundreds to thousands
// of elements (2^k-1, 2^k, 2^k+1 for k up to 12), with batched operations and bounded records.
//
//	B <op>;<op>;…  |  <rec>;<rec>;…
//
// Every history starts with heapq.New(a).Update(callback).  Payloads are handed out by the
// history itself: 1, 2, 3, … in the order in which elements are generated, so every element is
// distinguishable whatever its key.  An element list is never written out; it is a generator
//
//	G = <pat><n>,<a>,<b>[,<c>]     n elements (n <= 10000), key of the j-th (j = 0..n-1):
//	    u  a+j            d  a+(n-1-j)        e  a (all equal)      z  a+j (j even), a+2n-j (j odd)
//	    b  a+j/b (runs of b equal keys, b >= 1)
//	    r  1 + (x_(j+1)>>8) mod a,  x_0 = b,  x_(i+1) = (x_i*1103515245+12345) mod 2^31   (a >= 1)
//	    c: spare capacity of the slice handed to NewWithData (ignored elsewhere and by the model)
//
// ops and the result part of their records:
//
//	n<dir>       New(cmp).Update(cb)                       u
//	W<dir><G>    NewWithData(cmp, slice).Update(cb)        u
//	S<G>         Set(slice), then the slice is poisoned    u
//	A<G>         Add each element in order                 i<count>:<fnv of the returned indexes>:<samples>
//	             a sample  <j>=<index>/<Peek(index) right after the Add>/<position last reported for
//	             the new element, '-' if none>  is printed for the adds j with j < 3, j >= n-3, or whose
//	             offset m (Len before the Add) has m, m+1 or m+2 a power of two
//	P<k>         k times Pop                               v<number of ok results>:<the returned elements>
//	R<i>         Peek(i), then Remove(i)                   <Remove: v<elem> | ->/<Peek: v<elem> | ->,  ! for the panic of i < 0
//	X<p>         Remove(last position reported for payload p)   v<elem> | -     ('?' if none was reported)
//	o<dir>       Reorder                                   u
//	c            Clear                                     u
//	U0 U1        Update(nil), Update(cb)                   u
//	O<k>         all observers                             n<Len>,b<IsEmpty>,f<Front>,E<count>:<fnv of Each>,
//	                                                       e<count>:<fnv of Each stopped at its k-th call>,
//	                                                       K<fnv of Peek(i) for the swept offsets i: see
//	                                                       peekSwept>,<Peek(-1)>,<Peek(Len)>
//
// A record is  <result>@<number of callback calls>:<fnv of them>#<state>  with
//
//	state = <Len>/<fnv of the layout (Peek(0..Len-1))>/<fnv of the contents sorted by (key, payload)>/
//	        <the elements at offsets 0,1,2,Len-3..Len-1>/<wrong>/<missing>
//	wrong   = <count>{:<elem>@<offset>=<reported>}   held elements whose last reported position is not
//	          their offset (at most 8 listed, in offset order)
//	missing = <count>{:<elem>@<offset>}              held elements with no reported position at all
//
// The reported positions are forgotten at n, W and U0 (a new queue, or no callback any more), so in a
// correct implementation wrong is always 0 and missing counts exactly the elements that entered while
// no callback was installed and have not moved since.  fnv is FNV-1a 64 of the comma-separated text.
// An unreadable op prints '?' and is skipped; a panic inside the package prints PANIC:<kind> and ends
// the history.
package main

import (
	"fmt"
	"sort"
	"strconv"
	"strings"

	"github.com/creachadair/mds/heapq"
	"verif/harness/internal/tr"
)

const (
	fnvBasis = uint64(0xcbf29ce484222325)
	fnvPrime = uint64(0x100000001b3)
	bigMaxN  = 10000
)

func fnvAdd(h uint64, s string) uint64 {
	for i := 0; i < len(s); i++ {
		h ^= uint64(s[i])
		h *= fnvPrime
	}
	return h
}

func fnvElems(es []E) uint64 {
	h := fnvBasis
	for i, e := range es {
		if i > 0 {
			h = fnvAdd(h, ",")
		}
		h = fnvAdd(h, e.String())
	}
	return h
}

func pow2(x int) bool { return x > 0 && x&(x-1) == 0 }

// the offsets whose Peek goes into the K digest of an O record: all of them up to 1100 elements;
// beyond that (the list model pays O(i) for Peek(i)) the first and last 300, every 16th, and the
// offsets next to the level boundaries
func peekSwept(i, n int) bool {
	return n <= 1100 || i < 300 || i >= n-300 || i%16 == 0 || pow2(i) || pow2(i+1) || pow2(i+2)
}

type gspec struct {
	pat        byte
	n, a, b, c int
}

func parseG(s string) (gspec, bool) {
	if len(s) < 2 || !strings.ContainsRune("udezbr", rune(s[0])) {
		return gspec{}, false
	}
	parts := strings.Split(s[1:], ",")
	if len(parts) != 3 && len(parts) != 4 {
		return gspec{}, false
	}
	var v [4]int
	for i, p := range parts {
		x, ok := parseInt(p)
		if !ok {
			return gspec{}, false
		}
		v[i] = x
	}
	g := gspec{s[0], v[0], v[1], v[2], v[3]}
	if g.n < 0 || g.n > bigMaxN || g.c < 0 || g.c > bigMaxN {
		return gspec{}, false
	}
	if (g.pat == 'b' && g.b < 1) || (g.pat == 'r' && (g.a < 1 || g.b < 0)) {
		return gspec{}, false
	}
	return g, true
}

func (g gspec) String() string {
	s := fmt.Sprintf("%c%d,%d,%d", g.pat, g.n, g.a, g.b)
	if g.c != 0 {
		s += "," + strconv.Itoa(g.c)
	}
	return s
}

func (g gspec) keys() []int {
	ks := make([]int, g.n)
	x := g.b
	for j := range ks {
		switch g.pat {
		case 'u':
			ks[j] = g.a + j
		case 'd':
			ks[j] = g.a + (g.n - 1 - j)
		case 'e':
			ks[j] = g.a
		case 'z':
			if j%2 == 0 {
				ks[j] = g.a + j
			} else {
				ks[j] = g.a + 2*g.n - j
			}
		case 'b':
			ks[j] = g.a + j/g.b
		case 'r':
			x = (x*1103515245 + 12345) & 0x7fffffff
			ks[j] = 1 + (x>>8)%g.a
		}
	}
	return ks
}

type bsession struct {
	q     *heapq.Queue[E]
	pos   map[int]int
	nextP int
	mvN   int
	mvH   uint64
}

func (s *bsession) cb(e E, i int) {
	if s.mvN > 0 {
		s.mvH = fnvAdd(s.mvH, ",")
	}
	s.mvH = fnvAdd(s.mvH, e.String()+":"+strconv.Itoa(i))
	s.mvN++
	s.pos[e.P] = i
}

func (s *bsession) elems(g gspec) []E {
	ks := g.keys()
	es := make([]E, len(ks), len(ks)+g.c)
	for j, k := range ks {
		es[j] = E{k, s.nextP}
		s.nextP++
	}
	return es
}

func (s *bsession) layout() ([]E, bool) {
	n := s.q.Len()
	out := make([]E, n)
	for i := range out {
		v, ok := s.q.Peek(i)
		if !ok {
			return nil, false
		}
		out[i] = v
	}
	return out, true
}

func (s *bsession) state() string {
	lay, ok := s.layout()
	if !ok {
		return "PEEKFAIL"
	}
	n := len(lay)
	sorted := append([]E(nil), lay...)
	sort.Slice(sorted, func(i, j int) bool {
		if sorted[i].K != sorted[j].K {
			return sorted[i].K < sorted[j].K
		}
		return sorted[i].P < sorted[j].P
	})
	win := dedupWindow(lay)
	wrongN, missN := 0, 0
	var wrong, miss []string
	for i, e := range lay {
		p, ok := s.pos[e.P]
		switch {
		case !ok:
			missN++
			if missN <= 8 {
				miss = append(miss, ":"+e.String()+"@"+strconv.Itoa(i))
			}
		case p != i:
			wrongN++
			if wrongN <= 8 {
				wrong = append(wrong, ":"+e.String()+"@"+strconv.Itoa(i)+"="+strconv.Itoa(p))
			}
		}
	}
	return fmt.Sprintf("%d/%x/%x/%s/%d%s/%d%s", n, fnvElems(lay), fnvElems(sorted), strings.Join(win, ","),
		wrongN, strings.Join(wrong, ""), missN, strings.Join(miss, ""))
}

// the elements at offsets 0,1,2,n-3,n-2,n-1 (each offset once)
func dedupWindow(lay []E) []string {
	n := len(lay)
	var out []string
	for i := 0; i < n; i++ {
		if i < 3 || i >= n-3 {
			out = append(out, lay[i].String())
		}
	}
	return out
}

func (s *bsession) do(op string) string {
	if op == "" {
		return "?"
	}
	arg := op[1:]
	switch op[0] {
	case 'n':
		c, ok := cmpOf(last(arg))
		if !ok || len(arg) != 1 {
			return "?"
		}
		s.pos = map[int]int{}
		s.q = heapq.New(c).Update(s.cb)
		return "u"
	case 'W':
		if arg == "" {
			return "?"
		}
		c, ok := cmpOf(arg[0])
		g, ok2 := parseG(arg[1:])
		if !ok || !ok2 {
			return "?"
		}
		s.pos = map[int]int{}
		s.q = heapq.NewWithData(c, s.elems(g)).Update(s.cb)
		return "u"
	case 'S':
		g, ok := parseG(arg)
		if !ok {
			return "?"
		}
		es := s.elems(g)
		if s.q.Set(es) != s.q {
			return "NOTSELF"
		}
		for i := range es {
			es[i] = E{-1, -1}
		}
		return "u"
	case 'A':
		g, ok := parseG(arg)
		if !ok {
			return "?"
		}
		es := s.elems(g)
		h := fnvBasis
		var samples []string
		for j, e := range es {
			m := s.q.Len()
			idx := s.q.Add(e)
			if j > 0 {
				h = fnvAdd(h, ",")
			}
			h = fnvAdd(h, strconv.Itoa(idx))
			if j < 3 || j >= len(es)-3 || pow2(m) || pow2(m+1) || pow2(m+2) {
				rep := "-"
				if p, ok := s.pos[e.P]; ok {
					rep = strconv.Itoa(p)
				}
				pk := "-"
				if idx >= 0 {
					if v, ok := s.q.Peek(idx); ok {
						pk = v.String()
					}
				}
				samples = append(samples, strconv.Itoa(j)+"="+strconv.Itoa(idx)+"/"+pk+"/"+rep)
			}
		}
		return fmt.Sprintf("i%d:%x:%s", len(es), h, strings.Join(samples, ","))
	case 'P':
		k, ok := parseInt(arg)
		if !ok || k < 0 || k > bigMaxN {
			return "?"
		}
		var got []E
		for i := 0; i < k; i++ {
			if v, ok := s.q.Pop(); ok {
				got = append(got, v)
			}
		}
		return fmt.Sprintf("v%d:%s", len(got), elems(got))
	case 'R':
		i, ok := parseInt(arg)
		if !ok {
			return "?"
		}
		if i < 0 {
			var res string
			if pk := tr.Catch(func() { res = val(s.q.Remove(i)) }); pk == "panic:index" {
				return "!"
			} else if pk != "" {
				panic(pk)
			}
			return res + "/?"
		}
		pk := val(s.q.Peek(i))
		return val(s.q.Remove(i)) + "/" + pk
	case 'X':
		p, ok := parseInt(arg)
		if !ok {
			return "?"
		}
		i, ok := s.pos[p]
		if !ok || i < 0 {
			return "?"
		}
		return val(s.q.Remove(i))
	case 'o':
		c, ok := cmpOf(last(arg))
		if !ok || len(arg) != 1 {
			return "?"
		}
		s.q.Reorder(c)
		return "u"
	case 'c':
		if arg != "" {
			return "?"
		}
		s.q.Clear()
		return "u"
	case 'U':
		switch arg {
		case "0":
			if s.q.Update(nil) != s.q {
				return "NOTSELF"
			}
			s.pos = map[int]int{}
		case "1":
			if s.q.Update(s.cb) != s.q {
				return "NOTSELF"
			}
		default:
			return "?"
		}
		return "u"
	case 'O':
		k, ok := parseInt(arg)
		if !ok || k < 0 {
			return "?"
		}
		n := s.q.Len()
		var all, some []E
		s.q.Each(func(e E) bool { all = append(all, e); return true })
		calls := 0
		s.q.Each(func(e E) bool { calls++; some = append(some, e); return calls != k })
		lay, ok := s.layout()
		if !ok {
			return "PEEKFAIL"
		}
		neg := "?"
		if pk := tr.Catch(func() { neg = val(s.q.Peek(-1)) }); pk == "panic:index" {
			neg = "!"
		} else if pk != "" {
			panic(pk)
		}
		var swept []E
		for i, e := range lay {
			if peekSwept(i, n) {
				swept = append(swept, e)
			}
		}
		return fmt.Sprintf("n%d,b%s,f%s,E%d:%x,e%d:%x,K%x,%s,%s", n, tr.B(s.q.IsEmpty()), s.q.Front().String(),
			len(all), fnvElems(all), len(some), fnvElems(some), fnvElems(swept), neg, val(s.q.Peek(n)))
	}
	return "?"
}

func execBig(rest string) string {
	s := &bsession{pos: map[int]int{}, nextP: 1}
	s.q = heapq.New(asc).Update(s.cb)
	var outs []string
	for _, op := range strings.Split(rest, ";") {
		s.mvN, s.mvH = 0, fnvBasis
		var res string
		if pk := tr.Catch(func() { res = s.do(op) }); pk != "" {
			outs = append(outs, "PANIC:"+strings.TrimPrefix(pk, "panic:"))
			break
		}
		if res == "?" {
			outs = append(outs, "?")
			continue
		}
		var st string
		if pk := tr.Catch(func() { st = s.state() }); pk != "" {
			outs = append(outs, "PANIC:"+strings.TrimPrefix(pk, "panic:"))
			break
		}
		outs = append(outs, fmt.Sprintf("%s@%d:%x#%s", res, s.mvN, s.mvH, st))
	}
	return strings.Join(outs, ";")
}

// ---------------------------------------------------------------- generation

// scaleHist builds a B history against a shadow session, so that indexes and payloads are aimed at
// what is held.
type scaleHist struct {
	g    *tr.G
	ops  []string
	sh   *bsession
	tags map[string]bool
	max  int
	pops int // returned values so far (they are printed in full: kept bounded per line)
}

func newScale(g *tr.G) *scaleHist {
	h := &scaleHist{g: g, tags: map[string]bool{"scale": true}}
	h.sh = &bsession{pos: map[int]int{}, nextP: 1}
	h.sh.q = heapq.New(asc).Update(h.sh.cb)
	return h
}

func (h *scaleHist) tag(t string) { h.tags[t] = true }

func (h *scaleHist) op(s string) {
	h.ops = append(h.ops, s)
	tr.Catch(func() { h.sh.do(s) })
	if n := h.sh.q.Len(); n > h.max {
		h.max = n
	}
}

func (h *scaleHist) len() int { return h.sh.q.Len() }

func (h *scaleHist) emit() {
	for k := 6; k <= 12; k++ {
		if h.max >= 1<<k-1 {
			h.tag("scale-len>=2^" + strconv.Itoa(k) + "-1")
		}
	}
	var tags []string
	for t := range h.tags {
		tags = append(tags, t)
	}
	sort.Strings(tags)
	h.g.Emit("B "+strings.Join(h.ops, ";"), true, tags...)
}

// a generator of n elements: a random key pattern, with the patterns that make many ties often
func (h *scaleHist) gen(n int) gspec {
	r := h.g.R
	switch r.Intn(10) {
	case 0:
		return gspec{'u', n, r.Range(1, 50), 0, 0}
	case 1:
		return gspec{'d', n, r.Range(1, 50), 0, 0}
	case 2:
		h.tag("scale-all-equal")
		return gspec{'e', n, r.Range(1, 9), 0, 0}
	case 3:
		return gspec{'z', n, r.Range(1, 9), 0, 0}
	case 4:
		h.tag("scale-tie-runs>32")
		return gspec{'b', n, r.Range(1, 9), tr.Pick(r, []int{33, 40, 64, 100}), 0}
	case 5, 6:
		h.tag("scale-many-ties")
		return gspec{'r', n, tr.Pick(r, []int{2, 3, 7, 16}), r.Intn(1 << 20), 0}
	default:
		return gspec{'r', n, tr.Pick(r, []int{n/2 + 1, n + 1, 4*n + 1, 100000}), r.Intn(1 << 20), 0}
	}
}

func (h *scaleHist) dir() string {
	r := h.g.R
	if r.Chance(1, 2) {
		return string("ad"[r.Intn(2)])
	}
	return string(dirs[r.Range(2, len(dirs)-1)])
}

// build a queue of n elements by Add, by Set or by NewWithData
func (h *scaleHist) build(how byte, n int) {
	switch how {
	case 'A':
		h.tag("scale-built-by-add")
		h.op("n" + h.dir())
		h.op("A" + h.gen(n).String())
	case 'S':
		h.tag("scale-built-by-set")
		if h.g.R.Chance(1, 2) {
			h.op("n" + h.dir())
		}
		h.op("S" + h.gen(n).String())
	default:
		h.tag("scale-built-by-newwithdata")
		g := h.gen(n)
		if h.g.R.Chance(1, 3) {
			g.c = tr.Pick(h.g.R, []int{1, 7, n})
		}
		h.op("W" + h.dir() + g.String())
	}
}

func (h *scaleHist) observe() {
	n := h.len()
	h.op("O" + strconv.Itoa(tr.Pick(h.g.R, []int{0, 1, n / 2, n, n + 1})))
}

// one interior Remove on every level of the heap (a random offset of the level), deepest first or
// shallowest first
func (h *scaleHist) removeEveryLevel() {
	r := h.g.R
	h.tag("scale-remove-every-level")
	var lv []int
	for lo := 1; lo < h.len(); lo = 2*lo + 1 {
		lv = append(lv, lo)
	}
	if r.Bool() {
		for i, j := 0, len(lv)-1; i < j; i, j = i+1, j-1 {
			lv[i], lv[j] = lv[j], lv[i]
		}
	}
	for _, lo := range lv {
		n := h.len()
		hi := 2 * lo
		if hi > n-1 {
			hi = n - 1
		}
		if lo > hi {
			continue
		}
		h.op("R" + strconv.Itoa(tr.Pick(r, []int{lo, hi, r.Range(lo, hi)})))
	}
}

// Remove through the reported position of k held elements
func (h *scaleHist) removeReported(k int) {
	for i := 0; i < k && h.len() > 0; i++ {
		v, _ := h.sh.q.Peek(h.g.R.Intn(h.len()))
		if _, ok := h.sh.pos[v.P]; ok {
			h.tag("scale-x-remove")
			h.op("X" + strconv.Itoa(v.P))
		}
	}
}

func (h *scaleHist) pop(k int) {
	if k <= 0 {
		return
	}
	h.pops += k
	h.op("P" + strconv.Itoa(k))
}

func (h *scaleHist) edges() {
	n := h.len()
	h.op("R" + strconv.Itoa(tr.Pick(h.g.R, []int{-1, n, n + 1, 0, n - 1})))
}

func aroundPow2(k int) []int { return []int{1<<k - 1, 1 << k, 1<<k + 1} }

// budget of explicitly printed Pop results per line
const popBudget = 1100

func genScale(g *tr.G) {
	r := g.R
	// sizes: every one of 2^k-1, 2^k, 2^k+1 for k <= all, one of the three (which one changes with the
	// seed) for all < k <= one.  The extracted model works on lists (a Set of 4096 elements takes it
	// over a second), so the quick tier takes every size up to 257, one per k for 512 and 1024 (families 2
	// to 6: one of the two), and two single histories at 2048 and 4096; the thorough tier takes everything.
	sizes := func(all, one int) []int {
		if g.Thorough() {
			all = one
		}
		var out []int
		for k := 1; k <= one; k++ {
			if k <= all {
				out = append(out, aroundPow2(k)...)
			} else {
				out = append(out, tr.Pick(r, aroundPow2(k)))
			}
		}
		return out
	}
	// the same, but in the quick tier only one k of all < k <= one (families 2 to 6)
	sparse := func(all, one int) []int {
		if g.Thorough() {
			return sizes(all, one)
		}
		return append(sizes(all, all), tr.Pick(r, aroundPow2(r.Range(all+1, one))))
	}
	// 1. build (by Add, Set, NewWithData), observe, one interior Remove per level, pops, observe
	family1 := func(how byte, n int) {
		h := newScale(g)
		h.build(how, n)
		h.observe()
		// Adds at the deepest offsets, whatever built the queue: keys below and above everything held
		h.tag("scale-add-deep")
		h.op("A" + gspec{'r', r.Range(2, 4), 2, r.Intn(1 << 20), 0}.String())
		h.op("A" + gspec{'u', 2, 200000, 0, 0}.String())
		h.removeEveryLevel()
		h.removeReported(3)
		h.edges()
		if n < 2100 || g.Thorough() {
			h.observe()
		}
		k := h.len()
		if k > 2100 {
			k = 64
		} else if k > 300 {
			k = tr.Pick(r, []int{64, 130, 257})
		}
		h.pop(k + 1)
		h.observe()
		if n >= 1000 {
			// a Set of a third as many (still hundreds of) elements into the buffer that is there
			h.tag("scale-set-into-bigger-buffer")
			h.op("S" + h.gen(n/3).String())
			h.observe()
			h.pop(20)
		}
		h.emit()
	}
	for _, how := range []byte{'A', 'S', 'W'} {
		for _, n := range sizes(8, g.Scale(10, 12)) {
			family1(how, n)
		}
	}
	if !g.Thorough() {
		family1(tr.Pick(r, []byte{'A', 'S', 'W'}), tr.Pick(r, aroundPow2(11)))
		family1(tr.Pick(r, []byte{'A', 'W'}), tr.Pick(r, aroundPow2(12))) // a Set of 4096: thorough tier
	}
	// 2. grow, drain to an eighth .. a half by Pop (the slowest path), every observer, removals on
	// every remaining level, regrow past the old size, drain
	for _, n := range sparse(8, 10) {
		if n < 8 {
			continue
		}
		h := newScale(g)
		h.tag("scale-grow-drain-regrow")
		h.build(tr.Pick(r, []byte{'A', 'A', 'S', 'W'}), n)
		keep := r.Range(n/8, n/2)
		h.pop(n - keep)
		h.observe()
		h.removeEveryLevel()
		h.removeReported(2)
		h.op("A" + h.gen(n-h.len()+r.Range(1, 3)).String())
		h.observe()
		if rest := popBudget - h.pops; rest > h.len() {
			h.pop(h.len() + 1)
		} else if rest > 0 {
			h.pop(rest)
		}
		h.observe()
		h.emit()
	}
	// 3. Reorder in mid-life at even and odd sizes, towards every kind of comparison
	for _, n := range sparse(8, g.Scale(10, 11)) {
		if n < 2 {
			continue
		}
		h := newScale(g)
		if n%2 == 0 {
			h.tag("scale-reorder-even")
		} else {
			h.tag("scale-reorder-odd")
		}
		h.build(tr.Pick(r, []byte{'A', 'S', 'W'}), n)
		h.op("o" + h.dir())
		h.observe()
		h.pop(tr.Pick(r, []int{1, 2, 3, 17}))
		h.op("o" + h.dir())
		h.observe()
		h.op("A" + h.gen(r.Range(1, 4)).String())
		h.op("o" + string(dirs[r.Intn(len(dirs))]))
		k := h.len()
		if k > 200 {
			k = 65
		}
		h.pop(k + 1)
		h.observe()
		h.emit()
	}
	// 4. the callback removed, re-installed and removed again in mid-life; Set as the reset that
	// makes every element tracked again
	for _, n := range sparse(8, g.Scale(10, 11)) {
		if n < 3 {
			continue
		}
		h := newScale(g)
		h.tag("scale-update-cycle")
		h.build(tr.Pick(r, []byte{'A', 'S', 'W'}), n)
		h.op("U0")
		h.op("A" + h.gen(r.Range(1, 9)).String())
		h.pop(r.Range(1, 5))
		h.op("R" + strconv.Itoa(r.Range(1, h.len()-1)))
		h.observe()
		h.op("U1")
		h.observe()
		first := h.sh.nextP
		h.op("A" + h.gen(r.Range(2, 12)).String())
		for p := first; p < h.sh.nextP; p += 3 {
			h.tag("scale-x-remove")
			h.op("X" + strconv.Itoa(p))
		}
		h.removeEveryLevel()
		h.pop(r.Range(1, 40))
		h.observe()
		if r.Bool() {
			h.op("U0")
			h.pop(3)
			h.op("U1")
		}
		h.op("S" + h.gen(tr.Pick(r, []int{n / 2, n, n + 1})).String())
		h.removeReported(4)
		h.pop(r.Range(1, 40))
		h.observe()
		h.emit()
	}
	// 5. Set with an empty and with a one-element slice as a reset of a big queue, life goes on;
	// then a big Set again into the buffer that is still there
	for _, n := range sparse(8, g.Scale(10, 12)) {
		for _, one := range []int{0, 1} {
			if n < 4 || (n > 600 && one != r.Intn(2)) {
				continue
			}
			h := newScale(g)
			h.tag("scale-set-reset-" + strconv.Itoa(one))
			h.build(tr.Pick(r, []byte{'A', 'S', 'W'}), n)
			h.op("S" + h.gen(one).String())
			h.observe()
			first := h.sh.nextP
			h.op("A" + h.gen(r.Range(1, 20)).String())
			h.op("X" + strconv.Itoa(first))
			h.removeReported(2)
			h.pop(2)
			h.observe()
			if r.Bool() {
				h.op("c")
				h.op("A" + h.gen(r.Range(1, 5)).String())
			}
			h.op("S" + h.gen(tr.Pick(r, []int{n - 1, n, n + 1, n / 2})).String())
			h.observe()
			h.removeEveryLevel()
			h.pop(r.Range(1, 60))
			h.observe()
			h.emit()
		}
	}
	// 6. long runs of equal priorities with distinguishable payloads: Pop and Remove while the last
	// element ties with the one taken out
	for _, n := range sparse(8, 10) {
		if n < 3 {
			continue
		}
		h := newScale(g)
		h.tag("scale-ties")
		d := tr.Pick(r, []string{"a", "d", "m", "M", "z", "A"})
		gs := tr.Pick(r, []gspec{{'e', n, 5, 0, 0}, {'b', n, 1, 40, 0}, {'b', n, 1, 33, 0}, {'r', n, 2, r.Intn(999), 0}, {'r', n, 5, r.Intn(999), 0}})
		switch r.Intn(3) {
		case 0:
			h.op("n" + d)
			h.op("A" + gs.String())
		case 1:
			h.op("n" + d)
			h.op("S" + gs.String())
		default:
			h.op("W" + d + gs.String())
		}
		h.removeEveryLevel()
		h.pop(tr.Pick(r, []int{1, 5, 33}))
		h.removeReported(3)
		h.observe()
		k := h.len()
		if k > 250 {
			k = 100
		}
		h.pop(k + 1)
		h.observe()
		h.emit()
	}
	// 7. random batched histories with a few random large sizes
	for i := 0; i < g.Scale(30, 120); i++ {
		h := newScale(g)
		h.tag("scale-random")
		top := tr.Pick(r, []int{40, 100, 300, 700})
		if g.Thorough() {
			top = tr.Pick(r, []int{40, 100, 300, 700, 1500, 3000})
		}
		for len(h.ops) < 24 {
			n := h.len()
			switch r.Intn(14) {
			case 0, 1, 2:
				if n < top {
					h.op("A" + h.gen(r.Range(1, top/2)).String())
				}
			case 3:
				h.build('S', r.Range(0, top))
			case 4:
				h.build('W', r.Range(0, top))
			case 5:
				if rest := popBudget - h.pops; rest > 0 {
					k := r.Range(1, 1+n/2)
					if k > rest {
						k = rest
					}
					h.pop(k)
				}
			case 6:
				h.removeEveryLevel()
			case 7:
				h.removeReported(3)
			case 8:
				h.op("o" + h.dir())
			case 9:
				h.observe()
			case 10:
				h.op(tr.Pick(r, []string{"U0", "U1", "U1"}))
			case 11:
				h.edges()
			case 12:
				if r.Chance(1, 3) {
					h.op(tr.Pick(r, []string{"c", "n" + h.dir(), "S" + h.gen(r.Intn(2)).String()}))
				}
			case 13:
				if n > 2 {
					h.op("R" + strconv.Itoa(r.Range(1, n-2)))
				}
			}
		}
		h.op("U1")
		h.observe()
		h.emit()
	}
	// heapq.Sort around powers of two (explicit output: up to 2^10+1 elements)
	if g.Prop != "C06" {
		for k := 6; k <= 10; k++ {
			for _, n := range aroundPow2(k) {
				if k >= 9 && !g.Thorough() && !r.Chance(1, 3) {
					continue
				}
				gs := (&scaleHist{g: g, tags: map[string]bool{}}).gen(n)
				ks := gs.keys()
				es := make([]E, n)
				for j := range es {
					es[j] = E{ks[j], j + 1}
				}
				d := dirs[r.Intn(len(dirs))]
				g.Emit("S "+string(d)+elems(es), true, "sort", "scale", "scale-sort")
			}
		}
	}
}
